import PacketVerif.Model.Dhcp4Opt
import PacketVerif.Model.Dhcp4InPlace
namespace PV.Drv.Dhcp4Opt
open PV PV.Model.Dhcp4Opt

/-! `dhcp.parse <hex packet>` → `<validateOptions> | <ParseOptions>`
    `dhcp.enc <hex buffer> <opcode> <mt> <chaddr|~> <ciaddr|~> <yiaddr|~> <xid|~> <bcast> <opts> <order> <wire|~>`
      → `ok <hex>` | `nil` | `panic`   (`wire` = option codes in the order the implementation wrote them: it fixes the
      map-iteration order of the options not named in `order`; the driver checks it is a permutation of them) -/

def optHex? (s : String) : Option (Option Bytes) :=
  if s == "~" then some none else (fromHex s).map some

def parseOpts (s : String) : Option Opts :=
  if s == "-" then some []
  else (s.splitOn ",").mapM (fun kv =>
    match kv.splitOn "=" with
    | [k, v] => do some (UInt8.ofNat (← k.toNat?), ← fromHex v)
    | _ => none)

def showOpts (o : Opts) : String :=
  let s := o.mergeSort (fun a b => a.1.toNat ≤ b.1.toNat)
  if s.isEmpty then "-" else ",".intercalate (s.map (fun e => s!"{e.1.toNat}={toHex e.2}"))

def isPerm (a b : List UInt8) : Bool :=
  a.length == b.length && a.all (fun x => a.count x == b.count x)

/-! `dhcp.inplace <hex backing array> <opcode> <mt> <chaddr|~> <ciaddr|~> <yiaddr|~> <xid|~> <bcast> <opts> <order> <wire|~>`:
    `EncodeDHCP4` IN PLACE (`Model.Dhcp4Opt.encodeDHCP4Mem`): an option value / the order list is `<hex>` (a value of
    its own) or `@<off>+<len>` (a window of the backing array).  Reply: the memory-level result; when no header write
    touches a window, ` | values <r>` = the value-level `encodeDHCP4` of the call-time values (must be the same). -/

def parseSrc (s : String) : Option Src :=
  match s.toList with
  | '@' :: cs =>
    match (String.ofList cs).splitOn "+" with
    | [o, l] => do some (.ref (← o.toNat?) (← l.toNat?))
    | _ => none
  | _ => (fromHex s).map .lit

def parseSrcOpts (s : String) : Option (List (UInt8 × Src)) :=
  if s == "-" then some []
  else (s.splitOn ",").mapM (fun kv =>
    match kv.splitOn "=" with
    | [k, v] => do some (UInt8.ofNat (← k.toNat?), ← parseSrc v)
    | _ => none)

def showEnc (o : Outcome Bytes) : String :=
  match o with
  | .ok [] => "nil"
  | .ok p => "ok " ++ toHex p
  | .panic => "panic"
  | .err _ => "err"
  | .hang => "hang"

def srcUntouched (ws : List (Nat × Bytes)) : Src → Bool
  | .lit _ => true
  | .ref off len => ws.all (fun w => decide (off + len ≤ w.1) || decide (w.1 + w.2.length ≤ off))

def inplace (m : Bytes) (a : MArgs) (wire : String) : String :=
  let m1 := applyWrites m (hdrWrites a)
  let optsV : Opts := optSet (a.opts.map (fun e => (e.1, e.2.read m1))) 53 [a.mt]
  let r := orderedPhase (fullOrder (a.order.read m1)) optsV
  let remaining := r.2.map (·.1)
  let tail := match (if wire == "nil" then none else (optHex? wire).join) with
    | some w => w.drop r.1.length
    | none => remaining
  if !isPerm tail remaining then "bad-tail"
  else
    let mem := showEnc (encodeDHCP4Mem m a tail)
    if a.opts.all (fun e => srcUntouched (hdrWrites a) e.2) && srcUntouched (hdrWrites a) a.order then
      mem ++ " | values " ++ showEnc (encodeDHCP4 m (a.values m) tail)
    else mem

def handle (cmd : String) (args : List String) : Option String :=
  match cmd, args with
  | "dhcp.parse", [h] => do
    let p ← fromHex h
    some (outcomeStr (fun _ => "-") (validateOptions p) ++ " | " ++ outcomeStr showOpts (parseOptions p))
  | "dhcp.enc", [hb, opcode, mt, ch, ci, yi, xid, bc, opts, order, wire] => do
    let b ← fromHex hb
    let a : EncArgs := { opcode := UInt8.ofNat (← opcode.toNat?), mt := UInt8.ofNat (← mt.toNat?), chaddr := ← optHex? ch,
                         ciaddr := ← optHex? ci, yiaddr := ← optHex? yi, xid := ← optHex? xid, broadcast := bc == "1",
                         opts := ← parseOpts opts, order := ← fromHex order }
    let r := orderedPhase (fullOrder a.order) (optSet a.opts 53 [a.mt])
    let remaining := r.2.map (·.1)
    -- `nil`: the implementation returned nil (buffer under 300 bytes, or no room for the options and the end marker)
    let wantPanic := wire != "nil"
    let wire ← if wire == "nil" then some none else optHex? wire
    -- no wire order (the implementation panicked or returned nil): the map iteration order is unknown; a panic of the
    -- scratch-buffer write depends only on which option comes last, so look for a last element under which the model
    -- panics too (respectively does not panic)
    let tail := match wire with
      | some w => w.drop r.1.length
      | none =>
        match remaining.find? (fun k => (encodeDHCP4 b a (remaining.filter (· != k) ++ [k])).isPanic == wantPanic) with
        | some k => remaining.filter (· != k) ++ [k]
        | none => remaining
    if !isPerm tail remaining then some "bad-tail"
    else match encodeDHCP4 b a tail with
      | .ok [] => some "nil"
      | .ok p => some ("ok " ++ toHex p)
      | .panic => some "panic"
      | .err _ => some "err"
      | .hang => some "hang"
  | "dhcp.inplace", [hb, opcode, mt, ch, ci, yi, xid, bc, opts, order, wire] => do
    let m ← fromHex hb
    let a : MArgs := { opcode := UInt8.ofNat (← opcode.toNat?), mt := UInt8.ofNat (← mt.toNat?), chaddr := ← optHex? ch,
                       ciaddr := ← optHex? ci, yiaddr := ← optHex? yi, xid := ← optHex? xid, broadcast := bc == "1",
                       opts := ← parseSrcOpts opts, order := ← parseSrc order }
    some (inplace m a wire)
  | _, _ => none

end PV.Drv.Dhcp4Opt
