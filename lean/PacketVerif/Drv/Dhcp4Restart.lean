import PacketVerif.Model.Dhcp4Restart
import PacketVerif.Drv.Dhcp4Srv
namespace PV.Drv.Dhcp4Restart
open PV PV.Model.Dhcp4Srv PV.Model.Dhcp4File PV.Model.Dhcp4Restart PV.Drv.Dhcp4Srv

/-! `dhcp.rsim <cfg>:<mode> <ops> @ <newcfg> <cfgdump> (<pre> <filepre> <op> <post> <filepost> <replies>)*`
    (the tokens before `@` are for the harness).  `<newcfg>` is the `dhcp.new` syntax of what `Config.New` was called with,
    `<cfgdump>` the subnets of the real handler (must be `mkCfg`), every group one step of the real process:
    handler state and lease-file content (the records the real yaml.v2 decodes, in lease syntax) before and after, the
    operation (`restart` = a new handler constructed from the file over the session found in `<post>`), the replies.
    → `accept` iff every group is a step of `Model.Dhcp4Restart.stepP` — the function the theorems of
    `Props/C18Restart` are about. -/

def parseFile (s : String) : Option Table := (listOf s ";").mapM parseLease

/-- the two tables are saved as the same records -/
def savedEq (a b : Table) : Bool :=
  let ra := (save { net1 := default, net2 := default, table := a }).leases.getD []
  let rb := (save { net1 := default, net2 := default, table := b }).leases.getD []
  ra.length == rb.length && rb.all (fun r => ra.contains r)
where default : LSub := { lan := 0, bits := 0, gw := 0, server := .invalid, dns := .invalid, first := 0, dur := 0, stage := 0 }

def showFile (t : Table) : String := showList ((t.filter (fun e => e.2.state == .allocated)).map showLease) ";"

def checkGroups (n : NewCfg) : Nat → List String → String
  | _, [] => "accept"
  | k, pre :: fpre :: op :: post :: fpost :: replies :: rest =>
    match parseState pre, parseFile fpre, parseState post, parseFile fpost with
    | some pre, some fpre, some post, some fpost =>
      let rop : Option ROp := if op == "restart" then some (.restart post.captured post.hosts) else (parseOp op).map .op
      match rop with
      | none => s!"bad-op step={k}"
      | some rop =>
        let outs := stepP n { s := pre, file := fpre } rop
        if outs.any (fun o => accepts (o.1.s, o.2) post replies && savedEq o.1.file fpost) then checkGroups n (k + 1) rest
        else s!"reject step={k} op={match rop with | .op o => showOp o | .restart .. => "restart"} want=" ++
          showList (outs.map (fun o => showOutcome (o.1.s, o.2) ++ " file=" ++ showFile o.1.file)) " || "
    | none, _, _, _ => s!"bad-pre step={k}"
    | _, none, _, _ => s!"bad-filepre step={k}"
    | _, _, none, _ => s!"bad-post step={k}"
    | _, _, _, none => s!"bad-filepost step={k}"
  | k, _ => s!"bad-group step={k}"

def handle (cmd : String) (args : List String) : Option String :=
  match cmd, args with
  | "dhcp.rsim", _ :: _ :: "@" :: ncfg :: dump :: groups =>
    match parseNewCfg ncfg, parseCfg dump with
    | some n, some cfg =>
      if !n.accepted then some "reject want=err"
      else if cfg != mkCfg n then some s!"reject cfg want={showSubnet (mkCfg n).net1} {showSubnet (mkCfg n).net2}"
      else some (checkGroups n 1 groups)
    | none, _ => some "bad-new"
    | _, none => some "bad-cfg"
  | "dhcp.rsim", _ => some "bad-rsim"
  | _, _ => none

end PV.Drv.Dhcp4Restart
