import PacketVerif.Model.Parse
import PacketVerif.Model.L2Loops
import PacketVerif.Spec.Decode
namespace PV.Drv.Views
open PV PV.Model

def optPair : Option (Bytes × Bytes) → String
  | some (m, i) => s!"{toHex m}/{toHex i}"
  | none => "-"

def optNat : Option Nat → String
  | some n => toString n
  | none => "-"

def frameStr (f : Frame) (err : Option Err) : String :=
  s!"pid={f.pid} ip4={f.offIP4} ip6={f.offIP6} udp={f.offUDP} tcp={f.offTCP} pay={f.offPayload} " ++
  s!"smac={toHex f.srcMAC} dmac={toHex f.dstMAC} sip={toHex f.srcIP} dip={toHex f.dstIP} " ++
  s!"sport={f.srcPort} dport={f.dstPort} host={optPair f.hostEv} echo={optNat f.echo} " ++
  s!"err={match err with | some e => e.toString | none => "-"}"

def accStr (f : Frame) (p : Bytes) : String :=
  " ".intercalate ((f.accessors p).map fun (n, v) => s!"{n}={outcomeStr Val.toString v}".replace " " "_")

def specStr (d : Spec.Decoded) : String :=
  s!"pid={d.pid} ip4={d.ip4} ip6={d.ip6} udp={d.udp} tcp={d.tcp} pay={d.pay} " ++
  s!"smac={toHex d.srcMAC} dmac={toHex d.dstMAC} sip={toHex d.srcIP} dip={toHex d.dstIP} " ++
  s!"sport={d.srcPort} dport={d.dstPort} host={optPair d.host} echo={optNat d.echo} err={d.err}"

def findView (name : String) : Option View := allViews.find? (·.name == name)

/-- line protocol:
    `valid <View> <hex>`           → ok | err <E> | panic
    `get <View> <Method> <hex>`    → ok <val> | panic | unknown-getter
    `getters <View>`               → comma separated getter names of the model
    `parse <hostmac> <routermac> <lanaddr> <lanbits> <hex>` → `<model frame> acc: <accessors> | spec: <reference decoder>` -/
def handle (cmd : String) (args : List String) : Option String :=
  match cmd, args with
  | "valid", [v, h] => do
    let vw ← findView v; let b ← fromHex h
    some (outcomeStr (fun _ => "") (vw.valid b)).trimAscii.toString
  | "get", [v, m, h] => do
    let vw ← findView v; let b ← fromHex h
    match vw.getter m with
    | some g => some (outcomeStr Val.toString (g b))
    | none => some "unknown-getter"
  | "getters", [v] => do
    let vw ← findView v
    some (",".intercalate vw.getterNames)
  | "parse", [hm, rm, la, lb, h] => do
    let hm ← fromHex hm; let rm ← fromHex rm; let la ← fromHex la; let lb ← lb.toNat?; let b ← fromHex h
    let cfg : Cfg := ⟨hm, rm, la, lb⟩
    let m := match parse cfg b with
      | .ok r => frameStr r.frame r.err ++ " acc: " ++ (if r.err.isNone then accStr r.frame b else "-")
      | .panic => "panic"
      | .hang => "hang"
      | .err e => "err " ++ e.toString
    some (m ++ " | spec: " ++ specStr (Spec.decode ⟨hm, rm, la, lb⟩ b))
  | "lldp.pdu", [ty, h] => do
    let ty ← ty.toNat?; let b ← fromHex h
    some (outcomeStr Val.toString (lldpGetPDU b ty b.length 0))
  | "l2.8023", [h] => do
    let b ← fromHex h
    some (outcomeStr (fun _ => "") (process8023 b)).trimAscii.toString
  | "allocs", [_, _, _, _, _] =>
    -- the model of Parse is a pure function over the caller's buffer (views are offsets, the Frame is
    -- returned by value): its predicted number of heap allocations is the constant 0
    some "n 0"
  | "netip", ["contains", la, lb, ip] => do
    let la ← fromHex la; let lb ← lb.toNat?; let ip ← fromHex ip
    some (toString (Netip.prefixContains la lb ip))
  | "netip", [pred, ip] => do
    let ip ← fromHex ip
    let r ← match pred with
      | "isLinkLocalUnicast" => some (Netip.isLinkLocalUnicast ip)
      | "isGlobalUnicast" => some (Netip.isGlobalUnicast ip)
      | "isMulticast" => some (Netip.isMulticast ip)
      | "isLoopback" => some (Netip.isLoopback ip)
      | "isUnspecified" => some (Netip.isUnspecified ip)
      | "isLinkLocalMulticast" => some (Netip.isLinkLocalMulticast ip)
      | "is4in6" => some (Netip.is4in6 ip)
      | _ => none
    some (toString r)
  | _, _ => none

end PV.Drv.Views
