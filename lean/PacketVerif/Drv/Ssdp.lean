/-
  Line protocol for the SSDP dispatch model (Model/Ssdp.lean).

  `ssdp.disp <payload> <rq> <rs>`   rq = `E` (http.ReadRequest failed) | `<method>:<NTS>:<LOCATION>:<CACHE-CONTROL>:<MAN>:<USER-AGENT>`
                                    rs = `E` (http.ReadResponse failed) | `<status>:<LOCATION>`
  (hex, `-` = empty): the harness runs the real net/http parsers on the payload and passes what they returned; the
  model's parser parameters are the constant functions returning that.
  reply: `err <name>` | `ok type=… model=… manuf=… os=… exp=<seconds|0|big> loc=…` | `panic` | `hang`
-/
import PacketVerif.Model.Ssdp
namespace PV.Drv.Ssdp
open PV PV.Model PV.Model.Ssdp

def lookup (l : List (Bytes × Bytes)) (k : Bytes) : Bytes :=
  match l.find? (fun e => e.1 == k) with
  | some e => e.2
  | none => []

def reqOf (s : String) : Option (Option Req) :=
  if s == "E" then some none
  else match s.splitOn ":" with
    | [m, nts, loc, cc, man, ua] => do
      let m ← fromHex m; let nts ← fromHex nts; let loc ← fromHex loc; let cc ← fromHex cc
      let man ← fromHex man; let ua ← fromHex ua
      some (some ⟨m, lookup [(kNTS, nts), (kLOCATION, loc), (kCACHE, cc), (kMAN, man), (kUA, ua)]⟩)
    | _ => none

def respOf (s : String) : Option (Option Resp) :=
  if s == "E" then some none
  else match s.splitOn ":" with
    | [st, loc] => do
      let st ← st.toNat?; let loc ← fromHex loc
      some (some ⟨st, lookup [(kLOCATION, loc)], false⟩)
    | _ => none

def outStr (o : Out) : String :=
  let e := match o.expire with
    | none => "0"
    | some none => "big"
    | some (some s) => toString s
  s!"type={toHex o.type} model={toHex o.model} manuf={toHex o.manuf} os={toHex o.os} exp={e} loc={toHex o.location}"

def handle (cmd : String) (args : List String) : Option String :=
  match cmd, args with
  | "ssdp.disp", [p, rq, rs] => do
    let p ← fromHex p
    let rq ← reqOf rq
    let rs ← respOf rs
    some (outcomeStr outStr (processSSDP ⟨fun _ => rq, fun _ => rs⟩ p))
  | _, _ => none

end PV.Drv.Ssdp
