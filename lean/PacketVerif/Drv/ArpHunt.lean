import PacketVerif.Model.ArpHunt
import PacketVerif.Model.ArpFrame
import PacketVerif.Drv.Accept
namespace PV.Drv.ArpHunt
open PV PV.Model PV.Model.ArpHunt PV.Drv.Accept

/-!
  line protocol (C13):
  `arp.frame <hostMAC> <routerMAC> <lanAddr> <lanBits> <routerIP> <hunted MACs csv|-> <offer MAC|-> <offer IP|-> <frame>`
        function mode over RAW frames: Parse, dispatch on PayloadARP, arp.ProcessPacket on a handler whose
        hunt list holds the given MACs and whose session has the given DHCP offer outstanding
        → `perr=<0|1> pid=<n> ret=<-|nil|Err…> out=<-|Y:<mac>|J:<mac>:<ip>> | ev=<machine event>`
          (Y = forged reply decided, J = probe reject; `ev` = `Model.ArpFrame.arpEventOf`)
  `arp.trace [scn=…] <event>@<ms> …`  → `accept` | `reject <index> <why>`

      Sc<k>:<mac>:<valid 0|1>        StartHunt called            Sr<k>:<e|o>   returned ErrInvalidIP / ok
      Xc<k>:<mac>:<ip>               StopHunt called (addr.IP)   Xr<k>
      Cc<k>                          Close called                Cr<k>
      Qc<k>:<ether src>:<ARP sender>:<toRouter 0|1>   ProcessPacket(ARP request)  Qr<k>
      Bc<k>:<smac>:<offer|->:<tip>:<inLan 0|1>   ProcessPacket(ARP probe)   Br<k>
      Oc<k>                          ProcessPacket(other ARP)    Or<k>
      F<mac>   forged announcement written      T<mac>   restoring request written
      Y<mac>   forged reply written             J<mac>:<ip>   probe-reject reply written
      (a frame is logged when the connection's WriteTo returns)
  hidden steps: check / wake of every loop, the atomic step of an open call – all enabled only while
  no thread holds `arpMutex` across its frame (`State.holder`): a loop from its lookup to its
  announcement / restoring request, ProcessPacket from its lookup to the forged reply.  A forged frame
  logged after the `Xr` of a StopHunt of that MAC (or a forged frame after a `T` without StartHunt in
  between) therefore has no interleaving.
  Wall-clock refinement (acceptor only): the loop's 6 s ticker is created when the loop starts, so the
  n-th time a loop leaves its `select` through the ticker is not before (start of the loop) + n · 6 s
  (minus 200 ms measurement slack) – a lower bound that stays valid when a write is slow; after
  Close the `select` returns at once.
-/

def cycleMs : Nat := 6000
def slackMs : Nat := 200

inductive Op where
  | start (mac : Bytes) (valid : Bool)
  | stop (mac : Bytes) (ip : Bytes)
  | close
  | req (esrc : Bytes) (smac : Bytes) (toRouter : Bool)
  | probe (smac : Bytes) (offer : Option Bytes) (tip : Bytes) (inLan : Bool)
  | other

structure AState where
  s : State
  open_ : List (Nat × Op × Option Out)
  tprev : Nat := 0
  tnext : Nat := 0
  waits : List (Nat × Nat × Bool) := []
  /-- per loop: earliest time it can have been started, ticker wake-ups so far -/
  ticks : List (Nat × Nat × Nat) := []

inductive ObsK where
  | call (k : Nat) (op : Op)
  | ret (k : Nat) (res : String)
  | forged (mac : Bytes) | restoring (mac : Bytes) | spoofReply (mac : Bytes) | probeReject (mac ip : Bytes)

structure Obs where
  k : ObsK
  t : Nat

def pcStr : Pc → String
  | .check => "c" | .restore => "r" | .forge => "f" | .wait => "w" | .done => "d"

def holderStr : Option Holder → String
  | none => "-" | some (.loop i) => s!"L{i}" | some (.rx m) => "R" ++ toHex m

def opStr : Op → String
  | .start m _ => "start " ++ toHex m | .stop m ip => "stop " ++ toHex m ++ " ip " ++ toHex ip | .close => "close"
  | .req e m _ => "request of ARP sender " ++ toHex m ++ " (ether src " ++ toHex e ++ ")" | .probe m _ _ _ => "probe from " ++ toHex m | .other => "other"

def outStr : Option Out → String
  | none => "_"
  | some .startErr => "e" | some .startOk => "o"
  | some (.probeReject _ _) => "j"
  | some _ => "-"

def AState.key (a : AState) : String :=
  let ls := (List.range a.s.nloops).map (fun i => toHex (a.s.loops i).mac ++ ":" ++ pcStr (a.s.loops i).pc)
  let ops := a.open_.map (fun (k, op, o) => s!"{k}{opStr op}{outStr o}")
  s!"{a.s.hunt.map toHex}|{a.s.closed}|{holderStr a.s.holder}|{ls}|{ops}|{a.waits}|{a.ticks}"

def evOf : Op → Event
  | .start m v => .startHunt m v
  | .stop m ip => .stopHunt m ip
  | .close => .close
  | .req e m r => .rxRequest e m r
  | .probe m o t l => .rxProbe m o t l
  | .other => .rxOther

def isWait (s : State) (i : Nat) : Bool := (s.loops i).pc == .wait

def noteWait (a : AState) (before : State) (i : Nat) (t : Nat) : AState :=
  if isWait a.s i ∧ ¬ isWait before i then { a with waits := (i, t, false) :: a.waits.filter (fun w => w.1 ≠ i) }
  else if ¬ isWait a.s i then { a with waits := a.waits.filter (fun w => w.1 ≠ i) }
  else a

def hidden (a : AState) : List AState :=
  let loops := (List.range a.s.nloops).flatMap (fun i =>
    let plain := [Event.check i].filterMap (fun e =>
      (step a.s e).map (fun (s', _) => { a with s := s' }))
    let wk := match step a.s (.wake i) with
      | some (s', _) =>
        let early := match a.waits.find? (fun w => w.1 = i) with
          | some (_, _, early) => early
          | none => false
        let byClose := if early then [noteWait { a with s := s' } a.s i a.tprev] else []
        let byTicker := match a.ticks.find? (fun w => w.1 = i) with
          | some (_, born, n) =>
            if born + cycleMs * (n + 1) ≤ a.tnext + slackMs then
              [noteWait { a with s := s', ticks := a.ticks.map (fun w => if w.1 = i then (i, born, n + 1) else w) } a.s i a.tprev]
            else []
          | none => [noteWait { a with s := s' } a.s i a.tprev]
        byClose ++ byTicker
      | none => []
    plain ++ wk)
  let ops := a.open_.filterMap (fun (k, op, done) =>
    match done, op with
    | some _, _ => none
    | none, .probe _ _ _ _ => none        -- decided when the reject frame is (not) observed
    | none, _ => (step a.s (evOf op)).map (fun (s', o) =>
        let wakes := match op with | .close => true | _ => false
        -- a loop started by this step: its ticker is created after the last observed event
        let ticks := if s'.nloops > a.s.nloops then (a.s.nloops, a.tprev, 0) :: a.ticks else a.ticks
        { a with s := s', open_ := a.open_.map (fun x => if x.1 = k then (k, op, some o) else x),
                 ticks := ticks,
                 waits := if wakes then a.waits.map (fun (i, t, _) => (i, t, true)) else a.waits }))
  loops ++ ops

def loopFrame (a : AState) (mac : Bytes) (t : Nat) (mk : Nat → Event) (want : Out) : List AState :=
  (List.range a.s.nloops).filterMap (fun i =>
    if (a.s.loops i).mac = mac then
      match step a.s (mk i) with
      | some (s', o) => if o = want then some (noteWait { a with s := s' } a.s i t) else none
      | none => none
    else none)

def applyObs (a : AState) (o : Obs) : List AState :=
  let a := { a with tprev := o.t }
  match o.k with
  | .call k op => [{ a with open_ := (k, op, none) :: a.open_ }]
  | .ret k res =>
    match a.open_.find? (fun x => x.1 = k) with
    | some (_, .probe m off tip l, none) =>
      -- a probe call that returned without a reject frame: the rule must say "no reject"
      match step a.s (.rxProbe m off tip l) with
      | some (_, .none) => [{ a with open_ := a.open_.filter (fun x => x.1 ≠ k) }]
      | _ => []
    | some (_, .req _ m _, some out) =>
      -- ProcessPacket returns after the forged reply it decided was written
      if a.s.holder = some (.rx m) then []
      else if outStr (some out) = res ∨ res = "-" then [{ a with open_ := a.open_.filter (fun x => x.1 ≠ k) }] else []
    | some (_, _, some out) =>
      if outStr (some out) = res ∨ res = "-" then [{ a with open_ := a.open_.filter (fun x => x.1 ≠ k) }] else []
    | _ => []
  | .forged mac => loopFrame a mac o.t Event.forge (.forged mac)
  | .restoring mac => loopFrame a mac o.t Event.restore (.restoring mac)
  | .spoofReply mac =>
    match step a.s (.reply mac) with
    | some (s', _) => [{ a with s := s' }]
    | none => []
  | .probeReject mac ip =>
    a.open_.filterMap (fun (k, op, done) =>
      match done, op with
      | none, .probe m off tip l =>
        if m = mac ∧ tip = ip then
          match step a.s (.rxProbe m off tip l) with
          | some (_, .probeReject _ _) =>
            some { a with open_ := a.open_.map (fun x => if x.1 = k then (k, op, some (.probeReject m tip)) else x) }
          | _ => none
        else none
      | _, _ => none)

def parseObsK (tok : String) : Option ObsK :=
  let cs := tok.toList
  match cs with
  | 'F' :: r => (fromHex (String.ofList r)).map ObsK.forged
  | 'T' :: r => (fromHex (String.ofList r)).map ObsK.restoring
  | 'Y' :: r => (fromHex (String.ofList r)).map ObsK.spoofReply
  | 'J' :: r =>
    match (String.ofList r).splitOn ":" with
    | [m, ip] => do let mm ← fromHex m; let i ← fromHex ip; some (.probeReject mm i)
    | _ => none
  | c :: 'c' :: r =>
    match (String.ofList r).splitOn ":" with
    | k :: args => do
      let kk ← k.toNat?
      match c, args with
      | 'S', [m, v] => do let mm ← fromHex m; some (.call kk (.start mm (v == "1")))
      | 'X', [m, ip] => do let mm ← fromHex m; let ii ← fromHex ip; some (.call kk (.stop mm ii))
      | 'C', [] => some (.call kk .close)
      | 'Q', [e, m, r] => do let ee ← fromHex e; let mm ← fromHex m; some (.call kk (.req ee mm (r == "1")))
      | 'B', [m, off, tip, l] => do
        let mm ← fromHex m
        let tt ← fromHex tip
        let oo ← (if off == "-" then some none else (fromHex off).map some)
        some (.call kk (.probe mm oo tt (l == "1")))
      | 'O', [] => some (.call kk .other)
      | _, _ => none
    | _ => none
  | _ :: 'r' :: r =>
    match (String.ofList r).splitOn ":" with
    | [k] => do let kk ← k.toNat?; some (.ret kk "-")
    | [k, res] => do let kk ← k.toNat?; some (.ret kk res)
    | _ => none
  | _ => none

def parseObs (tok : String) : Option Obs :=
  match tok.splitOn "@" with
  | [e, t] => do let k ← parseObsK e; let tt ← t.toNat?; some { k := k, t := tt }
  | _ => none

def obsName (o : Obs) : String :=
  match o.k with
  | .call k op => s!"call {k} {opStr op}"
  | .ret k r => s!"return {k} {r}"
  | .forged m => s!"forged announcement to {toHex m} at {o.t} ms (a loop forges only inside the critical section whose lookup found its MAC hunted and the handler open; one loop per accepted StartHunt, 6 s ticker)"
  | .restoring m => s!"restoring request to {toHex m} at {o.t} ms (written inside the critical section whose lookup did not find the MAC)"
  | .spoofReply m => s!"forged reply to {toHex m} at {o.t} ms (written inside the critical section of ProcessPacket whose lookup found the ARP sender hunted)"
  | .probeReject m ip => s!"probe reject to {toHex m} for {toHex ip}"

def machine : Machine AState Obs :=
  { key := AState.key, hidden := hidden, apply := applyObs, name := obsName,
    prep := fun a o => { a with tnext := o.t } }

def evStr : Event → String
  | .rxRequest e m r => s!"request:{toHex e}:{toHex m}:{if r then 1 else 0}"
  | .rxProbe m o t l => s!"probe:{toHex m}:{match o with | some x => toHex x | none => "-"}:{toHex t}:{if l then 1 else 0}"
  | .rxOther => "other"
  | _ => "?"

def arpRet : Ndp.ArpClass → String
  | .errLen => "ErrFrameLen" | .errHType => "ErrParseFrame" | .errProto => "ErrParseProtocol"
  | .errHLen | .errPLen => "ErrInvalidLen"
  | _ => "nil"

/-- raw-frame function mode: the composed classification and what a handler in state `hunt` does with it -/
def frameLine (c : ArpFrame.Cfg) (hunt : List Bytes) (offer : Bytes → Option Bytes) (p : Bytes) : String :=
  match parse c.parse p with
  | .ok r =>
    let perr := if r.err.isSome then 1 else 0
    let ret : String :=
      if r.err.isSome ∨ r.frame.pid ≠ Pid.arp then "-"
      else match (sliceFrom p r.frame.offPayload >>= Ndp.arpClassify) with
        | .ok cl => arpRet cl
        | .err e => e.toString
        | .panic => "panic"
        | .hang => "hang"
    match ArpFrame.arpEventOf c offer p with
    | .ok ev =>
      let e := match ev with | some e => e | none => Event.rxOther
      let out := match step { hunt := hunt } e with
        | some (s', o) =>
          match s'.holder, o with
          | some (.rx m), _ => "Y:" ++ toHex m
          | _, .probeReject m ip => "J:" ++ toHex m ++ ":" ++ toHex ip
          | _, _ => "-"
        | none => "disabled"
      s!"perr={perr} pid={r.frame.pid} ret={ret} out={out} | ev={match ev with | some e => evStr e | none => "none"}"
    | .panic => "panic"
    | .hang => "hang"
    | .err e => "err " ++ e.toString
  | .panic => "panic"
  | .hang => "hang"
  | .err e => "err " ++ e.toString

def handle (cmd : String) (args : List String) : Option String :=
  match cmd, args with
  | "arp.frame", [hm, rm, la, lb, rip, hunt, om, oip, h] => do
    let hm ← fromHex hm; let rm ← fromHex rm; let la ← fromHex la; let lb ← lb.toNat?; let rip ← fromHex rip
    let hl ← (if hunt == "-" then some [] else (hunt.splitOn ",").mapM fromHex)
    let om ← fromHex om; let oip ← fromHex oip; let b ← fromHex h
    let offer : Bytes → Option Bytes := fun m => if oip.length = 4 ∧ m = om then some oip else none
    some (frameLine { parse := ⟨hm, rm, la, lb⟩, routerIP := rip } hl offer b)
  | "arp.trace", toks => do
    let obs ← (toks.filter (fun t => ¬ t.startsWith "scn=")).mapM parseObs
    some (accept machine { s := {}, open_ := [] } obs)
  | _, _ => none

end PV.Drv.ArpHunt
