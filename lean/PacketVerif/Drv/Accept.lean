import Std.Data.HashMap
namespace PV.Drv.Accept

/-!
  Generic trace acceptor: a nondeterministic machine is run against a totally ordered list of
  observed events; between two observed events any number of hidden steps may happen.  The set of
  possible machine states is tracked (dedup by a rendering of the state); the first observed event
  that no interleaving explains is reported.
-/

structure Machine (σ ω : Type) where
  key : σ → String
  hidden : σ → List σ          -- one hidden step
  apply : σ → ω → List σ       -- all ways the observed event can happen in this state
  name : ω → String
  /-- tell the state about the next observed event before the hidden closure (its time stamp) -/
  prep : σ → ω → σ := fun s _ => s

partial def closure {σ ω} (m : Machine σ ω) (work : List σ) (seen : Std.HashMap String σ) :
    Std.HashMap String σ :=
  match work with
  | [] => seen
  | a :: rest =>
    let k := m.key a
    if seen.contains k then closure m rest seen
    else closure m (m.hidden a ++ rest) (seen.insert k a)

def accept {σ ω} (m : Machine σ ω) (init : σ) (obs : List ω) : String := Id.run do
  let mut cur : List σ := [init]
  let mut idx := 0
  for o in obs do
    let cl := closure m (cur.map (fun a => m.prep a o)) {}
    let next := cl.fold (fun acc _ a => m.apply a o ++ acc) []
    if next.isEmpty then
      return s!"reject {idx} no interleaving of the machine explains: {m.name o}"
    cur := next
    idx := idx + 1
  return "accept"

end PV.Drv.Accept
