import PacketVerif.Model.Ping
import Std.Data.HashMap
namespace PV.Drv.Ping
open PV PV.Model.Ping

/-!
  line protocol (C19)

  `ping.cls <4|6> <icmp hex> <id,id,…>`  → `n=<ids completed>` : which of the registered probe ids a
        parsed ICMP message of that family completes (`Model.Ping.classify`)
  `ping.trace <id0> [scn=…] <event>*`     → `accept` | `reject <index> <why>`
        observed, totally ordered events of a real run:
          c<p>          Ping/Ping6 called in thread p
          s<p>:<id>     echo request of thread p written, carrying identifier id
          r<p>:<n|t|e>  thread p returned nil / ErrTimeout / another error
          i<k>:<id|x>   Session.Parse called with an echo reply carrying id (x: a frame that is no echo reply)
          j<k>          that Parse call returned
          t:<ids|->     atomic dump of the icmpTable keys
  `ping.eff <4|6> <ns>`                   → effective timeout in ns (`Model.Ping.effTimeout`) of a call with that argument
        the machine of Model/Ping.lean is run as an acceptor: hidden steps (reg, sendErr, cleanup, wake,
        timeout, unreg, the echoNotify of an open Parse call) are closed over between observed events.
-/

structure AState where
  s : State
  called : List Nat                       -- threads called, not yet registered
  inj : List (Nat × Option Nat × Bool)    -- open Parse calls: k, echo id, applied?

def renderThread (t : Thread) : String :=
  s!"{repr t.pc}/{t.id}/{t.recv}/{t.closes}/{repr t.ret}"

def AState.key (n : Nat) (a : AState) : String :=
  let ths := (List.range n).map (fun p => renderThread (a.s.th p))
  s!"{a.s.table}|{a.s.nextId}|{ths}|{a.called}|{a.inj}"

/-- all hidden successors of a state (one hidden step) -/
def hidden (n : Nat) (a : AState) : List AState :=
  let regs := a.called.filterMap (fun p =>
    (step a.s (.reg p)).map (fun s' => { a with s := s', called := a.called.filter (· ≠ p) }))
  let perThread := (List.range n).flatMap (fun p =>
    [Event.sendErr p, .cleanup p, .wake p, .timeout p, .unreg p].filterMap (fun e =>
      (step a.s e).map (fun s' => { a with s := s' })))
  let injs := a.inj.filterMap (fun (k, id, applied) =>
    if applied then none else
      let e := match id with | some i => Event.echo i | none => Event.other
      (step a.s e).map (fun s' =>
        { a with s := s', inj := a.inj.map (fun x => if x.1 = k then (k, id, true) else x) }))
  regs ++ perThread ++ injs

/-- closure under hidden steps (worklist, dedup by key) -/
partial def closure (n : Nat) (work : List AState) (seen : Std.HashMap String AState) : Std.HashMap String AState :=
  match work with
  | [] => seen
  | a :: rest =>
    let k := a.key n
    if seen.contains k then closure n rest seen
    else closure n (hidden n a ++ rest) (seen.insert k a)

inductive Obs where
  | call (p : Nat) | sent (p id : Nat) | ret (p : Nat) (r : Ret)
  | injS (k : Nat) (id : Option Nat) | injE (k : Nat) | dump (ids : List Nat)

def parseNat? (s : String) : Option Nat := s.toNat?

def parseObs (tok : String) : Option Obs :=
  let cs := tok.toList
  match cs with
  | 'c' :: r => (parseNat? (String.ofList r)).map Obs.call
  | 's' :: r =>
    match (String.ofList r).splitOn ":" with
    | [a, b] => do let p ← parseNat? a; let i ← parseNat? b; some (.sent p i)
    | _ => none
  | 'r' :: r =>
    match (String.ofList r).splitOn ":" with
    | [a, b] => do
      let p ← parseNat? a
      let v ← (match b with | "n" => some Ret.nil | "t" => some Ret.timeout | "e" => some Ret.sendErr | _ => none)
      some (.ret p v)
    | _ => none
  | 'i' :: r =>
    match (String.ofList r).splitOn ":" with
    | [a, b] => do
      let k ← parseNat? a
      if b == "x" then some (.injS k none) else do let i ← parseNat? b; some (.injS k (some i))
    | _ => none
  | 'j' :: r => (parseNat? (String.ofList r)).map Obs.injE
  | 't' :: ':' :: r =>
    let str := String.ofList r
    if str == "-" then some (.dump []) else
      (str.splitOn ",").mapM parseNat? |>.map Obs.dump
  | _ => none

def sortNat (l : List Nat) : List Nat := (l.toArray.qsort (· < ·)).toList

/-- apply one observed event to one state -/
def applyObs (a : AState) : Obs → Option AState
  | .call p => if (a.s.th p).pc = .init ∧ ¬ a.called.contains p then some { a with called := p :: a.called } else none
  | .sent p id =>
    if (a.s.th p).id = id then (step a.s (.sendOk p)).map (fun s' => { a with s := s' }) else none
  | .ret p r => if (a.s.th p).pc = .done ∧ (a.s.th p).ret = r then some a else none
  | .injS k id => some { a with inj := (k, id, false) :: a.inj }
  | .injE k =>
    match a.inj.find? (fun x => x.1 = k) with
    | some (_, _, true) => some { a with inj := a.inj.filter (fun x => x.1 ≠ k) }
    | _ => none
  | .dump ids => if sortNat (a.s.table.map (·.1)) = sortNat ids then some a else none

def obsName : Obs → String
  | .call p => s!"call {p}" | .sent p i => s!"sent {p} id={i}" | .ret p r => s!"ret {p} {repr r}"
  | .injS k _ => s!"parse-start {k}" | .injE k => s!"parse-end {k}" | .dump ids => s!"table={ids}"

def accept (id0 : Nat) (n : Nat) (obs : List Obs) : String := Id.run do
  let mut cur : List AState := [{ s := init id0, called := [], inj := [] }]
  let mut idx := 0
  for o in obs do
    let cl := closure n cur {}
    let next := cl.fold (fun acc _ a => match applyObs a o with | some a' => a' :: acc | none => acc) []
    if next.isEmpty then
      return s!"reject {idx} no interleaving of the ping machine explains: {obsName o}"
    cur := next
    idx := idx + 1
  return "accept"

def threadCount (obs : List Obs) : Nat :=
  obs.foldl (fun m o => match o with | .call p => max m (p + 1) | .sent p _ => max m (p + 1) | .ret p _ => max m (p + 1) | _ => m) 0

def handle (cmd : String) (args : List String) : Option String :=
  match cmd, args with
  | "ping.cls", [fam, h, ids] => do
    let b ← fromHex h
    let cand ← if ids == "-" then some [] else (ids.splitOn ",").mapM parseNat?
    let v6 := fam == "6"
    let hit := match classify v6 b with
      | some i => if cand.contains i then [i] else []
      | none => []
    some ("n=" ++ (if hit.isEmpty then "-" else ",".intercalate (hit.map toString)))
  | "ping.trace", id0 :: rest => do
    let i0 ← parseNat? id0
    let toks := rest.filter (fun t => ¬ t.startsWith "scn=")
    let obs ← toks.mapM parseObs
    some (accept i0 (threadCount obs) obs)
  | "ping.eff", [_fam, ns] => do
    let t ← ns.toInt?
    some (toString (effTimeout t))
  | _, _ => none

end PV.Drv.Ping
