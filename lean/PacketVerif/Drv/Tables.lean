/-
  Line protocol for the host/MAC table state machine (C04, C05, C06), step mode.

  tokens (no spaces inside a token):
    ip     `-` | `4:<8 hex>` | `6:<32 hex>`
    mac    hex | `-`
    str    hex of the Go string's bytes | `-`          (kept opaque: only equality/emptiness matter)
    time   decimal nanoseconds | `z` (time.Time{})
    name   `~` (zero NameEntry) | `type;name;model;manufacturer;os;expire`
    names  `~` | `dhcp4/mdns/ssdp/llmnr/nbns`
    host   `key,ip,mac,entryIdx,online,dirty,lastSeen,manuf,names`      (entryIdx: index in MACTable.Table)
    mac    `mac,captured,ip4,ip4offer,ip6gua,ip6lla,ip6offer,online,isRouter,hostList,manuf,names,lastSeen`
           hostList = keys of the listed hosts joined by `&` | `-`
    state  `<host+host…|->!<mac+mac…|->`       hosts sorted by token
    cfg    `hostMAC,hostIP4,routerMAC,routerIP4,lanValid,lanBase(hex),lanBits,hostLLA,probeDL,offlineDL,purgeDL`
    notif  `mac,ip,online,manuf,names,isRouter`
    out    `<notif+…|->!<hostKey|->!<flag>!<panic>!<err|->`
    op     `frame,srcMAC,kind,srcIP,arpMAC,dhcp4,now,manuf` | `notify,hostKey|-,dhcp4,srcMAC,flag`
           | `dhcp,mac,ip,name,now,manuf` | `offer,mac,ip,name` | `capture,mac` | `release,mac`
           | `purge,now` | `setls,ip,t` | `name,hostKey,kind,name` | `print`

  commands
    tbl.step <cfg> <pre> <op> <post> <out>  → `accept` iff (post,out) is what Model.step yields from pre
                                              (purge notifications compared as a multiset), else `reject <model post> <model out>`
    tbl.inv <state>                         → `ok` | `fail <clause>`
    tbl.init <cfg> <now> <manufHost> <manufRouter> <state> → `accept` | `reject <model state>`
    tbl.spec <cfg> <pre> <op> <post> <out>  → `ok` iff the abstract map of post is Spec.step of the abstract
                                              map of pre and out's notifications are Spec.transitions, else `bad <why>`
-/
import PacketVerif.Model.Tables
import PacketVerif.Spec.TableInv
import PacketVerif.Spec.HostMap
namespace PV.Drv.Tables
open PV PV.Model.Tables

def hexNat (s : String) : Option Nat :=
  s.toList.foldlM (fun acc c => (hexVal c).map (fun v => acc * 16 + v)) 0

def natHex (n width : Nat) : String :=
  String.ofList ((List.range width).reverse.map (fun i => hexDigit ((n / 16 ^ i) % 16)))

def pIP (s : String) : Option IP :=
  if s == "-" then some .none
  else if s.startsWith "4:" then (hexNat (s.drop 2).toString).map IP.v4
  else if s.startsWith "6:" then (hexNat (s.drop 2).toString).map IP.v6
  else none

def rIP : IP → String
  | .none => "-"
  | .v4 n => "4:" ++ natHex n 8
  | .v6 n => "6:" ++ natHex n 32

def pMAC (s : String) : Option MAC := fromHex s
def rMAC (m : MAC) : String := toHex m
def pStr (s : String) : String := if s == "-" then "" else s
def rStr (s : String) : String := if s == "" then "-" else s
def pBool (s : String) : Option Bool := if s == "1" then some true else if s == "0" then some false else none
def rBool (b : Bool) : String := if b then "1" else "0"
def pTime (s : String) : Option Int := if s == "z" then some zeroTime else s.toInt?
def rTime (t : Int) : String := if t == zeroTime then "z" else toString t

def pName (s : String) : Option NameEntry :=
  if s == "~" then some {} else
  match s.splitOn ";" with
  | [t, n, m, mf, os, e] => do
    let e ← pTime e
    some { type := pStr t, name := pStr n, model := pStr m, manufacturer := pStr mf, os := pStr os, expire := e }
  | _ => none

def rName (n : NameEntry) : String :=
  if n = {} then "~" else
  String.intercalate ";" [rStr n.type, rStr n.name, rStr n.model, rStr n.manufacturer, rStr n.os, rTime n.expire]

def pNames (s : String) : Option Names :=
  if s == "~" then some {} else
  match s.splitOn "/" with
  | [a, b, c, d, e] => do
    some { dhcp4 := ← pName a, mdns := ← pName b, ssdp := ← pName c, llmnr := ← pName d, nbns := ← pName e }
  | _ => none

def rNames (n : Names) : String :=
  if n = {} then "~" else
  String.intercalate "/" [rName n.dhcp4, rName n.mdns, rName n.ssdp, rName n.llmnr, rName n.nbns]

def pList (sep : String) (s : String) : List String := if s == "-" then [] else s.splitOn sep
def rList (sep : String) (l : List String) : String := if l.isEmpty then "-" else String.intercalate sep l

def macBase : Nat := 100000

/-- host token → (key, record); ids are positions -/
def pHost (idx : Nat) (s : String) : Option (IP × HostRec) :=
  match s.splitOn "," with
  | [k, ip, mac, e, on, d, ls, mf, nm] => do
    some (← pIP k, { id := idx, ip := ← pIP ip, mac := ← pMAC mac, entry := macBase + (← e.toNat?),
                     online := ← pBool on, dirty := ← pBool d, lastSeen := ← pTime ls, manuf := pStr mf,
                     names := ← pNames nm })
  | _ => none

def keyId (hosts : List (IP × HostRec)) (k : IP) : Option Nat :=
  (hosts.find? (fun p => p.1 == k)).map (·.2.id)

def pMac (hosts : List (IP × HostRec)) (idx : Nat) (s : String) : Option MacRec :=
  match s.splitOn "," with
  | [mac, cap, ip4, off, gua, lla, off6, on, rt, hl, mf, nm, ls] => do
    let keys ← (pList "&" hl).mapM pIP
    let ids ← keys.mapM (keyId hosts)
    some { id := macBase + idx, mac := ← pMAC mac, captured := ← pBool cap, ip4 := ← pIP ip4, ip4offer := ← pIP off,
           ip6gua := ← pIP gua, ip6lla := ← pIP lla, ip6offer := ← pIP off6, online := ← pBool on,
           isRouter := ← pBool rt, hostList := ids, manuf := pStr mf, names := ← pNames nm, lastSeen := ← pTime ls }
  | _ => none

def mapIdxM {α β} (f : Nat → α → Option β) : Nat → List α → Option (List β)
  | _, [] => some []
  | i, a :: r => do
    let b ← f i a
    let rest ← mapIdxM f (i + 1) r
    some (b :: rest)

def pState (s : String) : Option Sess :=
  match s.splitOn "!" with
  | [hs, ms] => do
    let hosts ← mapIdxM pHost 0 (pList "+" hs)
    let macs ← mapIdxM (pMac hosts) 0 (pList "+" ms)
    some { hosts := hosts, macs := macs, nextId := 2 * macBase }
  | _ => none

def keyOfId (s : Sess) (id : Nat) : String :=
  match s.hosts.find? (fun p => p.2.id == id) with
  | some p => rIP p.1
  | none => "?"

def rHost (s : Sess) (p : IP × HostRec) : String :=
  let h := p.2
  let e := match s.macs.findIdx? (fun m => m.id == h.entry) with
    | some i => toString i
    | none => "dangling"
  String.intercalate "," [rIP p.1, rIP h.ip, rMAC h.mac, e, rBool h.online, rBool h.dirty, rTime h.lastSeen,
    rStr h.manuf, rNames h.names]

def rMac (s : Sess) (m : MacRec) : String :=
  String.intercalate "," [rMAC m.mac, rBool m.captured, rIP m.ip4, rIP m.ip4offer, rIP m.ip6gua, rIP m.ip6lla,
    rIP m.ip6offer, rBool m.online, rBool m.isRouter, rList "&" (m.hostList.map (keyOfId s)), rStr m.manuf,
    rNames m.names, rTime m.lastSeen]

def sortStrs (l : List String) : List String := l.mergeSort (fun a b => decide (a ≤ b))

def rState (s : Sess) : String :=
  rList "+" (sortStrs (s.hosts.map (rHost s))) ++ "!" ++ rList "+" (s.macs.map (rMac s))

def rNotif (n : Notif) : String :=
  String.intercalate "," [rMAC n.mac, rIP n.ip, rBool n.online, rStr n.manuf, rNames n.names, rBool n.isRouter]

def rOut (s : Sess) (o : Out) (sortN : Bool) : String :=
  let ns := o.notifs.map rNotif
  let ns := if sortN then sortStrs ns else ns
  String.intercalate "!" [rList "+" ns,
    (match o.host with
     | some id => keyOfId s id
     | none => "-"),
    rBool o.flag, rBool o.panic,
    (match o.err with
     | some e => e.toString
     | none => "-")]

def pCfg (s : String) : Option Cfg :=
  match s.splitOn "," with
  | [hm, hi, rm, ri, lv, lb, lbits, lla, p, o, d] => do
    some { hostMAC := ← pMAC hm, hostIP4 := ← pIP hi, routerMAC := ← pMAC rm, routerIP4 := ← pIP ri,
           lanValid := ← pBool lv, lanBase := ← hexNat lb, lanBits := ← lbits.toNat?, hostLLA := ← pIP lla,
           probeDL := ← p.toInt?, offlineDL := ← o.toInt?, purgeDL := ← d.toInt? }
  | _ => none

def pKind (s : String) : Option FKind :=
  match s with
  | "ip4" => some .ip4 | "ip6" => some .ip6 | "arp" => some .arp | "other" => some .other | _ => none

def pNameKind (s : String) : Option NameKind :=
  match s with
  | "dhcp4" => some .dhcp4 | "mdns" => some .mdns | "ssdp" => some .ssdp | "llmnr" => some .llmnr
  | "nbns" => some .nbns | _ => none

def pOp (pre : Sess) (s : String) : Option Op :=
  match s.splitOn "," with
  | ["frame", sm, k, ip, am, d, now, mf] => do
    some (.frame { srcMAC := ← pMAC sm, kind := ← pKind k, srcIP := ← pIP ip, arpMAC := ← pMAC am, dhcp4 := ← pBool d }
            (← now.toInt?) (pStr mf))
  | ["notify", h, d, sm, fl] => do
    let host ← if h == "-" then some none else (do let k ← pIP h; let id ← keyId pre.hosts k; some (some id))
    some (.notify host (← pBool d) (← pMAC sm) (← pBool fl))
  | ["dhcp", mac, ip, nm, now, mf] => do
    some (.dhcpUpdate (← pMAC mac) (← pIP ip) (← pName nm) (← now.toInt?) (pStr mf))
  | ["offer", mac, ip, nm] => do some (.setOffer (← pMAC mac) (← pIP ip) (← pName nm))
  | ["capture", mac] => do some (.capture (← pMAC mac))
  | ["release", mac] => do some (.release (← pMAC mac))
  | ["purge", now] => do some (.purge (← now.toInt?))
  | ["setls", ip, t] => do some (.setLastSeen (← pIP ip) (← pTime t))
  | ["name", h, k, nm] => do
    let key ← pIP h
    let id ← keyId pre.hosts key
    some (.updateName id (← pNameKind k) (← pName nm))
  | ["print"] => some .printTable
  | _ => none

def isPurge : Op → Bool
  | .purge _ => true
  | _ => false

/-- canonical form of an `out` token whose notifications are to be compared as a multiset -/
def sortOutTok (o : String) : String :=
  match o.splitOn "!" with
  | ns :: rest => String.intercalate "!" (rList "+" (sortStrs (pList "+" ns)) :: rest)
  | [] => o

/-! ### spec side (C04 refinement and C06 transitions, evaluated on the dumped states) -/

def absMap (s : Sess) : Spec.HostMap := fun k =>
  (findHost s k).map (fun h => { mac := h.mac, online := h.online, lastSeen := h.lastSeen })

def opIPs : Op → List IP
  | .frame ev _ _ => [ev.srcIP]
  | .dhcpUpdate _ ip _ _ _ => [ip]
  | .setLastSeen ip _ => [ip]
  | _ => []

def rEvent (e : Spec.Event) : String := rMAC e.mac ++ "," ++ rIP e.ip ++ "," ++ rBool e.online

def specCheck (c : Cfg) (pre : Sess) (op : Op) (post : Sess) (notifs : List String) : String :=
  let keys := (pre.hosts.map (·.1) ++ post.hosts.map (·.1) ++ opIPs op).eraseDups
  let want := Spec.step c (absMap pre) op
  match keys.find? (fun k => want k != absMap post k) with
  | some k => "bad map differs at " ++ rIP k
  | none =>
    -- notifications as (mac, ip, online) events
    let got := notifs.map (fun n => match n.splitOn "," with
      | m :: ip :: on :: _ => m ++ "," ++ ip ++ "," ++ on
      | _ => n)
    let exp := (Spec.transitions c keys (absMap pre) op).map rEvent
    match op with
    | .purge .. => if sortStrs got == sortStrs exp then "ok" else "bad events want " ++ rList "+" exp
    | .notify .. => "ok"       -- decided by the pending bits (harness oracle: consumer view)
    | .dhcpUpdate .. => "ok"   -- may also deliver pending announcements
    | _ => if got.isEmpty then "ok" else "bad events: a silent call sent " ++ rList "+" got

def handle (cmd : String) (args : List String) : Option String :=
  match cmd, args with
  | "tbl.step", [cfg, pre, op, post, out] => do
    let c ← pCfg cfg
    let s ← pState pre
    let o ← pOp s op
    let r := step c s o
    let mpost := rState r.1
    let mout := rOut r.1 r.2 (isPurge o)
    let out' := if isPurge o then sortOutTok out else out
    if mpost == post && mout == out' then some "accept"
    else some ("reject " ++ mpost ++ " " ++ mout)
  | "tbl.inv", [st] => do
    let s ← pState st
    match Spec.violated s with
    | none => some "ok"
    | some cl => some ("fail " ++ cl)
  | "tbl.init", [cfg, now, mh, mr, st] => do
    let c ← pCfg cfg
    let now ← now.toInt?
    let s := init c now (pStr mh) (pStr mr)
    let m := rState s
    if m == st then some "accept" else some ("reject " ++ m)
  | "tbl.spec", [cfg, pre, op, post, out] => do
    let c ← pCfg cfg
    let s ← pState pre
    let o ← pOp s op
    let p ← pState post
    let ns := match out.splitOn "!" with
      | n :: _ => pList "+" n
      | [] => []
    some (specCheck c s o p ns)
  | _, _ => none

end PV.Drv.Tables
