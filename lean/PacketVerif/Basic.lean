/-
  Basic definitions shared by every model: byte strings, Go-style outcomes
  (value / error sentinel / panic / hang) and the hex codec used by the line protocol.
  Core Lean only (this file is linked into the compiled driver).
-/
namespace PV

abbrev Bytes := List UInt8

/-- Sentinel errors of package `packet` (session.go) as seen through `errors.Is`. -/
inductive Err where
  | invalidLen | payloadTooBig | parseFrame | parseProtocol | frameLen | invalidConn
  | invalidIP | invalidMAC | invalidIP6LLA | notFound | timeout | notRedirected
  | isRouter | noReader | invalidParam | multicastMAC | handlerClosed
  | other
  deriving DecidableEq, Repr, Inhabited

def Err.toString : Err → String
  | .invalidLen => "ErrInvalidLen" | .payloadTooBig => "ErrPayloadTooBig"
  | .parseFrame => "ErrParseFrame" | .parseProtocol => "ErrParseProtocol"
  | .frameLen => "ErrFrameLen" | .invalidConn => "ErrInvalidConn"
  | .invalidIP => "ErrInvalidIP" | .invalidMAC => "ErrInvalidMAC"
  | .invalidIP6LLA => "ErrInvalidIP6LLA" | .notFound => "ErrNotFound"
  | .timeout => "ErrTimeout" | .notRedirected => "ErrNotRedirected"
  | .isRouter => "ErrIsRouter" | .noReader => "ErrNoReader"
  | .invalidParam => "ErrInvalidParam" | .multicastMAC => "ErrMulticastMAC"
  | .handlerClosed => "ErrHandlerClosed" | .other => "other"

instance : ToString Err := ⟨Err.toString⟩

/-- Result of running a piece of Go code: a value, a returned error, a run-time panic
    (index / slice bounds, nil dereference, explicit `panic`) or non-termination
    (only produced by fuel-bounded loops). -/
inductive Outcome (α : Type) where
  | ok : α → Outcome α
  | err : Err → Outcome α
  | panic : Outcome α
  | hang : Outcome α
  deriving DecidableEq, Repr

namespace Outcome
@[inline] def bind {α β} (x : Outcome α) (f : α → Outcome β) : Outcome β :=
  match x with
  | .ok a => f a
  | .err e => .err e
  | .panic => .panic
  | .hang => .hang

instance : Monad Outcome where
  pure := .ok
  bind := bind

def isPanic {α} : Outcome α → Bool
  | .panic => true
  | _ => false

def isHang {α} : Outcome α → Bool
  | .hang => true
  | _ => false

/-- `safe x` : the call returned (value or error) – no panic, no hang. -/
def safe {α} : Outcome α → Bool
  | .ok _ => true
  | .err _ => true
  | _ => false

@[simp] theorem bind_ok {α β} (a : α) (f : α → Outcome β) : (Outcome.ok a >>= f) = f a := rfl
@[simp] theorem bind_err {α β} (e : Err) (f : α → Outcome β) : (Outcome.err e >>= f) = .err e := rfl
@[simp] theorem bind_panic {α β} (f : α → Outcome β) : (Outcome.panic >>= f) = .panic := rfl
@[simp] theorem bind_hang {α β} (f : α → Outcome β) : (Outcome.hang >>= f) = .hang := rfl
@[simp] theorem pure_eq {α} (a : α) : (pure a : Outcome α) = .ok a := rfl
end Outcome

/-! ### Go slice primitives on `Bytes` (length-only view; capacity is modelled where it matters) -/

/-- `b[i]` – panics when `i ≥ len(b)`. -/
def idx (b : Bytes) (i : Nat) : Outcome UInt8 :=
  match b[i]? with
  | some v => .ok v
  | none => .panic

/-- `b[lo:hi]` with `hi ≤ len(b)` (no spare capacity) – panics when `lo > hi` or `hi > len`. -/
def slice (b : Bytes) (lo hi : Nat) : Outcome Bytes :=
  if lo ≤ hi ∧ hi ≤ b.length then .ok ((b.take hi).drop lo) else .panic

/-- `b[lo:]` – panics when `lo > len`. -/
def sliceFrom (b : Bytes) (lo : Nat) : Outcome Bytes :=
  if lo ≤ b.length then .ok (b.drop lo) else .panic

/-- big-endian 16-bit read of two bytes -/
def be16 (hi lo : UInt8) : Nat := hi.toNat * 256 + lo.toNat

def be32 (a b c d : UInt8) : Nat := ((a.toNat * 256 + b.toNat) * 256 + c.toNat) * 256 + d.toNat

/-! ### hex codec for the line protocol -/

def hexDigit (n : Nat) : Char :=
  if n < 10 then Char.ofNat (48 + n) else Char.ofNat (87 + n)

def hexByte (b : UInt8) : String :=
  String.ofList [hexDigit (b.toNat / 16), hexDigit (b.toNat % 16)]

/-- bytes → lower-case hex; the empty string is written `-`. -/
def toHex (b : Bytes) : String :=
  if b.isEmpty then "-" else String.join (b.map hexByte)

def hexVal (c : Char) : Option Nat :=
  if '0' ≤ c ∧ c ≤ '9' then some (c.toNat - 48)
  else if 'a' ≤ c ∧ c ≤ 'f' then some (c.toNat - 87)
  else if 'A' ≤ c ∧ c ≤ 'F' then some (c.toNat - 55)
  else none

def fromHexChars : List Char → Option Bytes
  | [] => some []
  | [_] => none
  | a :: b :: rest => do
    let x ← hexVal a
    let y ← hexVal b
    let r ← fromHexChars rest
    pure (UInt8.ofNat (x * 16 + y) :: r)

def fromHex (s : String) : Option Bytes :=
  if s == "-" then some [] else fromHexChars s.toList

def outcomeStr {α} (f : α → String) : Outcome α → String
  | .ok a => "ok " ++ f a
  | .err e => "err " ++ e.toString
  | .panic => "panic"
  | .hang => "hang"

end PV
