/-
  C18 / C11 — the DHCP server across restarts.

  The state machine of C11 / C12 (`Model.Dhcp4Srv.step`) becomes a PROCESS (`Model.Dhcp4Restart.PState`): the handler's
  state plus the lease table as `saveConfig` wrote it last — the code saves at the end of `Config.New` and on the ACK path
  of `handleRequest`, nowhere else — with one more operation, `restart captured hosts`: the process ends at any moment and
  a new handler is constructed by `Config.New` from the file AS IT IS (`Model.Dhcp4File.save` / `construct`, the code of
  C18) over a session with an arbitrary capture set and host table.
  All statements are for a server constructed by `Config.New` from a configuration `n` it accepts (`n.accepted`: netfilter
  prefix inside the home LAN; `News n`: both `newSubnet` calls succeed, i.e. `New` returns a handler at all), for every
  history of operations with any number of restarts in it (`ReachR`), every capture set and host table at each restart.

  * `restart_defined`            the restart has exactly one outcome: `New` neither fails nor resets; the table is exactly
                                 the allocated leases of the file with a client identifier, each re-attached to net1 / net2
  * `restart_keeps_current`      every lease allocated in the handler (with a client identifier) is in the restarted table
  * `restart_inv`                C11's table invariant holds again after the re-attachment (closes the C11 gap)
  * `reach_restart_inv`          … and along every history with restarts
  * `reach_restart_inv_sim`      invariant + ledger refinement for every history with restarts (messages carry a hardware address)
  * `ack_unique_restart`         C11 (a) across restarts: no address acknowledged to two client ids at once
  * `restarted_renewals_acked`   RENEW / REBIND / INIT-REBOOT of a surviving lease is acknowledged with the same address
  * `restarted_not_reoffered`    no OFFER / ACK after the restart carries an address bound to another client
  * `restarted_not_reoffered_ledger`  the same against the observer's ledger (acknowledgements made before the restart)
-/
import PacketVerif.Lemmas.Dhcp4Restart
namespace PV.Props.C18Restart
open PV PV.Model.Dhcp4Srv PV.Model.Dhcp4File PV.Model.Dhcp4Restart PV.Lemmas.Dhcp4Srv PV.Lemmas.Dhcp4Restart
open PV.Props PV.Props.C18 PV.Spec.Ledger

/-- (p, L) is reachable from the freshly constructed server by some history of operations and restarts -/
def ReachR (n : NewCfg) (p : PState) (L : Ledger) : Prop := ∃ ops, (p, L) ∈ runR n (initP n) [] ops

/-- … by a history whose messages carry a hardware address -/
def ReachRW (n : NewCfg) (p : PState) (L : Ledger) : Prop :=
  ∃ ops, (∀ op, op ∈ ops → WFOp op) ∧ (p, L) ∈ runR n (initP n) [] ops

/-- **the invariant along every history with restarts**: C11's table invariant and "an allocated lease carries no
    pending offer" hold for the handler's table and for the table in the lease file, and the file holds every allocated
    lease of the handler — preserved by every operation and by every restart, whatever the capture set and the host
    table of the new process are -/
theorem reach_restart_inv (n : NewCfg) (ha : n.accepted = true) (hn : News n) :
    ∀ (ops : List ROp) (p : PState) (L : Ledger), PInv (mkCfg n) p → ∀ pl, pl ∈ runR n p L ops → PInv (mkCfg n) pl.1
  | [], p, L, h, pl, hm => by simp [runR] at hm; rw [hm]; exact h
  | op :: ops, p, L, h, pl, hm => by
    simp only [runR, List.mem_flatMap] at hm
    obtain ⟨o, ho, hm'⟩ := hm
    exact reach_restart_inv n ha hn ops o.1 _ (pinv_stepP n ha hn h op o ho) pl hm'

/-- **invariant and ledger refinement along every history with restarts** (`reach_inv_sim` of C11 with `restart` as an
    additional operation): the observer's ledger — built from the replies only, unchanged by a restart — stays backed
    by allocated leases of the same client, address and expiry, in the handler's table and in the lease file -/
theorem reach_restart_inv_sim (n : NewCfg) (ha : n.accepted = true) (hn : News n) :
    ∀ (ops : List ROp), (∀ op, op ∈ ops → WFOp op) → ∀ (p : PState) (L : Ledger),
      PInv (mkCfg n) p → PSim p L →
      ∀ pl, pl ∈ runR n p L ops → C11.Inv (mkCfg n) pl.1.s ∧ C11.Sim pl.1.s pl.2 ∧ PSim pl.1 pl.2
  | [], _, p, L, h, hS, pl, hm => by simp [runR] at hm; rw [hm]; exact ⟨h.cur.tinv, hS.sim, hS⟩
  | op :: ops, hw, p, L, h, hS, pl, hm => by
    simp only [runR, List.mem_flatMap] at hm
    obtain ⟨o, ho, hm'⟩ := hm
    exact reach_restart_inv_sim n ha hn ops (fun q hq => hw q (List.mem_cons_of_mem _ hq)) o.1 _
      (pinv_stepP n ha hn h op o ho) (psim_stepP n ha hn h hS op (hw op (List.mem_cons_self ..)) o ho) pl hm'

theorem reachR_pinv (n : NewCfg) (ha : n.accepted = true) (hn : News n) {p : PState} {L : Ledger} (h : ReachR n p L) :
    PInv (mkCfg n) p := by
  obtain ⟨ops, h⟩ := h
  exact reach_restart_inv n ha hn ops (initP n) [] (pinv_init n) (p, L) h

theorem reachRW_ok (n : NewCfg) (ha : n.accepted = true) (hn : News n) {p : PState} {L : Ledger} (h : ReachRW n p L) :
    C11.Inv (mkCfg n) p.s ∧ C11.Sim p.s L ∧ PSim p L := by
  obtain ⟨ops, hw, h⟩ := h
  exact reach_restart_inv_sim n ha hn ops hw (initP n) [] (pinv_init n)
    ⟨by intro e he; simp [initP, init] at he, by intro e he; simp [initP] at he, by intro b hb; simp at hb,
     by intro b hb; simp at hb⟩ (p, L) h

theorem reachRW_reachR {n : NewCfg} {p : PState} {L : Ledger} (h : ReachRW n p L) : ReachR n p L := by
  obtain ⟨ops, _, h⟩ := h
  exact ⟨ops, h⟩

/-- **C11 (a) across restarts: along every history of operations and restarts no address is acknowledged to two
    different client identifiers at the same time** -/
theorem ack_unique_restart (n : NewCfg) (ha : n.accepted = true) (hn : News n) {p : PState} {L : Ledger}
    (h : ReachRW n p L) : Unique L := by
  obtain ⟨hI, hS, _⟩ := reachRW_ok n ha hn h
  intro b1 b2 h1 h2 e
  obtain ⟨l1, m1, a1, i1, _⟩ := hS b1 h1
  obtain ⟨l2, m2, a2, i2, _⟩ := hS b2 h2
  exact hI.uniq _ _ _ _ m1 m2 a1 a2 (by rw [i1, i2, e])

/-- **the restart operation is defined and deterministic** in every reachable state: `Config.New` neither fails nor
    resets; the new table holds exactly the allocated leases of the lease file that have a client identifier (what the
    load rules keep: the address is inside the home LAN by the invariant), each with its MAC, address, xid and expiry,
    attached to the netfilter subnet when its MAC is captured now and the address is a host address of that subnet other
    than its gateway, else to the home subnet; the allocation cursors restart at `FirstIP` -/
theorem restart_defined (n : NewCfg) (ha : n.accepted = true) (hn : News n) {p : PState} {L : Ledger} (h : ReachR n p L)
    (capt : List MAC) (hosts : List (IP × MAC)) :
    ∃ s', restart n p.file capt hosts = [s'] ∧ s'.next1 = (mkCfg n).net1.first ∧ s'.next2 = (mkCfg n).net2.first
      ∧ s'.hosts = hosts ∧ s'.captured = capt
      ∧ ∀ c l', (c, l') ∈ s'.table ↔
          ∃ l, (c, l) ∈ p.file ∧ l.state = .allocated ∧ c ≠ []
            ∧ l' = reloaded (fun m => capt.contains m) (lsubOf (mkCfg n).net2 3) l := by
  obtain ⟨s', e, h1, h2, h3, h4, _, hm⟩ := restart_spec n ha hn p.file (reachR_pinv n ha hn h).fileT capt hosts
  exact ⟨s', e, h1, h2, h3, h4, hm⟩

/-- **leases survive the restart**: every lease that is allocated in the handler's table when the process ends — at any
    moment, not only right after a save — and has a client identifier is in the restarted table with the same MAC,
    address, xid and expiry (re-attached by the load rule).  (The file may additionally resurrect a lease the client gave
    up after the last ACK: DECLINE / RELEASE / expiry are not written to the file.) -/
theorem restart_keeps_current (n : NewCfg) (ha : n.accepted = true) (hn : News n) {p : PState} {L : Ledger}
    (h : ReachR n p L) (capt : List MAC) (hosts : List (IP × MAC)) (s' : State) (hs' : s' ∈ restart n p.file capt hosts)
    (c : Cid) (l : Lease) (hm : (c, l) ∈ p.s.table) (hst : l.state = .allocated) (hc : c ≠ []) :
    (c, reloaded (fun m => capt.contains m) (lsubOf (mkCfg n).net2 3) l) ∈ s'.table := by
  have hP := reachR_pinv n ha hn h
  obtain ⟨s0, e, _, _, _, _, _, hmem⟩ := restart_spec n ha hn p.file hP.fileT capt hosts
  rw [e, List.mem_singleton] at hs'
  subst hs'
  exact (hmem c _).2 ⟨l, hP.covers c l hm hst, hst, hc, rfl⟩

/-- **C11's invariant holds again after a restart** (the gap of C11): in the state rebuilt by `Config.New` from the
    lease file — leases moved between net1 and net2 by the capture state found at load time, leases the load rules
    refuse dropped — allocated leases of different clients have different addresses, every stored address is a usable
    host address of the subnet the lease is NOW attached to (not network / broadcast / gateway / host / router), keys
    are unique. -/
theorem restart_inv (n : NewCfg) (ha : n.accepted = true) (hn : News n) {p : PState} {L : Ledger} (h : ReachR n p L)
    (capt : List MAC) (hosts : List (IP × MAC)) :
    ∀ s', s' ∈ restart n p.file capt hosts → C11.Inv (mkCfg n) s' := by
  have hP := reachR_pinv n ha hn h
  exact fun s' hs' => (restart_rinv n ha hn hP.fileT hP.fileA capt hosts s' hs').tinv

/-- the restarted process is itself reachable (by the history extended with the restart), with the same ledger -/
theorem restart_reach (n : NewCfg) {p : PState} {L : Ledger} (h : ReachR n p L) (capt : List MAC) (hosts : List (IP × MAC))
    (s' : State) (hs' : s' ∈ restart n p.file capt hosts) : ReachR n { s := s', file := s'.table } L := by
  obtain ⟨ops, h⟩ := h
  refine ⟨ops ++ [.restart capt hosts], ?_⟩
  have key : ∀ (ops : List ROp) (p0 : PState) (L0 : Ledger), (p, L) ∈ runR n p0 L0 ops →
      (({ s := s', file := s'.table } : PState), L) ∈ runR n p0 L0 (ops ++ [.restart capt hosts]) := by
    intro ops
    induction ops with
    | nil =>
      intro p0 L0 hm
      simp only [runR, List.mem_singleton, Prod.mk.injEq] at hm
      obtain ⟨rfl, rfl⟩ := hm
      simp only [List.nil_append, runR, stepP, List.mem_flatMap, List.mem_map]
      exact ⟨({ s := s', file := s'.table }, []), ⟨s', hs', rfl⟩, by simp [observeR]⟩
    | cons op ops ih =>
      intro p0 L0 hm
      simp only [runR, List.mem_flatMap] at hm
      obtain ⟨o, ho, hm'⟩ := hm
      simp only [List.cons_append, runR, List.mem_flatMap]
      exact ⟨o, ho, ih _ _ hm'⟩
  exact key ops _ _ h

/-- **C18: renewals after a restart are acknowledged.**  A client `c` whose lease was allocated in the handler's table when the process ended (address `ip`,
    MAC `l.mac`) and survives the load rules (it has a client identifier) sends, to the restarted server `s'`, a REQUEST
    without server identifier — RENEW (`ciaddr = ip`, unicast), REBIND (`ciaddr = ip`, broadcast source) or INIT-REBOOT
    (requested-address option `ip`) — from that MAC.  It is answered with exactly one reply, an ACK for `ip` carrying the
    request's xid and chaddr, and the lease is allocated for `now + lease time`, PROVIDED (the side conditions the code
    imposes)
      * same subnet selection: if the MAC is captured when the server restarts, `ip` is a host address of the netfilter
        subnet other than its gateway (else the lease is attached to the home subnet while the request is judged under
        the netfilter subnet: `findOrCreate` discards it);
      * not seen on another MAC: the session does not track `ip` for a different MAC;
      * RENEW only: the lease time has not run out (`l.expiry ≥ now`; the rebinding / rebooting branch does not look at it). -/
theorem restarted_renewals_acked (n : NewCfg) (ha : n.accepted = true) (hn : News n) {p : PState} {L : Ledger}
    (h : ReachR n p L) (capt : List MAC) (hosts : List (IP × MAC)) (s' : State) (hs' : s' ∈ restart n p.file capt hosts)
    (c : Cid) (l : Lease) (ip : IP) (hm : (c, l) ∈ p.s.table) (hst : l.state = .allocated) (hip : l.ip = some ip)
    (hc : c ≠ []) (now : Nat) (m : Msg) (hcid : clientId m = c) (hmac : m.chaddr = l.mac)
    (hkind : reqKind m ≠ .selecting) (hreq : reqIPOf m = ip)
    (hsub : isCaptured s' m.chaddr = true → attachNet2 (lsubOf (mkCfg n).net2 3) ip = true)
    (hfree : takenByOther s' m.chaddr (some ip) = false)
    (hexp : reqKind m = .renewing → ¬ l.expiry < now) :
    ∃ s'' r, request (mkCfg n) s' now m = (s'', [r]) ∧ r.typ = .ack ∧ r.yiaddr = ip ∧ r.xid = m.xid ∧ r.chaddr = m.chaddr
      ∧ ∃ l'', (c, l'') ∈ s''.table ∧ l''.state = .allocated ∧ l''.ip = some ip ∧ l''.mac = l.mac
          ∧ l''.expiry = now + ((mkCfg n).sub (selSub s' m.chaddr)).dur := by
  have hP := reachR_pinv n ha hn h
  obtain ⟨s0, e, _, _, _, hcap, hk, hmem⟩ := restart_spec n ha hn p.file hP.fileT capt hosts
  have hR' := restart_rinv n ha hn hP.fileT hP.fileA capt hosts s' hs'
  rw [e, List.mem_singleton] at hs'
  subst hs'
  -- the reloaded lease and where it is attached
  have hrl := (hmem c _).2 ⟨l, hP.covers c l hm hst, hst, hc, rfl⟩
  have hsel : (reloaded (fun m => capt.contains m) (lsubOf (mkCfg n).net2 3) l).sub = selSub s' m.chaddr := by
    have hic : isCaptured s' m.chaddr = capt.contains l.mac := by simp only [isCaptured, hcap, hmac]
    unfold selSub
    unfold reloaded
    simp only [hip, Option.getD_some]
    rw [hic] at hsub ⊢
    cases hcc : capt.contains l.mac
    · simp
    · simp [hsub hcc]
  have hfoc : findOrCreate s' c m.chaddr = reloaded (fun m => capt.contains m) (lsubOf (mkCfg n).net2 3) l := by
    unfold findOrCreate
    rw [getLease_of_mem hk hrl]
    simp only [hsel, hmac, (reloaded_fields _ _ l).2.2.2.1, and_self, if_true]
  have hok := hR'.tinv.ok c _ hrl
  have hus : usable (mkCfg n) (selSub s' m.chaddr) ip = true := by
    rw [← hsel]; exact hok.ipUsable ip hip
  have hcont : ((mkCfg n).sub (selSub s' m.chaddr)).contains (reqIPOf m) = true := by
    rw [hreq]
    unfold usable at hus
    simp only [Bool.and_eq_true] at hus
    exact hus.1.1.1.1.1
  have h0 : reqIPOf m ≠ 0 := by rw [hreq]; exact usable_ne_zero n _ ip hus
  have hreqeq := nonselecting_acked (cfg := mkCfg n) (s := s') now m
    (reloaded (fun m => capt.contains m) (lsubOf (mkCfg n).net2 3) l) (by rw [hcid]; exact hfoc) hst
    (by rw [hreq]; exact hip) h0 hkind hexp hcont (by rw [hreq]; exact hfree)
  rw [hreqeq, ackLease_eq]
  have hacked : ackedLease (mkCfg n) now (reloaded (fun m => capt.contains m) (lsubOf (mkCfg n).net2 3) l)
      = { reloaded (fun m => capt.contains m) (lsubOf (mkCfg n).net2 3) l with
            state := .allocated, expiry := now + ((mkCfg n).sub (selSub s' m.chaddr)).dur } := by
    unfold ackedLease
    have hnd : ¬ (reloaded (fun m => capt.contains m) (lsubOf (mkCfg n).net2 3) l).state = .discover := by
      rw [(reloaded_fields _ _ l).1, hst]; intro hx; cases hx
    simp only [hnd, if_false, hsel]
  refine ⟨_, _, rfl, rfl, ?_, rfl, rfl, _, mem_setLease.2 (Or.inl ⟨hcid.symm, rfl⟩), ?_, ?_, ?_, ?_⟩
  · simp only [mkReply, hacked, (reloaded_fields _ _ l).2.1, hip, Option.getD_some]
  · rw [hacked]
  · rw [hacked]; exact hip
  · rw [hacked]; rfl
  · rw [hacked]

/-- **C18: a bound address is not handed to another client after a restart.**  Whatever message arrives at the
    restarted server `s'` — a stranger's DISCOVER (naming the address or not), a selecting REQUEST, anything — no OFFER
    and no ACK it sends carries the address of a lease that was allocated to a DIFFERENT client when the process ended and survived the
    load rules (`given_not_bound` says the same of every lease bound in `s'`, resurrected ones included). -/
theorem restarted_not_reoffered (n : NewCfg) (ha : n.accepted = true) (hn : News n) {p : PState} {L : Ledger}
    (h : ReachR n p L) (capt : List MAC) (hosts : List (IP × MAC)) (s' : State) (hs' : s' ∈ restart n p.file capt hosts)
    (op : Op) (m : Msg) (hop : C11.msgOf op = some m) (o : State × List Reply) (ho : o ∈ step (mkCfg n) s' op)
    (r : Reply) (hr : r ∈ o.2) (ht : r.typ ≠ .nak)
    (k : Cid) (l : Lease) (hkl : (k, l) ∈ p.s.table) (hst : l.state = .allocated) (hk : k ≠ [])
    (hip : l.ip = some r.yiaddr) : k = clientId m :=
  given_not_bound (restart_inv n ha hn h capt hosts s' hs') op m hop o ho r hr ht k _
    (restart_keeps_current n ha hn h capt hosts s' hs' k l hkl hst hk) hst hip

/-- the same against the observer's ledger: after a restart no OFFER and no ACK carries an address whose
    acknowledgement to another client — made before the restart — is still in force -/
theorem restarted_not_reoffered_ledger (n : NewCfg) (ha : n.accepted = true) (hn : News n) {p : PState} {L : Ledger}
    (h : ReachRW n p L) (capt : List MAC) (hosts : List (IP × MAC)) (s' : State) (hs' : s' ∈ restart n p.file capt hosts)
    (op : Op) (m : Msg) (hop : C11.msgOf op = some m) (o : State × List Reply) (ho : o ∈ step (mkCfg n) s' op)
    (r : Reply) (hr : r ∈ o.2) (ht : r.typ ≠ .nak) : FreeFor L (clientId m) r.yiaddr := by
  obtain ⟨_, hS, hK⟩ := reachRW_ok n ha hn h
  intro b hb hbi
  obtain ⟨l, hml, hst, hip, _⟩ := hS b hb
  exact restarted_not_reoffered n ha hn (reachRW_reachR h) capt hosts s' hs' op m hop o ho r hr ht b.cid l hml hst
    (hK.keys _ hml) (by rw [hip, hbi])

/-! ### non-vacuity: a concrete two-client server -/

/-- home LAN 0/28 (router 1, we are 9), netfilter prefix 9/29 (= 8..15, our address 9 is its gateway), DNS server 1:
    `mkCfg nEx` is C11's `cfgEx` up to the netfilter DNS server -/
def nEx : NewCfg :=
  { mode := .primary, host := 9, router := 1, homeLan := 0, homeBits := 28, nfAddr := 9, nfBits := 29, dns := some 1 }

example : nEx.accepted = true := by decide

theorem news_nEx : News nEx := ⟨lsubOf (mkCfg nEx).net1 1, lsubOf (mkCfg nEx).net2 3, by decide, by decide⟩

def leaseA : Lease :=
  { state := .allocated, mac := C11.macA, ip := some 10, offer := none, xid := [1, 0, 0, 1], sub := .net2, expiry := 14500 }
def leaseB : Lease :=
  { state := .allocated, mac := C11.macB, ip := some 2, offer := none, xid := [2, 0, 0, 1], sub := .net1, expiry := 14500 }

/-- client A (captured) holds 10 in the netfilter subnet, client B (not captured) holds 2 in the home subnet -/
def sTwo : State :=
  { table := [(C11.macB, leaseB), (C11.macA, leaseA)], next1 := 3, next2 := 11, hosts := [], captured := [C11.macA] }

def histTwo : List ROp :=
  [.op (.capture C11.macA), .op (.discover 100 (C11.msgEx 1 none none)),
   .op (.request 100 (C11.msgEx 1 (some [0, 0, 0, 10]) (some [0, 0, 0, 9]))),
   .op (.discover 100 (C11.msgEx 2 none none)),
   .op (.request 100 (C11.msgEx 2 (some [0, 0, 0, 2]) (some [0, 0, 0, 9])))]

theorem sTwo_reach : ReachRW nEx ⟨sTwo, sTwo.table⟩ [⟨10, C11.macA, 14500⟩, ⟨2, C11.macB, 14500⟩] :=
  ⟨histTwo, fun op hop => wfOp_of_B (by revert op hop; decide), by decide⟩

/-- the state after a restart under the same capture set: both leases survive, attached as before; cursors at FirstIP -/
def sTwoR : State :=
  { table := [(C11.macA, leaseA), (C11.macB, leaseB)], next1 := 1, next2 := 9, hosts := [], captured := [C11.macA] }

example : restart nEx sTwo.table [C11.macA] [] = [sTwoR] := by decide

/-- restart with A no longer captured: A's lease (10, a host address of the home LAN as well) moves to the home subnet;
    restart with B captured as well: 2 is not an address of the netfilter subnet, B's lease stays in the home subnet -/
example : (restart nEx sTwo.table [] []).map (fun s => s.table.map (fun e => (e.1, e.2.ip, e.2.sub)))
    = [[(C11.macA, some 10, .net1), (C11.macB, some 2, .net1)]] := by decide
example : (restart nEx sTwo.table [C11.macA, C11.macB] []).map (fun s => s.table.map (fun e => (e.1, e.2.ip, e.2.sub)))
    = [[(C11.macA, some 10, .net2), (C11.macB, some 2, .net1)]] := by decide

/-- non-vacuity of `restarted_renewals_acked`: A's RENEW, REBIND and INIT-REBOOT and B's RENEW are acknowledged by the
    restarted server with the address they held -/
example : ([{ C11.msgEx 1 none none with ciaddr := 10, srcIP := 10 },
            { C11.msgEx 1 none none with ciaddr := 10, srcIP := 4294967295 },
            C11.msgEx 1 (some [0, 0, 0, 10]) none,
            { C11.msgEx 2 none none with ciaddr := 2, srcIP := 2 }].map
          (fun m => (request (mkCfg nEx) sTwoR 7300 m).2.map (fun r => (r.typ, r.yiaddr))))
    = [[(.ack, 10)], [(.ack, 10)], [(.ack, 10)], [(.ack, 2)]] := by decide

/-- the side conditions are needed: B captured at restart (its lease stays in the home subnet, the request is judged
    under the netfilter subnet), the address seen on another MAC, the lease time run out -/
example : (restart nEx sTwo.table [C11.macA, C11.macB] []).map
    (fun s => (request (mkCfg nEx) s 7300 { C11.msgEx 2 none none with ciaddr := 2, srcIP := 2 }).2.map (·.typ)) = [[.nak]] := by
  decide
example : (restart nEx sTwo.table [C11.macA] [(10, C11.macB)]).map
    (fun s => (request (mkCfg nEx) s 7300 { C11.msgEx 1 none none with ciaddr := 10, srcIP := 10 }).2.map (·.typ)) = [[.nak]] := by
  decide
example : (request (mkCfg nEx) sTwoR 14501 { C11.msgEx 1 none none with ciaddr := 10, srcIP := 10 }).2.map (·.typ) = [.nak] := by
  decide

/-- non-vacuity of `restarted_not_reoffered`: a stranger (not captured / captured) who names A's address 10 in its
    DISCOVER is offered another address by the restarted server -/
example : ((discover (mkCfg nEx) sTwoR 7300 (C11.msgEx 3 (some [0, 0, 0, 10]) none)).2.map (·.yiaddr),
           (discover (mkCfg nEx) { sTwoR with captured := [C11.macA, [0, 2, 3, 4, 5, 3]] } 7300
              (C11.msgEx 3 (some [0, 0, 0, 10]) none)).2.map (·.yiaddr)) = ([3], [11]) := by decide

/-- a lease dropped by the load rules: a client without hardware address and client identifier (key `[]`) is acknowledged
    10, the restarted server has forgotten it — the reason for `c ≠ []` in the theorems and for `ReachRW` in the ledger ones -/
example : ReachR nEx ⟨{ table := [([], { leaseA with mac := [] })], next1 := 1, next2 := 11, hosts := [], captured := [[]] },
                      [([], { leaseA with mac := [] })]⟩ [⟨10, [], 14500⟩]
    ∧ (restart nEx [([], { leaseA with mac := [] })] [[]] []).map (·.table) = [[]] :=
  ⟨⟨[.op (.capture []), .op (.discover 100 { C11.msgEx 1 none none with chaddr := [] }),
     .op (.request 100 { C11.msgEx 1 (some [0, 0, 0, 10]) (some [0, 0, 0, 9]) with chaddr := [] })], by decide⟩, by decide⟩

/-- a stale file: B DECLINEs its address after the last ACK; nothing is written, the restarted server holds B's lease again
    (resurrected, not lost: `restart_keeps_current` is about the leases the handler still holds) -/
example : ∃ p, ReachRW nEx p [⟨10, C11.macA, 14500⟩] ∧ p.s.table.map (fun e => (e.1, e.2.state)) = [(C11.macB, .free), (C11.macA, .allocated)]
    ∧ (restart nEx p.file [C11.macA] []).map (fun s => s.table.map (fun e => (e.1, e.2.ip))) = [[(C11.macA, some 10), (C11.macB, some 2)]] :=
  ⟨⟨{ sTwo with table := [(C11.macB, { leaseB with state := .free, ip := none }), (C11.macA, leaseA)] }, sTwo.table⟩,
   ⟨histTwo ++ [.op (.decline (C11.msgEx 2 (some [0, 0, 0, 2]) (some [0, 0, 0, 9])))],
    fun op hop => wfOp_of_B (by revert op hop; decide), by decide⟩, by decide, by decide⟩

/-- the theorems instantiated on the two-client server: their hypotheses are satisfiable -/

example : ∀ s', s' ∈ restart nEx sTwo.table [] [(10, C11.macB)] → C11.Inv (mkCfg nEx) s' :=
  restart_inv nEx (by decide) news_nEx (reachRW_reachR sTwo_reach) _ _

example : ∃ s'' r, request (mkCfg nEx) sTwoR 7300 { C11.msgEx 1 none none with ciaddr := 10, srcIP := 10 } = (s'', [r])
    ∧ r.typ = .ack ∧ r.yiaddr = 10 := by
  obtain ⟨s'', r, h1, h2, h3, _⟩ := restarted_renewals_acked nEx (by decide) news_nEx (reachRW_reachR sTwo_reach)
    [C11.macA] [] sTwoR (by decide) C11.macA leaseA 10 (by decide) rfl rfl (by decide) 7300
    { C11.msgEx 1 none none with ciaddr := 10, srcIP := 10 } (by decide) (by decide) (by decide) (by decide)
    (by intro _; decide) (by decide) (by intro _; decide)
  exact ⟨s'', r, h1, h2, h3⟩

example : Unique [⟨10, C11.macA, 14500⟩, ⟨2, C11.macB, 14500⟩] := ack_unique_restart nEx (by decide) news_nEx sTwo_reach

end PV.Props.C18Restart
