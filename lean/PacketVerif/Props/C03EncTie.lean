/-
  Tie B for the encoder BODIES (C03; the same functions carry the frame theorems of C07).
  `Gen/Encoders.lean` is regenerated from the Go source on every run (tools/goextract/encoders.go): the body
  of every straight-line encoder — EncodeEther, EncodeIP4, EncodeIP6, EncodeUDP, EncodeARP, EncodeICMPEcho, the
  SetPayload / AppendPayload methods of Ether, IP4, IP6, UDP, and the builders that allocate their own buffer
  (EncodeDNSQuery, ICMP6NeighborAdvertisementMarshal, ICMP6NeighborSolicitationMarshal) — translated statement by statement into Lean
  source over the memory primitives of Model/Encode.lean (`reslice`, `from_`, `put8`, `put16`, `copyAt`,
  `poke`).  Each theorem below proves the regenerated function EQUAL, for all memories, slices and
  arguments, to the hand-written model function that the theorems of Props/C03.lean (round trips, capacity
  rejection, no write outside the destination) and Props/C07.lean are about, so those theorems are
  re-checked against what the encoder bodies say now.  A changed offset, width, constant, guard, statement
  order or error value in a Go encoder makes the corresponding proof fail at build time.

  Most equalities are definitional (`rfl`: the translation and the model are the same term up to unfolding
  and literal arithmetic).  Where the Go text is shaped differently the equality is proved extensionally,
  once: `putCks` groups two stores (bind associativity), `x == nil` is `False` under a recorded assumption,
  EncodeIP4 normalises its addresses before `As4()` (`goAs4_norm`), EncodeIP6 allocates when the buffer is
  too small (excluded by hypothesis — the model describes the in-place case only).
-/
import PacketVerif.Gen.Encoders
import PacketVerif.Model.Encode
import PacketVerif.Lemmas.EncodeMem
import PacketVerif.Model.DnsName
set_option linter.unusedSimpArgs false
namespace PV.Props.C03EncTie
open PV PV.Model PV.Lemmas

theorem bind_assoc {α β γ} (x : Outcome α) (f : α → Outcome β) (g : β → Outcome γ) :
    (x >>= f) >>= g = x >>= fun a => f a >>= g := by cases x <;> rfl

/-- `As4()` after `if !a.Is4() { a = IPv4zero }` cannot panic and yields the model's `as4` -/
theorem goAs4_norm (x : Bytes) :
    goAs4 (if x.length == 4 then x else ([0, 0, 0, 0] : Bytes)) = .ok (as4 x) := by
  unfold goAs4 as4; split <;> simp_all

/-! ### the five header encoders -/

theorem encodeEther_tie (m : Mem) (b : Sl) (hType : Nat) (src dst : Bytes) :
    Gen.Enc.EncodeEther m b hType src dst = encodeEther m b hType src dst := rfl

theorem encodeIP4_tie (m : Mem) (p : Sl) (ttl : UInt8) (src dst : Bytes) :
    Gen.Enc.EncodeIP4 m p ttl src dst = encodeIP4 m p ttl src dst := by
  unfold Gen.Enc.EncodeIP4 encodeIP4; simp only [goAs4_norm, Outcome.bind_ok]; rfl

/-- in place, i.e. when the buffer has room for the header (otherwise the Go code allocates: `Gen.Enc.encoderAssumptions`) -/
theorem encodeIP6_tie (m : Mem) (p : Sl) (hop : UInt8) (src dst : Bytes) (hc : 40 ≤ p.cap m) :
    Gen.Enc.EncodeIP6 m p hop src dst = encodeIP6 m p hop src dst := by
  unfold Gen.Enc.EncodeIP6 encodeIP6; simp only [false_or]; rw [if_neg (by omega)]; rfl

theorem encodeUDP_tie (m : Mem) (p : Sl) (sp dp : Nat) :
    Gen.Enc.EncodeUDP m p sp dp = encodeUDP m p sp dp := rfl

/-- the `Port` fields of the two `Addr` arguments are not read -/
theorem encodeARP_tie (m : Mem) (b : Sl) (op : Nat) (smac sip tmac tip : Bytes) (sport tport : Nat) :
    Gen.Enc.EncodeARP m b op smac sip sport tmac tip tport = encodeARP m b op smac sip tmac tip := rfl

/-! ### SetPayload / AppendPayload (the model functions take `len(b)` where only the length is used) -/

theorem etherSetPayload_tie (m : Mem) (p : Sl) (payload : Bytes) :
    Gen.Enc.Ether_SetPayload m p payload = (etherSetPayload m p payload.length >>= fun r => pure (m, r)) := by
  unfold Gen.Enc.Ether_SetPayload etherSetPayload; simp only [bind_assoc]

theorem ip4SetPayload_tie (m : Mem) (p : Sl) (b : Bytes) (proto : UInt8) :
    Gen.Enc.IP4_SetPayload m p b proto = ip4SetPayload m p b.length proto := by
  unfold Gen.Enc.IP4_SetPayload ip4SetPayload putCks; simp only [bind_assoc]

theorem ip4AppendPayload_tie (m : Mem) (p : Sl) (b : Bytes) (proto : UInt8) :
    Gen.Enc.IP4_AppendPayload m p b proto = ip4AppendPayload m p b proto := by
  unfold Gen.Enc.IP4_AppendPayload ip4AppendPayload putCks; simp only [bind_assoc]

theorem udpSetPayload_tie (m : Mem) (p : Sl) (b : Bytes) :
    Gen.Enc.UDP_SetPayload m p b = udpSetPayload m p b.length := rfl

theorem udpAppendPayload_tie (m : Mem) (p : Sl) (b : Bytes) :
    Gen.Enc.UDP_AppendPayload m p b = udpAppendPayload m p b := rfl

theorem ip6SetPayload_tie (m : Mem) (p : Sl) (b : Bytes) (nh : UInt8) :
    Gen.Enc.IP6_SetPayload m p b nh = ip6SetPayload m p b.length nh := rfl

/-- for a non-nil payload (`Gen.Enc.encoderAssumptions`) -/
theorem ip6AppendPayload_tie (m : Mem) (p : Sl) (b : Bytes) (nh : UInt8) :
    Gen.Enc.IP6_AppendPayload m p b nh = ip6AppendPayload m p b nh := by
  unfold Gen.Enc.IP6_AppendPayload ip6AppendPayload; simp only [false_or]

/-! ### EncodeICMPEcho: the model is the byte string written (`encodeICMPEcho`), so the tie is a frame equation -/

/-- on any buffer with room the translated body writes exactly the model's bytes at the front of the buffer,
    leaves the rest untouched and returns the first `8 + len(data)` bytes -/
theorem encodeICMPEcho_tie (g : Mem) (t code : UInt8) (id seq : Nat) (data : Bytes) (hg : 8 + data.length ≤ g.length) :
    Gen.Enc.EncodeICMPEcho g (whole g) t code id seq data =
      .ok (encodeICMPEcho t code id seq data ++ g.drop (8 + data.length), some ⟨0, 8 + data.length⟩) := by
  have hcap : 8 ≤ g.length := by omega
  cells_le hcap
  rename_i T
  simp only [List.length_cons] at hg
  obtain ⟨A, T', rfl, hA⟩ := split_tail T data.length (by omega)
  unfold Gen.Enc.EncodeICMPEcho encodeICMPEcho
  rw [if_neg (by simp [whole, Sl.cap]; omega)]
  enc_exec
  simp only [hA, hi8_0, lo8_0]
  rw [show 8 + data.length = A.length + 8 by omega]
  simp [List.drop_append]

/-- without room nothing is written and nil is returned -/
theorem encodeICMPEcho_small (g : Mem) (t code : UInt8) (id seq : Nat) (data : Bytes) (hg : g.length < 8 + data.length) :
    Gen.Enc.EncodeICMPEcho g (whole g) t code id seq data = .ok (g, none) := by
  unfold Gen.Enc.EncodeICMPEcho
  rw [if_pos (by simp [whole, Sl.cap]; omega)]

/-! ### builders that allocate their own buffer: `b := make([]byte, n)` is the one (zeroed) backing array -/

/-- the bytes a builder returns -/
abbrev built (r : Outcome (Mem × Sl)) : Outcome Bytes := r >>= fun x => pure (x.2.bytes x.1)

theorem as16_len (ip : Bytes) : (as16 ip).length = 16 := by
  unfold as16; split
  · simp_all
  · split <;> simp_all

theorem naMarshal_tie (r s o : Bool) (ip mac : Bytes) (port : Nat) (hm : mac.length = 6) :
    built (Gen.Enc.ICMP6NeighborAdvertisementMarshal r s o mac ip port) =
      .ok (naMarshal r s o ip mac) := by
  have hL := as16_len ip
  unfold Gen.Enc.ICMP6NeighborAdvertisementMarshal naMarshal
  generalize as16 ip = L at hL ⊢
  cells hL; cells hm
  cases r <;> cases s <;> cases o <;>
  · simp only [List.replicate]
    enc_exec
    simp

theorem nsMarshal_tie16 (ip mac : Bytes) (hi : ip.length = 16) (hm : mac.length = 6) :
    built (Gen.Enc.ICMP6NeighborSolicitationMarshal ip mac) = .ok (nsMarshal ip mac) := by
  unfold Gen.Enc.ICMP6NeighborSolicitationMarshal nsMarshal
  cells hi; cells hm
  simp only [List.replicate]
  enc_exec
  simp

theorem nsMarshal_tie4 (ip mac : Bytes) (hi : ip.length = 4) (hm : mac.length = 6) :
    built (Gen.Enc.ICMP6NeighborSolicitationMarshal ip mac) = .ok (nsMarshal ip mac) := by
  unfold Gen.Enc.ICMP6NeighborSolicitationMarshal nsMarshal
  cells hi; cells hm
  simp only [List.replicate]
  enc_exec
  simp

theorem nsMarshal_tie0 (mac : Bytes) (hm : mac.length = 6) :
    built (Gen.Enc.ICMP6NeighborSolicitationMarshal [] mac) = .ok (nsMarshal [] mac) := by
  unfold Gen.Enc.ICMP6NeighborSolicitationMarshal nsMarshal
  cells hm
  simp only [List.replicate]
  enc_exec
  simp

theorem put16From_abs (m : Mem) (s : Sl) (a v : Nat) (ha : a + 2 ≤ s.len) (hb : s.off + s.len ≤ m.length) :
    s.put16From m a v = .ok (poke m (s.off + a) [hi8 (v % 65536), lo8 (v % 65536)]) := by
  unfold Sl.put16From
  rw [from_abs m s a (by omega) hb]
  simp only [Outcome.bind_ok]
  rw [if_neg (by simp; omega)]
  rfl

theorem put16_eq (v : Nat) (h : v < 65536) : [hi8 (v % 65536), lo8 (v % 65536)] = put16 v := by
  simp [hi8, lo8, put16, Nat.mod_eq_of_lt h]

theorem poke_after (pre Z bs : Bytes) (k : Nat) (hk : k = pre.length) :
    poke (pre ++ Z) k bs = pre ++ (bs ++ Z.drop bs.length) := by
  rw [poke_pre pre Z k 0 bs (by omega), poke_zero]

theorem encodeDNSQuery_tie (id fl qt : Nat) (name : Bytes) (hid : id < 65536) (hfl : fl < 65536) (hqt : qt < 65536)
    (hn : name.length ≤ 496) :
    built (Gen.Enc.EncodeDNSQuery id fl name qt) = encodeDNSQuery id fl name qt := by
  unfold Gen.Enc.EncodeDNSQuery encodeDNSQuery
  have hmin : min name.length 500 = name.length := by omega
  have hmin' : min 500 name.length = name.length := by omega
  simp only [hmin]
  rw [if_neg (by omega), if_neg (by omega)]
  rw [show List.replicate 512 (0 : UInt8) = [0,0,0,0,0,0,0,0,0,0,0,0] ++ List.replicate 500 0 from by rfl]
  simp only [List.cons_append, List.nil_append]
  enc_exec
  -- the header is written; name the memory H ++ Z
  have hM : ∀ Z : Bytes, (hi8 id :: lo8 id :: hi8 fl :: lo8 fl :: hi8 1 :: lo8 1 :: hi8 0 :: lo8 0 :: hi8 0 :: lo8 0 ::
      hi8 0 :: lo8 0 :: Z) = [hi8 id, lo8 id, hi8 fl, lo8 fl, hi8 1, lo8 1, hi8 0, lo8 0, hi8 0, lo8 0, hi8 0, lo8 0] ++ Z :=
    fun _ => rfl
  rw [hM]
  generalize hH : [hi8 id, lo8 id, hi8 fl, lo8 fl, hi8 1, lo8 1, hi8 0, lo8 0, hi8 0, lo8 0, hi8 0, lo8 0] = H
  have hHl : H.length = 12 := by subst hH; rfl
  rw [from_abs _ _ 12 (by decide) (by first | omega | (simp only [List.length_append, List.length_replicate, List.length_cons, List.length_nil, hHl, Nat.zero_add] <;> omega))]
  simp only [bind_ok', Nat.zero_add, Nat.sub_self, hmin', ← poke_eq_pokeC]
  rw [show (512 - 12 : Nat) = 500 from rfl, List.take_of_length_le (by omega : name.length ≤ 500)]
  rw [poke_after H _ name 12 hHl.symm, List.drop_replicate]
  -- question type
  rw [put16From_abs _ _ _ _ (by first | omega | (simp only [List.length_append, List.length_replicate, List.length_cons, List.length_nil, hHl, Nat.zero_add] <;> omega)) (by first | omega | (simp only [List.length_append, List.length_replicate, List.length_cons, List.length_nil, hHl, Nat.zero_add] <;> omega))]
  simp only [bind_ok', Nat.zero_add]
  rw [← List.append_assoc H name, poke_after (H ++ name) _ _ (12 + name.length) (by first | omega | (simp only [List.length_append, List.length_replicate, List.length_cons, List.length_nil, hHl, Nat.zero_add] <;> omega))]
  rw [List.drop_replicate]
  -- class IN
  rw [put16From_abs _ _ _ _ (by first | omega | (simp only [List.length_append, List.length_replicate, List.length_cons, List.length_nil, hHl, Nat.zero_add] <;> omega)) (by first | omega | (simp only [List.length_append, List.length_replicate, List.length_cons, List.length_nil, hHl, Nat.zero_add] <;> omega))]
  simp only [bind_ok', Nat.zero_add]
  rw [← List.append_assoc (H ++ name), poke_after (H ++ name ++ _) _ _ (14 + name.length) (by first | omega | (simp only [List.length_append, List.length_replicate, List.length_cons, List.length_nil, hHl, Nat.zero_add] <;> omega))]
  rw [reslice_abs _ _ 0 _ (by omega) (by first | omega | (simp only [List.length_append, List.length_replicate, List.length_cons, List.length_nil, hHl, Nat.zero_add] <;> omega))]
  simp only [bind_ok', Outcome.pure_eq, Sl.bytes, Nat.zero_add, Nat.sub_zero, List.drop_zero]
  congr 1
  rw [← List.append_assoc (H ++ name ++ _), List.take_left' (by first | omega | (simp only [List.length_append, List.length_replicate, List.length_cons, List.length_nil, hHl, Nat.zero_add] <;> omega))]
  subst hH
  simp [put16_eq, hid, hfl, hqt, List.append_assoc]
  simp [put16, hi8, lo8]

/-! ### nothing hidden: what was translated, what was not, and under which assumptions -/

/-- the translated encoders are exactly the ones tied above -/
theorem translated_accounted : Gen.Enc.encodersTranslated =
    ["EncodeARP", "EncodeDNSQuery", "EncodeEther", "EncodeICMPEcho", "EncodeIP4", "EncodeIP6", "EncodeUDP",
     "Ether_SetPayload", "ICMP6NeighborAdvertisementMarshal", "ICMP6NeighborSolicitationMarshal",
     "IP4_AppendPayload", "IP4_SetPayload", "IP6_AppendPayload", "IP6_SetPayload", "UDP_AppendPayload",
     "UDP_SetPayload"] := by decide

/-- the candidates the translator cannot express: EncodeDHCP4 (options map, modelled in Model/Dhcp4Opt, C03Dhcp),
    Ether.AppendPayload (`cap(payload)`, padding loop; modelled by
    `etherAppendPayloadLen`, tied by the correspondence run) -/
theorem untranslated_accounted : Gen.Enc.encodersUntranslated.map (·.1) =
    ["EncodeDHCP4", "Ether_AppendPayload"] := by decide

/-- the assumptions under which a translation is exact (each is a hypothesis or a remark of a theorem above) -/
theorem assumptions_accounted : Gen.Enc.encoderAssumptions =
    [("EncodeIP6", "p != nil"),
     ("EncodeIP6", "¬ ((False ∨ (p.cap m) < 40)): otherwise a fresh buffer is allocated (outside the single-array memory model)"),
     ("IP6_AppendPayload", "b != nil")] := by decide

/-- the read-side methods the encoders call are represented by these model functions -/
theorem callees_accounted : Gen.Enc.encoderCallees =
    ["Ether.HeaderLen = etherHdrLen", "IP4.CalculateChecksum = ip4CksumSl", "IP4.Payload = ip4PayloadSl"] := by decide

end PV.Props.C03EncTie
