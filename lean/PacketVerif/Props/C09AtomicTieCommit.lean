/-
  Tie theorems for the commit-point discipline (definitions and pinned tables: Props/C09AtomicCommitReview.lean), checked by
  the kernel on the critical-section facts regenerated from the Go source on every run.
-/
import PacketVerif.Props.C09AtomicCommitReview
import PacketVerif.Props.C09AtomicCommit
namespace PV.Props.C09AtomicTieCommit
open PV PV.Props.C09AtomicReview PV.Props.C09AtomicCommitReview

/-- every entry point of the module has the pinned class: 48 `single`, the listed `readOnly` ones (several nests of critical
    sections, none writes guarded data: `C09AtomicCommit.readers_leave_state`), and the listed `multiWriter` residue — no entry
    point moves into a weaker class (a new second writing section, a writing section that leaves its nest, a write added to a
    reader) without this theorem failing -/
theorem entry_classes_pinned : (entryClasses == pinnedEntryClasses) = true := by decide +kernel

/-- the same per (entry point, guard), at the granularity of `C09AtomicTie.entries_disciplined` -/
theorem pair_classes_pinned : (pairClasses == pinnedPairClasses) = true := by decide +kernel

/-- the classified pairs are exactly the reviewed multi-section pairs -/
theorem pair_classes_cover_reviewed :
    (pinnedPairClasses.map (fun p => (p.1, p.2.1)) == reviewed.map (fun r => (r.1, r.2.1))) = true := by decide +kernel

/-- no entry point is in a class the theorems do not name (`writerFirst` / `validated` at whole-entry level would need the
    hypothesis of `commit_point_serializable` to be reviewed for it) -/
theorem entry_classes_known :
    pinnedEntryClasses.all (fun e => e.2 == "readOnly" || e.2 == "multiWriter") = true := by decide +kernel

/-- the interpretation bridge for the `readOnly` class: whatever the sections of the pure multi-section readers are taken to
    be, as long as each leaves the shared state as it found it (what "writes no guarded field" says of the code), any threads
    running any sequences of them under any schedule never change the shared state -/
theorem readonly_entries_leave_state {L S : Type} (l0 : L) (st0 : S) (sem : String → Model.AtomicCommit.Op L S)
    (hsem : ∀ e ∈ pinnedEntryClasses, e.2 = "readOnly" → C09AtomicCommit.AllReadOnly (sem e.1))
    (progs : Nat → List String)
    (hp : ∀ i, ∀ n ∈ progs i, (n, "readOnly") ∈ pinnedEntryClasses)
    (σ : Model.AtomicCommit.State L S)
    (hr : Model.AtomicCommit.Reach l0 (Model.AtomicCommit.init l0 st0 (fun i => (progs i).map sem)) σ) : σ.store = st0 := by
  apply C09AtomicCommit.readers_leave_state l0 st0 (fun i => (progs i).map sem) _ σ hr
  intro i op ho
  obtain ⟨n, hn, rfl⟩ := List.mem_map.mp ho
  exact hsem (n, "readOnly") (hp i n hn) rfl

end PV.Props.C09AtomicTieCommit
