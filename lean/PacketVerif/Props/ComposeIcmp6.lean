/-
  Composition theorems Parse ∘ ICMPv6 handler (C14 over RAW frames): which frame bytes are handled as a
  router advertisement, by the independent reference reading `Spec.RaFrame` (RFC 894 / 8200 / 4443 /
  4861), that the handler on the frame is `processRA` on the `RaIn` read off the bytes, that every other
  frame is a no-op for the handler state, and the C14 statements over histories of raw frames and API
  calls.

  `Model.Icmp6Frame.raInOf` = the packet loop (`Session.Parse`, drop on error, dispatch on
  `PayloadICMP6`) + the entry of `Handler6.ProcessPacket` (IPv6 header present, ICMPv6 of at least 8
  bytes, type 134); lemmas in `Lemmas/ComposeIcmp6.lean`.

  What the code checks – all visible in `decodeRaFrame` / `raInRef`: untagged frame, individual Ethernet
  source, EtherType 0x86dd, IPv6 payload length = rest of the frame exactly, next header 58 directly
  after the fixed header, ICMPv6 type 134; then (`processRA`) at least 16 bytes of ICMPv6, the process-
  global 1-in-4 throttle, sender known to the host table (`senderTracked`: not our own MAC, link-local
  source, or global source not sent from the router's MAC), options parse.
  What it does NOT check (RFC 4861 §6.1.2 tells hosts to discard such advertisements): hop limit 255,
  link-local source address, ICMPv6 checksum, code 0, destination address, IP version nibble.  An
  advertisement behind an IPv6 extension header, in a tagged frame, or followed by trailing bytes is not
  seen at all.
-/
import PacketVerif.Lemmas.ComposeIcmp6
import PacketVerif.Props.C14
namespace PV.Props.ComposeIcmp6
open PV PV.Model PV.Model.Icmp6Hunt PV.Model.Icmp6Frame PV.Lemmas.ComposeIcmp6 PV.Lemmas.Icmp6Hunt
open PV.Spec (at_ u16 field)
open PV.Spec.RaFrame

/-! ### 1. which bytes are a router advertisement for the handler -/

/-- **The `RaIn` the handler works on is the reference reading of the frame.**  For every configuration
    and frame: Parse + dispatch + the entry of `Handler6.ProcessPacket` never panic, and the frame
    reaches the router-advertisement branch exactly when `decodeRaFrame` reads a router advertisement in
    a frame from an individual source address – with Ethernet source, IPv6 source and ICMPv6 message as
    read there, and `pkt.Host != nil` being the host table's discovery rule on that sender. -/
theorem ra_frame_eq_reference (c : Model.Cfg) (p : Bytes) : raInOf c p = .ok (raInRef c p) :=
  raInOf_ref c p

/-- `decodeRaFrame` in explicit offsets -/
theorem decodeRaFrame_bytes (p : Bytes) (f : RaPkt) :
    decodeRaFrame p = some f ↔
      (62 ≤ p.length ∧ u16 p 12 = 0x86dd ∧ u16 p 18 + 54 = p.length ∧ at_ p 20 = 58 ∧ at_ p 54 = 134 ∧
        f = { etherSrc := field p 6 6, ipSrc := field p 22 16, hopLimit := at_ p 21, icmp := p.drop 54 }) := by
  unfold decodeRaFrame
  constructor
  · intro h
    by_cases c1 : p.length < 62
    · rw [if_pos c1] at h; cases h
    rw [if_neg c1] at h
    by_cases c2 : u16 p 12 ≠ 0x86dd
    · rw [if_pos c2] at h; cases h
    rw [if_neg c2] at h
    by_cases c3 : u16 p 18 + 54 ≠ p.length
    · rw [if_pos c3] at h; cases h
    rw [if_neg c3] at h
    by_cases c4 : at_ p 20 ≠ 58
    · rw [if_pos c4] at h; cases h
    rw [if_neg c4] at h
    by_cases c5 : at_ p 54 ≠ 134
    · rw [if_pos c5] at h; cases h
    rw [if_neg c5] at h
    cases h
    exact ⟨by omega, by omega, by omega, by omega, by omega, rfl⟩
  · rintro ⟨h1, h2, h3, h4, h5, rfl⟩
    rw [if_neg (by omega), if_neg (by omega), if_neg (by omega), if_neg (by omega), if_neg (by omega)]

/-- **the frame is handled as the router advertisement `r` iff its bytes are one** -/
theorem ra_frame_iff (c : Model.Cfg) (p : Bytes) (r : RaIn) :
    raInOf c p = .ok (some r) ↔
      (srcIndividual p = true ∧ ∃ f, decodeRaFrame p = some f ∧
        r = { etherSrc := f.etherSrc, ipSrc := f.ipSrc,
              hostKnown := senderTracked c.hostMAC c.routerMAC f.etherSrc f.ipSrc, payload := f.icmp }) := by
  rw [raInOf_ref, Outcome.ok.injEq]
  unfold raInRef
  by_cases hu : srcIndividual p = true
  · rw [if_pos hu]
    cases hd : decodeRaFrame p with
    | none =>
      constructor
      · intro h; cases h
      · rintro ⟨_, f, hf, _⟩; cases hf
    | some f =>
      simp only [Option.map_some, Option.some.injEq]
      constructor
      · intro h; exact ⟨hu, f, rfl, h.symm⟩
      · rintro ⟨_, f', hf, hr⟩; cases hf; exact hr.symm
  · rw [if_neg hu]
    exact ⟨fun h => (by cases h), fun h => absurd h.1 hu⟩

/-- Parse, the dispatch and the handler's entry never panic or hang on any frame -/
theorem ra_frame_total (c : Model.Cfg) (p : Bytes) : raInOf c p ≠ .panic ∧ raInOf c p ≠ .hang := by
  rw [raInOf_ref]; exact ⟨by simp, by simp⟩

/-! ### 2. the handler on a frame -/

/-- **`processFrame bytes = processRA (raInOf bytes)`**: on a frame that is a router advertisement the
    handler is exactly the RA branch on the `RaIn` read off the bytes (C14's `ra_learned_exact` then says
    what is stored) -/
theorem processFrame_eq_processRA (c : Model.Cfg) (s : State) (p : Bytes) (r : RaIn) (h : raInRef c p = some r) :
    processFrame c s p = (processRA s r >>= fun (x : State × Bool) => pure (x.1, some x.2)) := by
  unfold processFrame
  rw [raInOf_ref, h]
  rfl

/-- **every other frame is a no-op**: malformed, truncated, tagged, non-IPv6, IPv6 without ICMPv6
    directly after the fixed header, ICMPv6 carried by IPv4, and every ICMPv6 type other than 134
    (neighbour solicitation / advertisement, router solicitation, echo, MLD, redirect, unknown) leave
    the handler state unchanged; it is the no-op event of the machine -/
theorem non_ra_frame_is_noop (c : Model.Cfg) (p : Bytes) (h : decodeRaFrame p = none ∨ srcIndividual p = false)
    (s : State) :
    processFrame c s p = .ok (s, none) ∧ frameEvent c p = .rxOther ∧ step s (frameEvent c p) = some (s, .none) := by
  have hr : raInRef c p = none := by
    unfold raInRef
    rcases h with h | h
    · rw [h]; split <;> rfl
    · rw [h]; rfl
  have he : frameEvent c p = .rxOther := by unfold frameEvent; rw [raInOf_ref, hr]
  refine ⟨?_, he, by rw [he]; rfl⟩
  unfold processFrame
  rw [raInOf_ref, hr]
  rfl

/-- a frame only ever becomes a receive event of the machine -/
theorem frameEvent_isRx (c : Model.Cfg) (p : Bytes) : isRx (frameEvent c p) = true := by
  unfold frameEvent
  rw [raInOf_ref]
  cases raInRef c p <;> rfl

/-! ### 3. the C14 statements over histories of raw frames and API calls -/

/-- no accepted StartHunt for `mac` among the API calls of a raw history -/
def NoRestartRaw (mac : Bytes) (ops : List RawEv) : Prop :=
  ∀ op ∈ ops, ∀ cls, op = .ev (.startHunt mac cls) → cls = .v4 ∨ cls = .other6

theorem noRestart_of_raw (c : Model.Cfg) (mac : Bytes) (ops : List RawEv) (h : NoRestartRaw mac ops) :
    NoRestart mac (ops.map (evOf c)) := by
  intro e he cls hc
  obtain ⟨op, hop, rfl⟩ := List.mem_map.1 he
  cases op with
  | ev e' => exact h _ hop cls (by rw [show evOf c (.ev e') = e' from rfl] at hc; rw [hc])
  | frame p =>
    have := frameEvent_isRx c p
    rw [show evOf c (.frame p) = frameEvent c p from rfl] at hc
    rw [hc] at this; cases this

/-- **After StopHunt no further forged advertisement reaches that host – over raw frames**: whatever
    frames arrive afterwards (router advertisements included) -/
theorem raw_no_na_after_stop (c : Model.Cfg) (pre post : List RawEv) (mac : Bytes) (s : State) (os : List Out)
    (hr : runRaw c {} (pre ++ [.ev (.stopHunt mac true)] ++ post) = some (s, os)) (hn : NoRestartRaw mac post) :
    naCount mac (os.drop (pre.length + 1)) = 0 := by
  unfold runRaw at hr
  simp only [List.map_append, List.map_cons, List.map_nil] at hr
  have := C14.no_na_after_stop (pre.map (evOf c)) (post.map (evOf c)) mac s os hr (noRestart_of_raw c mac post hn)
  simpa using this

/-- after Close no forged advertisement at all, over raw frames -/
theorem raw_no_na_after_close (c : Model.Cfg) (pre post : List RawEv) (mac : Bytes) (s : State) (os : List Out)
    (hr : runRaw c {} (pre ++ [.ev .close] ++ post) = some (s, os)) :
    naCount mac (os.drop (pre.length + 1)) = 0 := by
  unfold runRaw at hr
  simp only [List.map_append, List.map_cons, List.map_nil] at hr
  have := C14.no_na_after_close (pre.map (evOf c)) (post.map (evOf c)) mac s os hr
  simpa using this

/-- a forged advertisement is written only to a MAC that is in the hunt list at that moment (handler open),
    only with the address of a learned router and only once a router was learned – on every raw history -/
theorem raw_na_only_to_hunted_after_router (c : Model.Cfg) (ops : List RawEv) (s : State) (os : List Out)
    (hr : runRaw c {} ops = some (s, os)) (i : Nat) (r : Bytes) (s' : State) (o : Out)
    (hs : step s (.send i r) = some (s', o)) :
    o = .na (s.loops i).mac r ∧ s.defaultRouter.isSome = true ∧ r ∈ keys s ∧ (s.loops i).mac ∈ s.started ∧
      (s.loops i).mac ∈ s.hunt ∧ s.closed = false :=
  C14.na_only_to_hunted_after_router _ s os hr i r s' o hs

/-- **A forged advertisement carries only the IPv6 source address of a router-advertisement frame that
    was received** – over any history of raw frames and API calls (received packets appear only as
    bytes): the advertised router address `r` is `ipSrc` of a frame of the history that the reference
    reading decodes as a router advertisement (whose hop limit and source address class were not checked,
    see the remarks above). -/
theorem raw_na_only_with_address_of_received_ra (c : Model.Cfg) (ops : List RawEv) (s : State) (os : List Out)
    (hw : ∀ op ∈ ops, op.wf = true) (hr : runRaw c {} ops = some (s, os))
    (i : Nat) (r : Bytes) (s' : State) (o : Out) (hs : step s (.send i r) = some (s', o)) :
    ∃ p f, RawEv.frame p ∈ ops ∧ srcIndividual p = true ∧ decodeRaFrame p = some f ∧ f.ipSrc = r := by
  have hk := (C14.na_only_to_hunted_after_router _ s os hr i r s' o hs).2.2.1
  unfold runRaw at hr
  rcases router_origin r _ {} s os hr hk with h0 | ⟨ra, hra, hip⟩
  · simp [keys] at h0
  · obtain ⟨op, hop, hev⟩ := List.mem_map.1 hra
    cases op with
    | ev e' =>
      have := hw _ hop
      rw [show evOf c (.ev e') = e' from rfl] at hev
      subst hev
      cases this
    | frame p =>
      have hev' : frameEvent c p = .ra ra := hev
      have hin : raInOf c p = .ok (some ra) := by
        unfold frameEvent at hev'
        cases ho : raInOf c p with
        | ok x =>
          rw [ho] at hev'
          cases x with
          | none => cases hev'
          | some y => simp only [] at hev'; cases hev'; rfl
        | err x => rw [ho] at hev'; cases hev'
        | panic => rw [ho] at hev'; cases hev'
        | hang => rw [ho] at hev'; cases hev'
      obtain ⟨hu, f, hf, hra'⟩ := (ra_frame_iff c p ra).1 hin
      refine ⟨p, f, hop, hu, hf, ?_⟩
      rw [← hip, hra']

/-! ### non-vacuity -/

def cfg0 : Model.Cfg :=
  { hostMAC := [2, 0, 0, 0, 0, 1], routerMAC := [2, 0, 0, 0, 0, 0x11], lanAddr := [192, 168, 0, 0], lanBits := 24 }

def rtrMAC : Bytes := [2, 0, 0, 0, 1, 1]
def rtrLLA : Bytes := [0xfe, 0x80, 0, 0, 0, 0, 0, 0, 0, 0, 0, 0, 0, 0, 0, 0x11]

/-- Ethernet + IPv6 (payload length 16, next header 58, hop limit `hop`, source `src`) + RA of 16 bytes -/
def raFrame (hop : UInt8) (src : Bytes) : Bytes :=
  [0x33, 0x33, 0, 0, 0, 1] ++ rtrMAC ++ [0x86, 0xdd] ++ [0x60, 0, 0, 0, 0, 16, 58, hop] ++ src ++
    [0xff, 2, 0, 0, 0, 0, 0, 0, 0, 0, 0, 0, 0, 0, 0, 1] ++ [134, 0, 0, 0, 64, 0, 0, 30, 0, 0, 0, 0, 0, 0, 0, 0]

example : raInOf cfg0 (raFrame 255 rtrLLA) =
    .ok (some { etherSrc := rtrMAC, ipSrc := rtrLLA, hostKnown := true,
                payload := [134, 0, 0, 0, 64, 0, 0, 30, 0, 0, 0, 0, 0, 0, 0, 0] }) := by decide

/-- NOT checked: hop limit (64 instead of 255) and a global instead of a link-local source -/
example : raInOf cfg0 (raFrame 64 [0x20, 1, 0xd, 0xb8, 0, 0, 0, 0, 0, 0, 0, 0, 0, 0, 0, 9]) =
    .ok (some { etherSrc := rtrMAC, ipSrc := [0x20, 1, 0xd, 0xb8, 0, 0, 0, 0, 0, 0, 0, 0, 0, 0, 0, 9], hostKnown := true,
                payload := [134, 0, 0, 0, 64, 0, 0, 30, 0, 0, 0, 0, 0, 0, 0, 0] }) := by decide

/-- trailing byte after the IPv6 packet, 802.1Q tag, truncated frame, neighbour solicitation: not handled -/
example : raInOf cfg0 (raFrame 255 rtrLLA ++ [0]) = .ok none := by decide
example : raInOf cfg0 ((raFrame 255 rtrLLA).take 12 ++ [0x81, 0, 0, 5] ++ (raFrame 255 rtrLLA).drop 12) = .ok none := by
  decide
example : raInOf cfg0 ((raFrame 255 rtrLLA).take 61) = .ok none := by decide
example : raInOf cfg0 ((raFrame 255 rtrLLA).take 54 ++ [135] ++ (raFrame 255 rtrLLA).drop 55) = .ok none := by decide

/-- a raw history: StartHunt, the RA frame (learned: first of four), the loop checks and attacks, StopHunt,
    the same frame again, the loop ends -/
example : (runRaw cfg0 {} [.ev (.startHunt [2, 0xaa, 0, 0, 0, 7] .lla), .frame (raFrame 255 rtrLLA), .ev (.check 0),
      .ev (.send 0 rtrLLA), .ev (.stopHunt [2, 0xaa, 0, 0, 0, 7] true), .frame (raFrame 255 rtrLLA), .ev (.wake 0),
      .ev (.check 0)]).map (·.2) =
    some [.start .hunt, .raResult true, .none, .na [2, 0xaa, 0, 0, 0, 7] rtrLLA, .none, .raResult true, .none, .none] := by
  decide

end PV.Props.ComposeIcmp6
