/-
  C14, the frame clause: "forged neighbour advertisements (a learned router's address bound to our MAC,
  override flag set, hop limit 255)".  The machine of Model/Icmp6Hunt.lean says WHEN and TO WHOM a forged
  advertisement is written and WHICH router address it carries (`Out.na dstMAC routerIP`,
  `na_only_to_hunted_after_router`); this file says what the BYTES of that advertisement are, composing
  the loop's call (`Model.Icmp6Na.loopNA`) with the frame encoders that C03 / C07 tie to the Go code, and
  reading the result with the independent decoders of Spec/Wire.lean.
-/
import PacketVerif.Model.Icmp6Na
import PacketVerif.Spec.NaWire
import PacketVerif.Lemmas.Encode
namespace PV.Props.C14Frame
open PV PV.Model PV.Model.Icmp6Na PV.Lemmas PV.Spec.Wire PV.Spec.NaWire

theorem naMarshal_bytes (routerIP hostMAC : Bytes) (h1 : hostMAC.length = 6) (h3 : routerIP.length = 16) :
    naMarshal false false true routerIP hostMAC =
      136 :: 0 :: 0 :: 0 :: ([0x20, 0, 0, 0] ++ routerIP ++ [2, 1] ++ hostMAC) := by
  have e1 : as16 routerIP = routerIP := by simp [as16, h3]
  have e2 : hostMAC.take 6 = hostMAC := List.take_of_length_le (by omega)
  simp [naMarshal, e1, e2, h1]

/-- **The forged advertisement on the wire.**  For every pooled buffer content, host MAC, attacked host
    (MAC, and destination address link-local unicast or link-local multicast – the two cases of the
    loop: the host's link-local address, or ff02::1) and learned router address: the loop's send returns
    a frame that the reference decoders read as Ethernet (source = our MAC, destination = the host's
    MAC, unicast as given) / IPv6 (hop limit 255, source = the router's address, destination as coded)
    / ICMPv6 with verifying checksum, type 136 code 0, flags = override only (router and solicited
    clear), target address = the router's, one target-link-layer-address option = our MAC. -/
theorem forged_na_frame (g : Mem) (hostMAC dstMAC routerIP dstIP : Bytes)
    (h1 : hostMAC.length = 6) (h2 : dstMAC.length = 6) (h3 : routerIP.length = 16) (h4 : dstIP.length = 16)
    (hll : isLLUorLLM dstIP = true) (hcap : g.length = 1522) :
    ∃ f, loopNA g hostMAC dstMAC routerIP dstIP = .ok f ∧ wfForgedNA hostMAC dstMAC routerIP dstIP f = none := by
  unfold loopNA
  rw [naMarshal_bytes routerIP hostMAC h1 h3]
  have hlen : ([0x20, 0, 0, 0] ++ routerIP ++ [2, 1] ++ hostMAC : Bytes).length = 28 := by simp [h1, h3]
  generalize hrest : ([0x20, 0, 0, 0] ++ routerIP ++ [2, 1] ++ hostMAC : Bytes) = rest at hlen
  rw [sendICMP6_frame g hostMAC dstMAC routerIP dstIP _ h1 h2 h3 h4 (by simp) (by simp [hlen, hcap]) (by simp [hlen])]
  refine ⟨_, rfl, ?_⟩
  have hv := PV.Props.C15.icmp6_verifies routerIP dstIP h3 h4 136 0 rest (by omega)
  simp only at hv
  unfold Spec.verifies at hv
  rw [← pseudo6_icmp] at hv
  have hpc : ∀ cs : UInt16, putChecksum (136 :: 0 :: 0 :: 0 :: rest) 2 cs = 136 :: 0 :: cs.toUInt8 :: (cs >>> 8).toUInt8 :: rest := by
    intro cs; simp [putChecksum]
  rw [hpc] at hv ⊢
  generalize (checksum (icmp6Pseudo routerIP dstIP (136 :: 0 :: 0 :: 0 :: rest))) = cs at *
  simp only [List.append_assoc, List.cons_append, List.nil_append]
  unfold wfForgedNA
  rw [decEth_frame dstMAC hostMAC 0x86 0xdd _ h2 h1]
  simp only [List.length_cons, hlen, if_pos hll]
  rw [decIp6_hdr 32 58 255 routerIP dstIP _ h3 h4 (by simp [hlen]) (by omega)]
  subst hrest
  have hd : (routerIP ++ 2 :: 1 :: hostMAC).drop 18 = hostMAC := by
    have e : (18 : Nat) = routerIP.length + 2 := by omega
    rw [e, List.drop_append, List.drop_eq_nil_of_le (by omega), Nat.add_sub_cancel_left]; rfl
  have ht : hostMAC.take 6 = hostMAC := List.take_of_length_le (by omega)
  simp only [List.length_cons, hlen] at hv
  simp only [List.append_assoc, List.cons_append, List.nil_append] at hv
  simp [icmp6Ok, h1, h3, u8, sub, hd, ht]
  exact hv

/-- non-vacuity: a concrete advertisement, to the host's link-local address and to ff02::1 -/
example : ∃ f, loopNA (List.replicate 1522 0x5a) [2, 0, 0, 0, 0, 1] [2, 0xcc, 0, 0, 0, 7]
      [0xfe, 0x80, 0, 0, 0, 0, 0, 0, 0, 0, 0, 0, 0, 0, 0, 0x11] (loopDstIP none) = .ok f ∧
    wfForgedNA [2, 0, 0, 0, 0, 1] [2, 0xcc, 0, 0, 0, 7] [0xfe, 0x80, 0, 0, 0, 0, 0, 0, 0, 0, 0, 0, 0, 0, 0, 0x11]
      (loopDstIP none) f = none :=
  forged_na_frame _ _ _ _ _ rfl rfl rfl rfl (by decide) List.length_replicate

end PV.Props.C14Frame
