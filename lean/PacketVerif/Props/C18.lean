/-
  C18 — DHCP leases survive restart; a damaged lease file cannot crash the server.
  Theorems about `Model.Dhcp4File` (= `saveConfig`, `loadByteArray` and the reset logic of `Config.New`
  after `yaml.Unmarshal`), for every decoded record, every capture predicate, every expected configuration.
  The YAML codec is a parameter (`restart_roundtrip` assumes it round-trips records).

  Second half (`damaged_intact_or_empty` and its corollaries): the byte level.  `saveConfig` writes the
  integrity line `# sha256: <hex>` first; for every file it writes and every fault of the quantifier of C18
  (any prefix, any single-byte substitution, deletion or duplication of one line) the constructor yields the
  intact bindings or the empty table.  The hash function is a parameter (`Hash`); what is assumed about it is
  stated per pair of files (`NoCollision h body body'` for the original and the damaged body), and what is
  assumed about the YAML decoder is stated per damaged file that reaches it through the legacy path
  (`Harmless`: a damaged first line is ignored, or the decoder fails, or the document is empty).
  Files WITHOUT integrity line are loaded exactly as before (`legacy_file_unchanged`): for them only the first
  half holds.
-/
import PacketVerif.Model.Dhcp4File
import PacketVerif.Lemmas.Dhcp4Srv
import PacketVerif.Lemmas.Dhcp4Seal
import PacketVerif.Props.C12
namespace PV.Props.C18
open PV PV.Model.Dhcp4Srv PV.Model.Dhcp4File PV.Lemmas.Dhcp4Srv PV.Lemmas.Dhcp4Seal

/-- an outcome that is a value or a returned error -/
def Returns {α} (o : Outcome α) : Prop := (∃ a, o = .ok a) ∨ (∃ e, o = .err e)

theorem newSubnet_returns (r : SubRec) : Returns (newSubnet r) := by
  unfold newSubnet Returns
  simp only []
  repeat' split
  all_goals first | exact Or.inl ⟨_, rfl⟩ | exact Or.inr ⟨_, rfl⟩

/-- with both subnets present the lease loop always completes -/
theorem loadLeases_ok (captured : MAC → Bool) (n1 n2 : LSub) :
    ∀ (recs : List LeaseRec) (t : Table), ∃ t', loadLeases captured (some n1) (some n2) recs t = .ok t'
  | [], t => ⟨t, rfl⟩
  | v :: rest, t => by
    unfold loadLeases
    simp only []
    repeat' split
    all_goals exact loadLeases_ok captured n1 n2 rest _

theorem loadRec_returns (captured : MAC → Bool) (d : FileRec) : Returns (loadRec captured d) := by
  unfold loadRec
  split
  · next r1 r2 _ _ =>
    rcases newSubnet_returns r1 with ⟨n1, h1⟩ | ⟨e, h1⟩ <;> rw [h1] <;> simp only []
    · rcases newSubnet_returns r2 with ⟨n2, h2⟩ | ⟨e, h2⟩ <;> rw [h2] <;> simp only []
      · obtain ⟨t', ht⟩ := loadLeases_ok captured n1 n2 (d.leases.getD []) []
        rw [ht]; exact Or.inl ⟨_, rfl⟩
      · exact Or.inr ⟨_, rfl⟩
    · exact Or.inr ⟨_, rfl⟩
  · exact Or.inr ⟨_, rfl⟩

/-- **C18 (b): for every decoded record — including missing `net1` / `net2` / `leases` sections, invalid or
    IPv6 prefixes and addresses, arbitrary states — and for a missing / undecodable file, constructing the
    handler neither panics nor hangs.** -/
theorem load_total (home nf : Expected) (captured : MAC → Bool) (d : Option FileRec) :
    Returns (construct home nf captured d) := by
  have hreset : Returns (match newSubnet (expectedRec home) with
      | .ok n1 =>
        match newSubnet (expectedRec nf) with
        | .ok n2 => (.ok { net1 := n1, net2 := n2, table := [] } : Outcome Built)
        | .err e => .err e
        | .panic => .panic
        | .hang => .hang
      | .err e => .err e
      | .panic => .panic
      | .hang => .hang) := by
    rcases newSubnet_returns (expectedRec home) with ⟨n1, h1⟩ | ⟨e, h1⟩ <;> rw [h1] <;> simp only []
    · rcases newSubnet_returns (expectedRec nf) with ⟨n2, h2⟩ | ⟨e, h2⟩ <;> rw [h2] <;> simp only []
      · exact Or.inl ⟨_, rfl⟩
      · exact Or.inr ⟨_, rfl⟩
    · exact Or.inr ⟨_, rfl⟩
  unfold construct
  cases d with
  | none => exact hreset
  | some rec =>
    simp only []
    rcases loadRec_returns captured rec with ⟨⟨n1, n2, t⟩, h⟩ | ⟨e, h⟩ <;> rw [h] <;> simp only []
    · split
      · exact hreset
      · exact Or.inl ⟨_, rfl⟩
    · exact hreset

theorem load_no_panic (home nf : Expected) (captured : MAC → Bool) (d : Option FileRec) :
    construct home nf captured d ≠ .panic ∧ construct home nf captured d ≠ .hang := by
  rcases load_total home nf captured d with ⟨a, h⟩ | ⟨e, h⟩ <;> rw [h] <;> exact ⟨by simp, by simp⟩

/-- what a loaded lease owes to the file -/
def FromFile (n1 : LSub) (recs : List LeaseRec) (c : Cid) (l : Lease) : Prop :=
  ∃ v ip, v ∈ recs ∧ v.cid = c ∧ v.state = 2 ∧ v.ip = .v4 ip ∧ v.mac = l.mac ∧ l.ip = some ip ∧ l.state = .allocated
    ∧ c ≠ [] ∧ pcontains n1.lan n1.bits ip = true

theorem loadLeases_sound (captured : MAC → Bool) (n1 n2 : LSub) :
    ∀ (recs : List LeaseRec) (t t' : Table), loadLeases captured (some n1) (some n2) recs t = .ok t' →
      ∀ c l, (c, l) ∈ t' → (c, l) ∈ t ∨ FromFile n1 recs c l
  | [], t, t', h, c, l, hm => by
    simp [loadLeases] at h; subst h; exact Or.inl hm
  | v :: rest, t, t', h, c, l, hm => by
    have lift : ∀ {t0 : Table}, loadLeases captured (some n1) (some n2) rest t0 = .ok t' →
        (∀ c l, (c, l) ∈ t0 → (c, l) ∈ t ∨ FromFile n1 (v :: rest) c l) → (c, l) ∈ t ∨ FromFile n1 (v :: rest) c l := by
      intro t0 h0 hk
      rcases loadLeases_sound captured n1 n2 rest t0 t' h0 c l hm with h1 | ⟨w, ip, hw, r⟩
      · exact hk c l h1
      · exact Or.inr ⟨w, ip, List.mem_cons_of_mem _ hw, r⟩
    unfold loadLeases at h
    split at h
    · exact lift h (fun c l h => Or.inl h)
    · next hstate =>
      have hst : v.state = 2 := by simpa using hstate
      split at h
      · next ip hip =>
        simp only [] at h
        split at h
        · exact lift h (fun c l h => Or.inl h)
        · next hcont =>
          have hcont' : pcontains n1.lan n1.bits ip = true := by simpa using hcont
          split at h
          · exact lift h (fun c l h => Or.inl h)
          · next hcid =>
            have hne : v.cid ≠ [] := by intro he; rw [he] at hcid; simp at hcid
            have placed : ∀ sub, loadLeases captured (some n1) (some n2) rest
                (setLease t v.cid (loadedLease v ip sub)) = .ok t' → (c, l) ∈ t ∨ FromFile n1 (v :: rest) c l := by
              intro sub h0
              apply lift h0
              intro c' l' hm'
              rcases mem_setLease.1 hm' with ⟨rfl, rfl⟩ | ⟨_, hold⟩
              · exact Or.inr ⟨v, ip, List.mem_cons_self .., rfl, hst, hip, rfl, rfl, rfl, hne, hcont'⟩
              · exact Or.inl hold
            split at h
            · split at h
              · exact placed _ h
              · exact placed _ h
            · exact placed _ h
      · exact lift h (fun c l h => Or.inl h)

/-- **C18 (c): whatever the file contains, every binding of the constructed table is a record of the file in
    state "allocated", with a non-empty client identifier, the record's MAC and an IPv4 address inside the
    home subnet the server is configured for** (never a binding invented by the loader). -/
theorem load_sound (home nf : Expected) (captured : MAC → Bool) (d : Option FileRec) (b : Built)
    (h : construct home nf captured d = .ok b) :
    ∀ c l, (c, l) ∈ b.table →
      ∃ rec recs, d = some rec ∧ rec.leases = some recs ∧
        ∃ v ip, v ∈ recs ∧ v.cid = c ∧ v.state = 2 ∧ v.ip = .v4 ip ∧ v.mac = l.mac ∧ l.ip = some ip ∧ l.state = .allocated
          ∧ c ≠ [] ∧ pcontains (home.lan / psize home.bits * psize home.bits) home.bits ip = true := by
  intro c l hm
  have hreset : ∀ {b : Built}, (match newSubnet (expectedRec home) with
      | .ok n1 =>
        match newSubnet (expectedRec nf) with
        | .ok n2 => (.ok { net1 := n1, net2 := n2, table := [] } : Outcome Built)
        | .err e => .err e
        | .panic => .panic
        | .hang => .hang
      | .err e => .err e
      | .panic => .panic
      | .hang => .hang) = .ok b → b.table = [] := by
    intro b h
    split at h
    · split at h
      · simp at h; rw [← h]
      all_goals simp at h
    all_goals simp at h
  unfold construct at h
  cases d with
  | none => rw [hreset h] at hm; simp at hm
  | some rec =>
    simp only [] at h
    cases hl : loadRec captured rec with
    | ok r =>
      obtain ⟨n1, n2, t⟩ := r
      rw [hl] at h
      simp only [] at h
      split at h
      · rw [hreset h] at hm; simp at hm
      · next hch =>
        simp at h
        subst h
        simp only [] at hm
        -- unfold the load
        unfold loadRec at hl
        split at hl
        · next r1 r2 _ _ =>
          split at hl
          · next m1 hn1 =>
            split at hl
            · next m2 hn2 =>
              split at hl
              · next t0 hload =>
                simp at hl
                obtain ⟨rfl, rfl, rfl⟩ := hl
                rcases loadLeases_sound captured _ _ _ [] _ hload c l hm with h0 | ⟨v, ip, hv, r1', r2', r3, r4, r5, r6, r7, r8⟩
                · simp at h0
                · cases hls : rec.leases with
                  | none => rw [hls] at hv; simp at hv
                  | some recs =>
                    rw [hls] at hv
                    simp at hv
                    refine ⟨rec, recs, rfl, hls, v, ip, hv, r1', r2', r3, r4, r5, r6, r7, ?_⟩
                    simp only [Bool.or_eq_true, not_or] at hch
                    have hc1 := hch.1
                    unfold configChanged at hc1
                    simp only [Bool.or_eq_true, bne_iff_ne, ne_eq, not_or, Decidable.not_not] at hc1
                    rw [hc1.1.1.1.1, hc1.1.1.1.2]
                    exact r8
              all_goals simp at hl
            all_goals simp at hl
          all_goals simp at hl
        · simp at hl
    | err e => rw [hl] at h; simp only [] at h; rw [hreset h] at hm; simp at hm
    | panic => rw [hl] at h; simp at h
    | hang => rw [hl] at h; simp at h

/-- non-vacuity: a record with one good and several bad leases (wrong state, outside the subnet, no id, IPv6) -/
example : (construct ⟨0, 28, 1, 9, 1, 1⟩ ⟨8, 29, 9, 9, 77, 3⟩ (fun _ => false)
    (some { net1 := some ⟨.v4 0 28, .v4 1, .v4 9, .v4 1, .v4 1, 14400, 1⟩,
            net2 := some ⟨.v4 8 29, .v4 9, .v4 9, .v4 77, .v4 9, 14400, 3⟩,
            leases := some [⟨[1], 2, [0, 1], .v4 4, none, [], 50⟩, ⟨[2], 1, [0, 2], .v4 5, none, [], 50⟩,
                            ⟨[3], 2, [0, 3], .v4 99, none, [], 50⟩, ⟨[], 2, [0, 4], .v4 6, none, [], 50⟩,
                            ⟨[5], 2, [0, 5], .v6 false, none, [], 50⟩] })).safe = true := by decide

/-- non-vacuity of `load_total`: leases without subnet sections, an IPv6 prefix — the constructor resets -/
example : construct ⟨0, 28, 1, 9, 1, 1⟩ ⟨8, 29, 9, 9, 77, 3⟩ (fun _ => true)
    (some { net1 := none, net2 := none, leases := some [⟨[1], 2, [0, 1], .v4 4, none, [], 50⟩] })
    = construct ⟨0, 28, 1, 9, 1, 1⟩ ⟨8, 29, 9, 9, 77, 3⟩ (fun _ => true) none := by decide

/-- where `loadByteArray` puts a reloaded lease: the netfilter subnet when the MAC is captured and the address
    is a host address of it, else the home subnet -/
def reloaded (captured : MAC → Bool) (n2 : LSub) (l : Lease) : Lease :=
  { l with sub := if captured l.mac && attachNet2 n2 (l.ip.getD 0) then .net2 else .net1 }

/-- a lease `saveConfig` writes and `loadByteArray` accepts again -/
def Good (n1 : LSub) (e : Cid × Lease) : Prop :=
  e.2.state = .allocated ∧ e.1 ≠ [] ∧ ∃ ip, e.2.ip = some ip ∧ pcontains n1.lan n1.bits ip = true

theorem loadLeases_saved (captured : MAC → Bool) (n1 n2 : LSub) :
    ∀ (xs : List (Cid × Lease)) (t : Table), (∀ e, e ∈ xs → Good n1 e) →
      loadLeases captured (some n1) (some n2) (xs.map leaseRecOf) t
        = .ok (xs.foldl (fun t e => setLease t e.1 (reloaded captured n2 e.2)) t)
  | [], t, _ => rfl
  | e :: xs, t, hg => by
    obtain ⟨hs, hne, ip, hip, hc⟩ := hg e (List.mem_cons_self ..)
    have ih := loadLeases_saved captured n1 n2 xs
    simp only [List.map_cons, List.foldl_cons]
    unfold loadLeases
    have e1 : (leaseRecOf e).state = 2 := rfl
    have e2 : (leaseRecOf e).ip = .v4 ip := by simp [leaseRecOf, hip]
    have e3 : (leaseRecOf e).cid.isEmpty = false := by
      cases hcid : e.1 with
      | nil => exact absurd hcid hne
      | cons a b => simp [leaseRecOf, hcid]
    have hl : ∀ sub, loadedLease (leaseRecOf e) ip sub = { e.2 with sub := sub } := by
      intro sub
      obtain ⟨c, l⟩ := e
      cases l
      simp_all [leaseRecOf, loadedLease]
    simp only [e1, e2, e3, hc, bne_self_eq_false, Bool.false_eq_true, if_false, Bool.not_true, hl]
    have hcid : (leaseRecOf e).cid = e.1 := rfl
    have hmac : (leaseRecOf e).mac = e.2.mac := rfl
    rw [hcid, hmac]
    unfold reloaded
    rw [hip]
    simp only [Option.getD_some]
    by_cases hcap : captured e.2.mac = true
    · simp only [hcap, if_true, Bool.true_and]
      by_cases hp : attachNet2 n2 ip = true
      · simp only [hp, if_true]
        exact ih _ (fun x hx => hg x (List.mem_cons_of_mem _ hx))
      · simp only [hp]
        exact ih _ (fun x hx => hg x (List.mem_cons_of_mem _ hx))
    · simp only [hcap, Bool.false_and]
      exact ih _ (fun x hx => hg x (List.mem_cons_of_mem _ hx))

/-! fold of `setLease` (what the lease loop builds) -/

theorem fold_mem_of {g : Lease → Lease} : ∀ (xs : List (Cid × Lease)) (t : Table) (c : Cid) (l' : Lease),
    (c, l') ∈ xs.foldl (fun t e => setLease t e.1 (g e.2)) t →
      (c, l') ∈ t ∨ ∃ e, e ∈ xs ∧ e.1 = c ∧ l' = g e.2
  | [], t, c, l', h => Or.inl h
  | x :: xs, t, c, l', h => by
    simp only [List.foldl_cons] at h
    rcases fold_mem_of xs _ c l' h with h1 | ⟨e, he, r⟩
    · rcases mem_setLease.1 h1 with ⟨rfl, rfl⟩ | ⟨_, hold⟩
      · exact Or.inr ⟨x, List.mem_cons_self .., rfl, rfl⟩
      · exact Or.inl hold
    · exact Or.inr ⟨e, List.mem_cons_of_mem _ he, r⟩

theorem fold_keeps {g : Lease → Lease} : ∀ (xs : List (Cid × Lease)) (t : Table) (c : Cid) (l : Lease),
    (c, l) ∈ t → c ∉ xs.map (·.1) → (c, l) ∈ xs.foldl (fun t e => setLease t e.1 (g e.2)) t
  | [], t, c, l, h, _ => h
  | x :: xs, t, c, l, h, hn => by
    simp only [List.map_cons, List.mem_cons, not_or] at hn
    simp only [List.foldl_cons]
    exact fold_keeps xs _ c l (mem_setLease.2 (Or.inr ⟨hn.1, h⟩)) hn.2

theorem fold_mem {g : Lease → Lease} : ∀ (xs : List (Cid × Lease)) (t : Table) (e : Cid × Lease),
    e ∈ xs → (xs.map (·.1)).Nodup → (e.1, g e.2) ∈ xs.foldl (fun t e => setLease t e.1 (g e.2)) t
  | x :: xs, t, e, he, hn => by
    simp only [List.map_cons, List.nodup_cons] at hn
    simp only [List.foldl_cons]
    rcases List.mem_cons.1 he with rfl | he'
    · exact fold_keeps xs _ _ _ (mem_setLease.2 (Or.inl ⟨rfl, rfl⟩)) hn.1
    · exact fold_mem xs _ e he' hn.2

theorem fold_keys {g : Lease → Lease} : ∀ (xs : List (Cid × Lease)) (t : Table), KeysUnique t →
    KeysUnique (xs.foldl (fun t e => setLease t e.1 (g e.2)) t)
  | [], t, h => h
  | x :: xs, t, h => by
    simp only [List.foldl_cons]
    exact fold_keys xs _ (keysUnique_setLease _ _ h)

/-- **C18 (a): restart round trip.**  For a handler state whose subnets are the configured ones (`newSubnet`
    accepts what `saveConfig` writes for them, `configChanged` is false) and whose allocated leases are
    reloadable (address inside the home subnet, non-empty client id), constructing a new handler from the
    saved record yields the same subnets and exactly the allocated bindings — every (client id, MAC, IP,
    xid, expiry) of an allocated lease, re-attached to the subnet of its capture state — and nothing else. -/
theorem restart_roundtrip (home nf : Expected) (captured : MAC → Bool) (b : Built)
    (h1 : newSubnet (subRecOf b.net1) = .ok b.net1) (h2 : newSubnet (subRecOf b.net2) = .ok b.net2)
    (hc1 : configChanged home b.net1 = false) (hc2 : configChanged nf b.net2 = false)
    (hk : KeysUnique b.table)
    (hg : ∀ e, e ∈ b.table → e.2.state = .allocated → Good b.net1 e) :
    ∃ b', construct home nf captured (some (save b)) = .ok b' ∧ b'.net1 = b.net1 ∧ b'.net2 = b.net2
      ∧ KeysUnique b'.table
      ∧ ∀ c l', (c, l') ∈ b'.table ↔ ∃ l, (c, l) ∈ b.table ∧ l.state = .allocated ∧ l' = reloaded captured b.net2 l := by
  let xs := b.table.filter (fun e => e.2.state == .allocated)
  have hxs : ∀ e, e ∈ xs → Good b.net1 e := by
    intro e he
    have := List.mem_filter.1 he
    exact hg e this.1 (by simpa using this.2)
  have hnod : (xs.map (·.1)).Nodup := List.Nodup.sublist (List.Sublist.map _ List.filter_sublist) hk
  have hload := loadLeases_saved captured b.net1 b.net2 xs [] hxs
  refine ⟨{ net1 := b.net1, net2 := b.net2,
            table := xs.foldl (fun t e => setLease t e.1 (reloaded captured b.net2 e.2)) [] }, ?_, rfl, rfl, ?_, ?_⟩
  · unfold construct
    simp only [save, loadRec, h1, h2, Option.getD_some]
    rw [hload]
    simp only [hc1, hc2, Bool.or_self, Bool.false_eq_true, if_false]
  · exact fold_keys xs [] (by simp [KeysUnique])
  · intro c l'
    constructor
    · intro hm
      rcases fold_mem_of xs [] c l' hm with h0 | ⟨e, he, rfl, rfl⟩
      · simp at h0
      · have := List.mem_filter.1 he
        exact ⟨e.2, this.1, by simpa using this.2, rfl⟩
    · rintro ⟨l, hm, hs, rfl⟩
      exact fold_mem xs [] (c, l) (List.mem_filter.2 ⟨hm, by simpa using hs⟩) hnod

/-- the same through any codec that round-trips records (the YAML codec is a parameter) -/
theorem restart_roundtrip_bytes {β : Type} (enc : FileRec → β) (dec : β → Option FileRec) (hrt : ∀ r, dec (enc r) = some r)
    (home nf : Expected) (captured : MAC → Bool) (b : Built) :
    construct home nf captured (dec (enc (save b))) = construct home nf captured (some (save b)) := by
  rw [hrt]

/-- what `newSubnet` builds is accepted again unchanged when it is read back from the file -/
example : newSubnet (subRecOf ⟨8, 29, 9, .v4 9, .v4 77, 9, 14400, 3⟩) = .ok ⟨8, 29, 9, .v4 9, .v4 77, 9, 14400, 3⟩ := by decide

/-- non-vacuity of `restart_roundtrip`: a table with an allocated lease of a captured client, a lease in
    discover state and a freed lease; only the allocated one survives, re-attached to the netfilter subnet -/
example : (construct ⟨0, 28, 1, 9, 1, 1⟩ ⟨8, 29, 9, 9, 77, 3⟩ (fun m => m == [0, 1]) (some (save
    { net1 := ⟨0, 28, 1, .v4 9, .v4 1, 1, 14400, 1⟩, net2 := ⟨8, 29, 9, .v4 9, .v4 77, 9, 14400, 3⟩,
      table := [([1], ⟨.allocated, [0, 1], some 10, none, [7], .net2, 500⟩), ([2], ⟨.discover, [0, 2], none, some 11, [8], .net2, 0⟩),
                ([3], ⟨.free, [0, 3], some 12, none, [9], .net1, 3⟩)] }))) =
    .ok { net1 := ⟨0, 28, 1, .v4 9, .v4 1, 1, 14400, 1⟩, net2 := ⟨8, 29, 9, .v4 9, .v4 77, 9, 14400, 3⟩,
          table := [([1], ⟨.allocated, [0, 1], some 10, none, [7], .net2, 500⟩)] } := by decide

/-! ### the bridge from the server's invariant (C11) to `Good` (audit F12) -/

/-- messages carry a hardware address (6 bytes on the wire): what makes every client identifier non-empty -/
def OpWF (op : Op) : Prop := ∀ m, C11.msgOf op = some m → m.chaddr ≠ []

theorem clientId_ne_nil {m : Msg} (h : m.chaddr ≠ []) : clientId m ≠ [] := by
  unfold clientId
  cases hc : m.cidOpt with
  | none => exact h
  | some c =>
    by_cases he : c.isEmpty = true
    · simp [he]; exact h
    · have he' : c.isEmpty = false := by simpa using he
      simp only [he', Bool.false_eq_true, if_false]
      intro hn; rw [hn] at he'; simp at he'

/-- every key of the lease table is the client identifier of some message -/
theorem keys_step {cfg : Cfg} {s : State} (hk : ∀ e, e ∈ s.table → e.1 ≠ []) (op : Op) (hw : OpWF op)
    (o : State × List Reply) (ho : o ∈ step cfg s op) : ∀ e, e ∈ o.1.table → e.1 ≠ [] := by
  have hset : ∀ (c : Cid) (v : Lease) (s' : State), c ≠ [] → s'.table = setLease s.table c v → ∀ e, e ∈ s'.table → e.1 ≠ [] := by
    intro c v s' hc hs' e he
    rw [hs'] at he
    cases e with
    | mk k l =>
      rcases mem_setLease.1 he with ⟨rfl, _⟩ | ⟨_, hm⟩
      · exact hc
      · exact hk _ hm
  cases op with
  | discover now m =>
    simp only [step, List.mem_singleton] at ho; subst ho
    have hc := clientId_ne_nil (hw m rfl)
    rcases discover_outcome cfg s now m with ⟨cur, e⟩ | ⟨s1, ip, _, _, _, e, _⟩ <;> rw [e]
    · intro e' he'
      cases e' with
      | mk k l => exact hk _ (mem_delLease.1 he').2
    · exact hset _ _ _ hc rfl
  | request now m =>
    simp only [step, List.mem_singleton] at ho; subst ho
    have hc := clientId_ne_nil (hw m rfl)
    rcases request_outcome cfg s now m with e | ⟨l', rs, _, e, _⟩ | ⟨_, e⟩
    · rw [e]; exact hk
    · rw [e]; exact hset _ _ _ hc rfl
    · rw [e, ackLease_eq]; exact hset _ _ _ hc rfl
  | decline m =>
    simp only [step, List.mem_singleton] at ho; subst ho
    have hc := clientId_ne_nil (hw m rfl)
    rcases decline_outcome cfg s m with e | e <;> rw [e] <;> exact hset _ _ _ hc rfl
  | release m =>
    simp only [step, List.mem_singleton] at ho; subst ho
    exact hset _ _ _ (clientId_ne_nil (hw m rfl)) rfl
  | minuteTick now =>
    simp only [step, List.mem_singleton] at ho; subst ho
    intro e he
    cases e with
    | mk k l =>
      obtain ⟨l0, hm0, _⟩ := mem_freeLeases he
      exact hk (k, l0) hm0
  | capture mac => simp only [step, List.mem_singleton] at ho; subst ho; exact hk
  | releaseCapture mac => simp only [step, List.mem_singleton] at ho; subst ho; exact hk
  | hostSeen ip mac => simp only [step, List.mem_singleton] at ho; subst ho; exact hk
  | hostGone ip => simp only [step, List.mem_singleton] at ho; subst ho; exact hk

theorem keys_reachable (cfg : Cfg) : ∀ (ops : List Op) (s : State), (∀ op, op ∈ ops → OpWF op) →
    (∀ e, e ∈ s.table → e.1 ≠ []) → ∀ s', s' ∈ run cfg s ops → ∀ e, e ∈ s'.table → e.1 ≠ []
  | [], s, _, hk, s', hs => by simp [run] at hs; rw [hs]; exact hk
  | op :: ops, s, hw, hk, s', hs => by
    simp only [run, List.mem_flatMap] at hs
    obtain ⟨o, ho, hs'⟩ := hs
    exact keys_reachable cfg ops o.1 (fun op' h' => hw op' (List.mem_cons_of_mem _ h'))
      (keys_step hk op (hw op (List.mem_cons_self ..)) o ho) s' hs'

/-- **the bridge `restart_roundtrip` needs.**  For a server constructed by `Config.New` from a configuration it accepts
    (`NewCfg.accepted`: the netfilter prefix lies inside the home LAN — enforced since fix ebe424c; without it a captured
    client was acknowledged an address outside the home LAN and its lease was dropped on reload), every allocated lease of
    every state reachable by messages that carry a hardware address is `Good` for the home subnet: non-empty client
    identifier, address inside the home prefix.  (`n1` is the file model's record of the home subnet.) -/
theorem good_of_reachable (n : NewCfg) (ha : n.accepted = true) (n1 : LSub)
    (hl : n1.lan = (mkCfg n).net1.lan) (hb : n1.bits = (mkCfg n).net1.bits)
    (ops : List Op) (hw : ∀ op, op ∈ ops → OpWF op) (s : State) (hs : s ∈ run (mkCfg n) (init (mkCfg n)) ops) :
    ∀ e, e ∈ s.table → e.2.state = .allocated → Good n1 e := by
  intro e he hst
  have hI : TInv (mkCfg n) s.table := C11.inv_reachable (mkCfg n) ops (init (mkCfg n)) (C11.inv_init _) s hs
  have hk := keys_reachable (mkCfg n) ops (init (mkCfg n)) hw (by intro e he; simp [init] at he) s hs e he
  cases e with
  | mk c l =>
    have hok := hI.ok c l he
    have hsome := hok.allocSome hst
    cases hip : l.ip with
    | none => rw [hip] at hsome; simp at hsome
    | some ip =>
      refine ⟨hst, hk, ip, hip, ?_⟩
      have hus := hok.ipUsable ip hip
      have hc : ((mkCfg n).sub l.sub).contains ip = true := by
        unfold usable at hus
        simp only [Bool.and_eq_true] at hus
        exact hus.1.1.1.1.1
      have h1 : (mkCfg n).net1.contains ip = true := by
        cases hsub : l.sub <;> rw [hsub] at hc
        · exact hc
        · exact C12.accepted_net2_in_net1 n ha ip hc
      simp only [pcontains, psize, hl, hb]
      simpa [Subnet.contains, Subnet.size] using h1

/-- `restart_roundtrip` for reachable states: no `Good` hypothesis left -/
theorem restart_roundtrip_reachable (n : NewCfg) (ha : n.accepted = true) (home nf : Expected) (captured : MAC → Bool)
    (n1 n2 : LSub) (hl : n1.lan = (mkCfg n).net1.lan) (hb : n1.bits = (mkCfg n).net1.bits)
    (h1 : newSubnet (subRecOf n1) = .ok n1) (h2 : newSubnet (subRecOf n2) = .ok n2)
    (hc1 : configChanged home n1 = false) (hc2 : configChanged nf n2 = false)
    (ops : List Op) (hw : ∀ op, op ∈ ops → OpWF op) (s : State) (hs : s ∈ run (mkCfg n) (init (mkCfg n)) ops) :
    ∃ b', construct home nf captured (some (save ⟨n1, n2, s.table⟩)) = .ok b' ∧ b'.net1 = n1 ∧ b'.net2 = n2
      ∧ ∀ c l', (c, l') ∈ b'.table ↔ ∃ l, (c, l) ∈ s.table ∧ l.state = .allocated ∧ l' = reloaded captured n2 l := by
  have hI : TInv (mkCfg n) s.table := C11.inv_reachable (mkCfg n) ops (init (mkCfg n)) (C11.inv_init _) s hs
  obtain ⟨b', e, e1, e2, _, hm⟩ := restart_roundtrip home nf captured ⟨n1, n2, s.table⟩ h1 h2 hc1 hc2 hI.keys
    (good_of_reachable n ha n1 hl hb ops hw s hs)
  exact ⟨b', e, e1, e2, hm⟩

/-- the subnet `Config.New` builds when there is no usable lease file (`construct … none`: `newSubnet` on the expected
    configuration) is the subnet of C12's `mkCfg`: the two models of `New` agree -/
theorem newSubnet_expected (e : Expected) (n : LSub) (h : newSubnet (expectedRec e) = .ok n) :
    toSubnet n = mkSubnet e.lan e.bits e.gw e.dns e.server := by
  unfold newSubnet expectedRec at h
  simp only [] at h
  by_cases hlt : e.lan / psize e.bits * psize e.bits + 1 < 4294967296
  · simp only [hlt, if_true] at h
    repeat' split at h
    all_goals first
      | (simp only [Outcome.ok.injEq] at h; subst h; simp_all [toSubnet, mkSubnet, psize]; done)
      | (simp at h; done)
      | (cases h; done)
  · simp only [hlt, if_false] at h
    repeat' split at h
    all_goals first
      | (simp at h; done)
      | (cases h; done)
      | (simp_all; done)

/-! ### the integrity line: damaged files -/

/-- `f` without its `k`-th line -/
def delLine (f : Bytes) (k : Nat) : Bytes := ((lines f).eraseIdx k).flatten

/-- `f` with its `k`-th line repeated -/
def dupLine (f : Bytes) (k : Nat) : Bytes := ((lines f).take (k + 1) ++ (lines f).drop k).flatten

/-- the faults C18 quantifies over: truncation at any byte offset, substitution of one byte, deletion or
    duplication of one line (an out-of-range offset / index leaves the file as it is) -/
inductive Fault (f : Bytes) : Bytes → Prop
  | cut (n : Nat) : Fault f (f.take n)
  | subst (i : Nat) (c : UInt8) : Fault f (f.set i c)
  | delLine (k : Nat) : Fault f (delLine f k)
  | dupLine (k : Nat) : Fault f (dupLine f k)

/-- the hash function does not confuse THIS damaged body with the original one -/
def NoCollision (h : Hash) (body body' : Bytes) : Prop := h.H body' = h.H body → body' = body

/-- what is assumed of `yaml.Unmarshal` for a damaged file that reaches it (legacy path: the integrity line is cut
    short or no longer well formed): the remains of the first line are ignored (a comment, an unknown key), or decoding
    fails, or the document is empty -/
def Harmless (dec : Bytes → Option FileRec) (f' body : Bytes) : Prop :=
  dec f' = dec body ∨ dec f' = none ∨ dec f' = some emptyRec

/-- how a damaged file relates to the file written for `body`: first line intact, or everything after it intact, or
    shorter than a first line, or the first line gone -/
def Shape (h : Hash) (body f' : Bytes) : Prop :=
  f'.take 75 = sealLine h body ∨ f'.drop 75 = body ∨ f'.length ≤ 74 ∨ f' = body

theorem take75_sealFile (h : Hash) (body : Bytes) : (sealFile h body).take 75 = sealLine h body :=
  List.take_left' (sealLine_length h body)

theorem drop75_sealFile (h : Hash) (body : Bytes) : (sealFile h body).drop 75 = body :=
  List.drop_left' (sealLine_length h body)

/-- every fault of the quantifier leaves the first line intact, or the body intact, or less than a line, or removes
    exactly the first line -/
theorem fault_shape (h : Hash) (body f' : Bytes) (hf : Fault (sealFile h body) f') : Shape h body f' := by
  cases hf with
  | cut n =>
    by_cases hn : n ≤ 74
    · exact Or.inr (Or.inr (Or.inl (Nat.le_trans (List.length_take_le _ _) hn)))
    · left
      rw [List.take_take, Nat.min_eq_left (by omega)]
      exact take75_sealFile h body
  | subst i c =>
    by_cases hi : i < 75
    · right; left
      rw [List.drop_set_of_lt hi]
      exact drop75_sealFile h body
    · left
      rw [List.take_set_of_le (by omega)]
      exact take75_sealFile h body
  | delLine k =>
    unfold C18.delLine
    rw [lines_sealFile]
    cases k with
    | zero => right; right; right; simp [join_lines]
    | succ k =>
      left
      simp only [List.eraseIdx_cons_succ, List.flatten_cons]
      exact List.take_left' (sealLine_length h body)
  | dupLine k =>
    unfold C18.dupLine
    rw [lines_sealFile]
    left
    simp only [List.take_succ_cons, List.cons_append, List.flatten_cons]
    exact List.take_left' (sealLine_length h body)

theorem construct_emptyRec (home nf : Expected) (captured : MAC → Bool) :
    construct home nf captured (some emptyRec) = construct home nf captured none := by
  simp [construct, loadRec, emptyRec]

theorem harmless_load {dec : Bytes → Option FileRec} {f' body : Bytes} (hh : Harmless dec f' body)
    (home nf : Expected) (captured : MAC → Bool) :
    construct home nf captured (dec f') = construct home nf captured (dec body)
      ∨ construct home nf captured (dec f') = construct home nf captured none := by
  rcases hh with e | e | e
  · left; rw [e]
  · right; rw [e]
  · right; rw [e]; exact construct_emptyRec home nf captured

/-- the undamaged file: the integrity line verifies and the YAML body is loaded -/
theorem load_saved (h : Hash) (dec : Bytes → Option FileRec) (home nf : Expected) (captured : MAC → Bool) (body : Bytes) :
    loadFile h dec home nf captured (some (sealFile h body)) = construct home nf captured (dec body) := by
  simp only [loadFile, open_sealFile]

/-- a file without well-formed integrity line (older version, hand written) is loaded exactly as before the fix:
    for such files only `load_total` / `load_sound` hold, a damaged one may still load partially or differently -/
theorem legacy_file_unchanged (h : Hash) (dec : Bytes → Option FileRec) (home nf : Expected) (captured : MAC → Bool)
    (f : Bytes) (hl : openFile h f = .legacy f) :
    loadFile h dec home nf captured (some f) = construct home nf captured (dec f) := by
  simp only [loadFile, hl]

theorem shape_intact_or_empty (h : Hash) (dec : Bytes → Option FileRec) (home nf : Expected) (captured : MAC → Bool)
    (body f' : Bytes) (hs : Shape h body f')
    (hstart : body.take 10 ≠ sealPrefix)
    (hcol : NoCollision h body (f'.drop 75))
    (hyaml : openFile h f' = .legacy f' → Harmless dec f' body) :
    loadFile h dec home nf captured (some f') = construct home nf captured (dec body)
      ∨ loadFile h dec home nf captured (some f') = construct home nf captured none := by
  have legacy : openFile h f' = .legacy f' →
      loadFile h dec home nf captured (some f') = construct home nf captured (dec body)
        ∨ loadFile h dec home nf captured (some f') = construct home nf captured none := by
    intro hl
    rw [legacy_file_unchanged h dec home nf captured f' hl]
    exact harmless_load (hyaml hl) home nf captured
  rcases hs with h1 | h2 | h3 | h4
  · -- first line intact: the hash of the rest decides
    have e : f' = sealLine h body ++ f'.drop 75 := by
      conv => lhs; rw [← List.take_append_drop 75 f']
      rw [h1]
    have ho := open_line_intact h body (f'.drop 75)
    rw [← e] at ho
    by_cases hh : h.H (f'.drop 75) = h.H body
    · left
      simp only [loadFile, ho, hh, if_true]
      rw [hcol hh]
    · right
      simp only [loadFile, ho, hh, if_false]
  · rcases open_body_intact h f' body h2 with ho | ho | ho
    · exact legacy ho
    · left; simp only [loadFile, ho]
    · right; simp only [loadFile, ho]
  · exact legacy (open_short h f' h3)
  · subst h4
    left
    exact legacy_file_unchanged h dec home nf captured _ (open_no_keyword h _ hstart)

/-- **C18 (d): a damaged lease file yields the intact bindings or the empty table.**  For every YAML body `body`
    (not itself beginning with the keyword — `yaml.Marshal` output begins with `net1:`), the file `saveConfig` writes
    for it, and every fault of the quantifier — truncation at any offset (inside the integrity line, right after
    it, inside the body, of the last line break), one substituted byte (keyword, hex digit, line break of the first
    line, body), one line deleted or duplicated (the integrity line or a body line) — constructing the handler
    from the damaged file gives exactly what the undamaged file gives, or what a missing file gives (reset: empty
    table under the current configuration); never anything else.  Assumed: the hash function does not confuse the
    damaged body `f'.drop 75` with `body` (one pair), and — only when the damaged file takes the legacy path — the
    YAML decoder ignores the remains of the first line or fails (`Harmless`). -/
theorem damaged_intact_or_empty (h : Hash) (dec : Bytes → Option FileRec) (home nf : Expected) (captured : MAC → Bool)
    (body f' : Bytes) (hf : Fault (sealFile h body) f')
    (hstart : body.take 10 ≠ sealPrefix)
    (hcol : NoCollision h body (f'.drop 75))
    (hyaml : openFile h f' = .legacy f' → Harmless dec f' body) :
    loadFile h dec home nf captured (some f') = loadFile h dec home nf captured (some (sealFile h body))
      ∨ loadFile h dec home nf captured (some f') = loadFile h dec home nf captured none := by
  rw [load_saved]
  exact shape_intact_or_empty h dec home nf captured body f' (fault_shape h body f' hf) hstart hcol hyaml

/-- the same for the files of `saveConfig` through a codec that round-trips records: intact = exactly the allocated
    bindings of the saved state (`restart_roundtrip`), empty = reset -/
theorem damaged_saved_intact_or_empty (h : Hash) (enc : FileRec → Bytes) (dec : Bytes → Option FileRec)
    (hrt : ∀ r, dec (enc r) = some r) (home nf : Expected) (captured : MAC → Bool) (b : Built) (f' : Bytes)
    (hf : Fault (saveFile h enc b) f')
    (hstart : (enc (save b)).take 10 ≠ sealPrefix)
    (hcol : NoCollision h (enc (save b)) (f'.drop 75))
    (hyaml : openFile h f' = .legacy f' → Harmless dec f' (enc (save b))) :
    loadFile h dec home nf captured (some f') = construct home nf captured (some (save b))
      ∨ loadFile h dec home nf captured (some f') = construct home nf captured none := by
  have := damaged_intact_or_empty h dec home nf captured (enc (save b)) f' hf hstart hcol hyaml
  rw [load_saved, hrt] at this
  exact this

/-- the integrity line itself deleted: the legacy path loads the intact body (no assumption on hash or decoder) -/
theorem seal_line_deleted (h : Hash) (dec : Bytes → Option FileRec) (home nf : Expected) (captured : MAC → Bool)
    (body : Bytes) (hstart : body.take 10 ≠ sealPrefix) :
    loadFile h dec home nf captured (some (delLine (sealFile h body) 0)) = construct home nf captured (dec body) := by
  have : delLine (sealFile h body) 0 = body := by
    unfold C18.delLine
    rw [lines_sealFile]
    simp [join_lines]
  rw [this]
  exact legacy_file_unchanged h dec home nf captured _ (open_no_keyword h _ hstart)

/-- one byte of the integrity line replaced (keyword, hex digit, line break): no assumption on the hash function —
    the body is intact, so the file is loaded intact (legacy path with a harmless first line, or a hex digit in the
    other case) or rejected (another hex value; decoder failure) -/
theorem seal_line_substituted (h : Hash) (dec : Bytes → Option FileRec) (home nf : Expected) (captured : MAC → Bool)
    (body : Bytes) (i : Nat) (c : UInt8) (hi : i < 75)
    (hyaml : openFile h ((sealFile h body).set i c) = .legacy ((sealFile h body).set i c) →
      Harmless dec ((sealFile h body).set i c) body) :
    loadFile h dec home nf captured (some ((sealFile h body).set i c)) = construct home nf captured (dec body)
      ∨ loadFile h dec home nf captured (some ((sealFile h body).set i c)) = construct home nf captured none := by
  have hb : ((sealFile h body).set i c).drop 75 = body := by
    rw [List.drop_set_of_lt hi]; exact drop75_sealFile h body
  rcases open_body_intact h _ body hb with ho | ho | ho
  · rw [legacy_file_unchanged h dec home nf captured _ ho]
    exact harmless_load (hyaml ho) home nf captured
  · left; simp only [loadFile, ho]
  · right; simp only [loadFile, ho]

/-- a truncated body, a substituted body byte, a deleted or duplicated body line, a duplicated integrity line: the
    first line is intact and a changed rest is rejected (needs only the no-collision assumption for that pair) -/
theorem body_damaged (h : Hash) (dec : Bytes → Option FileRec) (home nf : Expected) (captured : MAC → Bool)
    (body rest : Bytes) (hcol : NoCollision h body rest) :
    loadFile h dec home nf captured (some (sealLine h body ++ rest)) =
      (if rest = body then construct home nf captured (dec body) else construct home nf captured none) := by
  simp only [loadFile, open_line_intact]
  by_cases hr : rest = body
  · subst hr; simp
  · have : h.H rest ≠ h.H body := fun e => hr (hcol e)
    simp [this, hr]

/-! non-vacuity with a toy hash (length and byte sum: enough to tell the faults below apart) and a toy decoder -/

def toyHash : Hash :=
  { H := fun b => List.replicate 30 0 ++ [UInt8.ofNat b.length, UInt8.ofNat (b.foldl (fun a x => a + x.toNat) 0)],
    len := by intro b; simp }

/-- `dec` of the toy codec: the body `[110, 10, 120, 10]` ("n\nx\n") is the record with both subnets of the examples above -/
def toyDec (y : Bytes) : Option FileRec :=
  if y = [110, 10, 120, 10] then
    some { net1 := some (subRecOf ⟨0, 28, 1, .v4 9, .v4 1, 1, 14400, 1⟩), net2 := some (subRecOf ⟨8, 29, 9, .v4 9, .v4 77, 9, 14400, 3⟩),
           leases := some [{ cid := [1], state := 2, mac := [0, 1], ip := .v4 10, offer := none, xid := [7], expiry := 500 }] }
  else if y.head? = some 35 ∧ 10 ∉ y then some emptyRec else none

def toyLoad (f : Bytes) : Outcome Built :=
  loadFile toyHash toyDec ⟨0, 28, 1, 9, 1, 1⟩ ⟨8, 29, 9, 9, 77, 3⟩ (fun _ => false) (some f)

def toyFile : Bytes := sealFile toyHash [110, 10, 120, 10]

/-- number of bindings of a constructed handler -/
def bindings : Outcome Built → Option Nat
  | .ok b => some b.table.length
  | _ => none

example : openFile toyHash toyFile = .verified [110, 10, 120, 10] := by decide
example : bindings (toyLoad toyFile) = some 1 := by decide
-- cut inside the line, right after it, inside the body, of the last line break; substituted body byte; body line deleted
example : [toyFile.take 40, toyFile.take 75, toyFile.take 77, toyFile.take 78, toyFile.set 76 11, delLine toyFile 1,
           dupLine toyFile 0, dupLine toyFile 2].map (fun f => bindings (toyLoad f))
    = [some 0, some 0, some 0, some 0, some 0, some 0, some 0, some 0] := by decide
-- integrity line deleted; a hex digit in upper case (the digest `…04fa` -> `…04fA`): intact
example : [delLine toyFile 0, toyFile.set 73 65].map (fun f => bindings (toyLoad f)) = [some 1, some 1] := by decide

end PV.Props.C18
