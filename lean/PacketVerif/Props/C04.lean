/-
  C04 — Host tracking follows the discovery, IP-change and ageing rules.
  Refinement of the table model (`Model.Tables`) to the abstract host map (`Spec/HostMap.lean`);
  the abstraction `abs`, the auxiliary invariant `CurIP4` and the per-primitive lemmas are in
  `Lemmas/TablesRefine.lean`.
-/
import PacketVerif.Lemmas.TablesRefine
import PacketVerif.Lemmas.TablesEx
namespace PV.Props.C04
open PV PV.Model.Tables PV.Spec PV.Lemmas.Tables

/-- the configuration assumption of the refinement: our own MAC is not the router's MAC -/
def WfCfg (c : Cfg) : Prop := c.hostMAC ≠ c.routerMAC

/-- **creation rule**: the decision coded in the three branches of `Parse` is the statement's -/
theorem creation_rule (c : Cfg) (ev : FrameEv) : hostEvent c ev = Spec.seen c ev :=
  hostEvent_eq_seen c ev

/-- right after `NewSession` the tables show exactly our own address and the router's, online -/
theorem init_refines (c : Cfg) (now : Int) (mh mr : String) :
    abs (Model.Tables.init c now mh mr) = Spec.init c now :=
  (init_facts c now mh mr).1

/-- one API call: the tables' abstract map moves exactly as the reference model says -/
theorem step_refines (c : Cfg) (s : Sess) (op : Op) (hi : Inv s) (hj : CurIP4 s) :
    abs (Model.Tables.step c s op).1 = Spec.step c (abs s) op :=
  (step_facts hi hj c op).1

/-- the auxiliary invariant (an online IPv4 host is its MAC entry's current IPv4) is preserved -/
theorem cur_step (c : Cfg) (s : Sess) (op : Op) (hi : Inv s) (hj : CurIP4 s) :
    CurIP4 (Model.Tables.step c s op).1 :=
  (step_facts hi hj c op).2

theorem reach (c : Cfg) (ops : List Op) :
    ∀ (s : Sess), Inv s → CurIP4 s →
      Inv (Model.Tables.run c s ops) ∧ CurIP4 (Model.Tables.run c s ops) ∧
      abs (Model.Tables.run c s ops) = Spec.run c (abs s) ops := by
  induction ops with
  | nil => intro s hi hj; exact ⟨hi, hj, rfl⟩
  | cons op rest ih =>
    intro s hi hj
    have h1 := Lemmas.Tables.inv_step hi c op
    obtain ⟨h2, h3⟩ := step_facts hi hj c op
    obtain ⟨a, b, d⟩ := ih _ h1 h3
    refine ⟨a, b, ?_⟩
    simp only [Model.Tables.run, Spec.run, List.foldl_cons] at d ⊢
    rw [d, h2]

/-- **C04 main theorem**: after any history of frames, DHCP updates, purges (and every other API
    call), of any length, the tracked triples are those of the reference model -/
theorem run_refines (c : Cfg) (hc : WfCfg c) (now : Int) (mh mr : String) (ops : List Op) :
    abs (Model.Tables.run c (Model.Tables.init c now mh mr) ops) = Spec.run c (Spec.init c now) ops := by
  obtain ⟨h1, h2⟩ := init_facts c now mh mr
  rw [← h1]
  exact (reach c ops _ (Lemmas.Tables.inv_init c now mh mr) (h2 hc)).2.2

/-- `FindIP` after any history answers what the reference model holds for that address -/
theorem findIP_correct (c : Cfg) (hc : WfCfg c) (now : Int) (mh mr : String) (ops : List Op) (ip : IP) :
    (findIP (Model.Tables.run c (Model.Tables.init c now mh mr) ops) ip).map absE =
      Spec.run c (Spec.init c now) ops ip := by
  rw [← run_refines c hc now mh mr ops]; rfl

/-- `GetHosts` after any history lists exactly the (MAC, IP, online) triples of the reference model -/
theorem getHosts_correct (c : Cfg) (hc : WfCfg c) (now : Int) (mh mr : String) (ops : List Op)
    (mac : MAC) (ip : IP) (online : Bool) :
    (∃ h ∈ getHosts (Model.Tables.run c (Model.Tables.init c now mh mr) ops),
        h.mac = mac ∧ h.ip = ip ∧ h.online = online) ↔
    (∃ e, Spec.run c (Spec.init c now) ops ip = some e ∧ e.mac = mac ∧ e.online = online) := by
  rw [← run_refines c hc now mh mr ops]
  exact getHosts_abs (reach c ops _ (Lemmas.Tables.inv_init c now mh mr) ((init_facts c now mh mr).2 hc)).1 mac ip online

/-- `IPAddrs(mac)` after any history lists exactly the addresses the reference model binds to `mac` -/
theorem ipAddrs_correct (c : Cfg) (hc : WfCfg c) (now : Int) (mh mr : String) (ops : List Op)
    (mac : MAC) (l : List (MAC × IP))
    (hl : ipAddrs (Model.Tables.run c (Model.Tables.init c now mh mr) ops) mac = some l) (ip : IP) :
    (mac, ip) ∈ l ↔ ∃ e, Spec.run c (Spec.init c now) ops ip = some e ∧ e.mac = mac := by
  rw [← run_refines c hc now mh mr ops]
  exact ipAddrs_abs (reach c ops _ (Lemmas.Tables.inv_init c now mh mr) ((init_facts c now mh mr).2 hc)).1 mac l hl ip

/-- a MAC that owns a tracked address has a MAC entry (`FindMACEntry`) -/
theorem findMACEntry_correct (c : Cfg) (hc : WfCfg c) (now : Int) (mh mr : String) (ops : List Op) (ip : IP) (e : AEntry)
    (he : Spec.run c (Spec.init c now) ops ip = some e) :
    ∃ m, findMACEntry (Model.Tables.run c (Model.Tables.init c now mh mr) ops) e.mac = some m := by
  rw [← run_refines c hc now mh mr ops] at he
  exact findMACEntry_of_abs (reach c ops _ (Lemmas.Tables.inv_init c now mh mr) ((init_facts c now mh mr).2 hc)).1 he

/-- when `deleteHost` removes the last host of a MAC entry, the entry goes with it -/
theorem empty_entry_removed (s : Sess) (hi : Inv s) (ip : IP) :
    ∀ m ∈ (deleteHost s ip).macs, m.hostList = [] → ∃ m0 ∈ s.macs, m0.mac = m.mac ∧ m0.hostList = [] := by
  intro m hm he
  cases hf : findHost s ip with
  | none =>
    have : deleteHost s ip = s := by unfold deleteHost; simp only [hf]
    rw [this] at hm
    exact ⟨m, hm, rfl, he⟩
  | some h =>
    have hp := findHost_some hf
    have hd := inv_delState hi hp
    rw [deleteHost_eq hi hf] at hm
    -- m is an entry of delState that survived the drop of the emptied entry
    have hmd : m ∈ (delState s ip h).macs ∧
        (∀ m1, macById (delState s ip h) h.entry = some m1 → m1.hostList = [] → m.mac ≠ m1.mac) := by
      cases hmb : macById (delState s ip h) h.entry with
      | none => rw [hmb] at hm; exact ⟨hm, by intro m1 h1; cases h1⟩
      | some m1 =>
        rw [hmb] at hm
        simp only at hm
        split at hm
        · have := (mem_eraseP_of_nodup_map (fun x : MacRec => x.mac) m1.mac hd.macNodup).1 hm
          exact ⟨this.1, by intro m2 h2 _; cases h2; exact this.2⟩
        · rename_i hne
          exact ⟨hm, by intro m2 h2 he2; cases h2; simp [he2] at hne⟩
    obtain ⟨hmem, hne⟩ := hmd
    unfold delState at hmem
    simp only [List.mem_map] at hmem
    obtain ⟨m0, hm0, rfl⟩ := hmem
    by_cases hc : m0.id = h.entry
    · exfalso
      have : macById (delState s ip h) h.entry = some (unlinkG h.entry h.id m0) := by
        have hin : unlinkG h.entry h.id m0 ∈ (delState s ip h).macs := by
          unfold delState; exact List.mem_map.2 ⟨m0, hm0, rfl⟩
        have := macById_of_mem hd.midNodup hin
        rwa [unlinkG_id, hc] at this
      exact hne _ this he rfl
    · refine ⟨m0, hm0, by rw [unlinkG_mac], ?_⟩
      unfold unlinkG at he
      simpa [hc] using he

/-! ### the five rules, read off the reference model -/

/-- online once seen, bound to the MAC that claimed it (re-binding included) -/
theorem rule_seen (m : HostMap) (mac : MAC) (ip : IP) (now : Int) :
    Spec.see m mac ip now ip = some { mac := mac, online := true, lastSeen := now } := by
  simp [Spec.see]

/-- a new IPv4 address of a MAC marks that MAC's other IPv4 addresses offline -/
theorem rule_ip_change (m : HostMap) (mac : MAC) (ip k : IP) (now : Int) (e : AEntry)
    (hnew : repeatOf m mac ip = false) (h4 : ip.is4 = true) (hk4 : k.is4 = true) (hne : k ≠ ip)
    (hk : m k = some e) (hmac : e.mac = mac) :
    Spec.see m mac ip now k = some { e with online := false } := by
  simp [Spec.see, hne, hk, hnew, h4, hk4, hmac]

/-- repeat traffic and addresses of other MACs / other families are left alone -/
theorem rule_others_untouched (m : HostMap) (mac : MAC) (ip k : IP) (now : Int) (hne : k ≠ ip)
    (h : repeatOf m mac ip = true ∨ ip.is4 = false ∨ k.is4 = false ∨ ∀ e, m k = some e → e.mac ≠ mac) :
    Spec.see m mac ip now k = m k := by
  simp only [Spec.see, hne, if_false]
  cases hk : m k with
  | none => rfl
  | some e =>
    simp only
    rcases h with h | h | h | h
    · simp [h]
    · simp [h]
    · simp [h]
    · simp [h e hk]

/-- a host silent for longer than OfflineDeadline goes offline at the next purge -/
theorem rule_offline (c : Cfg) (m : HostMap) (now : Int) (k : IP) (e : AEntry) (hk : m k = some e)
    (hon : e.online = true) (hold : e.lastSeen < now - c.offlineDL) :
    Spec.age c m now k = some { e with online := false } := by
  simp [Spec.age, hk, hon, hold]

/-- an offline host silent for longer than PurgeDeadline is removed at the next purge -/
theorem rule_purge (c : Cfg) (m : HostMap) (now : Int) (k : IP) (e : AEntry) (hk : m k = some e)
    (hoff : e.online = false) (hold : e.lastSeen < now - c.purgeDL) :
    Spec.age c m now k = none := by
  simp [Spec.age, hk, hoff, hold]

/-- a recently seen host is left alone by purge -/
theorem rule_fresh (c : Cfg) (m : HostMap) (now : Int) (k : IP) (e : AEntry) (hk : m k = some e)
    (h1 : now - c.offlineDL ≤ e.lastSeen) (h2 : now - c.purgeDL ≤ e.lastSeen) :
    Spec.age c m now k = some e := by
  have a : ¬ e.lastSeen < now - c.offlineDL := Int.not_lt.2 h1
  have b : ¬ e.lastSeen < now - c.purgeDL := Int.not_lt.2 h2
  simp [Spec.age, hk, a, b]

/-! ### non-vacuity: IP change, re-binding, ageing on a concrete history -/
open PV.Lemmas.TablesEx in
example : WfCfg cfg0 := by unfold WfCfg; decide
open PV.Lemmas.TablesEx in
/-- after `m1` moved from .50 to .51, .50 is offline -/
example : abs (Model.Tables.run cfg0 s0 (hist.take 2)) ipA = some { mac := m1, online := false, lastSeen := 1000 } := by decide
open PV.Lemmas.TablesEx in
/-- `m2` claims .51: re-bound, online -/
example : abs (Model.Tables.run cfg0 s0 (hist.take 3)) ipB = some { mac := m2, online := true, lastSeen := 1002 } := by decide
open PV.Lemmas.TablesEx in
/-- silent for longer than OfflineDeadline: offline at the purge -/
example : abs (Model.Tables.run cfg0 s0 (hist.take 4)) ipB = some { mac := m2, online := false, lastSeen := 1002 } := by decide
open PV.Lemmas.TablesEx in
/-- offline and silent for longer than PurgeDeadline: removed, and `m1`'s MAC entry with it -/
example : abs (Model.Tables.run cfg0 s0 hist) ipA = none ∧ findMACEntry (Model.Tables.run cfg0 s0 hist) m1 = none := by decide
open PV.Lemmas.TablesEx in
/-- the reference model gives the same answers (instance of `run_refines`) -/
example : Spec.run cfg0 (Spec.init cfg0 1000) hist ipA = none ∧
    Spec.run cfg0 (Spec.init cfg0 1000) (hist.take 3) ipB = some { mac := m2, online := true, lastSeen := 1002 } := by decide

end PV.Props.C04
