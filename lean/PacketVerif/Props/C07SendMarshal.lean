/-
  F22: `Session.ICMP6SendRouterSolicitation` regenerated from its Go body (Gen/Senders.lean, through
  tools/goextract/senders_marshal.go): the option list literal, the allocating `(*RouterSolicitation).marshal`
  (Gen/LoopsMarshal.lean, tied in Props/C03MarshalTie.lean) and the send path `icmp6SendPacket` (tied in
  Props/C07SendTie.lean).  The frame it hands to the connection is the send-path model applied to the 16-byte router
  solicitation of RFC 4861 4.1 with the host's MAC as source link-layer address option, and `Spec.Wire` accepts it.
-/
import PacketVerif.Props.C07SendWf
import PacketVerif.Props.C03MarshalTie
namespace PV.Props.C07SendMarshal
open PV PV.Model PV.Props.C07SendTie

/-- the router solicitation with one source link-layer address option -/
def rsMessage (mac : Bytes) : Bytes := [133, 0, 0, 0, 0, 0, 0, 0, 1, 1] ++ mac

theorem rsMessage_length (mac : Bytes) (h : mac.length = 6) : (rsMessage mac).length = 16 := by
  simp [rsMessage, h]

/-- the message part: what the sender passes to `icmp6SendPacket` -/
theorem rs_built (hm : Bytes) (h1 : hm.length = 6) :
    PV.Gen.LoopsMarshal.genRouterSolicitation_marshal (fun _ => Outcome.panic)
      ({ PV.Gen.LoopsMarshal.G_RouterSolicitation.zero with
          Options := [(PV.Gen.LoopsMarshal.I_Option.LinkLayerAddress
            { PV.Gen.LoopsMarshal.G_LinkLayerAddress.zero with Direction := 1, MAC := hm })] } :
        PV.Gen.LoopsMarshal.G_RouterSolicitation) = .ok (rsMessage hm) :=
  PV.Props.C03MarshalTie.rs_with_source_lla _ [] hm h1

/-- `IP6AllRoutersAddr` as the sender reads it (the initialisers of `Eth6AllRoutersMulticast` / `IP6AllRoutersMulticast`) -/
def allRoutersMAC : Bytes := [0x33, 0x33, 0, 0, 0, 2]
def allRoutersIP : Bytes := [0xff, 0x02, 0, 0, 0, 0, 0, 0, 0, 0, 0, 0, 0, 0, 0, 2]

theorem icmp6SendRS_tie (g : Mem) (hm lla : Bytes) (h1 : hm.length = 6) (h3 : lla.length = 16) (hfit : 70 ≤ g.length) :
    Gen.Send.ICMP6SendRouterSolicitation g hm lla = sendICMP6 g hm allRoutersMAC lla allRoutersIP (rsMessage hm) := by
  unfold Gen.Send.ICMP6SendRouterSolicitation
  rw [rs_built hm h1]
  have hl := rsMessage_length hm h1
  exact icmp6SendPacket_tie g hm allRoutersMAC hm lla allRoutersIP _ 0 0 h1 rfl h3 rfl (by omega) (by omega) (by omega)

/-- a host MAC that is not 6 bytes long: the option encoder refuses, nothing is sent -/
theorem icmp6SendRS_bad_mac (g : Mem) (hm lla : Bytes) (h1 : hm.length ≠ 6) :
    Gen.Send.ICMP6SendRouterSolicitation g hm lla = .err .other := by
  unfold Gen.Send.ICMP6SendRouterSolicitation
  have : PV.Gen.LoopsMarshal.genRouterSolicitation_marshal (fun _ => Outcome.panic)
      ({ PV.Gen.LoopsMarshal.G_RouterSolicitation.zero with
          Options := [(PV.Gen.LoopsMarshal.I_Option.LinkLayerAddress
            { PV.Gen.LoopsMarshal.G_LinkLayerAddress.zero with Direction := 1, MAC := hm })] } :
        PV.Gen.LoopsMarshal.G_RouterSolicitation) = .err .other :=
    PV.Props.C03MarshalTie.rs_bad_mac _ [] hm h1
  rw [this]
  rfl

/-- C07 for the router solicitation: the frame is a well-formed ICMPv6 packet from the host's link-local address to the
    all-routers group ff02::2 at 33:33:00:00:00:02 (the multicast MAC of that group), Ethernet source = the host NIC
    MAC, the message is the solicitation carrying that MAC, checksum verifying, hop limit 255 -/
theorem icmp6SendRS_wf (g : Mem) (hm lla : Bytes) (h1 : hm.length = 6) (h3 : lla.length = 16) (hcap : g.length = 1522) :
    ∃ f, Gen.Send.ICMP6SendRouterSolicitation g hm lla = .ok f ∧
      Spec.Wire.wfICMP6 hm allRoutersMAC lla allRoutersIP (rsMessage hm) f = none := by
  rw [icmp6SendRS_tie g hm lla h1 h3 (by omega)]
  have hl := rsMessage_length hm h1
  obtain ⟨rest, hr⟩ : ∃ rest, rsMessage hm = 133 :: 0 :: 0 :: 0 :: rest := ⟨_, rfl⟩
  rw [hr] at hl ⊢
  simp only [List.length_cons] at hl
  exact C07.sent_icmp6_wf g hm allRoutersMAC lla allRoutersIP 133 0 rest h1 rfl h3 rfl (by omega) (by omega) hcap (fun _ => by decide)

/-- non-vacuity -/
example : ∃ f, Gen.Send.ICMP6SendRouterSolicitation (List.replicate 1522 0x55) [2,0,0,0,0,1]
      [0xfe,0x80,0,0,0,0,0,0,0,0,0,0,0,0,0,1] = .ok f ∧
    Spec.Wire.wfICMP6 [2,0,0,0,0,1] allRoutersMAC [0xfe,0x80,0,0,0,0,0,0,0,0,0,0,0,0,0,1] allRoutersIP
      (rsMessage [2,0,0,0,0,1]) f = none :=
  icmp6SendRS_wf _ _ _ rfl rfl List.length_replicate

/-- the session values the regenerated sender reads, by name: Ethernet source and option = HostAddr4.MAC, IPv6 source =
    HostLLA.Addr(); the destination is the initialiser of `IP6AllRoutersAddr` (in the generated text) -/
theorem rs_session_args : (Gen.Send.sendersSessionArgs.filter (·.1 == "ICMP6SendRouterSolicitation")).map (·.2) =
    [["HostAddr4_MAC", "HostLLA_Addr"]] := by decide

end PV.Props.C07SendMarshal
