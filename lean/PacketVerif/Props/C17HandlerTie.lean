/-
  C17 / C08 tie (F11, continued) — the handler-level glue of handlers/dns_naming: `(*DNSHandler).ProcessDNS` (dns.go) and
  `DNSFind` (dnstable.go), regenerated from their Go bodies on every run by tools/goextract/loops_naming.go →
  Gen/LoopsNaming.lean ON TOP OF the regenerated decoder of Gen/LoopsDns.lean (the calls of IsValid, DecodeQuestion,
  NewDNSEntry, DecodeAnswers are calls of the regenerated bodies), are `Model.processDNS` / `DNSTable.find` of
  Model/DnsRR.lean — the functions the C17 theorems about the DNS table (what a response adds, first wins, what stays
  after a malformed record) and C08's `processDNS_total` are about.

  The handler is the state of `OutcomeS GDNSHandler`, so the statement covers the table an error return leaves behind:
  the entry looked up in the table is a struct COPY that shares its four maps with the table's copy (`onLocal` +
  `shareMaps`, assumption sharedMapFields), so the records decoded before a failing record are in the table although
  the call fails — as the model says and as the dns.process lines of the correspondence run observe.

  Modulo: Go maps as association lists in insertion order seen through `tableView` / `entryView`; the table invariant
  `TableGood` (allocated; every entry under its own name, with allocated maps keyed by their records), which the tie
  shows is maintained; `net.ParseIP` as the parameter `parseIP` (hypothesis `hP`); locks and debug logging dropped
  (`namingIgnored`, pinned below).
-/
import PacketVerif.Props.C17RRTie
import PacketVerif.Gen.LoopsNaming
namespace PV.Props.C17HandlerTie
open PV PV.Model PV.Model.LoopGo PV.Model.LoopGoDns PV.Gen.LoopsDns PV.Gen.LoopsNaming PV.Lemmas.DnsLoops PV.Lemmas.DnsRRLoops PV.Props.C17Tie PV.Props.C17RRTie

/-- the end index the regenerated `DecodeQuestion` returns is not negative -/
theorem decodeQuestion_idx_nonneg (p : Bytes) (index : Int) (buffer : Bytes) (q : GQuestion) (i : Int)
    (h : genDecodeQuestion p index buffer = .ok (q, i)) : 0 ≤ i := by
  unfold genDecodeQuestion at h
  cases h1 : genDNS_IsValid p <;> rw [h1] at h <;> try (cases h)
  cases h2 : genDNS_QDCount p <;> rw [h2] at h <;> try (cases h)
  simp only [Outcome.bind_ok] at h
  split at h
  · cases h
  split at h
  · cases h
  cases h3 : genDecodeName p index buffer 1 with
  | ok v =>
    obtain ⟨b, n, e⟩ := v
    have hnn := decodeName_end_nonneg p index buffer 1 b n e h3
    rw [h3] at h
    simp only [Outcome.bind_ok] at h
    split at h
    · cases h
    cases h4 : sliceI p e (e + 2) <;> rw [h4] at h <;> try (cases h)
    simp only [Outcome.bind_ok] at h
    rename_i t2
    cases h5 : beU16 t2 <;> rw [h5] at h <;> try (cases h)
    simp only [Outcome.bind_ok] at h
    cases h6 : sliceI p (e + 2) (e + 4) <;> rw [h6] at h <;> try (cases h)
    simp only [Outcome.bind_ok] at h
    rename_i t4
    cases h7 : beU16 t4 <;> rw [h7] at h <;> cases h
    omega
  | err e => rw [h3] at h; cases h
  | panic => rw [h3] at h; cases h
  | hang => rw [h3] at h; cases h

/-! ### the table under the view -/

/-- the handler's table as the model's: keys in insertion order with the entries seen through `entryView` -/
def tableView (h : GDNSHandler) : DNSTable :=
  match h.DNSTable with
  | none => []
  | some l => l.map (fun kv => (kv.1, entryView kv.2))

/-- the table is allocated, every entry is stored under its own name, with allocated maps keyed by their records
    (what `New` and `ProcessDNS` establish and maintain — the last conjunct of `processDNS_tie`) -/
def TableGood (h : GDNSHandler) : Prop := ∃ l, h.DNSTable = some l ∧ ∀ kv ∈ l, kv.1 = kv.2.Name ∧ Good kv.2

/-- what the caller sees of the returned entry: the zero `DNSEntry{}` is "nothing changed" -/
def resView (e : GDNSEntry) : Option DNSEntry := if e = {} then none else some (entryView e)

/-- the value under `k` replaced -/
def setL (l : List (Bytes × GDNSEntry)) (k : Bytes) (e : GDNSEntry) : List (Bytes × GDNSEntry) :=
  l.map (fun kv => if kv.1 = k then (k, e) else kv)

theorem find_view (l : List (Bytes × GDNSEntry)) (k : Bytes) :
    DNSTable.find (l.map (fun kv => (kv.1, entryView kv.2))) k = ((l.find? (fun kv => kv.1 = k)).map (fun kv => entryView kv.2)) := by
  unfold DNSTable.find
  induction l with
  | nil => rfl
  | cons kv t ih =>
    simp only [List.map_cons, List.find?_cons]
    by_cases hk : kv.1 = k
    · simp [hk]
    · have hb : (kv.1 == k) = false := by simp [hk]
      simp only [hk, decide_false, hb]
      simpa using ih

theorem any_view (l : List (Bytes × GDNSEntry)) (k : Bytes) :
    (l.map (fun kv => (kv.1, entryView kv.2))).any (fun kv => kv.1 == k) = l.any (fun kv => decide (kv.1 = k)) := by
  induction l with
  | nil => rfl
  | cons kv t ih => simp only [List.map_cons, List.any_cons, ih]; congr 1; by_cases hk : kv.1 = k <;> simp [hk]

theorem setL_view (l : List (Bytes × GDNSEntry)) (k : Bytes) (e : GDNSEntry) :
    (setL l k e).map (fun kv => (kv.1, entryView kv.2)) =
      (l.map (fun kv => (kv.1, entryView kv.2))).map (fun kv => if kv.1 == k then (k, entryView e) else kv) := by
  unfold setL
  simp only [List.map_map]
  apply List.map_congr_left
  intro kv _
  by_cases hk : kv.1 = k <;> simp [Function.comp, hk]

/-- `h.DNSTable[k] = e` under the view is the model's `put` -/
theorem mapSet_view (l : List (Bytes × GDNSEntry)) (k : Bytes) (e : GDNSEntry) :
    ∃ l', mapSet (some l) k e = .ok (some l') ∧
      l'.map (fun kv => (kv.1, entryView kv.2)) = DNSTable.put (l.map (fun kv => (kv.1, entryView kv.2))) k (entryView e) ∧
      (∀ kv ∈ l', kv ∈ l ∨ kv = (k, e)) ∧
      (l.any (fun kv => decide (kv.1 = k)) = true → l' = setL l k e) := by
  unfold mapSet DNSTable.put
  rw [any_view]
  by_cases ha : l.any (fun kv => decide (kv.1 = k)) = true
  · simp only [ha, if_true]
    refine ⟨setL l k e, rfl, setL_view l k e, ?_, fun _ => rfl⟩
    intro kv hm
    unfold setL at hm
    obtain ⟨kv0, h0, rfl⟩ := List.mem_map.mp hm
    by_cases hk : kv0.1 = k
    · right; simp [hk]
    · left; simp [hk, h0]
  · simp only [ha, if_false, Bool.false_eq_true]
    refine ⟨l ++ [(k, e)], rfl, by simp, ?_, fun h => absurd h (by simp)⟩
    intro kv hm
    rcases List.mem_append.mp hm with h1 | h1
    · exact Or.inl h1
    · right; simpa using h1

theorem shareMaps_good {slot e' : GDNSEntry} (hs : Good slot) (hn : slot.Name = e'.Name) : GDNSEntry.shareMaps slot e' = e' := by
  obtain ⟨l4, h4, _⟩ := hs.ip4
  obtain ⟨l6, h6, _⟩ := hs.ip6
  obtain ⟨lc, hc, _⟩ := hs.cn
  obtain ⟨lp, hp, _⟩ := hs.ptr
  cases e'
  simp only [GDNSEntry.shareMaps, h4, h6, hc, hp] at *
  simp [hn]

/-- the write-back of the shared maps into the slot the local was read from, for a good table, stores the local -/
theorem adjust_good {l : List (Bytes × GDNSEntry)} (hl : ∀ kv ∈ l, kv.1 = kv.2.Name ∧ Good kv.2) (k : Bytes) (e' : GDNSEntry)
    (hn : e'.Name = k) :
    mapAdjust (some l) k (fun slot => GDNSEntry.shareMaps slot e') = some (setL l k e') := by
  unfold mapAdjust setL
  simp only [Option.map_some]
  congr 1
  apply List.map_congr_left
  intro kv hm
  by_cases hk : kv.1 = k
  · simp only [hk, if_true]
    rw [shareMaps_good (hl kv hm).2 (by rw [← (hl kv hm).1, hk, hn])]
  · simp [hk]

theorem good_nonzero {e : GDNSEntry} (h : Good e) : e ≠ {} := by
  intro he
  obtain ⟨l, h4, _⟩ := h.ip4
  rw [he] at h4
  cases h4

theorem mapSet_setL (l : List (Bytes × GDNSEntry)) (k : Bytes) (e : GDNSEntry) (ha : l.any (fun kv => decide (kv.1 = k)) = true) :
    mapSet (some (setL l k e)) k e = .ok (some (setL l k e)) := by
  have h1 : (setL l k e).any (fun kv => decide (kv.1 = k)) = true := by
    obtain ⟨kv, hm, hk⟩ := List.any_eq_true.mp ha
    refine List.any_eq_true.mpr ⟨(k, e), ?_, by simp⟩
    unfold setL
    exact List.mem_map.mpr ⟨kv, hm, by simp at hk; simp [hk]⟩
  unfold mapSet
  simp only [h1, if_true]
  congr 2
  unfold setL
  simp only [List.map_map]
  apply List.map_congr_left
  intro kv _
  by_cases hk : kv.1 = k <;> simp [Function.comp, hk]

/-! ### running the glue -/

@[simp] theorem run_bind_getRecv {σ β : Type} (f : σ → OutcomeS σ β) (s : σ) : (getRecv >>= f).run s = (f s).run s := rfl

theorem run_bind_onLocal {σ τ α β : Type} (e : τ) (wb : τ → σ → σ) (x : OutcomeS τ α) (f : τ × α → OutcomeS σ β) (s : σ) :
    (onLocal e wb x >>= f).run s =
      match x.run e with
      | (e', .ok a) => (f (e', a)).run (wb e' s)
      | (e', .err er) => (wb e' s, .err er)
      | (e', .panic) => (wb e' s, .panic)
      | (e', .hang) => (wb e' s, .hang) := by
  show OutcomeS.bind (onLocal e wb x) f s = _
  unfold OutcomeS.bind onLocal OutcomeS.run
  rcases x e with ⟨e', o⟩
  cases o <;> rfl


/-- **ProcessDNS tie.**  For every good table, every payload and every previous content of the receiver: the table the
    regenerated `ProcessDNS` leaves behind, seen as the model's table, and its outcome (the entry returned, `none` for the
    zero `DNSEntry{}`) are `Model.processDNS` — on every path: short header, question refused, entry found / created,
    answers refused half-way (the records before the bad one ARE in the table when the entry was found there, and are
    not when it was fresh), nothing new, something new (stored, returned).  The table stays good. -/
theorem processDNS_tie (parseIP : Bytes → Bytes) (ip6 : Bytes → PtrIP) (hP : ∀ s, ptrView (parseIP s) = parsePtrIP ip6 s)
    (h : GDNSHandler) (hg : TableGood h) (p : Bytes) (h0 : GDNSHandler) :
    (tableView ((genDNSHandler_ProcessDNS parseIP h p).run h0).1,
      omap resView ((genDNSHandler_ProcessDNS parseIP h p).run h0).2) = Model.processDNS ip6 (tableView h) p
    ∧ TableGood ((genDNSHandler_ProcessDNS parseIP h p).run h0).1 := by
  unfold genDNSHandler_ProcessDNS Model.processDNS
  simp only [OutcomeS.run_bind_putRecv, OutcomeS.run_bind_lift, isValid_tie]
  by_cases h12 : p.length < 12
  · simp only [h12, if_true]
    exact ⟨rfl, hg⟩
  simp only [h12, if_false]
  have hq := decodeQuestion_tie p 12 []
  revert hq
  cases hgq : genDecodeQuestion p 12 [] with
  | err er => intro hq; simp only [omap] at hq; rw [← hq]; exact ⟨rfl, hg⟩
  | panic => intro hq; simp only [omap] at hq; rw [← hq]; exact ⟨rfl, hg⟩
  | hang => intro hq; simp only [omap] at hq; rw [← hq]; exact ⟨rfl, hg⟩
  | ok v =>
    obtain ⟨q, idx⟩ := v
    intro hq
    simp only [omap, qView] at hq
    rw [← hq]
    have hidx := decodeQuestion_idx_nonneg p 12 [] q idx hgq
    obtain ⟨i, rfl⟩ : ∃ i : Nat, idx = (i : Int) := ⟨idx.toNat, by omega⟩
    simp only [Int.toNat_natCast]
    obtain ⟨l, hl, hgood⟩ := hg
    obtain ⟨T⟩ := h
    simp only at hl
    subst hl
    have htv : tableView { DNSTable := some l } = l.map (fun kv => (kv.1, entryView kv.2)) := rfl
    rw [htv, find_view]
    have hmh : mapHas (some l) q.Name = l.any (fun kv => decide (kv.1 = q.Name)) := rfl
    simp only [hmh]
    cases hf : l.find? (fun kv => decide (kv.1 = q.Name)) with
    | some kv =>
      have hmem : kv ∈ l := List.mem_of_find?_eq_some hf
      have hkey : kv.1 = q.Name := by simpa using List.find?_some hf
      have hany : l.any (fun kv => decide (kv.1 = q.Name)) = true := List.any_eq_true.mpr ⟨kv, hmem, by simp [hkey]⟩
      have hget : mapGetD (some l) q.Name ({} : GDNSEntry) = kv.2 := by simp [mapGetD, mapGet?, hf]
      obtain ⟨hname, hgd⟩ := hgood kv hmem
      obtain ⟨d1, d2, d3, d4⟩ := decodeAnswers_tie parseIP ip6 hP kv.2 (keyed_of_good hgd) p (i : Int) [] kv.2
      simp only [hany, hget, not_true, if_false, if_true, run_pure_bind, Option.map_some, Option.isSome_some]
      rw [← d1, run_bind_onLocal]
      generalize (genDNSEntry_DecodeAnswers parseIP kv.2 p (↑i) []).run kv.2 = R at d2 d3 d4
      obtain ⟨e', r⟩ := R
      simp only at d3 d4
      have hn' : e'.Name = q.Name := by rw [d3, ← hname, hkey]
      have hadj := adjust_good hgood q.Name e' hn'
      have hev : (entryView e').name = q.Name := hn'
      obtain ⟨l', hs1, hs2, hs3, hs4⟩ := mapSet_view l q.Name e'
      have hl' : l' = setL l q.Name e' := hs4 hany
      subst hl'
      have hgood' : ∀ kv ∈ setL l q.Name e', kv.1 = kv.2.Name ∧ Good kv.2 := by
        intro kv' hm'
        rcases hs3 kv' hm' with h1 | h1
        · exact hgood kv' h1
        · subst h1; exact ⟨hn'.symm, d4 hgd⟩
      cases r with
      | ok a =>
        obtain ⟨e2, off, upd⟩ := a
        simp only [hadj, run_bind_getRecv, omap, rrView]
        by_cases hu : upd = true
        · subst hu
          simp only [if_true, OutcomeS.run_bind_lift, hn', mapSet_setL l q.Name e' hany, OutcomeS.run_bind_putRecv,
            OutcomeS.run_pure, resView, good_nonzero (d4 hgd), if_false, hev]
          exact ⟨by rw [← hs2]; rfl, ⟨_, rfl, hgood'⟩⟩
        · have hu' : upd = false := by simpa using hu
          subst hu'
          simp only [Bool.false_eq_true, if_false, OutcomeS.run_pure, resView, if_true, hev]
          exact ⟨by rw [← hs2]; rfl, ⟨_, rfl, hgood'⟩⟩
      | err er =>
        simp only [hadj, omap, hev]
        exact ⟨by rw [← hs2]; rfl, ⟨_, rfl, hgood'⟩⟩
      | panic =>
        simp only [hadj, omap, hev]
        exact ⟨by rw [← hs2]; rfl, ⟨_, rfl, hgood'⟩⟩
      | hang =>
        simp only [hadj, omap, hev]
        exact ⟨by rw [← hs2]; rfl, ⟨_, rfl, hgood'⟩⟩
    | none =>
      have hany : l.any (fun kv => decide (kv.1 = q.Name)) = false := by
        rw [List.any_eq_false]
        intro kv hm
        exact List.find?_eq_none.mp hf kv hm
      have hnew : genNewDNSEntry = .ok ({ IP4Records := mapMake, IP6Records := mapMake, CNameRecords := mapMake, PTRRecords := mapMake } : GDNSEntry) := rfl
      have hgf : Good ({ Name := q.Name, IP4Records := mapMake, IP6Records := mapMake, CNameRecords := mapMake, PTRRecords := mapMake } : GDNSEntry) :=
        ⟨⟨[], rfl, fun _ h => by cases h⟩, ⟨[], rfl, fun _ h => by cases h⟩, ⟨[], rfl, fun _ h => by cases h⟩, ⟨[], rfl, fun _ h => by cases h⟩⟩
      obtain ⟨d1, d2, d3, d4⟩ := decodeAnswers_tie parseIP ip6 hP _ (keyed_of_good hgf) p (i : Int) [] _
      have hvf : entryView ({ Name := q.Name, IP4Records := mapMake, IP6Records := mapMake, CNameRecords := mapMake, PTRRecords := mapMake } : GDNSEntry)
          = DNSEntry.empty q.Name := rfl
      rw [hvf] at d1
      simp only [hany, Bool.false_eq_true, not_false_eq_true, if_true, if_false, run_bind_assoc, OutcomeS.run_bind_lift, hnew,
        run_pure_bind, Option.map_none, Option.isSome_none]
      rw [← d1, run_bind_onLocal]
      generalize (genDNSEntry_DecodeAnswers parseIP _ p (↑i) []).run _ = R at d2 d3 d4
      obtain ⟨e', r⟩ := R
      simp only at d3 d4
      have hev : (entryView e').name = q.Name := d3
      have hgl : TableGood { DNSTable := some l } := ⟨l, rfl, hgood⟩
      cases r with
      | ok a =>
        obtain ⟨e2, off, upd⟩ := a
        simp only [run_bind_getRecv, omap, rrView]
        by_cases hu : upd = true
        · subst hu
          obtain ⟨l', hs1, hs2, hs3, _⟩ := mapSet_view l q.Name e'
          have hn' : e'.Name = q.Name := d3
          simp only [if_true, OutcomeS.run_bind_lift, hn', hs1, OutcomeS.run_bind_putRecv,
            OutcomeS.run_pure, resView, good_nonzero (d4 hgf), if_false, hev]
          refine ⟨by rw [← hs2]; rfl, ⟨l', rfl, ?_⟩⟩
          intro kv' hm'
          rcases hs3 kv' hm' with h1 | h1
          · exact hgood kv' h1
          · subst h1; exact ⟨hn'.symm, d4 hgf⟩
        · have hu' : upd = false := by simpa using hu
          subst hu'
          simp only [Bool.false_eq_true, if_false, OutcomeS.run_pure, resView, if_true]
          exact ⟨rfl, hgl⟩
      | err er => exact ⟨rfl, hgl⟩
      | panic => exact ⟨rfl, hgl⟩
      | hang => exact ⟨rfl, hgl⟩

/-- **ProcessDNS tie, unconditional form** (`net.ParseIP` as the model has it, any IPv6 text parser `p6`) -/
theorem processDNS_tie_ref (p6 : Bytes → Bytes) (h : GDNSHandler) (hg : TableGood h) (p : Bytes) (h0 : GDNSHandler) :
    (tableView ((genDNSHandler_ProcessDNS (refParseIP p6) h p).run h0).1,
      omap resView ((genDNSHandler_ProcessDNS (refParseIP p6) h p).run h0).2)
      = Model.processDNS (fun s => ptrView (p6 s)) (tableView h) p
    ∧ TableGood ((genDNSHandler_ProcessDNS (refParseIP p6) h p).run h0).1 :=
  processDNS_tie (refParseIP p6) (fun s => ptrView (p6 s)) (refParseIP_hP p6) h hg p h0

/-- **DNSFind tie.**  The regenerated `DNSFind` does not change the table and returns the entry stored under the name,
    the zero entry when there is none: `DNSTable.find` of the model. -/
theorem dnsFind_tie (h : GDNSHandler) (hg : TableGood h) (name : Bytes) (h0 : GDNSHandler) :
    ((genDNSHandler_DNSFind h name).run h0).1 = h ∧
    omap resView ((genDNSHandler_DNSFind h name).run h0).2 = .ok ((tableView h).find name) := by
  obtain ⟨l, hl, hgood⟩ := hg
  obtain ⟨T⟩ := h
  simp only at hl
  subst hl
  unfold genDNSHandler_DNSFind
  have htv : tableView { DNSTable := some l } = l.map (fun kv => (kv.1, entryView kv.2)) := rfl
  rw [htv, find_view]
  have hmh : mapHas (some l) name = l.any (fun kv => decide (kv.1 = name)) := rfl
  simp only [OutcomeS.run_bind_putRecv, hmh]
  cases hf : l.find? (fun kv => decide (kv.1 = name)) with
  | some kv =>
    have hmem : kv ∈ l := List.mem_of_find?_eq_some hf
    have hany : l.any (fun kv => decide (kv.1 = name)) = true :=
      List.any_eq_true.mpr ⟨kv, hmem, by simpa using List.find?_some hf⟩
    have hget : mapGetD (some l) name ({} : GDNSEntry) = kv.2 := by simp [mapGetD, mapGet?, hf]
    simp only [hany, if_true, hget, OutcomeS.run_pure, omap, resView, good_nonzero (hgood kv hmem).2, if_false, Option.map_some]
    exact ⟨trivial, trivial⟩
  | none =>
    have hany : l.any (fun kv => decide (kv.1 = name)) = false := by
      rw [List.any_eq_false]; intro kv hm; exact List.find?_eq_none.mp hf kv hm
    simp only [hany, Bool.false_eq_true, if_false, OutcomeS.run_pure, omap, resView, if_true, Option.map_none]
    exact ⟨trivial, trivial⟩

/-- the table `New` builds (`make(map[string]packet.DNSEntry)`) is good -/
theorem tableGood_new : TableGood { DNSTable := mapMake } := ⟨[], rfl, fun _ h => by cases h⟩

/-- non-vacuity: on the empty table a response for "a" with one A record 10.0.0.1 is stored under "a" and returned;
    the same response with a truncated second record fails and leaves the (fresh, not stored) entry out of the table -/
example : ((genDNSHandler_ProcessDNS (fun _ => []) { DNSTable := mapMake }
      [0, 0, 0, 0, 0, 1, 0, 1, 0, 0, 0, 0, 1, 97, 0, 0, 1, 0, 1, 1, 97, 0, 0, 1, 0, 1, 0, 0, 0, 60, 0, 4, 10, 0, 0, 1]).run {}).1.DNSTable
    = some [([97], { Name := [97], IP4Records := some [([10, 0, 0, 1], { Name := [97], IP := [10, 0, 0, 1], TTL := 60 })],
                     IP6Records := some [], CNameRecords := some [], PTRRecords := some [] })] := by decide
example : (genDNSHandler_ProcessDNS (fun _ => []) { DNSTable := mapMake }
      [0, 0, 0, 0, 0, 1, 0, 2, 0, 0, 0, 0, 1, 97, 0, 0, 1, 0, 1, 1, 97, 0, 0, 1, 0, 1, 0, 0, 0, 60, 0, 4, 10, 0, 0, 1, 1, 98, 0]).run {}
    = ({ DNSTable := mapMake }, .err .invalidLen) := by decide

/-- non-vacuity of the sharing: the same failing response when "a" IS in the table (with its maps allocated): the call
    fails and the first record is in the table's entry -/
example : (genDNSHandler_ProcessDNS (fun _ => [])
      { DNSTable := some [([97], { Name := [97], IP4Records := some [], IP6Records := some [], CNameRecords := some [], PTRRecords := some [] })] }
      [0, 0, 0, 0, 0, 1, 0, 2, 0, 0, 0, 0, 1, 97, 0, 0, 1, 0, 1, 1, 97, 0, 0, 1, 0, 1, 0, 0, 0, 60, 0, 4, 10, 0, 0, 1, 1, 98, 0]).run {}
    = ({ DNSTable := some [([97], { Name := [97], IP4Records := some [([10, 0, 0, 1], { Name := [97], IP := [10, 0, 0, 1], TTL := 60 })],
                                    IP6Records := some [], CNameRecords := some [], PTRRecords := some [] })] }, .err .invalidLen) := by decide

/-! ### the translator's account -/

theorem naming_translated_accounted : namingTranslated =
    [("dns_naming.(*DNSHandler).ProcessDNS", "genDNSHandler_ProcessDNS"), ("dns_naming.(*DNSHandler).DNSFind", "genDNSHandler_DNSFind")] := by decide

/-- refused, with the first offending construct: both take a `netip.Addr` (DNSExist then ranges over the table,
    DNSLookupPTR calls the resolver) -/
theorem naming_untranslated_accounted : namingUntranslated.map (·.1) =
    ["dns_naming.(*DNSHandler).DNSExist", "dns_naming.(*DNSHandler).DNSLookupPTR"] := by decide

/-- a lock or log statement added, removed or moved shows up here -/
theorem naming_ignored_accounted : namingIgnored =
    ["genDNSHandler_ProcessDNS: lock: h.mutex.Lock()", "genDNSHandler_ProcessDNS: lock: defer h.mutex.Unlock()",
     "genDNSHandler_ProcessDNS: log: if Debug { Logger.Msg(\"entry\").Struct(e).Write() }",
     "genDNSHandler_DNSFind: lock: h.mutex.RLock()", "genDNSHandler_DNSFind: lock: defer h.mutex.RUnlock()"] := by decide

theorem naming_assumptions_accounted : namingAssumptions.map (·.1) =
    ["appendValue", "copyIsValue", "errValuesDropped", "locksDropped", "sharedMapFields"] := by decide

end PV.Props.C17HandlerTie
