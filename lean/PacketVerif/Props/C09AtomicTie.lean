/-
  Tie theorems of the atomicity half of C09 — see Props/C09AtomicReview.lean for the definitions (`multi`, `reviewed`, `pinned`,
  `modelSteps`) and for what breaks the tie.
-/
import PacketVerif.Props.C09AtomicReview
import PacketVerif.Props.C09Atomic
namespace PV.Props.C09AtomicTie
open PV
open PV.Props.C09RaceTie (guardTable)
open PV.Props.C09AtomicReview

/-! ### Tie theorems (kernel evaluation on the regenerated facts) -/

/-- the section analysis attributed every lock operation (no Unlock of a caller's lock, no TryLock outside `if`, …) -/
theorem atomic_extractor_total : Gen.Atomic.atomicUnknown = [] := by decide

/-- the numeric guard table is C09RaceTie.guardTable -/
theorem guardIds_tie : guardIds = guardTable.map (fun p => guardClsIds p.2) := by decide +kernel

/-- the field ids of the shape facts are those of the lockset facts (so `guardTable` applies) -/
theorem fields_tie : Gen.Atomic.fields = Gen.trackedFields := by decide +kernel

/-- every lock class of a section is a lock class of the lock-order facts (C09Tie) -/
theorem classes_known : Gen.Atomic.classes.all Gen.lockClasses.contains = true := by decide +kernel

/-- **every entry point satisfies the single-section discipline per guard, except exactly the reviewed operations** -/
theorem entries_disciplined : (multi == reviewed.map (fun r => (r.1, r.2.1, r.2.2.1))) = true := by decide +kernel

/-- every reviewed operation has a reason -/
theorem reviewed_have_reasons : reviewed.all (fun r => r.2.2.2 != "") = true := by decide +kernel

/-- the functions the reviewed operations consist of are exactly the pinned ones … -/
theorem pinned_covers : (pinned.map (·.1) == reviewedFns) = true := by decide +kernel

/-- … and **their critical-section shapes are the reviewed ones**: class, mode, nesting, loop, guarded fields read / written
    inside, external effects inside, and the order of sections, calls and unlocked effects -/
theorem reviewed_shapes_pinned : pinned.all (fun p => fnShape p.1 == p.2) = true := by decide +kernel

/-- **the step machines' atomic steps are single critical sections of the code** (or exactly the listed number) -/
theorem model_steps_atomic : modelSteps.all stepOk = true := by decide +kernel

/-! ### From the facts to the theorem of Props/C09Atomic -/

section
open PV.Model.Atomic
variable {G L D : Type} [DecidableEq G]

/-- Any interpretation of the code's checked one-section operations as sections of the atomicity machine — whatever their
    bodies do to the data of their guard —, run by any number of threads under any schedule, is serializable: this is
    what lets the step-machine theorems (C13, C14, C19, C11/C12 and the Model/Tables steps) speak about concurrent
    executions of the entry points `model_steps_atomic` checks. -/
theorem code_steps_serializable (l0 : L) (st0 : Store G D) (sem : String → Sec G L D) (progs : Nat → List String)
    (σ : State G L D) (hr : Reach l0 (init l0 st0 (fun i => (progs i).map fun f => ({ secs := [sem f] } : Op G L D))) σ) :
    ∃ sched : List (Nat × Op G L D),
      serial l0 (sched.map (·.2)) st0 = abs σ ∧ (Quiescent σ → serial l0 (sched.map (·.2)) st0 = σ.store) := by
  obtain ⟨sched, h1, _, h3⟩ := PV.Props.C09Atomic.single_section_serializable l0 st0 _ (by
    intro i op ho
    obtain ⟨f, _, rfl⟩ := List.mem_map.mp ho
    simp [SingleSection]) σ hr
  exact ⟨sched, h1, h3⟩
end

end PV.Props.C09AtomicTie
