/-
  Tie B for C02: the three `switch` statements of `Session.Parse`, regenerated from the Go source
  on every run, against the specification tables of Spec/Decode.lean (which `parse_eq_spec`
  connects to the model).  A reordered `case`, a changed port or EtherType, or a case the
  translator cannot classify breaks one of these proofs at build time.
-/
import PacketVerif.Gen.Facts
import PacketVerif.Model.Parse
import PacketVerif.Spec.Decode
namespace PV.Props.C02Tie
open PV PV.Model

def sideStr : Spec.Side → String
  | .src => "src" | .dst => "dst" | .either => "either"

theorem parse_fully_classified : Gen.parseUnknown = 0 := by decide

/-- the ordered UDP port cases of the source are exactly the documented first-match table -/
theorem udpPortCases_tie : Gen.udpPortCases = Spec.udpTable.map (fun (s, p, pid) => (sideStr s, p, pid)) := by decide

/-- the EtherType cases are IPv4, IPv6, ARP followed by the L2 classification table -/
theorem etherCases_tie : Gen.etherCases = [(0x0800, 4), (0x86dd, 5), (0x0806, 3)] ++ Spec.l2Table := by decide

/-- probe payload: long enough for every transport header, data offset 5 -/
def probe : Bytes := [0,1, 0,2, 0,0,0,0, 0,0,0,0, 0x50,0, 0,0, 0,0, 0,0]

/-- each IP-protocol case of the source leads the model to the same PayloadID … -/
def protoCasesOk : Bool :=
  Gen.protoCases.all fun (pr, pid) =>
    match parseProto {} pr probe with
    | .ok r => r.frame.pid == pid && r.err.isNone
    | _ => false

theorem protoCases_tie : protoCasesOk = true := by decide

/-- … and no other protocol number is classified by the model -/
def protoOthersOk : Bool :=
  (List.range 256).all fun pr =>
    Gen.protoCases.any (fun (q, _) => q == pr) ||
    (match parseProto {} pr probe with
     | .ok r => r.frame.pid == 0 && r.err.isNone
     | _ => false)

theorem protoOthers_tie : protoOthersOk = true := by decide +kernel

end PV.Props.C02Tie
