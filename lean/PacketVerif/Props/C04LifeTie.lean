/-
  F19 — the life cycle of a Session (session.go): model `Model/SessionLife.lean`, its theorems, and the ties of
  the regenerated code (Gen/SessLifeGen.lean, tools/goextract/sesslife.go) to it.  Obligation of C04, C05, C09.

  Model theorems (all histories, any interleaving of any number of `Close` calls with ticks, purges, table
  operations, notifications, receives):
    `life_never_panics`, `close_second_returns_early`, `close_idempotent`, `no_send_after_close`,
    `channels_closed_once`, `loops_end_only_after_close`, `loop_ended_stays_ended`, `close_runs_to_completion`,
    `newSession_tables_inv`, `life_tables_inv`.
  Ties: `Close_tie`, `close_mark_tie`, `close_step_tie`, `monitor_*_tie`, `minute_*_tie`, `newSession_tables_tie`,
  the reviewed lists.
-/
import PacketVerif.Lemmas.SessionLife
import PacketVerif.Gen.SessLifeGen
import PacketVerif.Lemmas.SessLifeTie
namespace PV.Props.C04LifeTie
open PV PV.Model PV.Model.SessionLife PV.Model.SessionLifeGo PV.Gen.SessLife PV.Lemmas.SessionLife PV.Spec
open PV.Model.Tables (Cfg Sess Op)

/-! ### the model -/

theorem run_inv {c : Cfg} : ∀ (evs : List Ev) (s s' : Life), LInv s → Inv s.tables → run c s evs = .next s' →
    LInv s' ∧ Inv s'.tables := by
  intro evs
  induction evs with
  | nil => intro s s' h ht hr; simp only [run] at hr; cases hr; exact ⟨h, ht⟩
  | cons e es ih =>
    intro s s' h ht hr
    simp only [run] at hr
    split at hr
    · rename_i s1 hs; exact ih s1 s' (linv_step h hs) (tables_step ht hs) hr
    · exact ih s s' h ht hr
    · cases hr

/-- no history of a session panics: no channel is closed twice (whatever number of `Close` calls race), and no
    notification is sent on a closed `C` (`sendNotification` tests `closed` under the lock `Close` sets it under -
    the repair 9771e28) -/
theorem life_never_panics (c : Cfg) (now : Int) (mh mr : String) (evs : List Ev) :
    run c (newSession c now mh mr) evs ≠ .panic := by
  have : ∀ (evs : List Ev) (s : Life), LInv s → run c s evs ≠ .panic := by
    intro evs
    induction evs with
    | nil => intro s _; simp [run]
    | cons e es ih =>
      intro s h
      simp only [run]
      split
      · rename_i s1 hs; exact ih s1 (linv_step h hs)
      · exact ih s h
      · rename_i hp; exact absurd hp (step_no_panic h e)
  exact this evs _ (linv_new c now mh mr)

/-- a `Close` on a closed session returns at once: nothing but the call's own program counter changes -/
theorem close_second_returns_early (c : Cfg) (s : Life) (p : Nat) (hc : s.closed = true) (h0 : s.cl p = 0) :
    step c s (.closeMark p) = .next (setCl s p 6) ∧ step c (setCl s p 6) (.closeStep p) = .off := by
  simp [step, hc, h0, setCl]

/-- `Close` is idempotent: after a completed `Close` a second one changes no Go state -/
theorem close_idempotent (c : Cfg) (s s' : Life) (p : Nat) (hc : s.closed = true) (h0 : s.cl p = 0)
    (hs : step c s (.closeMark p) = .next s') :
    s'.closed = s.closed ∧ s'.chClosed = s.chClosed ∧ s'.cClosed = s.cClosed ∧ s'.connClosed = s.connClosed ∧
    s'.out = s.out ∧ s'.tables = s.tables ∧ s'.minute = s.minute ∧ s'.monitor = s.monitor := by
  rw [(close_second_returns_early c s p hc h0).1] at hs
  cases hs; simp [setCl]

/-- after `Close` set the flag nothing is sent on `C` any more, in any continuation -/
theorem no_send_after_close (c : Cfg) (evs : List Ev) (s s' : Life) (hc : s.closed = true)
    (hr : run c s evs = .next s') : s'.closed = true ∧ s'.out = s.out := by
  induction evs generalizing s with
  | nil => simp only [run] at hr; cases hr; exact ⟨hc, rfl⟩
  | cons e es ih =>
    simp only [run] at hr
    split at hr
    · rename_i s1 hs
      have h1 := closed_step hc hs
      have h2 := ih s1 h1.1 hr
      exact ⟨h2.1, h2.2.trans h1.2⟩
    · exact ih s hc hr
    · cases hr

/-- in every reachable state the connection was closed at most once, and `C` / `closeChan` are closed only on a
    closed session -/
theorem channels_closed_once (c : Cfg) (now : Int) (mh mr : String) (evs : List Ev) (s : Life)
    (hr : run c (newSession c now mh mr) evs = .next s) :
    s.connClosed ≤ 1 ∧ (s.cClosed = true → s.closed = true) ∧ (s.chClosed = true → s.closed = true) := by
  obtain ⟨⟨h1, _, h3, h4⟩, _⟩ := run_inv evs _ s (linv_new c now mh mr) (Lemmas.Tables.inv_init c now mh mr) hr
  cases hw : s.winner with
  | none => have := h4 hw; simp [this]
  | some w =>
    have := h3 w hw
    refine ⟨?_, ?_, ?_⟩
    · rw [this.2.2.2.2]; split <;> omega
    · intro _; rw [h1, hw]; rfl
    · intro _; rw [h1, hw]; rfl

/-- the two loops end on `closeChan` and on nothing else: the exit is enabled exactly when the channel is closed -/
theorem loops_end_only_after_close (c : Cfg) (s : Life) :
    (step c s .minuteExit = if s.minute ∧ s.chClosed then .next { s with minute := false } else .off) ∧
    (step c s .monitorExit = if s.monitor ∧ s.chClosed then .next { s with monitor := false } else .off) := ⟨rfl, rfl⟩

/-- a loop that ended never runs again (no tick, no purge started by it) -/
theorem loop_ended_stays_ended (c : Cfg) (s : Life) (now : Int) :
    (s.minute = false → step c s (.minuteTick now) = .off ∧ step c s .minuteExit = .off) ∧
    (s.monitor = false → step c s .monitorTick = .off ∧ step c s .monitorExit = .off) := by
  constructor <;> intro h <;> simp [step, h]

set_option maxRecDepth 8192 in
/-- a `Close` on an open session runs to completion without panic: flag set, both channels closed, the connection
    closed once, and then both loops can end -/
theorem close_runs_to_completion (c : Cfg) (s : Life) (p : Nat) (hi : LInv s) (hc : s.closed = false) (h0 : s.cl p = 0) :
    ∃ s', run c s [.closeMark p, .closeStep p, .closeStep p, .closeStep p, .closeStep p, .minuteExit, .monitorExit] = .next s' ∧
      s'.closed = true ∧ s'.chClosed = true ∧ s'.cClosed = true ∧ s'.connClosed = s.connClosed + 1 ∧ s'.cl p = 5 ∧
      s'.minute = false ∧ s'.monitor = false ∧ s'.out = s.out := by
  obtain ⟨h1, _, _, h4⟩ := hi
  have hn : s.winner = none := by
    cases hw : s.winner with
    | none => rfl
    | some w => rw [hc, hw] at h1; simp at h1
  obtain ⟨a, b, _⟩ := h4 hn
  cases hm : s.minute <;> cases ho : s.monitor <;>
    exact ⟨_, by simp [run, step, hc, h0, setCl, a, b, hm, ho]; rfl, by simp⟩

/-- the tables `NewSession` leaves satisfy the C05 invariant -/
theorem newSession_tables_inv (c : Cfg) (now : Int) (mh mr : String) : Inv (newSession c now mh mr).tables :=
  Lemmas.Tables.inv_init c now mh mr

/-- … and keep it through the whole life of the session (minute-loop purges included, before and after `Close`) -/
theorem life_tables_inv (c : Cfg) (now : Int) (mh mr : String) (evs : List Ev) (s : Life)
    (hr : run c (newSession c now mh mr) evs = .next s) : Inv s.tables :=
  (run_inv evs _ s (linv_new c now mh mr) (Lemmas.Tables.inv_init c now mh mr) hr).2

/-! ### ties of the regenerated code -/

/-- `Session.Close` (regenerated) is the reference program: test-and-set of `closed` in ONE lock section, then
    `close(closeChan)`, `close(C)`, `Conn.Close()`, the one-second sleep - in this order -/
theorem Close_tie : Session_Close = closeProg := by
  simp only [Session_Close, closeProg, closeAt]

/-- the lock section of `closeProg` is the `closeMark` transition -/
theorem close_mark_tie (c : Cfg) (s : Life) (p : Nat) (h0 : s.cl p = 0) :
    ∃ f, closeProg = .atomic f ∧
      step c s (.closeMark p) = .next (if s.closed then setCl (f s).1 p 6 else { setCl (f s).1 p 1 with winner := some p }) ∧
      (f s).2 = (if s.closed then .done else closeAt 1) := by
  refine ⟨_, rfl, ?_, ?_⟩
  · simp only [step, h0]
    cases hc : s.closed <;> simp [setCl]
  · cases hc : s.closed <;> simp

/-- every later statement of the winning call is the `closeStep` transition: the program counter n (1..4) stands
    for the rest `closeAt n` of the program, whose first statement's effect (`Eff.run`) is the model's -/
theorem close_step_tie (c : Cfg) (s : Life) (p n : Nat) (hn1 : 1 ≤ n) (hn4 : n ≤ 4) (hcl : s.cl p = n) :
    ∃ e, closeAt n = .eff e (closeAt (n + 1)) ∧
      step c s (.closeStep p) = (match e.run s with
        | .next s' => .next (setCl s' p (n + 1))
        | .panic => .panic
        | .off => .off) := by
  have : n = 1 ∨ n = 2 ∨ n = 3 ∨ n = 4 := by omega
  rcases this with h | h | h | h <;> subst h
  · refine ⟨.closeCloseChan, rfl, ?_⟩
    cases hch : s.chClosed <;> simp [step, hcl, Eff.run, setCl, hch]
  · refine ⟨.closeC, rfl, ?_⟩
    cases hch : s.cClosed <;> simp [step, hcl, Eff.run, setCl, hch]
  · refine ⟨.connClose, rfl, ?_⟩
    simp [step, hcl, Eff.run, setCl]
  · refine ⟨.sleep 1000000000, rfl, ?_⟩
    simp [step, hcl, Eff.run, setCl]

/-- NIC monitor: waits for its ticker (period `monitorNICFrequency`) and `closeChan`; a tick sends SIGTERM iff no IP
    packet was parsed since the last one and clears the heartbeat; `closeChan` ends it -/
theorem monitor_tick_tie (c : Cfg) (s : Life) (tnow : Int) (h : s.monitor = true) :
    NewSession_go0_chans = [.ticker "monitorNICFrequency", .closeChan] ∧
    step c s .monitorTick = .next (NewSession_go0_case0 tnow s).1 ∧ (NewSession_go0_case0 tnow s).2 = .again := by
  refine ⟨rfl, ?_, rfl⟩
  simp only [step, h, if_true, NewSession_go0_case0, sigterm]
  by_cases hb : s.beat = 0 <;> simp [hb, h]

theorem monitor_exit_tie (c : Cfg) (s : Life) (tnow : Int) (h : s.monitor = true) (hc : s.chClosed = true) :
    NewSession_go0_case1 tnow s = (s, .ret) ∧ step c s .monitorExit = .next { s with monitor := false } := by
  simp [NewSession_go0_case1, step, h, hc]

/-- minute loop: waits for a one-minute ticker and `closeChan`; a tick starts `purge(time.Now())` in its own
    goroutine and does nothing else; `closeChan` ends it -/
theorem minute_tick_tie (c : Cfg) (s : Life) (tnow : Int) (h : s.minute = true) :
    NewSession_go1_chans = [.ticker "60000000000", .closeChan] ∧
    step c s (.minuteTick tnow) = .next (NewSession_go1_case0 tnow s).1 ∧ (NewSession_go1_case0 tnow s).2 = .again := by
  refine ⟨rfl, ?_, rfl⟩
  simp [step, h, NewSession_go1_case0, spawnPurge]

theorem minute_exit_tie (c : Cfg) (s : Life) (tnow : Int) (h : s.minute = true) (hc : s.chClosed = true) :
    NewSession_go1_case1 tnow s = (s, .ret) ∧ step c s .minuteExit = .next { s with minute := false } := by
  simp [NewSession_go1_case1, step, h, hc]

/-- `C` has room for 128 notifications and `closeChan` is unbuffered and never sent on (only closed) -/
theorem newSession_channels : NewSession_chans =
    ["session.C = make(chan Notification, 128)", "session.closeChan = make(chan bool)"] ∧ cCap = 128 := ⟨rfl, rfl⟩

/-- the tail of `NewSession` (regenerated; it calls the regenerated `findOrCreateHostWithLock`) builds exactly the
    tables of `Model.Tables.init`: our own host (never expires, online, IPv4 and LLA recorded on the entry), then the
    router host (router flag, IPv4, online) - `none` (a Go panic) only when the second creation panics, which needs
    the router to have the host's IP under another MAC and a host table that `printHostTable` cannot print -/
theorem newSession_tables_tie (c : Cfg) (fm : Tables.MAC → String) (tnow : Int) :
    NewSession_tables c fm tnow Tables.empty =
      (if (Tables.findOrCreateHost (Tables.initHost c tnow (Tables.findOrCreateHost Tables.empty c.hostMAC c.hostIP4 tnow (fm c.hostMAC)))
            c.routerMAC c.routerIP4 tnow (fm c.routerMAC)).panic then none
       else some (Tables.init c tnow (fm c.hostMAC) (fm c.routerMAC))) := by
  have hp1 : (Tables.findOrCreateHost Tables.empty c.hostMAC c.hostIP4 tnow (fm c.hostMAC)).panic = false := by
    simp [Tables.findOrCreateHost, Tables.empty]
  obtain ⟨h1, e1⟩ := Lemmas.SessLifeTie.foc_host_exists Lemmas.Tables.inv_empty c.hostMAC c.hostIP4 tnow (fm c.hostMAC) hp1
  have s6 := Lemmas.SessLifeTie.hostStores_eq e1 c tnow
  have hi1 : Inv (Tables.initHost c tnow (Tables.findOrCreateHost Tables.empty c.hostMAC c.hostIP4 tnow (fm c.hostMAC))) :=
    Lemmas.Tables.inv_initHost (Lemmas.Tables.inv_findOrCreateHost Lemmas.Tables.inv_empty _ _ _ _) c tnow
  have s6' : Tables.initHost c tnow ⟨(Tables.findOrCreateHost Tables.empty c.hostMAC c.hostIP4 tnow (fm c.hostMAC)).s,
      (Tables.findOrCreateHost Tables.empty c.hostMAC c.hostIP4 tnow (fm c.hostMAC)).host, false⟩ =
      Tables.initHost c tnow (Tables.findOrCreateHost Tables.empty c.hostMAC c.hostIP4 tnow (fm c.hostMAC)) := rfl
  rw [s6'] at s6
  simp only at s6
  unfold NewSession_tables
  rw [Lemmas.TablesTieA.findOrCreateHost_tie Lemmas.Tables.inv_empty]
  simp only [hp1, Bool.false_eq_true, if_false]
  rw [s6, Lemmas.TablesTieA.findOrCreateHost_tie hi1]
  by_cases hp2 : (Tables.findOrCreateHost (Tables.initHost c tnow (Tables.findOrCreateHost Tables.empty c.hostMAC c.hostIP4 tnow (fm c.hostMAC)))
            c.routerMAC c.routerIP4 tnow (fm c.routerMAC)).panic = true
  · simp [hp2]
  · have hp2 : (Tables.findOrCreateHost (Tables.initHost c tnow (Tables.findOrCreateHost Tables.empty c.hostMAC c.hostIP4 tnow (fm c.hostMAC)))
            c.routerMAC c.routerIP4 tnow (fm c.routerMAC)).panic = false := by simpa using hp2
    obtain ⟨h2, e2⟩ := Lemmas.SessLifeTie.foc_host_exists hi1 c.routerMAC c.routerIP4 tnow (fm c.routerMAC) hp2
    have s4 := Lemmas.SessLifeTie.routerStores_eq e2
    simp only at s4
    simp only [hp2, Bool.false_eq_true, if_false]
    rw [s4]
    rfl

/-- so a session starts with tables that satisfy the C05 invariant, computed by the regenerated code -/
theorem newSession_tables_regenerated_inv (c : Cfg) (fm : Tables.MAC → String) (tnow : Int) (s : Sess)
    (h : NewSession_tables c fm tnow Tables.empty = some s) : Inv s := by
  rw [newSession_tables_tie] at h
  split at h
  · cases h
  · cases h; exact Lemmas.Tables.inv_init c tnow _ _

/-! ### the reviewed lists -/

theorem sessLife_translated_reviewed : sessLifeTranslated =
    ["Session_Close", "NewSession_go0", "NewSession_go1", "NewSession_tables"] := by decide

theorem sessLife_untranslated_reviewed : sessLifeUntranslated = [] := by decide

theorem sessLife_ignored_reviewed : sessLifeIgnored = [
  "NewSession_go0: log: Logger.Msg(\"fatal failure to receive ip packets\").Duration(\"duration\", monitorNICFrequency…",
  "NewSession_go0: log: if Logger.IsDebug() { Logger.Msg(\"nic monitoring goroutine ended\").Write() }",
  "NewSession_go1: log: if Logger.IsDebug() { Logger.Msg(\"minute check\").Write() }",
  "NewSession_go1: log: Logger.Msg(\"session minute loop goroutine ended\").Write()",
  "NewSession_tables: lock: host.MACEntry.Row.Lock()",
  "NewSession_tables: lock: host.MACEntry.Row.Unlock()",
  "NewSession_tables: lock: host.MACEntry.Row.Lock()",
  "NewSession_tables: lock: host.MACEntry.Row.Unlock()"] := rfl

theorem sessLife_callees_accounted : sessLifeCallees = [
  "Session.findOrCreateHostWithLock (regenerated: Gen.Tables, tied by Props/C04TablesTie.findOrCreateHost_tie)",
  "go Session.purge",
  "syscall.Kill(os.Getpid(), syscall.SIGTERM)"] := rfl

end PV.Props.C04LifeTie
