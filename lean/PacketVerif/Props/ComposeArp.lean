/-
  Composition theorems Parse ∘ ARP handler (C13 over RAW frames): which frame bytes are which event of
  the ARP hunt machine, by the independent reference reading `Spec.ArpWire` (RFC 826 / 894 / 5227), and
  the C13 statements over histories of raw frames and API calls.

  `Model.ArpFrame.arpEventOf` = the packet loop (`Session.Parse`, drop on error, dispatch on
  `PayloadARP`) + the classification part of `arp_spoofer.ProcessPacket`, built from `Model.parse` and
  `Model.Ndp.arpClassify`; lemmas in `Lemmas/ComposeArp.lean`.

  Remarks (what the code checks and what it does NOT check) – all visible in `decodeArpFrame` /
  `arpEventRef`:
  * only untagged Ethernet II: an 802.1Q / 802.1ad tagged ARP packet is never handled (EtherType at
    offset 12 must be 0x0806); a frame whose Ethernet source has the group bit is never handled;
  * htype 1, ptype 0x0800, hlen 6, plen 4 are required; trailing bytes are ignored;
  * link-local (169.254/16) sender or target protocol address: ignored;
  * the Ethernet source is NOT compared with the sender hardware address, the target hardware address
    and the Ethernet destination are not looked at; frames sent by the host itself are not filtered
    here (the library's example loop does that before Parse);
  * request with sender IP = target IP is an announcement even when both are 0.0.0.0.
-/
import PacketVerif.Lemmas.ComposeArp
import PacketVerif.Props.C13
namespace PV.Props.ComposeArp
open PV PV.Model PV.Model.ArpFrame PV.Lemmas.ComposeArp
open PV.Spec (at_ u16 field)
open PV.Spec.ArpWire

/-! ### 1. which bytes are which decision -/

/-- **The handler's decision about a raw frame is the reference reading's.**  For every configuration,
    DHCP-offer table and frame: Parse + dispatch + `arp.ProcessPacket`'s classification never panic, and
    the event of the hunt machine they amount to is `arpEventRef`: computed from `decodeArpFrame`
    (RFC 826 layout at absolute offsets) and `kindOf` (RFC 5227 probe / announcement), for frames with an
    individual Ethernet source. -/
theorem arp_frame_decision_eq_reference (c : ArpFrame.Cfg) (offer : Bytes → Option Bytes) (p : Bytes) :
    arpEventOf c offer p = .ok (arpEventRef c offer p) :=
  arpEventOf_ref c offer p

/-- byte-level description of "a well-formed Ethernet + ARP request of sender hardware address `m` for
    the router's address, received in a frame with Ethernet source `e`" -/
def IsRouterRequest (c : ArpFrame.Cfg) (p : Bytes) (m e : Bytes) : Prop :=
  srcIndividual p = true ∧ ∃ a, decodeArpFrame p = some a ∧ Spec.ArpWire.kindOf a = .request ∧
    a.sha = m ∧ a.tpa = c.routerIP ∧ e = field p 6 6

/-- **(a)** the frame is the request-for-the-router event of ARP sender `m` iff its bytes are a
    well-formed Ethernet + ARP request whose target protocol address is the router's and whose sender
    hardware address is `m` -/
theorem request_for_router_iff (c : ArpFrame.Cfg) (offer : Bytes → Option Bytes) (p m e : Bytes) :
    arpEventOf c offer p = .ok (some (.rxRequest e m true)) ↔ IsRouterRequest c p m e := by
  rw [arpEventOf_ref, Outcome.ok.injEq]
  unfold arpEventRef IsRouterRequest
  by_cases hu : srcIndividual p = true
  · rw [if_pos hu]
    cases hd : decodeArpFrame p with
    | none =>
      constructor
      · intro h; cases h
      · rintro ⟨_, a, ha, _⟩; cases ha
    | some a =>
      have other : ∀ k, Spec.ArpWire.kindOf a = k → k ≠ .request →
          ¬ ∃ a', some a = some a' ∧ Spec.ArpWire.kindOf a' = .request ∧ a'.sha = m ∧ a'.tpa = c.routerIP ∧ e = field p 6 6 := by
        rintro k hk hne ⟨a', ha', hk', _⟩
        cases ha'; rw [hk] at hk'; exact hne hk'
      cases hk : Spec.ArpWire.kindOf a with
      | request =>
        simp only [hk]
        constructor
        · intro h
          injection h with h
          injection h with h1 h2 h3
          exact ⟨hu, a, rfl, hk, h2, eq_of_beq h3, h1.symm⟩
        · rintro ⟨_, a', ha', _, hm, ht, he⟩
          cases ha'; subst hm; subst he; rw [ht]; simp
      | probe =>
        simp only [hk]
        exact ⟨fun h => (by cases h), fun h => absurd h.2 (other _ hk (by simp))⟩
      | announcement =>
        simp only [hk]
        exact ⟨fun h => (by cases h), fun h => absurd h.2 (other _ hk (by simp))⟩
      | reply =>
        simp only [hk]
        exact ⟨fun h => (by cases h), fun h => absurd h.2 (other _ hk (by simp))⟩
      | ignored =>
        simp only [hk]
        exact ⟨fun h => (by cases h), fun h => absurd h.2 (other _ hk (by simp))⟩
  · rw [if_neg hu]
    exact ⟨fun h => (by cases h), fun h => absurd h.1 hu⟩

/-- the same in explicit offsets -/
theorem isRouterRequest_bytes (c : ArpFrame.Cfg) (p m e : Bytes) :
    IsRouterRequest c p m e ↔
      (at_ p 6 % 2 = 0 ∧ 42 ≤ p.length ∧ u16 p 12 = 0x0806 ∧ u16 p 14 = 1 ∧ u16 p 16 = 0x0800 ∧ at_ p 18 = 6 ∧
       at_ p 19 = 4 ∧ u16 p 20 = 1 ∧ linkLocal4 (field p 28 4) = false ∧ linkLocal4 (field p 38 4) = false ∧
       field p 28 4 ≠ field p 38 4 ∧ field p 28 4 ≠ [0, 0, 0, 0] ∧
       field p 22 6 = m ∧ field p 38 4 = c.routerIP ∧ e = field p 6 6) := by
  unfold IsRouterRequest srcIndividual decodeArpFrame
  constructor
  · rintro ⟨hu, a, hd, hk, hm, ht, he⟩
    have hu' : at_ p 6 % 2 = 0 := by simpa using hu
    by_cases h42 : p.length < 42
    · rw [if_pos h42] at hd; cases hd
    rw [if_neg h42] at hd
    by_cases het : u16 p 12 ≠ 0x0806
    · rw [if_pos het] at hd; cases hd
    rw [if_neg het] at hd
    by_cases hv : u16 p 14 ≠ 1 ∨ u16 p 16 ≠ 0x0800 ∨ at_ p 18 ≠ 6 ∨ at_ p 19 ≠ 4
    · rw [if_pos hv] at hd; cases hd
    rw [if_neg hv] at hd
    cases hd
    unfold Spec.ArpWire.kindOf at hk
    simp only [] at hk hm ht
    by_cases c5 : (linkLocal4 (field p 28 4) || linkLocal4 (field p 38 4)) = true
    · rw [if_pos c5] at hk; cases hk
    rw [if_neg c5] at hk
    by_cases c6 : u16 p 20 = 2
    · rw [if_pos c6] at hk; cases hk
    rw [if_neg c6] at hk
    by_cases c7 : u16 p 20 = 1
    · rw [if_pos c7] at hk
      by_cases c8 : field p 28 4 = field p 38 4
      · rw [if_pos c8] at hk; cases hk
      rw [if_neg c8] at hk
      by_cases c9 : field p 28 4 = [0, 0, 0, 0]
      · rw [if_pos c9] at hk; cases hk
      simp only [Bool.or_eq_true, not_or, Bool.not_eq_true] at c5
      exact ⟨hu', by omega, by omega, by omega, by omega, by omega, by omega, c7, c5.1, c5.2, c8, c9, hm, ht, he⟩
    · rw [if_neg c7] at hk; cases hk
  · rintro ⟨hu, h42, het, h1, h2, h3, h4, hop, l1, l2, hne, hnz, hm, ht, he⟩
    refine ⟨by simpa using hu, { op := u16 p 20, sha := field p 22 6, spa := field p 28 4, tha := field p 32 6, tpa := field p 38 4 }, ?_, ?_, hm, ht, he⟩
    · rw [if_neg (by omega), if_neg (by omega), if_neg (by omega)]
    · unfold Spec.ArpWire.kindOf
      simp only []
      rw [if_neg (by simp [l1, l2]), if_neg (by omega), if_pos hop, if_neg hne, if_neg hnz]

/-- the probe event, likewise: a well-formed ARP probe (sender protocol address 0.0.0.0, RFC 5227) of
    sender hardware address `m` for address `tip`; the reject rule is then evaluated on the session's
    DHCP offer for `m` and on `HomeLAN4.Contains(tip)` -/
theorem probe_iff (c : ArpFrame.Cfg) (offer : Bytes → Option Bytes) (p m tip : Bytes) (o : Option Bytes) (l : Bool) :
    arpEventOf c offer p = .ok (some (.rxProbe m o tip l)) ↔
      (srcIndividual p = true ∧ ∃ a, decodeArpFrame p = some a ∧ Spec.ArpWire.kindOf a = .probe ∧ a.sha = m ∧
        a.tpa = tip ∧ o = offer m ∧ l = Netip.prefixContains c.parse.lanAddr c.parse.lanBits tip) := by
  rw [arpEventOf_ref, Outcome.ok.injEq]
  unfold arpEventRef
  by_cases hu : srcIndividual p = true
  · rw [if_pos hu]
    cases hd : decodeArpFrame p with
    | none =>
      constructor
      · intro h; cases h
      · rintro ⟨_, a, ha, _⟩; cases ha
    | some a =>
      have other : ∀ k, Spec.ArpWire.kindOf a = k → k ≠ .probe →
          ¬ ∃ a', some a = some a' ∧ Spec.ArpWire.kindOf a' = .probe ∧ a'.sha = m ∧ a'.tpa = tip ∧ o = offer m ∧
            l = Netip.prefixContains c.parse.lanAddr c.parse.lanBits tip := by
        rintro k hk hne ⟨a', ha', hk', _⟩
        cases ha'; rw [hk] at hk'; exact hne hk'
      cases hk : Spec.ArpWire.kindOf a with
      | probe =>
        simp only [hk]
        constructor
        · intro h
          injection h with h
          injection h with h1 h2 h3 h4
          subst h1; subst h3
          exact ⟨hu, a, rfl, hk, rfl, rfl, h2.symm, h4.symm⟩
        · rintro ⟨_, a', ha', _, hm, ht, ho, hl⟩
          cases ha'; subst hm; subst ht; subst ho; subst hl; rfl
      | request =>
        simp only [hk]
        exact ⟨fun h => (by cases h), fun h => absurd h.2 (other _ hk (by simp))⟩
      | announcement =>
        simp only [hk]
        exact ⟨fun h => (by cases h), fun h => absurd h.2 (other _ hk (by simp))⟩
      | reply =>
        simp only [hk]
        exact ⟨fun h => (by cases h), fun h => absurd h.2 (other _ hk (by simp))⟩
      | ignored =>
        simp only [hk]
        exact ⟨fun h => (by cases h), fun h => absurd h.2 (other _ hk (by simp))⟩
  · rw [if_neg hu]
    exact ⟨fun h => (by cases h), fun h => absurd h.1 hu⟩

/-- Parse, the dispatch and the handler's classification never panic or hang on any frame -/
theorem arp_frame_total (c : ArpFrame.Cfg) (offer : Bytes → Option Bytes) (p : Bytes) :
    arpEventOf c offer p ≠ .panic ∧ arpEventOf c offer p ≠ .hang := by
  rw [arpEventOf_ref]; exact ⟨by simp, by simp⟩

/-! ### 2. frames that are no-ops -/

/-- **malformed / truncated / tagged / non-ARP frames are no-ops**: a frame that is not a well-formed
    untagged Ethernet + ARP packet with an individual source address is the no-op event of the machine –
    handler state and outputs unchanged, whatever the state -/
theorem non_arp_frame_is_noop (c : ArpFrame.Cfg) (offer : Bytes → Option Bytes) (p : Bytes)
    (h : decodeArpFrame p = none ∨ srcIndividual p = false) (s : ArpHunt.State) :
    arpEventOf c offer p = .ok none ∧ arpEvent c offer p = .rxOther ∧
      ArpHunt.step s (arpEvent c offer p) = some (s, .none) := by
  have hr : arpEventRef c offer p = none := by
    unfold arpEventRef
    rcases h with h | h
    · rw [h]; split <;> rfl
    · rw [h]; rfl
  have he : arpEvent c offer p = .rxOther := by unfold arpEvent; rw [arpEventOf_ref, hr]
  exact ⟨by rw [arpEventOf_ref, hr], he, by rw [he]; rfl⟩

theorem arpEventRef_isRx (c : ArpFrame.Cfg) (offer : Bytes → Option Bytes) (p : Bytes) (e : ArpHunt.Event)
    (h : arpEventRef c offer p = some e) : isRx e = true := by
  unfold arpEventRef at h
  by_cases hu : srcIndividual p = true
  · rw [if_pos hu] at h
    cases hd : decodeArpFrame p with
    | none => rw [hd] at h; cases h
    | some a =>
      rw [hd] at h
      simp only [] at h
      cases hk : Spec.ArpWire.kindOf a <;> (rw [hk] at h; simp only [] at h; first | (cases h; rfl) | cases h)
  · rw [if_neg hu] at h; cases h

/-- a frame only ever becomes a receive event of the machine (never an API call or a loop step) -/
theorem arpEvent_isRx (c : ArpFrame.Cfg) (offer : Bytes → Option Bytes) (p : Bytes) :
    isRx (arpEvent c offer p) = true := by
  unfold arpEvent
  rw [arpEventOf_ref]
  cases h : arpEventRef c offer p with
  | none => rfl
  | some e => exact arpEventRef_isRx c offer p e h

/-- `arpEvent` is the event of `arpEventOf` when there is one -/
theorem arpEvent_eq (c : ArpFrame.Cfg) (offer : Bytes → Option Bytes) (p : Bytes) (e : ArpHunt.Event)
    (hne : e ≠ .rxOther) (h : arpEvent c offer p = e) : arpEventOf c offer p = .ok (some e) := by
  unfold arpEvent at h
  cases ho : arpEventOf c offer p with
  | ok x =>
    rw [ho] at h
    cases x with
    | none => exact absurd h.symm hne
    | some ev => simp only [] at h; rw [h]
  | err x => rw [ho] at h; exact absurd h.symm hne
  | panic => rw [ho] at h; exact absurd h.symm hne
  | hang => rw [ho] at h; exact absurd h.symm hne

/-- **The probe-reject rule on raw frames** (C13's `probe_reject_iff` with its inputs read off the bytes):
    processing frame `p` writes a probe-reject reply to `m` for address `tip` iff `p` is a well-formed ARP
    probe (reference reading: request with sender protocol address 0.0.0.0) of sender hardware address `m`
    for `tip`, the session holds a DHCP offer for `m` (`offer m`, i.e. `MACEntry.IP4Offer` is an IPv4
    address) that differs from `tip`, and `tip` lies in the home LAN prefix of the configuration. -/
theorem probe_reject_frame_iff (c : ArpFrame.Cfg) (offer : Bytes → Option Bytes) (p : Bytes) (s : ArpHunt.State)
    (m tip : Bytes) :
    (∃ s', ArpHunt.step s (arpEvent c offer p) = some (s', .probeReject m tip)) ↔
      (srcIndividual p = true ∧ ∃ a, decodeArpFrame p = some a ∧ Spec.ArpWire.kindOf a = .probe ∧ a.sha = m ∧
        a.tpa = tip ∧ (∃ off, offer m = some off ∧ off ≠ tip) ∧
        Netip.prefixContains c.parse.lanAddr c.parse.lanBits tip = true) := by
  constructor
  · rintro ⟨s', hs⟩
    have hrx := arpEvent_isRx c offer p
    cases he : arpEvent c offer p with
    | rxProbe m' o t l =>
      rw [he] at hs
      simp only [ArpHunt.step] at hs
      split at hs
      · rename_i hrej
        cases hs
        have hof := arpEvent_eq c offer p _ (by simp) he
        obtain ⟨hu, a, hd, hk, hm, ht, ho, hl⟩ := (probe_iff c offer p m tip o l).1 hof
        refine ⟨hu, a, hd, hk, hm, ht, ?_, ?_⟩
        · cases hoo : o with
          | none => rw [hoo] at hrej; simp [ArpHunt.probeRejects] at hrej
          | some off =>
            rw [hoo] at hrej ho
            simp only [ArpHunt.probeRejects, Bool.and_eq_true] at hrej
            exact ⟨off, ho.symm, by simpa using hrej.1⟩
        · cases hoo : o with
          | none => rw [hoo] at hrej; simp [ArpHunt.probeRejects] at hrej
          | some off =>
            rw [hoo] at hrej
            simp only [ArpHunt.probeRejects, Bool.and_eq_true] at hrej
            rw [← hl]; exact hrej.2
      · cases hs
    | rxRequest e x r =>
      rw [he] at hs; simp only [ArpHunt.step] at hs
      split at hs
      · split at hs <;> cases hs
      · cases hs
    | rxOther => rw [he] at hs; simp only [ArpHunt.step] at hs; cases hs
    | startHunt a b => rw [he] at hrx; cases hrx
    | stopHunt a b => rw [he] at hrx; cases hrx
    | close => rw [he] at hrx; cases hrx
    | check i => rw [he] at hrx; cases hrx
    | restore i => rw [he] at hrx; cases hrx
    | forge i => rw [he] at hrx; cases hrx
    | wake i => rw [he] at hrx; cases hrx
    | reply a => rw [he] at hrx; cases hrx
  · rintro ⟨hu, a, hd, hk, hm, ht, ⟨off, hoff, hne⟩, hl⟩
    have hof := (probe_iff c offer p m tip (offer m) (Netip.prefixContains c.parse.lanAddr c.parse.lanBits tip)).2
      ⟨hu, a, hd, hk, hm, ht, rfl, rfl⟩
    have he : arpEvent c offer p = .rxProbe m (offer m) tip (Netip.prefixContains c.parse.lanAddr c.parse.lanBits tip) := by
      unfold arpEvent; rw [hof]
    refine ⟨s, ?_⟩
    rw [he, hoff, hl]
    simp [ArpHunt.step, ArpHunt.probeRejects, hne]

/-- every frame that is not a request for the router from a hunted ARP sender leaves the handler state
    unchanged: replies, announcements, probes (which may be answered with a probe reject), requests for
    other addresses, requests from hosts that are not hunted -/
theorem frame_changes_state_only_for_hunted_router_request (c : ArpFrame.Cfg) (offer : Bytes → Option Bytes)
    (p : Bytes) (s s' : ArpHunt.State) (o : ArpHunt.Out) (hs : ArpHunt.step s (arpEvent c offer p) = some (s', o))
    (hne : s' ≠ s) : ∃ m e, IsRouterRequest c p m e ∧ m ∈ s.hunt ∧ s'.holder = some (.rx m) := by
  have hrx := arpEvent_isRx c offer p
  cases he : arpEvent c offer p with
  | rxRequest e m r =>
    rw [he] at hs
    simp only [ArpHunt.step] at hs
    split at hs
    · split at hs
      · rename_i hc
        cases hs
        have hr : r = true := hc.2
        subst hr
        refine ⟨m, e, ?_, hc.1, rfl⟩
        apply (request_for_router_iff c offer p m e).1
        unfold arpEvent at he
        cases ho : arpEventOf c offer p with
        | ok x =>
          rw [ho] at he
          cases x with
          | none => cases he
          | some ev => simp only [] at he; rw [he]
        | err x => rw [ho] at he; cases he
        | panic => rw [ho] at he; cases he
        | hang => rw [ho] at he; cases he
      · cases hs; exact absurd rfl hne
    · cases hs
  | rxProbe a b c' d =>
    rw [he] at hs; simp only [ArpHunt.step] at hs
    split at hs <;> (cases hs; exact absurd rfl hne)
  | rxOther => rw [he] at hs; simp only [ArpHunt.step] at hs; cases hs; exact absurd rfl hne
  | startHunt a b => rw [he] at hrx; cases hrx
  | stopHunt a b => rw [he] at hrx; cases hrx
  | close => rw [he] at hrx; cases hrx
  | check i => rw [he] at hrx; cases hrx
  | restore i => rw [he] at hrx; cases hrx
  | forge i => rw [he] at hrx; cases hrx
  | wake i => rw [he] at hrx; cases hrx
  | reply a => rw [he] at hrx; cases hrx

/-! ### 3. the C13 statements over histories of raw frames and API calls -/

/-- no accepted StartHunt for `mac` among the API calls of a raw history -/
def NoRestartRaw (mac : Bytes) (ops : List RawEv) : Prop := ∀ op ∈ ops, op ≠ .ev (.startHunt mac true)

theorem noRestart_of_raw (c : ArpFrame.Cfg) (mac : Bytes) (ops : List RawEv) (h : NoRestartRaw mac ops) :
    Lemmas.ArpHunt.NoRestart mac (ops.map (evOf c)) := by
  intro e he
  obtain ⟨op, hop, rfl⟩ := List.mem_map.1 he
  cases op with
  | ev e' => intro hc; exact h _ hop (by rw [show evOf c (.ev e') = e' from rfl] at hc; rw [hc])
  | frame offer p =>
    intro hc
    have := arpEvent_isRx c offer p
    rw [show evOf c (.frame offer p) = arpEvent c offer p from rfl] at hc
    rw [hc] at this; cases this

/-- **After the restoring packet no further forged packet unless hunted again – over raw frames.**  For
    every history of API calls, loop steps and received frames (any bytes): once a restoring request
    to `mac` has been written, no forged announcement or reply is written to `mac` unless a StartHunt
    for it is accepted afterwards – whatever frames arrive (well-formed requests of `mac` for the router
    included). -/
theorem raw_no_forged_after_restore (c : ArpFrame.Cfg) (pre post : List RawEv) (x : RawEv) (mac : Bytes)
    (s : ArpHunt.State) (os : List ArpHunt.Out)
    (hr : runRaw c {} (pre ++ [x] ++ post) = some (s, os))
    (ho : os[pre.length]? = some (.restoring mac)) (hn : NoRestartRaw mac post) :
    ArpHunt.forgedCount mac (os.drop (pre.length + 1)) = 0 := by
  unfold runRaw at hr
  simp only [List.map_append, List.map_cons, List.map_nil] at hr
  have := C13.no_forged_after_restore (pre.map (evOf c)) (post.map (evOf c)) (evOf c x) mac s os hr
    (by simpa using ho) (noRestart_of_raw c mac post hn)
  simpa using this

/-- the same after StopHunt has returned -/
theorem raw_no_forged_after_stop (c : ArpFrame.Cfg) (pre post : List RawEv) (mac ip : Bytes)
    (s : ArpHunt.State) (os : List ArpHunt.Out)
    (hr : runRaw c {} (pre ++ [.ev (.stopHunt mac ip)] ++ post) = some (s, os)) (hn : NoRestartRaw mac post) :
    ArpHunt.forgedCount mac (os.drop (pre.length + 1)) = 0 := by
  unfold runRaw at hr
  simp only [List.map_append, List.map_cons, List.map_nil] at hr
  have := C13.no_forged_after_stop (pre.map (evOf c)) (post.map (evOf c)) mac ip s os hr
    (noRestart_of_raw c mac post hn)
  simpa using this

/-- **(b) A forged reply is written to `m` only if `m` is in the hunt list at that moment and a
    well-formed ARP request of sender hardware address `m` for the router's address was received** –
    over any history of raw frames and API calls (received packets appear only as bytes). -/
theorem raw_forged_reply_only_to_hunted_asker (c : ArpFrame.Cfg) (ops : List RawEv) (m : Bytes)
    (s s' : ArpHunt.State) (os : List ArpHunt.Out) (o : ArpHunt.Out)
    (hw : ∀ op ∈ ops, op.wf = true)
    (hr : runRaw c {} ops = some (s, os)) (hs : ArpHunt.step s (.reply m) = some (s', o)) :
    o = .spoofReply m ∧ m ∈ s.hunt ∧
      ∃ offer p e, RawEv.frame offer p ∈ ops ∧ IsRouterRequest c p m e := by
  unfold runRaw at hr
  obtain ⟨h1, h2, _⟩ := (C13.forged_only_to_hunted _ s os hr).2 m s' o hs
  refine ⟨h1, h2, ?_⟩
  have hh : s.holder = some (.rx m) := by
    simp only [ArpHunt.step] at hs
    split at hs
    · assumption
    · cases hs
  rcases holder_rx_origin m _ {} s os hr hh with h0 | ⟨e, he⟩
  · cases h0
  · obtain ⟨op, hop, hev⟩ := List.mem_map.1 he
    cases op with
    | ev e' =>
      have := hw _ hop
      rw [show evOf c (.ev e') = e' from rfl] at hev
      subst hev
      cases this
    | frame offer p =>
      refine ⟨offer, p, e, hop, ?_⟩
      apply (request_for_router_iff c offer p m e).1
      have hev' : arpEvent c offer p = .rxRequest e m true := hev
      unfold arpEvent at hev'
      cases ho : arpEventOf c offer p with
      | ok x =>
        rw [ho] at hev'
        cases x with
        | none => cases hev'
        | some ev => simp only [] at hev'; rw [hev']
      | err x => rw [ho] at hev'; cases hev'
      | panic => rw [ho] at hev'; cases hev'
      | hang => rw [ho] at hev'; cases hev'

/-- a forged announcement is written by a loop only to its own MAC while that MAC is in the hunt list
    and the handler is open – on every raw history (frames cannot start, stop or redirect a loop) -/
theorem raw_forged_announcement_only_while_hunted (c : ArpFrame.Cfg) (ops : List RawEv) (i : Nat)
    (s s' : ArpHunt.State) (os : List ArpHunt.Out) (o : ArpHunt.Out)
    (hr : runRaw c {} ops = some (s, os)) (hs : ArpHunt.step s (.forge i) = some (s', o)) :
    o = .forged (s.loops i).mac ∧ (s.loops i).mac ∈ s.hunt ∧ s.closed = false :=
  let ⟨a, b, c', _⟩ := (C13.forged_only_to_hunted _ s os hr).1 i s' o hs
  ⟨a, b, c'⟩

/-! ### non-vacuity -/

def cfg0 : ArpFrame.Cfg :=
  { parse := { hostMAC := [2, 0, 0, 0, 0, 1], routerMAC := [2, 0, 0, 0, 0, 0x11], lanAddr := [192, 168, 0, 0], lanBits := 24 },
    routerIP := [192, 168, 0, 11] }

def macA : Bytes := [2, 0xaa, 0, 0, 0, 1]

/-- who-has 192.168.0.11 tell 192.168.0.100, from macA (60 bytes with Ethernet padding) -/
def reqFrame : Bytes :=
  [0xff, 0xff, 0xff, 0xff, 0xff, 0xff] ++ macA ++ [0x08, 0x06] ++ [0, 1, 8, 0, 6, 4, 0, 1] ++ macA ++ [192, 168, 0, 100] ++
    [0, 0, 0, 0, 0, 0] ++ [192, 168, 0, 11] ++ List.replicate 18 0

example : arpEventOf cfg0 (fun _ => none) reqFrame = .ok (some (.rxRequest macA macA true)) := by decide
example : IsRouterRequest cfg0 reqFrame macA macA :=
  (request_for_router_iff cfg0 (fun _ => none) reqFrame macA macA).1 (by decide)

/-- the same packet behind an 802.1Q tag, truncated by one byte of ARP, with hlen 8, or from a group
    source address: no decision -/
example : arpEventOf cfg0 (fun _ => none)
    (reqFrame.take 12 ++ [0x81, 0x00, 0x00, 0x05] ++ reqFrame.drop 12) = .ok none := by decide
example : arpEventOf cfg0 (fun _ => none) (reqFrame.take 41) = .ok none := by decide
example : arpEventOf cfg0 (fun _ => none) (reqFrame.take 18 ++ [8] ++ reqFrame.drop 19) = .ok none := by decide
example : arpEventOf cfg0 (fun _ => none) (reqFrame.take 6 ++ [3] ++ reqFrame.drop 7) = .ok none := by decide

/-- sender hardware address ≠ Ethernet source (relayed by a bridge): keyed on the ARP sender -/
example : arpEventOf cfg0 (fun _ => none) (reqFrame.take 6 ++ [2, 0xbb, 0, 0, 0, 9] ++ reqFrame.drop 12) =
    .ok (some (.rxRequest [2, 0xbb, 0, 0, 0, 9] macA true)) := by decide

/-- a raw history: StartHunt, the loop's first announcement, the request frame, the forged reply,
    StopHunt, the restoring request, the request frame again – no reply any more -/
example : (runRaw cfg0 {} [.ev (.startHunt macA true), .ev (.check 0), .ev (.forge 0), .frame (fun _ => none) reqFrame,
      .ev (.reply macA), .ev (.stopHunt macA []), .ev (.wake 0), .ev (.check 0), .ev (.restore 0),
      .frame (fun _ => none) reqFrame]).map (·.2) =
    some [.startOk, .none, .forged macA, .none, .spoofReply macA, .none, .none, .none, .restoring macA, .none] := by
  decide
example : runRaw cfg0 {} [.ev (.startHunt macA true), .ev (.stopHunt macA []), .frame (fun _ => none) reqFrame,
    .ev (.reply macA)] = none := by decide

end PV.Props.ComposeArp
