/-
  Composition on the REGENERATED side (C04, C05, C06, C16): the Go body of `Session.Parse` (Gen/ParseGen.lean,
  F11) followed by the Go bodies of `findOrCreateHostWithLock` and `checkOnlineTransition` (Gen/TablesGen.lean,
  F16) on the host address Parse hands over is `Model.Tables.parse` — the `frame` step the C04–C06 theorems
  are about — on the frame event read off the raw bytes.

  Until now the seam was closed on the model side only (`Props/Compose.parse_bytes_eq`: `Model.parse` feeding
  `Model.Tables`), and the two translators met at a convention: bP's translator turns
      frame.Host, _ = S.findOrCreateHostWithLock(a)                       into  `hostEv := some (a.MAC, a.IP)`
      if S.checkOnlineTransition(frame.Host) { frame.flags = frame.markOnlineTransition() }   into a listed, ignored statement
  (both pinned with their switch-case path by `C01ParseTie.parse_ignored_reviewed`), bH's translator turns the
  two callees into heap-passing functions.  `genParseTables` below is that convention written out once — the
  call of the first callee on the handed-over address, the call of the second on the pointer the first
  returned, `flags | 1` when it reports a transition — and `parse_tables_tie` proves that the whole
  pipeline of regenerated bodies equals the model step, for every configuration, every session state
  satisfying the C05 invariant (proved for every reachable state) and every byte string.
  `packet_tables_tie` continues with the regenerated `Session.Notify` on the frame fields the regenerated Parse
  stored: Parse + Notify over regenerated bodies = `Model.Tables.packet`, the step of the C06 histories.
-/
import PacketVerif.Props.C01ParseTie
import PacketVerif.Props.C04TablesTie
import PacketVerif.Props.Compose
import PacketVerif.Props.C05
import PacketVerif.Props.C04
namespace PV.Props.ComposeGenTables
open PV PV.Model PV.Lemmas.Compose PV.Spec

/-- what the table side of the regenerated pipeline returns: the state, `frame.Host`, `frame.flags`;
    `none` = a Go panic inside `findOrCreateHostWithLock` (`printHostTable` on a corrupt table) -/
abbrev GenTab := Option (Tables.Sess × Option Nat × Nat)

/-- the table work of `Parse` on the address the regenerated Parse body hands over, through the regenerated
    table functions: `frame.Host, _ = findOrCreateHostWithLock(addr)`, then
    `if checkOnlineTransition(frame.Host) { frame.flags = frame.markOnlineTransition() }`
    (`markOnlineTransition` is `flags | 1`; the frame's flags are zero when Parse starts) -/
def genTables (fm : Tables.MAC → String) (now : Int) (s : Tables.Sess) :
    Option (Tables.MAC × Tables.IP) → GenTab
  | none => some (s, none, 0)
  | some (mac, ip) =>
    match Gen.Tables.Session_findOrCreateHostWithLock fm now s mac ip with
    | none => none
    | some (s1, host, _found) =>
      let r := Gen.Tables.Session_checkOnlineTransition s1 host
      some (r.1, some host, if r.2 then 0 ||| 1 else 0)

/-- **`Session.Parse` as regenerated**: the regenerated Parse body on the raw bytes, then the regenerated
    table functions on the (MAC, IP) it hands over (`ipOfBytes`: the 4 / 16 address bytes as the table
    machine's `IP`) -/
def genParseTables (fm : Tables.MAC → String) (pc : Model.Cfg) (s : Tables.Sess) (p : Bytes) (now : Int) :
    Outcome (Model.ParseRes × GenTab) :=
  match Gen.genParse pc p with
  | .ok r => .ok (r, genTables fm now s (hostEvOf r))
  | .err e => .err e
  | .panic => .panic
  | .hang => .hang

/-- how a `Tables.ParseRes` reads in the vocabulary of the regenerated side -/
def viewOf (t : Tables.ParseRes) : GenTab :=
  if t.panic then none else some (t.s, t.host, if t.flag then 1 else 0)

/-- the manufacturer string the model step is given: `FindManufacturer` of the MAC handed over -/
def manufOf (fm : Tables.MAC → String) (he : Option (Tables.MAC × Tables.IP)) : String :=
  match he with
  | some (mac, _) => fm mac
  | none => ""

/-- the table half: regenerated `findOrCreateHostWithLock` + `checkOnlineTransition` on a hand-over is the
    model's `applyHostEv` (the body of `Tables.parse` after its creation decision) -/
theorem genTables_tie {s : Tables.Sess} (hi : Inv s) (fm : Tables.MAC → String) (now : Int)
    (he : Option (Tables.MAC × Tables.IP)) :
    genTables fm now s he = viewOf (applyHostEv s he now (manufOf fm he)) := by
  cases he with
  | none => rfl
  | some mi =>
    obtain ⟨mac, ip⟩ := mi
    have hfoc := C04TablesTie.findOrCreateHost_tie hi fm now mac ip
    have hi1 := Lemmas.Tables.inv_findOrCreateHost hi mac ip now (fm mac)
    show genTables fm now s (some (mac, ip)) = viewOf (applyHostEv s (some (mac, ip)) now (fm mac))
    simp only [genTables, applyHostEv]
    rcases Bool.eq_false_or_eq_true (Tables.findOrCreateHost s mac ip now (fm mac)).panic with hp | hp
    · simp only [hp, if_true] at hfoc
      rw [hfoc, if_pos hp]; simp [viewOf]
    · simp only [hp, Bool.false_eq_true, if_false] at hfoc
      rw [hfoc, if_neg (by rw [hp]; exact Bool.false_ne_true)]
      simp only []
      rw [C04TablesTie.checkOnlineTransition_tie hi1]
      cases hh : Tables.hostById (Tables.findOrCreateHost s mac ip now (fm mac)).s
          (Tables.findOrCreateHost s mac ip now (fm mac)).host with
      | none => simp [viewOf]
      | some h =>
        cases ho : h.online <;> simp [viewOf, ho]

/-- **Parse ∘ tables on the regenerated side.**  For every configuration, every session state satisfying
    the C05 invariant, every `FindManufacturer`, every instant and every byte string: the regenerated Parse
    body never panics, and the regenerated table functions run on the address it hands over leave the state,
    `frame.Host`, the online-transition flag and the panic behaviour of `Model.Tables.parse` on the frame
    event `frameEvOf p` read off the bytes. -/
theorem parse_tables_tie (pc : Model.Cfg) (base : Tables.Cfg) {s : Tables.Sess} (hi : Inv s)
    (fm : Tables.MAC → String) (p : Bytes) (now : Int) :
    ∃ r, Gen.genParse pc p = .ok r ∧
      genParseTables fm pc s p now =
        .ok (r, viewOf (Tables.parse (cfgOf pc base) s (frameEvOf p) now
                  (manufOf fm (Tables.hostEvent (cfgOf pc base) (frameEvOf p))))) := by
  obtain ⟨r, hr, -⟩ := C02.parse_eq_spec pc p
  have hg : Gen.genParse pc p = .ok r := by rw [C01ParseTie.parse_tie]; exact hr
  refine ⟨r, hg, ?_⟩
  unfold genParseTables
  rw [hg]
  show Outcome.ok (r, genTables fm now s (hostEvOf r)) = _
  rw [genTables_tie hi, tables_parse_eq]
  simp only [hostEvOf, Compose.parse_hostEv_eq_hostEvent pc base p r hr]

/-- the same, as a step of the table machine: the state after the regenerated pipeline is the state after
    `Tables.step … (.frame …)`, and the pipeline panics exactly when the step reports a panic (which
    `Props.C05.step_no_panic` excludes under the invariant) -/
theorem parse_tables_step (pc : Model.Cfg) (base : Tables.Cfg) {s : Tables.Sess} (hi : Inv s)
    (fm : Tables.MAC → String) (p : Bytes) (now : Int) :
    ∃ r s' host flags, genParseTables fm pc s p now = .ok (r, some (s', host, flags)) ∧
      s' = (Tables.step (cfgOf pc base) s (.frame (frameEvOf p) now
              (manufOf fm (Tables.hostEvent (cfgOf pc base) (frameEvOf p))))).1 ∧
      Inv s' := by
  obtain ⟨r, -, h⟩ := parse_tables_tie pc base hi fm p now
  generalize hm : manufOf fm (Tables.hostEvent (cfgOf pc base) (frameEvOf p)) = manuf at h
  have hnp := Props.C05.step_no_panic (cfgOf pc base) s (.frame (frameEvOf p) now manuf) hi
  have hinv := Props.C05.inv_step (cfgOf pc base) s (.frame (frameEvOf p) now manuf) hi
  simp only [Tables.step] at hnp hinv ⊢
  generalize Tables.parse (cfgOf pc base) s (frameEvOf p) now manuf = t at h hnp hinv
  refine ⟨r, t.s, t.host, if t.flag then 1 else 0, ?_, rfl, hinv⟩
  rw [h]; simp [viewOf, hnp]

/-! ### … and `Notify(frame)` (C06) -/

/-- `Parse`, then `Notify(frame)`, over regenerated bodies: the regenerated `Session.Notify` (F16) is given the frame
    fields the regenerated Parse stored (`PayloadID`, `SrcAddr`) and the `Host` / `flags` the table functions left.
    `none` = the `printHostTable` panic inside Parse.  (As in `Model.Tables.packet`, the C06 premise "Notify after every
    Parse" is built in: the frame's error value is not looked at.) -/
def genPacket (fm : Tables.MAC → String) (ce : TablesGo.ChanEnv) (pc : Model.Cfg) (s : Tables.Sess) (p : Bytes)
    (now : Int) : Outcome (Option (Tables.Sess × List Tables.Notif)) :=
  match genParseTables fm pc s p now with
  | .ok (r, some (s1, host, flags)) =>
    .ok (some (Gen.Tables.Session_Notify ce s1 [] host (r.frame.pid : Int) r.frame.srcMAC (ipOfBytes r.frame.srcIP) flags))
  | .ok (_, none) => .ok none
  | .err e => .err e
  | .panic => .panic
  | .hang => .hang

/-- **Parse + Notify on the regenerated side = `Model.Tables.packet`** (the step of the C06 histories, no name learnt
    in between): same state, same notifications in the same order — for every configuration, every state with the
    C05 invariant, an open session whose channel has room (the C06 premise), every byte string. -/
theorem packet_tables_tie (pc : Model.Cfg) (base : Tables.Cfg) {s : Tables.Sess} (hi : Inv s)
    (fm : Tables.MAC → String) {ce : TablesGo.ChanEnv} (hc : ce.closed = false) (hl : ce.len < ce.cap)
    (p : Bytes) (now : Int) :
    genPacket fm ce pc s p now =
      .ok (some (Tables.packet (cfgOf pc base) s (frameEvOf p) now
        (manufOf fm (Tables.hostEvent (cfgOf pc base) (frameEvOf p))) none)) := by
  obtain ⟨r, hg, h⟩ := parse_tables_tie pc base hi fm p now
  have hr : parse pc p = .ok r := by rw [← C01ParseTie.parse_tie]; exact hg
  obtain ⟨hd, hm⟩ := Compose.parse_notify_inputs pc p r hr
  generalize hmf : manufOf fm (Tables.hostEvent (cfgOf pc base) (frameEvOf p)) = manuf at h ⊢
  have hnp := Props.C05.step_no_panic (cfgOf pc base) s (.frame (frameEvOf p) now manuf) hi
  have hinv := Props.C05.inv_step (cfgOf pc base) s (.frame (frameEvOf p) now manuf) hi
  simp only [Tables.step] at hnp hinv
  unfold genPacket Tables.packet
  rw [h]
  generalize Tables.parse (cfgOf pc base) s (frameEvOf p) now manuf = t at hnp hinv ⊢
  simp only [viewOf, hnp, Bool.false_eq_true, if_false]
  rw [C04TablesTie.Notify_tie hinv hc hl]
  have hpid : (((r.frame.pid : Nat) : Int) == 10) = (r.frame.pid == Pid.dhcp4) := by
    show (((r.frame.pid : Nat) : Int) == 10) = (r.frame.pid == 10)
    by_cases h10 : r.frame.pid = 10
    · rw [h10]; rfl
    · have hne : ¬ ((r.frame.pid : Nat) : Int) = 10 := by omega
      rw [beq_eq_false_iff_ne.mpr hne, beq_eq_false_iff_ne.mpr h10]
  have hfl : ((if t.flag = true then 1 else 0 : Nat) &&& 1 == 1) = t.flag := by
    cases t.flag <;> decide
  rw [hpid, hd, hm, hfl]
  cases t.host <;> simp

/-! ### histories of raw frames over regenerated bodies (C04, C05) -/

/-- a step of a raw history: a received frame (bytes, arrival time) or any other API call -/
inductive GenOp where
  | frame (p : Bytes) (now : Int)
  | api (op : Tables.Op)

/-- one step: a frame goes through the regenerated Parse and the regenerated table functions (`none` = Go panic);
    the other calls are the model's steps (their bodies are tied one by one in `C04TablesTie`) -/
def genStep (fm : Tables.MAC → String) (pc : Model.Cfg) (tc : Tables.Cfg) (s : Tables.Sess) : GenOp → Option Tables.Sess
  | .frame p now =>
    match genParseTables fm pc s p now with
    | .ok (_, some (s', _, _)) => some s'
    | _ => none
  | .api op => some (Tables.step tc s op).1

def genRun (fm : Tables.MAC → String) (pc : Model.Cfg) (tc : Tables.Cfg) : Tables.Sess → List GenOp → Option Tables.Sess
  | s, [] => some s
  | s, op :: ops => (genStep fm pc tc s op).bind (fun s' => genRun fm pc tc s' ops)

/-- the abstract operation a raw step is -/
def opOfGen (fm : Tables.MAC → String) (pc : Model.Cfg) (base : Tables.Cfg) : GenOp → Tables.Op
  | .frame p now => .frame (frameEvOf p) now (manufOf fm (Tables.hostEvent (cfgOf pc base) (frameEvOf p)))
  | .api op => op

/-- **a history of raw frames through the regenerated bodies is the abstract history of its frame events**: for every
    history of any length from a state with the C05 invariant, no step panics, the invariant holds throughout, and
    the final state is `Tables.run` on the frame events read off the bytes — the run `C04.run_refines` /
    `Compose.run_refines_bytes` and `C05.inv_reachable` are about. -/
theorem run_tables_tie (pc : Model.Cfg) (base : Tables.Cfg) (fm : Tables.MAC → String) (ops : List GenOp)
    {s : Tables.Sess} (hi : Inv s) :
    genRun fm pc (cfgOf pc base) s ops = some (Tables.run (cfgOf pc base) s (ops.map (opOfGen fm pc base))) ∧
      Inv (Tables.run (cfgOf pc base) s (ops.map (opOfGen fm pc base))) := by
  induction ops generalizing s with
  | nil => exact ⟨rfl, hi⟩
  | cons op rest ih =>
    simp only [genRun, Tables.run, List.map_cons, List.foldl_cons] at ih ⊢
    cases op with
    | api o =>
      have hi' := Props.C05.inv_step (cfgOf pc base) s o hi
      simp only [genStep, opOfGen, Option.bind]
      exact ih hi'
    | frame p now =>
      obtain ⟨r, s', host, flags, hg, hs', hi'⟩ := parse_tables_step pc base hi fm p now
      simp only [genStep, hg, opOfGen, Option.bind]
      rw [← hs']
      exact ih hi'

/-- **C04's main theorem over regenerated bodies**: from the state after `NewSession`, after any history of received
    byte strings (each through the regenerated Parse and the regenerated table functions) and API calls, no step
    panics and the tracked triples are those of the reference model `Spec.run` on the frame events read off the
    bytes.  Side condition (C04's): our MAC is not the router's. -/
theorem run_refines_gen (pc : Model.Cfg) (base : Tables.Cfg) (hc : pc.hostMAC ≠ pc.routerMAC)
    (fm : Tables.MAC → String) (now : Int) (mh mr : String) (ops : List GenOp) :
    ∃ s', genRun fm pc (cfgOf pc base) (Tables.init (cfgOf pc base) now mh mr) ops = some s' ∧
      Lemmas.Tables.abs s' = Spec.run (cfgOf pc base) (Spec.init (cfgOf pc base) now) (ops.map (opOfGen fm pc base)) ∧
      Inv s' := by
  obtain ⟨h, hi⟩ := run_tables_tie pc base fm ops (Lemmas.Tables.inv_init (cfgOf pc base) now mh mr)
  exact ⟨_, h, Props.C04.run_refines (cfgOf pc base) hc now mh mr _, hi⟩

/- non-vacuity: an IPv4 frame from a new LAN station on the empty tables, through the regenerated bodies:
    host 1 under MAC entry 0 is created, it is online, the transition flag is set -/
set_option maxRecDepth 8000 in
example :
    (match genParseTables (fun _ => "") ⟨[2,0,0,0,0,1], [2,0,0,0,0,2], [192,168,0,0], 24⟩ Tables.empty
        [2,0,0,0,0,1, 2,0,0,0,0,9, 8,0, 0x45,0,0,20, 0,0,0,0, 64,253, 0,0, 192,168,0,9, 192,168,0,1] 7 with
     | .ok (_, some (s, host, flags)) =>
        (host, flags, s.hosts.map (fun q => (q.2.id, q.2.online)), s.macs.map (·.id))
     | _ => (none, 9, [], [])) = (some 1, 1, [(1, true)], [0]) := by decide

end PV.Props.ComposeGenTables
