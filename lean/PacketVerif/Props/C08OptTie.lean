/-
  Option / TLV parser tie (F14) — the BODIES of the DHCPv4 option walkers (`DHCP4.Options`, `DHCP4.validateOptions`,
  `DHCP4.ParseOptions`) and of the NDP option parsers, translated from the Go AST into Lean source on every run
  (tools/goextract/loops.go in extended mode + loops_opts.go → Gen/LoopsOpts.lean: every `for` as fuel recursion with a
  measure this file validates, `error` results as `Outcome.err`, the option map as an association list), are equal to
  the hand-written functions of Model/Dhcp4Opt.lean / Model/Ndp.lean that the C08 / C03 / C12 / C14 theorems are about:
  same result, same error, same panic, never `.hang`, for EVERY input.
-/
import PacketVerif.Gen.LoopsOpts
import PacketVerif.Model.Dhcp4Opt
import PacketVerif.Model.Ndp
import PacketVerif.Lemmas.LoopGoOpts
import PacketVerif.Lemmas.Dhcp4OptPerm
namespace PV.Props.C08OptTie
open PV PV.Model.LoopGo PV.Model.LoopGoOpts PV.Gen.LoopsOpts PV.Lemmas.LoopGoOpts PV.Lemmas.LoopGo
open PV.Model.Dhcp4Opt PV.Lemmas.Dhcp4OptPerm
open PV.Model

/-! ### DHCPv4 -/

/-- **`DHCP4.Options` tie**: the regenerated getter never panics and returns the model's option area. -/
theorem dhcpOptions_tie (p : Bytes) : genDHCP4_Options p = .ok (optionsOf p) := by
  unfold genDHCP4_Options optionsOf
  by_cases h : p.length > 240
  · have h' : (p.length : Int) > 240 := by omega
    have := sliceI_from p 240
    have e : ((240 : Nat) : Int) = (240 : Int) := rfl
    rw [e] at this
    simp [h, h', this, sliceFrom, show 240 ≤ p.length by omega]
  · have h' : ¬ (p.length : Int) > 240 := by omega
    simp [h, h']

/-- the translated `for len(opts) >= 2 && opts[0] != End` loop of `validateOptions` is the model's loop
    (which forgets the final `opts`), for every fuel -/
theorem validateLoop_eq : ∀ (fuel : Nat) (opts : Bytes),
    omap (fun _ => ()) (genDHCP4_validateOptions_loop1 fuel opts) = validateLoop fuel opts := by
  intro fuel
  induction fuel with
  | zero => intro opts; simp [genDHCP4_validateOptions_loop1, validateLoop]
  | succ n ih =>
    intro opts
    unfold genDHCP4_validateOptions_loop1 validateLoop
    by_cases hl : opts.length < 2
    · have hl' : ¬ (opts.length : Int) ≥ 2 := by omega
      simp [hl, hl']
    · have hl' : (opts.length : Int) ≥ 2 := by omega
      obtain ⟨a, ha⟩ := idx_some opts 0 (by omega)
      obtain ⟨b, hb⟩ := idx_some opts 1 (by omega)
      simp only [hl, hl', if_true, if_false, idxI_zero, idxI_one, ha, hb, Outcome.bind_ok, Outcome.pure_eq,
        sliceI_from1, sliceI_from_2add]
      by_cases e255 : a = 255
      · simp [e255]
      · by_cases e0 : a = 0
        · subst e0
          simp [omap_bind, ih]
        · have hsz : (opts.length : Int) < 2 + (b.toNat : Int) ↔ opts.length < 2 + b.toNat := by omega
          by_cases hs : opts.length < 2 + b.toNat
          · simp [e255, e0, hsz.mpr hs, hs]
          · have hs' : ¬ (opts.length : Int) < 2 + (b.toNat : Int) := fun x => hs (hsz.mp x)
            simp [e255, e0, hs, hs', omap_bind, ih]

/-- **`DHCP4.validateOptions` tie**: for every packet the regenerated function gives the model's verdict
    (accept, `ErrParseFrame`), never a panic, never fuel exhaustion. -/
theorem validateOptions_tie (p : Bytes) : genDHCP4_validateOptions p = validateOptions p := by
  unfold genDHCP4_validateOptions validateOptions
  simp only [dhcpOptions_tie, Outcome.bind_ok]
  by_cases h : (optionsOf p).length < 2
  · have h' : ((optionsOf p).length : Int) < 2 := by omega
    simp [h, h']
  · have h' : ¬ ((optionsOf p).length : Int) < 2 := by omega
    simp only [h, h', if_false]
    rw [← validateLoop_eq]
    cases genDHCP4_validateOptions_loop1 ((optionsOf p).length + 1) (optionsOf p) <;> rfl

set_option maxRecDepth 20000 in
example : genDHCP4_validateOptions (List.replicate 240 0 ++ [53, 1, 1, 255]) = .ok () := by decide
set_option maxRecDepth 20000 in
example : genDHCP4_validateOptions (List.replicate 240 0 ++ [53, 9, 1, 255]) = .err .parseFrame := by decide

/-- the translated loop of `ParseOptions` and the model's loop, started on maps with the same lookups, end with maps
    with the same lookups (and the same outcome kind), for every fuel -/
theorem parseLoop_eq (c : UInt8) : ∀ (fuel : Nat) (opts : Bytes) (g : GMap) (acc : Opts),
    (∀ k, mapGet g k = optGet acc k) →
    omap (fun r => mapGet r.2 c) (genDHCP4_ParseOptions_loop1 fuel opts g)
      = omap (fun o => optGet o c) (parseLoop fuel opts acc) := by
  intro fuel
  induction fuel with
  | zero => intro opts g acc _; simp [genDHCP4_ParseOptions_loop1, parseLoop]
  | succ n ih =>
    intro opts g acc hg
    unfold genDHCP4_ParseOptions_loop1 parseLoop
    by_cases hl : opts.length < 2
    · have hl' : ¬ (opts.length : Int) ≥ 2 := by omega
      simp [hl, hl', hg]
    · have hl' : (opts.length : Int) ≥ 2 := by omega
      obtain ⟨a, ha⟩ := idx_some opts 0 (by omega)
      obtain ⟨b, hb⟩ := idx_some opts 1 (by omega)
      simp only [hl, hl', if_true, if_false, idxI_zero, idxI_one, ha, hb, Outcome.bind_ok, Outcome.pure_eq,
        sliceI_from1, sliceI_from_2add, sliceI_2_2add]
      by_cases e255 : a = 255
      · simp [e255, hg]
      · by_cases e0 : a = 0
        · subst e0
          simp only [show (decide ((0 : UInt8) ≠ 255)) = true by decide, show ((0 : UInt8) == 255) = false by decide,
            show ((0 : UInt8) == 0) = true by decide, if_true, Bool.false_eq_true, if_false, omap_bind]
          exact bind_congr' _ _ _ (fun t => ih t g acc hg)
        · have hsz : (opts.length : Int) < 2 + (b.toNat : Int) ↔ opts.length < 2 + b.toNat := by omega
          have ea : (a == 255) = false := by simp [e255]
          have eb : (a == 0) = false := by simp [e0]
          by_cases hs : opts.length < 2 + b.toNat
          · simp [e255, e0, hsz.mpr hs, hs, hg]
          · have hs' : ¬ (opts.length : Int) < 2 + (b.toNat : Int) := fun x => hs (hsz.mp x)
            simp only [e255, e0, ea, eb, hs, hs', omap_bind, decide_true, ne_eq, not_false_eq_true, if_true,
              if_false, Bool.false_eq_true]
            refine bind_congr' _ _ _ (fun v => bind_congr' _ _ _ (fun r => ?_))
            apply ih
            intro k
            rw [mapGet_mapSet, optGet_optSet, hg]

/-- **`DHCP4.ParseOptions` tie.**  Go returns a map; the regenerated function builds it as an association list in
    insertion order with overwrite, the model as an association list with the newest binding first.  For every packet
    the two agree on the outcome (never a panic, never fuel exhaustion — `parseOptions_total`) and on the value found
    under EVERY option code, which is all a Go caller can observe of a map besides its iteration order. -/
theorem parseOptions_tie (p : Bytes) (c : UInt8) :
    omap (fun m => mapGet m c) (genDHCP4_ParseOptions p) = omap (fun o => optGet o c) (parseOptions p) := by
  unfold genDHCP4_ParseOptions parseOptions
  simp only [dhcpOptions_tie, Outcome.bind_ok]
  rw [← parseLoop_eq c ((optionsOf p).length + 1) (optionsOf p) [] [] (fun _ => rfl)]
  cases genDHCP4_ParseOptions_loop1 ((optionsOf p).length + 1) (optionsOf p) [] <;> rfl

set_option maxRecDepth 20000 in
example : omap (fun m => mapGet m 53) (genDHCP4_ParseOptions (List.replicate 240 0 ++ [53, 1, 1, 53, 1, 3, 255]))
    = .ok (some [3]) := by decide

/-- the keys of the generated map are those of the model's (same lookups ⇒ same domain) -/
theorem parseOptions_same_keys (p : Bytes) (g : GMap) (o : Opts) (hg : genDHCP4_ParseOptions p = .ok g)
    (ho : parseOptions p = .ok o) (c : UInt8) : (mapGet g c).isSome = (optGet o c).isSome := by
  have := parseOptions_tie p c
  rw [hg, ho] at this
  simp only [omap_ok, Outcome.ok.injEq] at this
  rw [this]

/-! ### NDP options -/

theorem copyI_fresh (x : Bytes) :
    copyI (List.replicate x.length 0) 0 (x.length : Int) x = .ok (x, (x.length : Int)) := by
  unfold copyI
  simp

theorem genCopyMAC_eq (x : Bytes) : genCopyMAC x = .ok x := by
  unfold genCopyMAC makeBytes
  simp [copyI_fresh]

theorem be32I_toNat (s : Bytes) : omap UInt32.toNat (be32I s) = Ndp.u32be s := by
  unfold be32I Ndp.u32be
  match s with
  | [] => rfl
  | [_] => rfl
  | [_, _] => rfl
  | [_, _, _] => rfl
  | a :: b :: c :: d :: _ =>
    simp only [omap_ok, Outcome.ok.injEq, be32]
    have := a.toNat_lt; have := b.toNat_lt; have := c.toNat_lt; have := d.toNat_lt
    simp
    omega

theorem genCopyBytes_eq (x : Bytes) : genCopyBytes x = .ok x := by
  unfold genCopyBytes makeBytes
  simp [copyI_fresh]

theorem genCopyIP_eq (x : Bytes) : genCopyIP x = .ok (if x.length = 4 then ipTo16 x else x) := by
  unfold genCopyIP makeBytes
  by_cases h : x.length = 4
  · have : (x.length : Int) = 4 := by omega
    simp [h, this]
  · have : ¬ (x.length : Int) = 4 := by omega
    simp [h, this, copyI_fresh]

def gLLA (a : Ndp.LLA) : G_LinkLayerAddress := { Direction := a.dir, MAC := a.mac }

theorem lla_tie (lla : G_LinkLayerAddress) (b : Bytes) :
    genLinkLayerAddress_unmarshal lla b = omap gLLA (Ndp.llaUnmarshal b) := by
  unfold genLinkLayerAddress_unmarshal Ndp.llaUnmarshal
  simp only [idxI_zero, idxI_one]
  cases h0 : idx b 0 with
  | ok t =>
    cases h1 : idx b 1 with
    | ok l =>
      simp only [Outcome.bind_ok, h1]
      by_cases hl : l = 1
      · subst hl
        simp only [ne_eq, not_true_eq_false, if_false]
        have hd : ((t.toNat : Int) ≠ 1 ∧ (t.toNat : Int) ≠ 2) ↔ (t ≠ 1 ∧ t ≠ 2) := by
          have := t.toNat_lt
          constructor
          · intro ⟨a, b⟩; exact ⟨fun h => a (by simp [h]), fun h => b (by simp [h])⟩
          · intro ⟨a, b⟩
            refine ⟨fun h => a ?_, fun h => b ?_⟩
            · apply UInt8.toNat_inj.mp; simp; omega
            · apply UInt8.toNat_inj.mp; simp; omega
        by_cases ht : t ≠ 1 ∧ t ≠ 2
        · simp [hd.mpr ht, ht]
        · have : ¬ ((t.toNat : Int) ≠ 1 ∧ (t.toNat : Int) ≠ 2) := fun h => ht (hd.mp h)
          simp only [this, ht, if_false]
          rw [sliceI_from2]
          cases sliceFrom b 2 <;> simp [genCopyMAC_eq, gLLA]
      · simp [hl]
    | err e => simp
    | panic => simp
    | hang => simp
  | err e => simp
  | panic => simp
  | hang => simp

theorem mtu_tie (m : UInt32) (b : Bytes) : omap UInt32.toNat (genMTU_unmarshal m b) = Ndp.mtuUnmarshal b := by
  unfold genMTU_unmarshal Ndp.mtuUnmarshal
  simp only [idxI_one]
  cases h1 : idx b 1 with
  | ok l =>
    simp only [Outcome.bind_ok]
    by_cases hl : ((l.toNat : Int) * 8 - 2) ≠ 6
    · simp [hl]
    · have e : sliceI b 4 8 = slice b 4 8 := by
        have := sliceI_nat b 4 8
        simpa using this
      simp only [hl, if_false, e]
      cases slice b 4 8 with
      | ok s => simp only [Outcome.bind_ok, ← be32I_toNat]; cases be32I s <;> rfl
      | err e => rfl
      | panic => rfl
      | hang => rfl
  | err e => simp
  | panic => simp
  | hang => simp

theorem checkPref_eq (n : Nat) (h : n < 4) :
    gencheckPreference (n : Int) = if n = 2 then .err .other else .ok () := by
  unfold gencheckPreference
  match n, h with
  | 0, _ => simp
  | 1, _ => simp
  | 2, _ => simp
  | 3, _ => simp

theorem pref_lt (f : UInt8) : ((f &&& 24) >>> 3).toNat < 4 := by
  have h : f.toNat &&& 24 ≤ 24 := Nat.and_le_right
  rw [UInt8.toNat_shiftRight, UInt8.toNat_and]
  simp [Nat.shiftRight_eq_div_pow]
  omega

def gRI (r : Ndp.RouteInfo) : G_RouteInformation :=
  { PrefixLength := UInt8.ofNat r.plen, Preference := r.pref, RouteLifetime := (r.lifetime : Int) * 1000000000, Prefix := r.pfx }

/-- the part of `(*RouteInformation).unmarshal` after the length `switch` (the translator places it after each case) -/
theorem ri_tail (ri : G_RouteInformation) (b : Bytes) (pl : UInt8) :
    (do
      let ri : G_RouteInformation := { ri with PrefixLength := pl }
      let t3 ← sliceI b (4 : Int) (8 : Int)
      let t4 ← be32I t3
      let ri : G_RouteInformation := { ri with RouteLifetime := ((t4.toNat : Int) * (1000000000 : Int)) }
      let t5 ← idxI b (3 : Int)
      let ri : G_RouteInformation := { ri with Preference := (((t5 &&& (24 : UInt8)) >>> (3 : UInt8)).toNat : Int) }
      let _ ← gencheckPreference ri.Preference
      let t6 ← sliceI b (8 : Int) (((8 : UInt8) + (pl / (8 : UInt8))).toNat : Int)
      let t7 ← genCopyBytes t6
      let ri : G_RouteInformation := { ri with Prefix := t7 }
      pure ri)
    = omap gRI (do
      let lt ← (slice b 4 8) >>= Ndp.u32be
      let f ← idx b 3
      let pr := ((f &&& 0x18) >>> 3).toNat
      if pr = 2 then .err .other
      else do
        let p ← slice b 8 (8 + pl.toNat / 8)
        pure ({ plen := pl.toNat, pref := pr, lifetime := lt, pfx := p } : Ndp.RouteInfo)) := by
  have e48 : sliceI b 4 8 = slice b 4 8 := by
    have := sliceI_nat b 4 8
    simpa using this
  have e3 : idxI b 3 = idx b 3 := by simp [idxI]
  have e8 : sliceI b 8 (((8 : UInt8) + pl / 8).toNat : Int) = slice b 8 (8 + pl.toNat / 8) := by
    have h : ((8 : UInt8) + pl / 8).toNat = 8 + pl.toNat / 8 := by
      have := pl.toNat_lt
      rw [UInt8.toNat_add, UInt8.toNat_div]; simp; omega
    rw [h]
    have := sliceI_nat b 8 (8 + pl.toNat / 8)
    simpa using this
  simp only [e48, e3, e8]
  cases hs : slice b 4 8 with
  | ok s =>
    simp only [Outcome.bind_ok]
    rw [← be32I_toNat]
    cases hb : be32I s with
    | ok v =>
      simp only [Outcome.bind_ok, omap_ok]
      cases hf : idx b 3 with
      | ok f =>
        simp only [Outcome.bind_ok, checkPref_eq _ (pref_lt f)]
        by_cases h2 : ((f &&& 24) >>> 3).toNat = 2
        · simp [h2]
        · simp only [h2, if_false, Outcome.bind_ok]
          cases slice b 8 (8 + pl.toNat / 8) with
          | ok p => simp [genCopyBytes_eq, gRI]
          | err e => rfl
          | panic => rfl
          | hang => rfl
      | err e => rfl
      | panic => rfl
      | hang => rfl
    | err e => rfl
    | panic => rfl
    | hang => rfl
  | err e => rfl
  | panic => rfl
  | hang => rfl

/-- the length `switch` of `(*RouteInformation).unmarshal` as the translator renders it = the model's `riLenOk` -/
theorem ri_switch {α} (l pl : UInt8) (E X : Outcome α) :
    (if pl = 0 then (if l < 1 ∨ l > 3 then E else X)
     else if pl > 0 ∧ pl < 65 then (if l ≠ 2 ∧ l ≠ 3 then E else X)
     else if pl > 64 ∧ pl < 129 then (if l ≠ 3 then E else X) else E)
    = if Ndp.riLenOk l.toNat pl.toNat = false then E else X := by
  simp only [UInt8.lt_iff_toNat_lt, ← UInt8.toNat_inj, gt_iff_lt, ne_eq, UInt8.reduceToNat]
  by_cases p0 : pl.toNat = 0
  · rw [if_pos p0]
    by_cases hc : l.toNat < 1 ∨ 3 < l.toNat
    · have hv : Ndp.riLenOk l.toNat pl.toNat = false := by simp [Ndp.riLenOk, p0]; omega
      rw [if_pos hc, hv]; rfl
    · have hv : Ndp.riLenOk l.toNat pl.toNat = true := by simp [Ndp.riLenOk, p0]; omega
      rw [if_neg hc, hv]; rfl
  · rw [if_neg p0]
    by_cases p1 : pl.toNat < 65
    · rw [if_pos (show 0 < pl.toNat ∧ pl.toNat < 65 by omega)]
      by_cases hc : ¬ l.toNat = 2 ∧ ¬ l.toNat = 3
      · have hv : Ndp.riLenOk l.toNat pl.toNat = false := by simp [Ndp.riLenOk, p0, p1]; omega
        rw [if_pos hc, hv]; rfl
      · have hv : Ndp.riLenOk l.toNat pl.toNat = true := by simp [Ndp.riLenOk, p0, p1]; omega
        rw [if_neg hc, hv]; rfl
    · rw [if_neg (show ¬ (0 < pl.toNat ∧ pl.toNat < 65) by omega)]
      by_cases p2 : pl.toNat < 129
      · rw [if_pos (show 64 < pl.toNat ∧ pl.toNat < 129 by omega)]
        by_cases hc : ¬ l.toNat = 3
        · have hv : Ndp.riLenOk l.toNat pl.toNat = false := by simp [Ndp.riLenOk, p0, p1, p2]; omega
          rw [if_pos hc, hv]; rfl
        · have hv : Ndp.riLenOk l.toNat pl.toNat = true := by simp [Ndp.riLenOk, p0, p1, p2]; omega
          rw [if_neg hc, hv]; rfl
      · have hv : Ndp.riLenOk l.toNat pl.toNat = false := by simp [Ndp.riLenOk, p0, p1, p2]
        rw [if_neg (show ¬ (64 < pl.toNat ∧ pl.toNat < 129) by omega), hv]; rfl

theorem ri_tie (ri : G_RouteInformation) (b : Bytes) :
    genRouteInformation_unmarshal ri b = omap gRI (Ndp.riUnmarshal b) := by
  unfold genRouteInformation_unmarshal Ndp.riUnmarshal
  simp only [idxI_one, show idxI b 2 = idx b 2 by simp [idxI]]
  cases h1 : idx b 1 with
  | ok l =>
    cases h2 : idx b 2 with
    | ok pl =>
      have rt := ri_tail ri b pl
      dsimp only at rt
      simp only [Outcome.bind_ok]
      simp only [rt]
      rw [ri_switch]
      by_cases hok : Ndp.riLenOk l.toNat pl.toNat = false
      · rw [if_pos hok, if_pos hok]; rfl
      · rw [if_neg hok, if_neg hok]
    | err e => simp
    | panic => simp
    | hang => simp
  | err e => simp
  | panic => simp
  | hang => simp

def gRdnss (old : G_RecursiveDNSServer) (m : Ndp.Rdnss) : G_RecursiveDNSServer :=
  { Lifetime := (m.lifetime : Int) * 1000000000, Servers := old.Servers ++ m.servers }

theorem slice_len (v : Bytes) (lo hi : Nat) (s : Bytes) (h : slice v lo hi = .ok s) : s.length = hi - lo := by
  unfold slice at h
  split at h
  · rename_i hc
    simp only [Outcome.ok.injEq] at h
    subst h
    simp; omega
  · simp at h

/-- the server loop of `(*RecursiveDNSServer).unmarshal`: `n` more servers from index `i` on -/
theorem rdnss_loop (value : Bytes) : ∀ (n i fuel : Nat) (r : G_RecursiveDNSServer), n < fuel →
    genRecursiveDNSServer_unmarshal_loop1 value ((i + n : Nat) : Int) fuel r (i : Int)
      = omap (fun srv => { r with Servers := r.Servers ++ srv }) (Ndp.rdnssServers value n i) := by
  intro n
  induction n with
  | zero =>
    intro i fuel r hf
    obtain ⟨f, rfl⟩ : ∃ f, fuel = f + 1 := ⟨fuel - 1, by omega⟩
    simp [genRecursiveDNSServer_unmarshal_loop1, Ndp.rdnssServers]
  | succ n ih =>
    intro i fuel r hf
    obtain ⟨f, rfl⟩ : ∃ f, fuel = f + 1 := ⟨fuel - 1, by omega⟩
    unfold genRecursiveDNSServer_unmarshal_loop1 Ndp.rdnssServers
    have hlt : (i : Int) < ((i + (n + 1) : Nat) : Int) := by omega
    have hs : sliceI value ((6 : Int) + (i : Int) * 16) ((22 : Int) + (i : Int) * 16) = slice value (6 + 16 * i) (6 + 16 + 16 * i) := by
      rw [← sliceI_nat]; congr 1 <;> omega
    simp only [hlt, if_true, hs]
    cases hv : slice value (6 + 16 * i) (6 + 16 + 16 * i) with
    | ok s =>
      have hl := slice_len _ _ _ _ hv
      have h16 : ¬ s.length = 4 := by omega
      simp only [Outcome.bind_ok, genCopyIP_eq, h16, if_false]
      have := ih (i + 1) f { r with Servers := r.Servers ++ [s] } (by omega)
      have e1 : ((i + 1 + n : Nat) : Int) = ((i + (n + 1) : Nat) : Int) := by omega
      have e2 : ((i + 1 : Nat) : Int) = (i : Int) + 1 := by omega
      rw [e1, e2] at this
      rw [this]
      cases Ndp.rdnssServers value n (i + 1) <;> simp
    | err e => rfl
    | panic => rfl
    | hang => rfl

theorem rdnss_tie (r : G_RecursiveDNSServer) (b : Bytes) :
    genRecursiveDNSServer_unmarshal r b = omap (gRdnss r) (Ndp.rdnssUnmarshal b) := by
  unfold genRecursiveDNSServer_unmarshal Ndp.rdnssUnmarshal
  rw [sliceI_from2]
  cases hv : sliceFrom b 2 with
  | ok value =>
    have e26 : sliceI value 2 6 = slice value 2 6 := by
      have := sliceI_nat value 2 6
      simpa using this
    simp only [Outcome.bind_ok, e26, idxI_one]
    cases hs : slice value 2 6 with
    | ok s =>
      simp only [Outcome.bind_ok]
      rw [← be32I_toNat]
      cases hb : be32I s with
      | ok v =>
        simp only [Outcome.bind_ok, omap_ok]
        cases h1 : idx b 1 with
        | ok l1 =>
          simp only [Outcome.bind_ok]
          have hm : Int.tmod (((l1.toNat : Int) - 1) * 8) 2 = 0 := by
            have : ((l1.toNat : Int) - 1) * 8 = 2 * (((l1.toNat : Int) - 1) * 4) := by omega
            rw [this]; exact Int.mul_tmod_right _ _
          have hm' : (l1.toNat - 1) * 8 % 2 = 0 := by omega
          have hc : Int.tdiv (((l1.toNat : Int) - 1) * 8) 16 = (((l1.toNat - 1) * 8 / 16 : Nat) : Int) := by
            by_cases h0 : l1.toNat = 0
            · simp [h0]
            · have : ((l1.toNat : Int) - 1) * 8 = (((l1.toNat - 1) * 8 : Nat) : Int) := by omega
              rw [this, Int.tdiv_eq_ediv_of_nonneg (by omega)]; omega
          simp only [hm, hm', ne_eq, not_true_eq_false, if_false, hc]
          by_cases hz : (l1.toNat - 1) * 8 / 16 = 0
          · simp [hz]
          · have hz' : ¬ (((l1.toNat - 1) * 8 / 16 : Nat) : Int) = 0 := by omega
            simp only [hz, hz', if_false]
            have := rdnss_loop value ((l1.toNat - 1) * 8 / 16) 0 (((((l1.toNat - 1) * 8 / 16 : Nat) : Int) - 0).toNat + 1)
              { r with Lifetime := (v.toNat : Int) * 1000000000 } (by omega)
            simp only [Nat.zero_add, Int.natCast_zero] at this
            rw [this]
            cases Ndp.rdnssServers value ((l1.toNat - 1) * 8 / 16) 0 <;> simp [gRdnss]
        | err e => rfl
        | panic => rfl
        | hang => rfl
      | err e => rfl
      | panic => rfl
      | hang => rfl
    | err e => rfl
    | panic => rfl
    | hang => rfl
  | err e => rfl
  | panic => rfl
  | hang => rfl

def gPrefix (p : Ndp.PrefixInfo) : G_PrefixInformation :=
  { PrefixLength := UInt8.ofNat p.plen, OnLink := p.onLink, AutonomousAddressConfiguration := p.auto,
    ValidLifetime := (p.valid : Int) * 1000000000, PreferredLifetime := (p.preferred : Int) * 1000000000, Prefix := p.pfx }

def gDnssl (d : Ndp.Dnssl) : G_DNSSearchList := { Lifetime := (d.lifetime : Int) * 1000000000, DomainNames := d.names }

def gOptions (o : Ndp.Options) : G_NewOptions :=
  { MTU := UInt32.ofNat o.mtu, Prefixes := o.prefixes.map gPrefix, FirstPrefix := o.firstPrefix,
    RDNSS := { Lifetime := (o.rdnss.lifetime : Int) * 1000000000, Servers := o.rdnss.servers },
    SourceLLA := gLLA o.slla, TargetLLA := gLLA o.tlla, DNSSearchList := gDnssl o.dnssl, RouteInformation := gRI o.ri }

/-- the two callees the translator could not translate, instantiated with the model's functions -/
def extPrefix : G_PrefixInformation → Bytes → Outcome G_PrefixInformation := fun _ x => omap gPrefix (Ndp.prefixUnmarshal x)
def extDnssl : G_DNSSearchList → Bytes → Outcome G_DNSSearchList := fun _ x => omap gDnssl (Ndp.dnsslUnmarshal x)

theorem gOptions_zero : gOptions {} = G_NewOptions.zero := by
  simp [gOptions, G_NewOptions.zero, gLLA, gRI, gDnssl, G_RecursiveDNSServer.zero, G_LinkLayerAddress.zero, G_DNSSearchList.zero,
    G_RouteInformation.zero, Ndp.Options.firstPrefix]

theorem sliceI_drop (b : Bytes) (i : Nat) (h : i ≤ b.length) : sliceI b (i : Int) (b.length : Int) = .ok (b.drop i) := by
  rw [sliceI_from]; simp [sliceFrom, h]

theorem idxI_drop0 (b : Bytes) (i : Nat) : idxI b (i : Int) = idx (b.drop i) 0 := by
  simp [idxI, idx]

theorem idxI_drop1 (b : Bytes) (i : Nat) : idxI b ((i : Int) + 1) = idx (b.drop i) 1 := by
  have : (i : Int) + 1 = ((i + 1 : Nat) : Int) := by omega
  rw [this, idxI_natCast]; simp [idx]

theorem sliceI_drop_take (b : Bytes) (i l : Nat) (hi : i ≤ b.length) :
    sliceI b (i : Int) ((i : Int) + (l : Int)) = slice (b.drop i) 0 l := by
  have : (i : Int) + (l : Int) = ((i + l : Nat) : Int) := by omega
  rw [this, sliceI_nat]
  unfold slice
  by_cases h : i + l ≤ b.length
  · have h1 : i ≤ i + l ∧ i + l ≤ b.length := ⟨by omega, h⟩
    have h2 : 0 ≤ l ∧ l ≤ (b.drop i).length := ⟨by omega, by simp; omega⟩
    simp only [h1, h2, and_self, if_true, Outcome.ok.injEq, List.drop_zero]
    rw [List.take_drop]
  · have h1 : ¬ (i ≤ i + l ∧ i + l ≤ b.length) := fun x => h x.2
    have h2 : ¬ (l ≤ b.length - i) := by omega
    simp [h, h2]

theorem mtu_tie' (m : UInt32) (b : Bytes) : genMTU_unmarshal m b = omap UInt32.ofNat (Ndp.mtuUnmarshal b) := by
  rw [← mtu_tie m b]
  cases genMTU_unmarshal m b <;> simp

theorem first_prefix_step (o : Ndp.Options) (p : Ndp.PrefixInfo) :
    (if List.length (gOptions o).FirstPrefix = 0 ∧ (((gOptions o).Prefixes ++ [gPrefix p]).length : Int) > 0 then do
        let t15 ← listIdxI ((gOptions o).Prefixes ++ [gPrefix p]) 0
        Outcome.ok ({ gOptions o with Prefixes := (gOptions o).Prefixes ++ [gPrefix p], FirstPrefix := t15.Prefix } : G_NewOptions)
      else
        Outcome.ok { gOptions o with Prefixes := (gOptions o).Prefixes ++ [gPrefix p] })
    = .ok (gOptions { o with prefixes := o.prefixes ++ [p] }) := by
  cases hp : o.prefixes with
  | nil =>
    simp [gOptions, hp, Ndp.Options.firstPrefix, listIdxI, gPrefix]
  | cons q qs =>
    by_cases hq : q.pfx.length = 0
    · simp [gOptions, hp, Ndp.Options.firstPrefix, listIdxI, gPrefix, hq]
    · simp [gOptions, hp, Ndp.Options.firstPrefix, hq]

theorem walk_loop (b : Bytes) : ∀ (k i fg fm : Nat) (o : Ndp.Options), b.length - i ≤ k → i ≤ b.length →
    b.length - i < fg → (b.length - i) / 8 < fm →
    gennewParseOptions_loop1 extPrefix extDnssl b fg (gOptions o) (i : Int) = omap gOptions (Ndp.parseLoop fm (b.drop i) o) := by
  intro k
  induction k with
  | zero =>
    intro i fg fm o hk hi hfg hfm
    obtain ⟨f, rfl⟩ : ∃ f, fg = f + 1 := ⟨fg - 1, by omega⟩
    obtain ⟨m, rfl⟩ : ∃ m, fm = m + 1 := ⟨fm - 1, by omega⟩
    unfold gennewParseOptions_loop1 Ndp.parseLoop
    have hl : (b.drop i).length = 0 := by simp; omega
    simp [sliceI_drop b i hi, hl]
    omega
  | succ k ih =>
    intro i fg fm o hk hi hfg hfm
    obtain ⟨f, rfl⟩ : ∃ f, fg = f + 1 := ⟨fg - 1, by omega⟩
    obtain ⟨m, rfl⟩ : ∃ m, fm = m + 1 := ⟨fm - 1, by omega⟩
    unfold gennewParseOptions_loop1 Ndp.parseLoop
    simp only [sliceI_drop b i hi, Outcome.bind_ok, idxI_drop0, idxI_drop1]
    generalize hr : b.drop i = rest
    have hrl : rest.length = b.length - i := by rw [← hr]; simp
    by_cases h0 : rest.length = 0
    · simp [h0]
    · have h0' : ¬ (rest.length : Int) = 0 := by omega
      simp only [h0, h0', ne_eq, not_false_eq_true, if_true, if_false]
      by_cases h2 : rest.length < 2
      · have : (rest.length : Int) < 2 := by omega
        simp [h2, this]
      · have h2' : ¬ (rest.length : Int) < 2 := by omega
        obtain ⟨t, ht⟩ := idx_some rest 0 (by omega)
        obtain ⟨lb, hlb⟩ := idx_some rest 1 (by omega)
        simp only [h2, h2', if_false, ht, hlb, Outcome.bind_ok]
        have hcast : (lb.toNat : Int) * 8 = ((lb.toNat * 8 : Nat) : Int) := by omega
        by_cases hbad : lb.toNat * 8 = 0 ∨ lb.toNat * 8 > rest.length
        · by_cases hz : (lb.toNat : Int) * 8 = 0
          · simp [hz, hbad]
          · have hgt : (rest.length : Int) < (lb.toNat : Int) * 8 := by omega
            simp [hz, hgt, hbad]
        · have hz : ¬ (lb.toNat : Int) * 8 = 0 := by omega
          have hgt : ¬ (lb.toNat : Int) * 8 > (rest.length : Int) := by omega
          have hsl : sliceI b (i : Int) ((i : Int) + (lb.toNat : Int) * 8) = .ok (rest.take (lb.toNat * 8)) := by
            rw [hcast, sliceI_drop_take b i _ hi, hr]; simp [slice]; omega
          have hopt : slice rest 0 (lb.toNat * 8) = .ok (rest.take (lb.toNat * 8)) := by simp [slice]; omega
          have hrest : sliceFrom rest (lb.toNat * 8) = .ok (rest.drop (lb.toNat * 8)) := by simp [sliceFrom]; omega
          have hK : ∀ o', gennewParseOptions_loop1 extPrefix extDnssl b f (gOptions o') ((i : Int) + (lb.toNat : Int) * 8)
              = omap gOptions (Ndp.parseLoop m (rest.drop (lb.toNat * 8)) o') := by
            intro o'
            have := ih (i + lb.toNat * 8) f m o' (by omega) (by omega) (by omega) (by omega)
            have e : ((i + lb.toNat * 8 : Nat) : Int) = (i : Int) + (lb.toNat : Int) * 8 := by omega
            rw [e, ← List.drop_drop, hr] at this
            exact this
          simp only [hz, hgt, decide_false, Outcome.bind_ok, Outcome.pure_eq, hbad, if_false, hsl, hopt, hrest, Bool.false_eq_true]
          generalize rest.take (lb.toNat * 8) = opt
          generalize rest.drop (lb.toNat * 8) = rest' at hK
          by_cases t1 : t = 1
          · simp only [if_pos t1, Ndp.applyOption, lla_tie]
            cases Ndp.llaUnmarshal opt with
            | ok a => exact hK { o with slla := a }
            | err e => rfl
            | panic => rfl
            | hang => rfl
          by_cases t2 : t = 2
          · simp only [if_neg t1, if_pos t2, Ndp.applyOption, lla_tie]
            cases Ndp.llaUnmarshal opt with
            | ok a => exact hK { o with tlla := a }
            | err e => rfl
            | panic => rfl
            | hang => rfl
          by_cases t5 : t = 5
          · simp only [if_neg t1, if_neg t2, if_pos t5, Ndp.applyOption, mtu_tie']
            cases Ndp.mtuUnmarshal opt with
            | ok v => exact hK { o with mtu := v }
            | err e => exact hK o
            | panic => rfl
            | hang => rfl
          by_cases t3 : t = 3
          · simp only [if_neg t1, if_neg t2, if_neg t5, if_pos t3, Ndp.applyOption, extPrefix]
            cases Ndp.prefixUnmarshal opt with
            | ok p =>
              simp only [omap_ok, Outcome.bind_ok, first_prefix_step, Outcome.pure_eq]
              exact hK _
            | err e => rfl
            | panic => rfl
            | hang => rfl
          by_cases t24 : t = 24
          · simp only [if_neg t1, if_neg t2, if_neg t5, if_neg t3, if_pos t24, Ndp.applyOption, ri_tie]
            cases Ndp.riUnmarshal opt with
            | ok r => exact hK { o with ri := r }
            | err e => exact hK o
            | panic => rfl
            | hang => rfl
          by_cases t25 : t = 25
          · simp only [if_neg t1, if_neg t2, if_neg t5, if_neg t3, if_neg t24, if_pos t25, Ndp.applyOption, rdnss_tie]
            cases Ndp.rdnssUnmarshal opt with
            | ok r => exact hK { o with rdnss := { lifetime := r.lifetime, servers := o.rdnss.servers ++ r.servers } }
            | err e => exact hK o
            | panic => rfl
            | hang => rfl
          by_cases t31 : t = 31
          · simp only [if_neg t1, if_neg t2, if_neg t5, if_neg t3, if_neg t24, if_neg t25, if_pos t31, Ndp.applyOption, extDnssl]
            cases Ndp.dnsslUnmarshal opt with
            | ok d => exact hK { o with dnssl := d }
            | err e => exact hK o
            | panic => rfl
            | hang => rfl
          simp only [if_neg t1, if_neg t2, if_neg t5, if_neg t3, if_neg t24, if_neg t25, if_neg t31, Ndp.applyOption]
          exact hK o

/-- **`newParseOptions` tie.**  For every byte string the function regenerated from the body of `newParseOptions` —
    the option walk `for i := 0; len(b[i:]) != 0;` with the translator's measure `len(b) − i + 1`, the `switch` on the
    option type and the regenerated `unmarshal`s of the link-layer address, MTU, route information and RDNSS options;
    the prefix-information and DNSSL `unmarshal`s (standard-library / third-party calls inside) instantiated with the
    model's functions — returns exactly the model's options (as Go values: `gOptions`), the model's error, the model's
    panic, and never exhausts its fuel. -/
theorem newParseOptions_tie (b : Bytes) :
    gennewParseOptions extPrefix extDnssl b = omap gOptions (Ndp.newParseOptions b) := by
  unfold gennewParseOptions Ndp.newParseOptions
  have := walk_loop b b.length 0 (b.length + 1) (b.length / 8 + 1) {} (by omega) (by omega) (by omega) (by omega)
  rw [gOptions_zero] at this
  have e : (((b.length : Int) - 0).toNat + 1) = b.length + 1 := by omega
  simp only [e]
  simp only [List.drop_zero, Int.natCast_zero] at this
  rw [this]

/-- non-vacuity: a source link-layer address option followed by an MTU option -/
example : omap (fun o => (o.MTU, o.SourceLLA.MAC))
      (gennewParseOptions extPrefix extDnssl [1, 1, 2, 3, 4, 5, 6, 7, 5, 1, 0, 0, 0, 0, 5, 220])
    = .ok (1500, [2, 3, 4, 5, 6, 7]) := by decide
/-- a zero-length option is rejected, a truncated one too -/
example : omap (fun o => o.MTU) (gennewParseOptions extPrefix extDnssl [1, 0, 2, 3, 4, 5, 6, 7]) = .err .other := by decide
example : omap (fun o => o.MTU) (gennewParseOptions extPrefix extDnssl [1, 2, 2, 3, 4, 5, 6, 7]) = .err .other := by decide

/-! ### what the translator covered -/

/-- the translated functions (candidates and callees translated on demand) are exactly the ones tied above, plus
    `DHCP4.AppendOptions`-free: nothing else was translated without a theorem -/
theorem translated_accounted : optsTranslated.map (·.1) =
    ["packet.(DHCP4).Options", "packet.(DHCP4).validateOptions", "packet.(DHCP4).ParseOptions", "packet.CopyMAC",
     "packet.(*LinkLayerAddress).unmarshal", "packet.(*MTU).unmarshal", "packet.checkPreference", "packet.CopyBytes",
     "packet.(*RouteInformation).unmarshal", "packet.CopyIP", "packet.(*RecursiveDNSServer).unmarshal",
     "packet.newParseOptions"] := by decide

/-- the candidates the translator refused (reasons in `Gen.LoopsOpts.optsUntranslated`, reviewed in design_notes/bF.md):
    the map-iteration loop of `AppendOptions`, and the three `unmarshal`s that call the standard library / puny -/
theorem untranslated_accounted : optsUntranslated.map (·.1) =
    ["packet.(DHCP4).AppendOptions", "packet.(*PrefixInformation).unmarshal", "packet.(*DNSSearchList).unmarshal",
     "packet.(*RawOption).unmarshal"] := by decide

/-- the untranslated callees that `newParseOptions` takes as parameters are the two instantiated with the model's
    functions in `newParseOptions_tie` -/
theorem externals_accounted : optsExternals.map (fun e => (e.1, e.2.1, e.2.2.1)) =
    [("gennewParseOptions", "ext_PrefixInformation_unmarshal", "packet.(*PrefixInformation).unmarshal"),
     ("gennewParseOptions", "ext_DNSSearchList_unmarshal", "packet.(*DNSSearchList).unmarshal")] := by decide

/-- the assumptions of the translation (texts in `Gen.LoopsOpts.optsAssumptions`) -/
theorem assumptions_accounted : optsAssumptions.map (·.1) =
    ["capEqLen", "errDropsResults", "externErrNoMutation", "intNoOverflow", "logCallsNoEffect", "mapNonNil",
     "nilIsEmpty", "noAlias", "recvNonNil"] := by decide

/-- the only `== nil` on a byte slice rendered as a length test: `options.FirstPrefix` is assigned only from
    `net.IP.Mask` results (nil or 16 bytes), never empty-but-non-nil -/
theorem nil_sites_accounted : optsNilSites = ["packet.newParseOptions: options.FirstPrefix == nil"] := by decide

/-- every Go error value the translated functions return, and the `Err` constructor it was rendered as (the harness
    compares sentinels with `errors.Is`; everything else is `other`) -/
theorem errs_accounted : optsErrs =
    [("errors.New(…)", Err.other), ("fmt.Errorf(…)", Err.other), ("io.ErrUnexpectedEOF", Err.other),
     ("packet.ErrParseFrame", Err.parseFrame), ("packet.errRDNSSBadServer", Err.other),
     ("packet.errRDNSSNoServers", Err.other)] := by decide

/-- the measures the translator chose for the six loops (validated by the tie theorems: too little fuel would be `.hang`) -/
theorem fuels_accounted : optsFuels.map (·.1) =
    ["genDHCP4_validateOptions_loop1", "genDHCP4_ParseOptions_loop1", "genRecursiveDNSServer_unmarshal_loop1",
     "gennewParseOptions_loop1"] := by decide

end PV.Props.C08OptTie
