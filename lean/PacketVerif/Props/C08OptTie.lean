/-
  Option / TLV parser tie (F14) — the BODIES of the DHCPv4 option walkers (`DHCP4.Options`, `DHCP4.validateOptions`,
  `DHCP4.ParseOptions`) and of the NDP option parsers, translated from the Go AST into Lean source on every run
  (tools/goextract/loops.go in extended mode + loops_opts.go → Gen/LoopsOpts.lean: every `for` as fuel recursion with a
  measure this file validates, `error` results as `Outcome.err`, the option map as an association list), are equal to
  the hand-written functions of Model/Dhcp4Opt.lean / Model/Ndp.lean that the C08 / C03 / C12 / C14 theorems are about:
  same result, same error, same panic, never `.hang`, for EVERY input.
-/
import PacketVerif.Gen.LoopsOpts
import PacketVerif.Model.Dhcp4Opt
import PacketVerif.Lemmas.LoopGoOpts
import PacketVerif.Lemmas.Dhcp4OptPerm
namespace PV.Props.C08OptTie
open PV PV.Model.LoopGo PV.Model.LoopGoOpts PV.Gen.LoopsOpts PV.Lemmas.LoopGoOpts PV.Lemmas.LoopGo
open PV.Model.Dhcp4Opt PV.Lemmas.Dhcp4OptPerm

/-! ### DHCPv4 -/

/-- **`DHCP4.Options` tie**: the regenerated getter never panics and returns the model's option area. -/
theorem dhcpOptions_tie (p : Bytes) : genDHCP4_Options p = .ok (optionsOf p) := by
  unfold genDHCP4_Options optionsOf
  by_cases h : p.length > 240
  · have h' : (p.length : Int) > 240 := by omega
    have := sliceI_from p 240
    have e : ((240 : Nat) : Int) = (240 : Int) := rfl
    rw [e] at this
    simp [h, h', this, sliceFrom, show 240 ≤ p.length by omega]
  · have h' : ¬ (p.length : Int) > 240 := by omega
    simp [h, h']

/-- the translated `for len(opts) >= 2 && opts[0] != End` loop of `validateOptions` is the model's loop
    (which forgets the final `opts`), for every fuel -/
theorem validateLoop_eq : ∀ (fuel : Nat) (opts : Bytes),
    omap (fun _ => ()) (genDHCP4_validateOptions_loop1 fuel opts) = validateLoop fuel opts := by
  intro fuel
  induction fuel with
  | zero => intro opts; simp [genDHCP4_validateOptions_loop1, validateLoop]
  | succ n ih =>
    intro opts
    unfold genDHCP4_validateOptions_loop1 validateLoop
    by_cases hl : opts.length < 2
    · have hl' : ¬ (opts.length : Int) ≥ 2 := by omega
      simp [hl, hl']
    · have hl' : (opts.length : Int) ≥ 2 := by omega
      obtain ⟨a, ha⟩ := idx_some opts 0 (by omega)
      obtain ⟨b, hb⟩ := idx_some opts 1 (by omega)
      simp only [hl, hl', if_true, if_false, idxI_zero, idxI_one, ha, hb, Outcome.bind_ok, Outcome.pure_eq,
        sliceI_from1, sliceI_from_2add]
      by_cases e255 : a = 255
      · simp [e255]
      · by_cases e0 : a = 0
        · subst e0
          simp [omap_bind, ih]
        · have hsz : (opts.length : Int) < 2 + (b.toNat : Int) ↔ opts.length < 2 + b.toNat := by omega
          by_cases hs : opts.length < 2 + b.toNat
          · simp [e255, e0, hsz.mpr hs, hs]
          · have hs' : ¬ (opts.length : Int) < 2 + (b.toNat : Int) := fun x => hs (hsz.mp x)
            simp [e255, e0, hs, hs', omap_bind, ih]

/-- **`DHCP4.validateOptions` tie**: for every packet the regenerated function gives the model's verdict
    (accept, `ErrParseFrame`), never a panic, never fuel exhaustion. -/
theorem validateOptions_tie (p : Bytes) : genDHCP4_validateOptions p = validateOptions p := by
  unfold genDHCP4_validateOptions validateOptions
  simp only [dhcpOptions_tie, Outcome.bind_ok]
  by_cases h : (optionsOf p).length < 2
  · have h' : ((optionsOf p).length : Int) < 2 := by omega
    simp [h, h']
  · have h' : ¬ ((optionsOf p).length : Int) < 2 := by omega
    simp only [h, h', if_false]
    rw [← validateLoop_eq]
    cases genDHCP4_validateOptions_loop1 ((optionsOf p).length + 1) (optionsOf p) <;> rfl

set_option maxRecDepth 20000 in
example : genDHCP4_validateOptions (List.replicate 240 0 ++ [53, 1, 1, 255]) = .ok () := by decide
set_option maxRecDepth 20000 in
example : genDHCP4_validateOptions (List.replicate 240 0 ++ [53, 9, 1, 255]) = .err .parseFrame := by decide

/-- the translated loop of `ParseOptions` and the model's loop, started on maps with the same lookups, end with maps
    with the same lookups (and the same outcome kind), for every fuel -/
theorem parseLoop_eq (c : UInt8) : ∀ (fuel : Nat) (opts : Bytes) (g : GMap) (acc : Opts),
    (∀ k, mapGet g k = optGet acc k) →
    omap (fun r => mapGet r.2 c) (genDHCP4_ParseOptions_loop1 fuel opts g)
      = omap (fun o => optGet o c) (parseLoop fuel opts acc) := by
  intro fuel
  induction fuel with
  | zero => intro opts g acc _; simp [genDHCP4_ParseOptions_loop1, parseLoop]
  | succ n ih =>
    intro opts g acc hg
    unfold genDHCP4_ParseOptions_loop1 parseLoop
    by_cases hl : opts.length < 2
    · have hl' : ¬ (opts.length : Int) ≥ 2 := by omega
      simp [hl, hl', hg]
    · have hl' : (opts.length : Int) ≥ 2 := by omega
      obtain ⟨a, ha⟩ := idx_some opts 0 (by omega)
      obtain ⟨b, hb⟩ := idx_some opts 1 (by omega)
      simp only [hl, hl', if_true, if_false, idxI_zero, idxI_one, ha, hb, Outcome.bind_ok, Outcome.pure_eq,
        sliceI_from1, sliceI_from_2add, sliceI_2_2add]
      by_cases e255 : a = 255
      · simp [e255, hg]
      · by_cases e0 : a = 0
        · subst e0
          simp only [show (decide ((0 : UInt8) ≠ 255)) = true by decide, show ((0 : UInt8) == 255) = false by decide,
            show ((0 : UInt8) == 0) = true by decide, if_true, Bool.false_eq_true, if_false, omap_bind]
          exact bind_congr' _ _ _ (fun t => ih t g acc hg)
        · have hsz : (opts.length : Int) < 2 + (b.toNat : Int) ↔ opts.length < 2 + b.toNat := by omega
          have ea : (a == 255) = false := by simp [e255]
          have eb : (a == 0) = false := by simp [e0]
          by_cases hs : opts.length < 2 + b.toNat
          · simp [e255, e0, hsz.mpr hs, hs, hg]
          · have hs' : ¬ (opts.length : Int) < 2 + (b.toNat : Int) := fun x => hs (hsz.mp x)
            simp only [e255, e0, ea, eb, hs, hs', omap_bind, decide_true, decide_false, ne_eq, not_false_eq_true, if_true,
              if_false, Bool.false_eq_true]
            refine bind_congr' _ _ _ (fun v => bind_congr' _ _ _ (fun r => ?_))
            apply ih
            intro k
            rw [mapGet_mapSet, optGet_optSet, hg]

/-- **`DHCP4.ParseOptions` tie.**  Go returns a map; the regenerated function builds it as an association list in
    insertion order with overwrite, the model as an association list with the newest binding first.  For every packet
    the two agree on the outcome (never a panic, never fuel exhaustion — `parseOptions_total`) and on the value found
    under EVERY option code, which is all a Go caller can observe of a map besides its iteration order. -/
theorem parseOptions_tie (p : Bytes) (c : UInt8) :
    omap (fun m => mapGet m c) (genDHCP4_ParseOptions p) = omap (fun o => optGet o c) (parseOptions p) := by
  unfold genDHCP4_ParseOptions parseOptions
  simp only [dhcpOptions_tie, Outcome.bind_ok]
  rw [← parseLoop_eq c ((optionsOf p).length + 1) (optionsOf p) [] [] (fun _ => rfl)]
  cases genDHCP4_ParseOptions_loop1 ((optionsOf p).length + 1) (optionsOf p) [] <;> rfl

set_option maxRecDepth 20000 in
example : omap (fun m => mapGet m 53) (genDHCP4_ParseOptions (List.replicate 240 0 ++ [53, 1, 1, 53, 1, 3, 255]))
    = .ok (some [3]) := by decide

/-- the keys of the generated map are those of the model's (same lookups ⇒ same domain) -/
theorem parseOptions_same_keys (p : Bytes) (g : GMap) (o : Opts) (hg : genDHCP4_ParseOptions p = .ok g)
    (ho : parseOptions p = .ok o) (c : UInt8) : (mapGet g c).isSome = (optGet o c).isSome := by
  have := parseOptions_tie p c
  rw [hg, ho] at this
  simp only [omap_ok, Outcome.ok.injEq] at this
  rw [this]

end PV.Props.C08OptTie
