/-
  C15 tie (F11) — the BODIES of `packet.Checksum`, `IP4.CalculateChecksum` and `ICMP.SetChecksum`, translated from the
  Go AST into Lean source on every run (tools/goextract/loops.go → Gen/Loops.lean: the `for` loop as fuel recursion,
  `uint32` as Lean's wrapping `UInt32`, `int` as `Int`), are equal to the hand-written functions of
  Model/Checksum.lean that C15's theorems are about.  No length guard is needed: both sides wrap identically.
-/
import PacketVerif.Gen.Loops
import PacketVerif.Model.Checksum
import PacketVerif.Lemmas.LoopGo
namespace PV.Props.C15Tie
open PV PV.Model PV.Model.LoopGo PV.Gen.Loops PV.Lemmas.LoopGo

/-- what the translated loop accumulates: whole little-endian pairs, the odd tail byte is left -/
def pairsAcc : Bytes → UInt32 → UInt32
  | a :: b :: rest, s => pairsAcc rest (s + ((b.toUInt32 <<< 8) ||| a.toUInt32))
  | _, s => s

/-- the last byte when the length is odd -/
def oddTail : Bytes → Option UInt8
  | _ :: _ :: rest => oddTail rest
  | [a] => some a
  | [] => none

theorem cksumAcc_split (b : Bytes) (s : UInt32) :
    cksumAcc b s = match oddTail b with
      | some a => pairsAcc b s + a.toUInt32
      | none => pairsAcc b s := by
  fun_induction cksumAcc b s with
  | case1 a b rest s ih => simpa [pairsAcc, oddTail] using ih
  | case2 a s => simp [pairsAcc, oddTail]
  | case3 s => simp [pairsAcc, oddTail]

theorem oddTail_some (b : Bytes) (a : UInt8) (h : oddTail b = some a) :
    b.length % 2 = 1 ∧ b[b.length - 1]? = some a := by
  fun_induction oddTail b with
  | case1 x y rest ih =>
    obtain ⟨h1, h2⟩ := ih h
    refine ⟨by simp; omega, ?_⟩
    have : rest.length ≠ 0 := by omega
    have e : (x :: y :: rest).length - 1 = (rest.length - 1) + 2 := by simp; omega
    rw [e]; simpa using h2
  | case2 x => simp at h; simp [h]
  | case3 => simp at h

theorem oddTail_none (b : Bytes) (h : oddTail b = none) : b.length % 2 = 0 := by
  fun_induction oddTail b with
  | case1 x y rest ih => have := ih h; simp; omega
  | case2 x => simp at h
  | case3 => rfl

theorem loop1_stop (b : Bytes) (c : Int) (fuel : Nat) (s : UInt32) (i : Int) (h : ¬ i < c) :
    genChecksum_loop1 b c (fuel + 1) s i = .ok s := by
  simp [genChecksum_loop1, h]

/-- the translated `for i := 0; i < csumcv; i += 2` loop from position `pre.length` on -/
theorem loop1_eq (fuel : Nat) : ∀ (pre rest : Bytes) (s : UInt32), rest.length ≤ fuel + 1 →
    genChecksum_loop1 (pre ++ rest) (((pre ++ rest).length : Int) - 1) (fuel + 1) s pre.length
      = .ok (pairsAcc rest s) := by
  induction fuel with
  | zero =>
    intro pre rest s h
    match rest, h with
    | [], _ => exact loop1_stop _ _ _ _ _ (by simp; omega)
    | [a], _ => exact loop1_stop _ _ _ _ _ (by simp)
  | succ n ih =>
    intro pre rest s h
    match rest, h with
    | [], _ => exact loop1_stop _ _ _ _ _ (by simp; omega)
    | [a], _ => exact loop1_stop _ _ _ _ _ (by simp)
    | a :: b :: r, h =>
      have hlt : (pre.length : Int) < ((pre ++ a :: b :: r).length : Int) - 1 := by simp; omega
      have := ih (pre ++ [a, b]) r (s + ((b.toUInt32 <<< 8) ||| a.toUInt32)) (by simp at h; omega)
      simp only [List.append_assoc, List.cons_append, List.nil_append, List.length_append, List.length_cons,
        List.length_nil] at this
      rw [genChecksum_loop1]
      simp only [hlt, if_true, idxI_append_at1, idxI_append_at, Outcome.bind_ok, pairsAcc]
      rw [← this]; congr 1 <;> first | omega | (simp; omega) | simp

/-- **Checksum tie.**  For every byte string the function regenerated from the body of `packet.Checksum`
    returns (no panic, no fuel exhaustion) exactly `Model.checksum b`. -/
theorem checksum_tie (b : Bytes) : genChecksum b = .ok (checksum b) := by
  have hloop' : genChecksum_loop1 b ((b.length : Int) - 1) ((((b.length : Int) - 1) - 0).toNat + 1) 0 0
      = .ok (pairsAcc b 0) := by
    by_cases h : b.length = 0
    · have : b = [] := List.length_eq_zero_iff.mp h
      subst this; simp [genChecksum_loop1, pairsAcc]
    · have hf : (((b.length : Int) - 1) - 0).toNat + 1 = b.length - 1 + 1 := by omega
      rw [hf]
      have := loop1_eq (b.length - 1) [] b 0 (by omega)
      simpa using this
  unfold genChecksum checksum
  simp only [hloop', Outcome.bind_ok]
  rw [cksumAcc_split]
  cases ho : oddTail b with
  | none =>
    have := oddTail_none b ho
    have hne : ¬ ((b.length : Int) - 1) % 2 = 0 := by omega
    simp [hne]
  | some a =>
    obtain ⟨h1, h2⟩ := oddTail_some b a ho
    have he : ((b.length : Int) - 1) % 2 = 0 := by omega
    have hidx : idxI b ((b.length : Int) - 1) = .ok a := by
      have : (b.length : Int) - 1 = ((b.length - 1 : Nat) : Int) := by omega
      rw [this, idxI_natCast]; simp [idx, h2]
    simp [he, hidx]

/-- non-vacuity: the regenerated function computes the checksum of a real IPv4 header (field zeroed) -/
example : genChecksum [0x45,0x00,0x00,0x54,0x00,0x00,0x40,0x00,0x40,0x01,0xc0,0xa8,0x00,0x01,0xc0,0xa8,0x00,0xc7]
    = .ok (checksum [0x45,0x00,0x00,0x54,0x00,0x00,0x40,0x00,0x40,0x01,0xc0,0xa8,0x00,0x01,0xc0,0xa8,0x00,0xc7]) :=
  checksum_tie _
example : genChecksum [] = .ok 0xffff := by decide
example : genChecksum [1] = .ok 0xfffe := by decide

theorem cksumAcc_append_even (x y : Bytes) (s : UInt32) (h : x.length % 2 = 0) :
    cksumAcc (x ++ y) s = cksumAcc y (cksumAcc x s) := by
  fun_induction cksumAcc x s with
  | case1 a b rest s ih => simp only [List.cons_append, cksumAcc]; exact ih (by simp at h; omega)
  | case2 a s => simp at h
  | case3 s => simp

/-- `psh` has 20 bytes, the last two still zero: they do not change the sum -/
theorem checksum_pad (x : Bytes) (h : x.length % 2 = 0) : checksum (x ++ [0, 0]) = checksum x := by
  unfold checksum
  rw [cksumAcc_append_even x [0, 0] 0 h]
  have : ∀ t : UInt32, cksumAcc [0, 0] t = t := by intro t; simp [cksumAcc]
  rw [this]

/-- **IP4.CalculateChecksum tie**: the regenerated body (`make`, two `copy`s, `Checksum(psh)`) is the model function,
    including the panic on a header shorter than 20 bytes. -/
theorem ip4CalculateChecksum_tie (p : Bytes) : genIP4_CalculateChecksum p = ip4CalculateChecksum p := by
  unfold genIP4_CalculateChecksum ip4CalculateChecksum
  by_cases h : p.length < 20
  · simp only [h, if_true]
    by_cases h10 : p.length < 10
    · have : ¬ ((10 : Int) ≤ (p.length : Int)) := by omega
      simp [makeBytes, sliceI, this]
    · have a : ((10 : Int) ≤ (p.length : Int)) := by omega
      have b : ¬ ((20 : Int) ≤ (p.length : Int)) := by omega
      simp [makeBytes, sliceI, copyI, a, b]
  · have a : ((10 : Int) ≤ (p.length : Int)) := by omega
    have b : ((20 : Int) ≤ (p.length : Int)) := by omega
    have l10 : (List.take 10 p).length = 10 := by simp; omega
    have l8 : (List.take 8 (List.drop 12 p)).length = 8 := by simp; omega
    simp only [h, if_false]
    simp [makeBytes, sliceI, copyI, a, b, l10]
    rw [checksum_tie]
    have m : min 20 p.length = 20 := by omega
    have e : List.drop 12 (List.take 20 p) = List.take 8 (List.drop 12 p) := by
      rw [List.drop_take]
    have d : List.drop 18 (List.take 10 p) = [] := List.drop_eq_nil_of_le (by omega)
    rw [← checksum_pad (List.take 10 p ++ List.take 8 (List.drop 12 p)) (by simp only [List.length_append, l10, l8])]
    simp [m, e, d, List.take_take, List.drop_append, l10]

/-- non-vacuity: a truncated header panics in both -/
example : genIP4_CalculateChecksum [0x45] = .panic := by rw [ip4CalculateChecksum_tie]; rfl

/-- **ICMP.SetChecksum tie**: `p[3] = uint8(cs >> 8); p[2] = uint8(cs)` is `putChecksum p 2 cs` (the store C15's
    `icmp4_verifies` / `icmp6_verifies` are about); a message shorter than 4 bytes panics. -/
theorem icmpSetChecksum_tie (p : Bytes) (cs : UInt16) :
    genICMP_SetChecksum p cs = if p.length < 4 then .panic else .ok (putChecksum p 2 cs) := by
  unfold genICMP_SetChecksum putChecksum
  by_cases h : p.length < 4
  · have : ¬ ((3 : Int) < (p.length : Int)) := by omega
    simp [setI, h, this]
  · have a : ((3 : Int) < (p.length : Int)) := by omega
    have b : ((2 : Int) < (p.length : Int)) := by omega
    simp [setI, h, a, b]
    exact List.set_comm _ _ (by decide)

/-- non-vacuity: the two bytes land little-endian at offsets 2, 3 -/
example : genICMP_SetChecksum [8, 0, 0, 0, 1] 0x1234 = .ok [8, 0, 0x34, 0x12, 1] := by decide

/-- the three functions of package packet named by Model/Checksum.lean are translated … -/
theorem translated_accounted : packetLoopsTranslated =
    [("packet.Checksum", "genChecksum"), ("packet.(IP4).CalculateChecksum", "genIP4_CalculateChecksum"),
     ("packet.(ICMP).SetChecksum", "genICMP_SetChecksum")] := by decide

/-- … and the two send paths that assemble the ICMP pseudo header are refused (`*Session` receiver, buffer pool, `defer`,
    `Conn.WriteTo`): the assembly `icmp6Pseudo` stays tied by the C07 / C15 correspondence runs only. -/
theorem untranslated_accounted : packetLoopsUntranslated.map (·.1) =
    ["packet.(*Session).icmp4SendPacket", "packet.(*Session).icmp6SendPacket"] := by decide

/-- the assumptions of the translation (shared with C20Tie) -/
theorem assumptions_accounted : loopAssumptions.map (·.1) =
    ["intNoOverflow", "capEqLen", "noAlias"] := by decide


end PV.Props.C15Tie
