/-
  Tie B for C14/C08: the NDP option type codes, ICMPv6 echo types and deadlines the models use as
  literals, against the constants regenerated from the Go source on every run.
-/
import PacketVerif.Gen.Facts
namespace PV.Props.C14Tie

def expect : List (String × Nat) := [
  ("optSourceLLA", 1), ("optTargetLLA", 2), ("optPrefixInformation", 3), ("optMTU", 5),
  ("optRouteInformation", 24), ("optRDNSS", 25), ("optDNSSL", 31),
  ("ICMP6TypeEchoRequest", 128), ("ICMP6TypeEchoReply", 129), ("ICMP4TypeEchoReply", 0), ("ICMP4TypeEchoRequest", 8)]

theorem ndp_consts_tie : expect.all (fun (n, v) => Gen.consts.lookup n == some v) = true := by decide

end PV.Props.C14Tie
