/-
  C14 — ICMPv6 spoofing is confined to hunted hosts; routers are learned exactly.
  Property theorems over ALL traces of the hunt machine (Model/Icmp6Hunt.lean) and over all router
  advertisements (Model/Ndp.lean against Spec/NdpWire.lean).  Invariants and lemmas:
  Lemmas/Icmp6Hunt.lean, Lemmas/NdpExact.lean, Lemmas/NdpDnssl.lean.

  Wall-clock part: the 2–2.8 s cycle is the nondeterministic `wake` transition; the harness measures it.
-/
import PacketVerif.Lemmas.Icmp6Hunt
import PacketVerif.Lemmas.NdpDnssl
namespace PV.Props.C14
open PV PV.Model.Ndp PV.Model.Icmp6Hunt PV.Spec.NdpWire PV.Lemmas.NdpExact PV.Lemmas.Icmp6Hunt

/-! ### confinement of the forged advertisements -/

/-- **A forged NA is written only to a host that is in the hunt list at the moment of the write, only
    with a learned router's address, and only after a router was learned.**  On every trace: whenever
    `send i r` is enabled, the destination MAC is in the hunt list and the handler is open (the loop
    holds the handler mutex since its check, so neither can have changed), a default router exists,
    `r` is the address of a learned router, and a StartHunt for that MAC was accepted. -/
theorem na_only_to_hunted_after_router (tr : List Event) (s : State) (os : List Out)
    (hr : run {} tr = some (s, os)) (i : Nat) (r : Bytes) (s' : State) (o : Out)
    (hs : step s (.send i r) = some (s', o)) :
    o = .na (s.loops i).mac r ∧ s.defaultRouter.isSome = true ∧ r ∈ keys s ∧ (s.loops i).mac ∈ s.started ∧
      (s.loops i).mac ∈ s.hunt ∧ s.closed = false := by
  have hI := inv_run inv_init hr
  have hH := sendHunted_run inv_init sendHunted_init hr
  simp only [step] at hs
  split at hs
  · rename_i p hp
    split at hs
    · rename_i hrp
      obtain ⟨a, _, c⟩ := hI.sendOK i p hp
      obtain ⟨hm, hc⟩ := hH i p hp
      split at hs <;> (cases hs; exact ⟨rfl, a, c r hrp, hI.started i (by rw [hp]; simp), hm, hc⟩)
    · cases hs
  · cases hs

/-- the sending state is entered only through the loop's own check, and only when at that moment the
    MAC is in the hunt list, the handler is not closed and a router is known -/
theorem send_entered_only_by_check (s s' : State) (e : Event) (o : Out) (i : Nat) (p : List Bytes)
    (hs : step s e = some (s', o)) (h0 : ∀ q, (s.loops i).pc ≠ .send q) (h1 : (s'.loops i).pc = .send p) :
    e = .check i ∧ (s.loops i).mac ∈ s.hunt ∧ s.closed = false ∧ s.defaultRouter.isSome = true ∧
      s.holder = none ∧ s'.holder = some i := by
  cases e with
  | envRepeat v => simp only [step] at hs; cases hs; exact absurd h1 (h0 p)
  | rxOther => simp only [step] at hs; cases hs; exact absurd h1 (h0 p)
  | close =>
    simp only [step] at hs
    split at hs
    · cases hs; exact absurd h1 (h0 p)
    · cases hs
  | ra r =>
    rcases step_ra_cases s r s' o hs with rfl | rfl | ⟨hdr, o', rfl⟩
    · exact absurd h1 (h0 p)
    · exact absurd h1 (h0 p)
    · rw [(learn_fields _ r hdr o').2.2.1] at h1; exact absurd h1 (h0 p)
  | stopHunt mac eff =>
    simp only [step] at hs
    split at hs
    · split at hs
      · cases hs; exact absurd h1 (h0 p)
      · cases hs
    · cases hs; exact absurd h1 (h0 p)
  | startHunt mac cls =>
    simp only [step] at hs
    split at hs
    · cases hs; exact absurd h1 (h0 p)
    · split at hs
      · cases hs; exact absurd h1 (h0 p)
      · split at hs
        · cases hs
        · split at hs
          · cases hs; exact absurd h1 (h0 p)
          · cases hs
            by_cases hi : i = s.nloops
            · subst hi; simp at h1
            · simp only [updLoop_other _ _ _ _ hi] at h1; exact absurd h1 (h0 p)
  | wake j =>
    simp only [step] at hs
    split at hs
    · cases hs
      by_cases hi : i = j
      · subst hi; simp at h1
      · simp only [updLoop_other _ _ _ _ hi] at h1; exact absurd h1 (h0 p)
    · cases hs
  | send j r =>
    simp only [step] at hs
    split at hs
    · rename_i q hq
      split at hs
      · by_cases hi : i = j
        · subst hi; exact absurd hq (h0 q)
        · split at hs <;>
            (cases hs; simp only [updLoop_other _ _ _ _ hi] at h1; exact absurd h1 (h0 p))
      · cases hs
    · cases hs
  | check j =>
    simp only [step] at hs
    split at hs
    · rename_i hcf
      by_cases hi : i = j
      · subst hi
        split at hs
        · cases hs; simp at h1
        · rename_i hcond
          have hm : (s.loops i).mac ∈ s.hunt := by
            apply Classical.byContradiction; intro h; exact hcond (Or.inl h)
          have hc : s.closed = false := by
            cases hcl : s.closed with
            | false => rfl
            | true => exact absurd (Or.inr hcl) hcond
          split at hs
          · rename_i hdef
            split at hs
            · cases hs; simp at h1
            · cases hs; exact ⟨rfl, hm, hc, hdef, hcf.2, rfl⟩
          · cases hs; simp at h1
      · have key : ∀ (l : Loop), (s'.loops i).pc = ((updLoop s.loops j l) i).pc → False := by
          intro l he
          simp only [updLoop_other _ _ _ _ hi] at he
          rw [he] at h1; exact h0 p h1
        split at hs
        · cases hs; exact absurd rfl (fun h => key _ h)
        · split at hs
          · split at hs
            · cases hs; exact absurd rfl (fun h => key _ h)
            · cases hs; exact absurd rfl (fun h => key _ h)
          · cases hs; exact absurd rfl (fun h => key _ h)
    · cases hs

/-! ### StartHunt filters, idempotence -/

/-- **StartHunt rejects IPv4 and ignores targets that are IPv6 but not link-local unicast**: the
    state is untouched and the call returns ErrInvalidIP resp. "no change". -/
theorem startHunt_rejects_v4_ignores_non_lla (s : State) (mac : Bytes) :
    step s (.startHunt mac .v4) = some (s, .start .errInvalidIP) ∧
    step s (.startHunt mac .other6) = some (s, .start .noChange) := by
  constructor <;> simp [step]

/-- **StartHunt is idempotent per MAC**: once a MAC is in the hunt list another StartHunt for it
    (whatever the address) changes nothing – no second list entry, no second loop. -/
theorem idempotent_per_mac (s : State) (mac : Bytes) (c1 c2 : IpClass) (s1 : State) (o1 : Out)
    (h1 : step s (.startHunt mac c1) = some (s1, o1)) (ha : c1 = .none ∨ c1 = .lla) :
    ∃ o2, step s1 (.startHunt mac c2) = some (s1, o2) := by
  have hm : mac ∈ s1.hunt ∧ s1.holder = none := by
    simp only [step] at h1
    rcases ha with rfl | rfl <;> simp at h1 <;>
      (obtain ⟨hf, h1⟩ := h1; split at h1 <;> (cases h1; simp_all))
  simp only [step]
  split
  · exact ⟨_, rfl⟩
  · split
    · exact ⟨_, rfl⟩
    · simp [hm.1, hm.2]

/-- the hunt list never holds a MAC twice (AddrList set semantics), on every trace -/
theorem hunt_nodup (tr : List Event) (s : State) (os : List Out) (hr : run {} tr = some (s, os)) :
    s.hunt.Nodup :=
  (inv_run inv_init hr).nodup

/-- an effective StopHunt removes the MAC from the hunt list -/
theorem stopHunt_removes (tr : List Event) (s s' : State) (os : List Out) (o : Out) (mac : Bytes)
    (hr : run {} tr = some (s, os)) (hs : step s (.stopHunt mac true) = some (s', o)) : mac ∉ s'.hunt := by
  have hn := (inv_run inv_init hr).nodup
  by_cases hf : s.holder = none
  · simp [step, free, hf] at hs
    obtain ⟨rfl, _⟩ := hs
    exact fun h => (List.Nodup.mem_erase_iff hn).1 h |>.1 rfl
  · simp [step, free, hf] at hs

/-! ### after StopHunt / Close -/

/-- **StopHunt and Close wait for the batch in flight**: in every reachable state in which some loop
    is between its check and the last advertisement of its iteration, an effective StopHunt, a Close,
    an accepted StartHunt, another loop's check and a router advertisement are not enabled – they
    take the handler mutex the sending loop holds. -/
theorem stop_and_close_wait_for_batch (tr : List Event) (s : State) (os : List Out)
    (hr : run {} tr = some (s, os)) (i : Nat) (p : List Bytes) (hp : (s.loops i).pc = .send p) :
    (∀ mac, step s (.stopHunt mac true) = none) ∧ step s .close = none ∧
    (∀ mac cls, cls = .none ∨ cls = .lla → step s (.startHunt mac cls) = none) ∧
    (∀ j, step s (.check j) = none) ∧
    (∀ r, 16 ≤ r.payload.length → step s (.ra r) = none) := by
  have hh : s.holder = some i := ((inv_run inv_init hr).holderIff i).2 ⟨p, hp⟩
  refine ⟨?_, ?_, ?_, ?_, ?_⟩
  · intro mac; simp [step, free, hh]
  · simp [step, free, hh]
  · intro mac cls hc; rcases hc with rfl | rfl <;> simp [step, free, hh]
  · intro j; simp [step, free, hh]
  · intro r h16; simp [step, free, hh, h16]

/-- the property's clause – no forged advertisement at all once StopHunt has returned – as a
    statement about traces: after an effective StopHunt of `mac`, as long as no StartHunt for `mac` is
    accepted, no output of the machine is a neighbour advertisement to `mac` -/
def no_na_after_stop_full : Prop :=
  ∀ (pre post : List Event) (mac : Bytes) (s : State) (os : List Out),
    run {} (pre ++ [.stopHunt mac true] ++ post) = some (s, os) → NoRestart mac post →
    naCount mac (os.drop (pre.length + 1)) = 0

/-- the same for Close: nothing is sent to anybody afterwards, whatever is called -/
def no_na_after_close_full : Prop :=
  ∀ (pre post : List Event) (mac : Bytes) (s : State) (os : List Out),
    run {} (pre ++ [.close] ++ post) = some (s, os) → naCount mac (os.drop (pre.length + 1)) = 0

/-- **After StopHunt no further forged advertisement reaches that host** – on every trace of the
    machine.  StopHunt takes the handler mutex, which a loop holds from its check to the last
    advertisement of the iteration: when StopHunt's critical section runs no batch is in flight, the
    MAC leaves the hunt list, and every later check of a loop attacking it ends that loop. -/
theorem no_na_after_stop : no_na_after_stop_full := by
  intro pre post mac s os hr hn
  obtain ⟨s0, s1, o, os1, os2, r1, hs, r2, hd⟩ := run_split pre post _ s os hr
  rw [hd]
  have hI := inv_run inv_init r1
  have hq : Quiet mac s1 := by
    by_cases hf : s0.holder = none
    · simp [step, free, hf] at hs
      obtain ⟨rfl, _⟩ := hs
      refine ⟨Or.inl ?_, fun i _ p => free_no_send hI hf i p⟩
      exact fun h => (List.Nodup.mem_erase_iff hI.nodup).1 h |>.1 rfl
    · simp [step, free, hf] at hs
  exact quiet_run post mac s1 s os2 hq (Or.inr hn) r2

/-- **After Close no forged advertisement is written at all** (to any MAC, whatever is called
    afterwards: a later StartHunt adds the MAC and starts a loop, which ends at its first check). -/
theorem no_na_after_close : no_na_after_close_full := by
  intro pre post mac s os hr
  obtain ⟨s0, s1, o, os1, os2, r1, hs, r2, hd⟩ := run_split pre post _ s os hr
  rw [hd]
  have hI := inv_run inv_init r1
  simp only [step] at hs
  split at hs
  · rename_i hf
    cases hs
    exact quiet_run post mac { s0 with closed := true } s os2
      ⟨Or.inr rfl, fun i _ p => free_no_send hI hf i p⟩ (Or.inl rfl) r2
  · cases hs

/-- **What `no_na_after_stop` is about: an EFFECTIVE StopHunt.**  `StopHunt(addr)` with a valid address that
    is not link-local unicast (every IPv4 and every global address) returns `StageNoChange` before touching
    the list – exactly as `StartHunt` "ignores non-link-local targets" (`startHunt_rejects_v4_ignores_non_lla`).
    Such a call is a no-op of the machine, whatever the MAC: a host hunted address-less or by its link-local
    address stays hunted.  The clause "after StopHunt … no further forged advertisement" is proved for the
    StopHunt calls the handler acts on (no address, or a link-local address: `eff = true`), keyed on the MAC. -/
theorem stopHunt_ineffective_is_noop (s : State) (mac : Bytes) : step s (.stopHunt mac false) = some (s, .none) := by
  simp [step]

/-! ### liveness side: what is enabled ("periodically while hunted")

  Wall-clock time is outside the machine (the 2–2.8 s `select` is the `wake` transition, measured by the
  harness: no silence longer than one cycle + slack while hunted and a router is known).  What the machine
  says is that nothing but the timer and the mutex stands between a hunted loop and its batch: -/

/-- a hunted loop at its check with the mutex free and a router learned takes the mutex for a batch holding
    every learned router's address -/
theorem hunted_loop_sends_at_next_check (s : State) (i : Nat) (hc : (s.loops i).pc = .check) (hf : s.holder = none)
    (hh : (s.loops i).mac ∈ s.hunt) (hopen : s.closed = false) (hd : s.defaultRouter.isSome = true)
    (hr : s.routers ≠ []) :
    ∃ s1, step s (.check i) = some (s1, .none) ∧ (s1.loops i).pc = .send (keys s) ∧ s1.holder = some i := by
  have hk : s.routers.map (·.1) ≠ [] := by
    intro h; apply hr; exact List.map_eq_nil_iff.1 h
  refine ⟨{ s with loops := updLoop s.loops i { s.loops i with pc := .send (keys s) }, holder := some i }, ?_, by simp, rfl⟩
  simp only [step, hc, free, hf, and_self, if_true, hh, hopen, not_true_eq_false, Bool.false_eq_true, or_self, if_false, hd]
  unfold keys
  first
    | rfl
    | (split
       · rename_i heq; exact absurd heq hk
       · rfl)

/-- **no live loop is ever stuck** in a reachable state: a waiting loop can be woken, a loop at its check can
    run it as soon as the mutex is free, and a loop in its batch can write each pending advertisement (to
    its own MAC, with that router's address); the batch shrinks with every write and the last one
    releases the mutex – so StopHunt, Close, StartHunt and the RA path always get their turn -/
theorem live_loop_can_step (tr : List Event) (s : State) (os : List Out) (hr : run {} tr = some (s, os)) (i : Nat) :
    ((s.loops i).pc = .wait → (step s (.wake i)).isSome) ∧
    ((s.loops i).pc = .check → s.holder = none → (step s (.check i)).isSome) ∧
    (∀ p, (s.loops i).pc = .send p → p ≠ [] ∧ ∀ r ∈ p, ∃ s', step s (.send i r) = some (s', .na (s.loops i).mac r) ∧
      ((p.erase r = [] ∧ (s'.loops i).pc = .wait ∧ s'.holder = none) ∨
        (p.erase r ≠ [] ∧ (s'.loops i).pc = .send (p.erase r) ∧ (p.erase r).length < p.length))) := by
  have hI := inv_run inv_init hr
  refine ⟨fun h => by simp [step, h], fun h hf => ?_, fun p hp => ⟨(hI.sendOK i p hp).2.1, fun r hr' => ?_⟩⟩
  · simp only [step, h, free, hf, and_self, if_true]
    split
    · rfl
    · split
      · split <;> rfl
      · rfl
  · by_cases he : (p.erase r).isEmpty = true
    · refine ⟨{ s with loops := updLoop s.loops i { s.loops i with pc := .wait }, holder := none },
        by simp [step, hp, hr', he], Or.inl ⟨by simpa using he, by simp, rfl⟩⟩
    · refine ⟨{ s with loops := updLoop s.loops i { s.loops i with pc := .send (p.erase r) } },
        by simp [step, hp, hr', he], Or.inr ⟨by simpa using he, by simp, ?_⟩⟩
      rw [List.length_erase_of_mem hr']
      have := List.length_pos_of_mem hr'
      omega

def witnessMac : Bytes := [2, 0xaa, 0, 0, 0, 7]
def witnessRouter : Bytes := [0xfe, 0x80, 0, 0, 0, 0, 0, 0, 0, 0, 0, 0, 0, 0, 0, 0x11]
def witnessRA : RaIn :=
  { etherSrc := [2, 0, 0, 0, 0, 0x11], ipSrc := witnessRouter, hostKnown := true,
    payload := [134, 0, 0, 0, 64, 0, 0, 30, 0, 0, 0, 0, 0, 0, 0, 0] }

/-! ### learning routers from advertisements -/

/-- **The DNSSL label walk agrees with the reference reading of the option** whenever the names area
    is cleanly padded (`padClean`: where a name would start, a zero byte is followed by zero bytes
    only) and carries no Punycode marker `xn--` (those labels go through the third-party
    `puny.ToUnicode`): for every framed DNSSL option, `dnsslUnmarshal` returns exactly the lifetime
    and the domain names the reference reads, or fails exactly when the reference ignores the option
    (never a panic, never a hang).  Proof: Lemmas/NdpDnssl.lean (`dnssl_agree`), by induction on the
    fuel of the walk, in lock step with the reference's name reader. -/
theorem dnssl_exact :
  ∀ (o : Tlv), o.wf → o.type = 31 → hasPuny (o.body.drop 6) = false →
    padClean ((o.body.drop 6).length + 1) (o.body.drop 6) = true → DnsslAgree o :=
  fun o hw ht hp hc => PV.Lemmas.NdpDnssl.dnssl_agree o hw ht hp hc

/-- only every fourth advertisement (process-global counter) is looked at -/
theorem ra_throttle (s : State) (r : RaIn) (h16 : 16 ≤ r.payload.length) (hrep : (s.rep + 1) % 4 ≠ 0) :
    processRA s r = .ok ({ s with rep := s.rep + 1 }, true) := by
  unfold processRA
  have : ¬ r.payload.length < 16 := by omega
  simp [this, hrep]

/-- **The router table records exactly what an independent decoder reads.**  For every processed
    advertisement (throttle open, sender known): let the reference decoder split the message into
    its fixed part `fx` and option area.
    * If the reference reading of the options is a summary `sm`, the call succeeds and the entry
      stored under the source address holds `fx` (flags, preference, hop limit, lifetimes, timers)
      and exactly `sm` (prefixes, MTU, RDNSS, DNSSL, route information, source link-layer address);
      its MAC is the one recorded when the router was first seen (source link-layer option of that
      advertisement, else its Ethernet source).
    * If the reference decoder finds the option area invalid, the call fails and the table is unchanged.
    Hypothesis `hD`: the DNSSL options of the message are read as the reference reads them
    (`dnssl_exact`). -/
theorem ra_learned_exact (s : State) (r : RaIn) (h16 : 16 ≤ r.payload.length)
    (hrep : (s.rep + 1) % 4 = 0) (hk : r.hostKnown = true) :
    ∃ fx, decodeRaFixed r.payload = some (fx, r.payload.drop 16) ∧
      (tlvs (r.payload.drop 16) = none →
        processRA s r = .ok ({ s with rep := s.rep + 1 }, false)) ∧
      (∀ l, tlvs (r.payload.drop 16) = some l → (∀ o ∈ l, DnsslAgree o) →
        match summarise {} l with
        | none => processRA s r = .ok ({ s with rep := s.rep + 1 }, false)
        | some sm =>
          ∃ s', processRA s r = .ok (s', true) ∧
            entry s' r.ipSrc = some
              { mac := match entry s r.ipSrc with
                       | some old => old.mac
                       | none => raMac (ofSummary sm) r.etherSrc,
                ip := match entry s r.ipSrc with
                       | some old => old.ip
                       | none => r.ipSrc,
                hdr := ofFixed fx, options := ofSummary sm }) := by
  obtain ⟨fx, hfx, hhdr⟩ := raHeader_eq r.payload h16
  refine ⟨fx, hfx, ?_, ?_⟩
  · intro ht
    obtain ⟨e, he⟩ := (newParseOptions_eq (r.payload.drop 16)).1 ht
    unfold processRA
    have : ¬ r.payload.length < 16 := by omega
    simp only [this, if_false, hrep, ne_eq, not_true_eq_false]
    unfold raBody
    simp [hk, raOptions_drop _ h16, he]
  · intro l hl hd
    have hopt := (newParseOptions_eq (r.payload.drop 16)).2 l hl hd
    have h16' : ¬ r.payload.length < 16 := by omega
    cases hsum : summarise {} l with
    | none =>
      simp only [hsum] at hopt ⊢
      unfold processRA
      simp only [h16', if_false, hrep, ne_eq, not_true_eq_false]
      unfold raBody
      simp [hk, raOptions_drop _ h16, hopt]
    | some sm =>
      simp only [hsum] at hopt ⊢
      refine ⟨learn { s with rep := s.rep + 1 } r (ofFixed fx) (ofSummary sm), ?_, ?_⟩
      · unfold processRA
        simp only [h16', if_false, hrep, ne_eq, not_true_eq_false]
        unfold raBody
        simp [hk, raOptions_drop _ h16, hopt, hhdr]
      · exact learn_entry { s with rep := s.rep + 1 } r (ofFixed fx) (ofSummary sm)

/-- **`ra_learned_exact` without the DNSSL hypothesis**: it is enough that every DNSSL option of the
    message (as framed by the reference) has a cleanly padded names area without Punycode marker –
    a condition on the bytes of the message alone; `dnssl_exact` supplies the agreement of the label
    walk with the reference. -/
theorem ra_learned_exact' (s : State) (r : RaIn) (h16 : 16 ≤ r.payload.length)
    (hrep : (s.rep + 1) % 4 = 0) (hk : r.hostKnown = true) :
    ∃ fx, decodeRaFixed r.payload = some (fx, r.payload.drop 16) ∧
      (tlvs (r.payload.drop 16) = none →
        processRA s r = .ok ({ s with rep := s.rep + 1 }, false)) ∧
      (∀ l, tlvs (r.payload.drop 16) = some l →
        (∀ o ∈ l, o.type = 31 → hasPuny (o.body.drop 6) = false ∧
          padClean ((o.body.drop 6).length + 1) (o.body.drop 6) = true) →
        match summarise {} l with
        | none => processRA s r = .ok ({ s with rep := s.rep + 1 }, false)
        | some sm =>
          ∃ s', processRA s r = .ok (s', true) ∧
            entry s' r.ipSrc = some
              { mac := match entry s r.ipSrc with
                       | some old => old.mac
                       | none => raMac (ofSummary sm) r.etherSrc,
                ip := match entry s r.ipSrc with
                       | some old => old.ip
                       | none => r.ipSrc,
                hdr := ofFixed fx, options := ofSummary sm }) := by
  obtain ⟨fx, hfx, hnone, hsome⟩ := ra_learned_exact s r h16 hrep hk
  refine ⟨fx, hfx, hnone, ?_⟩
  intro l hl hclean
  apply hsome l hl
  intro o ho ht
  have hw := PV.Lemmas.NdpDnssl.tlvs_wf _ _ l (Nat.le_refl _) hl o ho
  exact dnssl_exact o hw ht (hclean o ho ht).1 (hclean o ho ht).2 ht

/-- the first router learned becomes the default router, which is what enables the attack loop -/
theorem ra_sets_default (s : State) (r : RaIn) (hdr : RaHeader) (o : Options)
    (hnew : entry s r.ipSrc = none) : (learn s r hdr o).defaultRouter = some r.ipSrc := by
  unfold learn
  unfold entry at hnew
  cases hf : s.routers.find? (fun e => e.1 = r.ipSrc) with
  | none => rfl
  | some e => simp [hf] at hnew

/-! ### non-vacuity -/

/-- a hunted host gets a forged NA for the learned router once the loop checked after the RA -/
example : (run {} [.startHunt witnessMac .lla, .ra witnessRA, .check 0, .send 0 witnessRouter]).map (·.2) =
    some [.start .hunt, .raResult true, .none, .na witnessMac witnessRouter] := by decide

/-- without a learned router the loop only waits: no send is enabled -/
example : run {} [.startHunt witnessMac .lla, .check 0, .send 0 witnessRouter] = none := by decide

/-- `no_na_after_stop` is not vacuous: a trace of the machine on which the host was attacked, then
    StopHunt was called; the hypotheses hold (the whole list is a run, nothing restarts the hunt) and
    the advertisements before the stop are there -/
example : (run {} ([.startHunt witnessMac .lla, .ra witnessRA, .check 0, .send 0 witnessRouter, .wake 0,
      .check 0, .send 0 witnessRouter] ++ [.stopHunt witnessMac true] ++ [.wake 0, .check 0, .ra witnessRA])).map (·.2) =
    some [.start .hunt, .raResult true, .none, .na witnessMac witnessRouter, .none, .none,
      .na witnessMac witnessRouter, .none, .none, .none, .raResult true] ∧
    NoRestart witnessMac [.wake 0, .check 0, .ra witnessRA] := by
  refine ⟨by decide, ?_⟩
  intro e he cls hc
  simp at he
  rcases he with rfl | rfl | rfl <;> cases hc

/-- the former check-then-send window is not a behaviour of the repaired code: between the check of
    an iteration and its last advertisement StopHunt (and Close) cannot run -/
example : run {} [.startHunt witnessMac .lla, .ra witnessRA, .check 0, .stopHunt witnessMac true,
    .send 0 witnessRouter] = none := by decide
example : run {} [.startHunt witnessMac .lla, .ra witnessRA, .check 0, .close, .send 0 witnessRouter] = none := by
  decide

/-- … StopHunt runs after the batch, and then nothing more can be sent -/
example : run {} [.startHunt witnessMac .lla, .ra witnessRA, .check 0, .send 0 witnessRouter,
    .stopHunt witnessMac true, .wake 0, .check 0, .send 0 witnessRouter] = none := by decide

/-- after StopHunt the next check ends the loop -/
example : (run {} [.startHunt witnessMac .lla, .ra witnessRA, .stopHunt witnessMac true, .check 0,
    .send 0 witnessRouter]) = none := by decide

/-- the reference decoder reads an MTU and a source link-layer option -/
example : decodeOptions [5, 1, 0, 0, 0, 0, 5, 0xdc, 1, 1, 2, 3, 4, 5, 6, 7] =
    some { mtu := 1500, slla := some [2, 3, 4, 5, 6, 7] } := by
  simp [decodeOptions, tlvs, summarise, decodeOne, Summary.add, nat32]

/-- a DNSSL option (two names, zero padding) satisfies the hypotheses of `dnssl_exact`, and the code
    reads `a.bc` and `d` from it -/
def witnessDnssl : Tlv := ⟨31, 3, [0, 0, 0, 0, 0, 60, 1, 97, 2, 98, 99, 0, 1, 100, 0, 0, 0, 0, 0, 0, 0, 0]⟩

example : witnessDnssl.wf ∧ witnessDnssl.type = 31 ∧ hasPuny (witnessDnssl.body.drop 6) = false ∧
    padClean ((witnessDnssl.body.drop 6).length + 1) (witnessDnssl.body.drop 6) = true ∧
    dnsslUnmarshal witnessDnssl.bytes = .ok { lifetime := 60, names := [[97, 46, 98, 99], [100]], puny := false } := by
  refine ⟨⟨by decide, by decide, by decide⟩, rfl, by decide, by decide, by decide⟩

/-- the padding hypothesis of `dnssl_exact` cannot be dropped: with a non-zero byte after the zero
    byte that ends the list, the code accepts the option (it stops at that zero byte) while the
    reference ignores it -/
theorem dnssl_padding_needed :
    ¬ DnsslAgree ⟨31, 2, [0, 0, 0, 0, 0, 60, 1, 97, 0, 0, 1, 0, 0, 0]⟩ := by
  intro h
  exact absurd (h rfl) (by decide)

end PV.Props.C14
