/-
  C07 — Every transmitted frame is well-formed and sourced from the host NIC MAC.
  One theorem per send path of `Model/Encode.lean` (the handlers emit only through these compositions):
  for all well-formed arguments and **all previous buffer contents** the frame written to the connection is
  accepted by the independent reference decoder `Spec.Wire` as a complete, length-consistent packet of the
  intended protocol with the requested fields, Ethernet source = the configured host MAC, verifying IPv4
  header / ICMP / ICMPv6 / UDP-over-IPv6 checksums, hop limit 255 for link-local neighbour discovery.
-/
import PacketVerif.Lemmas.Encode
import PacketVerif.Props.C15
namespace PV.Props.C07
open PV PV.Model PV.Lemmas

/-- arp_spoofer RequestRaw / reply / Request / Probe / AnnounceTo -/
theorem sent_arp_wf (g : Mem) (hostMAC dst : Bytes) (op : Nat) (smac sip tmac tip : Bytes)
    (h1 : hostMAC.length = 6) (h2 : dst.length = 6) (h3 : smac.length = 6) (h4 : sip.length = 4)
    (h5 : tmac.length = 6) (h6 : tip.length = 4) (hop : op < 65536) (hcap : g.length = 1522) :
    ∃ f, sendARP g hostMAC dst op smac sip tmac tip = .ok f ∧ Spec.Wire.wfARP hostMAC dst op smac sip tmac tip f = none := by
  exact ⟨_, sendARP_frame g hostMAC dst op smac sip tmac tip h1 h2 h3 h4 h5 h6 hop (by omega),
    wfARP_frame hostMAC dst op smac sip tmac tip h1 h2 h3 h4 h5 h6 hop⟩

/-- Session.arpRequest (the purge probe) -/
theorem sent_session_arp_wf (g : Mem) (hostMAC dst smac sip tmac tip : Bytes)
    (h1 : hostMAC.length = 6) (h2 : dst.length = 6) (h3 : smac.length = 6) (h4 : sip.length = 4)
    (h5 : tmac.length = 6) (h6 : tip.length = 4) (hcap : g.length = 1522) :
    ∃ f, sessionArpRequest g hostMAC dst smac sip tmac tip = .ok f ∧
      Spec.Wire.wfARP hostMAC dst 1 smac sip tmac tip f = none := by
  exact ⟨_, sessionArpRequest_frame g hostMAC dst smac sip tmac tip h1 h2 h3 h4 h5 h6 (by omega),
    wfARP_frame hostMAC dst 1 smac sip tmac tip h1 h2 h3 h4 h5 h6 (by decide)⟩

/-- sendDHCP4Packet / sendNBNS / SendSSDPSearch / sendMDNS (IPv4) -/
theorem sent_udp4_wf (g : Mem) (hostMAC dstMAC sip dip : Bytes) (ttl : UInt8) (sp dp : Nat) (payload : Bytes)
    (h1 : hostMAC.length = 6) (h2 : dstMAC.length = 6) (h3 : sip.length = 4) (h4 : dip.length = 4)
    (hsp : sp < 65536) (hdp : dp < 65536) (hfit : 42 + payload.length ≤ 1522) (hcap : g.length = 1522) :
    ∃ f, sendUDP4 g hostMAC dstMAC ttl sip dip sp dp payload = .ok f ∧
      Spec.Wire.wfUDP4 hostMAC dstMAC sip dip sp dp payload f = none := by
  exact ⟨_, sendUDP4_frame g hostMAC dstMAC sip dip ttl sp dp payload h1 h2 h3 h4 hsp hdp (by omega) (by omega),
    wfUDP4_frame hostMAC dstMAC sip dip ttl sp dp payload h1 h2 h3 h4 hsp hdp (by omega)⟩

/-- sendMDNS (IPv6) incl. the mandatory UDP checksum; the caller supplies the matching group MAC -/
theorem sent_udp6_wf (g : Mem) (hostMAC dstMAC sip dip : Bytes) (hop : UInt8) (sp dp : Nat) (payload : Bytes)
    (h1 : hostMAC.length = 6) (h2 : dstMAC.length = 6) (h3 : sip.length = 16) (h4 : dip.length = 16)
    (hsp : sp < 65536) (hdp : dp < 65536) (hfit : 62 + payload.length ≤ 1522) (hcap : g.length = 1522)
    (hm : Spec.Wire.u8 dip 0 = 0xff → dstMAC = Spec.Wire.mcastMAC6 dip) :
    ∃ f, sendUDP6 g hostMAC dstMAC hop sip dip sp dp payload = .ok f ∧
      Spec.Wire.wfUDP6 hostMAC dstMAC sip dip sp dp payload f = none := by
  exact ⟨_, sendUDP6_frame g hostMAC dstMAC sip dip hop sp dp payload h1 h2 h3 h4 hsp hdp (by omega) (by omega),
    wfUDP6_frame hostMAC dstMAC sip dip hop sp dp payload h1 h2 h3 h4 hsp hdp (by omega) hm⟩

/-- icmp4SendPacket (ICMP4SendEchoRequest): message passed with a zero checksum field -/
theorem sent_icmp4_wf (g : Mem) (hostMAC dstMAC sip dip : Bytes) (t code : UInt8) (rest : Bytes)
    (h1 : hostMAC.length = 6) (h2 : dstMAC.length = 6) (h3 : sip.length = 4) (h4 : dip.length = 4)
    (hlen : 4 ≤ rest.length) (hfit : 38 + rest.length ≤ 1522) (hcap : g.length = 1522) :
    let msg := t :: code :: 0 :: 0 :: rest
    ∃ f, sendICMP4 g hostMAC dstMAC sip dip msg = .ok f ∧ Spec.Wire.wfICMP4 hostMAC dstMAC sip dip msg f = none := by
  intro msg
  have hl : msg.length = rest.length + 4 := by simp [msg]
  exact ⟨_, sendICMP4_frame g hostMAC dstMAC sip dip msg h1 h2 h3 h4 (by omega) (by omega) (by omega),
    wfICMP4_frame hostMAC dstMAC sip dip t code rest h1 h2 h3 h4 hlen (by omega)⟩

/-- icmp6SendPacket (echo, NS, NA, RS, RA): pseudo-header checksum, hop limit 255 to link-local destinations -/
theorem sent_icmp6_wf (g : Mem) (hostMAC dstMAC sip dip : Bytes) (t code : UInt8) (rest : Bytes)
    (h1 : hostMAC.length = 6) (h2 : dstMAC.length = 6) (h3 : sip.length = 16) (h4 : dip.length = 16)
    (hlen : 4 ≤ rest.length) (hfit : 58 + rest.length ≤ 1522) (hcap : g.length = 1522)
    (hm : Spec.Wire.u8 dip 0 = 0xff → dstMAC = Spec.Wire.mcastMAC6 dip) :
    let msg := t :: code :: 0 :: 0 :: rest
    ∃ f, sendICMP6 g hostMAC dstMAC sip dip msg = .ok f ∧ Spec.Wire.wfICMP6 hostMAC dstMAC sip dip msg f = none := by
  intro msg
  have hl : msg.length = rest.length + 4 := by simp [msg]
  exact ⟨_, sendICMP6_frame g hostMAC dstMAC sip dip msg h1 h2 h3 h4 (by omega) (by omega) (by omega),
    wfICMP6_frame hostMAC dstMAC sip dip t code rest h1 h2 h3 h4 hlen (by omega) hm⟩

/-- none of the send paths depends on what the pooled buffer held before -/
theorem sent_independent_of_garbage (g g' : Mem) (hg : g.length = 1522) (hg' : g'.length = 1522)
    (hostMAC dstMAC sip dip msg : Bytes) (h1 : hostMAC.length = 6) (h2 : dstMAC.length = 6)
    (h3 : sip.length = 16) (h4 : dip.length = 16) (hl : 4 ≤ msg.length) (hfit : 54 + msg.length ≤ 1522) :
    sendICMP6 g hostMAC dstMAC sip dip msg = sendICMP6 g' hostMAC dstMAC sip dip msg := by
  rw [sendICMP6_frame g hostMAC dstMAC sip dip msg h1 h2 h3 h4 hl (by omega) (by omega),
    sendICMP6_frame g' hostMAC dstMAC sip dip msg h1 h2 h3 h4 hl (by omega) (by omega)]

/-- non-vacuity: the hypotheses are met by real arguments (a pooled 1522-byte buffer of arbitrary contents) -/
example : ∃ f, sendUDP4 (List.replicate 1522 0xaa) [2,0,0,0,0,1] [0xff,0xff,0xff,0xff,0xff,0xff] 64 [192,168,0,1]
      [255,255,255,255] 68 67 [1,2,3] = .ok f ∧
    Spec.Wire.wfUDP4 [2,0,0,0,0,1] [0xff,0xff,0xff,0xff,0xff,0xff] [192,168,0,1] [255,255,255,255] 68 67 [1,2,3] f = none :=
  sent_udp4_wf _ _ _ _ _ _ _ _ _ rfl rfl rfl rfl (by decide) (by decide) (by decide) List.length_replicate

example : ∃ f, sendICMP6 (List.replicate 1522 0) [2,0,0,0,0,1] [0x33,0x33,0,0,0,1]
      [0xfe,0x80,0,0,0,0,0,0,0,0,0,0,0,0,0,1] [0xff,0x02,0,0,0,0,0,0,0,0,0,0,0,0,0,1] (128 :: 0 :: 0 :: 0 :: [0,1,0,1]) = .ok f ∧
    Spec.Wire.wfICMP6 [2,0,0,0,0,1] [0x33,0x33,0,0,0,1] [0xfe,0x80,0,0,0,0,0,0,0,0,0,0,0,0,0,1]
      [0xff,0x02,0,0,0,0,0,0,0,0,0,0,0,0,0,1] (128 :: 0 :: 0 :: 0 :: [0,1,0,1]) f = none :=
  sent_icmp6_wf _ _ _ _ _ 128 0 [0,1,0,1] rfl rfl rfl rfl (by decide) (by decide) List.length_replicate (fun _ => by decide)

end PV.Props.C07
