/-
  C17 — DNS records and names decode as a reference decoder; merges are monotone.
  Property theorems only; helper lemmas live in `Lemmas/DnsSpec.lean`, `Lemmas/DnsRR.lean`,
  `Lemmas/Naming.lean`, `Lemmas/DnsRRComplete.lean` (reference fold `refEntry`, first-wins lists),
  `Lemmas/Nbns.lean` (`firstNodeName`, the answer scan `NbnsScan`), `Lemmas/MdnsSpec.lean`
  (ProcessMDNS = reference decoder record by record: `refMdns`, `MRecOK`).

  Reference: `Spec.NameAt` (RFC 1035 §3.1/§4.1.4 as finite derivations: labels of 1..63 octets,
  root octet, pointers only to positions strictly before the name that contains them) and
  `Spec.WfName` (+ total wire length ≤ 255).  Model: `Model.decodeName` etc. = the Go code after
  the `fix:` commits (KNOWN_FINDINGS.txt).

  "Attributes" of a `NameEntry` are Name, Model, OS and Manufacturer.  `Type` is the tag of the
  source that supplied the last update and `Expire` its refresh time; `Merge` always copies the
  former and refreshes the latter only together with an attribute change (stated below).
-/
import PacketVerif.Lemmas.DnsRRSpec
import PacketVerif.Lemmas.DnsRRComplete
import PacketVerif.Lemmas.Naming
import PacketVerif.Lemmas.DnsMsgSpec
import PacketVerif.Lemmas.DnsMsg
import PacketVerif.Lemmas.Nbns
import PacketVerif.Lemmas.MdnsSpec
import PacketVerif.Lemmas.DnsProcess
namespace PV.Props.C17
open PV PV.Model PV.Spec PV.Lemmas.Dns PV.Lemmas.Naming PV.Lemmas.Nbns PV.Lemmas.Mdns

/-! ### names -/

/-- **decodeName = reference decoder on well-formed names**, including compressed and
    pointer-chained names: if the message holds a well-formed name at `off` (labels `ls`, own
    encoding ending at `e`, `d` pointers followed) with `d ≤ 254` (the implementation's recursion
    limit `maxRecursionLevel = 255`; dnsmessage stops at 10), the decoder returns exactly the
    reference text and end offset. -/
theorem decodeName_eq_spec (m : Bytes) (off : Nat) (ls : List Bytes) (e d : Nat)
    (h : WfName m off ls e d) (hd : d ≤ 254) :
    decodeName m off 1 = .ok (text ls, e) := by
  obtain ⟨hn, hw⟩ := h
  have hlt : off < m.length := by
    cases hn with
    | root h => exact getElem?_lt h
    | label h _ _ _ _ => exact getElem?_lt h
    | ptr h _ _ _ _ => exact getElem?_lt h
  have hdl := dotted_length ls
  unfold decodeName
  have c1 : ¬ (1 > maxRecursionLevel) := by decide
  have c2 : ¬ ((off : Int) ≥ (m.length : Int)) := by omega
  have c3 : ¬ ((off : Int) < 0) := by omega
  simp only [c1, c2, c3, if_false]
  have : decodeSeg nameFuel m (off : Int).toNat 1 = .ok (dotted ls, e) := by
    simpa [nameFuel] using decodeSeg_complete hn 256 1 (by omega) (by omega) (by omega)
  rw [this]
  simp [nameOf_dotted]

/-- **everything decodeName accepts is a reference name**: the returned bytes are the text of a
    `NameAt` derivation ending exactly at the returned offset, assembled from at most 254 pointers,
    of uncompressed wire length ≤ 256 (RFC limit 255 + the one byte of slack the code's
    `> 255` tests leave).  Since derivations are loop-free, have only prior pointers, only label
    types `00`/`11`, labels of ≤ 63 octets lying inside the message, this is the rejection
    theorem in its strongest form. -/
theorem decodeName_sound (m : Bytes) (off : Int) (n : Bytes) (e : Nat)
    (h : decodeName m off 1 = .ok (n, e)) :
    0 ≤ off ∧ ∃ ls d, NameAt m off.toNat off.toNat ls e d ∧ n = text ls ∧ wireLen ls ≤ 256 ∧ d ≤ 254 :=
  decodeName_accepts m off n e h

/-- **rejection**: a name for which no reference derivation exists (pointer loop, pointer that is
    not prior, reserved label bits `01`/`10`, a label or pointer running past the end, offset
    outside the message) is refused with an error — never accepted, never a panic or a hang. -/
theorem decodeName_rejects (m : Bytes) (off : Int)
    (h : ¬ ∃ ls e d, NameAt m off.toNat off.toNat ls e d) : ∃ er, decodeName m off 1 = .err er := by
  have hs := decodeName_safe m off 1 (Nat.le_refl _)
  cases hr : decodeName m off 1 with
  | ok v =>
    obtain ⟨n, e⟩ := v
    obtain ⟨_, ls, d, hn, _⟩ := decodeName_sound m off n e hr
    exact absurd ⟨ls, e, d, hn⟩ h
  | err er => exact ⟨er, rfl⟩
  | panic => exact absurd hr hs.1
  | hang => exact absurd hr hs.2

/-- names whose uncompressed form exceeds 256 octets are refused even when they are assembled
    through compression pointers (fix commit; before it a 383-byte name was returned) -/
theorem decodeName_rejects_long (m : Bytes) (off : Nat) (ls : List Bytes) (e d : Nat)
    (hn : NameAt m off off ls e d) (hlong : 256 < wireLen ls) : ∃ er, decodeName m off 1 = .err er := by
  have hs := decodeName_safe m off 1 (Nat.le_refl _)
  cases hr : decodeName m off 1 with
  | ok v =>
    obtain ⟨n, e'⟩ := v
    obtain ⟨_, ls', d', hn', _, hw, _⟩ := decodeName_sound m off n e' hr
    have : ls' = ls := by
      have a := nameAt?_complete hn
      have b := nameAt?_complete hn'
      simp at b
      rw [a] at b
      injection b with b
      injection b with b _
      exact b.symm
    subst this
    omega
  | err er => exact ⟨er, rfl⟩
  | panic => exact absurd hr hs.1
  | hang => exact absurd hr hs.2

/-- the executable reference used by the driver (`spec=` part of `dns.name` replies) decides
    exactly the declarative one -/
theorem spec_exec_iff (m : Bytes) (start pos : Nat) (ls : List Bytes) (e d : Nat) :
    nameAt? m start pos = some (ls, e, d) ↔ NameAt m start pos ls e d :=
  ⟨nameAt?_sound m start pos ls e d, nameAt?_complete⟩

/-! ### questions and resource records -/

/-- pointer depth of the reference name at `off` (0 when there is none) -/
def depthAt (m : Bytes) (off : Nat) : Nat :=
  match decodeName? m off with
  | some (_, _, d) => d
  | none => 0

/-- **DecodeQuestion = reference** on a message whose question (at offset 12) is well-formed,
    QDCOUNT = 1: name, type, class and the offset after the question. -/
theorem decodeQuestion_eq_spec (m : Bytes) (q : Spec.Question) (e : Nat)
    (hq : questionAt? m 12 = some (q, e)) (hqd : u16At m 4 = some 1) (hd : depthAt m 12 ≤ 254) :
    decodeQuestion m 12 = .ok ({ name := q.name, qtype := q.qtype, qclass := q.qclass }, e) := by
  unfold questionAt? at hq
  cases hn : decodeName? m 12 with
  | none => rw [hn] at hq; simp at hq
  | some v =>
    obtain ⟨t, e0, d⟩ := v
    rw [hn] at hq
    simp only [bind, Option.bind, pure] at hq
    simp only [depthAt, hn] at hd
    cases ht : u16At m e0 with
    | none => rw [ht] at hq; simp at hq
    | some ty =>
      cases hc : u16At m (e0 + 2) with
      | none => rw [ht, hc] at hq; simp at hq
      | some cl =>
        rw [ht, hc] at hq
        simp at hq
        obtain ⟨rfl, rfl⟩ := hq
        obtain ⟨hdn, hlt, hlen⟩ := decodeName_of_spec hn hd
        obtain ⟨r1, l1⟩ := rd16_of_u16At hqd
        obtain ⟨r2, l2⟩ := rd16_of_u16At ht
        obtain ⟨r3, l3⟩ := rd16_of_u16At hc
        unfold decodeQuestion
        rw [if_neg (by omega), r1]
        simp only []
        have : decodeName m (12 : Int) 1 = .ok (t, e0) := by simpa using hdn
        rw [if_neg (by omega), if_neg (by omega), this]
        simp only []
        rw [if_neg (by omega), r2, r3]
/-- **A record**: a well-formed record of type A with 4 bytes of RDATA is stored under its address with
    the reference owner name and TTL unless that address is already present (first record wins);
    the returned offset is the reference end of the record. -/
theorem decodeRR_A_eq_spec (ip6 : Bytes → PtrIP) (ent : DNSEntry) (m : Bytes) (off : Nat) (r : RR) (o : Nat)
    (h : rrAt? m off = some (r, o)) (hd : depthAt m off ≤ 254) (ht : r.rtype = 1) (hl : r.rdata.length = 4) :
    decodeRR ip6 ent m off =
      .ok (if hasIP ent.ip4 r.rdata then (ent, o, false)
           else ({ ent with ip4 := ent.ip4 ++ [{ name := r.name, ip := r.rdata, ttl := r.ttl }] }, o, true)) := by
  obtain ⟨e, d, rdl, hn, h1, h2, h3, h4, h5, _, rfl⟩ := rrAt_facts h
  simp only [depthAt, hn] at hd
  obtain ⟨hdn, _, _⟩ := decodeName_of_spec hn hd
  obtain ⟨r1, _⟩ := rd16_of_u16At h1
  obtain ⟨r2, _⟩ := rd32_of_u32At h2
  obtain ⟨r3, _⟩ := rd16_of_u16At h3
  have hrdl : rdl = 4 := by rw [h5] at hl; simp at hl; omega
  subst hrdl
  unfold decodeRR
  rw [hdn]
  simp only []
  rw [if_neg (by omega), r1, r2, r3]
  simp only [ht]
  rw [if_neg (by omega), if_pos trivial, if_neg (by simp), slice_ok (by omega) (by omega), slice_eq_drop_take]
  have : e + 10 + 4 - (e + 10) = 4 := by omega
  simp only [this, ← h5]
  split <;> simp_all
/-- **AAAA record** (16 bytes of RDATA) -/
theorem decodeRR_AAAA_eq_spec (ip6 : Bytes → PtrIP) (ent : DNSEntry) (m : Bytes) (off : Nat) (r : RR) (o : Nat)
    (h : rrAt? m off = some (r, o)) (hd : depthAt m off ≤ 254) (ht : r.rtype = 28) (hl : r.rdata.length = 16) :
    decodeRR ip6 ent m off =
      .ok (if hasIP ent.ip6 r.rdata then (ent, o, false)
           else ({ ent with ip6 := ent.ip6 ++ [{ name := r.name, ip := r.rdata, ttl := r.ttl }] }, o, true)) := by
  obtain ⟨e, d, rdl, hn, h1, h2, h3, h4, h5, _, rfl⟩ := rrAt_facts h
  simp only [depthAt, hn] at hd
  obtain ⟨hdn, _, _⟩ := decodeName_of_spec hn hd
  obtain ⟨r1, _⟩ := rd16_of_u16At h1
  obtain ⟨r2, _⟩ := rd32_of_u32At h2
  obtain ⟨r3, _⟩ := rd16_of_u16At h3
  have hrdl : rdl = 16 := by rw [h5] at hl; simp at hl; omega
  subst hrdl
  unfold decodeRR
  rw [hdn]
  simp only []
  rw [if_neg (by omega), r1, r2, r3]
  simp only [ht]
  rw [if_neg (by omega), if_neg (by decide), if_pos trivial, if_neg (by simp), slice_ok (by omega) (by omega), slice_eq_drop_take]
  have : e + 10 + 16 - (e + 10) = 16 := by omega
  simp only [this, ← h5]
  split <;> simp_all

/-- **CNAME record**: owner and target are the reference names (the target may be compressed
    against the whole message); keyed by owner, first record wins.  (Before the fix the owner was
    overwritten by the target in the shared decode buffer.) -/
theorem decodeRR_CNAME_eq_spec (ip6 : Bytes → PtrIP) (ent : DNSEntry) (m : Bytes) (off : Nat) (r : RR) (o : Nat)
    (ct : Bytes) (ce cd : Nat)
    (h : rrAt? m off = some (r, o)) (hd : depthAt m off ≤ 254) (ht : r.rtype = 5)
    (hc : decodeName? m r.rdataOff = some (ct, ce, cd)) (hcd : cd ≤ 254) :
    decodeRR ip6 ent m off =
      .ok (if hasCName ent.cname r.name then (ent, o, false)
           else ({ ent with cname := ent.cname ++ [{ name := r.name, cname := ct, ttl := r.ttl }] }, o, true)) := by
  obtain ⟨e, d, rdl, hn, h1, h2, h3, h4, h5, h6, rfl⟩ := rrAt_facts h
  simp only [depthAt, hn] at hd
  obtain ⟨hdn, _, _⟩ := decodeName_of_spec hn hd
  rw [h6] at hc
  obtain ⟨hcn, _, _⟩ := decodeName_of_spec hc hcd
  obtain ⟨r1, _⟩ := rd16_of_u16At h1
  obtain ⟨r2, _⟩ := rd32_of_u32At h2
  obtain ⟨r3, _⟩ := rd16_of_u16At h3
  unfold decodeRR
  rw [hdn]
  simp only []
  rw [if_neg (by omega), r1, r2, r3]
  simp only [ht]
  rw [if_neg (by omega), if_neg (by decide), if_neg (by decide), if_pos trivial, hcn]
  simp only []
  split <;> simp_all
/-- **PTR record** whose owner `d.c.b.a.in-addr.arpa` parses as an IPv4 address: stored under the
    reference target name with the address a.b.c.d and the TTL. -/
theorem decodeRR_PTR_eq_spec (ip6 : Bytes → PtrIP) (ent : DNSEntry) (m : Bytes) (off : Nat) (r : RR) (o : Nat)
    (pt : Bytes) (pe pd a b c d : Nat)
    (h : rrAt? m off = some (r, o)) (hd : depthAt m off ≤ 254) (ht : r.rtype = 12)
    (hip : parsePtrIP ip6 (trimSuffix r.name inAddrArpa) = .v4 a b c d)
    (hc : decodeName? m r.rdataOff = some (pt, pe, pd)) (hpd : pd ≤ 254) :
    decodeRR ip6 ent m off =
      .ok (if hasIPName ent.ptr pt then (ent, o, false)
           else ({ ent with ptr := ent.ptr ++ [{ name := pt, ip := [UInt8.ofNat d, UInt8.ofNat c, UInt8.ofNat b, UInt8.ofNat a], ttl := r.ttl }] }, o, true)) := by
  obtain ⟨e, d', rdl, hn, h1, h2, h3, h4, h5, h6, rfl⟩ := rrAt_facts h
  simp only [depthAt, hn] at hd
  obtain ⟨hdn, _, _⟩ := decodeName_of_spec hn hd
  rw [h6] at hc
  obtain ⟨hcn, _, _⟩ := decodeName_of_spec hc hpd
  obtain ⟨r1, _⟩ := rd16_of_u16At h1
  obtain ⟨r2, _⟩ := rd32_of_u32At h2
  obtain ⟨r3, _⟩ := rd16_of_u16At h3
  unfold decodeRR
  rw [hdn]
  simp only []
  rw [if_neg (by omega), r1, r2, r3]
  simp only [ht]
  rw [if_neg (by omega), if_neg (by decide), if_neg (by decide), if_neg (by decide), if_neg (by decide), if_pos trivial, hip]
  simp only [hcn]
  split <;> simp_all

example : parsePtrIP (fun _ => .invalid) (trimSuffix [50,48,51,46,54,55,46,50,53,51,46,49,55,46,105,110,45,97,100,100,114,46,97,114,112,97] inAddrArpa)
    = .v4 203 67 253 17 := by decide

/-! ### merge algebra: `NameEntry.Merge` -/

/-- merging never erases a previously known non-empty attribute -/
theorem merge_no_erase (e n : NameEntry) :
    ((e.merge n).1.name = [] → e.name = []) ∧ ((e.merge n).1.model = [] → e.model = []) ∧
    ((e.merge n).1.os = [] → e.os = []) ∧ ((e.merge n).1.manufacturer = [] → e.manufacturer = []) := by
  simp only [NameEntry.merge]
  exact ⟨mergeAttr_no_erase _ _, mergeAttr_no_erase _ _, mergeAttr_no_erase _ _, mergeAttr_no_erase _ _⟩

/-- `modified` is reported exactly when some attribute changed -/
theorem merge_reports_change_iff (e n : NameEntry) :
    (e.merge n).2 = true ↔
      ((e.merge n).1.name ≠ e.name ∨ (e.merge n).1.model ≠ e.model ∨ (e.merge n).1.os ≠ e.os ∨
        (e.merge n).1.manufacturer ≠ e.manufacturer) := by
  simp only [NameEntry.merge, Bool.or_eq_true]
  rw [mergeAttr_changed, mergeAttr_changed, mergeAttr_changed, mergeAttr_changed]
  constructor
  · rintro (((h | h) | h) | h)
    · exact Or.inl h
    · exact Or.inr (Or.inl h)
    · exact Or.inr (Or.inr (Or.inl h))
    · exact Or.inr (Or.inr (Or.inr h))
  · rintro (h | h | h | h)
    · exact Or.inl (Or.inl (Or.inl h))
    · exact Or.inl (Or.inl (Or.inr h))
    · exact Or.inl (Or.inr h)
    · exact Or.inr h

/-- merging the same entry again changes nothing and reports no change -/
theorem merge_idem (e n : NameEntry) : (e.merge n).1.merge n = ((e.merge n).1, false) := by
  simp [NameEntry.merge, mergeAttr_idem]

/-- a new attribute value is taken over exactly when it is non-empty and different -/
theorem merge_takes_new (e n : NameEntry) :
    (e.merge n).1.name = (if n.name ≠ [] ∧ e.name ≠ n.name then n.name else e.name) ∧
    (e.merge n).1.model = (if n.model ≠ [] ∧ e.model ≠ n.model then n.model else e.model) ∧
    (e.merge n).1.os = (if n.os ≠ [] ∧ e.os ≠ n.os then n.os else e.os) ∧
    (e.merge n).1.manufacturer = (if n.manufacturer ≠ [] ∧ e.manufacturer ≠ n.manufacturer then n.manufacturer else e.manufacturer) := by
  simp only [NameEntry.merge]
  exact ⟨mergeAttr_fst _ _, mergeAttr_fst _ _, mergeAttr_fst _ _, mergeAttr_fst _ _⟩

/-- the two non-attribute fields: `Type` is always the source's, `Expire` is refreshed only
    together with an attribute change (and only by a non-zero time) -/
theorem merge_type_expire (e n : NameEntry) :
    (e.merge n).1.type = n.type ∧
    (e.merge n).1.expire = (if (e.merge n).2 = true ∧ n.expire ≠ 0 then n.expire else e.expire) := by
  exact ⟨rfl, rfl⟩

/-! ### `Host.Update*Name` (all five sources) -/

/-- attributes of slot `s` of the host changed -/
def attrsChanged (a b : NameEntry) : Prop :=
  a.name ≠ b.name ∨ a.model ≠ b.model ∨ a.os ≠ b.os ∨ a.manufacturer ≠ b.manufacturer

/-- **dirty exactly on change**: after `Update<s>Name` the notification flag is set iff it was
    set before or an attribute of the host's `<s>` slot changed -/
theorem update_dirty_iff (h : HostNames) (s : Source) (n : NameEntry) :
    (h.update s n).dirty = true ↔ (h.dirty = true ∨ attrsChanged ((h.update s n).host.get s) (h.host.get s)) := by
  have hc := merge_reports_change_iff (h.host.get s) n
  unfold attrsChanged
  simp only [HostNames.update]
  cases hm : (h.host.get s).merge n with
  | mk e notify =>
    rw [hm] at hc
    simp only [] at hc ⊢
    cases notify with
    | true =>
      simp only [if_true, get_set_same]
      exact ⟨fun _ => Or.inr (hc.mp rfl), fun _ => trivial⟩
    | false =>
      simp only [Bool.false_eq_true, if_false, get_set_same]
      constructor
      · intro hd; exact Or.inl hd
      · rintro (hd | hch)
        · exact hd
        · exact absurd (hc.mpr hch) (by simp)

/-- the other four slots of host and MAC entry are untouched -/
theorem update_other_slots (h : HostNames) (s s' : Source) (n : NameEntry) (hne : s' ≠ s) :
    (h.update s n).host.get s' = h.host.get s' ∧ (h.update s n).mac.get s' = h.mac.get s' := by
  simp only [HostNames.update]
  cases hm : (h.host.get s).merge n with
  | mk e notify =>
    cases notify <;> simp [get_set_other _ _ _ _ hne]

/-- no attribute of the host slot or of the MAC entry's slot is erased -/
theorem update_no_erase (h : HostNames) (s : Source) (n : NameEntry) :
    (((h.update s n).host.get s).name = [] → (h.host.get s).name = []) ∧
    (((h.update s n).host.get s).model = [] → (h.host.get s).model = []) ∧
    (((h.update s n).host.get s).os = [] → (h.host.get s).os = []) ∧
    (((h.update s n).host.get s).manufacturer = [] → (h.host.get s).manufacturer = []) ∧
    (((h.update s n).mac.get s).name = [] → (h.mac.get s).name = []) ∧
    (((h.update s n).mac.get s).model = [] → (h.mac.get s).model = []) ∧
    (((h.update s n).mac.get s).os = [] → (h.mac.get s).os = []) ∧
    (((h.update s n).mac.get s).manufacturer = [] → (h.mac.get s).manufacturer = []) := by
  have hh := merge_no_erase (h.host.get s) n
  simp only [HostNames.update]
  cases hm : (h.host.get s).merge n with
  | mk e notify =>
    rw [hm] at hh
    simp only [] at hh
    cases notify with
    | true =>
      have hmac := merge_no_erase (h.mac.get s) e
      simp only [if_true, get_set_same]
      exact ⟨hh.1, hh.2.1, hh.2.2.1, hh.2.2.2, hmac.1, hmac.2.1, hmac.2.2.1, hmac.2.2.2⟩
    | false =>
      simp only [Bool.false_eq_true, if_false, get_set_same]
      exact ⟨hh.1, hh.2.1, hh.2.2.1, hh.2.2.2, id, id, id, id⟩

/-- idempotent: once the notification has been delivered (flag cleared), the same update again
    changes neither the host, nor the MAC entry, nor the flag -/
theorem update_idem (h : HostNames) (s : Source) (n : NameEntry) :
    ({ h.update s n with dirty := false }).update s n = { h.update s n with dirty := false } := by
  have hi := merge_idem (h.host.get s) n
  simp only [HostNames.update]
  by_cases hnot : ((h.host.get s).merge n).snd = true
  · simp [hnot, get_set_same, hi, set_set]
  · simp [hnot, get_set_same, hi, set_set]

/-- without an attribute change the MAC entry is not written at all -/
theorem update_mac_unchanged (h : HostNames) (s : Source) (n : NameEntry)
    (hno : ((h.host.get s).merge n).2 = false) : (h.update s n).mac = h.mac ∧ (h.update s n).dirty = h.dirty := by
  simp only [HostNames.update]
  cases hm : (h.host.get s).merge n with
  | mk e notify =>
    rw [hm] at hno
    simp only [] at hno
    subst hno
    simp

/-- **ProcessDNS stores only reference records**: for a response whose question and answer
    section the reference decodes (`questionAt?`, `rrsAt?` over ANCOUNT records), the entry
    returned (and stored) by ProcessDNS on a fresh table carries the reference question name,
    and every A / AAAA record in it is a reference record of that type: same owner name
    (decompressed), address bytes and TTL.  (Completeness per record: `decodeRR_*_eq_spec`.) -/
theorem processDNS_eq_spec (ip6 : Bytes → PtrIP) (m : Bytes) (q : Spec.Question) (qe : Nat) (rrs : List Spec.RR) (o an : Nat)
    (hq : questionAt? m 12 = some (q, qe)) (han : u16At m 6 = some an) (hrr : rrsAt? m an qe = some (rrs, o))
    (e : DNSEntry) (hp : (processDNS ip6 [] m).2 = .ok (some e)) :
    e.name = q.name ∧
    (∀ x ∈ e.ip4, ∃ s ∈ rrs, s.rtype = 1 ∧ s.name = x.name ∧ s.rdata = x.ip ∧ s.ttl = x.ttl) ∧
    (∀ x ∈ e.ip6, ∃ s ∈ rrs, s.rtype = 28 ∧ s.name = x.name ∧ s.rdata = x.ip ∧ s.ttl = x.ttl) := by
  unfold processDNS at hp
  split at hp
  · simp at hp
  next h12 =>
    cases hdq : decodeQuestion m 12 with
    | ok v =>
      obtain ⟨q', idx⟩ := v
      rw [hdq] at hp
      obtain ⟨hqn, rfl⟩ := decodeQuestion_agree hdq hq
      simp only [DNSTable.find, List.find?_nil, Option.isSome_none, Bool.false_eq_true, if_false] at hp
      unfold decodeAnswers at hp
      rw [if_neg (by omega)] at hp
      obtain ⟨r6, _⟩ := rd16_of_u16At han
      rw [r6] at hp
      simp only [] at hp
      cases hd : decodeRRs ip6 an (DNSEntry.empty q'.name) m idx false with
      | mk e' r =>
        rw [hd] at hp
        simp only [] at hp
        cases r with
        | ok w =>
          obtain ⟨off', upd⟩ := w
          simp only [] at hp
          split at hp
          · injection hp with hp
            injection hp with hp
            subst hp
            obtain ⟨_, b2, b3, b4⟩ := decodeRRs_sound ip6 m an _ _ idx rrs o off' false upd hrr hd
            refine ⟨by rw [b2, ← hqn]; rfl, ?_, ?_⟩
            · intro x hx
              rcases b3 x hx with h | h
              · simp [DNSEntry.empty] at h
              · exact h
            · intro x hx
              rcases b4 x hx with h | h
              · simp [DNSEntry.empty] at h
              · exact h
          · simp at hp
        | err er => simp at hp
        | panic => simp at hp
        | hang => simp at hp
    | err er => rw [hdq] at hp; simp at hp
    | panic => rw [hdq] at hp; simp at hp
    | hang => rw [hdq] at hp; simp at hp

/-! ### completeness of the ProcessDNS fold -/

/-- the RDATA of a CNAME / PTR record holds a reference name assembled from at most 254 pointers -/
def TargetOK (m : Bytes) (r : RR) : Prop :=
  ∃ t e d, decodeName? m r.rdataOff = some (t, e, d) ∧ d ≤ 254

/-- **shape of a reference record `r` at offset `off` that `decodeRR` gets past**: owner name with
    at most 254 pointers; A with 4 and AAAA with 16 bytes of RDATA; CNAME with a reference target;
    PTR: a reference target is needed only when the owner (".in-addr.arpa" stripped) is a textual
    IPv4 address — a PTR record with any other owner (`….ip6.arpa` nibble names, DNS-SD service
    names such as `_http._tcp.local`, an IPv6 literal) is unconstrained: it is skipped (fix commit;
    before it such a record failed the whole message); every other type (MX, TXT, SOA, OPT, …)
    is unconstrained.  (`decodeRR_rejects` shows the A / AAAA conditions are necessary.) -/
def RecOK (ip6 : Bytes → PtrIP) (m : Bytes) (off : Nat) (r : RR) : Prop :=
  depthAt m off ≤ 254 ∧
  (r.rtype = 1 → r.rdata.length = 4) ∧
  (r.rtype = 28 → r.rdata.length = 16) ∧
  (r.rtype = 5 → TargetOK m r) ∧
  (r.rtype = 12 → (∃ a b c d, parsePtrIP ip6 (trimSuffix r.name inAddrArpa) = .v4 a b c d) → TargetOK m r)

/-- **records the model skips**: a well-formed record of any type other than A / AAAA / CNAME /
    PTR (MX included), or a PTR record whose owner is not an IPv4 reverse name (ip6.arpa, DNS-SD
    service PTR, IPv6 literal), leaves the entry untouched and advances to the reference end of the
    record whatever its RDATA holds. -/
theorem decodeRR_skip_eq_spec (ip6 : Bytes → PtrIP) (ent : DNSEntry) (m : Bytes) (off : Nat) (r : RR) (o : Nat)
    (h : rrAt? m off = some (r, o)) (hd : depthAt m off ≤ 254)
    (hskip : (r.rtype ≠ 1 ∧ r.rtype ≠ 28 ∧ r.rtype ≠ 5 ∧ r.rtype ≠ 12) ∨
      (r.rtype = 12 ∧ ∀ a b c d, parsePtrIP ip6 (trimSuffix r.name inAddrArpa) ≠ .v4 a b c d)) :
    decodeRR ip6 ent m off = .ok (ent, o, false) := by
  obtain ⟨e, d', rdl, hn, h1, h2, h3, h4, h5, h6, rfl⟩ := rrAt_facts h
  simp only [depthAt, hn] at hd
  obtain ⟨hdn, _, _⟩ := decodeName_of_spec hn hd
  obtain ⟨r1, _⟩ := rd16_of_u16At h1
  obtain ⟨r2, _⟩ := rd32_of_u32At h2
  obtain ⟨r3, _⟩ := rd16_of_u16At h3
  unfold decodeRR
  rw [hdn]
  simp only []
  rw [if_neg (by omega), r1, r2, r3]
  simp only []
  rw [if_neg (by omega)]
  rcases hskip with ⟨n1, n28, n5, n12⟩ | ⟨h12, hv6⟩
  · rw [if_neg n1, if_neg n28, if_neg n5]
    split
    · rfl
    · first | rfl | rw [if_neg n12]
  · rw [h12, if_neg (by decide), if_neg (by decide), if_neg (by decide), if_neg (by decide), if_pos rfl]
    cases hq : parsePtrIP ip6 (trimSuffix r.name inAddrArpa) with
    | invalid => rfl
    | v6 => rfl
    | v4 a b c d => exact absurd hq (hv6 a b c d)

/-- **records the model rejects** (why `RecOK` asks for what it asks): an A record whose RDATA is
    not 4 bytes and an AAAA record whose RDATA is not 16 bytes make `decodeRR` — hence the whole
    ProcessDNS call — fail (a malformed record).  A PTR record is never a reason to fail because of
    its owner name (`decodeRR_skip_eq_spec`). -/
theorem decodeRR_rejects (ip6 : Bytes → PtrIP) (ent : DNSEntry) (m : Bytes) (off : Nat) (r : RR) (o : Nat)
    (h : rrAt? m off = some (r, o)) (hd : depthAt m off ≤ 254)
    (hbad : (r.rtype = 1 ∧ r.rdata.length ≠ 4) ∨ (r.rtype = 28 ∧ r.rdata.length ≠ 16)) :
    ∃ er, decodeRR ip6 ent m off = .err er := by
  obtain ⟨e, d', rdl, hn, h1, h2, h3, h4, h5, h6, rfl⟩ := rrAt_facts h
  simp only [depthAt, hn] at hd
  obtain ⟨hdn, _, _⟩ := decodeName_of_spec hn hd
  obtain ⟨r1, _⟩ := rd16_of_u16At h1
  obtain ⟨r2, _⟩ := rd32_of_u32At h2
  obtain ⟨r3, _⟩ := rd16_of_u16At h3
  have hlen : r.rdata.length = rdl := by rw [h5]; simp; omega
  unfold decodeRR
  rw [hdn]
  simp only []
  rw [if_neg (by omega), r1, r2, r3]
  simp only []
  rw [if_neg (by omega)]
  rcases hbad with ⟨ht, hl⟩ | ⟨ht, hl⟩
  · rw [ht, if_pos rfl, if_pos (by omega)]; exact ⟨_, rfl⟩
  · rw [ht, if_neg (by decide), if_pos rfl, if_pos (by omega)]; exact ⟨_, rfl⟩

/-- **one record = one step of the reference fold**: on every reference record of the shape
    `RecOK`, `decodeRR` returns the entry with the record's candidate inserted first-wins
    (`specStep`), the reference end offset, and `updated` exactly when the entry changed.
    Assembled from `decodeRR_A/AAAA/CNAME/PTR/skip_eq_spec`. -/
theorem decodeRR_eq_specStep (ip6 : Bytes → PtrIP) (ent : DNSEntry) (m : Bytes) (off : Nat) (r : RR) (o : Nat)
    (h : rrAt? m off = some (r, o)) (hok : RecOK ip6 m off r) :
    decodeRR ip6 ent m off = .ok (specStep ip6 m ent r, o, decide (specStep ip6 m ent r ≠ ent)) := by
  obtain ⟨hd, hA, h6, hC, hP⟩ := hok
  by_cases t1 : r.rtype = 1
  · rw [decodeRR_A_eq_spec ip6 ent m off r o h hd t1 (hA t1), specStep_A ip6 m ent r o t1 (hA t1)]
  by_cases t28 : r.rtype = 28
  · rw [decodeRR_AAAA_eq_spec ip6 ent m off r o h hd t28 (h6 t28), specStep_AAAA ip6 m ent r o t28 (h6 t28)]
  by_cases t5 : r.rtype = 5
  · obtain ⟨ct, ce, cd, hc, hcd⟩ := hC t5
    rw [decodeRR_CNAME_eq_spec ip6 ent m off r o ct ce cd h hd t5 hc hcd, specStep_CNAME ip6 m ent r o ct ce cd t5 hc]
  by_cases t12 : r.rtype = 12
  · by_cases hv4 : ∃ a b c d, parsePtrIP ip6 (trimSuffix r.name inAddrArpa) = .v4 a b c d
    · obtain ⟨a, b, c, d, hip⟩ := hv4
      obtain ⟨pt, pe, pd, hc, hpd⟩ := hP t12 ⟨a, b, c, d, hip⟩
      rw [decodeRR_PTR_eq_spec ip6 ent m off r o pt pe pd a b c d h hd t12 hip hc hpd,
        specStep_PTR ip6 m ent r o pt pe pd a b c d t12 hip hc]
    · have hnv : ∀ a b c d, parsePtrIP ip6 (trimSuffix r.name inAddrArpa) ≠ .v4 a b c d :=
        fun a b c d hh => hv4 ⟨a, b, c, d, hh⟩
      rw [decodeRR_skip_eq_spec ip6 ent m off r o h hd (Or.inr ⟨t12, hnv⟩), specStep_skip ip6 m ent r o (Or.inr ⟨t12, hnv⟩)]
  · rw [decodeRR_skip_eq_spec ip6 ent m off r o h hd (Or.inl ⟨t1, t28, t5, t12⟩),
      specStep_skip ip6 m ent r o (Or.inl ⟨t1, t28, t5, t12⟩)]

/-- **ProcessDNS is complete (and exact) against the reference decoder.**  For a message whose
    question (QDCOUNT = 1, at offset 12) and answer section (ANCOUNT records after it) the
    reference decodes, with at most 254 compression pointers in the question name, and whose
    every answer record — the record the reference finds after any `k < ANCOUNT` records — has
    the shape `RecOK` (A / AAAA of 4 / 16 octets, decodable CNAME / IPv4-PTR targets; PTR records
    with any other owner — ip6.arpa, DNS-SD — and all other types are unconstrained and skipped),
    ProcessDNS on a fresh table (any table: `processDNS_complete_table`) returns and stores exactly `refEntry`: the
    reference question name and, per map, the reference A / AAAA / CNAME / PTR records in message
    order with the first record per key winning (A / AAAA keyed by address, CNAME by owner, PTR
    by target name).  When no record is storable (`refEntry` is the empty entry) it returns the
    zero entry (`none`) and stores nothing. -/
theorem processDNS_complete (ip6 : Bytes → PtrIP) (m : Bytes) (q : Spec.Question) (qe : Nat) (rrs : List Spec.RR) (o an : Nat)
    (hq : questionAt? m 12 = some (q, qe)) (hqd : u16At m 4 = some 1) (hqdep : depthAt m 12 ≤ 254)
    (han : u16At m 6 = some an) (hrr : rrsAt? m an qe = some (rrs, o))
    (hok : ∀ k pre off r o', k < an → rrsAt? m k qe = some (pre, off) → rrAt? m off = some (r, o') →
      RecOK ip6 m off r) :
    processDNS ip6 [] m =
      (if refEntry ip6 m q.name rrs = DNSEntry.empty q.name then ([], .ok none)
       else ([(q.name, refEntry ip6 m q.name rrs)], .ok (some (refEntry ip6 m q.name rrs)))) := by
  have hdq := decodeQuestion_eq_spec m q qe hq hqd hqdep
  obtain ⟨r6, _⟩ := rd16_of_u16At han
  have hfold := decodeRRs_complete ip6 m (RecOK ip6 m)
    (fun ent off r o h hk => decodeRR_eq_specStep ip6 ent m off r o h hk)
    an (DNSEntry.empty q.name) qe rrs o false hrr hok
  rw [specFold_empty] at hfold
  rw [processDNS_of_decode ip6 m _ qe an _ _ _ hdq r6 hfold]
  by_cases he : refEntry ip6 m q.name rrs = DNSEntry.empty q.name
  · have hdec : (false || decide (refEntry ip6 m q.name rrs ≠ DNSEntry.empty q.name)) = false := by simp [he]
    rw [hdec, if_pos he]
    rfl
  · have hdec : (false || decide (refEntry ip6 m q.name rrs ≠ DNSEntry.empty q.name)) = true := by simp [he]
    rw [hdec, if_pos rfl, if_neg he]
    rfl

/-! ### any prior table, any QDCOUNT, incomplete records -/

/-- **ProcessDNS on an arbitrary table** (response sequences).  Under the hypotheses of
    `processDNS_complete`, with `e0 = priorEntry t q.name` the entry already stored under the
    question name (a fresh empty entry when there is none) and `e' = specFold … e0 rrs` the
    reference fold of the answer records INTO `e0`:
    * `e' ≠ e0` (some record added something): `e'` is stored under its name and returned;
    * `e' = e0` (nothing new): the zero entry is returned (`none`) and the table keeps `e0`
      (the model re-stores the looked-up entry, which changes nothing for a table with one entry
      per name).
    `processDNS_merge` says what the fold does to each map. -/
theorem processDNS_complete_table (ip6 : Bytes → PtrIP) (t : DNSTable) (m : Bytes) (q : Spec.Question) (qe : Nat)
    (rrs : List Spec.RR) (o an : Nat)
    (hq : questionAt? m 12 = some (q, qe)) (hqd : u16At m 4 = some 1) (hqdep : depthAt m 12 ≤ 254)
    (han : u16At m 6 = some an) (hrr : rrsAt? m an qe = some (rrs, o))
    (hok : ∀ k pre off r o', k < an → rrsAt? m k qe = some (pre, off) → rrAt? m off = some (r, o') →
      RecOK ip6 m off r) :
    processDNS ip6 t m =
      (if specFold ip6 m (priorEntry t q.name) rrs = priorEntry t q.name then
         ((if (t.find q.name).isSome then
             t.put (specFold ip6 m (priorEntry t q.name) rrs).name (specFold ip6 m (priorEntry t q.name) rrs) else t),
          .ok none)
       else (t.put (specFold ip6 m (priorEntry t q.name) rrs).name (specFold ip6 m (priorEntry t q.name) rrs),
             .ok (some (specFold ip6 m (priorEntry t q.name) rrs)))) := by
  have hdq := decodeQuestion_eq_spec m q qe hq hqd hqdep
  obtain ⟨r6, _⟩ := rd16_of_u16At han
  have hfold := decodeRRs_complete ip6 m (RecOK ip6 m)
    (fun ent off r o h hk => decodeRR_eq_specStep ip6 ent m off r o h hk)
    an (priorEntry t q.name) qe rrs o false hrr hok
  rw [processDNS_of_decode_table ip6 t m _ qe an _ _ hdq r6 hfold]
  by_cases he : specFold ip6 m (priorEntry t q.name) rrs = priorEntry t q.name
  · have hdec : (false || decide (specFold ip6 m (priorEntry t q.name) rrs ≠ priorEntry t q.name)) = false := by simp [he]
    rw [hdec, if_pos he]
    rfl
  · have hdec : (false || decide (specFold ip6 m (priorEntry t q.name) rrs ≠ priorEntry t q.name)) = true := by simp [he]
    rw [hdec, if_neg he]
    rfl

/-- **what merging into an existing entry does** (each of the four maps; `key` = address for A /
    AAAA, owner name for CNAME, target name for PTR): an element is in the merged map iff it was
    there before — unchanged: name and TTL of a known key are NOT refreshed by a later record —
    or its key was not there before and it is the candidate of the FIRST record of this message
    with that key.  So first-wins holds across messages as well as inside one. -/
theorem processDNS_merge (ip6 : Bytes → PtrIP) (m : Bytes) (e0 : DNSEntry) (rrs : List Spec.RR) :
    (specFold ip6 m e0 rrs).name = e0.name ∧
    (∀ x, x ∈ (specFold ip6 m e0 rrs).ip4 ↔
      (x ∈ e0.ip4 ∨ ((∀ y ∈ e0.ip4, y.ip ≠ x.ip) ∧ IsFirst IPRec.ip (rrs.filterMap candA) x))) ∧
    (∀ x, x ∈ (specFold ip6 m e0 rrs).ip6 ↔
      (x ∈ e0.ip6 ∨ ((∀ y ∈ e0.ip6, y.ip ≠ x.ip) ∧ IsFirst IPRec.ip (rrs.filterMap candAAAA) x))) ∧
    (∀ x, x ∈ (specFold ip6 m e0 rrs).cname ↔
      (x ∈ e0.cname ∨ ((∀ y ∈ e0.cname, y.name ≠ x.name) ∧ IsFirst NameRec.name (rrs.filterMap (candCNAME m)) x))) ∧
    (∀ x, x ∈ (specFold ip6 m e0 rrs).ptr ↔
      (x ∈ e0.ptr ∨ ((∀ y ∈ e0.ptr, y.name ≠ x.name) ∧ IsFirst IPRec.name (rrs.filterMap (candPTR ip6 m)) x))) := by
  rw [specFold_fields]
  exact ⟨rfl, fun x => mem_insertAll _ _ _ x, fun x => mem_insertAll _ _ _ x, fun x => mem_insertAll _ _ _ x,
    fun x => mem_insertAll _ _ _ x⟩

/-- **QDCOUNT other than 1** (0, or 2 and more): ProcessDNS refuses the message with
    `ErrParseFrame` and leaves the table as it is, whatever follows the header; a payload shorter
    than a DNS header is refused with `ErrFrameLen`. -/
theorem processDNS_qdcount (ip6 : Bytes → PtrIP) (t : DNSTable) (m : Bytes) (qd : Nat)
    (hqd : u16At m 4 = some qd) (hne : qd ≠ 1) (hlen : 12 ≤ m.length) :
    processDNS ip6 t m = (t, .err .parseFrame) := by
  obtain ⟨r4, _⟩ := rd16_of_u16At hqd
  unfold processDNS
  rw [if_neg (by omega)]
  have : decodeQuestion m 12 = .err .parseFrame := by
    unfold decodeQuestion
    rw [if_neg (by omega), r4]
    simp only []
    rw [if_pos hne]
  rw [this]

theorem processDNS_short (ip6 : Bytes → PtrIP) (t : DNSTable) (m : Bytes) (hlen : m.length < 12) :
    processDNS ip6 t m = (t, .err .frameLen) := by
  unfold processDNS
  rw [if_pos hlen]

/-- **an incomplete (truncated) record is rejected**: where the reference decoder finds no
    complete resource record at `off` — owner name not a reference name, or type / class / TTL /
    RDLENGTH / RDATA running past the end of the message — `decodeRR` returns an error
    (`hedge`: the owner name is not of exactly 256 uncompressed octets, the one case where the
    decoder is more liberal than the reference). -/
theorem decodeRR_rejects_truncated (ip6 : Bytes → PtrIP) (ent : DNSEntry) (m : Bytes) (off : Nat)
    (hnone : rrAt? m off = none) (hedge : ∀ ls e d, NameAt m off off ls e d → wireLen ls ≤ 255) :
    ∃ er, decodeRR ip6 ent m off = .err er :=
  decodeRR_rejects_incomplete ip6 ent m off hnone hedge

/-- … and so is the whole message: if the first `k < ANCOUNT` answer records are complete and
    `RecOK` and the next one is incomplete, ProcessDNS returns an error, on any table. -/
theorem processDNS_rejects_truncated (ip6 : Bytes → PtrIP) (t : DNSTable) (m : Bytes) (q : Spec.Question) (qe : Nat)
    (pre : List Spec.RR) (off an k : Nat)
    (hq : questionAt? m 12 = some (q, qe)) (hqd : u16At m 4 = some 1) (hqdep : depthAt m 12 ≤ 254)
    (han : u16At m 6 = some an) (hk : k < an) (hpre : rrsAt? m k qe = some (pre, off))
    (hok : ∀ j pre' off' r o', j < k → rrsAt? m j qe = some (pre', off') → rrAt? m off' = some (r, o') →
      RecOK ip6 m off' r)
    (hnone : rrAt? m off = none) (hedge : ∀ ls e d, NameAt m off off ls e d → wireLen ls ≤ 255) :
    ∃ er, (processDNS ip6 t m).2 = .err er := by
  have hdq := decodeQuestion_eq_spec m q qe hq hqd hqdep
  obtain ⟨r6, _⟩ := rd16_of_u16At han
  have hfold := decodeRRs_complete ip6 m (RecOK ip6 m)
    (fun ent off r o h hk => decodeRR_eq_specStep ip6 ent m off r o h hk)
    k (priorEntry t q.name) qe pre off false hpre hok
  obtain ⟨j, rfl⟩ : ∃ j, an = k + (j + 1) := ⟨an - k - 1, by omega⟩
  obtain ⟨er, her⟩ := decodeRR_rejects_incomplete ip6 (specFold ip6 m (priorEntry t q.name) pre) m off hnone hedge
  have hall : decodeRRs ip6 (k + (j + 1)) (priorEntry t q.name) m qe false =
      (specFold ip6 m (priorEntry t q.name) pre, .err er) := by
    rw [decodeRRs_add, hfold]
    simp only []
    rw [decodeRRs, her]
  rw [processDNS_of_decode_table ip6 t m _ qe _ _ _ hdq r6 hall]
  exact ⟨er, rfl⟩

/-- **every reference record is present** (membership form of `processDNS_complete`): under the
    same hypotheses the call returns `e` (as `none` when `e` is empty) with the reference question
    name such that for every reference record `s` of type A with 4 bytes of RDATA there is a FIRST
    such record `r` with the address of `s` (no earlier A record has that address) and the stored
    A entry for that address is exactly `{r.name, r.rdata, r.ttl}`; likewise AAAA (by address),
    CNAME (by owner name) and IPv4 PTR records (by target name); conversely every stored entry is
    the candidate of some reference record (`FirstWinsPresent`, both halves), and no map holds
    two entries with the same key. -/
theorem processDNS_complete_mem (ip6 : Bytes → PtrIP) (m : Bytes) (q : Spec.Question) (qe : Nat) (rrs : List Spec.RR) (o an : Nat)
    (hq : questionAt? m 12 = some (q, qe)) (hqd : u16At m 4 = some 1) (hqdep : depthAt m 12 ≤ 254)
    (han : u16At m 6 = some an) (hrr : rrsAt? m an qe = some (rrs, o))
    (hok : ∀ k pre off r o', k < an → rrsAt? m k qe = some (pre, off) → rrAt? m off = some (r, o') →
      RecOK ip6 m off r) :
    ∃ e : DNSEntry,
      (processDNS ip6 [] m).2 = .ok (if e = DNSEntry.empty q.name then none else some e) ∧
      e.name = q.name ∧
      FirstWinsPresent IPRec.ip candA rrs e.ip4 ∧
      FirstWinsPresent IPRec.ip candAAAA rrs e.ip6 ∧
      FirstWinsPresent NameRec.name (candCNAME m) rrs e.cname ∧
      FirstWinsPresent IPRec.name (candPTR ip6 m) rrs e.ptr ∧
      (∀ x ∈ e.ip4, ∀ y ∈ e.ip4, x.ip = y.ip → x = y) ∧ (∀ x ∈ e.ip6, ∀ y ∈ e.ip6, x.ip = y.ip → x = y) ∧
      (∀ x ∈ e.cname, ∀ y ∈ e.cname, x.name = y.name → x = y) ∧ (∀ x ∈ e.ptr, ∀ y ∈ e.ptr, x.name = y.name → x = y) := by
  refine ⟨refEntry ip6 m q.name rrs, ?_, rfl, firstWins_present _ _ _, firstWins_present _ _ _,
    firstWins_present _ _ _, firstWins_present _ _ _,
    fun x hx y hy => firstWins_keys_unique _ _ x y hx hy, fun x hx y hy => firstWins_keys_unique _ _ x y hx hy,
    fun x hx y hy => firstWins_keys_unique _ _ x y hx hy, fun x hx y hy => firstWins_keys_unique _ _ x y hx hy⟩
  rw [processDNS_complete ip6 m q qe rrs o an hq hqd hqdep han hrr hok]
  split <;> rfl

/-- every record of the reference answer list satisfies `RecOK` under the hypothesis of
    `processDNS_complete` (so `candA s = some _` iff `s.rtype = 1`, etc.) -/
theorem recOK_of_mem (ip6 : Bytes → PtrIP) (m : Bytes) (qe : Nat) (rrs : List Spec.RR) (o an : Nat)
    (hrr : rrsAt? m an qe = some (rrs, o))
    (hok : ∀ k pre off r o', k < an → rrsAt? m k qe = some (pre, off) → rrAt? m off = some (r, o') →
      RecOK ip6 m off r) :
    ∀ s ∈ rrs, ∃ off, RecOK ip6 m off s := by
  intro s hs
  obtain ⟨k, pre, off, o', hk, h1, h2⟩ := rrsAt_mem an qe rrs o hrr s hs
  exact ⟨off, hok k pre off s o' hk h1 h2⟩

/-- **address records, spelled out** (A: `t = 1`, 4 bytes; AAAA: `t = 28`, 16 bytes): under the
    hypotheses of `processDNS_complete`, for EVERY reference record `s` of type A (AAAA) the
    returned entry holds an entry for the address `s.rdata`, and it carries the owner name and TTL
    of the FIRST reference A (AAAA) record `r` with that address — no record before `r` is an A
    (AAAA) record with that address. -/
theorem processDNS_complete_addr (ip6 : Bytes → PtrIP) (m : Bytes) (q : Spec.Question) (qe : Nat) (rrs : List Spec.RR) (o an : Nat)
    (hrr : rrsAt? m an qe = some (rrs, o))
    (hok : ∀ k pre off r o', k < an → rrsAt? m k qe = some (pre, off) → rrAt? m off = some (r, o') →
      RecOK ip6 m off r) :
    (∀ s ∈ rrs, s.rtype = 1 → ∃ pre r post, rrs = pre ++ r :: post ∧ r.rtype = 1 ∧ r.rdata = s.rdata ∧
      (∀ y ∈ pre, y.rtype = 1 → y.rdata ≠ s.rdata) ∧
      ({ name := r.name, ip := s.rdata, ttl := r.ttl } : IPRec) ∈ (refEntry ip6 m q.name rrs).ip4) ∧
    (∀ s ∈ rrs, s.rtype = 28 → ∃ pre r post, rrs = pre ++ r :: post ∧ r.rtype = 28 ∧ r.rdata = s.rdata ∧
      (∀ y ∈ pre, y.rtype = 28 → y.rdata ≠ s.rdata) ∧
      ({ name := r.name, ip := s.rdata, ttl := r.ttl } : IPRec) ∈ (refEntry ip6 m q.name rrs).ip6) := by
  constructor
  · intro s hs ht
    obtain ⟨off, hrec⟩ := recOK_of_mem ip6 m qe rrs o an hrr hok s hs
    have hl := hrec.2.1 ht
    have hc : candA s = some { name := s.name, ip := s.rdata, ttl := s.ttl } := by simp [candA, ht, hl]
    obtain ⟨pre, r, post, x, h1, h2, h3, h4, h5⟩ := (firstWins_present IPRec.ip candA rrs).1 s hs _ hc
    simp only [candA] at h2
    split at h2
    next hr =>
      injection h2 with h2
      subst h2
      simp only [] at h3
      refine ⟨pre, r, post, h1, hr.1, h3, ?_, by rw [← h3]; exact h5⟩
      intro y hy hty heq
      have hcy : candA y = some { name := y.name, ip := y.rdata, ttl := y.ttl } := by
        simp [candA, hty, heq, hl]
      exact h4 y hy _ hcy heq
    · cases h2
  · intro s hs ht
    obtain ⟨off, hrec⟩ := recOK_of_mem ip6 m qe rrs o an hrr hok s hs
    have hl := hrec.2.2.1 ht
    have hc : candAAAA s = some { name := s.name, ip := s.rdata, ttl := s.ttl } := by simp [candAAAA, ht, hl]
    obtain ⟨pre, r, post, x, h1, h2, h3, h4, h5⟩ := (firstWins_present IPRec.ip candAAAA rrs).1 s hs _ hc
    simp only [candAAAA] at h2
    split at h2
    next hr =>
      injection h2 with h2
      subst h2
      simp only [] at h3
      refine ⟨pre, r, post, h1, hr.1, h3, ?_, by rw [← h3]; exact h5⟩
      intro y hy hty heq
      have hcy : candAAAA y = some { name := y.name, ip := y.rdata, ttl := y.ttl } := by
        simp [candAAAA, hty, heq, hl]
      exact h4 y hy _ hcy heq
    · cases h2

/-- **which record each stored entry comes from** (per-record form of `processDNS_complete`; the
    converse of `processDNS_complete_addr`).  Under the hypotheses of `processDNS_complete` the
    entry `e` ProcessDNS returns and stores is such that every stored A entry is the candidate
    `{owner name, RDATA, TTL}` of ONE reference record `r` — name, address and TTL all taken from
    that same record, never the address of one record under the owner name of another — and `r`
    is the first record (in wire order) whose candidate has that key: no record before it yields
    a candidate with the same address.  Likewise AAAA (key: address), CNAME (`candCNAME`: owner
    name, reference target decoded at that record's RDATA offset; key: owner name — a CNAME chain
    is stored link by link, each link from its own record) and IPv4 PTR (`candPTR`; key: target
    name).  For A / AAAA spelled out: `r.rtype = 1` (28), `x = {r.name, r.rdata, r.ttl}` and no
    earlier A (AAAA) record has the RDATA of `r`. -/
theorem processDNS_per_record (ip6 : Bytes → PtrIP) (m : Bytes) (q : Spec.Question) (qe : Nat) (rrs : List Spec.RR) (o an : Nat)
    (hq : questionAt? m 12 = some (q, qe)) (hqd : u16At m 4 = some 1) (hqdep : depthAt m 12 ≤ 254)
    (han : u16At m 6 = some an) (hrr : rrsAt? m an qe = some (rrs, o))
    (hok : ∀ k pre off r o', k < an → rrsAt? m k qe = some (pre, off) → rrAt? m off = some (r, o') →
      RecOK ip6 m off r) :
    ∃ e : DNSEntry,
      (processDNS ip6 [] m).2 = .ok (if e = DNSEntry.empty q.name then none else some e) ∧
      (∀ x ∈ e.ip4, ∃ pre r post, rrs = pre ++ r :: post ∧ candA r = some x ∧
        (∀ y ∈ pre, ∀ c, candA y = some c → c.ip ≠ x.ip) ∧
        r.rtype = 1 ∧ x = { name := r.name, ip := r.rdata, ttl := r.ttl } ∧ (∀ y ∈ pre, y.rtype = 1 → y.rdata ≠ r.rdata)) ∧
      (∀ x ∈ e.ip6, ∃ pre r post, rrs = pre ++ r :: post ∧ candAAAA r = some x ∧
        (∀ y ∈ pre, ∀ c, candAAAA y = some c → c.ip ≠ x.ip) ∧
        r.rtype = 28 ∧ x = { name := r.name, ip := r.rdata, ttl := r.ttl } ∧ (∀ y ∈ pre, y.rtype = 28 → y.rdata ≠ r.rdata)) ∧
      (∀ x ∈ e.cname, ∃ pre r post, rrs = pre ++ r :: post ∧ candCNAME m r = some x ∧
        (∀ y ∈ pre, ∀ c, candCNAME m y = some c → c.name ≠ x.name)) ∧
      (∀ x ∈ e.ptr, ∃ pre r post, rrs = pre ++ r :: post ∧ candPTR ip6 m r = some x ∧
        (∀ y ∈ pre, ∀ c, candPTR ip6 m y = some c → c.name ≠ x.name)) := by
  refine ⟨refEntry ip6 m q.name rrs, ?_, ?_, ?_, ?_, ?_⟩
  · rw [processDNS_complete ip6 m q qe rrs o an hq hqd hqdep han hrr hok]
    split <;> rfl
  · intro x hx
    obtain ⟨pre, r, post, h1, h2, h3⟩ := isFirst_filterMap IPRec.ip candA x rrs ((mem_firstWins _ _ x).mp hx)
    have hc := h2
    simp only [candA] at hc
    split at hc
    next hr =>
      injection hc with hc
      refine ⟨pre, r, post, h1, h2, h3, hr.1, hc.symm, ?_⟩
      intro y hy hty heq
      have hcy : candA y = some { name := y.name, ip := y.rdata, ttl := y.ttl } := by
        simp [candA, hty, heq, hr.2]
      exact h3 y hy _ hcy (by rw [← hc]; exact heq)
    · cases hc
  · intro x hx
    obtain ⟨pre, r, post, h1, h2, h3⟩ := isFirst_filterMap IPRec.ip candAAAA x rrs ((mem_firstWins _ _ x).mp hx)
    have hc := h2
    simp only [candAAAA] at hc
    split at hc
    next hr =>
      injection hc with hc
      refine ⟨pre, r, post, h1, h2, h3, hr.1, hc.symm, ?_⟩
      intro y hy hty heq
      have hcy : candAAAA y = some { name := y.name, ip := y.rdata, ttl := y.ttl } := by
        simp [candAAAA, hty, heq, hr.2]
      exact h3 y hy _ hcy (by rw [← hc]; exact heq)
    · cases hc
  · intro x hx
    exact isFirst_filterMap NameRec.name (candCNAME m) x rrs ((mem_firstWins _ _ x).mp hx)
  · intro x hx
    exact isFirst_filterMap IPRec.name (candPTR ip6 m) x rrs ((mem_firstWins _ _ x).mp hx)

/-- **names seen by ProcessMDNS / ProcessNBNS** (`hdr.Name`, question names) come from
    `dnsmessage.Name.unpack`; on a reference name with at most 10 pointers (dnsmessage's limit), no
    dot inside a label and a text form of at most 254 bytes it returns the reference labels each
    followed by a dot ("." for the root) and the reference end offset — including compressed and
    pointer-chained names. -/
theorem dnsmessage_name_eq_spec (m : Bytes) (off : Nat) (ls : List Bytes) (e d : Nat)
    (h : NameAt m off off ls e d) (hd : d ≤ 10) (hdots : ∀ l ∈ ls, ∀ c ∈ l, c ≠ 46)
    (hlen : (dottedR ls).length ≤ 254) :
    DnsMsg.unpackName m off = .ok (if ls = [] then [46] else dottedR ls, e) := by
  have := unpackName_complete h 0 none [] (by omega) hdots (by simpa using hlen)
  unfold DnsMsg.unpackName
  rw [this]
  cases ls with
  | nil => simp [dottedR]
  | cons l rest => simp [dottedR]

/-- **names returned by ProcessMDNS**: every address entry (A / AAAA) in the result carries a name
    that the Parser's name decoder produced at some offset of the payload, with ".local." stripped;
    by `dnsmessage_name_eq_spec` that decoder returns the reference name on every well-formed
    name, compressed or pointer-chained. -/
theorem mdns_names_eq_spec (payload : Bytes) (fuel : Nat) (o : DnsMsg.MdnsOut)
    (h : DnsMsg.processMDNS fuel payload = .ok o) :
    ∀ x ∈ o.ipv4 ++ o.ipv6, x.ip ≠ [] →
      ∃ off nm e, DnsMsg.unpackName payload off = .ok (nm, e) ∧ x.name = trimSuffix nm DnsMsg.sLocal :=
  PV.Lemmas.DnsMsg.processMDNS_names payload fuel o h

/-! ### ProcessMDNS against the reference decoder, record by record

`Lemmas/MdnsSpec.lean`.  Reference vocabulary: `rrsAt? m n off` = the `n` consecutive reference
records from `off` (`Spec.DnsWire`); `mdnsName r` = dnsmessage's text form of the reference owner
name of `r` (`dmText`: the labels joined by dots plus a trailing dot, "." for the root) with the
suffix ".local." removed — what `strings.TrimSuffix(hdr.Name.String(), ".local.")` computes;
`MRecOK m off r` = what ProcessMDNS needs to get past the reference record `r` at `off`:
an owner name dnsmessage accepts (`OwnerOK`: at most 10 compression pointers, no dot inside a
label, at most 254 octets of text) and, for an A / AAAA record, 4 / 16 octets of RDATA. -/

/-- the per-record hypothesis of the mDNS theorems, over the flat reference record list: the
    record the reference finds after any `k < n` records satisfies `MRecOK` -/
def MdnsRecsOK (m : Bytes) (n qe : Nat) : Prop :=
  ∀ k pre off r o', k < n → rrsAt? m k qe = some (pre, off) → rrAt? m off = some (r, o') → MRecOK m off r

/-- **ProcessMDNS = reference decoder, record by record (exact, complete, in wire order).**
    For an mDNS response (QR = 1) whose `qd` questions and whose `an + ns + ar` records — answer,
    authority and additional sections, ProcessMDNS walks all three — the reference decodes, every
    record being `MRecOK`, the call returns, without error, exactly:
    * IPv4 list: one entry per type-A record, in wire order, the i-th entry carrying the name
      decoded at the owner-name offset of the i-th A record (`mdnsName`) and the RDATA of that same
      record — never the address of one record with the name of another;
    * IPv6 list: likewise for the type-AAAA records;
    * no entry for any other record: PTR, SRV, TXT, OPT records are parsed and dropped (skipped
      by RDLENGTH when dnsmessage cannot read their body), every other type is skipped by RDLENGTH;
    * the model string of every entry: from the last TXT record whose strings name a model
      (`refModel`), "" if none.
    `Mdns.refMdns` is that result; `mdns_pairs_eq_spec` spells the two lists out. -/
theorem mdns_eq_spec (payload : Bytes) (fuel : Nat) (id bits qd an ns ar : Nat)
    (qs : List Spec.Question) (qe : Nat) (rrs : List RR) (o : Nat)
    (h0 : u16At payload 0 = some id) (h2 : u16At payload 2 = some bits) (h4 : u16At payload 4 = some qd)
    (h6 : u16At payload 6 = some an) (h8 : u16At payload 8 = some ns) (h10 : u16At payload 10 = some ar)
    (hresp : bits / 32768 % 2 = 1)
    (hqs : questionsAt? payload qd 12 = some (qs, qe))
    (hrr : rrsAt? payload (an + ns + ar) qe = some (rrs, o))
    (hok : MdnsRecsOK payload (an + ns + ar) qe)
    (hf : qd + an + ns + ar + 5 ≤ fuel) :
    DnsMsg.processMDNS fuel payload = .ok (refMdns payload rrs) :=
  processMDNS_eq_ref payload fuel id bits qd an ns ar qs qe rrs o h0 h2 h4 h6 h8 h10 hresp hqs
    (recsOK_of_rrsAt _ _ _ _ hrr hok) hf

/-- **the (name, address) pairs, spelled out**: under the hypotheses of `mdns_eq_spec` the result
    `out` has no error flag and its lists are, pair for pair and in wire order, the reference
    (owner name, RDATA) pairs of the A records and of the AAAA records of the three sections.
    Soundness (every returned pair is the pair of ONE record) and completeness (every A / AAAA
    record contributes its pair) are the two inclusions of these equalities. -/
theorem mdns_pairs_eq_spec (payload : Bytes) (fuel : Nat) (id bits qd an ns ar : Nat)
    (qs : List Spec.Question) (qe : Nat) (rrs : List RR) (o : Nat)
    (h0 : u16At payload 0 = some id) (h2 : u16At payload 2 = some bits) (h4 : u16At payload 4 = some qd)
    (h6 : u16At payload 6 = some an) (h8 : u16At payload 8 = some ns) (h10 : u16At payload 10 = some ar)
    (hresp : bits / 32768 % 2 = 1)
    (hqs : questionsAt? payload qd 12 = some (qs, qe))
    (hrr : rrsAt? payload (an + ns + ar) qe = some (rrs, o))
    (hok : MdnsRecsOK payload (an + ns + ar) qe)
    (hf : qd + an + ns + ar + 5 ≤ fuel) :
    ∃ out, DnsMsg.processMDNS fuel payload = .ok out ∧ out.err = false ∧
      out.ipv4.map (fun x => (x.name, x.ip)) = (rrs.filter (fun r => r.rtype = 1)).map (fun r => (mdnsName r, r.rdata)) ∧
      out.ipv6.map (fun x => (x.name, x.ip)) = (rrs.filter (fun r => r.rtype = 28)).map (fun r => (mdnsName r, r.rdata)) := by
  refine ⟨_, mdns_eq_spec payload fuel id bits qd an ns ar qs qe rrs o h0 h2 h4 h6 h8 h10 hresp hqs hrr hok hf, ?_⟩
  obtain ⟨a, b, c⟩ := finalize_pairs (refModel payload [] rrs) (refV4 [] rrs) (refV6 [] rrs)
  refine ⟨c, ?_, ?_⟩
  · show (DnsMsg.finalize _ _ _).ipv4.map _ = _
    rw [a, refV4_eq]
    simp [List.map_map, Function.comp_def, entryOf]
  · show (DnsMsg.finalize _ _ _).ipv6.map _ = _
    rw [b, refV6_eq]
    simp [List.map_map, Function.comp_def, entryOf]

/-- **messages that stop being decodable in the middle**: if only the first `k ≤ an + ns + ar`
    records are reference records that are `MRecOK` — whatever follows: truncation, a name
    dnsmessage refuses, garbage — every returning call (error flag set or not) reports the pairs
    of these `k` records first, in wire order, each from its own record; what it appends after
    them comes from bytes the reference decoder does not accept as records. -/
theorem mdns_pairs_prefix (payload : Bytes) (fuel : Nat) (id bits qd an ns ar : Nat)
    (qs : List Spec.Question) (qe : Nat) (k : Nat) (rrs : List RR) (o : Nat) (out : DnsMsg.MdnsOut)
    (h0 : u16At payload 0 = some id) (h2 : u16At payload 2 = some bits) (h4 : u16At payload 4 = some qd)
    (h6 : u16At payload 6 = some an) (h8 : u16At payload 8 = some ns) (h10 : u16At payload 10 = some ar)
    (hresp : bits / 32768 % 2 = 1)
    (hqs : questionsAt? payload qd 12 = some (qs, qe))
    (hk : k ≤ an + ns + ar) (hrr : rrsAt? payload k qe = some (rrs, o)) (hok : MdnsRecsOK payload k qe)
    (hf : qd < fuel) (hout : DnsMsg.processMDNS fuel payload = .ok out) :
    (∃ t, out.ipv4.map (fun x => (x.name, x.ip)) = (rrs.filter (fun r => r.rtype = 1)).map (fun r => (mdnsName r, r.rdata)) ++ t) ∧
    (∃ t, out.ipv6.map (fun x => (x.name, x.ip)) = (rrs.filter (fun r => r.rtype = 28)).map (fun r => (mdnsName r, r.rdata)) ++ t) := by
  obtain ⟨⟨t4, a⟩, ⟨t6, b⟩⟩ := processMDNS_prefix payload fuel id bits qd an ns ar qs qe k rrs o out h0 h2 h4 h6 h8 h10 hresp hqs hk
    (recsOK_of_rrsAt _ _ _ _ hrr hok) hf hout
  refine ⟨⟨t4, ?_⟩, ⟨t6, ?_⟩⟩
  · have : pairs out.ipv4 = out.ipv4.map (fun x => (x.name, x.ip)) := rfl
    rw [← this, a, refV4_eq]
    simp [pairs, List.map_map, Function.comp_def, entryOf]
  · have : pairs out.ipv6 = out.ipv6.map (fun x => (x.name, x.ip)) := rfl
    rw [← this, b, refV6_eq]
    simp [pairs, List.map_map, Function.comp_def, entryOf]

/-- **why `MRecOK` asks for 4 octets in an A record**: on a reference A record of ANY RDLENGTH
    (owner name accepted), one loop iteration either fails — the message ends less than four
    octets after the RDATA offset — or appends the record's own name with the four octets AT the
    RDATA offset (`AResource` does not look at RDLENGTH; they are the RDATA exactly when RDLENGTH
    = 4) and continues RDLENGTH octets further.  `mdns_AAAA_any_rdlength`: same with 16. -/
theorem mdns_A_any_rdlength (s : DnsMsg.MdnsState) (r : RR) (o : Nat)
    (hr : s.p.resHeaderValid = false) (hs : s.p.sect = s.sec) (hi : s.p.index ≠ s.p.count s.sec)
    (hrr : rrAt? s.p.msg s.p.off = some (r, o)) (hown : OwnerOK s.p.msg s.p.off) (t1 : r.rtype = 1) :
    DnsMsg.mdnsStep s =
      (if r.rdataOff + 4 ≤ s.p.msg.length then
        .next { s with p := recAdv s.p r,
                       v4 := s.v4 ++ [{ name := mdnsName r, ip := (s.p.msg.drop r.rdataOff).take 4, model := [], manufacturer := [] }] }
       else .done { ipv4 := s.v4, ipv6 := s.v6, err := true }) :=
  mdnsStep_A_any s r o hr hs hi hrr hown t1

theorem mdns_AAAA_any_rdlength (s : DnsMsg.MdnsState) (r : RR) (o : Nat)
    (hr : s.p.resHeaderValid = false) (hs : s.p.sect = s.sec) (hi : s.p.index ≠ s.p.count s.sec)
    (hrr : rrAt? s.p.msg s.p.off = some (r, o)) (hown : OwnerOK s.p.msg s.p.off) (t28 : r.rtype = 28) :
    DnsMsg.mdnsStep s =
      (if r.rdataOff + 16 ≤ s.p.msg.length then
        .next { s with p := recAdv s.p r,
                       v6 := s.v6 ++ [{ name := mdnsName r, ip := (s.p.msg.drop r.rdataOff).take 16, model := [], manufacturer := [] }] }
       else .done { ipv4 := s.v4, ipv6 := s.v6, err := true }) :=
  mdnsStep_AAAA_any s r o hr hs hi hrr hown t28

/-- **a record header dnsmessage cannot read** (owner name with more than 10 pointers, a dot inside
    a label, reserved label bits, truncated fixed part) ends the call: error flag, the entries
    found so far (`mdns_pairs_prefix` says which). -/
theorem mdns_header_error (s : DnsMsg.MdnsState) (e : DnsMsg.PErr)
    (hr : s.p.resHeaderValid = false) (hs : s.p.sect = s.sec) (hi : s.p.index ≠ s.p.count s.sec)
    (hu : DnsMsg.unpackRHeader s.p.msg s.p.off = .error e) (he : e ≠ .sectionDone) :
    DnsMsg.mdnsStep s = .done { ipv4 := s.v4, ipv6 := s.v6, err := true } :=
  mdnsStep_header_error s e hr hs hi hu he

/-- **NBNS node status names**: `parseNodeNameArray` returns exactly the unique names of the RFC 1002
    NODE_NAME array (each entry's own name, padding stripped), on every input; ProcessNBNS reports
    the first of them. -/
theorem nbns_names_eq_spec (n : UInt8) (rest : Bytes) :
    parseNodeNameArray (n :: rest) =
      (if rest.length < n.toNat * 18 then .err .frameLen
       else match nodeNameArray n.toNat rest with
         | some l => .ok l
         | none => .err .frameLen) :=
  parseNodeNameArray_eq_spec n rest

/-- **a truncated NODE_NAME array is rejected** — as soon as fewer than `18 * NUM_NAMES` octets follow
    the NUM_NAMES octet (in particular when exactly one octet is missing, RDLENGTH = 18 * NUM_NAMES):
    `parseNodeNameArray` answers `ErrFrameLen`, `processNBNSNodeStatusResponse` an error, and the
    record contributes no name to ProcessNBNS (`firstNodeName = none`, the scan moves on). -/
theorem nbns_truncated_rejected (n : UInt8) (rest : Bytes) (h : rest.length < n.toNat * 18) :
    parseNodeNameArray (n :: rest) = .err .frameLen ∧
    (∃ e, nbnsNodeStatus (n :: rest) = .err e) ∧
    firstNodeName (n :: rest) = none := by
  refine ⟨?_, ?_, ?_⟩
  · rw [nbns_names_eq_spec, if_pos h]
  · rw [nbnsNodeStatus_cons]
    by_cases h2 : rest.length < 2
    · exact ⟨_, by rw [if_pos h2]⟩
    · exact ⟨_, by rw [if_neg h2, if_pos h]⟩
  · simp only [firstNodeName]
    rw [if_pos (Or.inr h)]

/-- **acceptance of a NODE_NAME array is decided by its length alone**: `parseNodeNameArray`
    accepts exactly the byte strings that hold the NUM_NAMES octet and the `18 * NUM_NAMES` octets
    it announces — never a panic, never an acceptance of a shorter array, never a rejection of a
    complete one. -/
theorem nbns_array_acceptance (b : Bytes) :
    (∃ l, parseNodeNameArray b = .ok l) ↔ ∃ n rest, b = n :: rest ∧ n.toNat * 18 ≤ rest.length := by
  constructor
  · rintro ⟨l, hl⟩
    cases b with
    | nil => simp [parseNodeNameArray] at hl
    | cons n rest =>
      refine ⟨n, rest, rfl, ?_⟩
      by_cases h : rest.length < n.toNat * 18
      · rw [(nbns_truncated_rejected n rest h).1] at hl; cases hl
      · omega
  · rintro ⟨n, rest, rfl, h⟩
    obtain ⟨l, hl⟩ := nodeNameArray_total n.toNat rest h
    exact ⟨l, by rw [nbns_names_eq_spec, if_neg (by omega), hl]⟩

/-- **the STATISTICS field is ignored**: whatever follows a complete array does not change the result. -/
theorem nbns_statistics_ignored (n : UInt8) (rest stats : Bytes) (h : n.toNat * 18 ≤ rest.length) :
    parseNodeNameArray (n :: (rest ++ stats)) = parseNodeNameArray (n :: rest) := by
  rw [nbns_names_eq_spec, nbns_names_eq_spec, nodeNameArray_append _ _ _ h]
  rw [if_neg (by simp only [List.length_append]; omega), if_neg (by omega)]

/-- **processNBNSNodeStatusResponse = reference** on every input: RDATA shorter than 3 bytes or
    shorter than the array its NUM_NAMES octet announces is refused; otherwise the result is
    exactly the reference list of unique names (`nodeNameArray` cannot fail then). -/
theorem nbnsNodeStatus_eq_spec (data : Bytes) :
    nbnsNodeStatus data =
      (match data with
       | [] => .err .invalidLen
       | n :: rest =>
         if rest.length < 2 then .err .invalidLen
         else if rest.length < n.toNat * 18 then .err .frameLen
         else match nodeNameArray n.toNat rest with
           | some l => .ok l
           | none => .err .frameLen) ∧
    (∀ n rest, data = n :: rest → n.toNat * 18 ≤ rest.length → ∃ l, nodeNameArray n.toNat rest = some l) := by
  constructor
  · cases data with
    | nil => rfl
    | cons n rest => exact nbnsNodeStatus_cons n rest
  · intro n rest _ h
    exact nodeNameArray_total n.toNat rest h

/-- **one iteration of the ProcessNBNS answer loop**, as an equation on every parser state, with
    the node status decoder replaced by the reference `firstNodeName` (first element of
    `nodeNameArray`, `none` when the RDATA is too short for itself or holds no unique name):
    end of section → no name, no error; unreadable header / body, failing skip → error flag, no
    name; NBSTAT (type 0x21) answer → its first unique name exactly as `nodeNameArray` yields it
    (NUL then space padding stripped, nothing else trimmed) — or, when there is none, on to the
    next record (the decoder's error is dropped); any other type → skipped. -/
theorem nbnsStep_name_eq_spec (p : DnsMsg.Parser) :
    DnsMsg.nbnsStep p =
      (match DnsMsg.resourceHeader p DnsMsg.secAnswers with
       | (_, .error .sectionDone) => .done (.ok { type := DnsMsg.sNbns, name := [], err := false })
       | (_, .error _) => .done (.ok { type := DnsMsg.sNbns, name := [], err := true })
       | (p1, .ok hdr) =>
         if hdr.rtype = 0x21 then
           match DnsMsg.typedResource p1 (fun _ => true) DnsMsg.unpackUnknown with
           | (_, .error _) => .done (.ok { type := DnsMsg.sNbns, name := [], err := true })
           | (p2, .ok data) =>
             match firstNodeName data with
             | some x => .done (.ok { type := DnsMsg.sNbns, name := x, err := false })
             | none => .next p2
         else
           match DnsMsg.skipResource p1 DnsMsg.secAnswers with
           | (p2, none) => .next p2
           | (_, some _) => .done (.ok { type := DnsMsg.sNbns, name := [], err := true })) :=
  nbnsStep_eq_spec p

/-- **ProcessNBNS reports the first unique name of the reference NODE_NAME array** — complete
    case distinction over every returning call:
    (1) payload shorter than a DNS header, header unreadable, or a question that cannot be
        skipped: error flag, no name, no type;
    (2) a query (QR = 0): nothing at all;
    (3) a response: the result is the one the answer scan `NbnsScan` describes from the state
        after the questions (the relation is functional: `NbnsScan.unique`) — the first NBSTAT
        answer whose array has a unique name wins, malformed or name-less NBSTAT answers and
        other types are passed over, parser errors end the scan with the error flag — and then
        either the name is empty, or there is an answer record's RDATA `n :: rest` in the payload
        (`len` bytes at `off`) with `rest` holding the `n` announced entries, such that the
        reported name is the head of the reference `nodeNameArray n rest` — which is what
        `parseNodeNameArray` returns on that RDATA (`nbns_names_eq_spec`) — type "nbns", no error. -/
theorem processNBNS_name_eq_spec (fuel : Nat) (payload : Bytes) (o : DnsMsg.NbnsOut)
    (h : DnsMsg.processNBNS fuel payload = .ok o) :
    (o = { type := [], name := [], err := true } ∧
      (payload.length < 12 ∨ (∃ e, DnsMsg.start payload = .error e) ∨
        ∃ p hdr p1 e, DnsMsg.start payload = .ok (p, hdr) ∧ hdr.response = true ∧
          DnsMsg.skipAllQuestions fuel p = .ok (p1, some e))) ∨
    (o = { type := [], name := [], err := false } ∧
      ∃ p hdr, DnsMsg.start payload = .ok (p, hdr) ∧ hdr.response = false) ∨
    (∃ p hdr p1, DnsMsg.start payload = .ok (p, hdr) ∧ hdr.response = true ∧
      DnsMsg.skipAllQuestions fuel p = .ok (p1, none) ∧ p1.msg = payload ∧ NbnsScan p1 o ∧
      ((o.name = [] ∧ o.type = DnsMsg.sNbns) ∨
       (o.type = DnsMsg.sNbns ∧ o.err = false ∧
        ∃ (off len : Nat) (n : UInt8) (rest : Bytes) (l : List Bytes),
          (payload.drop off).take len = n :: rest ∧ 2 ≤ rest.length ∧ n.toNat * 18 ≤ rest.length ∧
          nodeNameArray n.toNat rest = some (o.name :: l) ∧
          parseNodeNameArray (n :: rest) = .ok (o.name :: l)))) := by
  rcases processNBNS_cases fuel payload o h with h1 | h2 | ⟨p, hdr, p1, a, b, c, d, e⟩
  · exact Or.inl h1
  · exact Or.inr (Or.inl h2)
  · refine Or.inr (Or.inr ⟨p, hdr, p1, a, b, c, d, e, ?_⟩)
    rcases e.name_from with hn | ⟨t1, t2, off, len, n, rest, l, g1, g2, g3, g4⟩
    · exact Or.inl hn
    · rw [d] at g1
      refine Or.inr ⟨t1, t2, off, len, n, rest, l, g1, g2, g3, g4, ?_⟩
      rw [nbns_names_eq_spec, if_neg (by omega), g4]

/-- with `nbnsBound payload` iterations of fuel (the loop bound the driver uses) every call
    returns a result — so `processNBNS_name_eq_spec` covers every input -/
theorem processNBNS_returns (fuel : Nat) (payload : Bytes) (hf : DnsMsg.nbnsBound payload ≤ fuel) :
    ∃ o, DnsMsg.processNBNS fuel payload = .ok o :=
  processNBNS_total fuel payload hf

/-! ### non-vacuity -/

/-- `www` + pointer to `example.com` at offset 12: a compressed, well-formed name -/
def sampleMsg : Bytes :=
  [0,0,0,0,0,0,0,0,0,0,0,0, 7,101,120,97,109,112,108,101, 3,99,111,109, 0, 3,119,119,119, 0xc0,12]

example : WfName sampleMsg 25 [[119,119,119],[101,120,97,109,112,108,101],[99,111,109]] 31 1 := by
  refine ⟨?_, by decide⟩
  refine NameAt.label (n := 3) (by decide) (by decide) (by decide) (by decide) ?_
  refine NameAt.ptr (hi := 0xc0) (lo := 12) (e := 25) (by decide) (by decide) (by decide) (by decide) ?_
  refine NameAt.label (n := 7) (by decide) (by decide) (by decide) (by decide) ?_
  refine NameAt.label (n := 3) (by decide) (by decide) (by decide) (by decide) ?_
  exact NameAt.root (by decide)

example : decodeName sampleMsg 25 1 = .ok ([119,119,119,46,101,120,97,109,112,108,101,46,99,111,109], 31) := by decide
/-- header (QD=1, AN=1) + question `a.` type 1 class 1 + answer: pointer to 12, type A, class 1, ttl 60, 4 bytes -/
def sampleResp : Bytes :=
  [0,1,0x81,0x80,0,1,0,1,0,0,0,0, 1,97,0, 0,1,0,1, 0xc0,12, 0,1, 0,1, 0,0,0,60, 0,4, 10,0,0,1]

theorem sample_q : decodeName? sampleResp 12 = some ([97], 15, 0) := by
  have h : NameAt sampleResp 12 12 [[97]] 15 0 :=
    NameAt.label (n := 1) (by decide) (by decide) (by decide) (by decide) (NameAt.root (by decide))
  simp [decodeName?, nameAt?_complete h, wireLen, text]

theorem sample_owner : decodeName? sampleResp 19 = some ([97], 21, 1) := by
  have h : NameAt sampleResp 19 19 [[97]] 21 1 :=
    NameAt.ptr (hi := 0xc0) (lo := 12) (e := 15) (by decide) (by decide) (by decide) (by decide)
      (NameAt.label (n := 1) (by decide) (by decide) (by decide) (by decide) (NameAt.root (by decide)))
  simp [decodeName?, nameAt?_complete h, wireLen, text]

/-- the hypotheses of `decodeQuestion_eq_spec` / `decodeRR_A_eq_spec` are satisfiable -/
theorem sample_question : questionAt? sampleResp 12 = some ({ name := [97], qtype := 1, qclass := 1 }, 19) := by
  unfold questionAt?
  rw [sample_q]
  decide

theorem sample_rr : rrAt? sampleResp 19 = some ({ name := [97], rtype := 1, rclass := 1, ttl := 60, rdata := [10,0,0,1], rdataOff := 31 }, 35) := by
  unfold rrAt?
  rw [sample_owner]
  decide

/-- the hypotheses of `processDNS_complete` / `processDNS_complete_mem` are satisfiable (one A
    record with a compressed owner name), and the reference entry is the one ProcessDNS stores -/
example : ∃ (q : Spec.Question) (qe : Nat) (rrs : List Spec.RR) (o an : Nat),
    questionAt? sampleResp 12 = some (q, qe) ∧ u16At sampleResp 4 = some 1 ∧ depthAt sampleResp 12 ≤ 254 ∧
    u16At sampleResp 6 = some an ∧ rrsAt? sampleResp an qe = some (rrs, o) ∧
    (∀ k pre off r o', k < an → rrsAt? sampleResp k qe = some (pre, off) → rrAt? sampleResp off = some (r, o') →
      RecOK (fun _ => .invalid) sampleResp off r) ∧
    refEntry (fun _ => .invalid) sampleResp q.name rrs =
      { name := [97], ip4 := [{ name := [97], ip := [10,0,0,1], ttl := 60 }], ip6 := [], cname := [], ptr := [] } ∧
    processDNS (fun _ => .invalid) [] sampleResp =
      ([([97], refEntry (fun _ => .invalid) sampleResp q.name rrs)],
        .ok (some (refEntry (fun _ => .invalid) sampleResp q.name rrs))) := by
  have hrr : rrsAt? sampleResp 1 19 = some ([{ name := [97], rtype := 1, rclass := 1, ttl := 60, rdata := [10,0,0,1], rdataOff := 31 }], 35) := by
    simp [rrsAt?, sample_rr]
  have hqd : u16At sampleResp 4 = some 1 := by decide
  have han : u16At sampleResp 6 = some 1 := by decide
  have hqdep : depthAt sampleResp 12 ≤ 254 := by simp [depthAt, sample_q]
  have hok : ∀ k pre off r o', k < 1 → rrsAt? sampleResp k 19 = some (pre, off) → rrAt? sampleResp off = some (r, o') →
      RecOK (fun _ => .invalid) sampleResp off r := by
    intro k pre off r o' hk h1 h2
    have hk0 : k = 0 := by omega
    subst hk0
    simp [rrsAt?] at h1
    obtain ⟨_, rfl⟩ := h1
    rw [sample_rr] at h2
    injection h2 with h2
    injection h2 with h2 _
    subst h2
    refine ⟨by simp [depthAt, sample_owner], fun _ => rfl, ?_, ?_, ?_⟩ <;> (intro hh; simp at hh)
  have hent : refEntry (fun _ => .invalid) sampleResp [97] [{ name := [97], rtype := 1, rclass := 1, ttl := 60, rdata := [10,0,0,1], rdataOff := 31 }] =
      { name := [97], ip4 := [{ name := [97], ip := [10,0,0,1], ttl := 60 }], ip6 := [], cname := [], ptr := [] } := by decide
  refine ⟨_, _, _, _, _, sample_question, hqd, hqdep, han, hrr, hok, hent, ?_⟩
  rw [processDNS_complete _ sampleResp _ _ _ _ _ sample_question hqd hqdep han hrr hok, if_neg (by rw [hent]; decide)]

example : decodeQuestion sampleResp 12 = .ok ({ name := [97], qtype := 1, qclass := 1 }, 19) := by decide
example : (processDNS (fun _ => .invalid) [] sampleResp).2 =
    .ok (some { name := [97], ip4 := [{ name := [97], ip := [10,0,0,1], ttl := 60 }], ip6 := [], cname := [], ptr := [] }) := by decide

/-! #### an mDNS response: two A records with different owner names and an AAAA record -/

/-- header (response, AN = 2, AR = 1); `a.local. A 10.0.0.1`; `b.<ptr local>. A 10.0.0.2`;
    additional: `<ptr b.local>. AAAA fe80::1` -/
def sampleMdns : Bytes :=
  [0,0,0x84,0,0,0,0,2,0,0,0,1,
   1,97, 5,108,111,99,97,108, 0,  0,1, 0,1, 0,0,0,60, 0,4, 10,0,0,1,
   1,98, 0xc0,14,  0,1, 0,1, 0,0,0,60, 0,4, 10,0,0,2,
   0xc0,35,  0,28, 0,1, 0,0,0,60, 0,16, 0xfe,0x80,0,0,0,0,0,0,0,0,0,0,0,0,0,1]

theorem sampleMdns_n0 : NameAt sampleMdns 14 14 [[108,111,99,97,108]] 21 0 :=
  NameAt.label (n := 5) (by decide) (by decide) (by decide) (by decide) (NameAt.root (by decide))
theorem sampleMdns_n1 : NameAt sampleMdns 12 12 [[97],[108,111,99,97,108]] 21 0 :=
  NameAt.label (n := 1) (by decide) (by decide) (by decide) (by decide)
    (NameAt.label (n := 5) (by decide) (by decide) (by decide) (by decide) (NameAt.root (by decide)))
theorem sampleMdns_n2 : NameAt sampleMdns 35 35 [[98],[108,111,99,97,108]] 39 1 :=
  NameAt.label (n := 1) (by decide) (by decide) (by decide) (by decide)
    (NameAt.ptr (hi := 0xc0) (lo := 14) (e := 21) (by decide) (by decide) (by decide) (by decide) sampleMdns_n0)
theorem sampleMdns_n3 : NameAt sampleMdns 53 53 [[98],[108,111,99,97,108]] 55 2 :=
  NameAt.ptr (hi := 0xc0) (lo := 35) (e := 39) (by decide) (by decide) (by decide) (by decide) sampleMdns_n2

def sampleMdnsR1 : RR := { name := [97,46,108,111,99,97,108], rtype := 1, rclass := 1, ttl := 60, rdata := [10,0,0,1], rdataOff := 31 }
def sampleMdnsR2 : RR := { name := [98,46,108,111,99,97,108], rtype := 1, rclass := 1, ttl := 60, rdata := [10,0,0,2], rdataOff := 49 }
def sampleMdnsR3 : RR := { name := [98,46,108,111,99,97,108], rtype := 28, rclass := 1, ttl := 60,
                           rdata := [0xfe,0x80,0,0,0,0,0,0,0,0,0,0,0,0,0,1], rdataOff := 65 }

theorem sampleMdns_rr1 : rrAt? sampleMdns 12 = some (sampleMdnsR1, 35) := by
  have : decodeName? sampleMdns 12 = some ([97,46,108,111,99,97,108], 21, 0) := by
    simp [decodeName?, nameAt?_complete sampleMdns_n1, wireLen, text]
  unfold rrAt?; rw [this]; decide
theorem sampleMdns_rr2 : rrAt? sampleMdns 35 = some (sampleMdnsR2, 53) := by
  have : decodeName? sampleMdns 35 = some ([98,46,108,111,99,97,108], 39, 1) := by
    simp [decodeName?, nameAt?_complete sampleMdns_n2, wireLen, text]
  unfold rrAt?; rw [this]; decide
theorem sampleMdns_rr3 : rrAt? sampleMdns 53 = some (sampleMdnsR3, 81) := by
  have : decodeName? sampleMdns 53 = some ([98,46,108,111,99,97,108], 55, 2) := by
    simp [decodeName?, nameAt?_complete sampleMdns_n3, wireLen, text]
  unfold rrAt?; rw [this]; decide

/-- the hypotheses of `mdns_eq_spec` / `mdns_pairs_eq_spec` are satisfiable, and the result pairs
    every address with the owner name of its own record: 10.0.0.1 ↦ "a", 10.0.0.2 ↦ "b",
    fe80::1 ↦ "b" (owner names compressed / pointer-chained) -/
example :
    MdnsRecsOK sampleMdns 3 12 ∧ rrsAt? sampleMdns 3 12 = some ([sampleMdnsR1, sampleMdnsR2, sampleMdnsR3], 81) ∧
    DnsMsg.processMDNS 8 sampleMdns = .ok
      { ipv4 := [{ name := [97], ip := [10,0,0,1], model := [], manufacturer := [] },
                 { name := [98], ip := [10,0,0,2], model := [], manufacturer := [] }],
        ipv6 := [{ name := [98], ip := [0xfe,0x80,0,0,0,0,0,0,0,0,0,0,0,0,0,1], model := [], manufacturer := [] }],
        err := false } := by
  have dots : ∀ l ∈ [[98],[108,111,99,97,108]], ∀ c ∈ l, c ≠ (46 : UInt8) := by decide
  have dots1 : ∀ l ∈ [[97],[108,111,99,97,108]], ∀ c ∈ l, c ≠ (46 : UInt8) := by decide
  have ok1 : MRecOK sampleMdns 12 sampleMdnsR1 :=
    ⟨⟨_, _, _, sampleMdns_n1, by omega, dots1, by decide⟩, fun _ => rfl, fun h => absurd h (by decide)⟩
  have ok2 : MRecOK sampleMdns 35 sampleMdnsR2 :=
    ⟨⟨_, _, _, sampleMdns_n2, by omega, dots, by decide⟩, fun _ => rfl, fun h => absurd h (by decide)⟩
  have ok3 : MRecOK sampleMdns 53 sampleMdnsR3 :=
    ⟨⟨_, _, _, sampleMdns_n3, by omega, dots, by decide⟩, fun h => absurd h (by decide), fun _ => rfl⟩
  have hrecs : RecsOK sampleMdns 3 12 [sampleMdnsR1, sampleMdnsR2, sampleMdnsR3] 81 :=
    ⟨_, _, _, sampleMdns_rr1, ok1, ⟨_, _, _, sampleMdns_rr2, ok2, ⟨_, _, _, sampleMdns_rr3, ok3, ⟨rfl, rfl⟩, rfl⟩, rfl⟩, rfl⟩
  have hrr := rrsAt_of_recsOK _ _ _ _ hrecs
  have hok : MdnsRecsOK sampleMdns 3 12 := mrecOK_of_recsOK _ _ _ _ hrecs
  refine ⟨hok, hrr, ?_⟩
  rw [mdns_eq_spec sampleMdns 8 0 0x8400 0 2 0 1 [] 12 _ 81 (by decide) (by decide) (by decide) (by decide)
    (by decide) (by decide) (by decide) rfl hrr hok (by omega)]
  decide

/-- a PTR record whose owner is not an IPv4 reverse name (here owner "b", target "c" — the shape of
    a DNS-SD service PTR or an ip6.arpa name) next to an A record: the A record is stored, the PTR
    record is skipped (before the fix commit the whole message failed and the A record was lost) -/
example : processDNS (fun _ => .invalid) []
      [0,1,0x81,0x80,0,1,0,2,0,0,0,0, 1,97,0, 0,1,0,1, 0xc0,12, 0,1, 0,1, 0,0,0,60, 0,4, 10,0,0,1,
       1,98,0, 0,12, 0,1, 0,0,0,60, 0,3, 1,99,0] =
    ([([97], { name := [97], ip4 := [{ name := [97], ip := [10,0,0,1], ttl := 60 }], ip6 := [], cname := [], ptr := [] })],
      .ok (some { name := [97], ip4 := [{ name := [97], ip := [10,0,0,1], ttl := 60 }], ip6 := [], cname := [], ptr := [] })) := by
  decide
/-- the same response a second time, now on the table it produced: nothing new, the zero entry is
    returned and the stored record keeps its TTL (`processDNS_merge`: first wins across messages) -/
example : (processDNS (fun _ => .invalid)
      [([97], { name := [97], ip4 := [{ name := [97], ip := [10,0,0,1], ttl := 60 }], ip6 := [], cname := [], ptr := [] })]
      [0,1,0x81,0x80,0,1,0,1,0,0,0,0, 1,97,0, 0,1,0,1, 0xc0,12, 0,1, 0,1, 0,0,0,99, 0,4, 10,0,0,1]) =
    ([([97], { name := [97], ip4 := [{ name := [97], ip := [10,0,0,1], ttl := 60 }], ip6 := [], cname := [], ptr := [] })],
      .ok none) := by decide
/-- QDCOUNT 0 and 2 are refused, the record of a message cut in its RDATA as well -/
example : (processDNS (fun _ => .invalid) [] [0,1,0x81,0x80,0,0,0,0,0,0,0,0]).2 = .err .parseFrame := by decide
example : (processDNS (fun _ => .invalid) [] [0,1,0x81,0x80,0,2,0,0,0,0,0,0, 0,0,1,0,1, 0,0,1,0,1]).2 = .err .parseFrame := by decide
example : (processDNS (fun _ => .invalid) []
      [0,1,0x81,0x80,0,1,0,1,0,0,0,0, 1,97,0, 0,1,0,1, 0xc0,12, 0,1, 0,1, 0,0,0,60, 0,4, 10,0,0]).2 = .err .invalidLen := by
  decide

/-- a self-pointing name has no derivation and is rejected -/
example : decodeName [0,0,0,0,0,0,0,0,0,0,0,0, 0xc0, 12] 12 1 = .err .parseFrame := by decide
/-- reserved label bits -/
example : decodeName [0x41, 65, 0] 0 1 = .err .other := by decide
/-- truncated label -/
example : decodeName [5, 65, 66] 0 1 = .err .parseFrame := by decide
/-- node name array with a group name (flag 0x80) and a unique name -/
-- one octet short (RDLENGTH = 18 * NUM_NAMES) is refused, the complete array accepted
example : parseNodeNameArray ([1] ++ [87,79,82,75,71,82,79,85,80,32,32,32,32,32,32,32, 4]) = .err .frameLen := by decide
example : parseNodeNameArray ([1] ++ [87,79,82,75,71,82,79,85,80,32,32,32,32,32,32,32, 4, 0]) = .ok [[87,79,82,75,71,82,79,85,80]] := by decide
example : parseNodeNameArray ([2] ++ [71,32,32,32,32,32,32,32,32,32,32,32,32,32,32,32, 0x84,0] ++ [85,49,0,0,32,32,32,32,32,32,32,32,32,32,32,32, 4,0]) = .ok [[85,49,0,0]] := by decide
/-- merge: a change is reported and nothing is erased by empty fields -/
example : (NameEntry.merge { NameEntry.zero with name := [65], model := [66] } { NameEntry.zero with name := [67] })
    = ({ NameEntry.zero with name := [67], model := [66] }, true) := by decide

/-- an NBSTAT response (`sampleNbns`, Lemmas/Nbns.lean) takes the third branch of
    `processNBNS_name_eq_spec` with a non-empty name: "U1" -/
example : DnsMsg.processNBNS 5 sampleNbns = .ok { type := DnsMsg.sNbns, name := [85, 49], err := false } ∧
    firstNodeName ((sampleNbns.drop 23).take 19) = some [85, 49] ∧ DnsMsg.nbnsBound sampleNbns ≤ 6 :=
  ⟨sample_processNBNS, by decide, by rw [DnsMsg.nbnsBound, sample_start]; decide⟩

end PV.Props.C17
