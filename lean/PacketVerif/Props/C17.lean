/-
  C17 — DNS records and names decode as a reference decoder; merges are monotone.
  Property theorems only; helper lemmas live in `Lemmas/DnsSpec.lean`, `Lemmas/DnsRR.lean`,
  `Lemmas/Naming.lean`.

  Reference: `Spec.NameAt` (RFC 1035 §3.1/§4.1.4 as finite derivations: labels of 1..63 octets,
  root octet, pointers only to positions strictly before the name that contains them) and
  `Spec.WfName` (+ total wire length ≤ 255).  Model: `Model.decodeName` etc. = the Go code after
  the `fix:` commits (KNOWN_FINDINGS.txt).

  "Attributes" of a `NameEntry` are Name, Model, OS and Manufacturer.  `Type` is the tag of the
  source that supplied the last update and `Expire` its refresh time; `Merge` always copies the
  former and refreshes the latter only together with an attribute change (stated below).
-/
import PacketVerif.Lemmas.DnsRRSpec
import PacketVerif.Lemmas.Naming
import PacketVerif.Lemmas.DnsMsgSpec
import PacketVerif.Lemmas.DnsMsg
namespace PV.Props.C17
open PV PV.Model PV.Spec PV.Lemmas.Dns PV.Lemmas.Naming

/-! ### names -/

/-- **decodeName = reference decoder on well-formed names**, including compressed and
    pointer-chained names: if the message holds a well-formed name at `off` (labels `ls`, own
    encoding ending at `e`, `d` pointers followed) with `d ≤ 254` (the implementation's recursion
    limit `maxRecursionLevel = 255`; dnsmessage stops at 10), the decoder returns exactly the
    reference text and end offset. -/
theorem decodeName_eq_spec (m : Bytes) (off : Nat) (ls : List Bytes) (e d : Nat)
    (h : WfName m off ls e d) (hd : d ≤ 254) :
    decodeName m off 1 = .ok (text ls, e) := by
  obtain ⟨hn, hw⟩ := h
  have hlt : off < m.length := by
    cases hn with
    | root h => exact getElem?_lt h
    | label h _ _ _ _ => exact getElem?_lt h
    | ptr h _ _ _ _ => exact getElem?_lt h
  have hdl := dotted_length ls
  unfold decodeName
  have c1 : ¬ (1 > maxRecursionLevel) := by decide
  have c2 : ¬ ((off : Int) ≥ (m.length : Int)) := by omega
  have c3 : ¬ ((off : Int) < 0) := by omega
  simp only [c1, c2, c3, if_false]
  have : decodeSeg nameFuel m (off : Int).toNat 1 = .ok (dotted ls, e) := by
    simpa [nameFuel] using decodeSeg_complete hn 256 1 (by omega) (by omega) (by omega)
  rw [this]
  simp [nameOf_dotted]

/-- **everything decodeName accepts is a reference name**: the returned bytes are the text of a
    `NameAt` derivation ending exactly at the returned offset, assembled from at most 254 pointers,
    of uncompressed wire length ≤ 256 (RFC limit 255 + the one byte of slack the code's
    `> 255` tests leave).  Since derivations are loop-free, have only prior pointers, only label
    types `00`/`11`, labels of ≤ 63 octets lying inside the message, this is the rejection
    theorem in its strongest form. -/
theorem decodeName_sound (m : Bytes) (off : Int) (n : Bytes) (e : Nat)
    (h : decodeName m off 1 = .ok (n, e)) :
    0 ≤ off ∧ ∃ ls d, NameAt m off.toNat off.toNat ls e d ∧ n = text ls ∧ wireLen ls ≤ 256 ∧ d ≤ 254 :=
  decodeName_accepts m off n e h

/-- **rejection**: a name for which no reference derivation exists (pointer loop, pointer that is
    not prior, reserved label bits `01`/`10`, a label or pointer running past the end, offset
    outside the message) is refused with an error — never accepted, never a panic or a hang. -/
theorem decodeName_rejects (m : Bytes) (off : Int)
    (h : ¬ ∃ ls e d, NameAt m off.toNat off.toNat ls e d) : ∃ er, decodeName m off 1 = .err er := by
  have hs := decodeName_safe m off 1 (Nat.le_refl _)
  cases hr : decodeName m off 1 with
  | ok v =>
    obtain ⟨n, e⟩ := v
    obtain ⟨_, ls, d, hn, _⟩ := decodeName_sound m off n e hr
    exact absurd ⟨ls, e, d, hn⟩ h
  | err er => exact ⟨er, rfl⟩
  | panic => exact absurd hr hs.1
  | hang => exact absurd hr hs.2

/-- names whose uncompressed form exceeds 256 octets are refused even when they are assembled
    through compression pointers (fix commit; before it a 383-byte name was returned) -/
theorem decodeName_rejects_long (m : Bytes) (off : Nat) (ls : List Bytes) (e d : Nat)
    (hn : NameAt m off off ls e d) (hlong : 256 < wireLen ls) : ∃ er, decodeName m off 1 = .err er := by
  have hs := decodeName_safe m off 1 (Nat.le_refl _)
  cases hr : decodeName m off 1 with
  | ok v =>
    obtain ⟨n, e'⟩ := v
    obtain ⟨_, ls', d', hn', _, hw, _⟩ := decodeName_sound m off n e' hr
    have : ls' = ls := by
      have a := nameAt?_complete hn
      have b := nameAt?_complete hn'
      simp at b
      rw [a] at b
      injection b with b
      injection b with b _
      exact b.symm
    subst this
    omega
  | err er => exact ⟨er, rfl⟩
  | panic => exact absurd hr hs.1
  | hang => exact absurd hr hs.2

/-- the executable reference used by the driver (`spec=` part of `dns.name` replies) decides
    exactly the declarative one -/
theorem spec_exec_iff (m : Bytes) (start pos : Nat) (ls : List Bytes) (e d : Nat) :
    nameAt? m start pos = some (ls, e, d) ↔ NameAt m start pos ls e d :=
  ⟨nameAt?_sound m start pos ls e d, nameAt?_complete⟩

/-! ### questions and resource records -/

/-- pointer depth of the reference name at `off` (0 when there is none) -/
def depthAt (m : Bytes) (off : Nat) : Nat :=
  match decodeName? m off with
  | some (_, _, d) => d
  | none => 0

/-- **DecodeQuestion = reference** on a message whose question (at offset 12) is well-formed,
    QDCOUNT = 1: name, type, class and the offset after the question. -/
theorem decodeQuestion_eq_spec (m : Bytes) (q : Spec.Question) (e : Nat)
    (hq : questionAt? m 12 = some (q, e)) (hqd : u16At m 4 = some 1) (hd : depthAt m 12 ≤ 254) :
    decodeQuestion m 12 = .ok ({ name := q.name, qtype := q.qtype, qclass := q.qclass }, e) := by
  unfold questionAt? at hq
  cases hn : decodeName? m 12 with
  | none => rw [hn] at hq; simp at hq
  | some v =>
    obtain ⟨t, e0, d⟩ := v
    rw [hn] at hq
    simp only [bind, Option.bind, pure] at hq
    simp only [depthAt, hn] at hd
    cases ht : u16At m e0 with
    | none => rw [ht] at hq; simp at hq
    | some ty =>
      cases hc : u16At m (e0 + 2) with
      | none => rw [ht, hc] at hq; simp at hq
      | some cl =>
        rw [ht, hc] at hq
        simp at hq
        obtain ⟨rfl, rfl⟩ := hq
        obtain ⟨hdn, hlt, hlen⟩ := decodeName_of_spec hn hd
        obtain ⟨r1, l1⟩ := rd16_of_u16At hqd
        obtain ⟨r2, l2⟩ := rd16_of_u16At ht
        obtain ⟨r3, l3⟩ := rd16_of_u16At hc
        unfold decodeQuestion
        rw [if_neg (by omega), r1]
        simp only []
        have : decodeName m (12 : Int) 1 = .ok (t, e0) := by simpa using hdn
        rw [if_neg (by omega), if_neg (by omega), this]
        simp only []
        rw [if_neg (by omega), r2, r3]
/-- **A record**: a well-formed record of type A with 4 bytes of RDATA is stored under its address with
    the reference owner name and TTL unless that address is already present (first record wins);
    the returned offset is the reference end of the record. -/
theorem decodeRR_A_eq_spec (ip6 : Bytes → PtrIP) (ent : DNSEntry) (m : Bytes) (off : Nat) (r : RR) (o : Nat)
    (h : rrAt? m off = some (r, o)) (hd : depthAt m off ≤ 254) (ht : r.rtype = 1) (hl : r.rdata.length = 4) :
    decodeRR ip6 ent m off =
      .ok (if hasIP ent.ip4 r.rdata then (ent, o, false)
           else ({ ent with ip4 := ent.ip4 ++ [{ name := r.name, ip := r.rdata, ttl := r.ttl }] }, o, true)) := by
  obtain ⟨e, d, rdl, hn, h1, h2, h3, h4, h5, _, rfl⟩ := rrAt_facts h
  simp only [depthAt, hn] at hd
  obtain ⟨hdn, _, _⟩ := decodeName_of_spec hn hd
  obtain ⟨r1, _⟩ := rd16_of_u16At h1
  obtain ⟨r2, _⟩ := rd32_of_u32At h2
  obtain ⟨r3, _⟩ := rd16_of_u16At h3
  have hrdl : rdl = 4 := by rw [h5] at hl; simp at hl; omega
  subst hrdl
  unfold decodeRR
  rw [hdn]
  simp only []
  rw [if_neg (by omega), r1, r2, r3]
  simp only [ht]
  rw [if_neg (by omega), if_pos trivial, if_neg (by simp), slice_ok (by omega) (by omega), slice_eq_drop_take]
  have : e + 10 + 4 - (e + 10) = 4 := by omega
  simp only [this, ← h5]
  split <;> simp_all
/-- **AAAA record** (16 bytes of RDATA) -/
theorem decodeRR_AAAA_eq_spec (ip6 : Bytes → PtrIP) (ent : DNSEntry) (m : Bytes) (off : Nat) (r : RR) (o : Nat)
    (h : rrAt? m off = some (r, o)) (hd : depthAt m off ≤ 254) (ht : r.rtype = 28) (hl : r.rdata.length = 16) :
    decodeRR ip6 ent m off =
      .ok (if hasIP ent.ip6 r.rdata then (ent, o, false)
           else ({ ent with ip6 := ent.ip6 ++ [{ name := r.name, ip := r.rdata, ttl := r.ttl }] }, o, true)) := by
  obtain ⟨e, d, rdl, hn, h1, h2, h3, h4, h5, _, rfl⟩ := rrAt_facts h
  simp only [depthAt, hn] at hd
  obtain ⟨hdn, _, _⟩ := decodeName_of_spec hn hd
  obtain ⟨r1, _⟩ := rd16_of_u16At h1
  obtain ⟨r2, _⟩ := rd32_of_u32At h2
  obtain ⟨r3, _⟩ := rd16_of_u16At h3
  have hrdl : rdl = 16 := by rw [h5] at hl; simp at hl; omega
  subst hrdl
  unfold decodeRR
  rw [hdn]
  simp only []
  rw [if_neg (by omega), r1, r2, r3]
  simp only [ht]
  rw [if_neg (by omega), if_neg (by decide), if_pos trivial, if_neg (by simp), slice_ok (by omega) (by omega), slice_eq_drop_take]
  have : e + 10 + 16 - (e + 10) = 16 := by omega
  simp only [this, ← h5]
  split <;> simp_all

/-- **CNAME record**: owner and target are the reference names (the target may be compressed
    against the whole message); keyed by owner, first record wins.  (Before the fix the owner was
    overwritten by the target in the shared decode buffer.) -/
theorem decodeRR_CNAME_eq_spec (ip6 : Bytes → PtrIP) (ent : DNSEntry) (m : Bytes) (off : Nat) (r : RR) (o : Nat)
    (ct : Bytes) (ce cd : Nat)
    (h : rrAt? m off = some (r, o)) (hd : depthAt m off ≤ 254) (ht : r.rtype = 5)
    (hc : decodeName? m r.rdataOff = some (ct, ce, cd)) (hcd : cd ≤ 254) :
    decodeRR ip6 ent m off =
      .ok (if hasCName ent.cname r.name then (ent, o, false)
           else ({ ent with cname := ent.cname ++ [{ name := r.name, cname := ct, ttl := r.ttl }] }, o, true)) := by
  obtain ⟨e, d, rdl, hn, h1, h2, h3, h4, h5, h6, rfl⟩ := rrAt_facts h
  simp only [depthAt, hn] at hd
  obtain ⟨hdn, _, _⟩ := decodeName_of_spec hn hd
  rw [h6] at hc
  obtain ⟨hcn, _, _⟩ := decodeName_of_spec hc hcd
  obtain ⟨r1, _⟩ := rd16_of_u16At h1
  obtain ⟨r2, _⟩ := rd32_of_u32At h2
  obtain ⟨r3, _⟩ := rd16_of_u16At h3
  unfold decodeRR
  rw [hdn]
  simp only []
  rw [if_neg (by omega), r1, r2, r3]
  simp only [ht]
  rw [if_neg (by omega), if_neg (by decide), if_neg (by decide), if_pos trivial, hcn]
  simp only []
  split <;> simp_all
/-- **PTR record** whose owner `d.c.b.a.in-addr.arpa` parses as an IPv4 address: stored under the
    reference target name with the address a.b.c.d and the TTL. -/
theorem decodeRR_PTR_eq_spec (ip6 : Bytes → PtrIP) (ent : DNSEntry) (m : Bytes) (off : Nat) (r : RR) (o : Nat)
    (pt : Bytes) (pe pd a b c d : Nat)
    (h : rrAt? m off = some (r, o)) (hd : depthAt m off ≤ 254) (ht : r.rtype = 12)
    (hip : parsePtrIP ip6 (trimSuffix r.name inAddrArpa) = .v4 a b c d)
    (hc : decodeName? m r.rdataOff = some (pt, pe, pd)) (hpd : pd ≤ 254) :
    decodeRR ip6 ent m off =
      .ok (if hasIPName ent.ptr pt then (ent, o, false)
           else ({ ent with ptr := ent.ptr ++ [{ name := pt, ip := [UInt8.ofNat d, UInt8.ofNat c, UInt8.ofNat b, UInt8.ofNat a], ttl := r.ttl }] }, o, true)) := by
  obtain ⟨e, d', rdl, hn, h1, h2, h3, h4, h5, h6, rfl⟩ := rrAt_facts h
  simp only [depthAt, hn] at hd
  obtain ⟨hdn, _, _⟩ := decodeName_of_spec hn hd
  rw [h6] at hc
  obtain ⟨hcn, _, _⟩ := decodeName_of_spec hc hpd
  obtain ⟨r1, _⟩ := rd16_of_u16At h1
  obtain ⟨r2, _⟩ := rd32_of_u32At h2
  obtain ⟨r3, _⟩ := rd16_of_u16At h3
  unfold decodeRR
  rw [hdn]
  simp only []
  rw [if_neg (by omega), r1, r2, r3]
  simp only [ht]
  rw [if_neg (by omega), if_neg (by decide), if_neg (by decide), if_neg (by decide), if_neg (by decide), if_pos trivial, hip]
  simp only [hcn]
  split <;> simp_all

example : parsePtrIP (fun _ => .invalid) (trimSuffix [50,48,51,46,54,55,46,50,53,51,46,49,55,46,105,110,45,97,100,100,114,46,97,114,112,97] inAddrArpa)
    = .v4 203 67 253 17 := by decide

/-! ### merge algebra: `NameEntry.Merge` -/

/-- merging never erases a previously known non-empty attribute -/
theorem merge_no_erase (e n : NameEntry) :
    ((e.merge n).1.name = [] → e.name = []) ∧ ((e.merge n).1.model = [] → e.model = []) ∧
    ((e.merge n).1.os = [] → e.os = []) ∧ ((e.merge n).1.manufacturer = [] → e.manufacturer = []) := by
  simp only [NameEntry.merge]
  exact ⟨mergeAttr_no_erase _ _, mergeAttr_no_erase _ _, mergeAttr_no_erase _ _, mergeAttr_no_erase _ _⟩

/-- `modified` is reported exactly when some attribute changed -/
theorem merge_reports_change_iff (e n : NameEntry) :
    (e.merge n).2 = true ↔
      ((e.merge n).1.name ≠ e.name ∨ (e.merge n).1.model ≠ e.model ∨ (e.merge n).1.os ≠ e.os ∨
        (e.merge n).1.manufacturer ≠ e.manufacturer) := by
  simp only [NameEntry.merge, Bool.or_eq_true]
  rw [mergeAttr_changed, mergeAttr_changed, mergeAttr_changed, mergeAttr_changed]
  constructor
  · rintro (((h | h) | h) | h)
    · exact Or.inl h
    · exact Or.inr (Or.inl h)
    · exact Or.inr (Or.inr (Or.inl h))
    · exact Or.inr (Or.inr (Or.inr h))
  · rintro (h | h | h | h)
    · exact Or.inl (Or.inl (Or.inl h))
    · exact Or.inl (Or.inl (Or.inr h))
    · exact Or.inl (Or.inr h)
    · exact Or.inr h

/-- merging the same entry again changes nothing and reports no change -/
theorem merge_idem (e n : NameEntry) : (e.merge n).1.merge n = ((e.merge n).1, false) := by
  simp [NameEntry.merge, mergeAttr_idem]

/-- a new attribute value is taken over exactly when it is non-empty and different -/
theorem merge_takes_new (e n : NameEntry) :
    (e.merge n).1.name = (if n.name ≠ [] ∧ e.name ≠ n.name then n.name else e.name) ∧
    (e.merge n).1.model = (if n.model ≠ [] ∧ e.model ≠ n.model then n.model else e.model) ∧
    (e.merge n).1.os = (if n.os ≠ [] ∧ e.os ≠ n.os then n.os else e.os) ∧
    (e.merge n).1.manufacturer = (if n.manufacturer ≠ [] ∧ e.manufacturer ≠ n.manufacturer then n.manufacturer else e.manufacturer) := by
  simp only [NameEntry.merge]
  exact ⟨mergeAttr_fst _ _, mergeAttr_fst _ _, mergeAttr_fst _ _, mergeAttr_fst _ _⟩

/-- the two non-attribute fields: `Type` is always the source's, `Expire` is refreshed only
    together with an attribute change (and only by a non-zero time) -/
theorem merge_type_expire (e n : NameEntry) :
    (e.merge n).1.type = n.type ∧
    (e.merge n).1.expire = (if (e.merge n).2 = true ∧ n.expire ≠ 0 then n.expire else e.expire) := by
  exact ⟨rfl, rfl⟩

/-! ### `Host.Update*Name` (all five sources) -/

/-- attributes of slot `s` of the host changed -/
def attrsChanged (a b : NameEntry) : Prop :=
  a.name ≠ b.name ∨ a.model ≠ b.model ∨ a.os ≠ b.os ∨ a.manufacturer ≠ b.manufacturer

/-- **dirty exactly on change**: after `Update<s>Name` the notification flag is set iff it was
    set before or an attribute of the host's `<s>` slot changed -/
theorem update_dirty_iff (h : HostNames) (s : Source) (n : NameEntry) :
    (h.update s n).dirty = true ↔ (h.dirty = true ∨ attrsChanged ((h.update s n).host.get s) (h.host.get s)) := by
  have hc := merge_reports_change_iff (h.host.get s) n
  unfold attrsChanged
  simp only [HostNames.update]
  cases hm : (h.host.get s).merge n with
  | mk e notify =>
    rw [hm] at hc
    simp only [] at hc ⊢
    cases notify with
    | true =>
      simp only [if_true, get_set_same]
      exact ⟨fun _ => Or.inr (hc.mp rfl), fun _ => trivial⟩
    | false =>
      simp only [Bool.false_eq_true, if_false, get_set_same]
      constructor
      · intro hd; exact Or.inl hd
      · rintro (hd | hch)
        · exact hd
        · exact absurd (hc.mpr hch) (by simp)

/-- the other four slots of host and MAC entry are untouched -/
theorem update_other_slots (h : HostNames) (s s' : Source) (n : NameEntry) (hne : s' ≠ s) :
    (h.update s n).host.get s' = h.host.get s' ∧ (h.update s n).mac.get s' = h.mac.get s' := by
  simp only [HostNames.update]
  cases hm : (h.host.get s).merge n with
  | mk e notify =>
    cases notify <;> simp [get_set_other _ _ _ _ hne]

/-- no attribute of the host slot or of the MAC entry's slot is erased -/
theorem update_no_erase (h : HostNames) (s : Source) (n : NameEntry) :
    (((h.update s n).host.get s).name = [] → (h.host.get s).name = []) ∧
    (((h.update s n).host.get s).model = [] → (h.host.get s).model = []) ∧
    (((h.update s n).host.get s).os = [] → (h.host.get s).os = []) ∧
    (((h.update s n).host.get s).manufacturer = [] → (h.host.get s).manufacturer = []) ∧
    (((h.update s n).mac.get s).name = [] → (h.mac.get s).name = []) ∧
    (((h.update s n).mac.get s).model = [] → (h.mac.get s).model = []) ∧
    (((h.update s n).mac.get s).os = [] → (h.mac.get s).os = []) ∧
    (((h.update s n).mac.get s).manufacturer = [] → (h.mac.get s).manufacturer = []) := by
  have hh := merge_no_erase (h.host.get s) n
  simp only [HostNames.update]
  cases hm : (h.host.get s).merge n with
  | mk e notify =>
    rw [hm] at hh
    simp only [] at hh
    cases notify with
    | true =>
      have hmac := merge_no_erase (h.mac.get s) e
      simp only [if_true, get_set_same]
      exact ⟨hh.1, hh.2.1, hh.2.2.1, hh.2.2.2, hmac.1, hmac.2.1, hmac.2.2.1, hmac.2.2.2⟩
    | false =>
      simp only [Bool.false_eq_true, if_false, get_set_same]
      exact ⟨hh.1, hh.2.1, hh.2.2.1, hh.2.2.2, id, id, id, id⟩

/-- idempotent: once the notification has been delivered (flag cleared), the same update again
    changes neither the host, nor the MAC entry, nor the flag -/
theorem update_idem (h : HostNames) (s : Source) (n : NameEntry) :
    ({ h.update s n with dirty := false }).update s n = { h.update s n with dirty := false } := by
  have hi := merge_idem (h.host.get s) n
  simp only [HostNames.update]
  by_cases hnot : ((h.host.get s).merge n).snd = true
  · simp [hnot, get_set_same, hi, set_set]
  · simp [hnot, get_set_same, hi, set_set]

/-- without an attribute change the MAC entry is not written at all -/
theorem update_mac_unchanged (h : HostNames) (s : Source) (n : NameEntry)
    (hno : ((h.host.get s).merge n).2 = false) : (h.update s n).mac = h.mac ∧ (h.update s n).dirty = h.dirty := by
  simp only [HostNames.update]
  cases hm : (h.host.get s).merge n with
  | mk e notify =>
    rw [hm] at hno
    simp only [] at hno
    subst hno
    simp

/-- **ProcessDNS stores only reference records**: for a response whose question and answer
    section the reference decodes (`questionAt?`, `rrsAt?` over ANCOUNT records), the entry
    returned (and stored) by ProcessDNS on a fresh table carries the reference question name,
    and every A / AAAA record in it is a reference record of that type: same owner name
    (decompressed), address bytes and TTL.  (Completeness per record: `decodeRR_*_eq_spec`.) -/
theorem processDNS_eq_spec (ip6 : Bytes → PtrIP) (m : Bytes) (q : Spec.Question) (qe : Nat) (rrs : List Spec.RR) (o an : Nat)
    (hq : questionAt? m 12 = some (q, qe)) (han : u16At m 6 = some an) (hrr : rrsAt? m an qe = some (rrs, o))
    (e : DNSEntry) (hp : (processDNS ip6 [] m).2 = .ok (some e)) :
    e.name = q.name ∧
    (∀ x ∈ e.ip4, ∃ s ∈ rrs, s.rtype = 1 ∧ s.name = x.name ∧ s.rdata = x.ip ∧ s.ttl = x.ttl) ∧
    (∀ x ∈ e.ip6, ∃ s ∈ rrs, s.rtype = 28 ∧ s.name = x.name ∧ s.rdata = x.ip ∧ s.ttl = x.ttl) := by
  unfold processDNS at hp
  split at hp
  · simp at hp
  next h12 =>
    cases hdq : decodeQuestion m 12 with
    | ok v =>
      obtain ⟨q', idx⟩ := v
      rw [hdq] at hp
      obtain ⟨hqn, rfl⟩ := decodeQuestion_agree hdq hq
      simp only [DNSTable.find, List.find?_nil, Option.isSome_none, Bool.false_eq_true, if_false] at hp
      unfold decodeAnswers at hp
      rw [if_neg (by omega)] at hp
      obtain ⟨r6, _⟩ := rd16_of_u16At han
      rw [r6] at hp
      simp only [] at hp
      cases hd : decodeRRs ip6 an (DNSEntry.empty q'.name) m idx false with
      | mk e' r =>
        rw [hd] at hp
        simp only [] at hp
        cases r with
        | ok w =>
          obtain ⟨off', upd⟩ := w
          simp only [] at hp
          split at hp
          · injection hp with hp
            injection hp with hp
            subst hp
            obtain ⟨_, b2, b3, b4⟩ := decodeRRs_sound ip6 m an _ _ idx rrs o off' false upd hrr hd
            refine ⟨by rw [b2, ← hqn]; rfl, ?_, ?_⟩
            · intro x hx
              rcases b3 x hx with h | h
              · simp [DNSEntry.empty] at h
              · exact h
            · intro x hx
              rcases b4 x hx with h | h
              · simp [DNSEntry.empty] at h
              · exact h
          · simp at hp
        | err er => simp at hp
        | panic => simp at hp
        | hang => simp at hp
    | err er => rw [hdq] at hp; simp at hp
    | panic => rw [hdq] at hp; simp at hp
    | hang => rw [hdq] at hp; simp at hp

/-- **names seen by ProcessMDNS / ProcessNBNS** (`hdr.Name`, question names) come from
    `dnsmessage.Name.unpack`; on a reference name with at most 10 pointers (dnsmessage's limit), no
    dot inside a label and a text form of at most 254 bytes it returns the reference labels each
    followed by a dot ("." for the root) and the reference end offset — including compressed and
    pointer-chained names. -/
theorem dnsmessage_name_eq_spec (m : Bytes) (off : Nat) (ls : List Bytes) (e d : Nat)
    (h : NameAt m off off ls e d) (hd : d ≤ 10) (hdots : ∀ l ∈ ls, ∀ c ∈ l, c ≠ 46)
    (hlen : (dottedR ls).length ≤ 254) :
    DnsMsg.unpackName m off = .ok (if ls = [] then [46] else dottedR ls, e) := by
  have := unpackName_complete h 0 none [] (by omega) hdots (by simpa using hlen)
  unfold DnsMsg.unpackName
  rw [this]
  cases ls with
  | nil => simp [dottedR]
  | cons l rest => simp [dottedR]

/-- **names returned by ProcessMDNS**: every address entry (A / AAAA) in the result carries a name
    that the Parser's name decoder produced at some offset of the payload, with ".local." stripped;
    by `dnsmessage_name_eq_spec` that decoder returns the reference name on every well-formed
    name, compressed or pointer-chained. -/
theorem mdns_names_eq_spec (payload : Bytes) (fuel : Nat) (o : DnsMsg.MdnsOut)
    (h : DnsMsg.processMDNS fuel payload = .ok o) :
    ∀ x ∈ o.ipv4 ++ o.ipv6, x.ip ≠ [] →
      ∃ off nm e, DnsMsg.unpackName payload off = .ok (nm, e) ∧ x.name = trimSuffix nm DnsMsg.sLocal :=
  PV.Lemmas.DnsMsg.processMDNS_names payload fuel o h

/-- **NBNS node status names**: `parseNodeNameArray` returns exactly the unique names of the RFC 1002
    NODE_NAME array (each entry's own name, padding stripped), on every input; ProcessNBNS reports
    the first of them. -/
theorem nbns_names_eq_spec (n : UInt8) (rest : Bytes) :
    parseNodeNameArray (n :: rest) =
      (if rest.length < n.toNat * 18 then .err .frameLen
       else match nodeNameArray n.toNat rest with
         | some l => .ok l
         | none => .err .frameLen) :=
  parseNodeNameArray_eq_spec n rest

/-! ### non-vacuity -/

/-- `www` + pointer to `example.com` at offset 12: a compressed, well-formed name -/
def sampleMsg : Bytes :=
  [0,0,0,0,0,0,0,0,0,0,0,0, 7,101,120,97,109,112,108,101, 3,99,111,109, 0, 3,119,119,119, 0xc0,12]

example : WfName sampleMsg 25 [[119,119,119],[101,120,97,109,112,108,101],[99,111,109]] 31 1 := by
  refine ⟨?_, by decide⟩
  refine NameAt.label (n := 3) (by decide) (by decide) (by decide) (by decide) ?_
  refine NameAt.ptr (hi := 0xc0) (lo := 12) (e := 25) (by decide) (by decide) (by decide) (by decide) ?_
  refine NameAt.label (n := 7) (by decide) (by decide) (by decide) (by decide) ?_
  refine NameAt.label (n := 3) (by decide) (by decide) (by decide) (by decide) ?_
  exact NameAt.root (by decide)

example : decodeName sampleMsg 25 1 = .ok ([119,119,119,46,101,120,97,109,112,108,101,46,99,111,109], 31) := by decide
/-- header (QD=1, AN=1) + question `a.` type 1 class 1 + answer: pointer to 12, type A, class 1, ttl 60, 4 bytes -/
def sampleResp : Bytes :=
  [0,1,0x81,0x80,0,1,0,1,0,0,0,0, 1,97,0, 0,1,0,1, 0xc0,12, 0,1, 0,1, 0,0,0,60, 0,4, 10,0,0,1]

theorem sample_q : decodeName? sampleResp 12 = some ([97], 15, 0) := by
  have h : NameAt sampleResp 12 12 [[97]] 15 0 :=
    NameAt.label (n := 1) (by decide) (by decide) (by decide) (by decide) (NameAt.root (by decide))
  simp [decodeName?, nameAt?_complete h, wireLen, text]

theorem sample_owner : decodeName? sampleResp 19 = some ([97], 21, 1) := by
  have h : NameAt sampleResp 19 19 [[97]] 21 1 :=
    NameAt.ptr (hi := 0xc0) (lo := 12) (e := 15) (by decide) (by decide) (by decide) (by decide)
      (NameAt.label (n := 1) (by decide) (by decide) (by decide) (by decide) (NameAt.root (by decide)))
  simp [decodeName?, nameAt?_complete h, wireLen, text]

/-- the hypotheses of `decodeQuestion_eq_spec` / `decodeRR_A_eq_spec` are satisfiable -/
example : questionAt? sampleResp 12 = some ({ name := [97], qtype := 1, qclass := 1 }, 19) := by
  unfold questionAt?
  rw [sample_q]
  decide

example : rrAt? sampleResp 19 = some ({ name := [97], rtype := 1, rclass := 1, ttl := 60, rdata := [10,0,0,1], rdataOff := 31 }, 35) := by
  unfold rrAt?
  rw [sample_owner]
  decide

example : decodeQuestion sampleResp 12 = .ok ({ name := [97], qtype := 1, qclass := 1 }, 19) := by decide
example : (processDNS (fun _ => .invalid) [] sampleResp).2 =
    .ok (some { name := [97], ip4 := [{ name := [97], ip := [10,0,0,1], ttl := 60 }], ip6 := [], cname := [], ptr := [] }) := by decide

/-- a self-pointing name has no derivation and is rejected -/
example : decodeName [0,0,0,0,0,0,0,0,0,0,0,0, 0xc0, 12] 12 1 = .err .parseFrame := by decide
/-- reserved label bits -/
example : decodeName [0x41, 65, 0] 0 1 = .err .other := by decide
/-- truncated label -/
example : decodeName [5, 65, 66] 0 1 = .err .parseFrame := by decide
/-- node name array with a group name (flag 0x80) and a unique name -/
example : parseNodeNameArray ([2] ++ [71,32,32,32,32,32,32,32,32,32,32,32,32,32,32,32, 0x84,0] ++ [85,49,0,0,32,32,32,32,32,32,32,32,32,32,32,32, 4,0]) = .ok [[85,49,0,0]] := by decide
/-- merge: a change is reported and nothing is erased by empty fields -/
example : (NameEntry.merge { NameEntry.zero with name := [65], model := [66] } { NameEntry.zero with name := [67] })
    = ({ NameEntry.zero with name := [67], model := [66] }, true) := by decide

end PV.Props.C17
