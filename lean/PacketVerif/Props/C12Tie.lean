/-
  Tie B for C11/C12/C03: DHCPv4 option codes, message types, ports and the session deadlines used as
  literals in the DHCP and table models, against the constants regenerated from the Go source.
-/
import PacketVerif.Gen.Facts
namespace PV.Props.C12Tie

def expect : List (String × Nat) := [
  ("DHCP4OptionSubnetMask", 1), ("DHCP4OptionRouter", 3), ("DHCP4OptionDomainNameServer", 6), ("DHCP4OptionHostName", 12),
  ("DHCP4OptionStaticRoute", 33), ("DHCP4OptionRequestedIPAddress", 50), ("DHCP4OptionIPAddressLeaseTime", 51),
  ("DHCP4OptionDHCPMessageType", 53), ("DHCP4OptionServerIdentifier", 54), ("DHCP4OptionParameterRequestList", 55),
  ("DHCP4OptionClientIdentifier", 61), ("DHCP4OptionClasslessRouteFormat", 121), ("DHCP4Pad", 0), ("DHCP4End", 255),
  ("DHCP4Discover", 1), ("DHCP4Offer", 2), ("DHCP4Request", 3), ("DHCP4Decline", 4), ("DHCP4ACK", 5), ("DHCP4NAK", 6),
  ("DHCP4Release", 7), ("DHCP4Inform", 8), ("DHCP4BootRequest", 1), ("DHCP4BootReply", 2),
  ("DHCP4ClientPort", 68), ("DHCP4ServerPort", 67),
  ("DefaultProbeDeadline", 120000000000), ("DefaultOfflineDeadline", 300000000000), ("DefaultPurgeDeadline", 3660000000000)]

theorem dhcp_consts_tie : expect.all (fun (n, v) => Gen.consts.lookup n == some v) = true := by decide

end PV.Props.C12Tie
