/-
  Composition theorems: what the byte-level `Model.parse` (C02) decodes is exactly what the host-table
  machine (C04–C06) and the ping-waiter machine (C19) consume.

  The translation functions (`ipOfBytes`, `cfgOf`, `frameEvOf`, `echoOf`, `IsEchoReply`, `parseBytes`,
  `packetBytes`, `runBytes`, …) and the bridging lemmas between the `Model.Netip` byte predicates and the
  numeric predicates of `Tables.IP` are in `Lemmas/Compose.lean`.
-/
import PacketVerif.Lemmas.Compose
import PacketVerif.Props.C02
import PacketVerif.Props.C04
import PacketVerif.Props.C06
import PacketVerif.Props.C19
namespace PV.Props.Compose
open PV PV.Model PV.Lemmas.Compose
open PV.Spec (at_ u16 field)

/-! ### 1. Parse → host table -/

/-- **The host Parse hands over is the table machine's creation rule on the frame's bytes.**  For every
    configuration and every frame, the (MAC, IP) that the byte-level Parse passes to
    `findOrCreateHostWithLock` (translated by `ipOfBytes`) is `Tables.hostEvent` evaluated on the frame
    event read straight from the bytes.  No side condition: a zero / IPv6 / over-long LAN prefix contains
    no IPv4 address on either side, and MACs are compared as byte strings on both sides. -/
theorem parse_hostEv_eq_hostEvent (cfg : Model.Cfg) (base : Tables.Cfg) (p : Bytes) :
    ∀ r, parse cfg p = .ok r →
      (r.frame.hostEv).map (fun mi => (mi.1, ipOfBytes mi.2)) =
        Tables.hostEvent (cfgOf cfg base) (frameEvOf p) := by
  intro r h
  rw [(parse_proj cfg p r h).1]
  exact hostOf_eq_hostEvent cfg base p

/-- the other two things `Notify` reads off the parsed frame are those of `frameEvOf`: the DHCPv4
    classification and the source MAC -/
theorem parse_notify_inputs (cfg : Model.Cfg) (p : Bytes) :
    ∀ r, parse cfg p = .ok r →
      (r.frame.pid == Pid.dhcp4) = (frameEvOf p).dhcp4 ∧ r.frame.srcMAC = (frameEvOf p).srcMAC :=
  fun r h => (parse_proj cfg p r h).2.2

/-- with C04's `creation_rule`: the hand-over is the creation rule of the property statement -/
theorem parse_hostEv_eq_seen (cfg : Model.Cfg) (base : Tables.Cfg) (p : Bytes) :
    ∀ r, parse cfg p = .ok r → hostEvOf r = Spec.seen (cfgOf cfg base) (frameEvOf p) := by
  intro r h
  rw [← C04.creation_rule]
  exact parse_hostEv_eq_hostEvent cfg base p r h

/-- the bridging lemmas, once: the `Model.Netip` predicates Parse evaluates on address bytes are the
    `Tables.IP` predicates on the translated address -/
theorem netip_predicates_agree (cfg : Model.Cfg) (base : Tables.Cfg) :
    (∀ ip : Bytes, ip.length = 4 →
      Netip.prefixContains cfg.lanAddr cfg.lanBits ip = (cfgOf cfg base).lanContains (ipOfBytes ip)) ∧
    (∀ ip : Bytes, ip.length = 16 → Netip.isLinkLocalUnicast ip = (ipOfBytes ip).isLinkLocalUnicast) ∧
    (∀ ip : Bytes, ip.length = 16 → Netip.isGlobalUnicast ip = (ipOfBytes ip).isGlobalUnicast) :=
  ⟨lan_contains_eq cfg base, llu_eq, gu_eq⟩

/-! ### 2. Parse → ping -/

/-- the identifier Parse hands to `echoNotify` is `Ping.classify` of the ICMP message of the frame
    (unicast source, valid IPv4/IPv6 header, protocol 1 ↦ `v6 = false`, protocol 58 ↦ `v6 = true`);
    every other frame hands over nothing -/
theorem parse_echo_eq_classify (cfg : Model.Cfg) (p : Bytes) :
    ∀ r, parse cfg p = .ok r → r.frame.echo = echoOf p :=
  fun r h => (parse_proj cfg p r h).2.1

/-- **`echoNotify(id)` is called exactly for echo replies.**  `echo = some id` iff the frame has a unicast
    source MAC, a valid IPv4 or IPv6 header, ICMPv4 type 0 / ICMPv6 type 129 of at least 8 bytes, and
    `id` is the big-endian 16-bit value at bytes 4–5 of the ICMP message -/
theorem parse_echo_iff (cfg : Model.Cfg) (p : Bytes) (id : Nat) :
    ∀ r, parse cfg p = .ok r → (r.frame.echo = some id ↔ IsEchoReply p id) := by
  intro r h
  rw [parse_echo_eq_classify cfg p r h]
  exact echoOf_iff p id

/-- every other frame has `echo = none` -/
theorem parse_echo_none (cfg : Model.Cfg) (p : Bytes) (hn : ∀ id, ¬ IsEchoReply p id) :
    ∀ r, parse cfg p = .ok r → r.frame.echo = none := by
  intro r h
  cases he : r.frame.echo with
  | none => rfl
  | some id => exact absurd ((parse_echo_iff cfg p id r h).1 he) (hn id)

/-- the event of the ping machine that Parse produces is the one read off the bytes -/
theorem parse_ping_event (cfg : Model.Cfg) (p : Bytes) :
    ∀ r, parse cfg p = .ok r → pingEventOfRes r = pingEventOf p := by
  intro r h
  unfold pingEventOfRes pingEventOf
  rw [parse_echo_eq_classify cfg p r h]

/-- a frame that is not an echo reply is the `other` event, which (C19 `other_is_noop`) leaves the waiter
    table and every waiter unchanged -/
theorem non_echo_frame_is_noop (cfg : Model.Cfg) (p : Bytes) (hn : ∀ id, ¬ IsEchoReply p id) (s : Ping.State) :
    ∀ r, parse cfg p = .ok r → pingEventOfRes r = .other ∧ Ping.step s (pingEventOfRes r) = some s := by
  intro r h
  have : pingEventOfRes r = .other := by
    unfold pingEventOfRes; rw [parse_echo_none cfg p hn r h]
  rw [this]
  exact ⟨rfl, C19.other_is_noop s⟩

/-- **a frame completes only the ping whose identifier it carries** (C19 `foreign_never_completes` from raw
    bytes): in every reachable state (no identifier wrap) a received frame that is not an echo reply with
    the identifier of call `q` leaves `q`'s whole record unchanged -/
theorem foreign_frame_never_completes (cfg : Model.Cfg) (p : Bytes) (id0 : Nat) (tr : List Ping.Event)
    (s s' : Ping.State) (hr : Ping.run (Ping.init id0) tr = some s) (hw : Ping.NoWrap (Ping.init id0) tr)
    (q : Nat) (hq : ¬ IsEchoReply p (s.th q).id) :
    ∀ r, parse cfg p = .ok r → Ping.step s (pingEventOfRes r) = some s' → s'.th q = s.th q := by
  intro r h hs
  unfold pingEventOfRes at hs
  cases he : r.frame.echo with
  | none =>
    rw [he] at hs
    rw [C19.other_is_noop] at hs
    cases hs; rfl
  | some id =>
    rw [he] at hs
    have hid : (s.th q).id ≠ id := by
      intro hc; apply hq; rw [hc]; exact (parse_echo_iff cfg p id r h).1 he
    exact C19.foreign_never_completes id0 tr s s' hr hw id q hid hs

/-- **a ping sees its reply only through an echo-reply frame carrying its identifier** (C19
    `seen_only_by_own_echo` from raw bytes) -/
theorem seen_only_by_own_reply_frame (cfg : Model.Cfg) (p : Bytes) (s s' : Ping.State) (q : Nat)
    (h0 : (s.th q).seen = false) (h1 : (s'.th q).seen = true) :
    ∀ r, parse cfg p = .ok r → Ping.step s (pingEventOfRes r) = some s' →
      IsEchoReply p (s.th q).id ∧ (s.th q).active = true := by
  intro r h hs
  obtain ⟨he, ha⟩ := C19.seen_only_by_own_echo s s' _ hs q h0 h1
  refine ⟨?_, ha⟩
  apply (parse_echo_iff cfg p _ r h).1
  unfold pingEventOfRes at he
  cases hh : r.frame.echo with
  | none => rw [hh] at he; cases he
  | some id => rw [hh] at he; cases he; rfl

/-! ### 3. end to end: histories of raw frames -/

/-- **`Session.Parse` on raw bytes is the `frame` step of the table machine**: the byte-level Parse never
    panics, and the table state / returned host / online-transition flag / printTable panic after the
    table work for the host it hands over are those of `Tables.parse` on `frameEvOf p` -/
theorem parse_bytes_eq (pc : Model.Cfg) (base : Tables.Cfg) (s : Tables.Sess) (p : Bytes) (now : Int)
    (manuf : String) :
    ∃ r, parse pc p = .ok r ∧
      parseBytes pc s p now manuf = .ok (r, Tables.parse (cfgOf pc base) s (frameEvOf p) now manuf) := by
  obtain ⟨r, hr, -⟩ := C02.parse_eq_spec pc p
  refine ⟨r, hr, ?_⟩
  unfold parseBytes
  rw [hr, tables_parse_eq]
  simp only [hostEvOf, parse_hostEv_eq_hostEvent pc base p r hr]

/-- one raw step is the abstract step -/
theorem step_bytes_eq (pc : Model.Cfg) (base : Tables.Cfg) (s : Tables.Sess) (op : RawOp) :
    stepBytes pc (cfgOf pc base) s op = (Tables.step (cfgOf pc base) s (opOf op)).1 := by
  cases op with
  | api op => rfl
  | frame p now manuf =>
    obtain ⟨r, -, h⟩ := parse_bytes_eq pc base s p now manuf
    simp only [stepBytes, h, opOf, Tables.step]

/-- a raw history is the abstract history of its frame events -/
theorem run_bytes_eq (pc : Model.Cfg) (base : Tables.Cfg) (ops : List RawOp) (s : Tables.Sess) :
    runBytes pc (cfgOf pc base) s ops = Tables.run (cfgOf pc base) s (ops.map opOf) := by
  induction ops generalizing s with
  | nil => rfl
  | cons op rest ih =>
    simp only [runBytes, Tables.run, List.foldl_cons, List.map_cons] at ih ⊢
    rw [step_bytes_eq, ih]

/-- **`Parse` + `Notify` on raw bytes is `Tables.packet` on `frameEvOf p`** (state and notifications) -/
theorem packet_bytes_eq (pc : Model.Cfg) (base : Tables.Cfg) (s : Tables.Sess) (p : Bytes) (now : Int)
    (manuf : String) (upd : Option (Tables.NameKind × Tables.NameEntry)) :
    packetBytes pc s p now manuf upd = Tables.packet (cfgOf pc base) s (frameEvOf p) now manuf upd := by
  obtain ⟨r, hr, h⟩ := parse_bytes_eq pc base s p now manuf
  obtain ⟨hd, hm⟩ := parse_notify_inputs pc p r hr
  simp only [packetBytes, h, Tables.packet, hd, hm]
  rfl

/-- **C04 from raw frames**: one raw step moves the abstract host map as the reference model says -/
theorem step_refines_bytes (pc : Model.Cfg) (base : Tables.Cfg) (s : Tables.Sess) (op : RawOp)
    (hi : Spec.Inv s) (hj : Lemmas.Tables.CurIP4 s) :
    Lemmas.Tables.abs (stepBytes pc (cfgOf pc base) s op) =
      Spec.step (cfgOf pc base) (Lemmas.Tables.abs s) (opOf op) := by
  rw [step_bytes_eq]
  exact C04.step_refines _ s (opOf op) hi hj

/-- **C04 main theorem from raw frames**: after any history of received byte strings (each going through
    the byte-level Parse) and API calls, the tracked triples are those of the reference model run on the
    frame events read off the bytes.  Side condition (C04's): our MAC is not the router's. -/
theorem run_refines_bytes (pc : Model.Cfg) (base : Tables.Cfg) (hc : pc.hostMAC ≠ pc.routerMAC)
    (now : Int) (mh mr : String) (ops : List RawOp) :
    Lemmas.Tables.abs (runBytes pc (cfgOf pc base) (Tables.init (cfgOf pc base) now mh mr) ops) =
      Spec.run (cfgOf pc base) (Spec.init (cfgOf pc base) now) (ops.map opOf) := by
  rw [run_bytes_eq]
  exact C04.run_refines (cfgOf pc base) hc now mh mr (ops.map opOf)

/-- a raw C06 history is the abstract C06 history (state and everything sent on the channel) -/
theorem run6_bytes_eq (pc : Model.Cfg) (base : Tables.Cfg) (ops : List RawOp6) (s : Tables.Sess) :
    run6Bytes pc (cfgOf pc base) s ops = Tables.run6 (cfgOf pc base) s (ops.map op6Of) := by
  induction ops generalizing s with
  | nil => rfl
  | cons op rest ih =>
    have hs : step6Bytes pc (cfgOf pc base) s op = Tables.step6 (cfgOf pc base) s (op6Of op) := by
      cases op with
      | api op => rfl
      | packet p now manuf upd => exact packet_bytes_eq pc base s p now manuf upd
    simp only [run6Bytes, List.map_cons, Tables.run6, hs, ih]

/-- **C06 `no_loss` from raw frames**: a consumer of the notification channel knows the table state after
    any history of received byte strings handled as `Parse` + `Notify`, and API calls -/
theorem no_loss_bytes (pc : Model.Cfg) (base : Tables.Cfg) (hc : pc.hostMAC ≠ pc.routerMAC)
    (now : Int) (mh mr : String) (ops : List RawOp6) :
    Lemmas.Tables.Synced (run6Bytes pc (cfgOf pc base) (Tables.init (cfgOf pc base) now mh mr) ops).1
      (Spec.View.applyAll (fun _ => none)
        (run6Bytes pc (cfgOf pc base) (Tables.init (cfgOf pc base) now mh mr) ops).2) := by
  rw [run6_bytes_eq]
  exact C06.no_loss (cfgOf pc base) hc now mh mr (ops.map op6Of)

/-! ### non-vacuity -/

def cfgB : Model.Cfg := ⟨[2,0,0,0,0,1], [2,0,0,0,0,0x11], [192,168,0,0], 24⟩

/-- IPv6 / ICMPv6 echo reply, identifier 0x1234, from fe80::5 -/
def echo6 : Bytes :=
  [2,0,0,0,0,1, 2,0,0,0,0,5, 0x86,0xdd,
   0x60,0,0,0, 0,8, 58, 64,
   0xfe,0x80,0,0,0,0,0,0,0,0,0,0,0,0,0,5,
   0xfe,0x80,0,0,0,0,0,0,0,0,0,0,0,0,0,1,
   129,0,0,0, 0x12,0x34, 0,1]

/-- ARP request: 02:00:00:00:00:07 announces 192.168.0.7 (Ethernet source …:05) -/
def arpF : Bytes :=
  [0xff,0xff,0xff,0xff,0xff,0xff, 2,0,0,0,0,5, 8,6,
   0,1, 8,0, 6, 4, 0,1, 2,0,0,0,0,7, 192,168,0,7, 0,0,0,0,0,0, 192,168,0,1]

/-- an ICMPv6 echo reply (protocol 58, type 129) carried over an IPv4 header -/
def echoX : Bytes :=
  [2,0,0,0,0,1, 2,0,0,0,0,5, 8,0, 0x45,0,0,28, 0,0,0,0, 64,58,0,0, 192,168,0,5, 192,168,0,129,
   129,0,0,0, 0xab,0xcd, 0,1]

/- (1) the three creating kinds, read off the bytes: IPv4 source in the LAN, IPv6 link-local source, ARP sender -/
set_option maxRecDepth 8000 in
example : Tables.hostEvent (cfgOf cfgB) (frameEvOf C02.sampleFrame) = some ([2,0,0,0,0,5], .v4 0xc0a80005) := by
  decide
set_option maxRecDepth 8000 in
example : Tables.hostEvent (cfgOf cfgB) (frameEvOf echo6) =
    some ([2,0,0,0,0,5], .v6 0xfe800000000000000000000000000005) := by decide
set_option maxRecDepth 8000 in
example : Tables.hostEvent (cfgOf cfgB) (frameEvOf arpF) = some ([2,0,0,0,0,7], .v4 0xc0a80007) := by decide
/- … and the byte-level Parse hands over exactly that (instance of `parse_hostEv_eq_hostEvent`) -/
set_option maxRecDepth 8000 in
example : (parse cfgB arpF).isPanic = false ∧
    ∀ r, parse cfgB arpF = .ok r → hostEvOf r = some ([2,0,0,0,0,7], .v4 0xc0a80007) := by
  refine ⟨by decide, fun r h => ?_⟩
  rw [hostEvOf, parse_hostEv_eq_hostEvent cfgB default arpF r h]; decide
/- a frame from our own MAC creates nothing; neither does one from outside the LAN -/
set_option maxRecDepth 8000 in
example : Tables.hostEvent (cfgOf { cfgB with hostMAC := [2,0,0,0,0,5] }) (frameEvOf C02.sampleFrame) = none ∧
    Tables.hostEvent (cfgOf { cfgB with lanAddr := [10,0,0,0] }) (frameEvOf C02.sampleFrame) = none := by decide

/- (2) `echo6` is an echo reply with identifier 0x1234: the ping machine gets `echo 0x1234` … -/
set_option maxRecDepth 8000 in
example : IsEchoReply echo6 0x1234 :=
  ⟨by decide, 58, 54, by decide, by decide, .inr ⟨rfl, by decide⟩, by decide⟩
set_option maxRecDepth 8000 in
example : pingEventOf echo6 = .echo 0x1234 ∧ pingEventOf C02.sampleFrame = .other ∧ pingEventOf arpF = .other := by
  decide
/- … which completes the ping registered with that identifier, and no other -/
set_option maxRecDepth 8000 in
example : (Ping.run (Ping.init 0x1234) [.reg 0, .sendOk 0, pingEventOf echo6, .wake 0, .unreg 0]).map
    (fun s => ((s.th 0).ret, (s.th 0).seen)) = some (.nil, true) := by decide
set_option maxRecDepth 8000 in
example : (Ping.run (Ping.init 7) [.reg 0, .sendOk 0, pingEventOf echo6, .timeout 0, .unreg 0]).map
    (fun s => ((s.th 0).ret, (s.th 0).seen)) = some (.timeout, false) := by decide
/- the hypothesis of `non_echo_frame_is_noop` is satisfiable -/
set_option maxRecDepth 8000 in
example : ∀ id, ¬ IsEchoReply arpF id := by
  intro id h; rw [← echoOf_iff, show echoOf arpF = none by decide] at h; cases h
/- observation (behaviour of the code, agreed on by all three models): the ICMP type test follows the
   protocol number only, so a protocol-58 / type-129 message over an IPv4 header is dispatched too -/
set_option maxRecDepth 8000 in
example : echoOf echoX = some 0xabcd := by decide

/- (3) a raw history: the UDP frame, then the ARP frame; both addresses are tracked online afterwards -/
def rawHist : List RawOp := [.frame C02.sampleFrame 1000 "", .frame arpF 1001 ""]

example : cfgB.hostMAC ≠ cfgB.routerMAC := by decide
set_option maxRecDepth 20000 in
example : Spec.run (cfgOf cfgB) (Spec.init (cfgOf cfgB) 1000) (rawHist.map opOf) (.v4 0xc0a80007) =
    some { mac := [2,0,0,0,0,7], online := true, lastSeen := 1001 } := by decide
set_option maxRecDepth 20000 in
example : Lemmas.Tables.abs (runBytes cfgB (cfgOf cfgB) (Tables.init (cfgOf cfgB) 1000 "" "") rawHist)
    (.v4 0xc0a80005) = some { mac := [2,0,0,0,0,5], online := true, lastSeen := 1000 } := by
  rw [run_refines_bytes cfgB default (by decide)]; decide
/- `Parse` + `Notify` of the first frame announces the new host -/
set_option maxRecDepth 20000 in
example : (run6Bytes cfgB (cfgOf cfgB) (Tables.init (cfgOf cfgB) 1000 "" "")
    [.packet C02.sampleFrame 1000 "" none]).2.map (fun n => (n.mac, n.ip, n.online)) =
      [([2,0,0,0,0,5], .v4 0xc0a80005, true)] := by
  rw [run6_bytes_eq]; decide

end PV.Props.Compose
