/-
  Tie B for the race half of C09: the lockset facts regenerated from the Go source on every run
  (Gen.fieldAccesses: for every read/write of a field of the shared records the lock classes definitely held,
  with mode; Gen.contractCalls, Gen.ctorCalls, Gen.accessRoots, …) satisfy the guard table below, which is
  the library's documented discipline (hosttable.go:19-24, mactable.go:27) written out per field.
  `Props/C09Race.no_race_of_guards` then gives race freedom of every program built from these accesses
  (`code_sections_race_free`).

  A source change that drops a lock around an access, downgrades Lock to RLock around a write, writes an
  immutable field after publication, or touches packet-loop-owned state from another entry point changes
  Gen/Facts.lean and breaks `locksets_ok` (or one of the pinned tables) at build time.

  Nothing is exempted wholesale: `exempt` lists single (function, field) pairs with a reason each, and
  `knownRaces` lists the accesses that violate the discipline in the current library (defects, not yet
  repaired); `locksets_ok` states that the set of violating accesses is EXACTLY that list, so a repaired
  defect has to be removed from it and a new one cannot hide behind it.

  When `locksets_ok` fails, list the offending accesses with
      echo 'import PacketVerif.Props.C09RaceTie
            #eval PV.Props.C09RaceTie.violations' > /tmp/v.lean && (cd lean && lake env lean /tmp/v.lean)
  and find field, function, held locks and file:line in lean/PacketVerif/Gen/LocksetFacts.lean.
-/
import PacketVerif.Gen.Facts
import PacketVerif.Gen.LocksetFacts
import PacketVerif.Props.C09Race
namespace PV.Props.C09RaceTie
open PV PV.Model.Lockset PV.Lemmas.Lockset

/-- (function id, function, isWrite, [(lock id, held exclusively)], sites) -/
abbrev Row := Nat × String × Bool × List (Nat × Bool) × String

inductive G where
  | lock (c : String)            -- guarded by c: reads hold it (any mode), writes hold it exclusively
  | wara (cs : List String)      -- writers hold all of cs exclusively, readers at least one
  | imm                          -- immutable once published (written only during initialisation)
  | loop                         -- owned by the packet loop: reached from the loop entry points only
  deriving DecidableEq, Repr

def sessionMu := "packet.Session.mutex"
def rowMu := "packet.MACEntry.Row"
def arpMu := "arp_spoofer.Handler.arpMutex"
def dhcpMu := "dhcp4_spoofer.Handler.Mutex"
def dnsMu := "dns_naming.DNSHandler.mutex"
def icmp6Mu := "icmp_spoofer.Handler6.Mutex"
def icmpTableMu := "packet.icmpTable"

/-- **The guard table** — one entry per tracked field, in the order of Gen.trackedFields. -/
def guardTable : List (String × G) := [
  ("arp_spoofer.Handler.closeChan", .imm),       -- made in New, only closed / received from afterwards
  ("arp_spoofer.Handler.closed", .lock arpMu),
  ("arp_spoofer.Handler.huntList", .lock arpMu),
  ("arp_spoofer.Handler.probeInterval", .imm),
  ("arp_spoofer.Handler.session", .imm),
  ("dhcp4_spoofer.Handler.closeChan", .imm),
  ("dhcp4_spoofer.Handler.closed", .lock dhcpMu),
  ("dhcp4_spoofer.Handler.filename", .imm),
  ("dhcp4_spoofer.Handler.mode", .lock dhcpMu),
  ("dhcp4_spoofer.Handler.net1", .imm),          -- the subnets are set up by New; the pointers never change
  ("dhcp4_spoofer.Handler.net2", .imm),
  ("dhcp4_spoofer.Handler.session", .imm),
  ("dhcp4_spoofer.Handler.table", .lock dhcpMu),
  ("dhcp4_spoofer.Lease.Addr", .lock dhcpMu),
  ("dhcp4_spoofer.Lease.ClientID", .lock dhcpMu),
  ("dhcp4_spoofer.Lease.Count", .lock dhcpMu),
  ("dhcp4_spoofer.Lease.DHCPExpiry", .lock dhcpMu),
  ("dhcp4_spoofer.Lease.IPOffer", .lock dhcpMu),
  ("dhcp4_spoofer.Lease.Name", .lock dhcpMu),
  ("dhcp4_spoofer.Lease.OfferExpiry", .lock dhcpMu),
  ("dhcp4_spoofer.Lease.State", .lock dhcpMu),
  ("dhcp4_spoofer.Lease.XID", .lock dhcpMu),
  ("dhcp4_spoofer.Lease.subnet", .lock dhcpMu),
  ("dns_naming.DNSHandler.DNSTable", .lock dnsMu),
  ("dns_naming.DNSHandler.mconn4", .imm),
  ("dns_naming.DNSHandler.mconn6", .imm),
  ("dns_naming.DNSHandler.mdnsCache", .lock dnsMu),
  ("dns_naming.DNSHandler.session", .imm),
  ("dns_naming.DNSHandler.ssdpconn4", .imm),
  ("icmp_spoofer.Handler6.LANRouters", .lock icmp6Mu),
  ("icmp_spoofer.Handler6.Router", .lock icmp6Mu),
  ("icmp_spoofer.Handler6.closeChan", .lock icmp6Mu),   -- replaced on every router advertisement
  ("icmp_spoofer.Handler6.closed", .lock icmp6Mu),
  ("icmp_spoofer.Handler6.huntList", .lock icmp6Mu),
  ("icmp_spoofer.Handler6.session", .imm),
  -- Host: "This must be read locked to access fields or write locked for updating" (hosttable.go:22)
  ("packet.Host.Addr", .imm),
  ("packet.Host.DHCP4Name", .lock rowMu),
  ("packet.Host.HuntStage", .lock rowMu),
  ("packet.Host.LLMNRName", .lock rowMu),
  ("packet.Host.LastSeen", .lock rowMu),
  ("packet.Host.MACEntry", .imm),
  ("packet.Host.MDNSName", .lock rowMu),
  ("packet.Host.Manufacturer", .lock rowMu),
  ("packet.Host.NBNSName", .lock rowMu),
  ("packet.Host.Online", .lock rowMu),
  ("packet.Host.SSDPName", .lock rowMu),
  ("packet.Host.dirty", .lock rowMu),
  ("packet.HostTable.Table", .lock sessionMu),
  -- MACEntry: "Row level mutex - must lock/unlock if reading/updating MACEntry and Host entry" (mactable.go:27)
  ("packet.MACEntry.Captured", .wara [sessionMu, rowMu]),  -- Capture/Release hold both; IsCaptured the session lock, log lines the row
  ("packet.MACEntry.DHCP4Name", .lock rowMu),
  ("packet.MACEntry.HostList", .wara [sessionMu, rowMu]),  -- link/unlink hold both; IPAddrs the session lock, notify/makeOffline the row
  ("packet.MACEntry.IP4", .lock rowMu),
  ("packet.MACEntry.IP4Offer", .lock rowMu),
  ("packet.MACEntry.IP6GUA", .lock rowMu),
  ("packet.MACEntry.IP6LLA", .lock rowMu),
  ("packet.MACEntry.IP6Offer", .lock rowMu),
  ("packet.MACEntry.IsRouter", .imm),                      -- set once by NewSession (see `exempt`)
  ("packet.MACEntry.LLMNRName", .lock rowMu),
  ("packet.MACEntry.LastSeen", .lock rowMu),
  ("packet.MACEntry.MAC", .imm),
  ("packet.MACEntry.MDNSName", .lock rowMu),
  ("packet.MACEntry.Manufacturer", .lock rowMu),
  ("packet.MACEntry.NBNSName", .lock rowMu),
  ("packet.MACEntry.Online", .lock rowMu),
  ("packet.MACEntry.SSDPName", .lock rowMu),
  ("packet.MACTable.Table", .lock sessionMu),
  ("packet.Session.C", .imm),                              -- channel operations synchronise themselves
  ("packet.Session.Conn", .imm),
  ("packet.Session.HostTable", .imm),                      -- the struct holding the map; the map is HostTable.Table
  ("packet.Session.MACTable", .imm),
  ("packet.Session.NICInfo", .imm),
  ("packet.Session.OfflineDeadline", .imm),
  ("packet.Session.ProbeDeadline", .imm),
  ("packet.Session.PurgeDeadline", .imm),
  ("packet.Session.Statistics", .loop),                    -- counters bumped by Parse only
  ("packet.Session.closeChan", .imm),
  ("packet.Session.closed", .lock sessionMu),
  ("packet.Session.ipHeartBeat", .lock "sync/atomic"),     -- accessed through sync/atomic only
  ("packet.icmpEntry.expire", .imm),
  ("packet.icmpEntry.msgRecv", .lock icmpTableMu),
  ("packet.icmpEntry.wakeup", .imm),
  ("packet.icmpTable.id", .lock icmpTableMu),
  ("packet.icmpTable.table", .lock icmpTableMu)]

/-- entry points of the packet loop (the single goroutine running ReadFrom/Parse/ProcessPacket/Notify) that may
    touch `.loop`-guarded state -/
def loopRoots : List (Nat × String) := [(0, "packet.Session.Parse")]

/-- single accesses that do not hold their guard and are nevertheless not races: (function, field, reason) -/
def exempt : List (String × String × String) := [
  ("packet.Config.NewSession", "packet.MACEntry.IsRouter",
   "constructor: NewSession has not returned the session, so no API caller or packet loop exists yet; the only goroutine it has started that reads the entry (minute loop → purge → makeOffline → toNotification) holds the row lock, which this write holds exclusively as well"),
  ("packet.Session.Ping6", "packet.icmpEntry.msgRecv",
   "ownership transfer: the waiter reads its own entry after it has deleted it from icmpTable.table under the icmpTable lock; echoNotify writes msgRecv only for entries it finds in the table under that lock"),
  ("packet.Session.ping", "packet.icmpEntry.msgRecv",
   "ownership transfer: as for Ping6")]

/-- accesses that violate the discipline in the current library — defects (field, function, isWrite) -/
def knownRaces : List (String × String × Bool) := []
  -- (was: Session.closed in Close / ReadFrom — repaired by fix 5d23b20)

/-! ### The check

The facts carry numeric ids next to the names (lock id = position in Gen.locksetClasses, field id = position in
Gen.trackedFields, function id = position in Gen.accessRoots): the kernel evaluates the check on the ids; names
are compared once per field / per violation only. -/

/-- guard with lock ids -/
inductive GI where
  | lock (c : Nat)
  | wara (cs : List Nat)
  | imm
  | loop
  deriving DecidableEq, Repr

/-- id of a lock class (an unknown name gets an id that is never held) -/
def lockId (c : String) : Nat := Gen.locksetClasses.idxOf c

def G.ids : G → GI
  | .lock c => .lock (lockId c)
  | .wara cs => .wara (cs.map lockId)
  | .imm => .imm
  | .loop => .loop

def heldAny (h : List (Nat × Bool)) (c : Nat) : Bool := h.any fun p => p.1 == c
def heldExcl (h : List (Nat × Bool)) (c : Nat) : Bool := h.any fun p => p.1 == c && p.2

/-- does an access with this held set respect a lock guard -/
def lockOk (g : GI) (w : Bool) (h : List (Nat × Bool)) : Bool :=
  match g with
  | .lock c => if w then heldExcl h c else heldAny h c
  | .wara cs => if w then (!cs.isEmpty && cs.all (heldExcl h)) else cs.any (heldAny h)
  | .imm => !w
  | .loop => false

def rootsOf (fnId : Nat) : List (Nat × String) :=
  match Gen.accessRoots[fnId]? with
  | some p => p.2
  | none => [(0, "?")]

def fnName (fnId : Nat) : String :=
  match Gen.accessRoots[fnId]? with
  | some p => p.1
  | none => "?"

/-- the function is reached from packet-loop entry points only -/
def loopOwned (fnId : Nat) : Bool :=
  (rootsOf fnId).all fun r => loopRoots.any fun l => l.1 == r.1 && l.2 == r.2

/-- the function is not reachable from any entry point (kind 4), or only through constructor call sites (kind 3,
    Gen.ctorCalls) -/
def notShared (fnId : Nat) : Bool :=
  (rootsOf fnId).all fun r => r.1 == 3 || r.1 == 4

def rowOk (g : GI) (r : Row) : Bool :=
  lockOk g r.2.2.1 r.2.2.2.1 || (g == .loop && loopOwned r.1) || notShared r.1

/-- the accesses that do not hold their guard: (field, function, isWrite) -/
def rawViolations : List (String × String × Bool) :=
  Gen.fieldAccesses.flatMap fun fr =>
    match guardTable[fr.1]? with
    | none => [(fr.2.1, "no guard", false)]
    | some (name, g) =>
      if name == fr.2.1 then
        ((fr.2.2.filter fun r => !rowOk g.ids r).map fun r => (name, fnName r.1, r.2.2.1))
      else [(fr.2.1, "guard table order", false)]

def isExempt (v : String × String × Bool) : Bool := exempt.any fun e => e.1 == v.2.1 && e.2.1 == v.1

/-- … that are not one of the reviewed exemptions -/
def violations : List (String × String × Bool) := rawViolations.filter fun v => !isExempt v

/-! ### Tie theorems (all by kernel evaluation on the regenerated facts) -/

/-- the extractor met no construct it cannot classify -/
theorem lockset_extractor_total : Gen.locksetUnknown = [] := by decide

/-- every tracked field has a guard, and the table has no stale entry -/
theorem guardTable_covers : Gen.trackedFields = guardTable.map (·.1) := by decide +kernel

/-- every lock named in the guard table is a lock class of the code -/
theorem guardTable_locks_known :
    guardTable.all (fun p => match p.2 with
      | .lock c => c == "sync/atomic" || Gen.lockClasses.contains c
      | .wara cs => cs.all Gen.lockClasses.contains
      | _ => true) = true := by decide +kernel

/-- **every access to a guarded field holds its guard** (writes exclusively) — except exactly the known defects -/
theorem locksets_ok : violations = knownRaces := by decide +kernel

/-- every exemption is used (a stale entry has to be removed) -/
theorem exempt_all_used : exempt.all (fun e => rawViolations.any fun v => e.1 == v.2.1 && e.2.1 == v.1) = true := by
  decide +kernel

/-- the caller-locked record methods are the reviewed ones: Host/MACEntry String, FastLog, Dirty — the documented
    contract "must be read locked to access fields" (hosttable.go:22) is the caller's obligation … -/
theorem callerLocked_reviewed : Gen.callerLocked =
    [("packet.Host.Dirty", rowMu), ("packet.Host.FastLog", rowMu), ("packet.Host.String", rowMu),
     ("packet.MACEntry.FastLog", rowMu), ("packet.MACEntry.String", rowMu)] := by decide +kernel

/-- … and every call of them inside the module meets it (holds the row lock at least shared) -/
theorem contractCalls_ok : Gen.contractCalls.all (fun c => heldAny c.2.2.1 (lockId rowMu)) = true := by
  decide +kernel

/-- the constructor call sites (callee runs on an object that is not yet published; the site does not constrain the
    callee's entry lock set) are the reviewed ones: dhcp4 New loads and saves the lease file before it returns the
    handler; neither callee stores or passes its receiver -/
theorem ctorCalls_reviewed : Gen.ctorCalls.map (fun c => (c.1, c.2.1)) =
    [("dhcp4_spoofer.Config.New", "dhcp4_spoofer.Handler.loadConfig"),
     ("dhcp4_spoofer.Config.New", "dhcp4_spoofer.Handler.saveConfig")] := by decide +kernel

/-- lock classes merge all instances of `MACEntry.Row`; where a function takes the row lock itself, the extractor compares
    the locked expression with the accessed record's own row (`x.MACEntry.Row` for a Host `x`, `x.Row` for a MACEntry `x`).
    The only places where they differ syntactically are the reviewed ones: findOrCreateHostWithLock locks `macEntry.Row`
    and reads `host.Manufacturer` of the host it has just created with `MACEntry: macEntry`; makeOffline and notify lock
    `host.MACEntry.Row` and then read `Online`/`dirty` of the hosts in `host.MACEntry.HostList`, which have the same
    MACEntry by the table invariant C05 (`host ∈ e.HostList → host.MACEntry = e`). -/
theorem rowLockOther_reviewed : Gen.rowLockOther.map (fun r => (r.1, r.2.1)) =
    [("packet.Session.findOrCreateHostWithLock", "packet.Host.Manufacturer"),
     ("packet.Session.makeOffline", "packet.Host.Online"),
     ("packet.Session.notify", "packet.Host.Online"),
     ("packet.Session.notify", "packet.Host.dirty")] := by decide +kernel

/-! ### From the facts to the theorem of Props/C09Race -/

def mode (e : Bool) : Mode := if e then .excl else .shared
def heldOf (h : List (Nat × Bool)) : List (Nat × Mode) := h.map fun p => (p.1, mode p.2)

def toGuard : GI → Guard Nat
  | .lock c => .lock c
  | .wara cs => .writeAllReadAny cs
  | .imm => .immutable
  | .loop => .owner 0

def guardOfField (x : Nat) : Option GI := guardTable[x]?.map fun p => p.2.ids

/-- the guard function of the model (locations = field ids, locks = lock ids): thread 0 is the packet loop -/
def guardOf (x : Nat) : Guard Nat :=
  match guardOfField x with
  | some g => toGuard g
  | none => .immutable

theorem heldAny_mem {h : List (Nat × Bool)} {c : Nat} (hh : heldAny h c = true) (k : List (Nat × Mode)) :
    holdsSome ((heldOf h).reverse ++ k) c := by
  unfold heldAny at hh
  obtain ⟨p, hp, hc⟩ := List.any_eq_true.mp hh
  have hc' : p.1 = c := by simpa using hc
  have : (p.1, mode p.2) ∈ heldOf h := List.mem_map.mpr ⟨p, hp, rfl⟩
  have hm : (c, mode p.2) ∈ (heldOf h).reverse ++ k := by
    rw [← hc']; exact List.mem_append_left _ (List.mem_reverse.mpr this)
  unfold holdsSome
  cases hp2 : p.2 with
  | true => right; simpa [mode, hp2] using hm
  | false => left; simpa [mode, hp2] using hm

theorem heldExcl_mem {h : List (Nat × Bool)} {c : Nat} (hh : heldExcl h c = true) (k : List (Nat × Mode)) :
    (c, Mode.excl) ∈ (heldOf h).reverse ++ k := by
  unfold heldExcl at hh
  obtain ⟨p, hp, hc⟩ := List.any_eq_true.mp hh
  have hc' : p.1 = c ∧ p.2 = true := by simpa using hc
  have : (p.1, mode p.2) ∈ heldOf h := List.mem_map.mpr ⟨p, hp, rfl⟩
  rw [hc'.1, hc'.2] at this
  exact List.mem_append_left _ (List.mem_reverse.mpr this)

/-- the Boolean check of the tie implies the policy of the model -/
theorem policy_of_lockOk (g : GI) (x : Nat) (hg : guardOf x = toGuard g) (i : Nat) (w : Bool)
    (h : List (Nat × Bool)) (k : List (Nat × Mode))
    (hok : lockOk g w h = true ∨ (g = .loop ∧ i = 0)) :
    guardPolicy guardOf i x ((heldOf h).reverse ++ k) w := by
  unfold guardPolicy
  rw [hg]
  cases g with
  | lock c =>
    rcases hok with hok | ⟨hl, _⟩
    · simp only [toGuard]
      cases w with
      | true => simpa using heldExcl_mem (by simpa [lockOk] using hok) k
      | false => simpa using heldAny_mem (by simpa [lockOk] using hok) k
    · cases hl
  | wara cs =>
    rcases hok with hok | ⟨hl, _⟩
    · simp only [toGuard]
      cases w with
      | true =>
        have hh : cs.isEmpty = false ∧ ∀ c ∈ cs, heldExcl h c = true := by simpa [lockOk] using hok
        simp only [if_true]
        refine ⟨?_, fun c hc => heldExcl_mem (hh.2 c hc) k⟩
        intro hnil; rw [hnil] at hh; simp at hh
      | false =>
        have hh : ∃ c ∈ cs, heldAny h c = true := by simpa [lockOk] using hok
        obtain ⟨c, hc, hcc⟩ := hh
        simp only [Bool.false_eq_true, if_false]
        exact ⟨c, hc, heldAny_mem hcc k⟩
    · cases hl
  | imm =>
    rcases hok with hok | ⟨hl, _⟩
    · simp only [toGuard]
      simpa [lockOk] using hok
    · cases hl
  | loop =>
    rcases hok with hok | ⟨_, hi⟩
    · simp [lockOk] at hok
    · simp only [toGuard]; exact hi

/-- the critical section the code executes around one access: take the held locks, access, release in reverse -/
def sect (x : Nat) (w : Bool) (h : List (Nat × Bool)) : List (Op Nat Nat) :=
  h.map (fun p => Op.acq p.1 (mode p.2)) ++ [if w then Op.write x else Op.read x] ++ h.reverse.map (fun p => Op.rel p.1)

theorem follows_sect (P : Policy Nat Nat) (i : Nat) (x : Nat) (w : Bool) :
    ∀ (h : List (Nat × Bool)) (h0 : List (Nat × Mode)) (k : List (Op Nat Nat)),
      P i x ((heldOf h).reverse ++ h0) w → Follows P i h0 k → Follows P i h0 (sect x w h ++ k) := by
  intro h
  induction h with
  | nil =>
    intro h0 k hp hk
    cases w with
    | true => simpa [sect, Follows, heldOf] using ⟨hp, hk⟩
    | false => simpa [sect, Follows, heldOf] using ⟨hp, hk⟩
  | cons p ps ih =>
    intro h0 k hp hk
    have e : sect x w (p :: ps) ++ k = Op.acq p.1 (mode p.2) :: (sect x w ps ++ (Op.rel p.1 :: k)) := by
      simp [sect, List.reverse_cons, List.map_append, List.append_assoc]
    rw [e]
    show Follows P i ((p.1, mode p.2) :: h0) (sect x w ps ++ (Op.rel p.1 :: k))
    apply ih
    · have : (heldOf (p :: ps)).reverse ++ h0 = (heldOf ps).reverse ++ (p.1, mode p.2) :: h0 := by
        simp [heldOf, List.reverse_cons, List.append_assoc]
      rw [← this]; exact hp
    · show Follows P i (release p.1 ((p.1, mode p.2) :: h0)) k
      simpa [release] using hk

/-- one checked access of the code: field, write?, locks held -/
abbrev Acc := Nat × Bool × List (Nat × Bool)

/-- access `a` may be performed by thread `i`: it holds its guard, or it is packet-loop-owned and `i` is the loop -/
def allowed (i : Nat) (a : Acc) : Prop :=
  ∃ g, guardOfField a.1 = some g ∧ (lockOk g a.2.1 a.2.2 = true ∨ (g = .loop ∧ i = 0))

def threadProg : List Acc → List (Op Nat Nat)
  | [] => []
  | a :: as => sect a.1 a.2.1 a.2.2 ++ threadProg as

theorem follows_thread (i : Nat) : ∀ (as : List Acc), (∀ a ∈ as, allowed i a) →
    Follows (guardPolicy guardOf) i [] (threadProg as) := by
  intro as
  induction as with
  | nil => intro _; simp [threadProg, Follows]
  | cons a as ih =>
    intro hall
    obtain ⟨g, hg, hok⟩ := hall a (List.mem_cons_self ..)
    apply follows_sect
    · apply policy_of_lockOk g a.1 _ i a.2.1 a.2.2 [] hok
      unfold guardOf; rw [hg]
    · exact ih fun b hb => hall b (List.mem_cons_of_mem _ hb)

/-- **Race freedom of the code's access pattern.**  Any number of threads, each executing any sequence of
    accesses that the tie has checked (each inside the critical section the code puts around it; thread 0 is the
    packet loop and is the only one to touch packet-loop-owned state), under any schedule: no data race. -/
theorem code_sections_race_free (threads : List (List Acc))
    (h : ∀ (i : Nat) (as : List Acc), threads[i]? = some as → ∀ a ∈ as, allowed i a)
    (s : State Nat Nat) (hr : Reach (init (threads.map threadProg)) s) : ¬ Race s := by
  apply PV.Props.C09Race.no_race_from_init guardOf (threads.map threadProg) _ s hr
  intro i p hp
  rw [List.getElem?_map] at hp
  cases hq : threads[i]? with
  | none => rw [hq] at hp; cases hp
  | some as =>
    rw [hq] at hp
    cases Option.some.inj hp
    exact follows_thread i as (h i as hq)

/-- every checked row of the facts is an allowed access: of any thread if it holds its guard, of the packet loop
    if it is loop-owned -/
theorem checked_row_allowed (field : Nat) (g : GI) (hg : guardOfField field = some g) (r : Row)
    (hok : (lockOk g r.2.2.1 r.2.2.2.1 || (g == .loop && loopOwned r.1)) = true) (i : Nat) (hi : g = .loop → i = 0) :
    allowed i (field, r.2.2.1, r.2.2.2.1) := by
  refine ⟨g, hg, ?_⟩
  rcases Bool.or_eq_true _ _ |>.mp hok with h | h
  · exact Or.inl h
  · have : g = .loop := by
      have := (Bool.and_eq_true _ _ |>.mp h).1
      simpa using this
    exact Or.inr ⟨this, hi this⟩

end PV.Props.C09RaceTie
