/-
  C08 (layer-2 share): `LLDP.GetPDU` terminates without panic on every byte string and every requested
  type; `Process8023Frame`'s validation never panics.
-/
import PacketVerif.Model.L2Loops
import PacketVerif.Lemmas.Views
namespace PV.Props.C08L2
open PV PV.Model PV.Lemmas

theorem lldpGetTLV_safe (p : Bytes) (n : Nat) : (lldpGetTLV p n).safe = true := by
  unfold lldpGetTLV
  split
  · rfl
  · rename_i h
    rw [byteN_ok p n (by omega), byteN_ok p (n+1) (by omega)]
    simp only [Outcome.bind_ok, Outcome.pure_eq]
    split
    · rfl
    · split
      · split
        · rfl
        · rename_i h1 h2; omega
      · rfl

theorem lldpGetTLV_err_of_short (p : Bytes) (n : Nat) (h : p.length ≤ n + 2) : lldpGetTLV p n = .err .parseFrame := by
  unfold lldpGetTLV; simp [h]

/-- **LLDP.GetPDU terminates without panic**: `len(p)` iterations always suffice. -/
theorem lldpGetPDU_total (p : Bytes) (ty : Nat) :
    ∀ fuel pos, p.length ≤ pos + fuel → ∃ v, lldpGetPDU p ty fuel pos = .ok v := by
  intro fuel
  induction fuel with
  | zero =>
    intro pos h
    unfold lldpGetPDU
    rw [lldpGetTLV_err_of_short p pos (by omega)]
    exact ⟨_, rfl⟩
  | succ k ih =>
    intro pos h
    unfold lldpGetPDU
    have hs := lldpGetTLV_safe p pos
    cases hg : lldpGetTLV p pos with
    | err e => exact ⟨_, rfl⟩
    | panic => rw [hg] at hs; cases hs
    | hang => rw [hg] at hs; cases hs
    | ok r =>
      obtain ⟨t, l, v⟩ := r
      simp only
      split
      · exact ⟨_, rfl⟩
      · exact ih (pos + l + 2) (by omega)

theorem lldpGetPDU_terminates (p : Bytes) (ty : Nat) : ∃ v, lldpGetPDU p ty p.length 0 = .ok v :=
  lldpGetPDU_total p ty p.length 0 (by omega)

/-- the validation part of `Process8023Frame` returns (ok or error) on every payload -/
theorem process8023_safe (b : Bytes) : (process8023 b).safe = true := by
  unfold process8023
  cases hv : llcValid b with
  | err e => rfl
  | panic => have := llcValid_safe b; rw [hv] at this; cases this
  | hang => have := llcValid_safe b; rw [hv] at this; cases this
  | ok u =>
    have hl : 3 ≤ b.length := by
      unfold llcValid at hv
      split at hv
      · cases hv
      · omega
    simp only
    rw [byteN_ok b 0 (by omega), byteN_ok b 1 (by omega), byteN_ok b 2 (by omega)]
    simp only [Outcome.bind_ok, Outcome.pure_eq]
    split
    · rfl
    · split
      · unfold lenAtLeast; split <;> rfl
      · rfl

end PV.Props.C08L2
