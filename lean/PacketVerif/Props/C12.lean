/-
  C12 — DHCP replies segregate captured clients and conform to the transaction.
  Over the same model and reachability notion as C11 (every configuration: all three modes, all
  prefixes; every reachable state; arbitrary message fields).
-/
import PacketVerif.Props.C11
import PacketVerif.Props.C03Dhcp
namespace PV.Props.C12
open PV PV.Model.Dhcp4Srv PV.Spec.Ledger PV.Lemmas.Dhcp4Srv PV.Props.C11

theorem be4_eq (n : Nat) : be4 n = ip4Bytes n := by
  simp [be4, ip4Bytes]

theorem optOf_mkReply (cfg : Cfg) (m : Msg) (t : RType) (l : Lease) (a : Option IP) :
    optOf (mkReply cfg m t l a) 1 = some (maskBytes (cfg.sub l.sub).bits)
    ∧ optOf (mkReply cfg m t l a) 3 = some (ip4Bytes (cfg.sub l.sub).gw)
    ∧ optOf (mkReply cfg m t l a) 6 = some (ip4Bytes (cfg.sub l.sub).dns)
    ∧ optOf (mkReply cfg m t l a) 54 = some (ip4Bytes (cfg.sub l.sub).server)
    ∧ optOf (mkReply cfg m t l a) 51 = some (ip4Bytes (cfg.sub l.sub).dur) := by
  unfold optOf mkReply replyOpts
  cases l.sub <;> simp [List.lookup]

/-- **C12 (a): every OFFER / ACK carries an address inside the subnet selected by the client's capture state
    at that moment, with that subnet's router, DNS server, mask, our server identifier and the lease
    time, echoing the request's xid and chaddr** (the order "mask before router" on the wire is
    `PV.Props.C03Dhcp.mask_before_router` about `AppendOptions`). -/
theorem reply_conforms {cfg : Cfg} {s : State} {L : Ledger} (h : Reach cfg s L) (op : Op) (m : Msg)
    (hm : msgOf op = some m) (o : State × List Reply) (ho : o ∈ step cfg s op) (r : Reply) (hr : r ∈ o.2)
    (ht : r.typ ≠ .nak) : Conforms cfg (isCaptured s m.chaddr) m r := by
  obtain ⟨l, ip, hmem, hsub, hy, hre, hcase⟩ := reply_lease op m hm o ho r hr ht
  have hok := (inv_step (reach_ok h).1 op o ho).ok _ _ hmem
  have hus : usable cfg l.sub ip = true := by
    rcases hcase with ⟨_, _, hof, _⟩ | ⟨_, _, hip⟩
    · exact hok.offerUsable _ hof
    · exact hok.ipUsable _ hip
  obtain ⟨o1, o3, o6, o54, o51⟩ := optOf_mkReply cfg m r.typ l (some ip)
  rw [← hre] at o1 o3 o6 o54 o51
  have hn : clientNet cfg (isCaptured s m.chaddr) = cfg.sub l.sub := by rw [clientNet_eq, hsub]
  refine ⟨?_, ?_, ?_, ?_, ?_, ?_, ?_, ?_⟩ <;> try rw [hn]
  · rw [hy]
    unfold usable at hus
    simp only [Bool.and_eq_true, Subnet.contains, Subnet.size, beq_iff_eq] at hus
    exact hus.1.1.1.1.1
  · rw [o3, be4_eq]
  · rw [o6, be4_eq]
  · rw [o1, be4_eq]; rfl
  · rw [o54, be4_eq]
  · rw [o51, be4_eq]
  · rw [hre]; rfl
  · rw [hre]; rfl

/-- the address a lease currently stands for -/
def claim (l : Lease) : Option IP :=
  match l.state with
  | .allocated => l.ip
  | .discover => l.offer
  | .free => none

/-- a REQUEST the server may honour: the client has a lease entry for this MAC in the subnet of its capture
    state that stands for exactly the requested address — the offer of this transaction (same xid, our
    server id selected, not taken by another client since) or the current, unexpired-for-renewal lease —
    and the address lies inside that subnet -/
structure Honourable (cfg : Cfg) (s : State) (now : Nat) (m : Msg) : Prop where
  nonzero : reqIPOf m ≠ 0
  lease : ∃ l, (clientId m, l) ∈ s.table ∧ l.mac = m.chaddr ∧ l.sub = selSub s m.chaddr
      ∧ claim l = some (reqIPOf m)
      ∧ (l.state = .discover → reqKind m = .selecting ∧ l.xid = m.xid)
      ∧ (reqKind m = .renewing → ¬ l.expiry < now)
  ourServer : reqKind m = .selecting → reqAddr m.srvOpt = (clientNet cfg (isCaptured s m.chaddr)).server
  inSubnet : inNet (clientNet cfg (isCaptured s m.chaddr)) (reqIPOf m)

theorem request_replies (cfg : Cfg) (s : State) (now : Nat) (m : Msg) :
    (request cfg s now m).2 = []
    ∨ (∃ srv, (request cfg s now m).2 = [nakReply m srv (clientId m)])
    ∨ (verdict cfg s now m (findOrCreate s (clientId m) m.chaddr) = .ack ∧ reqIPOf m ≠ 0 ∧
        (request cfg s now m).2 = (ackLease cfg s now m (clientId m) (findOrCreate s (clientId m) m.chaddr)).2) := by
  unfold request
  simp only []
  by_cases h0 : (reqIPOf m == 0) = true
  · left; simp [h0]
  · simp only [h0]
    cases hv : verdict cfg s now m (findOrCreate s (clientId m) m.chaddr) with
    | nak srv l' => right; left; exact ⟨srv, rfl⟩
    | silent l' => left; rfl
    | ack => right; right; exact ⟨rfl, by simpa using h0, rfl⟩

/-- **C12 (b): an ACK always confirms the address offered in that transaction or the client's current
    lease** — and more: it is only ever sent for an honourable request. -/
theorem ack_confirms {cfg : Cfg} {s : State} {L : Ledger} (h : Reach cfg s L) (now : Nat) (m : Msg) (r : Reply)
    (hr : r ∈ (request cfg s now m).2) (ht : r.typ = .ack) :
    Honourable cfg s now m ∧ r.yiaddr = reqIPOf m := by
  rcases request_replies cfg s now m with e | ⟨srv, e⟩ | ⟨hv, hnz, e⟩
  · rw [e] at hr; simp at hr
  · rw [e] at hr; simp at hr; rw [hr] at ht; cases ht
  · have ha := verdict_ack hv
    rw [e, ackLease_eq] at hr
    simp only [List.mem_singleton] at hr
    have hip := ackedLease_ip ha now
    have hI := (reach_ok h).1
    have hy : r.yiaddr = reqIPOf m := by rw [hr]; simp only [mkReply, hip, Option.getD_some]
    refine ⟨⟨hnz, ?_, ?_, ?_⟩, hy⟩
    · rcases findOrCreate_cases s (clientId m) m.chaddr with hm0 | hf
      · refine ⟨_, hm0.1, hm0.2.2, hm0.2.1, ?_, fun hd => ⟨(ha.disc hd).1, (ha.disc hd).2.1⟩, ha.fresh⟩
        unfold claim
        cases hs : (findOrCreate s (clientId m) m.chaddr).state
        · exact absurd hs ha.notFree
        · simp only; exact (ha.disc hs).2.2.1
        · simp only; exact ha.alloc hs
      · exact absurd (by rw [hf]; rfl) ha.notFree
    · intro hk; rw [clientNet_eq]; exact ha.server hk
    · -- the acknowledged address was validated for the lease's subnet when it was offered
      have hok := foc_ok hI (clientId m) m.chaddr
      have hus : usable cfg (findOrCreate s (clientId m) m.chaddr).sub (reqIPOf m) = true := by
        cases hs : (findOrCreate s (clientId m) m.chaddr).state
        · exact absurd hs ha.notFree
        · exact hok.offerUsable _ (ha.disc hs).2.2.1
        · exact hok.ipUsable _ (ha.alloc hs)
      rw [clientNet_eq, ← findOrCreate_sub s (clientId m) m.chaddr]
      unfold usable at hus
      simp only [Bool.and_eq_true, Subnet.contains, Subnet.size, beq_iff_eq] at hus
      exact hus.1.1.1.1.1

/-- **C12 (c): a request that cannot be honoured is answered with NAK or silence, never with ACK** -/
theorem unhonourable_never_acked {cfg : Cfg} {s : State} {L : Ledger} (h : Reach cfg s L) (now : Nat) (m : Msg)
    (hu : ¬ Honourable cfg s now m) : ∀ r, r ∈ (request cfg s now m).2 → r.typ = .nak := by
  intro r hr
  rcases request_replies cfg s now m with e | ⟨srv, e⟩ | ⟨hv, hnz, e⟩
  · rw [e] at hr; simp at hr
  · rw [e] at hr; simp at hr; rw [hr]; rfl
  · exfalso
    apply hu
    have : r.typ = .ack := by
      rw [e, ackLease_eq] at hr; simp only [List.mem_singleton] at hr; rw [hr]; rfl
    exact (ack_confirms h now m r hr this).1

/-- the cases the property statement names, as instances of `unhonourable_never_acked` -/
theorem named_cases_not_honourable (cfg : Cfg) (s : State) (now : Nat) (m : Msg) :
    -- another server selected
    ((reqKind m = .selecting ∧ reqAddr m.srvOpt ≠ (clientNet cfg (isCaptured s m.chaddr)).server) → ¬ Honourable cfg s now m)
    -- unknown client
    ∧ ((∀ l, (clientId m, l) ∉ s.table) → ¬ Honourable cfg s now m)
    -- expired / freed lease
    ∧ ((∀ l, (clientId m, l) ∈ s.table → l.state = .free) → ¬ Honourable cfg s now m)
    -- mismatching address
    ∧ ((∀ l, (clientId m, l) ∈ s.table → claim l ≠ some (reqIPOf m)) → ¬ Honourable cfg s now m)
    -- address outside the client's subnet
    ∧ (¬ inNet (clientNet cfg (isCaptured s m.chaddr)) (reqIPOf m) → ¬ Honourable cfg s now m) := by
  refine ⟨?_, ?_, ?_, ?_, ?_⟩
  · intro ⟨hk, hne⟩ hh; exact hne (hh.ourServer hk)
  · intro hn hh; obtain ⟨l, hm, _⟩ := hh.lease; exact hn l hm
  · intro hf hh
    obtain ⟨l, hm, _, _, hc, _⟩ := hh.lease
    have := hf l hm
    unfold claim at hc; rw [this] at hc; simp at hc
  · intro hf hh; obtain ⟨l, hm, _, _, hc, _⟩ := hh.lease; exact hf l hm hc
  · intro hn hh; exact hn hh.inSubnet

/-- in secondary mode (and in nice mode for a captured client) a selecting REQUEST for another server is
    answered with NAK carrying our server id; in primary mode it is ignored -/
theorem other_server_nak_or_silence (cfg : Cfg) (s : State) (now : Nat) (m : Msg)
    (hnz : reqIPOf m ≠ 0) (hk : reqKind m = .selecting)
    (hs : reqAddr m.srvOpt ≠ (cfg.sub (selSub s m.chaddr)).server) :
    (request cfg s now m).2 =
      if attacks cfg s m.chaddr then [nakReply m (cfg.sub (selSub s m.chaddr)).server (clientId m)] else [] := by
  unfold request
  have h0 : (reqIPOf m == 0) = false := by simpa using hnz
  have h1 : (reqAddr m.srvOpt != (cfg.sub (selSub s m.chaddr)).server) = true := by simpa using hs
  simp only [h0, Bool.false_eq_true, if_false, verdict, hk, h1, if_true]
  by_cases ha : attacks cfg s m.chaddr = true <;> simp [ha]

/-- the option map of a reply as handed to `EncodeDHCP4` -/
def toOpts (r : Reply) : Model.Dhcp4Opt.Opts := r.opts.map (fun e => (UInt8.ofNat e.1, e.2))

/-- **C12 (a, order on the wire): in every OFFER / ACK the subnet mask is encoded before the router option**,
    for every parameter request list of the client and every map iteration order: the reply's option map
    always holds option 1, and `AppendOptions` writes option 1 first (`C03Dhcp.mask_before_router`). -/
theorem reply_mask_first (cfg : Cfg) (m : Msg) (t : RType) (l : Lease) (a : Option IP) (order : Bytes) (tail : List UInt8) :
    ∃ rest, Model.Dhcp4Opt.emitSeq (toOpts (mkReply cfg m t l a)) order tail
      = (1, maskBytes (cfg.sub l.sub).bits) :: rest := by
  apply C03Dhcp.mask_before_router
  unfold toOpts mkReply replyOpts Model.Dhcp4Opt.optGet
  cases l.sub <;> simp

/-- non-vacuity: an honourable selecting REQUEST is acknowledged with the offered address -/
example : ((request cfgEx
    { table := [(macA, { state := .discover, mac := macA, ip := none, offer := some 10, xid := [1, 0, 0, 1], sub := .net2,
                         expiry := 0 })],
      next1 := 1, next2 := 11, hosts := [], captured := [macA] } 100
      (msgEx 1 (some [0, 0, 0, 10]) (some [0, 0, 0, 9]))).2.map (fun r => (r.typ, r.yiaddr, optOf r 3))) = [(.ack, 10, some [0, 0, 0, 9])] := by
  decide

/-- non-vacuity: the same REQUEST with another xid is not honourable and is NAKed -/
example : ((request cfgEx
    { table := [(macA, { state := .discover, mac := macA, ip := none, offer := some 10, xid := [7, 7, 7, 7], sub := .net2,
                         expiry := 0 })],
      next1 := 1, next2 := 11, hosts := [], captured := [macA] } 100
      (msgEx 1 (some [0, 0, 0, 10]) (some [0, 0, 0, 9]))).2.map (·.typ)) = [.nak] := by
  decide

end PV.Props.C12
