/-
  C12 — DHCP replies segregate captured clients and conform to the transaction.
  Over the same model and reachability notion as C11 (every configuration: all three modes, all
  prefixes; every reachable state; arbitrary message fields).
-/
import PacketVerif.Props.C11
import PacketVerif.Props.C03Dhcp
namespace PV.Props.C12
open PV PV.Model.Dhcp4Srv PV.Spec.Ledger PV.Lemmas.Dhcp4Srv PV.Props.C11

theorem be4_eq (n : Nat) : be4 n = ip4Bytes n := by
  simp [be4, ip4Bytes]

theorem optOf_mkReply (cfg : Cfg) (m : Msg) (t : RType) (l : Lease) (a : Option IP) :
    optOf (mkReply cfg m t l a) 1 = some (maskBytes (cfg.sub l.sub).bits)
    ∧ optOf (mkReply cfg m t l a) 3 = some (ip4Bytes (cfg.sub l.sub).gw)
    ∧ optOf (mkReply cfg m t l a) 6 = some (ip4Bytes (cfg.sub l.sub).dns)
    ∧ optOf (mkReply cfg m t l a) 54 = some (ip4Bytes (cfg.sub l.sub).server)
    ∧ optOf (mkReply cfg m t l a) 51 = some (ip4Bytes (cfg.sub l.sub).dur) := by
  unfold optOf mkReply replyOpts
  cases l.sub <;> simp [List.lookup]

/-- **C12 (a): every OFFER / ACK carries an address inside the subnet selected by the client's capture state
    at that moment, with that subnet's router, DNS server, mask, our server identifier and the lease
    time, echoing the request's xid and chaddr** (the order "mask before router" on the wire is
    `PV.Props.C03Dhcp.mask_before_router` about `AppendOptions`). -/
theorem reply_conforms {cfg : Cfg} {s : State} {L : Ledger} (h : Reach cfg s L) (op : Op) (m : Msg)
    (hm : msgOf op = some m) (o : State × List Reply) (ho : o ∈ step cfg s op) (r : Reply) (hr : r ∈ o.2)
    (ht : r.typ ≠ .nak) : Conforms cfg (isCaptured s m.chaddr) m r := by
  obtain ⟨l, ip, hmem, hsub, hy, hre, hcase⟩ := reply_lease op m hm o ho r hr ht
  have hok := (inv_step (reach_ok h).1 op o ho).ok _ _ hmem
  have hus : usable cfg l.sub ip = true := by
    rcases hcase with ⟨_, _, hof, _⟩ | ⟨_, _, hip⟩
    · exact hok.offerUsable _ hof
    · exact hok.ipUsable _ hip
  obtain ⟨o1, o3, o6, o54, o51⟩ := optOf_mkReply cfg m r.typ l (some ip)
  rw [← hre] at o1 o3 o6 o54 o51
  have hn : clientNet cfg (isCaptured s m.chaddr) = cfg.sub l.sub := by rw [clientNet_eq, hsub]
  refine ⟨?_, ?_, ?_, ?_, ?_, ?_, ?_, ?_⟩ <;> try rw [hn]
  · rw [hy]
    unfold usable at hus
    simp only [Bool.and_eq_true, Subnet.contains, Subnet.size, beq_iff_eq] at hus
    exact hus.1.1.1.1.1
  · rw [o3, be4_eq]
  · rw [o6, be4_eq]
  · rw [o1, be4_eq]; rfl
  · rw [o54, be4_eq]
  · rw [o51, be4_eq]
  · rw [hre]; rfl
  · rw [hre]; rfl

/-- the address a lease currently stands for -/
def claim (l : Lease) : Option IP :=
  match l.state with
  | .allocated => l.ip
  | .discover => l.offer
  | .free => none

/-- a REQUEST the server may honour: the client has a lease entry for this MAC in the subnet of its capture
    state that stands for exactly the requested address — the offer of this transaction (same xid, our
    server id selected, not taken by another client since) or the current, unexpired-for-renewal lease —
    and the address lies inside that subnet -/
structure Honourable (cfg : Cfg) (s : State) (now : Nat) (m : Msg) : Prop where
  nonzero : reqIPOf m ≠ 0
  lease : ∃ l, (clientId m, l) ∈ s.table ∧ l.mac = m.chaddr ∧ l.sub = selSub s m.chaddr
      ∧ claim l = some (reqIPOf m)
      ∧ (l.state = .discover → reqKind m = .selecting ∧ l.xid = m.xid)
      ∧ (reqKind m = .renewing → ¬ l.expiry < now)
  ourServer : reqKind m = .selecting → reqAddr m.srvOpt = (clientNet cfg (isCaptured s m.chaddr)).server
  inSubnet : inNet (clientNet cfg (isCaptured s m.chaddr)) (reqIPOf m)

theorem request_replies (cfg : Cfg) (s : State) (now : Nat) (m : Msg) :
    (request cfg s now m).2 = []
    ∨ (∃ srv, (request cfg s now m).2 = [nakReply m srv (clientId m)])
    ∨ (verdict cfg s now m (findOrCreate s (clientId m) m.chaddr) = .ack ∧ reqIPOf m ≠ 0 ∧
        (request cfg s now m).2 = (ackLease cfg s now m (clientId m) (findOrCreate s (clientId m) m.chaddr)).2) := by
  unfold request
  simp only []
  by_cases h0 : (reqIPOf m == 0) = true
  · left; simp [h0]
  · simp only [h0]
    cases hv : verdict cfg s now m (findOrCreate s (clientId m) m.chaddr) with
    | nak srv l' => right; left; exact ⟨srv, rfl⟩
    | silent l' => left; rfl
    | ack => right; right; exact ⟨rfl, by simpa using h0, rfl⟩

/-- **C12 (b): an ACK always confirms the address offered in that transaction or the client's current
    lease** — and more: it is only ever sent for an honourable request. -/
theorem ack_confirms {cfg : Cfg} {s : State} {L : Ledger} (h : Reach cfg s L) (now : Nat) (m : Msg) (r : Reply)
    (hr : r ∈ (request cfg s now m).2) (ht : r.typ = .ack) :
    Honourable cfg s now m ∧ r.yiaddr = reqIPOf m := by
  rcases request_replies cfg s now m with e | ⟨srv, e⟩ | ⟨hv, hnz, e⟩
  · rw [e] at hr; simp at hr
  · rw [e] at hr; simp at hr; rw [hr] at ht; cases ht
  · have ha := verdict_ack hv
    rw [e, ackLease_eq] at hr
    simp only [List.mem_singleton] at hr
    have hip := ackedLease_ip ha now
    have hI := (reach_ok h).1
    have hy : r.yiaddr = reqIPOf m := by rw [hr]; simp only [mkReply, hip, Option.getD_some]
    refine ⟨⟨hnz, ?_, ?_, ?_⟩, hy⟩
    · rcases findOrCreate_cases s (clientId m) m.chaddr with hm0 | hf
      · refine ⟨_, hm0.1, hm0.2.2, hm0.2.1, ?_, fun hd => ⟨(ha.disc hd).1, (ha.disc hd).2.1⟩, ha.fresh⟩
        unfold claim
        cases hs : (findOrCreate s (clientId m) m.chaddr).state
        · exact absurd hs ha.notFree
        · simp only; exact (ha.disc hs).2.2.1
        · simp only; exact ha.alloc hs
      · exact absurd (by rw [hf]; rfl) ha.notFree
    · intro hk; rw [clientNet_eq]; exact ha.server hk
    · -- the acknowledged address was validated for the lease's subnet when it was offered
      have hok := foc_ok hI (clientId m) m.chaddr
      have hus : usable cfg (findOrCreate s (clientId m) m.chaddr).sub (reqIPOf m) = true := by
        cases hs : (findOrCreate s (clientId m) m.chaddr).state
        · exact absurd hs ha.notFree
        · exact hok.offerUsable _ (ha.disc hs).2.2.1
        · exact hok.ipUsable _ (ha.alloc hs)
      rw [clientNet_eq, ← findOrCreate_sub s (clientId m) m.chaddr]
      unfold usable at hus
      simp only [Bool.and_eq_true, Subnet.contains, Subnet.size, beq_iff_eq] at hus
      exact hus.1.1.1.1.1

/-- **C12 (c): a request that cannot be honoured is answered with NAK or silence, never with ACK** -/
theorem unhonourable_never_acked {cfg : Cfg} {s : State} {L : Ledger} (h : Reach cfg s L) (now : Nat) (m : Msg)
    (hu : ¬ Honourable cfg s now m) : ∀ r, r ∈ (request cfg s now m).2 → r.typ = .nak := by
  intro r hr
  rcases request_replies cfg s now m with e | ⟨srv, e⟩ | ⟨hv, hnz, e⟩
  · rw [e] at hr; simp at hr
  · rw [e] at hr; simp at hr; rw [hr]; rfl
  · exfalso
    apply hu
    have : r.typ = .ack := by
      rw [e, ackLease_eq] at hr; simp only [List.mem_singleton] at hr; rw [hr]; rfl
    exact (ack_confirms h now m r hr this).1

/-- the cases the property statement names, as instances of `unhonourable_never_acked` -/
theorem named_cases_not_honourable (cfg : Cfg) (s : State) (now : Nat) (m : Msg) :
    -- another server selected
    ((reqKind m = .selecting ∧ reqAddr m.srvOpt ≠ (clientNet cfg (isCaptured s m.chaddr)).server) → ¬ Honourable cfg s now m)
    -- unknown client
    ∧ ((∀ l, (clientId m, l) ∉ s.table) → ¬ Honourable cfg s now m)
    -- expired / freed lease
    ∧ ((∀ l, (clientId m, l) ∈ s.table → l.state = .free) → ¬ Honourable cfg s now m)
    -- mismatching address
    ∧ ((∀ l, (clientId m, l) ∈ s.table → claim l ≠ some (reqIPOf m)) → ¬ Honourable cfg s now m)
    -- address outside the client's subnet
    ∧ (¬ inNet (clientNet cfg (isCaptured s m.chaddr)) (reqIPOf m) → ¬ Honourable cfg s now m) := by
  refine ⟨?_, ?_, ?_, ?_, ?_⟩
  · intro ⟨hk, hne⟩ hh; exact hne (hh.ourServer hk)
  · intro hn hh; obtain ⟨l, hm, _⟩ := hh.lease; exact hn l hm
  · intro hf hh
    obtain ⟨l, hm, _, _, hc, _⟩ := hh.lease
    have := hf l hm
    unfold claim at hc; rw [this] at hc; simp at hc
  · intro hf hh; obtain ⟨l, hm, _, _, hc, _⟩ := hh.lease; exact hf l hm hc
  · intro hn hh; exact hn hh.inSubnet

/-! ### the values `Config.New` puts into the two subnets (audit F4) -/

theorem masked_div (a bits : Nat) : a / 2 ^ (32 - bits) * 2 ^ (32 - bits) / 2 ^ (32 - bits) = a / 2 ^ (32 - bits) :=
  Nat.mul_div_cancel _ (Nat.pos_of_ne_zero (by exact Nat.ne_of_gt (Nat.two_pow_pos _)))

/-- **C12 (a) with the concrete values of the statement.**  For a server constructed by `Config.New` (`mkCfg n`; the tie
    compares the subnets of the real handler after `New` with `mkCfg`): every OFFER / ACK to a captured client carries an
    address of the netfilter prefix, OUR netfilter address as router and the family DNS server 1.1.1.3; every OFFER / ACK to
    a client that is not captured an address of the home LAN, the REAL router and the configured DNS server (the router
    when none is configured); always the matching mask, OUR host address as server identifier, four hours of lease time,
    the request's xid and chaddr. -/
theorem reply_conforms_new (n : NewCfg) {s : State} {L : Ledger} (h : Reach (mkCfg n) s L) (op : Op) (m : Msg)
    (hm : msgOf op = some m) (o : State × List Reply) (ho : o ∈ step (mkCfg n) s op) (r : Reply) (hr : r ∈ o.2)
    (ht : r.typ ≠ .nak) : ConformsNew n (isCaptured s m.chaddr) m r := by
  have hc := reply_conforms h op m hm o ho r hr ht
  cases hcap : isCaptured s m.chaddr <;> rw [hcap] at hc
  · refine ⟨?_, ?_, ?_, ?_, ?_, ?_, hc.xid, hc.chaddr⟩
    · have := hc.inSubnet
      simp only [inNet, clientNet, mkCfg, mkSubnet, Bool.false_eq_true, if_false, masked_div] at this ⊢
      exact this
    · simpa [clientNet, mkCfg, mkSubnet] using hc.router
    · simpa [clientNet, mkCfg, mkSubnet] using hc.dns
    · simpa [clientNet, mkCfg, mkSubnet] using hc.mask
    · simpa [clientNet, mkCfg, mkSubnet] using hc.serverId
    · simpa [clientNet, mkCfg, mkSubnet] using hc.leaseTime
  · refine ⟨?_, ?_, ?_, ?_, ?_, ?_, hc.xid, hc.chaddr⟩
    · have := hc.inSubnet
      simp only [inNet, clientNet, mkCfg, mkSubnet, if_true, masked_div] at this ⊢
      exact this
    · simpa [clientNet, mkCfg, mkSubnet] using hc.router
    · simpa [clientNet, mkCfg, mkSubnet] using hc.dns
    · simpa [clientNet, mkCfg, mkSubnet] using hc.mask
    · simpa [clientNet, mkCfg, mkSubnet] using hc.serverId
    · simpa [clientNet, mkCfg, mkSubnet] using hc.leaseTime

/-- when `Config.New` accepts the netfilter prefix, the netfilter subnet lies inside the home LAN -/
theorem accepted_net2_in_net1 (n : NewCfg) (ha : n.accepted = true) (ip : IP)
    (h2 : (mkCfg n).net2.contains ip = true) : (mkCfg n).net1.contains ip = true := by
  unfold NewCfg.accepted at ha
  simp only [Bool.and_eq_true, beq_iff_eq, decide_eq_true_eq] at ha
  obtain ⟨hin, hb⟩ := ha
  simp only [mkCfg, mkSubnet, Subnet.contains, Subnet.size, beq_iff_eq, masked_div] at h2 ⊢
  -- ip and nfAddr agree on the first nfBits bits, hence on the first homeBits ≤ nfBits bits
  have key : ∀ a b : Nat, a / 2 ^ (32 - n.nfBits) = b / 2 ^ (32 - n.nfBits) →
      a / 2 ^ (32 - n.homeBits) = b / 2 ^ (32 - n.homeBits) := by
    intro a b e
    have hd : 2 ^ (32 - n.homeBits) = 2 ^ (32 - n.nfBits) * 2 ^ ((32 - n.homeBits) - (32 - n.nfBits)) := by
      rw [← Nat.pow_add]; congr 1; omega
    rw [hd, ← Nat.div_div_eq_div_mul, ← Nat.div_div_eq_div_mul, e]
  rw [key _ _ h2, hin]

/-! ### the observer's view of offers and leases (audit F5) -/

/-- runs of the machine together with what an observer of the wire has seen -/
def runW (cfg : Cfg) : State → Observed → List Op → List (State × Observed)
  | s, W, [] => [(s, W)]
  | s, W, op :: ops => (step cfg s op).flatMap (fun o => runW cfg o.1 (watch W op o.2) ops)

def ReachW (cfg : Cfg) (s : State) (W : Observed) : Prop := ∃ ops, (s, W) ∈ runW cfg (init cfg) ⟨[], []⟩ ops

/-- the server's lease table never knows more than the wire has shown: an allocated lease stands for the address last
    acknowledged to that client, a lease in discover state for an OFFER sent to that client with that xid -/
def SimW (s : State) (W : Observed) : Prop :=
  ∀ c l, (c, l) ∈ s.table →
    (l.state = .allocated → ∀ ip, l.ip = some ip → (c, ip) ∈ W.held)
    ∧ (l.state = .discover → ∀ ip, l.offer = some ip → (⟨c, l.xid, ip⟩ : OfferRec) ∈ W.offers)

/-- what the observer knows about other clients survives an op of client `c` -/
def Keeps (c : Cid) (W W' : Observed) : Prop :=
  (∀ k ip, k ≠ c → (k, ip) ∈ W.held → (k, ip) ∈ W'.held) ∧ (∀ o : OfferRec, o.cid ≠ c → o ∈ W.offers → o ∈ W'.offers)

theorem keeps_refl (c : Cid) (W : Observed) : Keeps c W W := ⟨fun _ _ _ h => h, fun _ _ h => h⟩

theorem watch_keeps (W : Observed) (op : Op) (rs : List Reply) (c : Cid) (hc : subject op = some c) :
    Keeps c W (watch W op rs) := by
  unfold watch
  rw [hc]
  constructor
  · intro k ip hk hm
    simp only []
    split
    · exact hm
    · exact List.mem_append_left _ (List.mem_filter.2 ⟨hm, by simpa using hk⟩)
  · intro o ho hm
    simp only []
    split
    · exact List.mem_append_left _ (List.mem_filter.2 ⟨hm, by simpa using ho⟩)
    · exact hm

/-- replies without ACK to an op that is not a DISCOVER leave the observer's knowledge as it is -/
theorem watch_quiet (W : Observed) (op : Op) (rs : List Reply) (hd : isDiscover op = false)
    (hn : ∀ r, r ∈ rs → r.typ ≠ .ack) : watch W op rs = W := by
  unfold watch
  cases hs : subject op with
  | none => rfl
  | some c =>
    have ha : ackedOf c rs = [] := by
      unfold ackedOf
      rw [List.map_eq_nil_iff, List.filter_eq_nil_iff]
      intro r hr; simpa using hn r hr
    simp [ha, hd]

theorem simW_set {s : State} {W W' : Observed} (hS : SimW s W) (c : Cid) (v : Lease) (hk : Keeps c W W')
    (hv : (v.state = .allocated → ∀ ip, v.ip = some ip → (c, ip) ∈ W'.held)
      ∧ (v.state = .discover → ∀ ip, v.offer = some ip → (⟨c, v.xid, ip⟩ : OfferRec) ∈ W'.offers))
    (s' : State) (hs' : s'.table = setLease s.table c v) : SimW s' W' := by
  intro k l hm
  rw [hs'] at hm
  rcases mem_setLease.1 hm with ⟨rfl, rfl⟩ | ⟨hne, hm⟩
  · exact hv
  · obtain ⟨h1, h2⟩ := hS k l hm
    exact ⟨fun a ip e => hk.1 k ip hne (h1 a ip e), fun a ip e => hk.2 _ hne (h2 a ip e)⟩

/-- the lease `findOrCreate` hands out is backed by the observer's knowledge (a fresh lease is free) -/
theorem simW_foc {s : State} {W : Observed} (hS : SimW s W) (c : Cid) (mac : MAC) :
    ((findOrCreate s c mac).state = .allocated → ∀ ip, (findOrCreate s c mac).ip = some ip → (c, ip) ∈ W.held)
    ∧ ((findOrCreate s c mac).state = .discover → ∀ ip, (findOrCreate s c mac).offer = some ip →
        (⟨c, (findOrCreate s c mac).xid, ip⟩ : OfferRec) ∈ W.offers) := by
  rcases findOrCreate_cases s c mac with hm | hf
  · exact hS c _ hm.1
  · rw [hf]; simp [freshLease]

theorem simW_step {cfg : Cfg} {s : State} {W : Observed} (hS : SimW s W) (op : Op)
    (o : State × List Reply) (ho : o ∈ step cfg s op) : SimW o.1 (watch W op o.2) := by
  cases op with
  | discover now m =>
    simp only [step, List.mem_singleton] at ho; subst ho
    have hk := watch_keeps W (.discover now m) (discover cfg s now m).2 (clientId m) rfl
    rcases discover_outcome cfg s now m with ⟨cur, e⟩ | ⟨s1, ip, _, _, _, e, _⟩ <;> rw [e] at hk ⊢
    · intro k l hm
      simp only [] at hm
      obtain ⟨hne, hm⟩ := mem_delLease.1 hm
      obtain ⟨h1, h2⟩ := hS k l hm
      exact ⟨fun a ip e => hk.1 k ip hne (h1 a ip e), fun a ip e => hk.2 _ hne (h2 a ip e)⟩
    · refine simW_set hS (clientId m) (offerLease s now m ip) hk ⟨?_, ?_⟩ _ rfl
      · intro a; simp [offerLease] at a
      · intro _ ip' e
        simp only [offerLease, Option.some.injEq] at e
        subst e
        simp [watch, subject, isDiscover, offeredOf, mkReply, offerLease]
  | request now m =>
    simp only [step, List.mem_singleton] at ho; subst ho
    rcases request_outcome cfg s now m with e | ⟨l', rs, hkept, e, hn⟩ | ⟨hv, e⟩
    · rw [e, watch_quiet W _ [] rfl (by intro r hr; simp at hr)]; exact hS
    · rw [e, watch_quiet W _ rs rfl (by intro r hr; rw [hn r hr]; decide)]
      have h0 := simW_foc hS (clientId m) m.chaddr
      rcases verdict_kept hkept with rfl | ⟨rfl, _⟩
      · exact simW_set hS _ _ (keeps_refl _ _) h0 _ rfl
      · exact simW_set hS _ _ (keeps_refl _ _) ⟨by intro a; simp [freedLease] at a, by intro a; simp [freedLease] at a⟩ _ rfl
    · have hk := watch_keeps W (.request now m) (request cfg s now m).2 (clientId m) rfl
      rw [e, ackLease_eq] at hk ⊢
      have ha := verdict_ack hv
      have hip := ackedLease_ip ha now
      refine simW_set hS (clientId m) _ hk ⟨?_, ?_⟩ _ rfl
      · intro _ ip' e'
        rw [hip] at e'
        simp only [Option.some.injEq] at e'
        subst e'
        simp [watch, subject, ackedOf, mkReply, hip]
      · intro a; simp [ackedLease] at a
  | decline m =>
    simp only [step, List.mem_singleton] at ho; subst ho
    have h0 := simW_foc hS (clientId m) m.chaddr
    rcases decline_outcome cfg s m with e | e <;> rw [e, watch_quiet W _ [] rfl (by intro r hr; simp at hr)]
    · exact simW_set hS _ _ (keeps_refl _ _) h0 _ rfl
    · exact simW_set hS _ _ (keeps_refl _ _)
        ⟨by intro a; simp [declinedLease] at a, by intro a; simp [declinedLease] at a⟩ _ rfl
  | release m =>
    simp only [step, List.mem_singleton] at ho; subst ho
    simp only [release]
    rw [watch_quiet W _ [] rfl (by intro r hr; simp at hr)]
    exact simW_set hS _ _ (keeps_refl _ _) (simW_foc hS (clientId m) m.chaddr) _ rfl
  | minuteTick now =>
    simp only [step, List.mem_singleton] at ho; subst ho
    intro k l hm
    simp only [watch, subject]
    obtain ⟨l0, hm0, r⟩ := mem_freeLeases hm
    obtain ⟨h1, h2⟩ := hS k l0 hm0
    rcases r with rfl | ⟨rfl, _⟩
    · exact ⟨h1, h2⟩
    · exact ⟨by intro a; simp at a, by intro a; simp at a⟩
  | capture mac => simp only [step, List.mem_singleton] at ho; subst ho; exact hS
  | releaseCapture mac => simp only [step, List.mem_singleton] at ho; subst ho; exact hS
  | hostSeen ip mac => simp only [step, List.mem_singleton] at ho; subst ho; exact hS
  | hostGone ip => simp only [step, List.mem_singleton] at ho; subst ho; exact hS

theorem reachW_sim (cfg : Cfg) : ∀ (ops : List Op) (s : State) (W : Observed), SimW s W →
    ∀ sw, sw ∈ runW cfg s W ops → SimW sw.1 sw.2
  | [], s, W, hS, sw, h => by simp [runW] at h; rw [h]; exact hS
  | op :: ops, s, W, hS, sw, h => by
    simp only [runW, List.mem_flatMap] at h
    obtain ⟨o, ho, h'⟩ := h
    exact reachW_sim cfg ops o.1 _ (simW_step hS op o ho) sw h'

/-- **C12 (b) against the wire.**  Along every history, an ACK is sent only
    * in answer to a selecting REQUEST, for exactly the address of an OFFER that was really sent to this client (client id)
      in this transaction (the REQUEST's xid), not superseded by a later DISCOVER of the client nor consumed by an ACK; or
    * for exactly the address last acknowledged to this client (its current lease);
    where "sent" / "acknowledged" are what an observer recorded from the replies alone (`Spec.Ledger.watch`). -/
theorem ack_confirms_observed {cfg : Cfg} {s : State} {W : Observed} (h : ReachW cfg s W) (now : Nat) (m : Msg) (r : Reply)
    (hr : r ∈ (request cfg s now m).2) (ht : r.typ = .ack) :
    (reqKind m = .selecting ∧ (⟨clientId m, m.xid, r.yiaddr⟩ : OfferRec) ∈ W.offers)
      ∨ (clientId m, r.yiaddr) ∈ W.held := by
  obtain ⟨ops, hops⟩ := h
  have hS : SimW s W := reachW_sim cfg ops (init cfg) ⟨[], []⟩ (by intro c l hm; simp [init] at hm) (s, W) hops
  rcases request_replies cfg s now m with e | ⟨srv, e⟩ | ⟨hv, hnz, e⟩
  · rw [e] at hr; simp at hr
  · rw [e] at hr; simp at hr; rw [hr] at ht; cases ht
  · have ha := verdict_ack hv
    rw [e, ackLease_eq] at hr
    simp only [List.mem_singleton] at hr
    have hip := ackedLease_ip ha now
    have hy : r.yiaddr = reqIPOf m := by rw [hr]; simp only [mkReply, hip, Option.getD_some]
    obtain ⟨h1, h2⟩ := simW_foc hS (clientId m) m.chaddr
    rw [hy]
    cases hs : (findOrCreate s (clientId m) m.chaddr).state
    · exact absurd hs ha.notFree
    · left
      obtain ⟨hk, hx, ho, _⟩ := ha.disc hs
      refine ⟨hk, ?_⟩
      have := h2 hs _ ho
      rw [hx] at this
      exact this
    · right
      exact h1 hs _ (ha.alloc hs)

/-- non-vacuity of `ack_confirms_observed`: after DISCOVER (OFFER 10, xid 1001) the observer holds that offer and the
    selecting REQUEST is acknowledged; afterwards it holds the lease, the offer is consumed -/
example : ReachW cfgEx
    { table := [(macA, { state := .allocated, mac := macA, ip := some 10, offer := none, xid := [1, 0, 0, 1], sub := .net2,
                         expiry := 14500 })],
      next1 := 1, next2 := 11, hosts := [], captured := [macA] }
    ⟨[], [(macA, 10)]⟩ :=
  ⟨[.capture macA, .discover 100 (msgEx 1 none none), .request 100 (msgEx 1 (some [0, 0, 0, 10]) (some [0, 0, 0, 9]))],
   by decide⟩

/-- in secondary mode (and in nice mode for a captured client) a selecting REQUEST for another server is
    answered with NAK carrying our server id; in primary mode it is ignored -/
theorem other_server_nak_or_silence (cfg : Cfg) (s : State) (now : Nat) (m : Msg)
    (hnz : reqIPOf m ≠ 0) (hk : reqKind m = .selecting)
    (hs : reqAddr m.srvOpt ≠ (cfg.sub (selSub s m.chaddr)).server) :
    (request cfg s now m).2 =
      if attacks cfg s m.chaddr then [nakReply m (cfg.sub (selSub s m.chaddr)).server (clientId m)] else [] := by
  unfold request
  have h0 : (reqIPOf m == 0) = false := by simpa using hnz
  have h1 : (reqAddr m.srvOpt != (cfg.sub (selSub s m.chaddr)).server) = true := by simpa using hs
  simp only [h0, Bool.false_eq_true, if_false, verdict, hk, h1, if_true]
  by_cases ha : attacks cfg s m.chaddr = true <;> simp [ha]

/-- the option map of a reply as handed to `EncodeDHCP4` -/
def toOpts (r : Reply) : Model.Dhcp4Opt.Opts := r.opts.map (fun e => (UInt8.ofNat e.1, e.2))

/-- **C12 (a, order on the wire): in every OFFER / ACK the subnet mask is encoded before the router option**,
    for every parameter request list of the client and every map iteration order: the reply's option map
    always holds option 1, and `AppendOptions` writes option 1 first (`C03Dhcp.mask_before_router`). -/
theorem reply_mask_first (cfg : Cfg) (m : Msg) (t : RType) (l : Lease) (a : Option IP) (order : Bytes) (tail : List UInt8) :
    ∃ rest, Model.Dhcp4Opt.emitSeq (toOpts (mkReply cfg m t l a)) order tail
      = (1, maskBytes (cfg.sub l.sub).bits) :: rest := by
  apply C03Dhcp.mask_before_router
  unfold toOpts mkReply replyOpts Model.Dhcp4Opt.optGet
  cases l.sub <;> simp

/-- non-vacuity: an honourable selecting REQUEST is acknowledged with the offered address -/
example : ((request cfgEx
    { table := [(macA, { state := .discover, mac := macA, ip := none, offer := some 10, xid := [1, 0, 0, 1], sub := .net2,
                         expiry := 0 })],
      next1 := 1, next2 := 11, hosts := [], captured := [macA] } 100
      (msgEx 1 (some [0, 0, 0, 10]) (some [0, 0, 0, 9]))).2.map (fun r => (r.typ, r.yiaddr, optOf r 3))) = [(.ack, 10, some [0, 0, 0, 9])] := by
  decide

/-- non-vacuity: the same REQUEST with another xid is not honourable and is NAKed -/
example : ((request cfgEx
    { table := [(macA, { state := .discover, mac := macA, ip := none, offer := some 10, xid := [7, 7, 7, 7], sub := .net2,
                         expiry := 0 })],
      next1 := 1, next2 := 11, hosts := [], captured := [macA] } 100
      (msgEx 1 (some [0, 0, 0, 10]) (some [0, 0, 0, 9]))).2.map (·.typ)) = [.nak] := by
  decide

end PV.Props.C12
