/-
  C09 — safety of the lock protocol under all interleavings (the part of C09 that is logic).
  Generic theorem over the abstract lock machine (Model/Locks.lean), for any number of threads, any
  programs and any schedule; instantiated on the Go code by the regenerated facts in
  Props/C09Tie.lean.  What no model can exhibit — the Go memory model (data races), channel
  operations, goroutine lifetimes — is explored by the race-detector stress harness and is labelled
  as exploration in the evidence.
-/
import PacketVerif.Lemmas.Locks
namespace PV.Props.C09
open PV.Model.Locks PV.Lemmas.Locks

/-- **No deadlock under a lock hierarchy.**  If every thread acquires locks in strictly increasing rank
    (hence never re-enters a lock it holds), releases only what it holds and ends holding nothing, then no
    state reachable under any schedule is a deadlock. -/
theorem no_deadlock_of_ranked (s0 s : State) (hw : ∀ t ∈ s0, t.wf) (hr : Reach s0 s) : ¬ deadlocked s := by
  intro hd
  have hws := wf_reach hr hw
  obtain ⟨⟨t, ht, hunf⟩, hall⟩ := hd
  obtain ⟨l, hb⟩ := hall t ht hunf
  obtain ⟨t', ht', l', hb', hle⟩ := climb_n hws ⟨⟨t, ht, hunf⟩, hall⟩ (stateBound s + 1) ht hb
  have := blocked_le_bound ht' hb'
  omega

/-- the discipline is preserved by every step: a reachable state is again well-formed -/
theorem discipline_invariant (s0 s : State) (hw : ∀ t ∈ s0, t.wf) (hr : Reach s0 s) : ∀ t ∈ s, t.wf :=
  wf_reach hr hw

/-- non-vacuity: the library's shape — a packet thread taking the session lock then a row lock, an API
    thread doing the same, a purge thread taking only row locks — is well-formed, and an inverted order is not -/
example : (⟨[], [.acq 20, .acq 30, .rel 30, .rel 20]⟩ : Thread).wf := by
  simp [Thread.wf, respects]
example : ¬ (⟨[], [.acq 30, .acq 20, .rel 20, .rel 30]⟩ : Thread).wf := by
  simp [Thread.wf, respects]

end PV.Props.C09
