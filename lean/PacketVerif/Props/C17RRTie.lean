/-
  C17 / C08 tie (F11, continued) — the record decoder `(*DNSEntry).decodeRRs` and `(*DNSEntry).DecodeAnswers` of
  layer_dns.go, regenerated from their Go bodies on every run (tools/goextract/loops_dns.go + loops_dns_recv.go →
  Gen/LoopsDns.lean), are the functions `Model.decodeRRs` / `Model.decodeAnswers` (Model/DnsRR.lean) that the C17
  theorems (records learned = records in the message, first wins, merges monotone) and the C08 totality theorems are
  about.

  The generated functions run in `OutcomeS GDNSEntry`: the entry the pointer receiver points to is the state and is
  returned NEXT TO the outcome, so the statement covers what an error return leaves behind (the records stored before a
  failing record stay in the entry — ProcessDNS relies on it because the entry shares its maps with the table).

  Modulo: Go maps are association lists in insertion order, seen through `entryView` (values in insertion order); the
  entry's maps are keyed by their records (`EntryKeyed`, maintained — proved below); `net.ParseIP` is the parameter
  `parseIP`, related to the model's text parser by the hypothesis `hP`.
-/
import PacketVerif.Lemmas.DnsRRLoops
namespace PV.Props.C17RRTie
open PV PV.Model PV.Model.LoopGo PV.Model.LoopGoDns PV.Gen.LoopsDns PV.Lemmas.DnsLoops PV.Lemmas.DnsRRLoops PV.Props.C17Tie

/-- what the callers see of the results of `decodeRRs` / `DecodeAnswers`: the offset and `updated` -/
def rrView (v : GDNSEntry × Int × Bool) : Int × Bool := (v.2.1, v.2.2)

/-- **decodeRRs tie.**  For every entry whose maps are keyed by their records, every count (a Go `int`), message, offset,
    caller buffer and every previous content of the receiver: the entry the regenerated `decodeRRs` leaves behind the
    pointer, seen as the model's entry, and its outcome are `Model.decodeRRs` — same records in the same order, same
    returned offset and `updated`, same error, same panic, never `.hang` unless the model does (it does not:
    `decodeRRs_total`), **including the entry state after an error return**.  The maps stay keyed, and on success the
    entry returned is the state. -/
theorem decodeRRs_tie (parseIP : Bytes → Bytes) (ip6 : Bytes → PtrIP) (hP : ∀ s, ptrView (parseIP s) = parsePtrIP ip6 s)
    (e : GDNSEntry) (hk : EntryKeyed e) (count : Int) (p : Bytes) (offset : Int) (buffer : Bytes) (s0 : GDNSEntry) :
    (entryView ((genDNSEntry_decodeRRs parseIP e count p offset buffer).run s0).1,
      omap rrView ((genDNSEntry_decodeRRs parseIP e count p offset buffer).run s0).2)
      = Model.decodeRRs ip6 count.toNat (entryView e) p offset false
    ∧ EntryKeyed ((genDNSEntry_decodeRRs parseIP e count p offset buffer).run s0).1
    ∧ (∀ v, ((genDNSEntry_decodeRRs parseIP e count p offset buffer).run s0).2 = .ok v →
        v.1 = ((genDNSEntry_decodeRRs parseIP e count p offset buffer).run s0).1)
    ∧ ((genDNSEntry_decodeRRs parseIP e count p offset buffer).run s0).1.Name = e.Name
    ∧ Good ((genDNSEntry_decodeRRs parseIP e count p offset buffer).run s0).1 := by
  rw [init_run]
  obtain ⟨e', r, h1, h2, h3, h4, h5⟩ := rrLoop_eq parseIP ip6 hP count p buffer ((count - 0).toNat + 1) (initE e) offset false [] 0
    (good_init hk) (Nat.le_refl _)
  rw [OutcomeS.run_bind, h1]
  rw [view_init] at h3
  have hc : (count - 0).toNat = count.toNat := by simp
  rw [hc] at h3
  cases r with
  | ok v =>
    have := h4 v rfl
    simp only [OutcomeS.run_pure]
    refine ⟨?_, keyed_of_good h2, ?_, h5, h2⟩
    · rw [← h3]; rfl
    · intro v' hv'; cases hv'; exact this
  | err er => exact ⟨by rw [← h3]; rfl, keyed_of_good h2, (fun v h => by cases h), h5, h2⟩
  | panic => exact ⟨by rw [← h3]; rfl, keyed_of_good h2, (fun v h => by cases h), h5, h2⟩
  | hang => exact ⟨by rw [← h3]; rfl, keyed_of_good h2, (fun v h => by cases h), h5, h2⟩

/-- **DecodeAnswers tie.**  The regenerated `DecodeAnswers` (header check, ANCOUNT, the regenerated `decodeRRs`) is
    `Model.decodeAnswers`: same entry left behind, same outcome. -/
theorem decodeAnswers_tie (parseIP : Bytes → Bytes) (ip6 : Bytes → PtrIP) (hP : ∀ s, ptrView (parseIP s) = parsePtrIP ip6 s)
    (e : GDNSEntry) (hk : EntryKeyed e) (p : Bytes) (offset : Int) (buffer : Bytes) (s0 : GDNSEntry) :
    (entryView ((genDNSEntry_DecodeAnswers parseIP e p offset buffer).run s0).1,
      omap rrView ((genDNSEntry_DecodeAnswers parseIP e p offset buffer).run s0).2)
      = Model.decodeAnswers ip6 (entryView e) p offset
    ∧ EntryKeyed ((genDNSEntry_DecodeAnswers parseIP e p offset buffer).run s0).1
    ∧ ((genDNSEntry_DecodeAnswers parseIP e p offset buffer).run s0).1.Name = e.Name
    ∧ (Good e → Good ((genDNSEntry_DecodeAnswers parseIP e p offset buffer).run s0).1) := by
  unfold genDNSEntry_DecodeAnswers Model.decodeAnswers
  simp only [OutcomeS.run_bind_putRecv, OutcomeS.run_bind_lift, isValid_tie]
  by_cases h12 : p.length < 12
  · simp only [h12, if_true]
    exact ⟨rfl, hk, trivial, id⟩
  simp only [h12, if_false]
  have han := ancount_tie p
  revert han
  cases genDNS_ANCount p with
  | ok t =>
    intro han
    simp only [omap] at han
    rw [← han]
    simp only []
    obtain ⟨h1, h2, h3, h4, h5⟩ := decodeRRs_tie parseIP ip6 hP e hk (t.toNat : Int) p offset buffer e
    rw [OutcomeS.run_bind]
    rw [Int.toNat_natCast] at h1
    rw [← h1]
    generalize (genDNSEntry_decodeRRs parseIP e (↑t.toNat) p offset buffer).run e = R at h2 h3 h4 h5
    obtain ⟨e', r⟩ := R
    cases r with
    | ok v => exact ⟨rfl, h2, h4, fun _ => h5⟩
    | err er => exact ⟨rfl, h2, h4, fun _ => h5⟩
    | panic => exact ⟨rfl, h2, h4, fun _ => h5⟩
    | hang => exact ⟨rfl, h2, h4, fun _ => h5⟩
  | err er => intro han; simp only [omap] at han; rw [← han]; exact ⟨rfl, hk, rfl, id⟩
  | panic => intro han; simp only [omap] at han; rw [← han]; exact ⟨rfl, hk, rfl, id⟩
  | hang => intro han; simp only [omap] at han; rw [← han]; exact ⟨rfl, hk, rfl, id⟩

/-- non-vacuity, and the point of the state monad: a response with ANCOUNT 2 whose first record is `a A 10.0.0.1`
    (TTL 60) and whose second record is truncated — the call fails with `ErrInvalidLen` **and the first record is in the
    entry** (the four maps were allocated, one record stored). -/
example : (genDNSEntry_DecodeAnswers (fun _ => []) {}
      [0, 0, 0, 0, 0, 0, 0, 2, 0, 0, 0, 0, 1, 97, 0, 0, 1, 0, 1, 0, 0, 0, 60, 0, 4, 10, 0, 0, 1, 1, 98, 0, 0, 1] 12 []).run {}
    = ({ IP4Records := some [([10, 0, 0, 1], { Name := [97], IP := [10, 0, 0, 1], TTL := 60 })], IP6Records := some [],
         CNameRecords := some [], PTRRecords := some [] }, .err .invalidLen) := by decide

/-- non-vacuity: the same record twice is stored once ("first wins"), `updated` is true, the offset is the end -/
example : omap rrView ((genDNSEntry_DecodeAnswers (fun _ => []) {}
      [0, 0, 0, 0, 0, 0, 0, 2, 0, 0, 0, 0, 1, 97, 0, 0, 1, 0, 1, 0, 0, 0, 60, 0, 4, 10, 0, 0, 1,
       1, 97, 0, 0, 1, 0, 1, 0, 0, 0, 9, 0, 4, 10, 0, 0, 1] 12 []).run {}).2 = .ok (46, true) := by decide

/-- non-vacuity: a short header is refused and the receiver is left as it was handed in -/
example : (genDNSEntry_DecodeAnswers (fun _ => []) { Name := [97] } [0, 0, 0] 12 []).run {} = ({ Name := [97] }, .err .frameLen) := by
  decide

/-! ### the hypothesis on `parseIP` is satisfiable: the model's own text parser -/

/-- every field the model's dotted-quad parser returns is an octet -/
theorem ip4Fields_le : ∀ (s : Bytes) (pd first : Bool) (fields : List Nat) (val dl : Nat) (r : List Nat),
    (∀ x ∈ fields, x ≤ 255) → val ≤ 255 → ip4Fields s pd first fields val dl = some r → ∀ x ∈ r, x ≤ 255 := by
  intro s
  induction s with
  | nil =>
    intro pd first fields val dl r hf hv h
    unfold ip4Fields at h
    split at h
    · cases h
      intro x hx
      rcases List.mem_append.mp hx with h1 | h1
      · exact hf x h1
      · simp only [List.mem_singleton] at h1; omega
    · cases h
  | cons c rest ih =>
    intro pd first fields val dl r hf hv h
    unfold ip4Fields at h
    split at h
    · split at h
      · cases h
      · simp only [] at h
        split at h
        · cases h
        · exact ih _ _ _ _ _ r hf (by omega) h
    · split at h
      · split at h
        · cases h
        · split at h
          · cases h
          · refine ih _ _ _ _ _ r ?_ (by omega) h
            intro x hx
            rcases List.mem_append.mp hx with h1 | h1
            · exact hf x h1
            · simp only [List.mem_singleton] at h1; omega
      · cases h

/-- `net.ParseIP` as the model has it: the dotted-quad parser for texts whose first special character is '.', any
    function `p6` for texts that go to the IPv6 parser, nil otherwise -/
def refParseIP (p6 : Bytes → Bytes) (s : Bytes) : Bytes :=
  match firstSpecial s with
  | some 46 =>
    match parseIP4Text s with
    | some [a, b, c, d] => [UInt8.ofNat a, UInt8.ofNat b, UInt8.ofNat c, UInt8.ofNat d]
    | _ => []
  | some 58 => p6 s
  | _ => []

/-- the hypothesis `hP` of the ties holds for it, whatever the IPv6 text parser is: the ties are not vacuous, and with
    `parseIP := refParseIP p6` they are unconditional statements about the regenerated decoder -/
theorem refParseIP_hP (p6 : Bytes → Bytes) (s : Bytes) :
    ptrView (refParseIP p6 s) = parsePtrIP (fun s => ptrView (p6 s)) s := by
  unfold refParseIP parsePtrIP
  split
  · rename_i hfs
    simp only [hfs]
    cases h4 : parseIP4Text s with
    | none => simp [ptrView]
    | some l =>
      match l, h4 with
      | [a, b, c, d], h4 =>
        have hle := ip4Fields_le s false true [] 0 0 [a, b, c, d] (fun _ h => by cases h) (by omega) h4
        have ha := hle a (by simp)
        have hb := hle b (by simp)
        have hc := hle c (by simp)
        have hd := hle d (by simp)
        have e : ∀ x : Nat, x ≤ 255 → (UInt8.ofNat x).toNat = x := by
          intro x hx; simp [UInt8.toNat_ofNat']; omega
        simp [ptrView, ipTo4, e a ha, e b hb, e c hc, e d hd]
      | [], _ => simp [ptrView]
      | [_], _ => simp [ptrView]
      | [_, _], _ => simp [ptrView]
      | [_, _, _], _ => simp [ptrView]
      | _ :: _ :: _ :: _ :: _ :: _, _ => simp [ptrView]
  · rename_i hfs
    simp only [hfs]
  · rename_i h1 h2
    split
    · rename_i hfs; exact absurd hfs (h1)
    · rename_i hfs; exact absurd hfs (h2)
    · simp [ptrView]

/-- **DecodeAnswers tie, unconditional form**: with `net.ParseIP` as the model has it (`refParseIP`, any IPv6 text
    parser `p6`) no hypothesis on the parser is left -/
theorem decodeAnswers_tie_ref (p6 : Bytes → Bytes) (e : GDNSEntry) (hk : EntryKeyed e) (p : Bytes) (offset : Int) (buffer : Bytes)
    (s0 : GDNSEntry) :
    (entryView ((genDNSEntry_DecodeAnswers (refParseIP p6) e p offset buffer).run s0).1,
      omap rrView ((genDNSEntry_DecodeAnswers (refParseIP p6) e p offset buffer).run s0).2)
      = Model.decodeAnswers (fun s => ptrView (p6 s)) (entryView e) p offset :=
  (decodeAnswers_tie (refParseIP p6) (fun s => ptrView (p6 s)) (refParseIP_hP p6) e hk p offset buffer s0).1

/-- the zero entry (nil maps) is keyed: the ties apply to a fresh `DNSEntry{}` as ProcessDNS builds it -/
theorem entryKeyed_zero (n : Bytes) : EntryKeyed { Name := n } := by
  constructor <;> (intro l h; cases h)

/-- the translator's account of decodeRRs / DecodeAnswers: the receiver-as-state assumption is the one used -/
theorem recvState_accounted : dnsLoopAssumptions.any (fun a => a.1 = "recvState") = true := by decide

end PV.Props.C17RRTie
