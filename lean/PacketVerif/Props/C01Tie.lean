/-
  Tie B for C01: facts regenerated from the Go source on every run (Gen/Facts.lean, by
  tools/goextract) are compared with the model's tables.  A source change that alters the length
  test of an `IsValid`, adds/removes/renames a view type or a zero-argument method makes one of
  these `decide` proofs fail at build time.
-/
import PacketVerif.Gen.Facts
import PacketVerif.Model.Views
namespace PV.Props.C01Tie
open PV PV.Model

/-- methods of the Go view types whose *value* is not modelled in Model/Views (modelled elsewhere:
    option parsers in the C08 models, CalculateChecksum in C15) -/
def opaqueMethods : List (String × String) :=
  [("DHCP4", "ParseOptions"), ("HopByHopExtensionHeader", "ParseHopByHopExtensions"),
   ("ICMP6RouterAdvertisement", "Options"), ("ICMP6RouterSolicitation", "Options"), ("IP4", "CalculateChecksum")]

/-- view types of the Go package without getters (nothing to model beyond IsValid) -/
def viewsWithoutModel : List String := ["Unknown880a"]

def minLenOk : Bool :=
  Gen.minLen.all fun (n, k) =>
    viewsWithoutModel.contains n || allViews.any fun V => V.name == n && V.minLen == k

/-- every view type of the Go package is modelled with the same minimum length as its `IsValid` tests -/
theorem minLen_tie : minLenOk = true := by decide

def viewsCovered : Bool :=
  allViews.all fun V => Gen.minLen.any fun (n, _) => n == V.name

theorem views_tie : viewsCovered = true := by decide

def methodsOk : Bool :=
  Gen.viewMethods.all fun (n, ms) =>
    viewsWithoutModel.contains n ||
    allViews.any fun V => V.name == n &&
      ms.all (fun m => V.getterNames.contains m || opaqueMethods.contains (n, m)) &&
      V.getterNames.all (fun m => ms.contains m)

/-- the getter set of every Go view type equals the model's getter table (no getter can be added to the
    code without the model — and hence the safety theorem `getters_safe` — covering it) -/
theorem viewMethods_tie : methodsOk = true := by decide

end PV.Props.C01Tie
