/-
  C08 (SSDP) — `DNSHandler.ProcessSSDP` returns for EVERY payload and EVERY result of the two net/http parsers:
  the dispatch on the payload prefix (NOTIFY / M-SEARCH / response), the header lookups, the NTS switch, the
  CACHE-CONTROL pair loop in the index form of the Go code, the user-agent classification and the LOCATION of a
  200 response.  `http.ReadRequest` / `http.ReadResponse` are parameters of the model (Model/Ssdp.lean): the
  theorems quantify over them.  The one fact about net/http that is used is its documented contract that the
  `Body` of a returned response is not nil (`ssdp_body_needed`: without it `defer resp.Body.Close()` is a nil
  dereference).  Proofs in Lemmas/Ssdp.lean.
-/
import PacketVerif.Lemmas.Ssdp
namespace PV.Props.C08Ssdp
open PV PV.Model PV.Model.Ssdp PV.Lemmas.Ssdp

/-- net/http: `ReadResponse` never returns a response whose `Body` is nil -/
def BodyContract (h : Http) : Prop := ∀ raw r, h.readResponse raw = some r → r.bodyNil = false

/-- **the pair loop over `strings.Split(cacheControl, "=")` stays in range and ends**: with the fuel
    `len(options) + 1` it returns the value after the first key equal to `max-age` — `options[i]` and
    `options[i+1]` are only read under the guard `i+1 < len(options)` (the pre-fix loop `i < len(options)` read
    `options[i+1]` out of range; that form is expressible here: `at_` panics) -/
theorem cacheControl_loop_total (options : List Bytes) :
    pairLoop options (options.length + 1) 0 = .ok (findMaxAge options) := by
  have := pairLoop_eq options (options.length + 1) 0 (by omega) (by omega)
  simpa using this

/-- the index form computes the expiry of the pattern-matching model of C08Dns (`ssdpExpiry_total`) -/
theorem aliveSeconds_refines (cc : Bytes) : aliveSeconds cc = ssdpExpirySeconds cc := aliveSeconds_eq cc

/-- **`ProcessSSDP` is total for every payload and every parser result** -/
theorem processSSDP_total (h : Http) (hb : BodyContract h) (payload : Bytes) :
    processSSDP h payload ≠ .panic ∧ processSSDP h payload ≠ .hang := by
  suffices hs : (processSSDP h payload).safe = true by
    cases hx : processSSDP h payload <;> simp_all [Outcome.safe]
  unfold processSSDP
  split
  · unfold processNotify
    cases h.readRequest payload with
    | none => rfl
    | some req =>
      simp only []
      split
      · split
        · rfl
        · obtain ⟨s, hs⟩ := aliveSeconds_ok (req.get kCACHE)
          rw [hs]; rfl
      · split <;> rfl
  · split
    · unfold processSearch
      cases h.readRequest payload with
      | none => rfl
      | some req => simp only []; split <;> rfl
    · unfold processResponse
      cases hr : h.readResponse payload with
      | none => rfl
      | some resp =>
        simp only [hb payload resp hr, Bool.false_eq_true, if_false]
        split <;> rfl

/-- **what the response branch returns**: a payload that is neither NOTIFY nor M-SEARCH yields the LOCATION
    header of a 200 response, an error for every other status or a parser error -/
theorem response_result (h : Http) (hb : BodyContract h) (payload : Bytes)
    (h1 : isPrefix kNotifySp payload = false) (h2 : isPrefix kMSearchSp payload = false) :
    processSSDP h payload =
      match h.readResponse payload with
      | none => .err .other
      | some r => if r.status ≠ 200 then .err .parseFrame else .ok { location := r.get kLOCATION } := by
  unfold processSSDP processResponse
  simp only [h1, h2, Bool.false_eq_true, if_false]
  cases hr : h.readResponse payload with
  | none => rfl
  | some r => simp only [hb payload r hr, Bool.false_eq_true, if_false]

/-- **what the NOTIFY branch returns for `ssdp:alive`**: the LOCATION header and an expiry of `max-age` seconds
    when positive, else 300 -/
theorem notify_alive_result (h : Http) (payload : Bytes) (req : Req)
    (h1 : isPrefix kNotifySp payload = true) (hr : h.readRequest payload = some req)
    (hn : req.get kNTS = kAlive) (hm : req.method = kNOTIFY) :
    ∃ s, ssdpExpirySeconds (req.get kCACHE) = .ok s ∧
      processSSDP h payload = .ok { expire := some s, location := req.get kLOCATION } := by
  obtain ⟨s, hs⟩ := aliveSeconds_ok (req.get kCACHE)
  refine ⟨s, by rw [← aliveSeconds_eq]; exact hs, ?_⟩
  unfold processSSDP processNotify
  simp only [h1, if_true, hr, hn, hm, ne_eq, not_true_eq_false, if_false, hs, Outcome.bind_ok, Outcome.pure_eq]

/-! ### non-vacuity -/

def hdr (l : List (Bytes × Bytes)) (k : Bytes) : Bytes :=
  match l.find? (fun e => e.1 == k) with
  | some e => e.2
  | none => []

/-- a parser pair that reads every input as the same request / response -/
def constHttp (rq : Option Req) (rs : Option Resp) : Http := ⟨fun _ => rq, fun _ => rs⟩

/-- the body contract cannot be dropped -/
theorem ssdp_body_needed :
    processSSDP (constHttp none (some ⟨200, hdr [], true⟩)) [72, 84, 84, 80, 47, 49, 46, 49, 32, 50, 48, 48, 32, 79, 75] = .panic := by decide

example : processSSDP (constHttp none (some ⟨200, hdr [(kLOCATION, [104, 116, 116, 112, 58, 47, 47, 97, 47, 100, 46, 120, 109, 108])], false⟩)) [72, 84, 84, 80, 47, 49, 46, 49, 32, 50, 48, 48, 32, 79, 75] =
    .ok { location := [104, 116, 116, 112, 58, 47, 47, 97, 47, 100, 46, 120, 109, 108] } := by decide
example : processSSDP (constHttp (some ⟨kNOTIFY, hdr [(kNTS, kAlive), (kCACHE, [109, 97, 120, 45, 97, 103, 101, 61, 49, 56, 48, 48])]⟩) none)
    [78, 79, 84, 73, 70, 89, 32, 42, 32, 72, 84, 84, 80, 47, 49, 46, 49] = .ok { expire := some (some 1800) } := by decide
example : processSSDP (constHttp (some ⟨[71, 69, 84], hdr [(kNTS, kAlive)]⟩) none) [78, 79, 84, 73, 70, 89, 32, 42, 32, 72, 84, 84, 80, 47, 49, 46, 49] =
    .err .parseFrame := by decide
example : processSSDP (constHttp (some ⟨[77, 45, 83, 69, 65, 82, 67, 72], hdr [(kMAN, kDiscover), (kUA, [77, 121, 32, 65, 112, 112, 47, 52, 32, 40, 105, 80, 104, 111, 110, 101, 59, 32, 105, 79, 83, 32, 49, 50, 46, 52, 41])]⟩) none)
    [77, 45, 83, 69, 65, 82, 67, 72, 32, 42, 32, 72, 84, 84, 80, 47, 49, 46, 49] =
    .ok { type := kSsdp, model := kIPhone, manuf := kApple, os := kIOS, expire := some (some 300) } := by
  decide
/-- the index form does panic when the guard is wrong: reading `options[i+1]` past the end -/
example : at_ [maxAge] 1 = .panic := by decide

end PV.Props.C08Ssdp
