/-
  C05 — Host and MAC tables stay mutually consistent.
  Property theorems only; the invariant is `Spec.Inv` (Spec/TableInv.lean), the model is
  `Model.Tables`, helper lemmas (one preservation lemma per primitive) live in `Lemmas/Tables.lean`.
-/
import PacketVerif.Lemmas.Tables
import PacketVerif.Lemmas.TablesEx
namespace PV.Props.C05
open PV PV.Model.Tables PV.Spec PV.Lemmas.Tables

/-- the invariant holds right after `NewSession` (own host + router entries), for every
    configuration – including degenerate ones where both share an IP or a MAC -/
theorem inv_init (c : Cfg) (now : Int) (mh mr : String) : Inv (init c now mh mr) :=
  Lemmas.Tables.inv_init c now mh mr

/-- every API call (Parse, Notify, DHCPv4Update, SetDHCPv4IPOffer, Capture, Release, purge,
    name updates, the LastSeen hook, PrintTable) preserves the invariant -/
theorem inv_step (c : Cfg) (s : Sess) (op : Op) (h : Inv s) : Inv (step c s op).1 :=
  Lemmas.Tables.inv_step h c op

/-- the invariant holds after every sequence of API calls, of any length -/
theorem inv_reachable (c : Cfg) (now : Int) (mh mr : String) (ops : List Op) :
    Inv (run c (init c now mh mr) ops) := by
  have : ∀ (ops : List Op) (s : Sess), Inv s → Inv (run c s ops) := by
    intro ops
    induction ops with
    | nil => intro s h; exact h
    | cons op rest ih => intro s h; exact ih _ (inv_step c s op h)
  exact this ops _ (inv_init c now mh mr)

/-- `PrintTable`'s self check (hosts counted through the MAC entries = size of the host index)
    cannot fire -/
theorem printTable_no_panic (s : Sess) (h : Inv s) : Spec.printTable s ≠ .panic := by
  unfold Spec.printTable printTablePanics
  rw [count_eq h]
  simp

/-- no API call panics (the duplicate-IP path of `findOrCreateHostWithLock` runs the same check) -/
theorem step_no_panic (c : Cfg) (s : Sess) (op : Op) (h : Inv s) : (step c s op).2.panic = false := by
  have hp : printTablePanics s = false := by unfold printTablePanics; rw [count_eq h]; simp
  have hf : ∀ mac ip now manuf, (findOrCreateHost s mac ip now manuf).panic = false := by
    intro mac ip now manuf
    unfold findOrCreateHost
    split
    · split
      · rfl
      · simp [hp]
    · rfl
  cases op with
  | frame ev now manuf =>
    simp only [step, parse]
    split
    · rfl
    · simp only [hf, Bool.false_eq_true, if_false]
      split
      · rfl
      · split
        · rfl
        · rfl
  | notify host dhcp4 srcMAC flag => rfl
  | dhcpUpdate mac ip name now manuf =>
    simp only [step, dhcpUpdate]
    split
    · rfl
    · simp only [hf, Bool.false_eq_true, if_false]
      split
      · rfl
      · rfl
  | setOffer mac ip name => rfl
  | capture mac =>
    simp only [step]
    split
    · rfl
    · split
      · rfl
      · rfl
  | release mac =>
    simp only [step]
    split
    · rfl
    · rfl
  | purge now => rfl
  | setLastSeen ip t =>
    simp only [step]
    split
    · rfl
    · rfl
  | updateName host kind name => rfl
  | printTable => exact hp

/-- every reachable state: PrintTable does not panic -/
theorem printTable_no_panic_reachable (c : Cfg) (now : Int) (mh mr : String) (ops : List Op) :
    Spec.printTable (run c (init c now mh mr) ops) ≠ .panic :=
  printTable_no_panic _ (inv_reachable c now mh mr ops)

/-- a tracked host belongs to exactly one MAC entry: the one its pointer names -/
theorem exactly_one_entry (s : Sess) (h : Inv s) (p : IP × HostRec) (hp : p ∈ s.hosts) :
    ∃ m ∈ s.macs, p.2.id ∈ m.hostList ∧ m.mac = p.2.mac ∧
      ∀ m' ∈ s.macs, p.2.id ∈ m'.hostList → m' = m := by
  obtain ⟨m, hm, h1, h2, h3⟩ := h.hostEntry p hp
  refine ⟨m, hm, h3, h2, ?_⟩
  intro m' hm' hin
  obtain ⟨q, hq, e1, e2⟩ := h.listed m' hm' _ hin
  have : q = p := inj_of_nodup_map (fun q : IP × HostRec => q.2.id) h.hidNodup hq hp e1
  subst this
  exact inj_of_nodup_map (fun x : MacRec => x.id) h.midNodup hm' hm (by rw [← e2, h1])

/-- every host listed under a MAC entry is the object the host index holds under that host's own IP -/
theorem listed_is_indexed (s : Sess) (h : Inv s) (m : MacRec) (hm : m ∈ s.macs) (i : Nat) (hi : i ∈ m.hostList) :
    ∃ x, hostById s i = some x ∧ findHost s x.ip = some x ∧ x.entry = m.id ∧ x.mac = m.mac := by
  obtain ⟨p, hp, e1, e2⟩ := h.listed m hm i hi
  refine ⟨p.2, ?_, ?_, e2, ?_⟩
  · rw [← e1]; exact hostById_of_mem h.hidNodup hp
  · rw [h.keyIp p hp]; exact findHost_of_mem h.keysNodup hp
  · obtain ⟨m2, hm2, f1, f2, _⟩ := h.hostEntry p hp
    have : m2 = m := inj_of_nodup_map (fun x : MacRec => x.id) h.midNodup hm2 hm (by rw [f1, e2])
    subst this
    exact f2.symm

/-- the executable checker the driver runs on every dumped implementation state decides `Inv` -/
theorem violated_none_iff (s : Sess) : Spec.violated s = none ↔ Inv s := by
  unfold Spec.violated
  rw [Option.map_eq_none_iff, List.find?_eq_none]
  constructor
  · intro h
    have g : ∀ (b : Bool) (n : String), (b, n) ∈ Spec.checks s → b = true := by
      intro b n hm
      have := h (b, n) hm
      simpa using this
    refine ⟨?_, ?_, ?_, ?_, ?_, ?_, ?_, ?_, ?_, ?_, ?_⟩
    · exact of_decide_eq_true (g _ "keysNodup" (by simp [Spec.checks]))
    · exact of_decide_eq_true (g _ "keyIp" (by simp [Spec.checks]))
    · exact of_decide_eq_true (g _ "hidNodup" (by simp [Spec.checks]))
    · exact of_decide_eq_true (g _ "macNodup" (by simp [Spec.checks]))
    · exact of_decide_eq_true (g _ "midNodup" (by simp [Spec.checks]))
    · exact of_decide_eq_true (g _ "hostEntry" (by simp [Spec.checks]))
    · exact of_decide_eq_true (g _ "listed" (by simp [Spec.checks]))
    · exact of_decide_eq_true (g _ "listNodup" (by simp [Spec.checks]))
    · exact of_decide_eq_true (g _ "freshH" (by simp [Spec.checks]))
    · exact of_decide_eq_true (g _ "freshM" (by simp [Spec.checks]))
    · exact of_decide_eq_true (g _ "onlineOK" (by simp [Spec.checks]))
  · intro h c hc
    simp only [Spec.checks, List.mem_cons, List.not_mem_nil, or_false] at hc
    rcases hc with rfl | rfl | rfl | rfl | rfl | rfl | rfl | rfl | rfl | rfl | rfl
    · simpa using h.keysNodup
    · simpa using h.keyIp
    · simpa using h.hidNodup
    · simpa using h.macNodup
    · simpa using h.midNodup
    · simpa using h.hostEntry
    · simpa using h.listed
    · simpa using h.listNodup
    · simpa using h.freshH
    · simpa using h.freshM
    · simpa using h.onlineOK

/-! ### non-vacuity -/
open PV.Lemmas.TablesEx in
/-- the invariant holds (checked by evaluation) after a history with an IP change, a re-binding,
    an offline purge and a removing purge … -/
example : Spec.violated (run cfg0 s0 hist) = none := by decide
open PV.Lemmas.TablesEx in
/-- … and it is not trivially true: a host list naming an unindexed host violates it -/
example : Spec.violated broken = some "listed" := by decide
open PV.Lemmas.TablesEx in
example : ¬ Inv broken := by
  intro h
  have := (violated_none_iff broken).2 h
  revert this
  decide

end PV.Props.C05
