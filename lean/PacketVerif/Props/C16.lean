/-
  C16 — Parsing is zero-copy (views alias the caller's buffer at the decoded offsets).
  The allocation-free half of the property is a fact about the Go compiler's escape analysis and the
  allocator: no executable model expresses it; it is measured by the harness (`allocs` ops) against the
  model's constant prediction 0 and labelled as measurement in the evidence.
-/
import PacketVerif.Lemmas.Views
import PacketVerif.Lemmas.Parse
namespace PV.Props.C16
open PV PV.Model PV.Lemmas

/-- the bytes a span value denotes -/
def spanBytes (p : Bytes) (o l : Nat) : Bytes := (p.drop o).take l

/-- **Views alias the buffer at the decoded offsets.**  After a successful Parse each of IP4/IP6/UDP/TCP/
    Payload is either nil (offset 0) or exactly the suffix of the input starting at the decoded offset,
    and no view extends beyond the frame. -/
theorem views_alias (cfg : Cfg) (p : Bytes) (f : Frame) (h : parse cfg p = .ok ⟨f, none⟩) :
    ∀ off ∈ [f.offIP4, f.offIP6, f.offUDP, f.offTCP, f.offPayload],
      off ≤ p.length ∧ frameView p off = .ok (if off = 0 then .nil else .span off (p.length - off)) := by
  obtain ⟨h4, h6, hu, ht, hp⟩ := frame_offsets_le cfg p f h
  intro off ho
  simp only [List.mem_cons, List.not_mem_nil, or_false] at ho
  rcases ho with rfl | rfl | rfl | rfl | rfl
  · exact ⟨h4, frameView_eq p _ h4⟩
  · exact ⟨h6, frameView_eq p _ h6⟩
  · exact ⟨hu, frameView_eq p _ hu⟩
  · exact ⟨ht, frameView_eq p _ ht⟩
  · exact ⟨hp, frameView_eq p _ hp⟩

/-- **A write through a view is a write into the buffer** (and vice versa): updating index `i` of the
    view `buf[o : o+l]` is the same as updating index `o+i` of the buffer and re-taking the view. -/
theorem write_through_view (p : Bytes) (o l i : Nat) (x : UInt8) (hi : i < l) (hl : o + l ≤ p.length) :
    spanBytes (p.set (o + i) x) o l = (spanBytes p o l).set i x := by
  have _ := hi; have _ := hl
  exact span_set_inside p o l i x

/-- a write into the buffer outside a view does not change the view -/
theorem write_outside_view (p : Bytes) (o l k : Nat) (x : UInt8) (hk : k < o ∨ o + l ≤ k) :
    spanBytes (p.set k x) o l = spanBytes p o l :=
  span_set_outside p o l k x hk

/-- the decoded offsets are ordered as the layers are nested: Ethernet header ≤ IP ≤ transport ≤ payload -/
theorem offsets_nested (cfg : Cfg) (p : Bytes) (f : Frame) (h : parse cfg p = .ok ⟨f, none⟩) :
    14 ≤ f.offPayload ∧ (f.offIP4 ≠ 0 → 14 ≤ f.offIP4 ∧ f.offIP4 + 20 ≤ f.offPayload) ∧
    (f.offIP6 ≠ 0 → 14 ≤ f.offIP6 ∧ f.offIP6 + 40 ≤ f.offPayload) ∧
    (f.offUDP ≠ 0 → f.offUDP ≤ f.offPayload) ∧ (f.offTCP ≠ 0 → f.offTCP = f.offPayload) := by
  have hi := parse_inv cfg p f h
  simp only [DInv, toDec] at hi
  exact ⟨hi.2.2.2.2.1, hi.2.2.2.2.2.2.1, hi.2.2.2.2.2.2.2.1, hi.2.2.2.2.2.2.2.2.1, hi.2.2.2.2.2.2.2.2.2⟩

/-! ### non-vacuity -/

/- a successfully parsed frame exists (hypothesis of `views_alias` / `offsets_nested`) with non-zero IPv4,
   UDP and payload offsets -/
set_option maxRecDepth 8000 in
example : (parse ⟨[2,0,0,0,0,1], [2,0,0,0,0,0x11], [192,168,0,0], 24⟩
    ([2,0,0,0,0,1, 2,0,0,0,0,5, 8,0, 0x45,0,0,30, 0,0,0,0, 64,17,0,0, 192,168,0,5, 8,8,8,8, 0x30,0x39, 0,53, 0,10, 0,0, 1,2])).safe
    = true := by decide

/- writing through the view [2,4) of a 5-byte buffer -/
example : spanBytes (([1,2,3,4,5] : Bytes).set (2 + 1) 9) 2 2 = (spanBytes [1,2,3,4,5] 2 2).set 1 9 := by decide
example : spanBytes (([1,2,3,4,5] : Bytes).set 4 9) 2 2 = [3,4] := by decide

end PV.Props.C16
