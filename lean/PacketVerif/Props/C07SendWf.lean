/-
  C07 on the REGENERATED send paths: the frame theorems of Props/C07.lean (`sent_*_wf`: the frame handed to the
  connection is accepted by the independent reference decoder `Spec.Wire` as a complete, length-consistent packet of
  the intended protocol with the requested fields, Ethernet source = the host NIC MAC, verifying checksums, hop limit
  255 for link-local neighbour discovery) restated about the Lean functions that tools/goextract/senders.go
  regenerates from the Go bodies on every run (Gen/Senders.lean), through the tie theorems of Props/C07SendTie.lean.
  The hand-written send-path models of Model/Encode.lean no longer appear in these statements: what is proved
  well-formed is what the Go text of each send function says now, composed from what the Go text of each encoder
  says now (Gen/Encoders.lean, tied in Props/C03EncTie.lean).
-/
import PacketVerif.Props.C07
import PacketVerif.Props.C07SendTie
namespace PV.Props.C07SendWf
open PV PV.Model PV.Props.C07SendTie

/-- Session.arpRequest (the purge probe) -/
theorem arpRequest_wf (g : Mem) (hostMAC dst smac sip tmac tip : Bytes) (sport tport : Nat)
    (h1 : hostMAC.length = 6) (h2 : dst.length = 6) (h3 : smac.length = 6) (h4 : sip.length = 4)
    (h5 : tmac.length = 6) (h6 : tip.length = 4) (hcap : g.length = 1522) :
    ∃ f, Gen.Send.arpRequest g dst smac sip sport tmac tip tport hostMAC = .ok f ∧
      Spec.Wire.wfARP hostMAC dst 1 smac sip tmac tip f = none := by
  rw [arpRequest_tie]
  exact C07.sent_session_arp_wf g hostMAC dst smac sip tmac tip h1 h2 h3 h4 h5 h6 hcap

/-- arp_spoofer RequestRaw -/
theorem requestRaw_wf (g : Mem) (hostMAC dst smac sip tmac tip : Bytes) (sport tport : Nat)
    (h1 : hostMAC.length = 6) (h2 : dst.length = 6) (h3 : smac.length = 6) (h4 : sip.length = 4)
    (h5 : tmac.length = 6) (h6 : tip.length = 4) (hcap : g.length = 1522) :
    ∃ f, Gen.Send.arp_spoofer_RequestRaw g dst smac sip sport tmac tip tport hostMAC = .ok f ∧
      Spec.Wire.wfARP hostMAC dst 1 smac sip tmac tip f = none := by
  rw [requestRaw_tie]
  exact C07.sent_arp_wf g hostMAC dst 1 smac sip tmac tip h1 h2 h3 h4 h5 h6 (by decide) hcap

/-- arp_spoofer reply (the spoofing frame of C13) -/
theorem reply_wf (g : Mem) (hostMAC dst smac sip tmac tip : Bytes) (sport tport : Nat)
    (h1 : hostMAC.length = 6) (h2 : dst.length = 6) (h3 : smac.length = 6) (h4 : sip.length = 4)
    (h5 : tmac.length = 6) (h6 : tip.length = 4) (hcap : g.length = 1522) :
    ∃ f, Gen.Send.arp_spoofer_reply g dst smac sip sport tmac tip tport hostMAC = .ok f ∧
      Spec.Wire.wfARP hostMAC dst 2 smac sip tmac tip f = none := by
  rw [reply_tie]
  exact C07.sent_arp_wf g hostMAC dst 2 smac sip tmac tip h1 h2 h3 h4 h5 h6 (by decide) hcap

/-- dhcp4_spoofer sendDHCP4Packet: Ethernet source = the `srcAddr.MAC` its callers pass (the host address) -/
theorem sendDHCP4Packet_wf (g : Mem) (sm dm sip dip : Bytes) (sp dp : Nat) (pl : Bytes)
    (h1 : sm.length = 6) (h2 : dm.length = 6) (h3 : sip.length = 4) (h4 : dip.length = 4)
    (hsp : sp < 65536) (hdp : dp < 65536) (hfit : 42 + pl.length ≤ 1522) (hcap : g.length = 1522) :
    ∃ f, Gen.Send.dhcp4_spoofer_sendDHCP4Packet g sm sip sp dm dip dp pl = .ok f ∧
      Spec.Wire.wfUDP4 sm dm sip dip sp dp pl f = none := by
  rw [sendDHCP4Packet_tie]
  exact C07.sent_udp4_wf g sm dm sip dip 50 sp dp pl h1 h2 h3 h4 hsp hdp hfit hcap

/-- dns_naming sendNBNS -/
theorem sendNBNS_wf (g : Mem) (sm dm sip dip : Bytes) (sp dp : Nat) (pl : Bytes)
    (h1 : sm.length = 6) (h2 : dm.length = 6) (h3 : sip.length = 4) (h4 : dip.length = 4)
    (hfit : 42 + pl.length ≤ 1522) (hcap : g.length = 1522) :
    ∃ f, Gen.Send.dns_naming_sendNBNS g sm sip sp dm dip dp pl = .ok f ∧
      Spec.Wire.wfUDP4 sm dm sip dip 137 137 pl f = none := by
  rw [sendNBNS_tie]
  exact C07.sent_udp4_wf g sm dm sip dip 255 137 137 pl h1 h2 h3 h4 (by decide) (by decide) hfit hcap

/-- dns_naming SendSSDPSearch -/
theorem sendSSDPSearch_wf (g : Mem) (hm dm sip dip : Bytes) (pl : Bytes)
    (h1 : hm.length = 6) (h2 : dm.length = 6) (h3 : sip.length = 4) (h4 : dip.length = 4)
    (hfit : 42 + pl.length ≤ 1522) (hcap : g.length = 1522) :
    ∃ f, Gen.Send.dns_naming_SendSSDPSearch g hm dm sip dip pl = .ok f ∧
      Spec.Wire.wfUDP4 hm dm sip dip 1900 1900 pl f = none := by
  rw [sendSSDPSearch_tie]
  exact C07.sent_udp4_wf g hm dm sip dip 255 1900 1900 pl h1 h2 h3 h4 (by decide) (by decide) hfit hcap

/-- dns_naming sendMDNS, IPv4 -/
theorem sendMDNS4_wf (g : Mem) (hm dm smac sip dip : Bytes) (sport dp : Nat) (pl : Bytes)
    (h1 : hm.length = 6) (h2 : dm.length = 6) (h3 : sip.length = 4) (h4 : dip.length = 4)
    (hdp : dp < 65536) (hfit : 42 + pl.length ≤ 1522) :
    ∃ f, Gen.Send.dns_naming_sendMDNS g pl smac sip sport dm dip dp hm = .ok f ∧
      Spec.Wire.wfUDP4 hm dm sip dip dp dp pl f = none := by
  rw [sendMDNS4_tie g hm dm smac sip dip sport dp pl h3]
  exact C07.sent_udp4_wf _ hm dm sip dip 255 dp dp pl h1 h2 h3 h4 hdp hdp hfit List.length_replicate

/-- dns_naming sendMDNS, IPv6: with the mandatory UDP checksum; the caller supplies the matching group MAC -/
theorem sendMDNS6_wf (g : Mem) (hm dm smac sip dip : Bytes) (sport dp : Nat) (pl : Bytes)
    (h1 : hm.length = 6) (h2 : dm.length = 6) (h3 : sip.length = 16) (h4 : dip.length = 16)
    (hdp : dp < 65536) (hfit : 62 + pl.length ≤ 1522)
    (hmc : Spec.Wire.u8 dip 0 = 0xff → dm = Spec.Wire.mcastMAC6 dip) :
    ∃ f, Gen.Send.dns_naming_sendMDNS g pl smac sip sport dm dip dp hm = .ok f ∧
      Spec.Wire.wfUDP6 hm dm sip dip dp dp pl f = none := by
  rw [sendMDNS6_tie hm dm smac sip dip sport dp pl g h1 h2 h3 h4 hdp hfit]
  exact C07.sent_udp6_wf _ hm dm sip dip 255 dp dp pl h1 h2 h3 h4 hdp hdp hfit List.length_replicate hmc

/-- icmp4SendPacket: a message passed with a zero checksum field -/
theorem icmp4SendPacket_wf (g : Mem) (hm dm smac sip dip : Bytes) (sport dport : Nat) (t code : UInt8) (rest : Bytes)
    (h1 : hm.length = 6) (h2 : dm.length = 6) (h3 : sip.length = 4) (h4 : dip.length = 4)
    (hlen : 4 ≤ rest.length) (hfit : 38 + rest.length ≤ 1522) (hcap : g.length = 1522) :
    let msg := t :: code :: 0 :: 0 :: rest
    ∃ f, Gen.Send.icmp4SendPacket g smac sip sport dm dip dport msg hm = .ok f ∧
      Spec.Wire.wfICMP4 hm dm sip dip msg f = none := by
  intro msg
  have hl : msg.length = rest.length + 4 := by simp [msg]
  rw [icmp4SendPacket_tie g hm dm smac sip dip msg sport dport h1 h2 h3 h4 (by omega) (by omega) (by omega)]
  exact C07.sent_icmp4_wf g hm dm sip dip t code rest h1 h2 h3 h4 hlen hfit hcap

/-- icmp6SendPacket (echo, NS, NA, RS, RA): pseudo-header checksum, hop limit 255 to link-local destinations,
    Ethernet source = the host NIC MAC whatever `srcAddr.MAC` is -/
theorem icmp6SendPacket_wf (g : Mem) (hm dm smac sip dip : Bytes) (sport dport : Nat) (t code : UInt8) (rest : Bytes)
    (h1 : hm.length = 6) (h2 : dm.length = 6) (h3 : sip.length = 16) (h4 : dip.length = 16)
    (hlen : 4 ≤ rest.length) (hfit : 58 + rest.length ≤ 1522) (hcap : g.length = 1522)
    (hmc : Spec.Wire.u8 dip 0 = 0xff → dm = Spec.Wire.mcastMAC6 dip) :
    let msg := t :: code :: 0 :: 0 :: rest
    ∃ f, Gen.Send.icmp6SendPacket g smac sip sport dm dip dport msg hm = .ok f ∧
      Spec.Wire.wfICMP6 hm dm sip dip msg f = none := by
  intro msg
  have hl : msg.length = rest.length + 4 := by simp [msg]
  rw [icmp6SendPacket_tie g hm dm smac sip dip msg sport dport h1 h2 h3 h4 (by omega) (by omega) (by omega)]
  exact C07.sent_icmp6_wf g hm dm sip dip t code rest h1 h2 h3 h4 hlen hfit hcap hmc

/-- ICMP4SendEchoRequest -/
theorem icmp4SendEcho_wf (g : Mem) (hm dm smac sip dip : Bytes) (sport dport id seq : Nat)
    (h1 : hm.length = 6) (h2 : dm.length = 6) (h3 : sip.length = 4) (h4 : dip.length = 4) (hcap : g.length = 1522) :
    ∃ f, Gen.Send.ICMP4SendEchoRequest g smac sip sport dm dip dport id seq hm = .ok f ∧
      Spec.Wire.wfICMP4 hm dm sip dip (encodeICMPEcho 8 0 id seq hello) f = none := by
  rw [icmp4SendEcho_tie g hm dm smac sip dip sport dport id seq h1 h2 h3 h4 (by omega)]
  exact C07.sent_icmp4_wf g hm dm sip dip 8 0 _ h1 h2 h3 h4 (by simp [hello]) (by simp [hello]) hcap

/-- ICMP6SendEchoRequest -/
theorem icmp6SendEcho_wf (g : Mem) (hm dm smac sip dip : Bytes) (sport dport id seq : Nat)
    (h1 : hm.length = 6) (h2 : dm.length = 6) (h3 : sip.length = 16) (h4 : dip.length = 16) (hcap : g.length = 1522)
    (hmc : Spec.Wire.u8 dip 0 = 0xff → dm = Spec.Wire.mcastMAC6 dip) :
    ∃ f, Gen.Send.ICMP6SendEchoRequest g smac sip sport dm dip dport id seq hm = .ok f ∧
      Spec.Wire.wfICMP6 hm dm sip dip (encodeICMPEcho 128 0 id seq hello) f = none := by
  rw [icmp6SendEcho_tie g hm dm smac sip dip sport dport id seq h1 h2 h3 h4 (by omega)]
  exact C07.sent_icmp6_wf g hm dm sip dip 128 0 _ h1 h2 h3 h4 (by simp [hello]) (by simp [hello]) hcap hmc

/-- ICMP6SendNeighborAdvertisement (the spoofing frame of C14 is this function with the router address as target) -/
theorem icmp6SendNA_wf (g : Mem) (hm dm smac sip dip tmac tip : Bytes) (sport dport tport : Nat)
    (h1 : hm.length = 6) (h2 : dm.length = 6) (h3 : sip.length = 16) (h4 : dip.length = 16)
    (h5 : tmac.length = 6) (hcap : g.length = 1522)
    (hmc : Spec.Wire.u8 dip 0 = 0xff → dm = Spec.Wire.mcastMAC6 dip) :
    ∃ f, Gen.Send.ICMP6SendNeighborAdvertisement g smac sip sport dm dip dport tmac tip tport hm = .ok f ∧
      Spec.Wire.wfICMP6 hm dm sip dip (naMarshal false false true tip tmac) f = none := by
  rw [icmp6SendNA_tie g hm dm smac sip dip tmac tip sport dport tport h1 h2 h3 h4 h5 (by omega)]
  have hl := naMarshal_length false false true tip tmac h5
  obtain ⟨rest, hr⟩ : ∃ rest, naMarshal false false true tip tmac = 136 :: 0 :: 0 :: 0 :: rest := ⟨_, rfl⟩
  rw [hr] at hl ⊢
  simp only [List.length_cons] at hl
  exact C07.sent_icmp6_wf g hm dm sip dip 136 0 rest h1 h2 h3 h4 (by omega) (by omega) hcap hmc

/-- ICMP6SendNeighbourSolicitation: source link-layer address option = the host NIC MAC -/
theorem icmp6SendNS_wf (g : Mem) (hm dm smac sip dip tip : Bytes) (sport dport : Nat)
    (h1 : hm.length = 6) (h2 : dm.length = 6) (h3 : sip.length = 16) (h4 : dip.length = 16)
    (h5 : tip.length = 16) (hcap : g.length = 1522)
    (hmc : Spec.Wire.u8 dip 0 = 0xff → dm = Spec.Wire.mcastMAC6 dip) :
    ∃ f, Gen.Send.ICMP6SendNeighbourSolicitation g smac sip sport dm dip dport tip hm = .ok f ∧
      Spec.Wire.wfICMP6 hm dm sip dip (nsMarshal tip hm) f = none := by
  rw [icmp6SendNS_tie g hm dm smac sip dip tip sport dport h1 h2 h3 h4 h5 (by omega)]
  have hl := nsMarshal_length tip hm h1
  obtain ⟨rest, hr⟩ : ∃ rest, nsMarshal tip hm = 135 :: 0 :: 0 :: 0 :: rest := ⟨_, rfl⟩
  rw [hr] at hl ⊢
  simp only [List.length_cons] at hl
  exact C07.sent_icmp6_wf g hm dm sip dip 135 0 rest h1 h2 h3 h4 (by omega) (by omega) hcap hmc

/-- non-vacuity -/
example : ∃ f, Gen.Send.ICMP6SendEchoRequest (List.replicate 1522 0x55) [] [0xfe,0x80,0,0,0,0,0,0,0,0,0,0,0,0,0,1] 0
      [0x33,0x33,0,0,0,1] [0xff,0x02,0,0,0,0,0,0,0,0,0,0,0,0,0,1] 0 7 1 [2,0,0,0,0,1] = .ok f ∧
    Spec.Wire.wfICMP6 [2,0,0,0,0,1] [0x33,0x33,0,0,0,1] [0xfe,0x80,0,0,0,0,0,0,0,0,0,0,0,0,0,1]
      [0xff,0x02,0,0,0,0,0,0,0,0,0,0,0,0,0,1] (encodeICMPEcho 128 0 7 1 hello) f = none :=
  icmp6SendEcho_wf _ _ _ _ _ _ _ _ _ _ rfl rfl rfl rfl List.length_replicate (fun _ => by decide)

end PV.Props.C07SendWf
