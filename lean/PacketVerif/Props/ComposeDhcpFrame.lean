/-
  DHCPv4 replies as FRAMES (builder D): where a reply goes.

  `ProcessPacket` (handlers/dhcp4_spoofer/dhcp4.go) answers a request with a frame whose Ethernet and IPv4
  destination are selected AFTER the reply was encoded in place over the request: every field of the DHCP message in
  the buffer is by then a field of the REPLY (ciaddr of a NAK is 0.0.0.0, the flags are cleared, …).  The property
  (C07: the frame carries the addresses requested; RFC 2131 §4.1 as the library documents it: "If IP not available,
  broadcast", else unicast to where the datagram came from) is therefore stated on the REQUEST FRAME AS RECEIVED, read
  by the independent references `Spec.Wire` (Ethernet II / IPv4 / UDP) — not on any byte of the reply:

      destination of the reply frame = (ff:ff:ff:ff:ff:ff, 255.255.255.255)   when the request's IPv4 source is 0.0.0.0
                                     = (request's Ethernet source, request's IPv4 source)   otherwise

  for EVERY request frame, server state and configuration.
-/
import PacketVerif.Lemmas.ComposeDhcpFrame
import PacketVerif.Lemmas.Checksum
namespace PV.Props.ComposeDhcpFrame
open PV PV.Model PV.Model.Dhcp4Srv PV.Model.Dhcp4Opt PV.Model.Dhcp4Frame PV.Spec PV.Spec.Wire
open PV.Props.ComposeDhcpWire PV.Lemmas.ComposeDhcpFrame

/-- **C07 / RFC 2131 §4.1, the destination rule.**  For EVERY received frame `F` that the frame reference reads as
    Ethernet II / IPv4 / UDP with payload `q.payload` (received in a buffer with `spare` behind the payload), every
    server state and configuration: each reply `ProcessPacket` sends is a frame the reference reads back as
    Ethernet II / IPv4 / UDP 67 → 68 from the host's NIC (MAC and address) carrying exactly the encoded reply, and its
    Ethernet and IPv4 destination are a function of the REQUEST's Ethernet source and IPv4 source alone: limited
    broadcast when the request had no source address, else exactly where the request came from.  No byte of the
    reply (ciaddr, flags, yiaddr, …) and no byte of the request's DHCP message enters. -/
theorem dhcp_reply_destination (cfg : Dhcp4Srv.Cfg) (s : State) (now : Nat) (F : Bytes) (q : ReqFrame) (spare : Bytes)
    (res : Result) (r : Reply) (o : Opts) (tail : List UInt8) (g : Mem) (hostMAC : Bytes)
    (hF : readReq F = some q)
    (hp : processRaw cfg s now (rxOf q (q.payload.length + spare.length)) q.payload = .ok res) (hr : r ∈ res.replies)
    (ho : parseOptions q.payload = .ok o) (ht : TailOK r tail)
    (hbuf : q.payload.length + spare.length ≤ 1480) (hg : g.length = 1522) (hh : hostMAC.length = 6) :
    ∃ msg f e ip u, replyBytes q.payload spare (optGet o 55) r tail = .ok msg ∧
      replyFrame g hostMAC cfg.host q.srcMAC (rxOf q (q.payload.length + spare.length)) r msg = .ok f ∧
      decEth f = some e ∧ e.etype = 0x0800 ∧ decIp4 e.payload = some ip ∧ ip.proto = 17 ∧ decUdp ip.payload = some u ∧
      u.sport = 67 ∧ u.dport = 68 ∧ u.payload = msg ∧
      e.src = hostMAC ∧ ip.src = ip4Bytes cfg.host ∧
      (e.dst, ip.dst) = (if q.srcIP = [0, 0, 0, 0] then (ethBroadcast, [255, 255, 255, 255]) else (q.srcMAC, q.srcIP)) := by
  obtain ⟨hm6, hi4⟩ := readReq_shape hF
  obtain ⟨msg, w, f, h1, _, _, hf, hwf, _, hd⟩ :=
    dhcp_reply_frame_wf cfg s now (rxOf q (q.payload.length + spare.length)) q.payload spare res r o tail g hostMAC q.srcMAC
      hp hr ho rfl ht hbuf hg hh hm6
  obtain ⟨e, ip, u, he, het, hes, hed, hip, hpr, his, hid, hu, hsp, hdp, hpl⟩ := wfUDP4_reads hwf
  refine ⟨msg, f, e, ip, u, h1, hf, he, het, hip, hpr, hu, hsp, hdp, hpl, hes, his, ?_⟩
  rw [hed, hid, hd]
  simp only [rxOf, ipNat_eq_zero q.srcIP hi4, ip4Bytes_ipNat q.srcIP hi4]

/-- the same, as non-interference: two requests received from the same station (Ethernet source, IPv4 source) are
    answered to the same destination — whatever their DHCP messages say (ciaddr, broadcast flag, giaddr, message type),
    whatever the server states, whatever the replies are (OFFER, ACK, NAK) -/
theorem dhcp_reply_destination_by_sender (cfg cfg' : Dhcp4Srv.Cfg) (s s' : State) (now now' : Nat) (F F' : Bytes)
    (q q' : ReqFrame) (spare spare' : Bytes) (res res' : Result) (r r' : Reply) (o o' : Opts) (tail tail' : List UInt8)
    (g g' : Mem) (hostMAC hostMAC' : Bytes)
    (hF : readReq F = some q) (hF' : readReq F' = some q')
    (hp : processRaw cfg s now (rxOf q (q.payload.length + spare.length)) q.payload = .ok res) (hr : r ∈ res.replies)
    (hp' : processRaw cfg' s' now' (rxOf q' (q'.payload.length + spare'.length)) q'.payload = .ok res') (hr' : r' ∈ res'.replies)
    (ho : parseOptions q.payload = .ok o) (ho' : parseOptions q'.payload = .ok o') (ht : TailOK r tail) (ht' : TailOK r' tail')
    (hbuf : q.payload.length + spare.length ≤ 1480) (hbuf' : q'.payload.length + spare'.length ≤ 1480)
    (hg : g.length = 1522) (hg' : g'.length = 1522) (hh : hostMAC.length = 6) (hh' : hostMAC'.length = 6)
    (hsame : q.srcMAC = q'.srcMAC ∧ q.srcIP = q'.srcIP) :
    ∃ msg msg' f f' e e' ip ip',
      replyFrame g hostMAC cfg.host q.srcMAC (rxOf q (q.payload.length + spare.length)) r msg = .ok f ∧
      replyFrame g' hostMAC' cfg'.host q'.srcMAC (rxOf q' (q'.payload.length + spare'.length)) r' msg' = .ok f' ∧
      decEth f = some e ∧ decEth f' = some e' ∧ decIp4 e.payload = some ip ∧ decIp4 e'.payload = some ip' ∧
      e.dst = e'.dst ∧ ip.dst = ip'.dst := by
  obtain ⟨msg, f, e, ip, _, _, hf, he, _, hip, _, _, _, _, _, _, _, hd⟩ :=
    dhcp_reply_destination cfg s now F q spare res r o tail g hostMAC hF hp hr ho ht hbuf hg hh
  obtain ⟨msg', f', e', ip', _, _, hf', he', _, hip', _, _, _, _, _, _, _, hd'⟩ :=
    dhcp_reply_destination cfg' s' now' F' q' spare' res' r' o' tail' g' hostMAC' hF' hp' hr' ho' ht' hbuf' hg' hh'
  refine ⟨msg, msg', f, f', e, e', ip, ip', hf, hf', he, he', hip, hip', ?_, ?_⟩
  · have := congrArg Prod.fst hd; have h' := congrArg Prod.fst hd'
    rw [hsame.1, hsame.2] at this
    exact this.trans h'.symm
  · have := congrArg Prod.snd hd; have h' := congrArg Prod.snd hd'
    rw [hsame.1, hsame.2] at this
    exact this.trans h'.symm

/-! ### non-vacuity: a renewing client is refused -/

/-- renewing REQUEST of 00:02:03:04:05:01 (broadcast flag set, ciaddr 0.0.0.3) -/
def pRenew : Bytes :=
  [1, 1, 6, 0, 0xa0, 0, 0, 1, 0, 0, 0x80, 0, 0, 0, 0, 3] ++ List.replicate 12 0 ++ [0, 2, 3, 4, 5, 1] ++ List.replicate 202 0
    ++ [99, 130, 83, 99] ++ [53, 1, 3, 255]

/-- the frame it arrives in: from 00:02:03:04:05:01 / 0.0.0.3 to the broadcast addresses, UDP 68 → 67 (header checksum
    0x79db) -/
def renewFrame : Bytes :=
  [0xff, 0xff, 0xff, 0xff, 0xff, 0xff, 0, 2, 3, 4, 5, 1, 8, 0] ++
  [0x45, 0, 1, 16, 0, 0, 0, 0, 64, 17, 0x79, 0xdb, 0, 0, 0, 3, 255, 255, 255, 255] ++ [0, 68, 0, 67, 0, 252, 0, 0] ++ pRenew

def qRenew : ReqFrame := ⟨[0, 2, 3, 4, 5, 1], [0, 0, 0, 3], 67, pRenew⟩

set_option maxRecDepth 20000 in
/-- the reference reads the frame; the empty server of `cfgEx` answers the renewal with ONE reply, a NAK whose ciaddr
    is 0.0.0.0 and whose flags are clear (the hypotheses of `dhcp_reply_destination` hold, with a reply whose own
    fields name no usable destination) -/
example : readReq renewFrame = some qRenew := by
  unfold readReq decIp4
  simp only [PV.Lemmas.fold16_eq_canon]
  decide

set_option maxRecDepth 20000 in
example :
    (match processRaw Props.C11.cfgEx (init Props.C11.cfgEx) 0 (rxOf qRenew 1472) pRenew with
     | .ok res => res.replies.map (fun r => (r.typ, r.ciaddr, r.bcast, decide (TailOK r [53, 54, 61])))
     | _ => []) = [(.nak, 0, false, true)] := by
  decide

def nakEx : Reply := { typ := .nak, yiaddr := 0, ciaddr := 0, xid := [0xa0, 0, 0, 1], chaddr := [0, 2, 3, 4, 5, 1],
                       opts := [(53, [6]), (54, [0, 0, 0, 9]), (61, [0, 2, 3, 4, 5, 1])], bcast := false }

set_option maxRecDepth 100000 in
/-- … and the NAK frame goes to 00:02:03:04:05:01 / 0.0.0.3 — where the REQUEST came from — not to its ciaddr -/
example :
    (match replyBytes pRenew (zeros 1228) none nakEx [53, 54, 61] with
     | .ok msg =>
       (match replyFrame (zeros 1522) [2, 0, 0, 0, 0, 9] 9 qRenew.srcMAC (rxOf qRenew 1472) nakEx msg with
        | .ok f => (decEth f).bind (fun e => (decIp4 e.payload).map (fun ip => (e.dst, e.src, ip.dst, ip.src, f.length)))
        | _ => none)
     | _ => none) = some ([0, 2, 3, 4, 5, 1], [2, 0, 0, 0, 0, 9], [0, 0, 0, 3], [0, 0, 0, 9], 342) := by
  unfold decIp4
  simp only [PV.Lemmas.fold16_eq_canon]
  decide
end PV.Props.ComposeDhcpFrame
