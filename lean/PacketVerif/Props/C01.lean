/-
  C01 — Parsing is total and memory-safe on arbitrary bytes.
  Property theorems only (helper lemmas: Lemmas/Views.lean, Lemmas/Parse.lean).

  `Model.parse` is a function of the bytes within the slice length only — spare capacity is not an
  input of the model (Parse never consults it: it indexes below `len` and re-slices with
  `ether[off:]`); the correspondence check validates exactly that by running the real Parse with
  poisoned spare capacity of several sizes.
-/
import PacketVerif.Lemmas.Views
import PacketVerif.Lemmas.Parse
namespace PV.Props.C01
open PV PV.Model PV.Lemmas

/-- `IsValid` of every view type returns (nil or an error) on every byte string: it never panics. -/
theorem valid_total (V : View) (hV : V ∈ allViews) (p : Bytes) : (V.valid p).safe = true :=
  view_valid_safe V hV p

/-- **Views.**  For every exported view type and every byte string: `IsValid() == nil` implies that
    every getter (regular and irregular) returns without panic and that every slice it returns
    lies inside the view. -/
theorem getters_safe (V : View) (hV : V ∈ allViews) (p : Bytes) (hv : V.valid p = .ok ()) :
    (∀ e ∈ V.fixed, ∃ v, e.2.eval p = .ok v ∧ v.inside p.length) ∧
    (∀ e ∈ V.dyn, ∃ v, e.2 p = .ok v ∧ v.inside p.length) :=
  ⟨view_fixed_safe V hV p hv, view_dyn_safe V hV p hv⟩

/-- **Parse is total.**  For every configuration and every byte string Parse returns a frame and an
    error value: no panic, no non-termination (the model is structurally recursive / loop-free). -/
theorem parse_total (cfg : Cfg) (p : Bytes) : ∃ r, parse cfg p = .ok r := by
  obtain ⟨r, hr, _⟩ := parse_spec cfg p
  exact ⟨r, hr⟩

/-- **Frame accessors.**  Whenever Parse returns a nil error, every accessor of the frame (Ether, HasIP,
    IP4, IP6, UDP, TCP, Payload) returns without panic and yields a sub-slice of the input. -/
theorem frame_accessors_safe (cfg : Cfg) (p : Bytes) (f : Frame) (h : parse cfg p = .ok ⟨f, none⟩) :
    ∀ e ∈ f.accessors p, ∃ v, e.2 = .ok v ∧ v.inside p.length := by
  obtain ⟨h4, h6, hu, ht, hp⟩ := frame_offsets_le cfg p f h
  intro e he
  simp only [Frame.accessors, List.mem_cons, List.not_mem_nil, or_false] at he
  rcases he with rfl | rfl | rfl | rfl | rfl | rfl | rfl
  · exact ⟨_, rfl, by simp only [Val.inside]; omega⟩
  · exact ⟨_, rfl, trivial⟩
  · exact frameView_inside p _ h4
  · exact frameView_inside p _ h6
  · exact frameView_inside p _ hu
  · exact frameView_inside p _ ht
  · exact frameView_inside p _ hp

/-- the addresses of a successfully parsed frame are sub-slices / copies of the right size -/
theorem frame_addrs (cfg : Cfg) (p : Bytes) (f : Frame) (h : parse cfg p = .ok ⟨f, none⟩) :
    f.srcMAC.length = 6 ∧ f.dstMAC.length = 6 ∧
    (f.srcIP.length = 0 ∨ f.srcIP.length = 4 ∨ f.srcIP.length = 16) ∧
    (f.dstIP.length = 0 ∨ f.dstIP.length = 4 ∨ f.dstIP.length = 16) := by
  have hi := parse_inv cfg p f h
  simp only [DInv, toDec] at hi
  exact ⟨hi.1, hi.2.1, hi.2.2.1, hi.2.2.2.1⟩

/- non-vacuity: a real UDP/DNS frame parses with nil error and its views are where they should be -/
set_option maxRecDepth 8000 in
example : parse ⟨[2,0,0,0,0,1], [2,0,0,0,0,0x11], [192,168,0,0], 24⟩
    ([2,0,0,0,0,1, 2,0,0,0,0,5, 8,0, 0x45,0,0,30, 0,0,0,0, 64,17,0,0, 192,168,0,5, 8,8,8,8, 0x30,0x39, 0,53, 0,10, 0,0, 1,2]) =
    .ok ⟨{ pid := 12, offIP4 := 14, offUDP := 34, offPayload := 42, srcMAC := [2,0,0,0,0,5], dstMAC := [2,0,0,0,0,1],
           srcIP := [192,168,0,5], dstIP := [8,8,8,8], srcPort := 12345, dstPort := 53,
           hostEv := some ([2,0,0,0,0,5], [192,168,0,5]) }, none⟩ := by decide

end PV.Props.C01
