/-
  C09, atomicity half: operations whose critical sections follow the *single-section* discipline (or its relaxation
  *validated re-entry*) are serializable — under ANY interleaving of ANY number of threads, at the granularity of single
  micro-steps inside the critical sections (Model/Atomic.lean).

  `disciplined_serializable` is the general statement; `single_section_serializable` and
  `reviewed_disciplines_serializable` are the two instances the tie (Props/C09AtomicTie.lean) uses;
  `mutual_exclusion` is the lock property the machine provides; `check_then_act_not_serializable` shows that the
  discipline is needed: a test in one critical section and the dependent insertion in a second one (StartHunt with a
  read-locked fast path and no re-check: two hunt loops for one MAC) reaches a state no sequential order reaches.

  Exactly what is proved (scope): every operation's sections act on the data of ONE guard each (a section body reads and
  writes the thread-local state and the data of its own guard); an operation may have sections on several guards, but
  then all but the last must be read-only.  Nested sections (a row lock taken inside the session lock) are treated as
  ONE section of the outer guard whose data includes the rows — the lock hierarchy of C09Tie makes the outer lock the
  guard of the nest; operations that WRITE under two guards in two separate sections are outside the theorem (they are
  the reviewed multi-section operations of the tie, each modelled as several steps in the step machines).
-/
import PacketVerif.Lemmas.Atomic
namespace PV.Props.C09Atomic
open PV.Model.Atomic PV.Lemmas.Atomic

section
variable {G L D : Type} [DecidableEq G]

/-- **Serializability of disciplined operations.**  Threads `i : Nat` run the programs `progs i`; every operation is
    `Disciplined`.  Then in every reachable state of the interleaved machine, the operations in the order of their
    commit points (`hist`), run one after the other from the initial store, produce exactly the current store with the
    sections in progress completed (`abs`); that order respects every thread's program order and contains, per thread,
    exactly the operations that have committed (`committed ++ pending = program`). -/
theorem disciplined_serializable (l0 : L) (st0 : Store G D) (progs : Nat → List (Op G L D))
    (hd : ∀ i, ∀ op ∈ progs i, Disciplined op) (σ : State G L D) (hr : Reach l0 (init l0 st0 progs) σ) :
    serial l0 (σ.hist.map (·.2)) st0 = abs σ ∧
    ∀ i, ((σ.hist.filter (fun e => e.1 == i)).map (·.2)) ++ pending (σ.th i) = progs i :=
  let h := inv_reach l0 st0 progs hd σ hr
  ⟨h.ser, h.order⟩

omit [DecidableEq G] in
theorem abs_quiescent (σ : State G L D) (hq : Quiescent σ) : abs σ = σ.store := by
  funext g; simp [abs, hq g]

omit [DecidableEq G] in
theorem single_disciplined (op : Op G L D) (h : SingleSection op) : Disciplined op := by
  unfold SingleSection at h
  constructor
  · intro s hs
    match hsec : op.secs, hs, h with
    | [], hs, _ => simp at hs
    | [a], hs, _ => simp at hs
    | a :: b :: r, _, h => simp at h
  · intro h2; omega

omit [DecidableEq G] in
theorem validated_disciplined (op : Op G L D) (h : ValidatedReentry op) : Disciplined op :=
  ⟨h.2.1, fun _ => h.2.2⟩

/-- **single_section_serializable.**  If every operation of every thread has at most one critical section (on whatever
    guard), then every reachable state of the interleaved machine — any number of threads, any schedule, other threads
    running micro-steps of sections on other guards in the middle of a section — is the state reached by running the
    committed operations one after the other in some order compatible with every thread's program order; and when no
    thread is inside a section that state is the store itself. -/
theorem single_section_serializable (l0 : L) (st0 : Store G D) (progs : Nat → List (Op G L D))
    (hd : ∀ i, ∀ op ∈ progs i, SingleSection op) (σ : State G L D) (hr : Reach l0 (init l0 st0 progs) σ) :
    ∃ sched : List (Nat × Op G L D),
      serial l0 (sched.map (·.2)) st0 = abs σ ∧
      (∀ i, ((sched.filter (fun e => e.1 == i)).map (·.2)) ++ pending (σ.th i) = progs i) ∧
      (Quiescent σ → serial l0 (sched.map (·.2)) st0 = σ.store) := by
  have h := disciplined_serializable l0 st0 progs (fun i op ho => single_disciplined op (hd i op ho)) σ hr
  exact ⟨σ.hist, h.1, h.2, fun hq => by rw [h.1, abs_quiescent σ hq]⟩

/-- the same for programs that mix single-section operations with validated re-entries (the reviewed relaxation) -/
theorem reviewed_disciplines_serializable (l0 : L) (st0 : Store G D) (progs : Nat → List (Op G L D))
    (hd : ∀ i, ∀ op ∈ progs i, SingleSection op ∨ ValidatedReentry op) (σ : State G L D)
    (hr : Reach l0 (init l0 st0 progs) σ) :
    ∃ sched : List (Nat × Op G L D),
      serial l0 (sched.map (·.2)) st0 = abs σ ∧
      (∀ i, ((sched.filter (fun e => e.1 == i)).map (·.2)) ++ pending (σ.th i) = progs i) ∧
      (Quiescent σ → serial l0 (sched.map (·.2)) st0 = σ.store) := by
  have h := disciplined_serializable l0 st0 progs
    (fun i op ho => (hd i op ho).elim (single_disciplined op) (validated_disciplined op)) σ hr
  exact ⟨σ.hist, h.1, h.2, fun hq => by rw [h.1, abs_quiescent σ hq]⟩

/-- the lock property of the machine: two different threads are never inside sections of the same guard -/
theorem mutual_exclusion (l0 : L) (st0 : Store G D) (progs : Nat → List (Op G L D))
    (hd : ∀ i, ∀ op ∈ progs i, Disciplined op) (σ : State G L D) (hr : Reach l0 (init l0 st0 progs) σ)
    (i j : Nat) (s s' : Sec G L D) (ms ms' : List (Micro L D))
    (hi : (σ.th i).cur = some (s, ms)) (hj : (σ.th j).cur = some (s', ms')) (hg : s.g = s'.g) : i = j := by
  have h := inv_reach l0 st0 progs hd σ hr
  have a := h.cur_own i s ms hi
  have b := h.cur_own j s' ms' hj
  rw [hg, b] at a
  exact (Option.some.inj a).symm

end

/-! ### Non-vacuity and the counter-example: StartHunt as check-then-act

Guard `()` = arpMutex, data = number of spoof loops started for one MAC, local = "was the MAC found in the hunt list". -/

/-- StartHunt as the library has it: test and insertion in ONE exclusive section -/
def startHuntAtomic : Op Unit Bool Nat :=
  { secs := [{ g := (), body := [fun x => (decide (0 < x.2), x.2), fun x => (x.1, if x.1 then x.2 else x.2 + 1)] }] }

/-- StartHunt with a read-locked fast path and no re-check under the write lock: the test in one section, the insertion
    (decided by the stale local) in a second one -/
def startHuntSplit : Op Unit Bool Nat :=
  { secs := [{ g := (), body := [fun x => (decide (0 < x.2), x.2)] },
             { g := (), body := [fun x => (x.1, if x.1 then x.2 else x.2 + 1)] }] }

/-- the repaired split: the second section re-reads the list under its own lock (validated re-entry) -/
def startHuntRecheck : Op Unit Bool Nat :=
  { secs := [{ g := (), body := [fun x => (decide (0 < x.2), x.2)] },
             { g := (), body := [fun x => (decide (0 < x.2), x.2), fun x => (x.1, if x.1 then x.2 else x.2 + 1)] }] }

example : SingleSection startHuntAtomic := by simp [SingleSection, startHuntAtomic]

/-- non-vacuity of the hypothesis of `reviewed_disciplines_serializable`: the re-checking split IS a validated re-entry -/
theorem recheck_validated : ValidatedReentry startHuntRecheck := by
  refine ⟨by simp [startHuntRecheck], ?_, ?_⟩
  · intro s hs
    simp [startHuntRecheck] at hs
    subst hs
    intro l d; simp [runMicros]
  · intro s hs
    simp [startHuntRecheck] at hs
    subst hs
    intro l l' d; simp [runMicros]

/-- the split without re-check is NOT disciplined: its last section depends on the stale local -/
theorem split_not_disciplined : ¬ Disciplined startHuntSplit := by
  intro h
  have := h.2 (by simp [startHuntSplit]) _ (by simp [startHuntSplit]; rfl) true false 0
  simp [runMicros] at this

/-- non-vacuity of the conclusion: a reachable state that is not the initial one (thread 0 inside StartHunt), to which the
    theorem applies -/
example : ∃ σ : State Unit Bool Nat,
    Reach false (init false (fun _ => 0) (fun i => if i = 0 then [startHuntAtomic] else [])) σ ∧ σ.hist.length = 1 :=
  ⟨_, Reach.step Reach.refl (Step.acqFirst _ 0 startHuntAtomic [] _ [] rfl rfl rfl rfl rfl), by simp [init]⟩

/-- every sequential order of any number of StartHunt calls (either variant) starts exactly one loop … -/
theorem serial_split_le_one (n : Nat) (st : Store Unit Nat) (h : st () ≤ 1) :
    serial false (List.replicate n startHuntSplit) st () ≤ 1 := by
  induction n generalizing st with
  | zero => simpa [serial] using h
  | succ k ih =>
    simp only [List.replicate_succ, serial]
    apply ih
    simp only [runOp, startHuntSplit, runSecs, runMicros, upd]
    by_cases h0 : 0 < st () <;> simp [h0] <;> omega

/-- … **but the interleaving "A tests, B tests, A inserts, B inserts" — each step a properly locked critical section —
    starts two** (`check_then_act_not_serializable`): the section-by-section execution of two `startHuntSplit` calls with the
    second call's test scheduled between the first call's test and insertion ends with 2 loops, a state no sequential order of
    StartHunt calls reaches. -/
theorem check_then_act_not_serializable :
    let test := fun (l : Bool) (d : Nat) => runMicros (L := Bool) (D := Nat) [fun x => (decide (0 < x.2), x.2)] (l, d)
    let ins := fun (l : Bool) (d : Nat) => runMicros (L := Bool) (D := Nat) [fun x => (x.1, if x.1 then x.2 else x.2 + 1)] (l, d)
    let a1 := test false 0          -- thread A: section 1
    let b1 := test false a1.2       -- thread B: section 1
    let a2 := ins a1.1 b1.2         -- thread A: section 2 with its stale local
    let b2 := ins b1.1 a2.2         -- thread B: section 2 with its stale local
    b2.2 = 2 ∧ ∀ n, serial false (List.replicate n startHuntSplit) (fun _ => 0) () ≠ 2 := by
  refine ⟨by decide, fun n => ?_⟩
  have := serial_split_le_one n (fun _ => 0) (by simp)
  omega

end PV.Props.C09Atomic
