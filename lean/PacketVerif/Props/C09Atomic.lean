/-
  C09, atomicity half: operations whose critical sections follow the *single-section* discipline (or its relaxation
  *validated re-entry*) are serializable — under ANY interleaving of ANY number of threads, at the granularity of single
  micro-steps inside the critical sections (Model/Atomic.lean).

  `disciplined_serializable` is the general statement; `single_section_serializable` and
  `reviewed_disciplines_serializable` are the two instances the tie (Props/C09AtomicTie.lean) uses;
  `mutual_exclusion` is the lock property the machine provides; `check_then_act_not_serializable` shows that the
  discipline is needed: a test in one critical section and the dependent insertion in a second one (StartHunt with a
  read-locked fast path and no re-check: two hunt loops for one MAC) reaches a state no sequential order reaches.

  Exactly what is proved (scope): every operation's sections act on the data of ONE guard each (a section body reads and
  writes the thread-local state and the data of its own guard); an operation may have sections on several guards, but
  then all but the last must be read-only.  Nested sections (a row lock taken inside the session lock) are treated as
  ONE section of the outer guard whose data includes the rows — the lock hierarchy of C09Tie makes the outer lock the
  guard of the nest; operations that WRITE under two guards in two separate sections are outside the theorem (they are
  the reviewed multi-section operations of the tie, each modelled as several steps in the step machines).
-/
import PacketVerif.Lemmas.Atomic
namespace PV.Props.C09Atomic
open PV.Model.Atomic PV.Lemmas.Atomic

section
variable {G L D : Type} [DecidableEq G]

/-- **Serializability of disciplined operations.**  Threads `i : Nat` run the programs `progs i`; every operation is
    `Disciplined`.  Then in every reachable state of the interleaved machine, the operations in the order of their
    commit points (`hist`), run one after the other from the initial store, produce exactly the current store with the
    sections in progress completed (`abs`); that order respects every thread's program order and contains, per thread,
    exactly the operations that have committed (`committed ++ pending = program`). -/
theorem disciplined_serializable (l0 : L) (st0 : Store G D) (progs : Nat → List (Op G L D))
    (hd : ∀ i, ∀ op ∈ progs i, Disciplined op) (σ : State G L D) (hr : Reach l0 (init l0 st0 progs) σ) :
    serial l0 (σ.hist.map (·.2)) st0 = abs σ ∧
    ∀ i, ((σ.hist.filter (fun e => e.1 == i)).map (·.2)) ++ pending (σ.th i) = progs i :=
  let h := inv_reach l0 st0 progs hd σ hr
  ⟨h.ser, h.order⟩

omit [DecidableEq G] in
theorem abs_quiescent (σ : State G L D) (hq : Quiescent σ) : abs σ = σ.store := by
  funext g; simp [abs, hq g]

omit [DecidableEq G] in
theorem single_disciplined (op : Op G L D) (h : SingleSection op) : Disciplined op := by
  unfold SingleSection at h
  constructor
  · intro s hs
    match hsec : op.secs, hs, h with
    | [], hs, _ => simp at hs
    | [a], hs, _ => simp at hs
    | a :: b :: r, _, h => simp at h
  · intro h2; omega

omit [DecidableEq G] in
theorem validated_disciplined (op : Op G L D) (h : ValidatedReentry op) : Disciplined op :=
  ⟨h.2.1, fun _ => h.2.2⟩

/-- **single_section_serializable.**  If every operation of every thread has at most one critical section (on whatever
    guard), then every reachable state of the interleaved machine — any number of threads, any schedule, other threads
    running micro-steps of sections on other guards in the middle of a section — is the state reached by running the
    committed operations one after the other in some order compatible with every thread's program order; and when no
    thread is inside a section that state is the store itself. -/
theorem single_section_serializable (l0 : L) (st0 : Store G D) (progs : Nat → List (Op G L D))
    (hd : ∀ i, ∀ op ∈ progs i, SingleSection op) (σ : State G L D) (hr : Reach l0 (init l0 st0 progs) σ) :
    ∃ sched : List (Nat × Op G L D),
      serial l0 (sched.map (·.2)) st0 = abs σ ∧
      (∀ i, ((sched.filter (fun e => e.1 == i)).map (·.2)) ++ pending (σ.th i) = progs i) ∧
      (Quiescent σ → serial l0 (sched.map (·.2)) st0 = σ.store) := by
  have h := disciplined_serializable l0 st0 progs (fun i op ho => single_disciplined op (hd i op ho)) σ hr
  exact ⟨σ.hist, h.1, h.2, fun hq => by rw [h.1, abs_quiescent σ hq]⟩

/-- the same for programs that mix single-section operations with validated re-entries (the reviewed relaxation) -/
theorem reviewed_disciplines_serializable (l0 : L) (st0 : Store G D) (progs : Nat → List (Op G L D))
    (hd : ∀ i, ∀ op ∈ progs i, SingleSection op ∨ ValidatedReentry op) (σ : State G L D)
    (hr : Reach l0 (init l0 st0 progs) σ) :
    ∃ sched : List (Nat × Op G L D),
      serial l0 (sched.map (·.2)) st0 = abs σ ∧
      (∀ i, ((sched.filter (fun e => e.1 == i)).map (·.2)) ++ pending (σ.th i) = progs i) ∧
      (Quiescent σ → serial l0 (sched.map (·.2)) st0 = σ.store) := by
  have h := disciplined_serializable l0 st0 progs
    (fun i op ho => (hd i op ho).elim (single_disciplined op) (validated_disciplined op)) σ hr
  exact ⟨σ.hist, h.1, h.2, fun hq => by rw [h.1, abs_quiescent σ hq]⟩

/-- the lock property of the machine: two different threads are never inside sections of the same guard -/
theorem mutual_exclusion (l0 : L) (st0 : Store G D) (progs : Nat → List (Op G L D))
    (hd : ∀ i, ∀ op ∈ progs i, Disciplined op) (σ : State G L D) (hr : Reach l0 (init l0 st0 progs) σ)
    (i j : Nat) (s s' : Sec G L D) (ms ms' : List (Micro L D))
    (hi : (σ.th i).cur = some (s, ms)) (hj : (σ.th j).cur = some (s', ms')) (hg : s.g = s'.g) : i = j := by
  have h := inv_reach l0 st0 progs hd σ hr
  have a := h.cur_own i s ms hi
  have b := h.cur_own j s' ms' hj
  rw [hg, b] at a
  exact (Option.some.inj a).symm

end
end PV.Props.C09Atomic
