/-
  C13 — ARP spoofing is confined to hunted hosts and undone on StopHunt.
  Property theorems over ALL traces of the ARP hunt machine (Model/ArpHunt.lean); invariants and the
  run lemmas are in Lemmas/ArpHunt.lean.

  Wall-clock part ("within one cycle"): the 6 s ticker is the nondeterministic `wake` transition; the
  theorems say "at the loop's next check", the harness measures the period.
  Assumption: writes to the connection succeed (on a write error the loop returns without restoring).
-/
import PacketVerif.Lemmas.ArpHunt
namespace PV.Props.C13
open PV PV.Model.ArpHunt PV.Lemmas.ArpHunt

/-! ### confinement -/

/-- **Forged frames go only to hosts that are in the hunt list when the frame is written.**  On every
    trace:
    * a loop writes a forged announcement (`forge i` enabled) only to its own MAC, which is in the hunt
      list at that moment (the handler is open), and for which a StartHunt was accepted;
    * an immediate forged reply (`reply m` enabled) goes only to a MAC that is in the hunt list at that
      moment;
    so a host that is not hunted never receives a forged ARP packet. -/
theorem forged_only_to_hunted (tr : List Event) (s : State) (os : List Out) (hr : run {} tr = some (s, os)) :
    (∀ i s' o, step s (.forge i) = some (s', o) →
      o = .forged (s.loops i).mac ∧ (s.loops i).mac ∈ s.hunt ∧ s.closed = false ∧ (s.loops i).mac ∈ s.started) ∧
    (∀ m s' o, step s (.reply m) = some (s', o) → o = .spoofReply m ∧ m ∈ s.hunt ∧ m ∈ s.started) := by
  have hI := inv_run inv_init hr
  constructor
  · intro i s' o hs
    simp only [step] at hs
    split at hs
    · rename_i hc; cases hs
      obtain ⟨_, hm, hcl⟩ := hI.forgeOK i hc
      exact ⟨rfl, hm, hcl, hI.huntStarted _ hm⟩
    · cases hs
  · intro m s' o hs
    simp only [step] at hs
    split at hs
    · rename_i hh; cases hs
      have hm := hI.holderRx m hh
      exact ⟨rfl, hm, hI.huntStarted m hm⟩
    · cases hs

/-- the loop reaches its forging state only through its own check, which takes the mutex and finds
    its MAC in the hunt list and the handler open -/
theorem forge_entered_only_by_hunted_check (s s' : State) (e : Event) (o : Out) (i : Nat)
    (hs : step s e = some (s', o)) (h0 : (s.loops i).pc ≠ .forge) (h1 : (s'.loops i).pc = .forge) :
    e = .check i ∧ (s.loops i).mac ∈ s.hunt ∧ s.closed = false ∧ s.holder = none ∧
      s'.holder = some (.loop i) := by
  have frame : s'.loops i = s.loops i → False := by intro h; rw [h] at h1; exact h0 h1
  have other : ∀ j pc hd, j ≠ i → s' = { setPc s j pc with holder := hd } → False := by
    intro j pc hd hj he; subst he; exact frame (setPc_other _ _ _ _ (fun h => hj h.symm))
  cases e with
  | rxOther => simp only [step] at hs; cases hs; exact (frame rfl).elim
  | rxProbe a b c d => simp only [step] at hs; split at hs <;> (cases hs; exact (frame rfl).elim)
  | rxRequest _e a b =>
    simp only [step] at hs
    split at hs
    · split at hs <;> (cases hs; exact (frame rfl).elim)
    · cases hs
  | reply a =>
    simp only [step] at hs
    split at hs
    · cases hs; exact (frame rfl).elim
    · cases hs
  | close =>
    simp only [step] at hs
    split at hs
    · cases hs; exact (frame rfl).elim
    · cases hs
  | stopHunt m _ip =>
    simp only [step] at hs
    split at hs
    · cases hs; exact (frame rfl).elim
    · cases hs
  | startHunt m v =>
    simp only [step] at hs
    split at hs
    · cases hs; exact (frame rfl).elim
    · split at hs
      · cases hs
      · split at hs
        · cases hs; exact (frame rfl).elim
        · cases hs
          by_cases hi : i = s.nloops
          · subst hi; simp at h1
          · exact (frame (by simp only [updLoop_other _ _ _ _ hi])).elim
  | check j =>
    simp only [step] at hs
    split at hs
    · rename_i hcf
      by_cases hji : j = i
      · subst hji
        split at hs
        · cases hs; simp at h1
        · rename_i hcl
          split at hs
          · rename_i hm
            cases hs
            exact ⟨rfl, hm, by simpa using hcl, hcf.2, rfl⟩
          · cases hs
            have : ((setPc s j Pc.restore).loops j).pc = .forge := h1
            simp at this
      · split at hs
        · cases hs; exact (other j _ s.holder hji rfl).elim
        · split at hs <;> (cases hs; exact (other j _ _ hji rfl).elim)
    · cases hs
  | restore j =>
    simp only [step] at hs
    split at hs
    · cases hs
      by_cases hji : j = i
      · subst hji
        have : ((setPc s j Pc.done).loops j).pc = .forge := h1
        simp at this
      · exact (other j _ _ hji rfl).elim
    · cases hs
  | forge j =>
    simp only [step] at hs
    split at hs
    · cases hs
      by_cases hji : j = i
      · subst hji
        have : ((setPc s j Pc.wait).loops j).pc = .forge := h1
        simp at this
      · exact (other j _ _ hji rfl).elim
    · cases hs
  | wake j =>
    simp only [step] at hs
    split at hs
    · cases hs
      by_cases hji : j = i
      · subst hji; simp at h1
      · exact (other j _ s.holder hji rfl).elim
    · cases hs

/-- an immediate forged reply is decided exactly when the asking MAC is in the hunt list and asks for
    the router; ProcessPacket then keeps the mutex until the reply is written -/
theorem reply_decided_iff (s : State) (esrc smac : Bytes) (toRouter : Bool) (hf : s.holder = none) :
    step s (.rxRequest esrc smac toRouter) =
      some (if smac ∈ s.hunt ∧ toRouter = true then { s with holder := some (.rx smac) } else s, .none) := by
  by_cases hc : smac ∈ s.hunt ∧ toRouter = true
  · simp [step, free, hf, hc]
  · simp [step, free, hf, hc]

/-- the immediate-reply decision is keyed on the ARP sender hardware address: the Ethernet source of
    the frame (a bridge relaying the request) plays no role – a hunted bridge relaying the request of
    a host that is not hunted gets no forged reply for it, a hunted host asking through a bridge does -/
theorem reply_keyed_on_arp_sender (s : State) (e1 e2 smac : Bytes) (toRouter : Bool) :
    step s (.rxRequest e1 smac toRouter) = step s (.rxRequest e2 smac toRouter) := rfl

/-- StopHunt is keyed on the MAC: the IP passed with it (host changed address, or shares it with
    another hunted MAC) plays no role, and no other MAC leaves the hunt list -/
theorem stopHunt_keyed_on_mac (s : State) (mac ip1 ip2 : Bytes) :
    step s (.stopHunt mac ip1) = step s (.stopHunt mac ip2) ∧
    ∀ s' o, step s (.stopHunt mac ip1) = some (s', o) → ∀ m, m ≠ mac → (m ∈ s'.hunt ↔ m ∈ s.hunt) := by
  refine ⟨rfl, ?_⟩
  intro s' o hs m hm
  simp only [step] at hs
  split at hs
  · cases hs; exact List.mem_erase_of_ne hm
  · cases hs

/-- **Probe-reject rule** of the machine: a probe event is answered with a reject reply iff its `offer`
    parameter is an address different from the probed one and its `inLan` flag is set; the hunt state is
    untouched either way.  Here `offer` and `inLan` are parameters of the abstract event.  What they ARE –
    the sender hardware address and target protocol address of a well-formed ARP probe read off the frame
    bytes by the reference reading `Spec.ArpWire`, the session's DHCP offer for that sender, and
    `HomeLAN4.Contains` of the probed address – is `ComposeArp.probe_iff` / `ComposeArp.probe_reject_frame_iff`
    (the rule on RAW frames); the content of the frames written is `C07.sent_arp_wf`. -/
theorem probe_reject_iff (s : State) (smac : Bytes) (offer : Option Bytes) (tip : Bytes) (inLan : Bool) :
    ∃ o, step s (.rxProbe smac offer tip inLan) = some (s, o) ∧
      (o = .probeReject smac tip ↔ (∃ off, offer = some off ∧ off ≠ tip) ∧ inLan = true) ∧
      (o ≠ .probeReject smac tip → o = .none) := by
  simp only [step]
  cases offer with
  | none => exact ⟨.none, by simp [probeRejects], by simp, fun _ => rfl⟩
  | some off =>
    by_cases h1 : off = tip
    · subst h1; exact ⟨.none, by simp [probeRejects], by simp, fun _ => rfl⟩
    · cases inLan with
      | false => exact ⟨.none, by simp [probeRejects], by simp, fun _ => rfl⟩
      | true => exact ⟨.probeReject smac tip, by simp [probeRejects, h1], by simp [h1], fun h => absurd rfl h⟩

/-! ### StartHunt -/

/-- StartHunt without a MAC or with a non-IPv4 address returns ErrInvalidIP and changes nothing -/
theorem startHunt_rejects_invalid (s : State) (mac : Bytes) :
    step s (.startHunt mac false) = some (s, .startErr) := by simp [step]

/-- **StartHunt is idempotent per MAC**: a second StartHunt for a hunted MAC changes nothing – no
    second list entry, no second loop -/
theorem startHunt_idempotent (s s1 : State) (mac : Bytes) (o1 : Out)
    (h1 : step s (.startHunt mac true) = some (s1, o1)) :
    step s1 (.startHunt mac true) = some (s1, .startOk) := by
  have hm : mac ∈ s1.hunt ∧ s1.holder = none := by
    simp only [step] at h1
    split at h1
    · simp_all
    · split at h1
      · cases h1
      · rename_i hf
        have hf' : s.holder = none := by simpa [free] using hf
        split at h1 <;> (cases h1; simp_all)
  simp [step, free, hm.1, hm.2]

/-- the hunt list holds every MAC at most once on every trace -/
theorem hunt_nodup (tr : List Event) (s : State) (os : List Out) (hr : run {} tr = some (s, os)) :
    s.hunt.Nodup :=
  (inv_run inv_init hr).nodup

/-- StopHunt removes the MAC -/
theorem stopHunt_removes (tr : List Event) (s s' : State) (os : List Out) (o : Out) (mac : Bytes)
    (hr : run {} tr = some (s, os)) (ip : Bytes)
    (hs : step s (.stopHunt mac ip) = some (s', o)) : mac ∉ s'.hunt := by
  have hn := (inv_run inv_init hr).nodup
  simp only [step] at hs
  split at hs
  · cases hs
    exact fun h => (List.Nodup.mem_erase_iff hn).1 h |>.1 rfl
  · cases hs

/-! ### StopHunt and Close -/

/-- **StartHunt, StopHunt and Close wait for the frame in flight**: in every reachable state in which
    a loop is between its lookup and its frame (forged announcement or restoring request) or
    ProcessPacket between its lookup and the forged reply, StopHunt, Close, a valid StartHunt, every
    loop's check and the request branch of ProcessPacket are not enabled – they take `arpMutex`,
    which that thread holds. -/
theorem calls_wait_for_frame (tr : List Event) (s : State) (os : List Out)
    (hr : run {} tr = some (s, os))
    (hp : (∃ i, (s.loops i).pc = .forge ∨ (s.loops i).pc = .restore) ∨ (∃ m, s.holder = some (.rx m))) :
    (∀ mac ip, step s (.stopHunt mac ip) = none) ∧ step s .close = none ∧
    (∀ mac, step s (.startHunt mac true) = none) ∧ (∀ j, step s (.check j) = none) ∧
    (∀ e m r, step s (.rxRequest e m r) = none) := by
  have hI := inv_run inv_init hr
  have hh : s.holder ≠ none := by
    rcases hp with ⟨i, hp | hp⟩ | ⟨m, hp⟩
    · rw [(hI.forgeOK i hp).1]; simp
    · rw [(hI.restoreOK i hp).1]; simp
    · rw [hp]; simp
  refine ⟨?_, ?_, ?_, ?_, ?_⟩
  · intro mac ip; simp [step, free, hh]
  · simp [step, free, hh]
  · intro mac; simp [step, free, hh]
  · intro j; simp [step, free, hh]
  · intro e m r; simp [step, free, hh]

/-- after an effective StopHunt of `mac`, as long as no StartHunt for `mac` is accepted, no output of
    the machine is a forged packet (announcement or immediate reply) to `mac` -/
def no_forged_after_stop_full : Prop :=
  ∀ (pre post : List Event) (mac ip : Bytes) (s : State) (os : List Out),
    run {} (pre ++ [.stopHunt mac ip] ++ post) = some (s, os) → NoRestart mac post →
    forgedCount mac (os.drop (pre.length + 1)) = 0

/-- the clause of the property: after the restoring packet for `mac` no further forged packet is
    sent to it unless it is hunted again – for whichever event of the trace wrote a restoring request
    to `mac` (any loop attacking that MAC, also a loop of an earlier hunt that survived a quick
    StopHunt / StartHunt), and "hunted again" meaning a StartHunt accepted AFTER that packet -/
def no_forged_after_restore_full : Prop :=
  ∀ (pre post : List Event) (e : Event) (mac : Bytes) (s : State) (os : List Out),
    run {} (pre ++ [e] ++ post) = some (s, os) → os[pre.length]? = some (.restoring mac) →
    NoRestart mac post → forgedCount mac (os.drop (pre.length + 1)) = 0

/-- **After StopHunt has returned no forged packet is written to that host** (until it is hunted
    again).  Every forged frame is written inside the critical section whose lookup found the MAC in
    the hunt list; StopHunt's own critical section comes after it or before it. -/
theorem no_forged_after_stop : no_forged_after_stop_full := by
  intro pre post mac ip s os hr hn
  obtain ⟨s0, s1, o, os1, os2, r1, hs, r2, hd, _⟩ := run_split pre post _ s os hr
  rw [hd]
  have hI := inv_run inv_init r1
  have hq : mac ∉ s1.hunt := stopHunt_removes pre s0 s1 os1 o mac r1 ip hs
  exact quiet_run post mac s1 s os2 (inv_step hI hs) hq hn r2

/-- **After the restoring packet no further forged packet is sent to the host unless it is hunted
    again** – on every trace and schedule of the machine, whichever loop wrote the restoring request.
    The restoring request is written inside the critical section whose lookup did not find the MAC
    in the hunt list, a forged frame inside one whose lookup found it: a StartHunt for the MAC was
    accepted in between. -/
theorem no_forged_after_restore : no_forged_after_restore_full := by
  intro pre post e mac s os hr ho hn
  obtain ⟨s0, s1, o, os1, os2, r1, hs, r2, hd, hat⟩ := run_split pre post e s os hr
  rw [hd]
  rw [hat] at ho
  cases ho
  have hI := inv_run inv_init r1
  -- only `restore i` of a loop attacking `mac` writes this output; its lookup found `mac` not hunted
  have hq : mac ∉ s1.hunt := by
    cases e with
    | restore i =>
      simp only [step] at hs
      split at hs
      · rename_i hp
        cases hs
        exact (hI.restoreOK i hp).2.1
      · cases hs
    | rxOther => simp only [step] at hs; cases hs
    | rxProbe a b c d => simp only [step] at hs; split at hs <;> cases hs
    | rxRequest _e a b =>
      simp only [step] at hs
      split at hs
      · split at hs <;> cases hs
      · cases hs
    | reply a => simp only [step] at hs; split at hs <;> cases hs
    | close => simp only [step] at hs; split at hs <;> cases hs
    | stopHunt m _ip => simp only [step] at hs; split at hs <;> cases hs
    | startHunt m v =>
      simp only [step] at hs
      split at hs
      · cases hs
      · split at hs
        · cases hs
        · split at hs <;> cases hs
    | check j =>
      simp only [step] at hs
      split at hs
      · split at hs
        · cases hs
        · split at hs <;> cases hs
      · cases hs
    | forge j => simp only [step] at hs; split at hs <;> cases hs
    | wake j => simp only [step] at hs; split at hs <;> cases hs
  exact quiet_run post mac s1 s os2 (inv_step hI hs) hq hn r2

/-- **StopHunt is undone.**  Let `s` be a reachable state in which loop `i` is alive and its MAC is not
    in the hunt list (StopHunt returned).  On every continuation without an accepted StartHunt for
    that MAC the loop writes no forged frame, at most one restoring request, and – unless the
    handler is closed – exactly one once it has finished; it finishes at its next check. -/
theorem stop_undoes (tr1 tr2 : List Event) (s s2 : State) (os1 os2 : List Out)
    (h1 : run {} tr1 = some (s, os1)) (i : Nat) (hi : i < s.nloops) (hlive : (s.loops i).pc ≠ .done)
    (hstop : (s.loops i).mac ∉ s.hunt) (hn : NoRestart (s.loops i).mac tr2)
    (h2 : run s tr2 = some (s2, os2)) :
    forgesOf i tr2 = 0 ∧ restoresOf i tr2 ≤ 1 ∧
    (s2.closed = false → restoresOf i tr2 + restoreBudget s2 i = 1) ∧
    (s2.closed = false → (s2.loops i).pc = .done → restoresOf i tr2 = 1) := by
  obtain ⟨a, b, c⟩ := stopped_run tr2 s s2 os2 i (inv_run inv_init h1) hi hstop hn h2
  have hrb : restoreBudget s i = 1 := by
    unfold restoreBudget; split
    · rename_i h; exact absurd h hlive
    · rfl
  refine ⟨a, by omega, fun hc => by rw [← hrb]; exact c hc, ?_⟩
  intro hc hd
  have := c hc
  have h0 : restoreBudget s2 i = 0 := by unfold restoreBudget; rw [hd]
  omega

/-- the stopped loop ends at its next check: with the handler open it takes the mutex for the
    restoring request, which is the only thing it can then do -/
theorem stopped_loop_restores_at_next_check (tr : List Event) (s : State) (os : List Out)
    (_hr : run {} tr = some (s, os)) (i : Nat) (hc : (s.loops i).pc = .check) (hf : s.holder = none)
    (hstop : (s.loops i).mac ∉ s.hunt) (hopen : s.closed = false) :
    ∃ s1, step s (.check i) = some (s1, .none) ∧ (s1.loops i).pc = .restore ∧
      ∃ s2, step s1 (.restore i) = some (s2, .restoring (s.loops i).mac) ∧ (s2.loops i).pc = .done := by
  obtain ⟨s1, hs1, h1, hm⟩ : ∃ s1, step s (.check i) = some (s1, .none) ∧ (s1.loops i).pc = .restore ∧
      (s1.loops i).mac = (s.loops i).mac :=
    ⟨{ setPc s i .restore with holder := some (.loop i) }, by simp [step, free, hc, hf, hstop, hopen],
      by show ((setPc s i .restore).loops i).pc = .restore; simp,
      by show ((setPc s i .restore).loops i).mac = (s.loops i).mac; simp⟩
  refine ⟨s1, hs1, h1, { setPc s1 i .done with holder := none }, ?_, ?_⟩
  · rw [← hm]; simp [step, h1]
  · show ((setPc s1 i .done).loops i).pc = .done
    simp

/-! ### liveness side: what is enabled ("periodically while hunted", "restoring packet within one cycle")

  Wall-clock time is outside the machine (the ticker is the `wake` transition, measured by the harness:
  first forged frame within the slack of StartHunt, the k-th within k cycles + slack, the restoring request
  within one cycle + slack of StopHunt).  What the machine does say is that nothing but the ticker and the
  mutex stands between a live loop and its frame: -/

/-- a hunted loop at its check with the mutex free takes it for the forged announcement, which is then
    the one thing it can do; afterwards it waits for the ticker with the mutex released -/
theorem hunted_loop_forges_at_next_check (s : State) (i : Nat) (hc : (s.loops i).pc = .check) (hf : s.holder = none)
    (hh : (s.loops i).mac ∈ s.hunt) (hopen : s.closed = false) :
    ∃ s1, step s (.check i) = some (s1, .none) ∧ (s1.loops i).pc = .forge ∧
      ∃ s2, step s1 (.forge i) = some (s2, .forged (s.loops i).mac) ∧ (s2.loops i).pc = .wait ∧ s2.holder = none := by
  obtain ⟨s1, hs1, h1, hm⟩ : ∃ s1, step s (.check i) = some (s1, .none) ∧ (s1.loops i).pc = .forge ∧
      (s1.loops i).mac = (s.loops i).mac :=
    ⟨{ setPc s i .forge with holder := some (.loop i) }, by simp [step, free, hc, hf, hh, hopen],
      by show ((setPc s i .forge).loops i).pc = .forge; simp,
      by show ((setPc s i .forge).loops i).mac = (s.loops i).mac; simp⟩
  refine ⟨s1, hs1, h1, { setPc s1 i .wait with holder := none }, ?_, ?_, rfl⟩
  · rw [← hm]; simp [step, h1]
  · show ((setPc s1 i .wait).loops i).pc = .wait
    simp

/-- **no live loop is ever stuck** in a reachable state: a waiting loop can be woken by its ticker, a loop
    at its check can run it as soon as the mutex is free, and a loop that holds the mutex can write its
    frame (which releases the mutex) – so the mutex is always released again, and every call waiting for
    it (StopHunt, Close, StartHunt, the request branch) gets its turn -/
theorem live_loop_can_step (tr : List Event) (s : State) (os : List Out) (hr : run {} tr = some (s, os)) (i : Nat) :
    ((s.loops i).pc = .wait → (step s (.wake i)).isSome) ∧
    ((s.loops i).pc = .check → s.holder = none → (step s (.check i)).isSome) ∧
    ((s.loops i).pc = .forge → ∃ s', step s (.forge i) = some (s', .forged (s.loops i).mac) ∧ s'.holder = none) ∧
    ((s.loops i).pc = .restore → ∃ s', step s (.restore i) = some (s', .restoring (s.loops i).mac) ∧ s'.holder = none) := by
  refine ⟨fun h => by simp [step, h], fun h hf => ?_,
    fun h => ⟨{ setPc s i .wait with holder := none }, by simp [step, h], rfl⟩,
    fun h => ⟨{ setPc s i .done with holder := none }, by simp [step, h], rfl⟩⟩
  simp only [step, h, free, hf, and_self, if_true]
  split
  · rfl
  · split <;> rfl

/-- whoever holds the mutex can release it by the step it is there for -/
theorem mutex_holder_can_release (tr : List Event) (s : State) (os : List Out) (hr : run {} tr = some (s, os))
    (h : Holder) (hh : s.holder = some h) : ∃ e s' o, step s e = some (s', o) ∧ s'.holder = none := by
  have hI := inv_run inv_init hr
  cases h with
  | loop i =>
    rcases hI.holderLoop i hh with hp | hp
    · exact ⟨.forge i, { setPc s i .wait with holder := none }, .forged (s.loops i).mac, by simp [step, hp], rfl⟩
    · exact ⟨.restore i, { setPc s i .done with holder := none }, .restoring (s.loops i).mac, by simp [step, hp], rfl⟩
  | rx m => exact ⟨.reply m, { s with holder := none }, .spoofReply m, by simp [step, hh], rfl⟩

/-- **Close stops all loops**: after Close no loop writes a forged announcement or a restoring
    request any more, whatever is called or received afterwards. -/
theorem close_stops_all (pre post : List Event) (s : State) (os : List Out)
    (hr : run {} (pre ++ [.close] ++ post) = some (s, os)) :
    ∀ o ∈ os.drop (pre.length + 1), loopFrame o = false := by
  obtain ⟨s0, s1, o, os1, os2, r1, hs, r2, hd, _⟩ := run_split pre post _ s os hr
  rw [hd]
  have hI := inv_run inv_init r1
  have hc : s1.closed = true := by
    simp only [step] at hs
    split at hs
    · cases hs; rfl
    · cases hs
  exact closed_run post s1 s os2 (inv_step hI hs) hc r2

/-! ### non-vacuity -/

def macA : Bytes := [2, 0xaa, 0, 0, 0, 1]
def macB : Bytes := [2, 0xaa, 0, 0, 0, 2]

/-- hunted host: forged frame each cycle; after StopHunt one restoring request, then the loop is done -/
example : (run {} [.startHunt macA true, .check 0, .forge 0, .wake 0, .stopHunt macA [], .check 0, .restore 0]).map (·.2) =
    some [.startOk, .none, .forged macA, .none, .none, .none, .restoring macA] := by decide

/-- nothing more after the restoring request -/
example : run {} [.startHunt macA true, .stopHunt macA [], .check 0, .restore 0, .wake 0] = none := by decide
example : run {} [.startHunt macA true, .stopHunt macA [], .check 0, .restore 0, .forge 0] = none := by decide

/-- `no_forged_after_restore` / `no_forged_after_stop` are not vacuous: a trace of the machine with
    forged frames (announcement and reply) before StopHunt, the restoring request after it, more
    events after that; the hypotheses hold -/
example : (run {} ([.startHunt macA true, .check 0, .forge 0, .rxRequest macA macA true, .reply macA,
      .stopHunt macA [], .wake 0, .check 0] ++ [.restore 0] ++ [.rxRequest macA macA true, .startHunt macB true, .check 1, .forge 1])).map (·.2) =
    some [.startOk, .none, .forged macA, .none, .spoofReply macA, .none, .none, .none, .restoring macA,
      .none, .startOk, .none, .forged macB] ∧
    NoRestart macA [.rxRequest macA macA true, .startHunt macB true, .check 1, .forge 1] := by
  refine ⟨by decide, ?_⟩
  intro e he
  simp at he
  rcases he with rfl | rfl | rfl | rfl <;> decide

/-- the former windows are not behaviours of the repaired code: between a lookup that found the MAC
    and the forged frame, StopHunt cannot run – neither for the loop's announcement nor for the reply -/
example : run {} [.startHunt macA true, .check 0, .stopHunt macA [], .forge 0] = none := by decide
example : run {} [.startHunt macA true, .rxRequest macA macA true, .stopHunt macA [], .reply macA] = none := by decide

/-- two loops for one MAC (StartHunt, StopHunt, StartHunt before the first loop's next check): both
    attack while the MAC is hunted; after the final StopHunt each writes its restoring request and
    neither forges after the first of them -/
example : (run {} [.startHunt macA true, .check 0, .forge 0, .stopHunt macA [], .startHunt macA true, .check 1, .forge 1,
    .wake 0, .check 0, .forge 0, .stopHunt macA [], .wake 1, .check 1, .restore 1, .wake 0, .check 0, .restore 0]).map (·.2) =
    some [.startOk, .none, .forged macA, .none, .startOk, .none, .forged macA, .none, .none, .forged macA, .none,
      .none, .none, .restoring macA, .none, .none, .restoring macA] := by decide
example : run {} [.startHunt macA true, .check 0, .forge 0, .stopHunt macA [], .startHunt macA true, .check 1, .forge 1,
    .wake 0, .check 0, .stopHunt macA [], .wake 1, .check 1, .restore 1, .forge 0] = none := by decide

/-- immediate reply only for a hunted asker -/
example : (run {} [.startHunt macA true, .rxRequest macA macA true, .reply macA, .rxRequest macB macB true]).map (·.2) =
    some [.startOk, .none, .spoofReply macA, .none] := by decide
example : run {} [.startHunt macA true, .rxRequest macB macB true, .reply macB] = none := by decide

/-- a hunted bridge (macA) relays the request of macB, which is not hunted: no reply is decided;
    hunted macA asking through the bridge macB gets its reply -/
example : run {} [.startHunt macA true, .rxRequest macA macB true, .reply macB] = none := by decide
example : (run {} [.startHunt macA true, .rxRequest macB macA true, .reply macA]).map (·.2) =
    some [.startOk, .none, .spoofReply macA] := by decide

/-- StopHunt(macB) carrying macA's address removes macB, not macA -/
example : (run {} [.startHunt macA true, .startHunt macB true, .stopHunt macB [192, 168, 0, 100]]).map
    (fun p => p.1.hunt) = some [macA] := by decide

/-- Close: no restoring request, the loop just ends -/
example : (run {} [.startHunt macA true, .close, .check 0]).map
    (fun p => (p.2, (p.1.loops 0).pc)) = some ([.startOk, .none, .none], .done) := by decide
example : run {} [.startHunt macA true, .close, .check 0, .restore 0] = none := by decide

end PV.Props.C13
