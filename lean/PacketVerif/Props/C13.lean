/-
  C13 — ARP spoofing is confined to hunted hosts and undone on StopHunt.
  Property theorems over ALL traces of the ARP hunt machine (Model/ArpHunt.lean); invariants and the
  budget lemmas are in Lemmas/ArpHunt.lean.

  Wall-clock part ("within one cycle"): the 6 s ticker is the nondeterministic `wake` transition; the
  theorems say "within the iteration the loop is in", the harness measures the period.
  Assumption: writes to the connection succeed (on a write error the loop returns without restoring).
-/
import PacketVerif.Lemmas.ArpHunt
namespace PV.Props.C13
open PV PV.Model.ArpHunt PV.Lemmas.ArpHunt

/-! ### confinement -/

/-- **Forged frames go only to hunted hosts.**  On every trace:
    * a loop writes a forged announcement (`forge i` enabled) only to its own MAC, for which a StartHunt
      was accepted;
    * an immediate forged reply (`reply m` enabled) goes only to a MAC for which a StartHunt was accepted;
    so a host that was never hunted never receives a forged ARP packet. -/
theorem forged_only_to_hunted (tr : List Event) (s : State) (os : List Out) (hr : run {} tr = some (s, os)) :
    (∀ i s' o, step s (.forge i) = some (s', o) → o = .forged (s.loops i).mac ∧ (s.loops i).mac ∈ s.started) ∧
    (∀ m s' o, step s (.reply m) = some (s', o) → o = .spoofReply m ∧ m ∈ s.started) := by
  have hI := inv_run inv_init hr
  constructor
  · intro i s' o hs
    simp only [step] at hs
    split at hs
    · rename_i hc; cases hs
      exact ⟨rfl, hI.started i (by rw [hc]; simp)⟩
    · cases hs
  · intro m s' o hs
    simp only [step] at hs
    split at hs
    · rename_i hm; cases hs; exact ⟨rfl, hI.repliesStarted m hm⟩
    · cases hs

/-- the loop reaches its forging state only through its own check finding its MAC in the hunt list
    followed by the gate finding the handler open: `gate true` is entered only by `check i` with
    `mac ∈ hunt`, `forge` only by `gate i` from `gate true` with `closed = false` -/
theorem forge_entered_only_by_hunted_check (s s' : State) (e : Event) (o : Out) (i : Nat)
    (hs : step s e = some (s', o)) :
    ((s.loops i).pc ≠ .gate true → (s'.loops i).pc = .gate true → e = .check i ∧ (s.loops i).mac ∈ s.hunt) ∧
    ((s.loops i).pc ≠ .forge → (s'.loops i).pc = .forge →
        e = .gate i ∧ (s.loops i).pc = .gate true ∧ s.closed = false) := by
  have frame : s'.loops i = s.loops i →
      ((s.loops i).pc ≠ .gate true → (s'.loops i).pc = .gate true → e = .check i ∧ (s.loops i).mac ∈ s.hunt) ∧
      ((s.loops i).pc ≠ .forge → (s'.loops i).pc = .forge →
          e = .gate i ∧ (s.loops i).pc = .gate true ∧ s.closed = false) := by
    intro h; rw [h]; exact ⟨fun a b => absurd b a, fun a b => absurd b a⟩
  have other : ∀ j pc, j ≠ i → s' = setPc s j pc → s'.loops i = s.loops i := by
    intro j pc hj he; subst he; exact setPc_other _ _ _ _ (fun h => hj h.symm)
  cases e with
  | rxOther => simp only [step] at hs; cases hs; exact frame rfl
  | rxProbe a b c d => simp only [step] at hs; split at hs <;> (cases hs; exact frame rfl)
  | rxRequest _e a b => simp only [step] at hs; split at hs <;> (cases hs; exact frame rfl)
  | reply a =>
    simp only [step] at hs
    split at hs
    · cases hs; exact frame rfl
    · cases hs
  | close => simp only [step] at hs; cases hs; exact frame rfl
  | stopHunt m _ip => simp only [step] at hs; cases hs; exact frame rfl
  | startHunt m v =>
    simp only [step] at hs
    split at hs
    · cases hs; exact frame rfl
    · split at hs
      · cases hs; exact frame rfl
      · cases hs
        by_cases hi : i = s.nloops
        · subst hi; simp
        · apply frame; simp only [updLoop_other _ _ _ _ hi]
  | check j =>
    simp only [step] at hs
    split at hs
    · rename_i hc
      cases hs
      by_cases hji : j = i
      · subst hji
        rw [setPc_same]
        refine ⟨fun _ h => ⟨rfl, ?_⟩, fun _ h => by cases h⟩
        simpa using h
      · exact frame (other j _ hji rfl)
    · cases hs
  | gate j =>
    simp only [step] at hs
    split at hs
    · rename_i b hc
      by_cases hji : j = i
      · subst hji
        split at hs
        · cases hs; simp
        · rename_i hcond
          cases hs
          rw [setPc_same]
          refine ⟨fun _ h => (by cases h), fun _ _ => ⟨rfl, ?_, ?_⟩⟩
          · cases b <;> simp_all
          · cases hcl : s.closed <;> simp_all
      · split at hs <;> (cases hs; exact frame (other j _ hji rfl))
    · cases hs
  | exitRead j =>
    simp only [step] at hs
    split at hs
    · by_cases hji : j = i
      · subst hji; split at hs <;> (cases hs; simp)
      · split at hs <;> (cases hs; exact frame (other j _ hji rfl))
    · cases hs
  | restore j =>
    simp only [step] at hs
    split at hs
    · cases hs
      by_cases hji : j = i
      · subst hji; simp
      · exact frame (other j _ hji rfl)
    · cases hs
  | forge j =>
    simp only [step] at hs
    split at hs
    · cases hs
      by_cases hji : j = i
      · subst hji; simp
      · exact frame (other j _ hji rfl)
    · cases hs
  | wake j =>
    simp only [step] at hs
    split at hs
    · cases hs
      by_cases hji : j = i
      · subst hji; simp
      · exact frame (other j _ hji rfl)
    · cases hs

/-- an immediate forged reply is decided exactly when the asking MAC is in the hunt list and asks for
    the router -/
theorem reply_decided_iff (s : State) (esrc smac : Bytes) (toRouter : Bool) :
    step s (.rxRequest esrc smac toRouter) =
      some (if smac ∈ s.hunt ∧ toRouter = true then { s with replies := smac :: s.replies } else s, .none) := by
  simp only [step]; split <;> rfl

/-- the immediate-reply decision is keyed on the ARP sender hardware address: the Ethernet source of
    the frame (a bridge relaying the request) plays no role – a hunted bridge relaying the request of
    a host that is not hunted gets no forged reply for it, a hunted host asking through a bridge does -/
theorem reply_keyed_on_arp_sender (s : State) (e1 e2 smac : Bytes) (toRouter : Bool) :
    step s (.rxRequest e1 smac toRouter) = step s (.rxRequest e2 smac toRouter) := rfl

/-- StopHunt is keyed on the MAC: the IP passed with it (host changed address, or shares it with
    another hunted MAC) plays no role, and no other MAC leaves the hunt list -/
theorem stopHunt_keyed_on_mac (s : State) (mac ip1 ip2 : Bytes) :
    step s (.stopHunt mac ip1) = step s (.stopHunt mac ip2) ∧
    ∀ s' o, step s (.stopHunt mac ip1) = some (s', o) → ∀ m, m ≠ mac → (m ∈ s'.hunt ↔ m ∈ s.hunt) := by
  refine ⟨rfl, ?_⟩
  intro s' o hs m hm
  simp only [step] at hs
  cases hs
  exact List.mem_erase_of_ne hm

/-- **Probe-reject rule**: a probe is answered with a reject reply iff the probing MAC holds an
    outstanding DHCP offer for a different address and the probed address lies in the home LAN; the
    hunt state is untouched either way. -/
theorem probe_reject_iff (s : State) (smac : Bytes) (offer : Option Bytes) (tip : Bytes) (inLan : Bool) :
    ∃ o, step s (.rxProbe smac offer tip inLan) = some (s, o) ∧
      (o = .probeReject smac tip ↔ (∃ off, offer = some off ∧ off ≠ tip) ∧ inLan = true) ∧
      (o ≠ .probeReject smac tip → o = .none) := by
  simp only [step]
  cases offer with
  | none => exact ⟨.none, by simp [probeRejects], by simp, fun _ => rfl⟩
  | some off =>
    by_cases h1 : off = tip
    · subst h1; exact ⟨.none, by simp [probeRejects], by simp, fun _ => rfl⟩
    · cases inLan with
      | false => exact ⟨.none, by simp [probeRejects], by simp, fun _ => rfl⟩
      | true => exact ⟨.probeReject smac tip, by simp [probeRejects, h1], by simp [h1], fun h => absurd rfl h⟩

/-! ### StartHunt -/

/-- StartHunt without a MAC or with a non-IPv4 address returns ErrInvalidIP and changes nothing -/
theorem startHunt_rejects_invalid (s : State) (mac : Bytes) :
    step s (.startHunt mac false) = some (s, .startErr) := by simp [step]

/-- **StartHunt is idempotent per MAC**: a second StartHunt for a hunted MAC changes nothing – no
    second list entry, no second loop -/
theorem startHunt_idempotent (s s1 : State) (mac : Bytes) (o1 : Out)
    (h1 : step s (.startHunt mac true) = some (s1, o1)) :
    step s1 (.startHunt mac true) = some (s1, .startOk) := by
  have hm : mac ∈ s1.hunt := by
    simp only [step] at h1
    split at h1
    · simp_all
    · split at h1 <;> (cases h1; simp_all)
  simp [step, hm]

/-- the hunt list holds every MAC at most once on every trace -/
theorem hunt_nodup (tr : List Event) (s : State) (os : List Out) (hr : run {} tr = some (s, os)) :
    s.hunt.Nodup :=
  (inv_run inv_init hr).nodup

/-- StopHunt removes the MAC -/
theorem stopHunt_removes (tr : List Event) (s s' : State) (os : List Out) (o : Out) (mac : Bytes)
    (hr : run {} tr = some (s, os)) (ip : Bytes)
    (hs : step s (.stopHunt mac ip) = some (s', o)) : mac ∉ s'.hunt := by
  have hn := (inv_run inv_init hr).nodup
  simp only [step] at hs
  cases hs
  exact fun h => (List.Nodup.mem_erase_iff hn).1 h |>.1 rfl

/-! ### StopHunt and Close -/

/-- **StopHunt is undone.**  Let `s` be a reachable state in which loop `i`'s MAC is not in the hunt
    list (StopHunt returned).  On every continuation without an accepted StartHunt for that MAC:
    * the loop writes at most one more forged frame – and only if it had already passed its check
      (`forgeBudget`);
    * it writes at most one restoring request, and once it has, it is finished (`restoreBudget` of a
      finished loop is 0, so nothing follows);
    * as long as the handler is not closed the count is exact: restoring requests written plus
      (1 if the loop has not finished yet) equals 1 – a loop that has finished has restored exactly once. -/
theorem stop_undoes (tr1 tr2 : List Event) (s s2 : State) (os1 os2 : List Out)
    (_h1 : run {} tr1 = some (s, os1)) (i : Nat) (hi : i < s.nloops) (hlive : (s.loops i).pc ≠ .done)
    (hstop : (s.loops i).mac ∉ s.hunt) (hn : NoRestart (s.loops i).mac tr2)
    (h2 : run s tr2 = some (s2, os2)) :
    forgesOf i tr2 ≤ forgeBudget s i ∧ forgeBudget s i ≤ 1 ∧
    restoresOf i tr2 ≤ 1 ∧
    (s2.closed = false → restoresOf i tr2 + restoreBudget s2 i = 1) ∧
    (s2.closed = false → (s2.loops i).pc = .done → restoresOf i tr2 = 1) := by
  obtain ⟨a, b, c⟩ := blocked_run tr2 s s2 os2 i hi (Or.inl hstop) hn h2
  have hrb : restoreBudget s i = 1 := by
    unfold restoreBudget; split
    · rename_i h; exact absurd h hlive
    · rfl
  have hfb : forgeBudget s i ≤ 1 := by
    unfold forgeBudget; split
    · exact Nat.le_refl _
    · split <;> omega
    · omega
  refine ⟨a, hfb, by omega, fun hc => by rw [← hrb]; exact c hc, ?_⟩
  intro hc hd
  have := c hc
  have h0 : restoreBudget s2 i = 0 := by unfold restoreBudget; rw [hd]
  omega

/-- **Close stops all loops**: once `closed` is set, every loop writes at most the forged frame it had
    already been cleared for (`forge` state), never passes its gate again, and writes no restoring
    request after it has read `closed`. -/
theorem close_stops_all (tr1 tr2 : List Event) (s s2 : State) (os1 os2 : List Out)
    (_h1 : run {} tr1 = some (s, os1)) (hc : s.closed = true) (i : Nat) (hi : i < s.nloops)
    (hn : NoRestart (s.loops i).mac tr2) (h2 : run s tr2 = some (s2, os2)) :
    forgesOf i tr2 ≤ forgeBudget s i ∧ (forgeBudget s i = 1 → (s.loops i).pc = .forge) ∧
    restoresOf i tr2 ≤ restoreBudget s i := by
  obtain ⟨a, b, _⟩ := blocked_run tr2 s s2 os2 i hi (Or.inr hc) hn h2
  refine ⟨a, ?_, by omega⟩
  intro h1
  unfold forgeBudget at h1
  split at h1
  · assumption
  · simp [hc] at h1
  · cases h1

/-! ### non-vacuity -/

def macA : Bytes := [2, 0xaa, 0, 0, 0, 1]
def macB : Bytes := [2, 0xaa, 0, 0, 0, 2]

/-- hunted host: forged frame each cycle; after StopHunt one restoring request, then the loop is done -/
example : (run {} [.startHunt macA true, .check 0, .gate 0, .forge 0, .wake 0, .stopHunt macA [], .check 0, .gate 0,
    .exitRead 0, .restore 0]).map (·.2) =
    some [.startOk, .none, .none, .forged macA, .none, .none, .none, .none, .none, .restoring macA] := by decide

/-- nothing more after the restoring request -/
example : run {} [.startHunt macA true, .stopHunt macA [], .check 0, .gate 0, .exitRead 0, .restore 0, .wake 0] = none := by
  decide
example : run {} [.startHunt macA true, .stopHunt macA [], .check 0, .gate 0, .exitRead 0, .restore 0, .forge 0] = none := by
  decide

/-- the in-flight forged frame: the loop passed check and gate before StopHunt -/
example : (run {} [.startHunt macA true, .check 0, .gate 0, .stopHunt macA [], .forge 0, .wake 0, .check 0, .gate 0,
    .exitRead 0, .restore 0]).map (·.2) =
    some [.startOk, .none, .none, .none, .forged macA, .none, .none, .none, .none, .restoring macA] := by decide

/-- immediate reply only for a hunted asker -/
example : (run {} [.startHunt macA true, .rxRequest macA macA true, .reply macA, .rxRequest macB macB true]).map (·.2) =
    some [.startOk, .none, .spoofReply macA, .none] := by decide
example : run {} [.startHunt macA true, .rxRequest macB macB true, .reply macB] = none := by decide

/-- a hunted bridge (macA) relays the request of macB, which is not hunted: no reply is decided;
    hunted macA asking through the bridge macB gets its reply -/
example : run {} [.startHunt macA true, .rxRequest macA macB true, .reply macB] = none := by decide
example : (run {} [.startHunt macA true, .rxRequest macB macA true, .reply macA]).map (·.2) =
    some [.startOk, .none, .spoofReply macA] := by decide

/-- StopHunt(macB) carrying macA's address removes macB, not macA -/
example : (run {} [.startHunt macA true, .startHunt macB true, .stopHunt macB [192, 168, 0, 100]]).map
    (fun p => p.1.hunt) = some [macA] := by decide

/-- Close: no restoring request, the loop just ends -/
example : (run {} [.startHunt macA true, .close, .check 0, .gate 0, .exitRead 0]).map
    (fun p => (p.2, (p.1.loops 0).pc)) = some ([.startOk, .none, .none, .none, .none], .done) := by decide

end PV.Props.C13
