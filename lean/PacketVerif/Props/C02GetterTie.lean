/-
  Tie B for the getter BODIES (C02, also listed for C01 and C16 whose theorems quantify over the same
  table).  `Gen.getterTerms` is regenerated from the Go source on every run (tools/goextract/getters.go):
  every view getter whose body is a single `return <expr>` over constant offsets of the receiver,
  translated into the getter language `NE`/`G` of Model/Views.lean; `Gen.getterUntranslated` lists the
  getters the translator cannot express.  The theorems below compare both lists with the hand-written
  model by plain (syntactic) equality of terms – `NE.be16`/`NE.be32` unfold to their byte compositions,
  numerals are compared as numbers – so that the C01/C02/C16 theorems, which are proved about
  `View.fixed`, are re-checked against what the getter code says now.  A changed offset, mask, shift,
  width or address length in a getter, a getter rewritten into a form the model does not describe, or a
  new/removed getter breaks one of these `decide` proofs at build time.
-/
import PacketVerif.Gen.Facts
import PacketVerif.Model.Views
import PacketVerif.Props.C01Tie
namespace PV.Props.C02GetterTie
open PV PV.Model

/-- (a) every regular getter of the model is, term for term, what the Go method body says -/
def fixedOk : Bool :=
  allViews.all fun V => V.fixed.all fun (n, g) => Gen.getterTerms.contains (V.name, n, g)

theorem fixed_getters_tie : fixedOk = true := by decide +kernel

/-- (a, converse) every Go getter body the translator can express is a regular getter of the model with
    exactly that term (no translated getter is modelled differently, e.g. as a `dyn` function) -/
def termsOk : Bool :=
  Gen.getterTerms.all fun (t, m, g) =>
    C01Tie.viewsWithoutModel.contains t || allViews.any fun V => V.name == t && V.fixed.contains (m, g)

theorem translated_getters_tie : termsOk = true := by decide +kernel

/-- a getter has one row: the comparison above cannot be satisfied by a second, different row -/
def keysNodup : Bool :=
  let ks := Gen.getterTerms.map (fun (t, m, _) => (t, m))
  ks.eraseDups.length == ks.length && allViews.all fun V => (V.getterNames.eraseDups.length == V.getterNames.length)

theorem getter_rows_unique : keysNodup = true := by decide +kernel

/-- (b) the getters the translator could not express are exactly the irregular (`dyn`) getters of the
    model plus the reviewed list `C01Tie.opaqueMethods` (option/extension parsers and the checksum, whose
    values are modelled under C08/C15): nothing is untranslated *and* unmodelled -/
def untranslatedOk : Bool :=
  Gen.getterUntranslated.all fun (t, m) =>
    C01Tie.opaqueMethods.contains (t, m) ||
    allViews.any fun V => V.name == t && (V.dyn.map (·.1)).contains m

theorem untranslated_accounted : untranslatedOk = true := by decide +kernel

/-- (b, converse) every `dyn` getter of the model is one the translator could not express (a getter that
    became a plain `return` expression must move to the `fixed` table, where (a) checks it) -/
def dynOk : Bool :=
  allViews.all fun V => V.dyn.all fun d => Gen.getterUntranslated.contains (V.name, d.1)

theorem dyn_getters_untranslated : dynOk = true := by decide +kernel

/-- terms ∪ untranslated is the method set of F3 (`Gen.viewMethods`, tied to the model by
    `C01Tie.viewMethods_tie`): the translator hid nothing -/
def partitionOk : Bool :=
  Gen.viewMethods.all fun (t, ms) =>
    ms.all (fun m => Gen.getterTerms.any (fun (t', m', _) => t' == t && m' == m) != Gen.getterUntranslated.contains (t, m)) &&
    (Gen.getterTerms.all fun (t', m', _) => t' != t || ms.contains m') &&
    (Gen.getterUntranslated.all fun (t', m') => t' != t || ms.contains m')

theorem translator_partition : partitionOk = true := by decide +kernel

end PV.Props.C02GetterTie
