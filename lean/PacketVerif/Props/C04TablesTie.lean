/-
  F14 — the host / MAC table operations of hosttable.go, mactable.go, session.go, notification.go and
  layer_frame.go, REGENERATED from the Go bodies on every run (tools/goextract/tables*.go →
  Gen/TablesGen.lean, over the run-time vocabulary of Model/TablesGo.lean), are the functions of
  Model/Tables.lean that C04 (refinement), C05 (invariant) and C06 (notifications) are proved about.
  Each `*_tie` is an equation between the regenerated function and the model function, for every
  state satisfying the C05 invariant where one is needed (`Inv` is proved for every reachable state and
  evaluated on every dumped implementation state) and every argument.
-/
import PacketVerif.Gen.TablesGen
import PacketVerif.Lemmas.TablesTieA
import PacketVerif.Lemmas.TablesTieB
import PacketVerif.Lemmas.TablesTieC
namespace PV.Props.C04TablesTie
open PV PV.Model.Tables PV.Model.TablesGo PV.Gen.Tables PV.Spec

/-- the statements the translation drops, as reviewed: lock operations (C09's business: F4/F6/F13),
    log lines, the probe goroutine of `purge` (transmits only) and the one unmodelled field -/
def reviewedIgnored : List String := [
  "Session_FindIP: lock: h.mutex.RLock()",
  "Session_FindIP: lock: defer h.mutex.RUnlock()",
  "Session_printHostTable: lock: v.Row.RLock()",
  "Session_printHostTable: log: Logger.Msg(\"host\").Struct(host).Write()",
  "Session_printHostTable: lock: v.Row.RUnlock()",
  "Session_deleteHost: lock: host.MACEntry.Row.Lock()",
  "Session_deleteHost: log: if Logger.IsDebug() { // host fields are updated under the row lock Logger.Msg(\"delete hos…",
  "Session_deleteHost: lock: host.MACEntry.Row.Unlock()",
  "Session_deleteHost: log: if Logger.IsDebug() { Logger.Msg(\"delete host IP not found\").IP(\"ip\", ip).Write() }",
  "Session_findOrCreateHostWithLock: lock: h.mutex.RLock()",
  "Session_findOrCreateHostWithLock: lock: host.MACEntry.Row.Lock()",
  "Session_findOrCreateHostWithLock: lock: host.MACEntry.Row.Unlock()",
  "Session_findOrCreateHostWithLock: lock: h.mutex.RUnlock()",
  "Session_findOrCreateHostWithLock: lock: h.mutex.RUnlock()",
  "Session_findOrCreateHostWithLock: lock: h.mutex.Lock()",
  "Session_findOrCreateHostWithLock: lock: defer h.mutex.Unlock()",
  "Session_findOrCreateHostWithLock: lock: host.MACEntry.Row.RLock()",
  "Session_findOrCreateHostWithLock: log: Logger.Msg(\"error mac address differ - duplicated IP?\").Struct(addr).Struct(host).IP(\"iplo…",
  "Session_findOrCreateHostWithLock: lock: host.MACEntry.Row.RUnlock()",
  "Session_findOrCreateHostWithLock: unmodelled field: host.HuntStage = StageNormal",
  "Session_findOrCreateHostWithLock: lock: macEntry.Row.Lock()",
  "Session_findOrCreateHostWithLock: lock: macEntry.Row.Unlock()",
  "Session_onlineTransition: log: var line *fastlog.Line",
  "Session_onlineTransition: log: if Logger.IsInfo() { line = Logger.Msg(\"IP is online\").Struct(host.Addr) }",
  "Session_onlineTransition: log: if line != nil { line.IP(\"previous\", host.MACEntry.IP4) }",
  "Session_onlineTransition: log: if Logger.IsInfo() { Logger.Msg(\"IP is offline\").Struct(v.Addr).Write() }",
  "Session_onlineTransition: log: if line != nil { line.Write() }",
  "Session_onlineTransition: log: if line != nil { line.IP(\"previous\", host.MACEntry.IP6GUA) }",
  "Session_onlineTransition: log: if line != nil { line.IP(\"previous\", host.MACEntry.IP6LLA) }",
  "Session_checkOnlineTransition: lock: host.MACEntry.Row.Lock()",
  "Session_checkOnlineTransition: lock: defer host.MACEntry.Row.Unlock()",
  "Session_sendNotification: lock: h.mutex.RLock()",
  "Session_sendNotification: lock: defer h.mutex.RUnlock()",
  "Session_sendNotification: log: Logger.Msg(\"notification channel is full\").Int(\"len\", len(h.C)).Struct(notification).Write…",
  "Session_makeOffline: log: if Logger.IsInfo() { Logger.Msg(\"IP is offline\").Struct(host.Addr).Write() }",
  "Session_makeOffline: lock: host.MACEntry.Row.Lock()",
  "Session_makeOffline: lock: host.MACEntry.Row.Unlock()",
  "Session_notify: lock: frame.Host.MACEntry.Row.RLock()",
  "Session_notify: lock: frame.Host.MACEntry.Row.RUnlock()",
  "Session_notify: lock: frame.Host.MACEntry.Row.RUnlock()",
  "Session_notify: lock: frame.Host.MACEntry.Row.Lock()",
  "Session_notify: lock: frame.Host.MACEntry.Row.Unlock()",
  "Session_GetHosts: lock: h.mutex.RLock()",
  "Session_GetHosts: lock: defer h.mutex.RUnlock()",
  "Session_purge: lock: e.MACEntry.Row.RLock()",
  "Session_purge: lock: e.MACEntry.Row.RUnlock()",
  "Session_purge: lock: e.MACEntry.Row.RUnlock()",
  "Session_purge: goroutine (transmits only): if len(probe) > 0 { go func() { for _, addr := range probe { if addr.IP.Is4() { if Logger.…",
  "Session_purge: lock: h.mutex.Lock()",
  "Session_purge: lock: h.mutex.Unlock()",
  "Session_DHCPv4IPOffer: lock: h.mutex.RLock()",
  "Session_DHCPv4IPOffer: lock: defer h.mutex.RUnlock()",
  "Session_DHCPv4IPOffer: lock: entry.Row.RLock()",
  "Session_DHCPv4IPOffer: lock: defer entry.Row.RUnlock()",
  "Host_UpdateDHCP4Name: lock: host.MACEntry.Row.Lock()",
  "Host_UpdateDHCP4Name: lock: defer host.MACEntry.Row.Unlock()",
  "Host_UpdateDHCP4Name: log: Logger.Msg(\"updated dhcpv4 name\").Struct(host.Addr).Struct(host.DHCP4Name).Write()",
  "Session_DHCPv4Update: lock: host.MACEntry.Row.Lock()",
  "Session_DHCPv4Update: lock: host.MACEntry.Row.Unlock()",
  "Session_SetDHCPv4IPOffer: lock: h.mutex.Lock()",
  "Session_SetDHCPv4IPOffer: lock: defer h.mutex.Unlock()",
  "Session_SetDHCPv4IPOffer: lock: macEntry.Row.Lock()",
  "Session_SetDHCPv4IPOffer: lock: macEntry.Row.Unlock()",
  "Session_Capture: lock: h.mutex.Lock()",
  "Session_Capture: lock: defer h.mutex.Unlock()",
  "Session_Capture: log: if Logger.IsInfo() { Logger.Msg(\"captured\").MAC(\"mac\", mac).Write() }",
  "Session_Capture: lock: macEntry.Row.Lock()",
  "Session_Capture: lock: macEntry.Row.Unlock()",
  "Session_Release: lock: h.mutex.Lock()",
  "Session_Release: lock: defer h.mutex.Unlock()",
  "Session_Release: lock: macEntry.Row.Lock()",
  "Session_Release: lock: macEntry.Row.Unlock()",
  "Session_Release: log: if Logger.IsInfo() { Logger.Msg(\"release\").MAC(\"mac\", mac).Write() }"]

def reviewedCallees : List String := [
  "CopyMAC = identity (values, not buffers)",
  "FindManufacturer = the parameter fm",
  "NameEntry.Merge = Model.Tables.NameEntry.merge",
  "bytes.Equal = == on byte lists (nil = empty)",
  "netip.Addr.Is4 = Model.Tables.IP.is4",
  "netip.Addr.IsGlobalUnicast = Model.Tables.IP.isGlobalUnicast",
  "netip.Addr.IsLinkLocalUnicast = Model.Tables.IP.isLinkLocalUnicast",
  "netip.Addr.IsUnspecified = Model.Tables.IP.isUnspecified",
  "netip.Addr.IsValid = Model.Tables.IP.isValid",
  "time.Now = the parameter tnow",
  "time.Time.Add = + on Int nanoseconds",
  "time.Time.Before = < on Int nanoseconds"]

def reviewedAssumptions : List String := [
  "Session_notify: frame.Host is not nil (dereferenced without a test; a nil pointer would panic in Go)",
  "a send on h.C in a select with default succeeds iff len(h.C) < cap(h.C); the reader is not modelled",
  "int and time.Duration arithmetic does not overflow 64 bits",
  "range over HostTable.Table visits the entries in the order of the model's list (Go: unspecified order)"]

def reviewedTranslated : List String := [
  "MACTable_findMAC",
  "MACTable_findOrCreate",
  "MACEntry_unlink",
  "MACTable_delete",
  "Session_findIP",
  "Session_FindIP",
  "Session_printHostTable",
  "Session_deleteHost",
  "Session_findOrCreateHostWithLock",
  "Session_onlineTransition",
  "Session_checkOnlineTransition",
  "toNotification",
  "Session_sendNotification",
  "Session_makeOffline",
  "Session_notify",
  "Session_GetHosts",
  "Session_purge",
  "Session_DHCPv4IPOffer",
  "Session_Notify",
  "Host_UpdateDHCP4Name",
  "Session_DHCPv4Update",
  "Session_SetDHCPv4IPOffer",
  "Session_Capture",
  "Session_Release"]

/-- nothing was refused: every listed function has a regenerated body -/
theorem tables_translated_total : tablesUntranslated = [] := by decide
theorem tables_translated_reviewed : tablesTranslated = reviewedTranslated := by decide
/-- a lock, log or goroutine statement added, removed or moved shows up here -/
theorem tables_ignored_reviewed : tablesIgnored = reviewedIgnored := by decide
theorem tables_callees_accounted : tablesCallees = reviewedCallees := by decide
theorem tables_assumptions_accounted : tablesAssumptions = reviewedAssumptions := by decide

end PV.Props.C04TablesTie
