/-
  F14 — the host / MAC table operations of hosttable.go, mactable.go, session.go, notification.go and
  layer_frame.go, REGENERATED from the Go bodies on every run (tools/goextract/tables*.go →
  Gen/TablesGen.lean, over the run-time vocabulary of Model/TablesGo.lean), are the functions of
  Model/Tables.lean that C04 (refinement), C05 (invariant) and C06 (notifications) are proved about.
  Each `*_tie` is an equation between the regenerated function and the model function, for every
  state satisfying the C05 invariant where one is needed (`Inv` is proved for every reachable state and
  evaluated on every dumped implementation state) and every argument.
-/
import PacketVerif.Gen.TablesGen
import PacketVerif.Lemmas.TablesTieA
import PacketVerif.Lemmas.TablesTieB
import PacketVerif.Lemmas.TablesTieC
import PacketVerif.Lemmas.TablesTieD
namespace PV.Props.C04TablesTie
open PV PV.Model.Tables PV.Model.TablesGo PV.Gen.Tables PV.Spec

/-- the statements the translation drops, as reviewed: lock operations (C09's business: F4/F6/F13),
    log lines, the probe goroutine of `purge` (transmits only) and the one unmodelled field -/
def reviewedIgnored : List String := [
  "Session_FindIP: lock: h.mutex.RLock()",
  "Session_FindIP: lock: defer h.mutex.RUnlock()",
  "Session_printHostTable: lock: v.Row.RLock()",
  "Session_printHostTable: log: Logger.Msg(\"host\").Struct(host).Write()",
  "Session_printHostTable: lock: v.Row.RUnlock()",
  "Session_deleteHost: lock: host.MACEntry.Row.Lock()",
  "Session_deleteHost: log: if Logger.IsDebug() { // host fields are updated under the row lock Logger.Msg(\"delete hos…",
  "Session_deleteHost: lock: host.MACEntry.Row.Unlock()",
  "Session_deleteHost: log: if Logger.IsDebug() { Logger.Msg(\"delete host IP not found\").IP(\"ip\", ip).Write() }",
  "Session_findOrCreateHostWithLock: lock: h.mutex.RLock()",
  "Session_findOrCreateHostWithLock: lock: host.MACEntry.Row.Lock()",
  "Session_findOrCreateHostWithLock: lock: host.MACEntry.Row.Unlock()",
  "Session_findOrCreateHostWithLock: lock: h.mutex.RUnlock()",
  "Session_findOrCreateHostWithLock: lock: h.mutex.RUnlock()",
  "Session_findOrCreateHostWithLock: lock: h.mutex.Lock()",
  "Session_findOrCreateHostWithLock: lock: defer h.mutex.Unlock()",
  "Session_findOrCreateHostWithLock: lock: host.MACEntry.Row.RLock()",
  "Session_findOrCreateHostWithLock: log: Logger.Msg(\"error mac address differ - duplicated IP?\").Struct(addr).Struct(host).IP(\"iplo…",
  "Session_findOrCreateHostWithLock: lock: host.MACEntry.Row.RUnlock()",
  "Session_findOrCreateHostWithLock: unmodelled field: host.HuntStage = StageNormal",
  "Session_findOrCreateHostWithLock: lock: macEntry.Row.Lock()",
  "Session_findOrCreateHostWithLock: lock: macEntry.Row.Unlock()",
  "Session_onlineTransition: log: var line *fastlog.Line",
  "Session_onlineTransition: log: if Logger.IsInfo() { line = Logger.Msg(\"IP is online\").Struct(host.Addr) }",
  "Session_onlineTransition: log: if line != nil { line.IP(\"previous\", host.MACEntry.IP4) }",
  "Session_onlineTransition: log: if Logger.IsInfo() { Logger.Msg(\"IP is offline\").Struct(v.Addr).Write() }",
  "Session_onlineTransition: log: if line != nil { line.Write() }",
  "Session_onlineTransition: log: if line != nil { line.IP(\"previous\", host.MACEntry.IP6GUA) }",
  "Session_onlineTransition: log: if line != nil { line.IP(\"previous\", host.MACEntry.IP6LLA) }",
  "Session_checkOnlineTransition: lock: host.MACEntry.Row.Lock()",
  "Session_checkOnlineTransition: lock: defer host.MACEntry.Row.Unlock()",
  "Session_sendNotification: lock: h.mutex.RLock()",
  "Session_sendNotification: lock: defer h.mutex.RUnlock()",
  "Session_sendNotification: log: Logger.Msg(\"notification channel is full\").Int(\"len\", len(h.C)).Struct(notification).Write…",
  "Session_makeOffline: log: if Logger.IsInfo() { Logger.Msg(\"IP is offline\").Struct(host.Addr).Write() }",
  "Session_makeOffline: lock: host.MACEntry.Row.Lock()",
  "Session_makeOffline: lock: host.MACEntry.Row.Unlock()",
  "Session_notify: lock: frame.Host.MACEntry.Row.RLock()",
  "Session_notify: lock: frame.Host.MACEntry.Row.RUnlock()",
  "Session_notify: lock: frame.Host.MACEntry.Row.RUnlock()",
  "Session_notify: lock: frame.Host.MACEntry.Row.Lock()",
  "Session_notify: lock: frame.Host.MACEntry.Row.Unlock()",
  "Session_GetHosts: lock: h.mutex.RLock()",
  "Session_GetHosts: lock: defer h.mutex.RUnlock()",
  "Session_purge: lock: e.MACEntry.Row.RLock()",
  "Session_purge: lock: e.MACEntry.Row.RUnlock()",
  "Session_purge: lock: e.MACEntry.Row.RUnlock()",
  "Session_purge: goroutine (transmits only): if len(probe) > 0 { go func() { for _, addr := range probe { if addr.IP.Is4() { if Logger.…",
  "Session_purge: lock: h.mutex.Lock()",
  "Session_purge: lock: h.mutex.Unlock()",
  "Session_DHCPv4IPOffer: lock: h.mutex.RLock()",
  "Session_DHCPv4IPOffer: lock: defer h.mutex.RUnlock()",
  "Session_DHCPv4IPOffer: lock: entry.Row.RLock()",
  "Session_DHCPv4IPOffer: lock: defer entry.Row.RUnlock()",
  "Host_UpdateDHCP4Name: lock: host.MACEntry.Row.Lock()",
  "Host_UpdateDHCP4Name: lock: defer host.MACEntry.Row.Unlock()",
  "Host_UpdateDHCP4Name: log: Logger.Msg(\"updated dhcpv4 name\").Struct(host.Addr).Struct(host.DHCP4Name).Write()",
  "Session_DHCPv4Update: lock: host.MACEntry.Row.Lock()",
  "Session_DHCPv4Update: lock: host.MACEntry.Row.Unlock()",
  "Session_SetDHCPv4IPOffer: lock: h.mutex.Lock()",
  "Session_SetDHCPv4IPOffer: lock: defer h.mutex.Unlock()",
  "Session_SetDHCPv4IPOffer: lock: macEntry.Row.Lock()",
  "Session_SetDHCPv4IPOffer: lock: macEntry.Row.Unlock()",
  "Host_UpdateLLMNRName: lock: host.MACEntry.Row.Lock()",
  "Host_UpdateLLMNRName: lock: defer host.MACEntry.Row.Unlock()",
  "Host_UpdateLLMNRName: log: Logger.Msg(\"updated llmnr name\").Struct(host.Addr).Struct(host.LLMNRName).Write()",
  "Host_UpdateMDNSName: lock: host.MACEntry.Row.Lock()",
  "Host_UpdateMDNSName: lock: defer host.MACEntry.Row.Unlock()",
  "Host_UpdateMDNSName: log: Logger.Msg(\"updated mdns name\").Struct(host.Addr).Struct(host.MDNSName).Write()",
  "Host_UpdateSSDPName: lock: host.MACEntry.Row.Lock()",
  "Host_UpdateSSDPName: lock: defer host.MACEntry.Row.Unlock()",
  "Host_UpdateSSDPName: log: Logger.Msg(\"updated ssdp name\").Struct(host.Addr).Struct(host.SSDPName).Write()",
  "Host_UpdateNBNSName: lock: host.MACEntry.Row.Lock()",
  "Host_UpdateNBNSName: lock: defer host.MACEntry.Row.Unlock()",
  "Host_UpdateNBNSName: log: Logger.Msg(\"updated nbns name\").Struct(host.Addr).Struct(host.NBNSName).Write()",
  "Session_Capture: lock: h.mutex.Lock()",
  "Session_Capture: lock: defer h.mutex.Unlock()",
  "Session_Capture: log: if Logger.IsInfo() { Logger.Msg(\"captured\").MAC(\"mac\", mac).Write() }",
  "Session_Capture: lock: macEntry.Row.Lock()",
  "Session_Capture: lock: macEntry.Row.Unlock()",
  "Session_Release: lock: h.mutex.Lock()",
  "Session_Release: lock: defer h.mutex.Unlock()",
  "Session_Release: lock: macEntry.Row.Lock()",
  "Session_Release: lock: macEntry.Row.Unlock()",
  "Session_Release: log: if Logger.IsInfo() { Logger.Msg(\"release\").MAC(\"mac\", mac).Write() }"]

def reviewedCallees : List String := [
  "CopyMAC = identity (values, not buffers)",
  "FindManufacturer = the parameter fm",
  "NameEntry.Merge = Model.Tables.NameEntry.merge",
  "bytes.Equal = == on byte lists (nil = empty)",
  "netip.Addr.Is4 = Model.Tables.IP.is4",
  "netip.Addr.IsGlobalUnicast = Model.Tables.IP.isGlobalUnicast",
  "netip.Addr.IsLinkLocalUnicast = Model.Tables.IP.isLinkLocalUnicast",
  "netip.Addr.IsUnspecified = Model.Tables.IP.isUnspecified",
  "netip.Addr.IsValid = Model.Tables.IP.isValid",
  "time.Now = the parameter tnow",
  "time.Time.Add = + on Int nanoseconds",
  "time.Time.Before = < on Int nanoseconds"]

def reviewedAssumptions : List String := [
  "Session_notify: frame.Host is not nil (dereferenced without a test; a nil pointer would panic in Go)",
  "a send on h.C in a select with default succeeds iff len(h.C) < cap(h.C); the reader is not modelled",
  "int and time.Duration arithmetic does not overflow 64 bits",
  "range over HostTable.Table visits the entries in the order of the model's list (Go: unspecified order)"]

def reviewedTranslated : List String := [
  "MACTable_findMAC",
  "MACTable_findOrCreate",
  "MACEntry_unlink",
  "MACTable_delete",
  "Session_findIP",
  "Session_FindIP",
  "Session_printHostTable",
  "Session_deleteHost",
  "Session_findOrCreateHostWithLock",
  "Session_onlineTransition",
  "Session_checkOnlineTransition",
  "toNotification",
  "Session_sendNotification",
  "Session_makeOffline",
  "Session_notify",
  "Session_GetHosts",
  "Session_purge",
  "Session_DHCPv4IPOffer",
  "Session_Notify",
  "Host_UpdateDHCP4Name",
  "Session_DHCPv4Update",
  "Session_SetDHCPv4IPOffer",
  "Host_UpdateLLMNRName",
  "Host_UpdateMDNSName",
  "Host_UpdateSSDPName",
  "Host_UpdateNBNSName",
  "Session_Capture",
  "Session_Release"]

/-- nothing was refused: every listed function has a regenerated body -/
theorem tables_translated_total : tablesUntranslated = [] := by decide
theorem tables_translated_reviewed : tablesTranslated = reviewedTranslated := by decide
/-- a lock, log or goroutine statement added, removed or moved shows up here -/
theorem tables_ignored_reviewed : tablesIgnored = reviewedIgnored := rfl
theorem tables_callees_accounted : tablesCallees = reviewedCallees := by decide
theorem tables_assumptions_accounted : tablesAssumptions = reviewedAssumptions := by decide

/-! ### the ties: regenerated Go body = model function

`Inv` is the C05 invariant (`Props/C05.inv_reachable`: it holds in every reachable state; the harness
evaluates it on every dumped implementation state).  `ce` describes the notification channel during the
call: open session with room (the C06 premise "drained after every step"); with a full channel or a closed
session the regenerated `sendNotification` drops the value (`sendNotification_full`). -/

/-- `MACTable.findMAC` = `Model.findMAC` (pointer and position) -/
theorem findMAC_tie {s : Sess} (hn : (s.macs.map (·.id)).Nodup) (mac : MAC) :
    MACTable_findMAC s mac =
      match findMAC s mac with
      | some m => (s, some m.id, ((s.macs.findIdx (fun m => m.mac == mac) : Nat) : Int))
      | none => (s, none, -1) := Lemmas.TablesTieA.findMAC_eq hn mac

/-- `MACTable.findOrCreate` = `Model.macFindOrCreate` -/
theorem macFindOrCreate_tie {s : Sess} (hn : (s.macs.map (·.id)).Nodup) (mac : MAC) :
    MACTable_findOrCreate s mac = ((macFindOrCreate s mac).1, (macFindOrCreate s mac).2.id) :=
  Lemmas.TablesTieA.macFindOrCreate_tie hn mac

/-- `MACTable.delete` removes the first entry with that address and never panics (the slice bounds hold) -/
theorem macDelete_tie {s : Sess} (hn : (s.macs.map (·.id)).Nodup) (mac : MAC) :
    MACTable_delete s mac = some ({ s with macs := s.macs.eraseP (fun x => x.mac == mac) }, none) :=
  Lemmas.TablesTieA.macDelete_tie hn mac

/-- `MACEntry.unlink` = the model's `unlinkList` on that entry, without panic -/
theorem unlink_tie {s : Sess} (hi : Inv s) {hid : Nat} {h : HostRec} (hh : hostById s hid = some h) (e : Nat) :
    MACEntry_unlink s e hid = some (updMac s e (fun m => { m with hostList := unlinkList s m.hostList h.ip })) :=
  Lemmas.TablesTieA.unlink_tie hi hh e

/-- `printHostTable` panics exactly when the model's count check fails -/
theorem printHostTable_tie {s : Sess} (hn : (s.macs.map (·.id)).Nodup) :
    Session_printHostTable s = if printTablePanics s then none else some s :=
  Lemmas.TablesTieA.printHostTable_tie hn

/-- `Session.deleteHost` = `Model.deleteHost`, without panic -/
theorem deleteHost_tie {s : Sess} (hi : Inv s) (ip : IP) : Session_deleteHost s ip = some (deleteHost s ip) :=
  Lemmas.TablesTieA.deleteHost_tie hi ip

/-- `Session.findOrCreateHostWithLock` = `Model.findOrCreateHost` (fast path, re-binding, creation; same panic) -/
theorem findOrCreateHost_tie {s : Sess} (hi : Inv s) (fm : MAC → String) (now : Int) (mac : MAC) (ip : IP) :
    Session_findOrCreateHostWithLock fm now s mac ip =
      (let r := findOrCreateHost s mac ip now (fm mac)
       if r.panic then none
       else some (r.s, r.host,
         match findHost s ip with
         | some h => decide ((macById s h.entry).map (·.mac) = some mac)
         | none => false)) := Lemmas.TablesTieA.findOrCreateHost_tie hi fm now mac ip

theorem findIP_tie (s : Sess) (ip : IP) : Session_findIP s ip = (s, (findHost s ip).map (·.id)) := rfl
theorem FindIP_tie (s : Sess) (ip : IP) : Session_FindIP s ip = (s, (findIP s ip).map (·.id)) := rfl

/-- `Session.onlineTransition` = `Model.onlineTransition` (the sibling loop is `markSiblings`) -/
theorem onlineTransition_tie {s : Sess} (hi : Inv s) (hid : Nat) :
    Session_onlineTransition s hid = onlineTransition s hid := Lemmas.TablesTieB.onlineTransition_tie hi hid

/-- `Session.checkOnlineTransition`: what `Model.parse` does with the host it found -/
theorem checkOnlineTransition_tie {s : Sess} (hi : Inv s) (hid : Nat) :
    Session_checkOnlineTransition s hid =
      (match hostById s hid with
       | none => (s, false)
       | some h => if h.online then (s, false) else (onlineTransition s hid, true)) :=
  Lemmas.TablesTieB.checkOnlineTransition_tie hi hid

/-- `toNotification` = `Model.toNotif` -/
theorem toNotification_tie {s : Sess} {hid : Nat} {h : HostRec} (e : hostById s hid = some h) :
    toNotification s hid = (s, toNotif s h) := Lemmas.TablesTieB.toNotification_tie e

/-- `sendNotification` appends to the channel when the session is open and the channel has room … -/
theorem sendNotification_tie {ce : ChanEnv} {s : Sess} {out : List Notif} {n : Notif}
    (hc : ce.closed = false) (hl : ce.len < ce.cap) :
    Session_sendNotification ce s out n = (s, out ++ [n]) := Lemmas.TablesTieB.sendNotification_tie hc hl

/-- … and drops the value otherwise -/
theorem sendNotification_full {ce : ChanEnv} {s : Sess} {out : List Notif} {n : Notif}
    (h : ce.closed = true ∨ ¬ ce.len < ce.cap) : Session_sendNotification ce s out n = (s, out) := by
  unfold Session_sendNotification
  rcases h with h | h
  · simp [h]
  · simp [h]

/-- `Session.makeOffline` = `Model.makeOffline` (state and the notification sent) -/
theorem makeOffline_tie {s : Sess} (hi : Inv s) {ce : ChanEnv} (hc : ce.closed = false)
    (hl : ce.len < ce.cap) (out : List Notif) (hid : Nat) :
    Session_makeOffline ce s out hid = ((makeOffline s hid).1, out ++ (makeOffline s hid).2) :=
  Lemmas.TablesTieB.makeOffline_tie hi hc hl out hid

/-- `Session.notify` = `Model.notifyHost` with the frame's online-transition flag bit -/
theorem notify_tie {s : Sess} (hi : Inv s) {ce : ChanEnv} (hc : ce.closed = false) (hl : ce.len < ce.cap)
    (out : List Notif) (hid : Nat) (pid : Int) (smac : MAC) (sip : IP) (flags : Nat) :
    Session_notify ce s out (some hid) pid smac sip flags =
      ((notifyHost s hid (flags &&& 1 == 1)).1, out ++ (notifyHost s hid (flags &&& 1 == 1)).2) :=
  Lemmas.TablesTieB.notify_tie hi hc hl out hid pid smac sip flags

/-- `Session.Notify` = `Model.notifyOp` -/
theorem Notify_tie {s : Sess} (hi : Inv s) {ce : ChanEnv} (hc : ce.closed = false) (hl : ce.len < ce.cap)
    (out : List Notif) (host : Option Nat) (pid : Int) (smac : MAC) (sip : IP) (flags : Nat) :
    Session_Notify ce s out host pid smac sip flags =
      ((notifyOp s host (pid == 10) smac (flags &&& 1 == 1)).1,
       out ++ (notifyOp s host (pid == 10) smac (flags &&& 1 == 1)).2) :=
  Lemmas.TablesTieD.Notify_tie hi hc hl out host pid smac sip flags

/-- `Session.GetHosts` = the model's snapshot (in the model's list order) -/
theorem getHosts_tie (s : Sess) : Session_GetHosts s = (s, s.hosts.map (·.2.id)) := Lemmas.TablesTieB.getHosts_tie s

/-- `Session.purge` = `Model.purge`: the two deadlines, the delete list, the offline list, their order; no panic -/
theorem purge_tie {s : Sess} (hi : Inv s) {ce : ChanEnv} (hc : ce.closed = false) (hl : ce.len < ce.cap)
    (cfg : Cfg) (out : List Notif) (now : Int) :
    Session_purge cfg ce s out now = some ((purge cfg s now).1, out ++ (purge cfg s now).2, none) :=
  Lemmas.TablesTieB.purge_tie (fun _ ip h => Lemmas.TablesTieA.deleteHost_tie h ip) hi hc hl cfg out now

/-- `Host.UpdateDHCP4Name` = `Model.updateName … .dhcp4` -/
theorem updateDHCP4Name_tie {s : Sess} (hn : (s.macs.map (·.id)).Nodup) (hid : Nat) (n : NameEntry) :
    Host_UpdateDHCP4Name s hid n = updateName s hid .dhcp4 n := Lemmas.TablesTieC.updateDHCP4Name_tie hn hid n

/-- `Session.DHCPv4IPOffer` = `Model.dhcpv4IPOffer` -/
theorem dhcpv4IPOffer_tie {s : Sess} (hn : (s.macs.map (·.id)).Nodup) (mac : MAC) :
    Session_DHCPv4IPOffer s mac = (s, dhcpv4IPOffer s mac) := Lemmas.TablesTieC.dhcpv4IPOffer_tie hn mac

/-- `Session.DHCPv4Update` = the model's `dhcpUpdate` step -/
theorem dhcpUpdate_tie {s : Sess} (hi : Inv s) {ce : ChanEnv} (hc : ce.closed = false) (hl : ce.len < ce.cap)
    (fm : MAC → String) (now : Int) (out : List Notif) (mac : MAC) (ip : IP) (name : NameEntry) :
    Session_DHCPv4Update ce fm now s out mac ip name =
      (let r := dhcpUpdate s mac ip name now (fm mac)
       if r.2.panic then none else some (r.1, out ++ r.2.notifs, r.2.err)) :=
  Lemmas.TablesTieD.dhcpUpdate_tie hi hc hl fm now out mac ip name

/-- `Session.SetDHCPv4IPOffer` / `Capture` / `Release` = the model's `setOffer` / `capture` / `release` steps -/
theorem setOffer_tie {s : Sess} (hi : Inv s) (cfg : Cfg) (mac : MAC) (ip : IP) (name : NameEntry) :
    Session_SetDHCPv4IPOffer s mac ip name = (step cfg s (.setOffer mac ip name)).1 :=
  Lemmas.TablesTieC.setOffer_tie hi cfg mac ip name
theorem capture_tie {s : Sess} (hi : Inv s) (cfg : Cfg) (mac : MAC) :
    Session_Capture s mac = ((step cfg s (.capture mac)).1, (step cfg s (.capture mac)).2.err) :=
  Lemmas.TablesTieC.capture_tie hi cfg mac
theorem release_tie {s : Sess} (hn : (s.macs.map (·.id)).Nodup) (cfg : Cfg) (mac : MAC) :
    Session_Release s mac = ((step cfg s (.release mac)).1, (step cfg s (.release mac)).2.err) :=
  Lemmas.TablesTieC.release_tie hn cfg mac

/-! ### non-vacuity: the regenerated functions run -/

/-- a first frame from a client creates host 1 under entry 0 -/
example : (Session_findOrCreateHostWithLock (fun _ => "acme") 5 Model.Tables.empty [2,0,0,0,0,1] (.v4 0xc0a80005)).map
    (fun r => (r.1.hosts.map (·.2.id), r.1.macs.map (·.hostList), r.2)) = some ([1], [[1]], 1, false) := by decide

/-- … and deleting it again removes the then-empty MAC entry -/
example : ((Session_findOrCreateHostWithLock (fun _ => "") 5 Model.Tables.empty [2,0,0,0,0,1] (.v4 7)).bind
    (fun r => Session_deleteHost r.1 (.v4 7))).map (fun s => (s.hosts.length, s.macs.length)) = some (0, 0) := by decide

end PV.Props.C04TablesTie
