/-
  C15 — Internet checksums are computed correctly.
  Property theorems only; helper lemmas live in `Lemmas/Checksum.lean`.
-/
import PacketVerif.Lemmas.Checksum
namespace PV.Props.C15
open PV PV.Model PV.Spec PV.Lemmas

/-- Nat-level reading of the two folds and the complement in `Checksum`. -/
theorem checksum_toNat (b : Bytes) (h : b.length ≤ 131072) :
    (checksum b).toNat =
      65535 - ((sumLE b / 65536 + sumLE b % 65536) + (sumLE b / 65536 + sumLE b % 65536) / 65536) % 65536 := by
  have hle := sumLE_le b
  have hb : sumLE b < 2 ^ 32 := by
    have : (b.length + 1) / 2 ≤ 65536 := by omega
    calc sumLE b ≤ 65535 * ((b.length + 1) / 2) := hle
      _ ≤ 65535 * 65536 := Nat.mul_le_mul_left _ this
      _ < 2 ^ 32 := by decide
  have hacc : (cksumAcc b 0).toNat = sumLE b := by
    rw [cksumAcc_toNat b 0 (by simpa using hb)]; simp
  unfold checksum
  simp only [UInt16.toNat_not, UInt32.toNat_toUInt16, UInt32.toNat_add, UInt32.toNat_shiftRight,
    UInt32.toNat_and, hacc]
  have e16 : (16 : UInt32).toNat % 32 = 16 := by decide
  have eff : (0xffff : UInt32).toNat = 2 ^ 16 - 1 := by decide
  rw [e16, eff, Nat.and_two_pow_sub_one_eq_mod, Nat.shiftRight_eq_div_pow, Nat.shiftRight_eq_div_pow]
  have : UInt16.size = 65536 := by decide
  rw [this]
  omega

/-- **C15 main theorem.**  For every byte string of at most 131072 bytes (the `uint32`
    accumulator cannot wrap below that; every caller in the library passes ≤ 1562 bytes)
    the library checksum is the RFC 1071 checksum in the byte order the library stores it:
    low byte of the returned value = first (high) byte of the RFC value. -/
theorem checksum_eq_rfc1071 (b : Bytes) (h : b.length ≤ 131072) :
    (checksum b).toNat = swap16 (rfc1071 b) := by
  rw [checksum_toNat b h]
  unfold rfc1071
  rw [fold16_eq_canon]
  have hle := sumLE_le b
  have hb : sumLE b < 2 ^ 32 := by
    have : (b.length + 1) / 2 ≤ 65536 := by omega
    calc sumLE b ≤ 65535 * ((b.length + 1) / 2) := hle
      _ ≤ 65535 * 65536 := Nat.mul_le_mul_left _ this
      _ < 2 ^ 32 := by decide
  rw [two_folds_eq_canon _ hb, canon_swap _ _ _ (sumBE_sumLE b) (evenSum_zero_of_sumLE_zero b)]
  exact (swap16_compl _ (canon_le _)).symm

/-- the two bytes the library stores (`p[k] = byte(cs); p[k+1] = byte(cs>>8)`) are the RFC's
    high and low checksum bytes -/
theorem stored_bytes_eq_rfc (b : Bytes) (h : b.length ≤ 131072) :
    (checksum b).toNat % 256 = rfc1071 b / 256 ∧ (checksum b).toNat / 256 = rfc1071 b % 256 := by
  rw [checksum_eq_rfc1071 b h]
  have : rfc1071 b ≤ 65535 := by unfold rfc1071; omega
  unfold swap16; omega

/-- every list of ≥ k+2 bytes splits around the checksum field at offset k -/
theorem split_at (p : Bytes) (k : Nat) (h : k + 2 ≤ p.length) :
    ∃ a x y c, a.length = k ∧ p = a ++ x :: y :: c := by
  refine ⟨p.take k, p[k]'(by omega), p[k+1]'(by omega), p.drop (k+2), by simp; omega, ?_⟩
  have h1 : p.drop k = p[k]'(by omega) :: p.drop (k+1) := List.drop_eq_getElem_cons (by omega)
  have h2 : p.drop (k+1) = p[k+1]'(by omega) :: p.drop (k+2) := List.drop_eq_getElem_cons (by omega)
  rw [← h2, ← h1, List.take_append_drop]

/-- **IPv4 header.**  For every 20-byte header, storing `CalculateChecksum()` at bytes 10..11 the
    way `SetPayload`/`AppendPayload` do yields a header whose RFC 1071 sum is all ones
    (i.e. it verifies under the independent implementation), whatever the field held before. -/
theorem ip4_header_verifies (p : Bytes) (h : p.length = 20) (cs : UInt16)
    (hcs : ip4CalculateChecksum p = .ok cs) : verifies (putChecksum p 10 cs) := by
  obtain ⟨a, x, y, c, ha, rfl⟩ := split_at p 10 (by omega)
  have hc : c.length = 8 := by simp at h; omega
  unfold ip4CalculateChecksum at hcs
  simp only [h, Nat.lt_irrefl, if_false, Outcome.ok.injEq] at hcs
  have t1 : (a ++ x :: y :: c).take 10 = a := by simp [ha]
  have t2 : ((a ++ x :: y :: c).drop 12).take 8 = c := by
    have : (a ++ x :: y :: c).drop 12 = c := by
      rw [show 12 = a.length + 2 by omega, ← List.drop_drop]; simp
    rw [this]; exact List.take_of_length_le (by omega)
  rw [t1, t2] at hcs
  have := verifies_insert a c x y cs (by omega)
    (by rw [← hcs, checksum_eq_rfc1071 _ (by simp [ha, hc]), rfc1071, sumBE_append_even _ _ (by omega)])
  rw [ha] at this; exact this

/-- **ICMPv4 / any message with a 16-bit checksum field at an even offset `k`** whose field is
    zero when the checksum is computed (what `EncodeICMPEcho` + `icmp4SendPacket` do, k = 2):
    after `SetChecksum(Checksum(msg))` the message verifies. -/
theorem zeroed_field_verifies (a c : Bytes) (ha : a.length % 2 = 0)
    (hlen : (a ++ 0 :: 0 :: c).length ≤ 131072) :
    verifies (putChecksum (a ++ 0 :: 0 :: c) a.length (checksum (a ++ 0 :: 0 :: c))) := by
  apply verifies_insert a c 0 0 _ ha
  rw [checksum_eq_rfc1071 _ hlen, rfc1071, sumBE_append_even _ _ ha]
  simp [sumBE]

theorem icmp4_verifies (t code : UInt8) (rest : Bytes) (hlen : rest.length + 4 ≤ 131072) :
    verifies (putChecksum (t :: code :: 0 :: 0 :: rest) 2 (checksum (t :: code :: 0 :: 0 :: rest))) :=
  zeroed_field_verifies [t, code] rest (by simp) (by simpa using hlen)

/-- **ICMPv6.**  `icmp6SendPacket` computes the checksum over the 40-byte pseudo header followed
    by the message (field zeroed) and stores it at message offset 2: pseudo header ++ message
    then verifies. -/
theorem icmp6_verifies (src dst : Bytes) (hs : src.length = 16) (hd : dst.length = 16)
    (t code : UInt8) (rest : Bytes) (hlen : rest.length + 44 ≤ 131072) :
    let msg := t :: code :: 0 :: 0 :: rest
    let cs := checksum (icmp6Pseudo src dst msg)
    verifies (icmp6Pseudo src dst (putChecksum msg 2 cs)) := by
  intro msg cs
  have hl : (putChecksum msg 2 cs).length = msg.length := by simp [putChecksum]
  let a : Bytes := src ++ dst ++
    [UInt8.ofNat (msg.length / 16777216), UInt8.ofNat (msg.length / 65536), UInt8.ofNat (msg.length / 256),
      UInt8.ofNat msg.length] ++ [0, 0, 0, 58] ++ [t, code]
  have ha : a.length = 42 := by simp [a, hs, hd]
  have e1 : icmp6Pseudo src dst msg = a ++ 0 :: 0 :: rest := by
    simp [icmp6Pseudo, a, msg]
  have e2 : icmp6Pseudo src dst (putChecksum msg 2 cs) = putChecksum (a ++ 0 :: 0 :: rest) a.length cs := by
    rw [putChecksum_append]
    simp [icmp6Pseudo, a, msg, putChecksum]
  rw [e2]
  have := zeroed_field_verifies a rest (by omega) (by simp [ha]; omega)
  simpa [cs, e1] using this

/-- **Split independence.**  The 1's complement sum of a concatenation is the 1's complement
    sum of the parts when the first part has even length … -/
theorem split_even (a b : Bytes) (h : a.length % 2 = 0) :
    fold16 (sumBE (a ++ b)) = fold16 (fold16 (sumBE a) + fold16 (sumBE b)) := by
  rw [sumBE_append_even _ _ h]
  simp only [fold16_eq_canon]
  generalize sumBE a = x; generalize sumBE b = y
  unfold canon
  by_cases hx : x = 0 <;> by_cases hy : y = 0 <;> simp [hx, hy] <;> omega

/-- … and when it has odd length the second part is summed as if shifted by one byte, which is
    the byte-swapped sum of RFC 1071 §2(B): an odd split never changes the result either. -/
theorem split_odd (a b : Bytes) (h : a.length % 2 = 1) :
    fold16 (sumBE (a ++ b)) = fold16 (fold16 (sumBE a) + swap16 (fold16 (sumBE b))) := by
  rw [sumBE_append_odd _ _ h]
  simp only [fold16_eq_canon]
  rw [← canon_swap (sumBE b) (sumLE b) (evenSum b) (sumBE_sumLE b) (evenSum_zero_of_sumLE_zero b)]
  generalize sumBE a = x; generalize sumLE b = y
  unfold canon
  by_cases hx : x = 0 <;> by_cases hy : y = 0 <;> simp [hx, hy] <;> omega

/-- non-vacuity: the hypotheses are met by real data (an ICMP echo header, an IPv4 header) and the
    statements compute to the expected values on them -/
example : (checksum [0x45,0x00,0x00,0x54,0x00,0x00,0x40,0x00,0x40,0x01,0xc0,0xa8,0x00,0x01,0xc0,0xa8,0x00,0xc7]).toNat
    = swap16 47248 := by decide
example : verifies [0x45,0x00,0x00,0x54,0x00,0x00,0x40,0x00,0x40,0x01,0xb8,0x90,0xc0,0xa8,0x00,0x01,0xc0,0xa8,0x00,0xc7] := by
  unfold verifies; rw [fold16_eq_canon]; decide

end PV.Props.C15
