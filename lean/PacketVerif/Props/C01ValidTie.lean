/-
  Tie B for the validity predicates (C01, C02).  `Gen/Valid.lean` is regenerated from the Go source on every
  run (tools/goextract/valid.go): the body of `IsValid()` of every view type, translated statement by statement
  into Lean (`genValid<T> : Bytes → Outcome Unit`) — guards, returned sentinel errors, `&&`/`||` with Go's
  short-circuit evaluation, getter calls replaced by the getter's own re-translated body (`NE.eval p <term>`).
  Each theorem proves the regenerated predicate EQUAL, on every byte string, to the `valid` field of the view in
  Model/Views.lean — the hypothesis `V.valid p = .ok ()` of C01's `getters_safe` / `valid_total` and of C02's
  getter-position theorems, and the predicate `Model/Parse` applies.  A dropped or weakened conjunct, a changed
  length constant or error value, or a reordered test in a Go `IsValid` makes the corresponding proof fail at
  build time.
-/
import PacketVerif.Gen.Valid
import PacketVerif.Model.Views
import PacketVerif.Lemmas.Views
import PacketVerif.Props.C01Tie
namespace PV.Props.C01ValidTie
open PV PV.Model PV.Gen.Valid

theorem idx_lt (p : Bytes) (k : Nat) (h : k < p.length) : idx p k = .ok (p[k]'h) := by
  unfold idx; simp [List.getElem?_eq_getElem h]

theorem shl8_or (a b : UInt8) : a.toNat <<< 8 ||| b.toNat = a.toNat * 256 + b.toNat :=
  Lemmas.shl_or_byte _ _ (UInt8.toNat_lt b)

theorem ite_bind {α β} (c : Prop) [Decidable c] (a b : Outcome α) (f : α → Outcome β) :
    ((if c then a else b) >>= f) = if c then a >>= f else b >>= f := by split <;> rfl

theorem bind_unit (x : Outcome Unit) : (x >>= fun _ => Outcome.ok ()) = x := by cases x <;> rfl

/-- symbolic evaluation of a regenerated predicate once the length test has made the byte reads total -/
macro "valid_exec" : tactic =>
  `(tactic| (simp (disch := omega) [*, andThen, orElse, notB, rel, opN, NE.eval, NE.be16, byteN, be16At, be16, idx_lt,
      shl8_or, lenAtLeast, ite_bind, bind_unit] <;>
    (try ((repeat' split) <;> (first | rfl | (exfalso; omega) | (simp_all; done) | (simp_all; omega))))))

/-! ### predicates that test the length only -/

macro "len_tie" : tactic => `(tactic| ((try simp only [lenAtLeast]) <;> (try (split <;> simp_all <;> (try omega)))))

theorem udp_tie (p : Bytes) : genValidUDP p = vUDP.valid p := by simp only [genValidUDP, vUDP]; len_tie
theorem icmp_tie (p : Bytes) : genValidICMP p = vICMP.valid p := by simp only [genValidICMP, vICMP]; len_tie
theorem icmpEcho_tie (p : Bytes) : genValidICMPEcho p = vICMPEcho.valid p := by simp only [genValidICMPEcho, vICMPEcho]; len_tie
theorem ra_tie (p : Bytes) : genValidICMP6RouterAdvertisement p = vRA.valid p := by
  simp only [genValidICMP6RouterAdvertisement, vRA]; len_tie
theorem na_tie (p : Bytes) : genValidICMP6NeighborAdvertisement p = vNA.valid p := by
  simp only [genValidICMP6NeighborAdvertisement, vNA]; len_tie
theorem ns_tie (p : Bytes) : genValidICMP6NeighborSolicitation p = vNS.valid p := by
  simp only [genValidICMP6NeighborSolicitation, vNS]; len_tie
theorem redirect6_tie (p : Bytes) : genValidICMP6Redirect p = vRedirect6.valid p := by
  simp only [genValidICMP6Redirect, vRedirect6]; len_tie
theorem dns_tie (p : Bytes) : genValidDNS p = vDNS.valid p := by simp only [genValidDNS, vDNS]; len_tie
theorem snap_tie (p : Bytes) : genValidSNAP p = vSNAP.valid p := by simp only [genValidSNAP, vSNAP]; len_tie
theorem rrcp_tie (p : Bytes) : genValidRRCP p = vRRCP.valid p := by simp only [genValidRRCP, vRRCP]; len_tie
theorem ieee1905_tie (p : Bytes) : genValidIEEE1905 p = vIEEE1905.valid p := by simp only [genValidIEEE1905, vIEEE1905]; len_tie
theorem lldp_tie (p : Bytes) : genValidLLDP p = vLLDP.valid p := by simp only [genValidLLDP, vLLDP]; len_tie
/-- `Unknown880a` has no getters and no view model (`C01Tie.viewsWithoutModel`): any non-empty string is valid -/
theorem unknown880a_tie (p : Bytes) : genValidUnknown880a p = lenAtLeast p 1 := by simp only [genValidUnknown880a]; len_tie

/-! ### predicates that read header fields -/

theorem ether_tie (p : Bytes) : genValidEther p = vEther.valid p := by
  simp only [genValidEther, vEther, etherValid]
  by_cases h : p.length ≥ 14
  · simp only [etherHeaderLen]; valid_exec
  · valid_exec

theorem ip4_tie (p : Bytes) : genValidIP4 p = vIP4.valid p := by
  simp only [genValidIP4, vIP4, ip4Valid, ip4IHL, ip4TotalLen]
  by_cases h : p.length ≥ 20
  · valid_exec
  · have h' : p.length < 20 := by omega
    valid_exec

theorem ip6_tie (p : Bytes) : genValidIP6 p = vIP6.valid p := by
  simp only [genValidIP6, vIP6, ip6Valid]
  by_cases h : p.length ≥ 40
  · valid_exec
  · have h' : p.length < 40 := by omega
    valid_exec

theorem tcp_tie (p : Bytes) : genValidTCP p = vTCP.valid p := by
  simp only [genValidTCP, vTCP, tcpValid, tcpHeaderLen]
  by_cases h : p.length ≥ 20
  · valid_exec
  · valid_exec

theorem arp_tie (p : Bytes) : genValidARP p = vARP.valid p := by
  simp only [genValidARP, vARP, arpValid]
  by_cases h : p.length < 28
  · simp [h]
  · valid_exec

theorem pause_tie (p : Bytes) : genValidEthernetPause p = vPause.valid p := by
  simp only [genValidEthernetPause, vPause, pauseValid]
  by_cases h : p.length < 46
  · simp [h]
  · valid_exec

theorem rs_tie (p : Bytes) : genValidICMP6RouterSolicitation p = vRS.valid p := by
  simp only [genValidICMP6RouterSolicitation, vRS, rsValid]
  by_cases h : p.length < 8
  · simp [h]
  · valid_exec

theorem redirect4_tie (p : Bytes) : genValidICMP4Redirect p = vICMP4Redirect.valid p := by
  simp only [genValidICMP4Redirect, vICMP4Redirect, redirValid]
  by_cases h : p.length < 8
  · valid_exec
  · valid_exec

theorem hopByHop_tie (p : Bytes) : genValidHopByHopExtensionHeader p = vHopByHop.valid p := by
  simp only [genValidHopByHopExtensionHeader, vHopByHop, hbhValid, hbhLen]
  by_cases h : p.length < 2
  · simp [h]
  · valid_exec

theorem llc_tie (p : Bytes) : genValidLLC p = vLLC.valid p := by
  simp only [genValidLLC, vLLC, llcValid]
  by_cases h : p.length < 3
  · simp [h]
  · cases hT : llcType p <;> valid_exec

set_option maxRecDepth 8000 in
theorem dhcp4_tie (p : Bytes) : genValidDHCP4 p = vDHCP4.valid p := by
  simp only [genValidDHCP4, vDHCP4, dhcpValid, dhcpValidateOptions]
  by_cases h : p.length < 240
  · simp [h]
  · valid_exec

/-! ### nothing hidden -/

/-- every view type of the Go package (the regenerated list `Gen.minLen` of F2) has a translated predicate,
    each tied above: none was skipped -/
theorem all_views_translated :
    Gen.Valid.validTranslated = Gen.minLen.map (·.1) ∧ Gen.Valid.validUntranslated = [] := by decide

/-- the view of the model each translated predicate was compared with (by the theorems above) is the one of
    that name: every modelled view is covered -/
theorem all_model_views_covered :
    (allViews.map (·.name)).all (fun n => Gen.Valid.validTranslated.contains n) = true := by decide

/-- the irregular methods the predicates call are represented by these model functions -/
theorem callees_accounted : Gen.Valid.validCallees =
    ["DHCP4.validateOptions = dhcpValidateOptions", "Ether.HeaderLen = etherHeaderLen", "LLC.Type = llcType"] := by decide

/-- each returned Go sentinel was rendered as the `Err` constructor that prints as exactly that Go name (the
    name the harness compares with `errors.Is`), and is a package-level error variable of package packet -/
theorem errors_accounted :
    Gen.Valid.validErrs.all (fun (g, e) => e.toString == g && Gen.Valid.errVars.contains g) = true := by decide

end PV.Props.C01ValidTie
