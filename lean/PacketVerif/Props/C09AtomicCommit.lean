/-
  C09, atomicity half, multi-section operations with a commit point (continuation of Props/C09Atomic.lean).

  `commit_point_serializable`: operations of the shape  read-only sections · ONE committing section (or nest of
  sections) · read-only sections  are serializable under ALL schedules of the section-granular machine
  (Model/AtomicCommit.lean: any number of threads, any programs; between two sections of an operation any other thread
  may run any number of its own sections), in the order of their commit points.  The commit section must re-validate
  (`LocalIndep`) only when read-only sections precede it; `writer_first_serializable` is the instance without any
  condition on the writing section: the operation's FIRST section is its only writing one (what follows — the `closed`
  test of sendNotification, look-ups for logging — only reads).

  `stale_write_after_commit_not_serializable` shows the discipline is needed on the `post` side as well: an operation
  that reads in its first section and writes what it read (+1) in a later one loses an update under the interleaving
  read_A, read_B, write_A, write_B — a reachable state of the machine that no sequential order produces.

  Scope (exactly): sections are atomic (they stand for whole critical sections or nests; Props/C09Atomic proves that
  single sections interleaved at micro-step granularity behave like atomic steps); serializability is of the SHARED
  state (what operations return to their callers is not observed); operations with two or more writing sections are
  outside (they are the residual list `multiWriter` of Props/C09AtomicCommitReview, modelled as several steps in the
  step machines).
-/
import PacketVerif.Lemmas.AtomicCommit
namespace PV.Props.C09AtomicCommit
open PV.Model.AtomicCommit PV.Lemmas.AtomicCommit

section
variable {L S : Type}

/-- **Serializability of commit-disciplined operations**, over all schedules: in every reachable state the committed
    operations (`hist`, in commit order) run one after the other from the initial state give exactly the current shared
    state, and per thread the committed operations followed by the pending ones are the thread's program. -/
theorem commit_point_serializable (l0 : L) (st0 : S) (progs : Nat → List (Op L S))
    (hd : ∀ i, ∀ op ∈ progs i, CommitDisciplined op) (σ : State L S) (hr : Reach l0 (init l0 st0 progs) σ) :
    serial l0 (σ.hist.map (·.2)) st0 = σ.store ∧
    ∀ i, ((σ.hist.filter (fun e => e.1 == i)).map (·.2)) ++ pending (σ.th i) = progs i :=
  let h := inv_reach l0 st0 progs hd σ hr
  ⟨h.ser, h.order⟩

/-- the writing section comes first and only read-only sections follow: no condition on the writing section -/
def WriterFirst (op : Op L S) : Prop := op.pre = [] ∧ ∀ s ∈ op.post, ReadOnly s

/-- every section is read-only (a query that takes several locks one after the other) -/
def AllReadOnly (op : Op L S) : Prop := (∀ s ∈ op.pre, ReadOnly s) ∧ ReadOnly op.mid ∧ ∀ s ∈ op.post, ReadOnly s

theorem writerFirst_disciplined (op : Op L S) (h : WriterFirst op) : CommitDisciplined op :=
  ⟨(by intro s hs; rw [h.1] at hs; cases hs), h.2, fun hne => absurd h.1 hne⟩

theorem readOnly_localIndep (s : Sec L S) (h : ReadOnly s) : LocalIndep s := fun l l' st => by rw [h l st, h l' st]

theorem allReadOnly_disciplined (op : Op L S) (h : AllReadOnly op) : CommitDisciplined op :=
  ⟨h.1, h.2.2, fun _ => readOnly_localIndep _ h.2.1⟩

/-- **writer_first_serializable**: programs that mix operations whose first section is the only writing one with pure
    multi-section readers are serializable under all schedules — the two shapes the tie establishes from the regenerated
    critical-section facts alone (`C09AtomicTieCommit.entry_classes_pinned`, classes `writerFirst` / `readOnly`). -/
theorem writer_first_serializable (l0 : L) (st0 : S) (progs : Nat → List (Op L S))
    (hd : ∀ i, ∀ op ∈ progs i, WriterFirst op ∨ AllReadOnly op) (σ : State L S) (hr : Reach l0 (init l0 st0 progs) σ) :
    ∃ sched : List (Nat × Op L S),
      serial l0 (sched.map (·.2)) st0 = σ.store ∧
      ∀ i, ((sched.filter (fun e => e.1 == i)).map (·.2)) ++ pending (σ.th i) = progs i :=
  ⟨σ.hist, commit_point_serializable l0 st0 progs
    (fun i op ho => (hd i op ho).elim (writerFirst_disciplined op) (allReadOnly_disciplined op)) σ hr⟩

/-- read-only operations never change the shared state, whatever the schedule -/
theorem readers_leave_state (l0 : L) (st0 : S) (progs : Nat → List (Op L S))
    (hd : ∀ i, ∀ op ∈ progs i, AllReadOnly op) (σ : State L S) (hr : Reach l0 (init l0 st0 progs) σ) : σ.store = st0 := by
  have h := (commit_point_serializable l0 st0 progs (fun i op ho => allReadOnly_disciplined op (hd i op ho)) σ hr)
  have hall : ∀ e ∈ σ.hist, AllReadOnly e.2 := by
    intro e he
    have ho := h.2 e.1
    have : e.2 ∈ progs e.1 := by
      rw [← ho]; apply List.mem_append_left
      exact List.mem_map.mpr ⟨e, List.mem_filter.mpr ⟨he, by simp⟩, rfl⟩
    exact hd e.1 e.2 this
  rw [← h.1]
  clear h hr
  generalize σ.hist = hist at hall
  induction hist generalizing st0 with
  | nil => simp [serial]
  | cons e es ih =>
    simp only [List.map_cons, serial]
    have he := hall e (List.mem_cons_self ..)
    have : runOp l0 e.2 st0 = st0 := by
      rw [runOp_commit l0 e.2 (allReadOnly_disciplined _ he) l0 (fun _ => rfl) st0, he.2.1]
    rw [this]
    exact ih st0 (fun x hx => hall x (List.mem_cons_of_mem _ hx))

end

/-! ### Non-vacuity and the counter-example

Shared state = a table as a list of keys (`List Nat`, the host index), local state = "was the key found". -/

/-- DHCPv4Update / Parse as the library has it on the session lock, in the shape the theorem wants: a read-locked look-up,
    a write-locked insertion that looks the key up again, a read-locked `closed` test afterwards -/
def insertValidated (k : Nat) : Op Bool (List Nat) :=
  { pre := [fun x => (x.2.contains k, x.2)],
    mid := fun x => (x.2.contains k, if x.2.contains k then x.2 else k :: x.2),
    post := [fun x => (x.2.isEmpty, x.2)] }

theorem insertValidated_disciplined (k : Nat) : CommitDisciplined (insertValidated k) := by
  refine ⟨?_, ?_, ?_⟩
  · intro s hs; simp [insertValidated] at hs; subst hs; intro l st; rfl
  · intro s hs; simp [insertValidated] at hs; subst hs; intro l st; rfl
  · intro _ l l' st; rfl

/-- Capture-like operation: the first section writes, a read-only section follows -/
def writeThenRead (k : Nat) : Op Bool (List Nat) :=
  { pre := [], mid := fun x => (x.1, k :: x.2), post := [fun x => (x.2.isEmpty, x.2)] }

example (k : Nat) : WriterFirst (writeThenRead k) :=
  ⟨rfl, by intro s hs; simp [writeThenRead] at hs; subst hs; intro l st; rfl⟩

/-- non-vacuity of the conclusion: a reachable state with a committed operation -/
example : ∃ σ : State Bool (List Nat),
    Reach false (init false [] (fun i => if i = 0 then [writeThenRead 7] else [])) σ ∧ σ.hist.length = 1 ∧ σ.store = [7] :=
  ⟨_, Reach.step (Reach.step Reach.refl (Step.start _ 0 (writeThenRead 7) [] rfl rfl rfl rfl)) (Step.commit _ 0 _ rfl rfl),
   by simp [init], by simp [init, setTh, writeThenRead]⟩

/-- read the counter in the first section, write (what was read) + 1 in a later one: NOT commit-disciplined -/
def incSplit : Op Nat Nat :=
  { pre := [], mid := fun x => (x.2, x.2), post := [fun x => (x.1, x.1 + 1)] }

theorem incSplit_not_disciplined : ¬ CommitDisciplined incSplit := by
  intro h
  have := h.2.1 (fun x => (x.1, x.1 + 1)) (by simp [incSplit]) 5 0
  simp at this

/-- every sequential order of two `incSplit` calls counts to 2 -/
theorem serial_incSplit_two : serial 0 [incSplit, incSplit] 0 = 2 := by decide

/-- **stale_write_after_commit_not_serializable**: the schedule read_A, read_B, write_A, write_B — six steps of the
    section-granular machine with two threads — reaches a quiescent state (both operations finished) whose shared state
    is 1, which no sequential order of the two operations produces (`serial_incSplit_two`: always 2). -/
theorem stale_write_after_commit_not_serializable :
    ∃ σ : State Nat Nat, Reach 0 (init 0 0 (fun i => if i < 2 then [incSplit] else [])) σ ∧
      σ.store = 1 ∧ σ.hist.map (·.1) = [0, 1] ∧ (∀ i, (σ.th i).post = [] ∧ (σ.th i).mid = none ∧ (σ.th i).ops = []) ∧
      serial 0 (σ.hist.map (·.2)) 0 ≠ σ.store := by
  refine ⟨_, Reach.step (Reach.step (Reach.step (Reach.step (Reach.step (Reach.step Reach.refl
    (Step.start _ 0 incSplit [] rfl rfl rfl rfl))
    (Step.start _ 1 incSplit [] rfl rfl rfl rfl))
    (Step.commit _ 0 incSplit.mid rfl rfl))
    (Step.commit _ 1 incSplit.mid rfl rfl))
    (Step.post _ 0 (fun x => (x.1, x.1 + 1)) [] rfl rfl rfl))
    (Step.post _ 1 (fun x => (x.1, x.1 + 1)) [] rfl rfl rfl), ?_, ?_, ?_, ?_⟩
  · simp [init, setTh, incSplit]
  · simp [init, setTh]
  · intro i
    by_cases h0 : i = 0
    · subst h0; simp [init, setTh]
    · by_cases h1 : i = 1
      · subst h1; simp [init, setTh]
      · have : ¬ i < 2 := by omega
        simp [init, setTh, h0, h1, this]
  · simp [init, setTh, incSplit, serial, runOp, runSecs]

end PV.Props.C09AtomicCommit
