/-
  Tie B for the commit-point discipline of Props/C09AtomicCommit.lean: every entry point of the module is classified, from
  the regenerated critical-section facts alone (Gen/AtomicFacts.lean), by the sequence of its OUTERMOST critical sections
  (a section acquired while another lock is held belongs to the nest of the section before it) and whether each nest
  writes data guarded by the lock class of one of its sections:

    * `single`      — at most one nest touches guarded data                      (Props/C09Atomic.single_section_serializable)
    * `readOnly`    — several nests, none writes guarded data                    (C09AtomicCommit.readers_leave_state)
    * `writerFirst` — exactly one writing nest and it is the first one           (C09AtomicCommit.writer_first_serializable)
    * `validated`   — exactly one writing nest, after read-only ones: serializable IF the writing nest re-validates what
                      the earlier ones read (`LocalIndep`) — dataflow, not visible in the shapes: stays a reviewed argument
    * `multiWriter` — two or more writing nests (or one inside a loop of its function): outside the theorems; these are
                      the operations the step machines model as several steps (`C09AtomicTie.model_steps_atomic`)

  This module has definitions only (so that it builds when the tie is broken and `./check` can print `classDiff`);
  the theorems are in Props/C09AtomicTieCommit.lean.
-/
import PacketVerif.Props.C09AtomicReview
namespace PV.Props.C09AtomicCommitReview
open PV PV.Props.C09AtomicReview

/-- the section writes data guarded by its own lock class -/
def writesOwn (s : SecRow) : Bool := !(ownIds s.1 s.2.2.2.2.2.1).isEmpty

/-- acquired while another lock of the module is held -/
def nested (s : SecRow) : Bool := !s.2.2.2.1.isEmpty

/-- a nest of critical sections: (touches guarded data, writes guarded data, its outermost section is inside a loop) -/
abbrev Nest := Bool × Bool × Bool

def addSec (acc : List Nest) (s : SecRow) : List Nest :=
  if nested s then
    match acc.reverse with
    | [] => [(touches s, writesOwn s, false)]
    | g :: rest => (rest.reverse ++ [(g.1 || touches s, g.2.1 || writesOwn s, g.2.2)])
  else acc ++ [(touches s, writesOwn s, s.2.2.1)]

/-- the nests of an entry point in execution order (callees expanded in place), those that touch no guarded data dropped -/
def nests (items : List (Nat × Nat × Nat)) : List Nest :=
  (items.foldl (fun acc it => if it.1 == 0 then
      match secOf it.2.1 it.2.2 with
      | some s => addSec acc s
      | none => acc
    else acc) []).filter (·.1)

/-- number of writing nests, one inside a loop counted twice -/
def writers (ns : List Nest) : Nat := (ns.map fun n => if n.2.1 then (if n.2.2 then 2 else 1) else 0).sum

/-- 0 single | 1 readOnly | 2 writerFirst | 3 validated | 4 multiWriter -/
def classOf (ns : List Nest) : Nat :=
  if ns.length ≤ 1 then (if writers ns ≤ 1 then 0 else 4)
  else if writers ns == 0 then 1
  else if writers ns == 1 then (if (ns.head?.map (·.2.1)) == some true then 2 else 3)
  else 4

def className : Nat → String
  | 0 => "single" | 1 => "readOnly" | 2 => "writerFirst" | 3 => "validated" | _ => "multiWriter"

/-- the class of every entry point that is not `single` -/
def entryClasses : List (String × String) :=
  Gen.Atomic.entryShapes.filterMap fun (e : EntryRow) =>
    let c := classOf (nests e.2.2.2)
    if c == 0 then none else some (e.2.1, className c)

/-! ### per (entry point, guard): the projection of the same classification on ONE lock class — the granularity of
`C09AtomicReview.multi` / `reviewed` -/

/-- sections of one class as nests (no nesting inside one class) -/
def projNests (l : List (Nat × Nat)) : List Nest :=
  l.filterMap fun p => (secOf p.1 p.2).map fun s => (true, writesOwn s, s.2.2.1)

/-- the class of every multi-section (entry point, guard) pair, in the order of `C09AtomicReview.multi` -/
def pairClasses : List (String × String × String) :=
  Gen.Atomic.entryShapes.flatMap fun (e : EntryRow) =>
    (perClass (touching e.2.2.2)).zipIdx.filterMap fun (lc : List (Nat × Nat) × Nat) =>
      if lc.1.length ≥ 2 then some (e.2.1, clsName lc.2, className (classOf (projNests lc.1))) else none

/-- pinned: the class of every entry point that is not `single` (all 66 entry points: 48 single, 3 readOnly, 15 multiWriter) -/
def pinnedEntryClasses : List (String × String) :=
[("arp_spoofer.Handler.ProcessPacket", "readOnly"),
 ("arp_spoofer.Handler.WhoIs", "readOnly"),
 ("dhcp4_spoofer.Handler.ProcessPacket", "multiWriter"),
 ("dns_naming.DNSHandler.ProcessMDNS", "multiWriter"),
 ("dns_naming.DNSHandler.ProcessSSDP", "multiWriter"),
 ("dns_naming.DNSHandler.UPNPServiceDiscovery", "multiWriter"),
 ("icmp_spoofer.Handler6.PrintTable", "readOnly"),
 ("icmp_spoofer.Handler6.ProcessPacket", "multiWriter"),
 ("icmp_spoofer.Handler6.spoofLoop", "multiWriter"),
 ("packet.Config.NewSession", "multiWriter"),
 ("packet.NewSession", "multiWriter"),
 ("packet.Session.DHCPv4Update", "multiWriter"),
 ("packet.Session.Notify", "multiWriter"),
 ("packet.Session.Parse", "multiWriter"),
 ("packet.Session.Ping", "multiWriter"),
 ("packet.Session.Ping6", "multiWriter"),
 ("packet.Session.ValidateDefaultRouter", "multiWriter"),
 ("packet.Session.purge", "multiWriter")]

/-- pinned: the class of every reviewed (entry point, guard) pair on that guard.  `readOnly`: no section of the entry point
    on this guard writes its data — decided from the facts, the hand-written reason in `C09AtomicReview.reviewed` is no longer
    needed for these.  `validated`: read-only sections, then ONE writing section (the shape of `ValidatedReentry` /
    `CommitDisciplined`); that the writing section re-validates stays the reviewed argument.  `multiWriter`: residual. -/
def pinnedPairClasses : List (String × String × String) :=
[("dhcp4_spoofer.Handler.ProcessPacket", "dhcp4_spoofer.Handler.Mutex", "validated"),
 ("dhcp4_spoofer.Handler.ProcessPacket", "packet.MACEntry.Row", "multiWriter"),
 ("dhcp4_spoofer.Handler.ProcessPacket", "packet.Session.mutex", "multiWriter"),
 ("dns_naming.DNSHandler.ProcessMDNS", "dns_naming.DNSHandler.mutex", "multiWriter"),
 ("icmp_spoofer.Handler6.ProcessPacket", "icmp_spoofer.Handler6.Mutex", "multiWriter"),
 ("packet.Config.NewSession", "packet.MACEntry.Row", "multiWriter"),
 ("packet.Config.NewSession", "packet.Session.mutex", "multiWriter"),
 ("packet.NewSession", "packet.MACEntry.Row", "multiWriter"),
 ("packet.NewSession", "packet.Session.mutex", "multiWriter"),
 ("packet.Session.DHCPv4Update", "packet.MACEntry.Row", "multiWriter"),
 ("packet.Session.DHCPv4Update", "packet.Session.mutex", "validated"),
 ("packet.Session.Notify", "packet.MACEntry.Row", "multiWriter"),
 ("packet.Session.Notify", "packet.Session.mutex", "readOnly"),
 ("packet.Session.Parse", "packet.MACEntry.Row", "multiWriter"),
 ("packet.Session.Parse", "packet.Session.mutex", "multiWriter"),
 ("packet.Session.Parse", "packet.icmpTable", "multiWriter"),
 ("packet.Session.Ping", "packet.icmpTable", "multiWriter"),
 ("packet.Session.Ping6", "packet.icmpTable", "multiWriter"),
 ("packet.Session.PrintTable", "packet.MACEntry.Row", "readOnly"),
 ("packet.Session.ValidateDefaultRouter", "packet.icmpTable", "multiWriter"),
 ("packet.Session.purge", "packet.MACEntry.Row", "multiWriter"),
 ("packet.Session.purge", "packet.Session.mutex", "validated")]

/-- diagnosis: entry points / pairs whose class is not the pinned one (name, now) -/
def classDiff : List (String × String) :=
  (entryClasses.filter fun e => !pinnedEntryClasses.contains e) ++
  ((pairClasses.filter fun e => !pinnedPairClasses.contains e).map fun e => (e.1 ++ " / " ++ e.2.1, e.2.2)) ++
  ((pinnedEntryClasses.filter fun e => !entryClasses.contains e).map fun e => (e.1, "no longer " ++ e.2))

end PV.Props.C09AtomicCommitReview
