/-
  C03 — Encoders and decoders are mutually inverse at every layer.
  The encoders are modelled in `Model/Encode.lean` with an explicit memory (backing array + slices,
  Go's panic rules for indexing/re-slicing, clipped `copy`, arbitrary previous buffer contents `g`);
  the independent decoder is `Spec/Wire.lean`; the library's own views are `Model/Views.lean`.
  `wf` hypotheses are explicit and decidable; each theorem has a non-vacuity example.
  (DHCPv4 options: Props/C03Dhcp.lean.  DNS query: Props/C03Dns.lean.)
-/
import PacketVerif.Lemmas.Encode
namespace PV.Props.C03
open PV PV.Model PV.Lemmas

/-- well-formed arguments of an Ethernet/IPv4/UDP composition into a buffer of `cap` bytes -/
structure WfUDP4 (cap : Nat) (srcMAC dstMAC sip dip : Bytes) (sp dp : Nat) (payload : Bytes) : Prop where
  smac : srcMAC.length = 6
  dmac : dstMAC.length = 6
  sip4 : sip.length = 4
  dip4 : dip.length = 4
  sport : sp < 65536
  dport : dp < 65536
  fits : 42 + payload.length ≤ cap
  small : cap ≤ 65535

/-- **Ethernet/IPv4/UDP round trip.**  For all field values and every payload that fits, whatever the buffer
    held before, the composed frame is accepted by the independent reference decoder with exactly the
    supplied MACs, addresses, ports and payload, consistent Ethernet ⊇ IPv4 TotalLen ⊇ UDP length, and a
    verifying IPv4 header checksum. -/
theorem udp4_roundtrip (g : Mem) (srcMAC dstMAC sip dip : Bytes) (ttl : UInt8) (sp dp : Nat) (payload : Bytes)
    (h : WfUDP4 g.length srcMAC dstMAC sip dip sp dp payload) :
    ∃ f, sendUDP4 g srcMAC dstMAC ttl sip dip sp dp payload = .ok f ∧
      Spec.Wire.wfUDP4 srcMAC dstMAC sip dip sp dp payload f = none := by
  have hs := h.small; have hf := h.fits
  exact ⟨_, sendUDP4_frame g srcMAC dstMAC sip dip ttl sp dp payload h.smac h.dmac h.sip4 h.dip4 h.sport h.dport
      h.fits (by omega),
    wfUDP4_frame srcMAC dstMAC sip dip ttl sp dp payload h.smac h.dmac h.sip4 h.dip4 h.sport h.dport (by omega)⟩

/-- the frame does not depend on the previous contents of the buffer -/
theorem udp4_independent_of_garbage (g g' : Mem) (hg : g.length = g'.length)
    (srcMAC dstMAC sip dip : Bytes) (ttl : UInt8) (sp dp : Nat) (payload : Bytes)
    (h : WfUDP4 g.length srcMAC dstMAC sip dip sp dp payload) :
    sendUDP4 g srcMAC dstMAC ttl sip dip sp dp payload = sendUDP4 g' srcMAC dstMAC ttl sip dip sp dp payload := by
  have hs := h.small; have hf := h.fits
  rw [sendUDP4_frame g srcMAC dstMAC sip dip ttl sp dp payload h.smac h.dmac h.sip4 h.dip4 h.sport h.dport
      h.fits (by omega),
    sendUDP4_frame g' srcMAC dstMAC sip dip ttl sp dp payload h.smac h.dmac h.sip4 h.dip4 h.sport h.dport
      (by omega) (by omega)]

/-- **AppendPayload rejects what does not fit** (buffer of at least the 42 header bytes): `ErrPayloadTooBig`,
    never a write past the buffer (the model has no memory outside `g`: an out-of-range write is a panic). -/
theorem udp4_too_big (g : Mem) (srcMAC dstMAC sip dip : Bytes) (ttl : UInt8) (sp dp : Nat) (payload : Bytes)
    (hcap : 42 ≤ g.length) (hbig : g.length < 42 + payload.length) :
    sendUDP4 g srcMAC dstMAC ttl sip dip sp dp payload = .err .payloadTooBig := by
  exact sendUDP4_too_big g srcMAC dstMAC sip dip ttl sp dp payload hcap hbig

/-- **A composed Ethernet/IPv4/UDP frame is classified by Parse as the protocol that was encoded** -/
theorem udp4_classified (cfg : Cfg) (g : Mem) (srcMAC dstMAC sip dip : Bytes) (ttl : UInt8) (sp dp : Nat)
    (payload : Bytes) (h : WfUDP4 g.length srcMAC dstMAC sip dip sp dp payload)
    (hu : ∀ b, srcMAC[0]? = some b → b &&& 0x01 = 0) :
    ∃ f r, sendUDP4 g srcMAC dstMAC ttl sip dip sp dp payload = .ok f ∧ parse cfg f = .ok r ∧ r.err = none ∧
      r.frame.pid = (udpClass sp dp).getD Pid.udp ∧ r.frame.srcPort = sp ∧ r.frame.dstPort = dp ∧
      r.frame.srcIP = sip ∧ r.frame.dstIP = dip ∧ r.frame.offIP4 = 14 ∧ r.frame.offUDP = 34 := by
  have hs := h.small; have hf := h.fits
  obtain ⟨r, hr⟩ := parse_udp4_frame cfg srcMAC dstMAC sip dip ttl sp dp payload h.smac h.dmac h.sip4 h.dip4
    h.sport h.dport (by omega) hu
  exact ⟨_, r, sendUDP4_frame g srcMAC dstMAC sip dip ttl sp dp payload h.smac h.dmac h.sip4 h.dip4 h.sport h.dport
    h.fits (by omega), hr⟩

/-- Ethernet/IPv6/UDP composition (plain encoders): reference IPv6 and UDP decoders read back the values -/
theorem udp6_roundtrip (g : Mem) (srcMAC dstMAC sip dip : Bytes) (hop : UInt8) (sp dp : Nat) (payload : Bytes)
    (hs : srcMAC.length = 6) (hd : dstMAC.length = 6) (hsi : sip.length = 16) (hdi : dip.length = 16)
    (hsp : sp < 65536) (hdp : dp < 65536) (hfit : 62 + payload.length ≤ g.length) (hsmall : g.length ≤ 65535) :
    ∃ f e ip u, composeUDP6 g srcMAC dstMAC hop sip dip sp dp payload = .ok f ∧
      Spec.Wire.decEth f = some e ∧ e.src = srcMAC ∧ e.dst = dstMAC ∧ e.etype = 0x86dd ∧
      Spec.Wire.decIp6 e.payload = some ip ∧ ip.src = sip ∧ ip.dst = dip ∧ ip.next = 17 ∧ ip.hop = hop.toNat ∧
      Spec.Wire.decUdp ip.payload = some u ∧ u.sport = sp ∧ u.dport = dp ∧ u.payload = payload := by
  have hf := composeUDP6_frame g srcMAC dstMAC sip dip hop sp dp payload hs hd hsi hdi hsp hdp hfit (by omega)
  refine ⟨_, ⟨dstMAC, srcMAC, 0x86dd,
      ip6Hdr (8 + payload.length) 17 hop sip dip ++ (udpHdr sp dp (8 + payload.length) 0 0 ++ payload)⟩,
    ⟨sip, dip, 17, hop.toNat, udpHdr sp dp (8 + payload.length) 0 0 ++ payload⟩, ⟨sp, dp, 0, payload⟩,
    hf, ?_, rfl, rfl, rfl, ?_, rfl, rfl, rfl, rfl, ?_, rfl, rfl, rfl⟩
  · simp only [List.append_assoc, List.cons_append, List.nil_append]
    rw [decEth_frame dstMAC srcMAC 0x86 0xdd _ hd hs]
    rfl
  · exact decIp6_hdr (8 + payload.length) 17 hop sip dip _ hsi hdi (by simp [udpHdr]; omega) (by omega)
  · exact decUdp_hdr sp dp (8 + payload.length) 0 0 payload hsp hdp rfl (by omega)

/-- Ethernet/ARP composition (`EncodeEther` + `EncodeARP(ether.Payload())` + `SetPayload`) -/
theorem arp_roundtrip (g : Mem) (hostMAC dst : Bytes) (op : Nat) (smac sip tmac tip : Bytes)
    (h1 : hostMAC.length = 6) (h2 : dst.length = 6) (h3 : smac.length = 6) (h4 : sip.length = 4)
    (h5 : tmac.length = 6) (h6 : tip.length = 4) (hop : op < 65536) (hcap : 42 ≤ g.length) :
    ∃ f, sendARP g hostMAC dst op smac sip tmac tip = .ok f ∧
      Spec.Wire.wfARP hostMAC dst op smac sip tmac tip f = none ∧ arpValid (f.drop 14) = .ok () := by
  exact ⟨_, sendARP_frame g hostMAC dst op smac sip tmac tip h1 h2 h3 h4 h5 h6 hop hcap,
    wfARP_frame hostMAC dst op smac sip tmac tip h1 h2 h3 h4 h5 h6 hop,
    arpValid_frame hostMAC dst op smac sip tmac tip h1 h2 h3 h4 h5 h6⟩

/-- ICMP echo: the library's own view reads back type, code, id, seq and data -/
theorem echo_roundtrip (t code : UInt8) (id seq : Nat) (data : Bytes) (hid : id < 65536) (hseq : seq < 65536) :
    let m := encodeICMPEcho t code id seq data
    (G.num (.byte 0)).eval m = .ok (.n t.toNat) ∧ (G.num (.byte 1)).eval m = .ok (.n code.toNat) ∧
    (G.num (NE.be16 4)).eval m = .ok (.n id) ∧ (G.num (NE.be16 6)).eval m = .ok (.n seq) ∧ m.drop 8 = data := by
  intro m
  simp [m, encodeICMPEcho, G.eval, NE.eval, NE.be16, idx, Nat.mod_eq_of_lt hid, Nat.mod_eq_of_lt hseq,
    shl8_or_hi8_lo8 id hid, shl8_or_hi8_lo8 seq hseq]

/-- NDP neighbour solicitation: the library's view reads back the target and the *source* link-layer address
    (option type 1) -/
theorem ns_roundtrip (target mac : Bytes) (ht : target.length = 16) (hm : mac.length = 6) :
    let m := nsMarshal target mac
    (vNS.valid m = .ok ()) ∧ (G.ip 8 16).eval m = .ok (.ip target) ∧
    optLLA 32 24 1 1 26 32 m = .ok (.span 26 6) ∧ (m.drop 26).take 6 = mac ∧ m[0]? = some 135 := by
  cells ht; cells hm
  exact ⟨rfl, rfl, rfl, rfl, rfl⟩

/-- NDP neighbour advertisement: flags, target and target link-layer address (option type 2) -/
theorem na_roundtrip (r s o : Bool) (target mac : Bytes) (ht : target.length = 16) (hm : mac.length = 6) :
    let m := naMarshal r s o target mac
    (vNA.valid m = .ok ()) ∧ (G.flag (.and (.byte 4) (.const 0x80))).eval m = .ok (.b r) ∧
    (G.flag (.and (.byte 4) (.const 0x40))).eval m = .ok (.b s) ∧ (G.flag (.and (.byte 4) (.const 0x20))).eval m = .ok (.b o) ∧
    (G.ip 8 16).eval m = .ok (.ip target) ∧ optLLA 32 24 2 1 26 32 m = .ok (.span 26 6) ∧ (m.drop 26).take 6 = mac ∧
    m[0]? = some 136 := by
  cells ht; cells hm
  cases r <;> cases s <;> cases o <;> exact ⟨rfl, rfl, rfl, rfl, rfl, rfl, rfl, rfl⟩

/-- non-vacuity -/
example : WfUDP4 1522 [2,0,0,0,0,1] [2,0,0,0,0,2] [192,168,0,1] [192,168,0,2] 68 67 [1,2,3] :=
  ⟨rfl, rfl, rfl, rfl, by decide, by decide, by decide, by decide⟩

end PV.Props.C03
