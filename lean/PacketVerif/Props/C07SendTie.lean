/-
  Tie B for the SEND PATHS (C07; C03 for the compositions).  `Gen/Senders.lean` is regenerated from the Go source on
  every run (tools/goextract/senders.go, F15): the body of every function that takes a frame buffer from
  `EtherBufferPool` — `Session.arpRequest`, `icmp4SendPacket`, `icmp6SendPacket` (package packet), arp_spoofer
  `RequestRaw` / `reply`, dhcp4_spoofer `sendDHCP4Packet`, dns_naming `sendNBNS` / `SendSSDPSearch` — translated
  statement by statement into a Lean function over the regenerated encoder bodies of `Gen/Encoders.lean` (F7) and the
  memory primitives of Model/Encode.lean; its value is the frame handed to `conn.WriteTo`.  `ICMP.SetChecksum` is
  regenerated from its own body.  Each theorem below proves a regenerated send path EQUAL to the hand-written
  send-path model of Model/Encode.lean that the frame theorems of Props/C07.lean (`sent_*_wf`) are about:
  the ARP and UDP/IPv4 paths (`arpRequest_tie`, `requestRaw_tie`, `reply_tie`, `sendDHCP4Packet_tie`, `sendNBNS_tie`,
  `sendSSDPSearch_tie`, `sendMDNS4_tie` and the ARP wrappers) for EVERY buffer and all arguments, the ICMP and IPv6 paths for
  every buffer with room for the frame, 6-byte MACs and 4/16-byte addresses — the hypotheses of the corresponding
  `sent_*_wf` theorem.  A changed
  constant (EtherType, TTL, hop limit, protocol number, port), offset, statement order, Ethernet source, checksum
  position or pseudo-header layout in a Go send path makes the corresponding proof fail at build time.
-/
import PacketVerif.Gen.Senders
import PacketVerif.Props.C03EncTie
import PacketVerif.Lemmas.EncodeFrames
import PacketVerif.Lemmas.EncodeFrames6
set_option linter.unusedSimpArgs false
namespace PV.Props.C07SendTie
open PV PV.Model PV.Lemmas PV.Props.C03EncTie

theorem bytes_length (m : Mem) (s : Sl) (h : s.off + s.len ≤ m.length) : (s.bytes m).length = s.len := by
  simp only [Sl.bytes, List.length_take, List.length_drop]; omega

theorem orNil_some (m : Mem) (s : Sl) : orNil m (some s) = s := rfl

theorem genEncodeIP6_cons (x : UInt8) (xs : Bytes) (p : Sl) (hop : UInt8) (src dst : Bytes)
    (h : p.off + 40 ≤ (x :: xs).length) :
    Gen.Enc.EncodeIP6 (x :: xs) p hop src dst = encodeIP6 (x :: xs) p hop src dst :=
  encodeIP6_tie _ _ _ _ _ (by unfold Sl.cap; omega)


theorem keepNil_ok (m : Mem) (x : Mem × Sl) : keepNil m (.ok x) = .ok x := rfl

/-- `enc_exec` of Lemmas/EncodeMem extended by the constructs of Model/SendGo -/
macro "send_exec" : tactic =>
  `(tactic| simp (disch := mdisch) only [bind_ok', bind_err', bind_panic', Outcome.pure_eq, bytes_length, orNil_some, keepNil_ok, genEncodeIP6_cons,
      encodeEther_cons, etherHdrLen, etherPayloadSl, etherSetPayload, encodeIP4, ip4IHLSl, ip4TotalLenSl,
      ip4PayloadSl, ip4CksumSl, putCks, ip4SetPayload, ip4AppendPayload_cons, encodeUDP_cons,
      udpAppendPayload_cons, udpSetPayload, encodeIP6, ip6AppendPayload_cons, ip6SetPayload, mac6_cells,
      encodeARP_cons, whole, as4_cells, as16_cells, cap_cons,
      reslice_cons, from_cons, put8_cons, put16_cons, copyAt_cons, get8_cons, idx_cons_zero, idx_cons_succ,
      be16_hi8_lo8, ihl_45, Nat.mod_eq_of_lt, Nat.add_sub_cancel_left, List.take_length, pokeC_append,
      take_8_add,
      poke_eq_pokeC, pokeC_cons_succ, pokeC_zero_cons, pokeC_zero_nil, Nat.add_zero, Nat.sub_zero,
      Nat.zero_add, List.length_cons, List.length_nil, List.length_append,
      List.length_drop, Nat.reduceAdd, Nat.reduceSub, Nat.reduceMul, Nat.reduceDiv, Nat.reduceMod, Nat.reduceLT,
      Nat.reduceGT, Nat.reduceLeDiff, Nat.reduceBEq, Nat.reduceBNe, Nat.reduceEqDiff, Bool.false_eq_true,
      ↓reduceIte, gt_iff_lt, ge_iff_le, beq_self_eq_true, Nat.lt_irrefl, Nat.le_refl, Nat.add_assoc,
      List.drop_succ_cons, List.drop_zero, List.take_succ_cons, List.take_zero, List.cons_append,
      List.nil_append])

theorem u8_hi (cs : UInt16) : UInt8.ofNat (cs.toNat >>> 8) = (cs >>> 8).toUInt8 := by
  apply UInt8.toNat_inj.mp
  simp [UInt16.toNat_shiftRight]

theorem u8_lo (cs : UInt16) : UInt8.ofNat cs.toNat = cs.toUInt8 := by
  apply UInt8.toNat_inj.mp
  simp

theorem setChecksum_tie (m : Mem) (s : Sl) (cs : UInt16) :
    Gen.Send.ICMP_SetChecksum m s cs.toNat = putCks m s 2 cs := by
  unfold Gen.Send.ICMP_SetChecksum putCks
  rw [u8_hi, u8_lo]

theorem setChecksum_own (p : Bytes) (cs : UInt16) (h : 4 ≤ p.length) :
    Gen.Send.ICMP_SetChecksum p (whole p) cs.toNat = .ok (putChecksum p 2 cs) := by
  rw [setChecksum_tie]
  cells_le h
  unfold putCks putChecksum
  enc_exec
  simp

theorem rep_add (a b : Nat) (x : UInt8) : List.replicate (a + b) x = List.replicate a x ++ List.replicate b x := by
  induction a with
  | zero => simp
  | succ k ih => rw [Nat.succ_add, List.replicate_succ, List.replicate_succ, ih]; rfl

theorem rep40 (n : Nat) : List.replicate (40 + n) (0 : UInt8) = List.replicate 40 0 ++ List.replicate n 0 :=
  rep_add 40 n 0

theorem pokeC_all (Z bs : Bytes) (h : Z.length = bs.length) : pokeC Z 0 bs = bs := by
  have := pokeC_append Z [] bs h
  simpa using this

/-! ### Session.arpRequest: for every buffer and all arguments -/

theorem bind_congr {α β} (x : Outcome α) (f g : α → Outcome β) (h : ∀ a, f a = g a) : x >>= f = x >>= g := by
  cases x <;> simp [bind, Outcome.bind, h] <;> rfl

theorem reslice_nil (m : Mem) (a b : Nat) (h : 0 < b) : (nilSl m).reslice m a b = .panic := by
  unfold Sl.reslice
  rw [if_neg]
  intro hh
  have : (nilSl m).cap m = 0 := by simp [Sl.cap, nilSl]
  omega

theorem put16_nil (m : Mem) (a v : Nat) : (nilSl m).put16 m a v = .panic := by
  unfold Sl.put16 Sl.copyAt
  rw [reslice_nil m a (a + 2) (by omega)]; rfl

theorem arpRequest_tie (g : Mem) (hostMAC dst smac sip tmac tip : Bytes) (sport tport : Nat) :
    Gen.Send.arpRequest g dst smac sip sport tmac tip tport hostMAC =
      sessionArpRequest g hostMAC dst smac sip tmac tip := by
  unfold Gen.Send.arpRequest sessionArpRequest
  simp only [encodeEther_tie]
  refine bind_congr _ _ _ fun b => bind_congr _ _ _ fun ⟨m, e⟩ => bind_congr _ _ _ fun o => ?_
  cases o with
  | none => simp only [orNil, put16_nil]; rfl
  | some arp => rfl

/-! ### ARP and UDP/IPv4 send paths: for EVERY buffer and all arguments

  The regenerated body and the model are the same sequence of encoder calls; they differ in how a nil slice travels
  (`orNil` vs an explicit `match`) and in the payload argument of SetPayload (`(x.bytes m).length` vs `x.len`).  Both are
  bridged in general: an encoder applied to nil fails as the model says (`encodeARP_nil`, `encodeIP4_nil`,
  `udpAppendPayload_nil`), and a slice returned by a successful encoder lies inside the memory it returns
  (`encodeARP_inb`, `udpAppendPayload_inb`, `ip4SetPayload_inb`: no store changes the length of the memory). -/

theorem reslice_inb (m : Mem) (s d : Sl) (a b : Nat) (h : s.reslice m a b = .ok d) : d.off + d.len ≤ m.length := by
  unfold Sl.reslice at h
  split at h
  · rename_i hc
    cases h
    simp only [Sl.cap] at hc
    show s.off + a + (b - a) ≤ m.length
    omega
  · cases h

theorem copyAt_len (m m' : Mem) (s : Sl) (a b : Nat) (src : Bytes) (h : s.copyAt m a b src = .ok m') : m'.length = m.length := by
  unfold Sl.copyAt at h
  cases hd : s.reslice m a b with
  | ok d =>
    rw [hd] at h
    have hi := reslice_inb m s d a b hd
    cases h
    exact poke_length m d.off _ (by simp only [List.length_take]; omega)
  | err e => rw [hd] at h; cases h
  | panic => rw [hd] at h; cases h
  | hang => rw [hd] at h; cases h

theorem put16_len (m m' : Mem) (s : Sl) (a v : Nat) (h : s.put16 m a v = .ok m') : m'.length = m.length :=
  copyAt_len m m' s a (a + 2) _ h

theorem put8_len (m m' : Mem) (s : Sl) (i : Nat) (v : UInt8) (h : s.put8 m i v = .ok m') : m'.length = m.length := by
  unfold Sl.put8 at h
  split at h
  · cases h; exact poke_length m _ _ (by simp; omega)
  · cases h

theorem bind_ok_inv {α β} (x : Outcome α) (f : α → Outcome β) (y : β) (h : x >>= f = .ok y) :
    ∃ a, x = .ok a ∧ f a = .ok y := by
  cases x with
  | ok a => exact ⟨a, rfl, h⟩
  | err e => cases h
  | panic => cases h
  | hang => cases h

theorem encodeARP_inb (m m' : Mem) (p a : Sl) (op : Nat) (smac sip tmac tip : Bytes)
    (h : encodeARP m p op smac sip tmac tip = .ok (m', a)) : a.off + a.len ≤ m'.length := by
  unfold encodeARP at h
  split at h
  · cases h
  · obtain ⟨a0, h0, h⟩ := bind_ok_inv _ _ _ h
    have hi := reslice_inb m p a0 0 28 h0
    obtain ⟨m1, e1, h⟩ := bind_ok_inv _ _ _ h
    obtain ⟨m2, e2, h⟩ := bind_ok_inv _ _ _ h
    obtain ⟨m3, e3, h⟩ := bind_ok_inv _ _ _ h
    obtain ⟨m4, e4, h⟩ := bind_ok_inv _ _ _ h
    obtain ⟨m5, e5, h⟩ := bind_ok_inv _ _ _ h
    obtain ⟨sm, _, h⟩ := bind_ok_inv _ _ _ h
    obtain ⟨m6, e6, h⟩ := bind_ok_inv _ _ _ h
    obtain ⟨m7, e7, h⟩ := bind_ok_inv _ _ _ h
    obtain ⟨tm, _, h⟩ := bind_ok_inv _ _ _ h
    obtain ⟨m8, e8, h⟩ := bind_ok_inv _ _ _ h
    obtain ⟨m9, e9, h⟩ := bind_ok_inv _ _ _ h
    cases h
    have := put16_len _ _ _ _ _ e1
    have := put16_len _ _ _ _ _ e2
    have := put8_len _ _ _ _ _ e3
    have := put8_len _ _ _ _ _ e4
    have := put16_len _ _ _ _ _ e5
    have := copyAt_len _ _ _ _ _ _ e6
    have := copyAt_len _ _ _ _ _ _ e7
    have := copyAt_len _ _ _ _ _ _ e8
    have := copyAt_len _ _ _ _ _ _ e9
    omega

theorem encodeARP_nil (m : Mem) (op : Nat) (smac sip tmac tip : Bytes) :
    encodeARP m (nilSl m) op smac sip tmac tip = .panic := by
  unfold encodeARP
  rw [if_pos (by simp [Sl.cap, nilSl])]

theorem encodeIP4_nil (m : Mem) (ttl : UInt8) (src dst : Bytes) : encodeIP4 m (nilSl m) ttl src dst = .panic := by
  unfold encodeIP4
  have : (nilSl m).put8 m 0 0x45 = .panic := by
    unfold Sl.put8; rw [if_neg (by simp [nilSl])]
  rw [this]; rfl

theorem udpAppendPayload_nil (m : Mem) (b : Bytes) :
    udpAppendPayload m (nilSl m) b = if b.length > 0 then .err .payloadTooBig else .panic := by
  unfold udpAppendPayload
  have hc : (nilSl m).cap m = 0 := by simp [Sl.cap, nilSl]
  have hl : (nilSl m).len = 0 := rfl
  rw [hc, hl]
  by_cases h : b.length > 0
  · rw [if_pos (by omega), if_pos h]
  · rw [if_neg (by omega), if_neg h]
    have hb : b.length = 0 := by omega
    rw [hb]
    have h1 : (nilSl m).reslice m 0 (0 + 0) = .ok ⟨m.length, 0⟩ := by
      unfold Sl.reslice; rw [if_pos (by simp [Sl.cap, nilSl])]; rfl
    have h2 : (⟨m.length, 0⟩ : Sl).from_ m 8 = .panic := by
      unfold Sl.from_ Sl.reslice; rw [if_neg (by simp)]
    simp only [h1, bind_ok', h2, bind_panic']

theorem udpAppendPayload_inb (m m' : Mem) (p u : Sl) (b : Bytes) (h : udpAppendPayload m p b = .ok (m', u)) :
    u.off + u.len ≤ m'.length := by
  unfold udpAppendPayload at h
  split at h
  · cases h
  · obtain ⟨p1, h0, h⟩ := bind_ok_inv _ _ _ h
    have hi := reslice_inb m p p1 _ _ h0
    obtain ⟨pay, h1, h⟩ := bind_ok_inv _ _ _ h
    have hp := reslice_inb m p1 pay _ _ h1
    have hk : (poke m pay.off (b.take pay.len)).length = m.length :=
      poke_length m pay.off _ (by simp only [List.length_take]; omega)
    obtain ⟨m2, e2, h⟩ := bind_ok_inv _ _ _ h
    obtain ⟨m3, e3, h⟩ := bind_ok_inv _ _ _ h
    cases h
    have := put16_len _ _ _ _ _ e2
    have := put16_len _ _ _ _ _ e3
    omega

theorem ip4SetPayload_inb (m m' : Mem) (p r : Sl) (n : Nat) (proto : UInt8) (h : ip4SetPayload m p n proto = .ok (m', r)) :
    r.off + r.len ≤ m'.length := by
  unfold ip4SetPayload at h
  obtain ⟨m1, _, h⟩ := bind_ok_inv _ _ _ h
  obtain ⟨m2, _, h⟩ := bind_ok_inv _ _ _ h
  obtain ⟨cs, _, h⟩ := bind_ok_inv _ _ _ h
  obtain ⟨m3, _, h⟩ := bind_ok_inv _ _ _ h
  obtain ⟨r0, hr, h⟩ := bind_ok_inv _ _ _ h
  cases h
  exact reslice_inb _ _ _ _ _ hr

/-- the common UDP/IPv4 composition as the send functions write it = `sendUDP4`, for every buffer and all arguments -/
theorem udp4_body_all (g : Mem) (sm dm sip dip : Bytes) (ttl : UInt8) (sp dp : Nat) (pl : Bytes) :
    (do
      let (m, ether) ← encodeEther g (whole g) 2048 sm dm
      let t1 ← etherPayloadSl m ether
      let t1 := orNil m t1
      let (m, ip4) ← encodeIP4 m t1 ttl sip dip
      let t2 ← ip4PayloadSl m ip4
      let (m, t3) ← encodeUDP m t2 sp dp
      let udp := orNil m t3
      let (m, udp) ← udpAppendPayload m udp pl
      let (m, ip4) ← ip4SetPayload m ip4 (udp.bytes m).length 17
      let (m, ether) ← (etherSetPayload m ether (ip4.bytes m).length >>= fun r => pure (m, r))
      pure (ether.bytes m)) = sendUDP4 g sm dm ttl sip dip sp dp pl := by
  unfold sendUDP4
  refine bind_congr _ _ _ fun ⟨m, e⟩ => bind_congr _ _ _ fun o => ?_
  cases o with
  | none => simp only [orNil, encodeIP4_nil]; rfl
  | some pay =>
    simp only [orNil]
    refine bind_congr _ _ _ fun ⟨m1, ip⟩ => bind_congr _ _ _ fun ipay => bind_congr _ _ _ fun ⟨m2, ou⟩ => ?_
    cases ou with
    | none => simp only [orNil, udpAppendPayload_nil]; split <;> rfl
    | some u =>
      simp only [orNil]
      cases hU : udpAppendPayload m2 u pl with
      | ok v =>
        obtain ⟨m3, u'⟩ := v
        have hi := udpAppendPayload_inb _ _ _ _ _ hU
        simp only [bind_ok', bytes_length m3 u' hi]
        cases hI : ip4SetPayload m3 ip u'.len 17 with
        | ok w =>
          obtain ⟨m4, ip'⟩ := w
          have hj := ip4SetPayload_inb _ _ _ _ _ _ hI
          simp only [bind_ok', bytes_length m4 ip' hj]
          cases etherSetPayload m4 e ip'.len <;> rfl
        | err e => rfl
        | panic => rfl
        | hang => rfl
      | err e => rfl
      | panic => rfl
      | hang => rfl

/-- arp_spoofer RequestRaw / reply for EVERY buffer and all arguments -/
theorem requestRaw_tie (g : Mem) (hostMAC dst smac sip tmac tip : Bytes) (sport tport : Nat) :
    Gen.Send.arp_spoofer_RequestRaw g dst smac sip sport tmac tip tport hostMAC =
      sendARP g hostMAC dst 1 smac sip tmac tip := by
  unfold Gen.Send.arp_spoofer_RequestRaw sendARP
  simp only [encodeEther_tie, encodeARP_tie, etherSetPayload_tie]
  refine bind_congr _ _ _ fun ⟨m, e⟩ => bind_congr _ _ _ fun o => ?_
  cases o with
  | none => simp only [orNil, encodeARP_nil]; rfl
  | some pay =>
    simp only [orNil]
    cases hA : encodeARP m pay 1 smac sip tmac tip with
    | ok v =>
      obtain ⟨m', a⟩ := v
      have hi := encodeARP_inb m m' pay a 1 smac sip tmac tip hA
      simp only [bind_ok', bytes_length m' a hi]
      cases etherSetPayload m' e a.len <;> rfl
    | err e => rfl
    | panic => rfl
    | hang => rfl

theorem reply_tie (g : Mem) (hostMAC dst smac sip tmac tip : Bytes) (sport tport : Nat) :
    Gen.Send.arp_spoofer_reply g dst smac sip sport tmac tip tport hostMAC =
      sendARP g hostMAC dst 2 smac sip tmac tip := by
  unfold Gen.Send.arp_spoofer_reply sendARP
  simp only [encodeEther_tie, encodeARP_tie, etherSetPayload_tie]
  refine bind_congr _ _ _ fun ⟨m, e⟩ => bind_congr _ _ _ fun o => ?_
  cases o with
  | none => simp only [orNil, encodeARP_nil]; rfl
  | some pay =>
    simp only [orNil]
    cases hA : encodeARP m pay 2 smac sip tmac tip with
    | ok v =>
      obtain ⟨m', a⟩ := v
      have hi := encodeARP_inb m m' pay a 2 smac sip tmac tip hA
      simp only [bind_ok', bytes_length m' a hi]
      cases etherSetPayload m' e a.len <;> rfl
    | err e => rfl
    | panic => rfl
    | hang => rfl
theorem sendDHCP4Packet_tie (g : Mem) (sm dm sip dip : Bytes) (sp dp : Nat) (pl : Bytes) :
    Gen.Send.dhcp4_spoofer_sendDHCP4Packet g sm sip sp dm dip dp pl = sendUDP4 g sm dm 50 sip dip sp dp pl := by
  unfold Gen.Send.dhcp4_spoofer_sendDHCP4Packet
  simp only [encodeEther_tie, encodeIP4_tie, encodeUDP_tie, udpAppendPayload_tie, ip4SetPayload_tie, etherSetPayload_tie]
  exact udp4_body_all g sm dm sip dip 50 sp dp pl

theorem sendNBNS_tie (g : Mem) (sm dm sip dip : Bytes) (sp dp : Nat) (pl : Bytes) :
    Gen.Send.dns_naming_sendNBNS g sm sip sp dm dip dp pl = sendUDP4 g sm dm 255 sip dip 137 137 pl := by
  unfold Gen.Send.dns_naming_sendNBNS
  simp only [encodeEther_tie, encodeIP4_tie, encodeUDP_tie, udpAppendPayload_tie, ip4SetPayload_tie, etherSetPayload_tie]
  exact udp4_body_all g sm dm sip dip 255 137 137 pl

theorem sendSSDPSearch_tie (g : Mem) (sm dm sip dip : Bytes) (pl : Bytes) :
    Gen.Send.dns_naming_SendSSDPSearch g sm dm sip dip pl = sendUDP4 g sm dm 255 sip dip 1900 1900 pl := by
  unfold Gen.Send.dns_naming_SendSSDPSearch
  simp only [encodeEther_tie, encodeIP4_tie, encodeUDP_tie, udpAppendPayload_tie, ip4SetPayload_tie, etherSetPayload_tie]
  exact udp4_body_all g sm dm sip dip 255 1900 1900 pl

/-- sendMDNS, IPv4 branch: every source address of 4 bytes, all other arguments arbitrary -/
theorem sendMDNS4_tie (g : Mem) (hm dm smac sip dip : Bytes) (sport dp : Nat) (pl : Bytes) (h3 : sip.length = 4) :
    Gen.Send.dns_naming_sendMDNS g pl smac sip sport dm dip dp hm =
      sendUDP4 (List.replicate 1522 0) hm dm 255 sip dip dp dp pl := by
  unfold Gen.Send.dns_naming_sendMDNS
  simp only [encodeEther_tie, encodeIP4_tie, encodeUDP_tie, udpAppendPayload_tie, ip4SetPayload_tie, etherSetPayload_tie]
  rw [if_pos h3]
  exact udp4_body_all _ hm dm sip dip 255 dp dp pl


/-! ### ICMP and IPv6 send paths: for every buffer with room for the frame -/

theorem icmp4SendPacket_tie (g : Mem) (hm dm smac sip dip msg : Bytes) (sport dport : Nat)
    (h1 : hm.length = 6) (h2 : dm.length = 6) (h3 : sip.length = 4) (h4 : dip.length = 4)
    (hl : 4 ≤ msg.length) (hfit : 34 + msg.length ≤ g.length) (hsmall : 20 + msg.length < 65536) :
    Gen.Send.icmp4SendPacket g smac sip sport dm dip dport msg hm = sendICMP4 g hm dm sip dip msg := by
  rw [sendICMP4_frame g hm dm sip dip msg h1 h2 h3 h4 hl hfit hsmall]
  unfold Gen.Send.icmp4SendPacket
  simp only [setChecksum_own msg _ hl, bind_ok']
  have hl' := putChecksum_length msg 2 (checksum msg)
  generalize putChecksum msg 2 (checksum msg) = b at hl' ⊢
  rw [← hl'] at hfit hsmall ⊢
  have hcap : 34 ≤ g.length := by omega
  cells h1; cells h2; cells h3; cells h4; cells_le hcap
  rename_i T
  simp only [List.length_cons] at hfit
  obtain ⟨A, T', rfl, hA⟩ := split_tail T b.length (by omega)
  simp only [encodeEther_tie, encodeIP4_tie, ip4AppendPayload_tie, etherSetPayload_tie]
  send_exec
  enc_exec
  frame_close T'
theorem icmp6SendPacket_tie (g : Mem) (hm dm smac sip dip msg : Bytes) (sport dport : Nat)
    (h1 : hm.length = 6) (h2 : dm.length = 6) (h3 : sip.length = 16) (h4 : dip.length = 16)
    (hl : 4 ≤ msg.length) (hfit : 54 + msg.length ≤ g.length) (hsmall : msg.length < 65536) :
    Gen.Send.icmp6SendPacket g smac sip sport dm dip dport msg hm = sendICMP6 g hm dm sip dip msg := by
  rw [sendICMP6_frame g hm dm sip dip msg h1 h2 h3 h4 hl hfit hsmall]
  have hcap : 54 ≤ g.length := by omega
  unfold Gen.Send.icmp6SendPacket
  simp only [rep40, List.replicate]
  generalize hZ : List.replicate msg.length (0 : UInt8) = Z
  have hZl : Z.length = msg.length := by rw [← hZ]; simp
  clear hZ
  cells h1; cells h2; cells h3; cells h4; cells_le hcap
  rename_i T
  cells_le hl
  rename_i rest
  simp only [List.length_cons] at hfit hsmall hZl
  obtain ⟨A, T', rfl, hA⟩ := split_tail T (rest.length + 1 + 1 + 1 + 1) (by omega)
  simp only [encodeEther_tie, ip6AppendPayload_tie, etherSetPayload_tie, setChecksum_tie]
  send_exec
  enc_exec
  simp only [Sl.put32, List.length_replicate]
  enc_exec
  simp (disch := mdisch) only [pokeC_all, bind_ok']
  exact congrArg Outcome.ok (take_eq_frame _ _ T' _
      (by simp only [List.cons_append, List.nil_append, List.append_assoc, hi8_34525, lo8_34525, ip6Hdr,
            putChecksum, List.set_cons_succ, List.set_cons_zero, icmp6Pseudo, List.length_cons])
      (by simp only [List.length_cons, List.length_nil, List.length_append, ip6Hdr, putChecksum, List.length_set];
          omega))

/-! ### dns_naming `sendMDNS`: the frame buffer is allocated (`make([]byte, EthMaxSize)`), IPv4 and IPv6 branch -/

theorem sendMDNS6_tie (hm dm smac sip dip : Bytes) (sport dp : Nat) (pl : Bytes) (g : Mem)
    (h1 : hm.length = 6) (h2 : dm.length = 6) (h3 : sip.length = 16) (h4 : dip.length = 16)
    (hdp : dp < 65536) (hfit : 62 + pl.length ≤ 1522) :
    Gen.Send.dns_naming_sendMDNS g pl smac sip sport dm dip dp hm =
      sendUDP6 (List.replicate 1522 0) hm dm 255 sip dip dp dp pl := by
  unfold Gen.Send.dns_naming_sendMDNS
  generalize hg : List.replicate 1522 (0 : UInt8) = g'
  have hgl : g'.length = 1522 := by rw [← hg, List.length_replicate]
  clear hg
  rw [sendUDP6_frame g' hm dm sip dip 255 dp dp pl h1 h2 h3 h4 hdp hdp (by omega) (by omega)]
  rw [if_neg (by omega)]
  simp only [rep40, List.replicate]
  have hcap : 62 ≤ g'.length := by omega
  have hfit' : 62 + pl.length ≤ g'.length := by omega
  clear hgl
  cells h1; cells h2; cells h3; cells h4; cells_le hcap
  rename_i T
  simp only [List.length_cons] at hfit'
  obtain ⟨A, T', rfl, hA⟩ := split_tail T pl.length (by omega)
  simp only [encodeEther_tie, encodeUDP_tie, udpAppendPayload_tie, ip6SetPayload_tie, etherSetPayload_tie]
  send_exec
  enc_exec
  generalize hZ : List.replicate (8 + pl.length) (0 : UInt8) = Z
  have hZl : Z.length = 8 + pl.length := by rw [← hZ, List.length_replicate]
  clear hZ
  simp only [Sl.put32]
  enc_exec
  simp (disch := mdisch) only [pokeC_all]
  exact congrArg Outcome.ok (take_eq_frame _ _ T' _
      (by simp only [List.cons_append, List.nil_append, List.append_assoc, hi8_34525, lo8_34525, hi8_0, lo8_0,
            udpHdr, ip6Hdr, udp6Cks, udp6Psh]; rfl)
      (by simp only [List.length_cons, List.length_nil, List.length_append, udpHdr, ip6Hdr]; omega))
/-! ### message builder + send: the exported ICMP senders and arp_spoofer `Reply` -/

theorem builtBytes_eq (r : Outcome (Mem × Sl)) : builtBytes r = built r := rfl

theorem ownOrNil_of_built (r : Outcome (Mem × Sl)) (x : Bytes) (h : built r = .ok x) : ownOrNil r = .ok x := by
  cases r with
  | ok v => exact h
  | err e => cases h
  | panic => cases h
  | hang => cases h

theorem naMarshal_length (r s o : Bool) (ip mac : Bytes) (hm : mac.length = 6) : (naMarshal r s o ip mac).length = 32 := by
  simp [naMarshal, as16_len, hm]

theorem nsMarshal_length (ip mac : Bytes) (hm : mac.length = 6) : (nsMarshal ip mac).length = 32 := by
  simp [nsMarshal, hm]

def hello : Bytes := [72, 69, 76, 76, 79, 45, 78, 69, 84, 70, 73, 76, 84, 69, 82]

theorem reply_wrapper_tie (g : Mem) (hostMAC dst smac sip tmac tip : Bytes) (sport tport : Nat) :
    Gen.Send.arp_spoofer_Reply g dst smac sip sport tmac tip tport hostMAC =
      sendARP g hostMAC dst 2 smac sip tmac tip :=
  reply_tie g hostMAC dst smac sip tmac tip sport tport

theorem icmp6SendNA_tie (g : Mem) (hm dm smac sip dip tmac tip : Bytes) (sport dport tport : Nat)
    (h1 : hm.length = 6) (h2 : dm.length = 6) (h3 : sip.length = 16) (h4 : dip.length = 16)
    (h5 : tmac.length = 6) (hfit : 86 ≤ g.length) :
    Gen.Send.ICMP6SendNeighborAdvertisement g smac sip sport dm dip dport tmac tip tport hm =
      sendICMP6 g hm dm sip dip (naMarshal false false true tip tmac) := by
  unfold Gen.Send.ICMP6SendNeighborAdvertisement
  have hl := naMarshal_length false false true tip tmac h5
  rw [builtBytes_eq, naMarshal_tie false false true tip tmac tport h5]
  exact icmp6SendPacket_tie g hm dm smac sip dip _ sport dport h1 h2 h3 h4 (by omega) (by omega) (by omega)

theorem icmp6SendNS_tie (g : Mem) (hm dm smac sip dip tip : Bytes) (sport dport : Nat)
    (h1 : hm.length = 6) (h2 : dm.length = 6) (h3 : sip.length = 16) (h4 : dip.length = 16)
    (h5 : tip.length = 16) (hfit : 86 ≤ g.length) :
    Gen.Send.ICMP6SendNeighbourSolicitation g smac sip sport dm dip dport tip hm =
      sendICMP6 g hm dm sip dip (nsMarshal tip hm) := by
  unfold Gen.Send.ICMP6SendNeighbourSolicitation
  have hl := nsMarshal_length tip hm h1
  rw [ownOrNil_of_built _ _ (nsMarshal_tie16 tip hm h5 h1)]
  exact icmp6SendPacket_tie g hm dm smac sip dip _ sport dport h1 h2 h3 h4 (by omega) (by omega) (by omega)

theorem echo_built (t : UInt8) (id seq : Nat) :
    Gen.Enc.EncodeICMPEcho (List.replicate 23 0) (whole (List.replicate 23 0)) t 0 id seq hello =
      .ok (encodeICMPEcho t 0 id seq hello, some ⟨0, 23⟩) := by
  rw [encodeICMPEcho_tie _ _ _ _ _ _ (by decide)]
  simp [hello]

theorem icmp4SendEcho_tie (g : Mem) (hm dm smac sip dip : Bytes) (sport dport id seq : Nat)
    (h1 : hm.length = 6) (h2 : dm.length = 6) (h3 : sip.length = 4) (h4 : dip.length = 4) (hfit : 57 ≤ g.length) :
    Gen.Send.ICMP4SendEchoRequest g smac sip sport dm dip dport id seq hm =
      sendICMP4 g hm dm sip dip (encodeICMPEcho 8 0 id seq hello) := by
  unfold Gen.Send.ICMP4SendEchoRequest
  rw [if_neg (by simp [h3, h4])]
  have e := echo_built 8 id seq
  unfold hello at e
  simp only [e, bind_ok']
  have hl : (encodeICMPEcho 8 0 id seq hello).length = 23 := by simp [encodeICMPEcho, hello]
  unfold hello at hl
  exact icmp4SendPacket_tie g hm dm smac sip dip _ sport dport h1 h2 h3 h4 (by omega) (by omega) (by omega)

theorem icmp6SendEcho_tie (g : Mem) (hm dm smac sip dip : Bytes) (sport dport id seq : Nat)
    (h1 : hm.length = 6) (h2 : dm.length = 6) (h3 : sip.length = 16) (h4 : dip.length = 16) (hfit : 77 ≤ g.length) :
    Gen.Send.ICMP6SendEchoRequest g smac sip sport dm dip dport id seq hm =
      sendICMP6 g hm dm sip dip (encodeICMPEcho 128 0 id seq hello) := by
  unfold Gen.Send.ICMP6SendEchoRequest
  rw [if_neg (by simp [h3, h4])]
  have e := echo_built 128 id seq
  unfold hello at e
  simp only [e, bind_ok']
  have hl : (encodeICMPEcho 128 0 id seq hello).length = 23 := by simp [encodeICMPEcho, hello]
  unfold hello at hl
  exact icmp6SendPacket_tie g hm dm smac sip dip _ sport dport h1 h2 h3 h4 (by omega) (by omega) (by omega)

/-- the address-family guard of the echo senders -/
theorem icmp4SendEcho_invalid (g : Mem) (hm dm smac sip dip : Bytes) (sport dport id seq : Nat)
    (h : sip.length ≠ 4 ∨ dip.length ≠ 4) :
    Gen.Send.ICMP4SendEchoRequest g smac sip sport dm dip dport id seq hm = .err .invalidIP := by
  unfold Gen.Send.ICMP4SendEchoRequest
  rw [if_pos (by simpa using h)]

theorem icmp6SendEcho_invalid (g : Mem) (hm dm smac sip dip : Bytes) (sport dport id seq : Nat)
    (h : sip.length ≠ 16 ∨ dip.length ≠ 16) :
    Gen.Send.ICMP6SendEchoRequest g smac sip sport dm dip dport id seq hm = .err .invalidIP := by
  unfold Gen.Send.ICMP6SendEchoRequest
  rw [if_pos (by simpa using h)]

/-! ### arp_spoofer Request / RequestTo / Probe / AnnounceTo: the table of arp.go (who is asked, in whose name) -/

def bcast : Bytes := [255, 255, 255, 255, 255, 255]

/-- Request: broadcast, sender = the host address, target MAC ff:ff:ff:ff:ff:ff -/
theorem arpRequestHost_tie (g : Mem) (hostMAC hostIP tip : Bytes) (hport : Nat) (h6 : tip.length = 4) :
    Gen.Send.arp_spoofer_Request g tip hostMAC hostIP hport = sendARP g hostMAC bcast 1 hostMAC hostIP bcast tip := by
  unfold Gen.Send.arp_spoofer_Request
  rw [if_neg (by simp [h6])]
  exact requestRaw_tie g hostMAC bcast hostMAC hostIP bcast tip hport 0

theorem arpRequestHost_invalid (g : Mem) (hostMAC hostIP tip : Bytes) (hport : Nat) (h : tip.length ≠ 4) :
    Gen.Send.arp_spoofer_Request g tip hostMAC hostIP hport = .err .invalidIP := by
  unfold Gen.Send.arp_spoofer_Request
  rw [if_pos (by simpa using h)]

/-- RequestTo: unicast to `dst` -/
theorem arpRequestTo_tie (g : Mem) (dst hostMAC hostIP tip : Bytes) (hport : Nat) (h6 : tip.length = 4) :
    Gen.Send.arp_spoofer_RequestTo g dst tip hostMAC hostIP hport = sendARP g hostMAC dst 1 hostMAC hostIP bcast tip := by
  unfold Gen.Send.arp_spoofer_RequestTo
  rw [if_neg (by simp [h6])]
  exact requestRaw_tie g hostMAC dst hostMAC hostIP bcast tip hport 0

/-- Probe (RFC 5227): broadcast, sender IP 0.0.0.0, target MAC 00:00:00:00:00:00 -/
theorem arpProbe_tie (g : Mem) (hostMAC ip : Bytes) :
    Gen.Send.arp_spoofer_Probe g ip hostMAC = sendARP g hostMAC bcast 1 hostMAC [0, 0, 0, 0] [0, 0, 0, 0, 0, 0] ip := by
  unfold Gen.Send.arp_spoofer_Probe
  exact requestRaw_tie g hostMAC bcast hostMAC [0, 0, 0, 0] [0, 0, 0, 0, 0, 0] ip 0 0

/-- AnnounceTo: sender and target IP both the announced address -/
theorem arpAnnounceTo_tie (g : Mem) (dst hostMAC ip : Bytes) :
    Gen.Send.arp_spoofer_AnnounceTo g dst ip hostMAC = sendARP g hostMAC dst 1 hostMAC ip bcast ip := by
  unfold Gen.Send.arp_spoofer_AnnounceTo
  exact requestRaw_tie g hostMAC dst hostMAC ip bcast ip 0 0

/-! ### the lists emitted by the translator are the reviewed ones -/

theorem translated_accounted : Gen.Send.sendersTranslated =
    ["arpRequest", "arp_spoofer_RequestRaw", "arp_spoofer_reply", "dhcp4_spoofer_sendDHCP4Packet",
     "dns_naming_SendSSDPSearch", "dns_naming_sendMDNS", "dns_naming_sendNBNS", "icmp4SendPacket", "icmp6SendPacket"] := by decide

/-- the two DHCP client send paths are not translated (a `string` parameter / an option map: `EncodeDHCP4`) -/
theorem untranslated_accounted : Gen.Send.sendersUntranslated.map (·.1) =
    ["dhcp4_spoofer_SendDiscoverPacket", "dhcp4_spoofer_sendDeclineReleasePacket"] := by decide

theorem ignored_accounted : Gen.Send.sendersIgnored = ["defer EtherBufferPool.Put", "if Logger.IsDebug() { … }"] := by decide

theorem wrappers_accounted : Gen.Send.wrappersTranslated =
    ["ICMP4SendEchoRequest", "ICMP6SendEchoRequest", "ICMP6SendNeighborAdvertisement", "ICMP6SendNeighbourSolicitation",
     "ICMP6SendRouterSolicitation", "arp_spoofer_AnnounceTo", "arp_spoofer_Probe", "arp_spoofer_Reply", "arp_spoofer_Request", "arp_spoofer_RequestTo"] := by decide

/-- functions ending in a send-path call that are not translated: the RA sender (it builds its option list in loops;
    the RS sender is translated since builder T, Props/C07SendMarshal), and the NBNS / mDNS query builders (`string`
    names, dnsmessage) -/
theorem wrappers_untranslated_accounted : Gen.Send.wrappersUntranslated.map (·.1) =
    ["ICMP6SendRouterAdvertisement", "dns_naming_SendNBNSNodeStatus", "dns_naming_SendNBNSQuery",
     "dns_naming_SendSleepProxyResponse", "dns_naming_sendMDNSQuery"] := by decide

theorem dict_accounted : Gen.Send.sendersDict =
    ["Checksum = checksum", "Ether(make([]byte, N)) = a zeroed buffer of N bytes (the argument g is not used)",
     "Ether.Payload = etherPayloadSl (nil ↦ nilSl)",
     "marshalExternals = never reached (every option of the literal is translated)",
     "netip.Addr.IsLinkLocalUnicast || IsLinkLocalMulticast = isLLUorLLM",
     "package-level address variables of package packet = their initialisers"] := by decide

/-- which session value each regenerated function reads, by name and position: the Ethernet source is
    `NICInfo.HostAddr4.MAC` in every send path of the session (the theorems above bind it positionally) -/
theorem session_args_accounted : Gen.Send.sendersSessionArgs = [
    ("arpRequest", ["HostAddr4_MAC"]), ("arp_spoofer_RequestRaw", ["HostAddr4_MAC"]), ("arp_spoofer_reply", ["HostAddr4_MAC"]),
    ("dhcp4_spoofer_sendDHCP4Packet", []),
    ("dns_naming_SendSSDPSearch", ["HostAddr4_MAC", "ssdpIPv4Addr_MAC", "HostAddr4_IP", "ssdpIPv4Addr_IP", "mSearchString"]),
    ("dns_naming_sendMDNS", ["HostAddr4_MAC"]), ("dns_naming_sendNBNS", []),
    ("icmp4SendPacket", ["HostAddr4_MAC"]), ("icmp6SendPacket", ["HostAddr4_MAC"]),
    ("ICMP4SendEchoRequest", ["HostAddr4_MAC"]), ("ICMP6SendEchoRequest", ["HostAddr4_MAC"]),
    ("ICMP6SendNeighborAdvertisement", ["HostAddr4_MAC"]), ("ICMP6SendNeighbourSolicitation", ["HostAddr4_MAC"]),
    ("ICMP6SendRouterSolicitation", ["HostAddr4_MAC", "HostLLA_Addr"]),
    ("arp_spoofer_AnnounceTo", ["HostAddr4_MAC"]), ("arp_spoofer_Probe", ["HostAddr4_MAC"]), ("arp_spoofer_Reply", ["HostAddr4_MAC"]),
    ("arp_spoofer_Request", ["HostAddr4_MAC", "HostAddr4_IP", "HostAddr4_Port"]),
    ("arp_spoofer_RequestTo", ["HostAddr4_MAC", "HostAddr4_IP", "HostAddr4_Port"])] := by decide

theorem setChecksum_translated : Gen.Send.setChecksumTranslated = true := by decide

/-- non-vacuity: a regenerated send path produces a frame on real arguments -/
example : ∃ f, Gen.Send.arpRequest (List.replicate 1522 0xaa) [0xff,0xff,0xff,0xff,0xff,0xff] [2,0,0,0,0,1] [192,168,0,1] 0
    [0,0,0,0,0,0] [192,168,0,9] 0 [2,0,0,0,0,1] = .ok f :=
  ⟨_, (arpRequest_tie _ _ _ _ _ _ _ _ _).trans
    (sessionArpRequest_frame _ _ _ _ _ _ _ rfl rfl rfl rfl rfl rfl (by rw [List.length_replicate]; decide))⟩

end PV.Props.C07SendTie
