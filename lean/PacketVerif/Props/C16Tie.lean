/-
  Tie B for the second clause of C16 ("Parsing a well-formed frame of any protocol class from an already tracked
  host performs zero heap allocations") — the static half; the dynamic half is the AllocsPerRun measurement of
  every class in the C16 runner.

  On every run tools/goextract/allocs.go walks the static call graph below Session.Parse, minus the cuts listed
  in Gen.parseCuts, and collects every allocation site in what remains (Gen.parseAllocSites): the compiler's own
  escape-analysis verdicts (`go build -gcflags=-m`: "escapes to heap", "moved to heap") plus the syntactic sites
  the escape analysis does not report (append, map element assignment, go, defer in a loop, string
  concatenation/conversion, function literals, calls through interfaces or function values).

  `parse_steady_path_alloc_free` states that this list is exactly `reviewedAllocSites` — empty today.
  A change that copies a MAC, formats a string, boxes a value into an interface or lets a local escape on the hot
  path changes Gen/Facts.lean and breaks the theorem at build time, for every protocol class at once, whether or
  not the generated frames exercise that branch.  The cuts and the standard-library callees are pinned with a
  reason each, so widening a cut is a reviewed change of this file.
-/
import PacketVerif.Gen.Facts
namespace PV.Props.C16Tie
open PV

/-- the extractor could do its work: root found, every configured steady guard found, the compiler printed its
    escape-analysis diagnostics -/
theorem alloc_extractor_total : Gen.parseAllocUnknown = [] := by decide

/-- allocation sites on the steady path that are accepted, with the reason: (function, kind, site, reason) -/
def reviewedAllocSites : List (String × String × String × String) := []

/-- **the steady path of Parse contains no allocation site** (none that the compiler's escape analysis or the
    syntactic scan reports) -/
theorem parse_steady_path_alloc_free :
    Gen.parseAllocSites = reviewedAllocSites.map (fun s => (s.1, s.2.1, s.2.2.1)) := by decide +kernel

/-- the cuts of the steady path: (function, kind, what, reason) -/
def reviewedCuts : List (String × String × String × String) :=
  let wf := "well-formed frame: the validity check succeeds (the C16 runner measures only frames that Parse accepts with err = nil)"
  [ ("packet.Ether.IsValid", "errreturn", "return of a non-nil error", wf),
    ("packet.ICMP.IsValid", "errreturn", "return of a non-nil error", wf),
    ("packet.ICMPEcho.IsValid", "errreturn", "return of a non-nil error", wf),
    ("packet.IP4.IsValid", "errreturn", "return of a non-nil error", wf),
    ("packet.IP6.IsValid", "errreturn", "return of a non-nil error", wf),
    ("packet.Session.Parse", "errreturn", "return of a non-nil error", wf),
    ("packet.Session.checkOnlineTransition", "slowpath", "after `if host.Online`",
     "already tracked host: it is online, the transition (which logs and walks the host list) is not taken"),
    ("packet.Session.findOrCreateHostWithLock", "slowpath", "after `if found && bytes.Equal(host.MACEntry.MAC, addr.MAC)`",
     "already tracked host: the read-locked lookup finds it; creating a Host/MACEntry (which allocates) is the first-packet path"),
    ("packet.TCP.IsValid", "errreturn", "return of a non-nil error", wf),
    ("packet.UDP.IsValid", "errreturn", "return of a non-nil error", wf) ]

theorem parseCuts_reviewed : Gen.parseCuts = reviewedCuts.map (fun c => (c.1, c.2.1, c.2.2.1)) := by decide +kernel

/-- standard-library functions the steady path calls; none allocates (byte comparison, big-endian loads, netip
    value constructors/predicates on the 24-byte Addr value, mutexes, an atomic store, the clock) -/
def reviewedExternalCalls : List String := [
  "bytes.Equal", "encoding/binary.bigEndian.Uint16",
  "net/netip.Addr.IsGlobalUnicast", "net/netip.Addr.IsLinkLocalUnicast", "net/netip.AddrFrom16", "net/netip.AddrFrom4",
  "net/netip.Prefix.Contains",
  "sync.Mutex.Lock", "sync.Mutex.Unlock", "sync.RWMutex.Lock", "sync.RWMutex.RLock", "sync.RWMutex.RUnlock", "sync.RWMutex.Unlock",
  "sync/atomic.StoreUint32", "time.Now"]

theorem parseExternalCalls_reviewed : Gen.parseExternalCalls = reviewedExternalCalls := by decide +kernel

/-- the walk started at Parse and went through the host lookup (the facts are about the real hot path) -/
theorem steady_path_has_hot_functions :
    (["packet.Session.Parse", "packet.Session.findOrCreateHostWithLock", "packet.Session.checkOnlineTransition",
      "packet.Ether.IsValid", "packet.IP4.IsValid", "packet.IP6.IsValid", "packet.UDP.IsValid", "packet.TCP.IsValid"].all
      Gen.parseSteadyFuncs.contains) = true := by decide +kernel

end PV.Props.C16Tie
