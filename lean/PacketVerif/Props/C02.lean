/-
  C02 — Parse and the views decode frames exactly as an RFC reference decoder.
-/
import PacketVerif.Lemmas.Views
import PacketVerif.Lemmas.Parse
import PacketVerif.Spec.Decode
namespace PV.Props.C02
open PV PV.Model PV.Lemmas

/-- projection of what Parse returns onto the record of the reference decoder -/
def toDecoded (r : ParseRes) : Spec.Decoded :=
  { pid := r.frame.pid, ip4 := r.frame.offIP4, ip6 := r.frame.offIP6, udp := r.frame.offUDP, tcp := r.frame.offTCP,
    pay := r.frame.offPayload, srcMAC := r.frame.srcMAC, dstMAC := r.frame.dstMAC, srcIP := r.frame.srcIP,
    dstIP := r.frame.dstIP, srcPort := r.frame.srcPort, dstPort := r.frame.dstPort, host := r.frame.hostEv,
    echo := r.frame.echo, err := r.err.isSome }

def toSCfg (c : Cfg) : Spec.SCfg := ⟨c.hostMAC, c.routerMAC, c.lanAddr, c.lanBits⟩

/-- the ordered port `switch` of Parse and the documented first-match table classify every
    (source port, destination port) pair identically – all 2^32 pairs, incl. every precedence overlap -/
theorem udp_class_eq_table (sp dp : Nat) : udpClass sp dp = Spec.udpService sp dp :=
  Lemmas.udp_class_eq_table sp dp

/-- the EtherType cases that only classify agree with the documented L2 table -/
theorem ether_only_eq_table (et : Nat) : etherOnly et = Spec.l2Table.lookup et :=
  Lemmas.ether_only_eq_table et

/-- **Main theorem.**  For every configuration and every frame, Parse returns, and PayloadID, MACs, IPs,
    ports, presence and start offset of the IPv4/IPv6/UDP/TCP views, payload offset, tracked-host
    decision and echo-reply identifier equal the reference decoder's, and Parse reports an error
    exactly when the reference decoder finds a mandatory header truncated or length-inconsistent. -/
theorem parse_eq_spec (cfg : Cfg) (p : Bytes) :
    ∃ r, parse cfg p = .ok r ∧ toDecoded r = Spec.decode (toSCfg cfg) p :=
  parse_spec cfg p

/-! ### field getters sit at their RFC positions (the examples the property names, for all views) -/

/-- IPv4 fragment offset = low 13 bits of bytes 6–7 -/
theorem ip4_fragment (p : Bytes) (h : ip4Valid p = .ok ()) :
    (G.num (.or (.shl (.and (.byte 6) (.const 0x1f)) 8) (.byte 7))).eval p = .ok (.n (Spec.u16 p 6 % 8192)) :=
  Lemmas.ip4_fragment p h

/-- IPv4 payload spans IHL..TotalLen -/
theorem ip4_payload_span (p : Bytes) (h : ip4Valid p = .ok ()) :
    ip4Payload p = .ok (.span (Spec.at_ p 0 % 16 * 4) (Spec.u16 p 2 - Spec.at_ p 0 % 16 * 4)) :=
  ip4Payload_eq p h

/-- TCP payload starts at 4 × data offset -/
theorem tcp_payload_start (p : Bytes) (h : tcpValid p = .ok ()) :
    tcpPayload p = .ok (.span (Spec.at_ p 12 / 16 * 4) (p.length - Spec.at_ p 12 / 16 * 4)) :=
  tcpPayload_eq p h

/-- every 16-bit / 32-bit getter expression reads big-endian at its offset -/
theorem be16_value (p : Bytes) (k : Nat) (h : k + 2 ≤ p.length) : (NE.be16 k).eval p = .ok (Spec.u16 p k) :=
  Lemmas.be16_value p k h

theorem be32_value (p : Bytes) (k : Nat) (h : k + 4 ≤ p.length) :
    (NE.be32 k).eval p = .ok (((Spec.at_ p k * 256 + Spec.at_ p (k+1)) * 256 + Spec.at_ p (k+2)) * 256 + Spec.at_ p (k+3)) :=
  Lemmas.be32_value p k h

/-! ### non-vacuity -/

/-- a real UDP/DNS query (IPv4, 44 bytes) -/
def sampleFrame : Bytes :=
  [2,0,0,0,0,1, 2,0,0,0,0,5, 8,0, 0x45,0,0,30, 0,0,0,0, 64,17,0,0, 192,168,0,5, 8,8,8,8, 0x30,0x39, 0,53, 0,10, 0,0, 1,2]

/- the reference decoder accepts it (no error) and classifies it as DNS over UDP over IPv4 -/
set_option maxRecDepth 8000 in
example : Spec.decode (toSCfg ⟨[2,0,0,0,0,1], [2,0,0,0,0,0x11], [192,168,0,0], 24⟩) sampleFrame =
    { pid := 12, ip4 := 14, udp := 34, pay := 42, srcMAC := [2,0,0,0,0,5], dstMAC := [2,0,0,0,0,1],
      srcIP := [192,168,0,5], dstIP := [8,8,8,8], srcPort := 12345, dstPort := 53,
      host := some ([2,0,0,0,0,5], [192,168,0,5]) } := by decide

/- the hypotheses of the getter-position theorems are satisfiable -/
set_option maxRecDepth 8000 in
example : ip4Valid (sampleFrame.drop 14) = .ok () := by decide

set_option maxRecDepth 8000 in
example : tcpValid [0,80, 0,81, 0,0,0,1, 0,0,0,2, 0x50,0x10, 1,0, 0,0, 0,0, 7] = .ok () := by decide

end PV.Props.C02
