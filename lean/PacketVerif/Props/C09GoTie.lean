/-
  Tie B for the C09 clause "Close stops all background goroutines" — the static half; the dynamic half is the
  goroutine count after Close in harness/c09.

  tools/goextract/gostmts.go regenerates on every run, for every `go` statement of the module (Gen.goroutines):
  the starting function, the started function, the loop shape of the started code (incl. the module functions it
  calls), every syntactic way out of each unbounded loop with its guards, and the channel operations it can block on.
  `goroutines_reviewed` pins all of that against the table below, which adds the reviewed termination argument:

    stops    long-lived loop; an exit listed in the facts is reached after Session.Close / Handler.Close because
             Close closes the channel the loop selects on, or sets the flag the loop tests under the same mutex
    bounded  fire-and-forget: no unbounded loop (or one whose condition is a counter), ends by itself
    LEAK     no exit is reachable through Close — must be listed in `knownLeaks`

  A new `go` statement, a loop that loses its close test, a select that no longer listens on the close channel, or a
  started function that grows an unbounded loop changes Gen/LocksetFacts.lean and breaks `goroutines_reviewed`.
-/
import PacketVerif.Gen.LocksetFacts
namespace PV.Props.C09GoTie
open PV

/-- (starting function, started function, shape, exits, channel operations, verdict, reason) -/
def reviewed : List (String × String × String × List String × List String × String × String) := [
  ("arp_spoofer.Handler.StartHunt", "arp_spoofer.Handler.spoofLoop", "loop",
   ["arp_spoofer.Handler.spoofLoop: if !hunting || closed → return", "arp_spoofer.Handler.spoofLoop: if err != nil → return"],
   ["arp_spoofer.Handler.spoofLoop: <-h.closeChan", "arp_spoofer.Handler.spoofLoop: <-ticker"],
   "stops",
   "Handler.Close sets `closed` under arpMutex and closes closeChan; the select wakes on the closed channel (at the latest on the 6 s ticker) and the next iteration reads `closed` under arpMutex and returns; StopHunt removes the hunt entry, same test"),
  ("dhcp4_spoofer.Handler.forceDecline", "func literal", "loop",
   ["packet.EncodeDHCP4: loop condition n < 300 false → loop ends"], [],
   "bounded",
   "sends one DECLINE; the only loop is EncodeDHCP4's padding loop, whose counter n grows by one per iteration up to 300"),
  ("dhcp4_spoofer.Handler.forceRelease", "func literal", "loop",
   ["packet.EncodeDHCP4: loop condition n < 300 false → loop ends"], [],
   "bounded",
   "sends one RELEASE; padding loop as above"),
  ("dhcp4_spoofer.Handler.handleRequest", "dhcp4_spoofer.Handler.forceDecline", "loopfree", [], [],
   "bounded",
   "builds the options and starts the literal above; no loop, no channel operation"),
  ("icmp_spoofer.Handler6.StartHunt", "icmp_spoofer.Handler6.spoofLoop", "loop",
   ["icmp_spoofer.Handler6.spoofLoop: if h.huntList.Index(dstAddr.MAC) == -1 || h.closed → return"],
   ["icmp_spoofer.Handler6.spoofLoop: <-time.After(time.Millisecond*2000 + time.Duration(rand.Int31n(800)))", "icmp_spoofer.Handler6.spoofLoop: <-wakeup"],
   "stops",
   "Handler6.Close sets `closed` under the handler mutex and closes closeChan, which is the `wakeup` the loop took under the mutex (or the loop wakes after at most 2.8 s); the next iteration tests `closed` under the mutex and returns; StopHunt removes the MAC from huntList, same test"),
  ("icmp_spoofer.Handler6.startRADVS", "icmp_spoofer.RADVS.sendAdvertistementLoop", "loop",
   ["icmp_spoofer.RADVS.sendAdvertistementLoop: case <-r.stopChannel → return", "icmp_spoofer.RADVS.sendAdvertistementLoop: case <-ticker ∧ if closed → return"],
   ["icmp_spoofer.RADVS.sendAdvertistementLoop: <-r.stopChannel", "icmp_spoofer.RADVS.sendAdvertistementLoop: <-ticker"],
   "stops",
   "RADVS.Stop closes stopChannel and the select returns; Handler6.Close sets `closed` under the handler mutex and the loop reads it under the mutex on its next tick (at most one RetransTimer later) and returns, its deferred Stop releasing the ticker (fix d48a339; before it the loop ended only on RADVS.Stop and this row was the known leak)"),
  ("packet.Config.NewSession", "func literal", "loop",
   ["packet.Config.NewSession$go: case <-h.closeChan → return"],
   ["packet.Config.NewSession$go: <-h.closeChan", "packet.Config.NewSession$go: <-ticker.C"],
   "stops",
   "minute loop: Session.Close closes closeChan, the select returns"),
  ("packet.Config.NewSession", "func literal", "loop",
   ["packet.Config.NewSession$go: case <-session.closeChan → return"],
   ["packet.Config.NewSession$go: <-session.closeChan", "packet.Config.NewSession$go: <-ticker.C"],
   "stops",
   "NIC monitor: Session.Close closes closeChan, the select returns"),
  ("packet.Config.NewSession", "packet.Session.purge", "bounded", [],
   ["packet.Session.sendNotification: h.C <- notification"],
   "bounded",
   "one purge pass: loops over the host snapshot and the purge/offline lists only; the send on C is guarded by len < cap (buffered, 128). NOTE: a pass that is still running when Close closes C panics in this send (send on closed channel) — explored by the stress run, reported as a finding"),
  ("packet.Session.purge", "func literal", "bounded", [], [],
   "bounded",
   "probe goroutine: one ARP request / neighbour solicitation / echo request per address of the probe list")]

def key (r : String × String × String × List String × List String × String × String) :
    String × String × String × List String × List String :=
  (r.1, r.2.1, r.2.2.1, r.2.2.2.1, r.2.2.2.2.1)

/-- the extractor resolved every go statement -/
theorem goroutines_extractor_total : Gen.goroutinesUnknown = [] := by decide

/-- **every goroutine the module starts is one of the reviewed ones, with exactly the reviewed loop shape, loop exits and
    channel operations** -/
theorem goroutines_reviewed :
    Gen.goroutines.map (fun g => (g.1, g.2.1, g.2.2.1, g.2.2.2.1, g.2.2.2.2.1)) = reviewed.map key := by decide +kernel

/-- goroutines that Close cannot stop (defects, not repaired): none since fix d48a339 (RADVS loop) -/
def knownLeaks : List (String × String) := []

/-- every reviewed goroutine has a termination argument — except exactly the known leaks -/
theorem no_unreviewed_leak :
    (reviewed.filter (fun r => r.2.2.2.2.2.1 == "LEAK")).map (fun r => (r.1, r.2.1)) = knownLeaks ∧
    reviewed.all (fun r => r.2.2.2.2.2.1 == "stops" || r.2.2.2.2.2.1 == "bounded" || r.2.2.2.2.2.1 == "LEAK") = true := by
  decide +kernel

/-- a long-lived goroutine ("stops") has at least one exit in the facts; a "bounded" one has no exit-less unbounded loop -/
theorem stops_have_exits :
    reviewed.all (fun r => !(r.2.2.2.2.2.1 == "stops") || !r.2.2.2.1.isEmpty) = true ∧
    reviewed.all (fun r => !(r.2.2.1 == "loop") || !r.2.2.2.1.isEmpty) = true := by decide +kernel

end PV.Props.C09GoTie
