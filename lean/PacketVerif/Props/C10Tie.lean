/-
  C10 — retained state never aliases the caller's packet buffer.
  Pointer aliasing is a fact about the Go heap: no theorem about a value-semantics model can exhibit
  it, so C10 is decided by *translation validation*: every history is executed twice by the real code
  (shared receive buffer scribbled after every packet / private immutable buffers) and the transcripts
  must be identical (harness/c10).  The static half below is Tie B: the list of sites that store a
  byte-slice value into a record, field or map **without an evident copy**, regenerated from the Go
  source on every run, must equal the reviewed list.  Removing a CopyMAC/CopyIP/CopyBytes at a
  retention point, or adding a new aliasing store, changes Gen.aliasSites and breaks `aliasSites_tie`.
-/
import PacketVerif.Gen.Facts
import PacketVerif.Props.C10Prov
namespace PV.Props.C10Tie

/-- reviewed alias sites, with the reason each one is not a retention of the packet buffer.  An entry is
    `function:target=stored expression` (` xN` when the function has N such stores): composite literals of EVERY type are
    walked field by field (no exempt types), a store of a struct value that carries byte slices (`packet.Addr`, …) counts
    like a store of its slices, and the stored expression is part of the key — so `Host{Addr: Addr{MAC: addr.MAC}}` in place
    of `macEntry.MAC`, `lease.Addr = packet.Addr{MAC: mac}` in place of `CopyMAC(mac)`, or a second `opts[k] = clientID` each
    change this list. -/
def reviewed : List String := [
  "arp_spoofer.AnnounceTo:Addr{MAC}=h.session.NICInfo.HostAddr4.MAC",                    -- NIC / OS data, no packet buffer involved
  "arp_spoofer.Probe:Addr{MAC}=h.session.NICInfo.HostAddr4.MAC",                         -- NIC / OS data, no packet buffer involved
  "arp_spoofer.ProcessPacket:Addr{MAC}=arpFrame.SrcMAC() x2",                            -- transient destination address of a frame that is written before the call returns
  "arp_spoofer.ProcessPacket:Addr{MAC}=h.session.NICInfo.HostAddr4.MAC x2",              -- NIC / OS data, no packet buffer involved
  "arp_spoofer.RequestRaw:Addr{MAC}=dst",                                                -- transient destination address of a frame that is written before the call returns
  "arp_spoofer.StartHunt:map[h.huntList]=addr",                                          -- API argument of StartHunt: callers pass Host.Addr, whose MAC is the table copy; never a frame address
  "arp_spoofer.WhoIs:Addr{MAC}=host.MACEntry.MAC",                                       -- the table's private copy of the MAC (transient address of an outgoing frame)
  "arp_spoofer.reply:Addr{MAC}=dst",                                                     -- transient destination address of a frame that is written before the call returns
  "dhcp4_spoofer.CopyOptions:map[opts]=v",                                               -- copies the map, values alias the *source map* built by the server
  "dhcp4_spoofer.ProcessPacket:Addr{MAC}=frame.SrcAddr.MAC",                             -- transient destination address of a frame that is written before the call returns
  "dhcp4_spoofer.ProcessPacket:Addr{MAC}=h.session.NICInfo.HostAddr4.MAC",               -- NIC / OS data, no packet buffer involved
  "dhcp4_spoofer.SendDiscoverPacket:Addr{MAC}=h.session.NICInfo.HostAddr4.MAC",          -- NIC / OS data, no packet buffer involved
  "dhcp4_spoofer.SendDiscoverPacket:Addr{MAC}=h.session.NICInfo.RouterAddr4.MAC",        -- NIC / OS data, no packet buffer involved
  "dhcp4_spoofer.appendRouteOptions:map[h.options]=buf",                                 -- freshly built option bytes of the subnet
  "dhcp4_spoofer.forceDecline:map[opts]=clientID",                                       -- clientID was re-assigned from dupBytes two lines above; transient option map of an outgoing message
  "dhcp4_spoofer.forceRelease:map[opts]=clientID",                                       -- idem
  "dhcp4_spoofer.nakPacket:map[options]=[]byte(serverID)",                               -- transient option map encoded before the handler returns
  "dhcp4_spoofer.nakPacket:map[options]=clientID",                                       -- idem (aliases the request; encoded into the same buffer before return, C03 in-place theorem)
  "dhcp4_spoofer.sendDeclineReleasePacket:Addr{MAC}=h.session.NICInfo.HostAddr4.MAC",    -- NIC / OS data, no packet buffer involved
  "dhcp4_spoofer.sendDeclineReleasePacket:Addr{MAC}=h.session.NICInfo.RouterAddr4.MAC",  -- NIC / OS data, no packet buffer involved
  "icmp_spoofer.PingAll:Addr{MAC}=h.session.NICInfo.HostAddr4.MAC",                      -- NIC / OS data, no packet buffer involved
  "icmp_spoofer.ProcessPacket:Addr{MAC}=h.session.NICInfo.HostAddr4.MAC",                -- NIC / OS data, no packet buffer involved
  "icmp_spoofer.ProcessPacket:Addr{MAC}=pkt.Ether().Dst()",                              -- transient destination address of a frame that is written before the call returns
  "icmp_spoofer.ProcessPacket:Router.Options=options",                                   -- RETENTION of the parse result: every byte slice in NewOptions is copied by the option unmarshal functions (CopyBytes / CopyIP / CopyMAC / fresh Mask), see the unmarshal entries; harness/c10 drives RAs with every option kind
  "icmp_spoofer.spoofLoop:Addr{MAC}=h.session.NICInfo.HostAddr4.MAC x2",                 -- NIC / OS data, no packet buffer involved
  "icmp_spoofer.spoofLoop:Addr{MAC}=hostAddr.MAC",                                       -- the table's private copy of the MAC (transient address of an outgoing frame)
  "packet.Addrs:append(addr)=net.IP(p[:]) x2",                                           -- ICMP4Redirect.Addrs(): a view getter, aliasing by design (C16)
  "packet.DHCPv4Update:Addr{MAC}=mac",                                                   -- lookup key handed to findOrCreateHostWithLock, which copies
  "packet.DecodeQuestion:Question.Name=name",                                            -- returned to the caller, converted with string(...) before being stored
  "packet.FindByMAC:Addr{MAC}=v.MACEntry.MAC",                                           -- the table's private copy of the MAC (transient address of an outgoing frame)
  "packet.GetIP4DefaultGatewayAddr:Addr.MAC=v.MAC",                                      -- NIC / OS data, no packet buffer involved
  "packet.GetNICInfo:Addr{MAC}=defaultGW.MAC",                                           -- NIC / OS data, no packet buffer involved
  "packet.GetNICInfo:Addr{MAC}=info.IFI.HardwareAddr",                                   -- NIC / OS data, no packet buffer involved
  "packet.ICMP6SendRouterAdvertisement:Addr{MAC}=h.NICInfo.HostAddr4.MAC",               -- NIC / OS data, no packet buffer involved
  "packet.ICMP6SendRouterAdvertisement:LinkLayerAddress{MAC}=h.NICInfo.HostAddr4.MAC",   -- NIC / OS data, no packet buffer involved
  "packet.ICMP6SendRouterAdvertisement:PrefixInformation{Prefix}=prefix.Prefix",         -- transient option of an outgoing message (router table value)
  "packet.ICMP6SendRouterAdvertisement:RecursiveDNSServer{Servers}=rdnss.Servers",       -- idem
  "packet.ICMP6SendRouterSolicitation:Addr{MAC}=h.NICInfo.HostAddr4.MAC",                -- NIC / OS data, no packet buffer involved
  "packet.ICMP6SendRouterSolicitation:LinkLayerAddress{MAC}=h.NICInfo.HostAddr4.MAC",    -- NIC / OS data, no packet buffer involved
  "packet.LinuxConfigureInterface:IPNet{Mask}=net.CIDRMask(gw.Bits(),?)",                -- NIC / OS data, no packet buffer involved
  "packet.LinuxConfigureInterface:IPNet{Mask}=net.CIDRMask(hostIP.Bits(),?)",            -- NIC / OS data, no packet buffer involved
  "packet.LinuxConfigureInterface:IPNet{Mask}=net.CIDRMask(newIP.Bits(),?)",             -- NIC / OS data, no packet buffer involved
  "packet.LoadLinuxARPTable:Addr{MAC}=mac",                                              -- NIC / OS data, no packet buffer involved
  "packet.LocalAddr:Addr{MAC}=p.ifi.HardwareAddr",                                       -- NIC / OS data, no packet buffer involved
  "packet.Parse:Addr.MAC=frame.ether.Dst()",                                             -- the returned Frame is a zero-copy view by design (C16)
  "packet.Parse:Addr.MAC=frame.ether.Src()",                                             -- idem
  "packet.Parse:Addr{MAC}=net.HardwareAddr(arp[:])",                                     -- lookup key handed to findOrCreateHostWithLock, which copies (MACTable.findOrCreate: CopyMAC)
  "packet.Parse:Frame.ether=p",                                                          -- zero-copy view by design (C16)
  "packet.ParseOptions:map[options]=opts[:]",                                            -- documented: returned option values alias the packet; consumers copy
  "packet.ReadFrom:Addr{MAC}=mac",                                                       -- NIC / OS data, no packet buffer involved
  "packet.ValidateDefaultRouter:Addr{MAC}=h.NICInfo.HostAddr4.MAC x2",                   -- NIC / OS data, no packet buffer involved
  "packet.arpRequest:Addr{MAC}=dst",                                                     -- transient destination address of a frame that is written before the call returns
  "packet.findOrCreateHostWithLock:Addr{MAC}=macEntry.MAC",                              -- THE main retention of a MAC: the MAC entry's private copy (MACTable.findOrCreate: CopyMAC), not the caller's addr.MAC
  "packet.marshal:RawOption{Value}=lla.MAC",                                             -- outgoing message
  "packet.marshal:RawOption{Value}=value",                                               -- outgoing message
  "packet.newParseOptions:NewOptions.FirstPrefix=options.Prefixes[].Prefix",             -- value already copied by PrefixInformation.unmarshal
  "packet.newParseOptions:NewOptions.RouteInformation=ri",                               -- parsed by RouteInformation.unmarshal, which copies the prefix
  "packet.purge:Addr{MAC}=h.NICInfo.HostAddr4.MAC",                                      -- NIC / OS data, no packet buffer involved
  "packet.toNotification:Notification{Addr}=host.Addr",                                  -- value copy of the table entry; its MAC is the table's private copy
  "packet.unmarshal:PrefixInformation.Prefix=net.IP(addr.AsSlice()).Mask(mask)"]         -- AsSlice and Mask allocate

theorem aliasSites_tie : Gen.aliasSites = reviewed := by decide

/-- the struct-valued arguments of go statements (the byte-slice ones are all evident copies) -/
def reviewedGo : List String := [
  "arp_spoofer.StartHunt:go spoofLoop(addr)",     -- API argument of StartHunt: callers pass Host.Addr (table copy of the MAC), never a frame address
  "icmp_spoofer.StartHunt:go spoofLoop(addr)"]    -- idem

/-- A goroutine started by a handler outlives the handler's return, i.e. the moment the packet loop reuses its
    receive buffer: every byte-slice argument of every `go` statement of the library is an evident copy
    (`dupBytes`, `dupMAC`, `CopyBytes`, …); struct values that carry byte slices are listed and reviewed.  Passing `clientID`, `p.CHAddr()` or `p.XId()` as they are to
    `go h.forceDecline(…)` puts an entry into `Gen.goAliasArgs` and breaks this theorem (the dynamic half —
    harness/c10 runs the secondary modes on one P and awaits the background senders — then shows the garbled
    DECLINE frames). -/
theorem goAliasArgs_tie : Gen.goAliasArgs = reviewedGo := by decide

/-! ## the provenance tie (F11): the regenerated site table instantiates the machine of Model/Prov.lean -/
open PV.Prov

def srcOf : Nat × Nat → Src
  | (0, _) => .heap
  | (1, _) => .pkt
  | (2, c) => .cls c
  | _ => .unknown

/-- the site table of the Go code, regenerated from the source on every run -/
def codeTable : List Site := Gen.provSites.map fun x => ⟨x.1, x.2.1, x.2.2.map srcOf⟩

def className (c : Nat) : String := Gen.provClassNames.getD c "?"

/-- a retention class (record field reached through a pointer, package variable, goroutine arguments, channel, external
    callee, closure) as opposed to the parameter pseudo-classes arg:f#i / argout:f#i -/
def isRetention (c : Nat) : Bool := c < Gen.provPseudoFrom

/-- the classes that may hold a reference into a packet buffer: the certificate computed by the extractor (a bit mask) -/
def codeTaint : ClassSet := maskSet Gen.provTaintMask

/-- the sites that store a possibly packet-derived reference into a retention class: (site, class) -/
def taintingSites : List (String × String) :=
  (codeTable.filter fun s => isRetention s.cls && anyTainted codeTaint s.rhs).map fun s => (s.name, className s.cls)

/-- the retention classes that may hold a reference the library did not allocate -/
def taintedRetention : List String := ((List.range Gen.provPseudoFrom).filter codeTaint).map className

/-- the mask is the list `Gen.provTaint` (kept for reading) -/
theorem prov_taint_mask : maskOf Gen.provTaint = Gen.provTaintMask := by decide +kernel

/-- the translator understood every expression and callee it met on a tracked value -/
theorem prov_no_unknown : Gen.provUnknown = [] := by decide

set_option maxRecDepth 100000 in
/-- the certificate of the extractor IS closed under the regenerated table (checked here, not trusted) -/
theorem prov_taint_closed : closedB codeTaint codeTable = true := by decide +kernel

/-- reviewed: every site that stores into a retention class something that is not (derived only from) heap, with the reason.
    All of them store an ARGUMENT OF AN EXPORTED FUNCTION that is not packet data by the API's contract, or live in a
    local parser object; none is reached from Session.Parse / ProcessPacket with a slice of the frame. -/
def reviewedTainting : List ((String × String) × String) := [
  (("arp_spoofer.Handler.StartHunt:arp_spoofer.Handler.huntList=addr", "arp_spoofer.Handler.huntList"),
     "API argument of StartHunt: callers pass Host.Addr, whose MAC is the table's private copy; never a frame address"),
  (("dns_naming.DNSHandler.ProcessMDNS:p=golang.org/x/net/dns/dnsmessage.Parser.Start", "dnsmessage.Parser.msg"),
     "the dnsmessage.Parser is a local variable of ProcessMDNS, dead when it returns; what is taken out of it is strings and fixed-size arrays"),
  (("dns_naming.DNSHandler.ProcessNBNS:p=golang.org/x/net/dns/dnsmessage.Parser.Start", "dnsmessage.Parser.msg"),
     "idem (ProcessNBNS)"),
  (("arp_spoofer.Handler.StartHunt:go arp_spoofer.Handler.spoofLoop(addr)", "go:arp_spoofer.Handler.spoofLoop"),
     "API argument of StartHunt handed to the hunt goroutine (see huntList)"),
  (("icmp_spoofer.Handler6.StartHunt:go icmp_spoofer.Handler6.spoofLoop(addr)", "go:icmp_spoofer.Handler6.spoofLoop"),
     "API argument of Handler6.StartHunt handed to the hunt goroutine"),
  (("icmp_spoofer.Handler6.startRADVS:icmp_spoofer.Router.Prefixes=prefixes", "icmp_spoofer.Router.Prefixes"),
     "API argument of StartRADVS (the operator's prefix configuration) stored as given; the prefixes of a received RA are copies (PrefixInformation.unmarshal)"),
  (("packet.AddrList.Add:packet.AddrList.list=append(s.list,addr)", "packet.AddrList.list"),
     "the icmp6 hunt list: receives the API argument of Handler6.StartHunt"),
  (("packet.AddrList.Del:packet.AddrList.list=s.list[:]", "packet.AddrList.list"),
     "re-slice of the same list"),
  (("packet.Config.NewSession:packet.Session.Conn=config.Conn", "packet.Session.Conn"),
     "the connection object the application supplies")]

set_option maxRecDepth 100000 in
/-- **retention_sites_heap.**  Every regenerated retention site stores heap (or a value derived only from classes that hold
    heap), or is on the reviewed list.  Dropping a CopyMAC / CopyIP / CopyBytes / dupBytes on a retention path, storing a
    frame field, passing a packet slice to a goroutine or sending one on a channel adds an entry and breaks this theorem. -/
theorem retention_sites_heap : taintingSites = reviewedTainting.map (·.1) := by decide +kernel

set_option maxRecDepth 100000 in
/-- the classes the theorem below does NOT speak about (exactly the classes of the reviewed sites) -/
theorem tainted_retention_classes : taintedRetention =
    ["arp_spoofer.Handler.huntList", "dnsmessage.Parser.msg", "go:arp_spoofer.Handler.spoofLoop",
     "go:icmp_spoofer.Handler6.spoofLoop", "icmp_spoofer.Router.Prefixes", "packet.AddrList.list", "packet.Session.Conn"] := by decide +kernel

/-- reviewed: `&T{…}` records that are built for an outgoing message and dropped on return; the extractor does not count
    their fields as stores into the class T.f (assumption: the record is not reachable from retained state) -/
def reviewedTransient : List (String × String) := [
  ("arp_spoofer.Handler.RequestRaw:packet.Addr{MAC}=dst", "destination address of the frame written by WriteTo before the function returns"),
  ("arp_spoofer.Handler.reply:packet.Addr{MAC}=dst", "idem"),
  ("packet.LinkLayerAddress.marshal:packet.RawOption{Value}=lla.MAC", "raw option of the message being marshalled; marshal copies Value into the fresh output"),
  ("packet.Session.ICMP6SendRouterAdvertisement:packet.PrefixInformation{Prefix}=prefix.Prefix", "option record of the outgoing RA, marshalled (copy) before the function returns")]

theorem transient_literals_tie : Gen.provTransientLits = reviewedTransient.map (·.1) := by decide

/-- reviewed: library functions whose result the extractor takes to be fresh although the body does not show it:
    CopyIP returns `srcIP.To16()` when len(srcIP) = 4, and To16 of a 4-byte IP allocates (net.IPv4) -/
theorem summary_overrides_tie : Gen.provSummaryOverrides = ["packet.CopyIP"] := by decide

set_option maxRecDepth 100000 in
/-- the retention paths the property names are classes of the table and are NOT among the excluded ones -/
def namedPaths : List String :=
  ["packet.MACEntry.MAC", "packet.Host.Addr", "dhcp4_spoofer.Lease.Addr", "dhcp4_spoofer.Lease.ClientID", "dhcp4_spoofer.Lease.XID",
   "icmp_spoofer.Router.Addr", "icmp_spoofer.Router.Options", "packet.RecursiveDNSServer.Servers", "packet.PrefixInformation.Prefix",
   "packet.RouteInformation.Prefix", "packet.LinkLayerAddress.MAC", "packet.Session.C", "go:dhcp4_spoofer.Handler.forceDecline",
   "go:dhcp4_spoofer.Handler.forceDecline.func", "go:dhcp4_spoofer.Handler.forceRelease.func", "go:packet.Session.purge.func",
   "dns_naming.DNSHandler.mdnsCache"]

def classId (n : String) : Option Nat :=
  let i := Gen.provClassNames.idxOf n
  if i < Gen.provClassNames.length then some i else none

theorem named_paths_covered :
    namedPaths.all (fun n => match classId n with
      | some c => isRetention c && !codeTaint c
      | none => false) = true := by decide +kernel

/-- **code_retains_no_alias.**  For every history of the provenance machine over the site table regenerated from the Go
    source — any packets, any executions of any sites, any deletions — every reference retained in a class outside
    `codeTaint` (in particular in every class of `namedPaths`) is private memory of the library; hence … -/
theorem code_retains_no_alias (ops : List Op) :
    ∀ p ∈ run codeTable [] ops, codeTaint p.1 = false → p.2.isHeap = true :=
  C10Prov.no_retained_alias_outside codeTable codeTaint prov_taint_closed [] (fun _ h => nomatch h) ops

/-- … overwriting any buffer the caller ever handed over changes nothing an observer of those classes can see. -/
theorem code_overwrite_invisible (ops : List Op) (σ σ' : Store) :
    observe codeTaint σ (run codeTable [] ops) = observe codeTaint σ' (run codeTable [] ops) :=
  C10Prov.overwrite_invisible codeTable codeTaint prov_taint_closed ops σ σ'

-- non-vacuity: the table is not empty, the excluded set is a small part of the retention classes, and the machine over the
-- real table does retain something: the site MACTable.findOrCreate stores a copy
set_option maxRecDepth 100000 in
example : codeTable.length > 500 ∧ taintedRetention.length = 7 ∧ Gen.provPseudoFrom > 50 := by decide +kernel

end PV.Props.C10Tie
