/-
  C10 — retained state never aliases the caller's packet buffer.
  Pointer aliasing is a fact about the Go heap: no theorem about a value-semantics model can exhibit
  it, so C10 is decided by *translation validation*: every history is executed twice by the real code
  (shared receive buffer scribbled after every packet / private immutable buffers) and the transcripts
  must be identical (harness/c10).  The static half below is Tie B: the list of sites that store a
  byte-slice value into a record, field or map **without an evident copy**, regenerated from the Go
  source on every run, must equal the reviewed list.  Removing a CopyMAC/CopyIP/CopyBytes at a
  retention point, or adding a new aliasing store, changes Gen.aliasSites and breaks `aliasSites_tie`.
-/
import PacketVerif.Gen.Facts
namespace PV.Props.C10Tie

/-- reviewed alias sites, with the reason each one is not a retention of the packet buffer -/
def reviewed : List String := [
  "dhcp4_spoofer.CopyOptions:map[opts]",                      -- copies the map, values alias the *source map* built by the server
  "dhcp4_spoofer.appendRouteOptions:map[h.options]",          -- values are freshly built option byte strings of the subnet
  "dhcp4_spoofer.forceDecline:map[opts]",                     -- transient option map of an outgoing client message
  "dhcp4_spoofer.forceRelease:map[opts]",                     -- idem
  "dhcp4_spoofer.nakPacket:map[options]",                     -- transient option map encoded before the handler returns
  "packet.Addrs:append(addr)",                                -- ICMP4Redirect.Addrs(): a view getter, aliasing by design (C16)
  "packet.DecodeQuestion:Question.Name",                      -- returned to the caller, converted with string(...) before being stored
  "packet.GetIP4DefaultGatewayAddr:Addr.MAC",                 -- OS probing, no packet involved
  "packet.ICMP6SendRouterAdvertisement:LinkLayerAddress{MAC}",-- transient option of an outgoing message (NIC MAC)
  "packet.ICMP6SendRouterAdvertisement:PrefixInformation{Prefix}", -- idem (router table value)
  "packet.ICMP6SendRouterSolicitation:LinkLayerAddress{MAC}", -- idem
  "packet.LinuxConfigureInterface:IPNet{Mask}",               -- OS configuration, no packet involved
  "packet.Parse:Addr.MAC",                                    -- the returned Frame is a zero-copy view by design (C16)
  "packet.Parse:Frame.ether",                                 -- idem
  "packet.ParseOptions:map[options]",                         -- documented: returned option values alias the packet; consumers copy
  "packet.marshal:RawOption{Value}",                          -- outgoing message
  "packet.newParseOptions:NewOptions.FirstPrefix",            -- transient parse result; icmp6radv copies what it keeps
  "packet.unmarshal:PrefixInformation.Prefix"]                -- idem

theorem aliasSites_tie : Gen.aliasSites = reviewed := by decide

/-- A goroutine started by a handler outlives the handler's return, i.e. the moment the packet loop reuses its
    receive buffer: every byte-slice argument of every `go` statement of the library is an evident copy
    (`dupBytes`, `dupMAC`, `CopyBytes`, …).  Passing `clientID`, `p.CHAddr()` or `p.XId()` as they are to
    `go h.forceDecline(…)` puts an entry into `Gen.goAliasArgs` and breaks this theorem (the dynamic half —
    harness/c10 runs the secondary modes on one P and awaits the background senders — then shows the garbled
    DECLINE frames). -/
theorem goAliasArgs_tie : Gen.goAliasArgs = [] := by decide

end PV.Props.C10Tie
