/-
  C10 — retained state never aliases the caller's packet buffer.
  Pointer aliasing is a fact about the Go heap: no theorem about a value-semantics model can exhibit
  it, so C10 is decided by *translation validation*: every history is executed twice by the real code
  (shared receive buffer scribbled after every packet / private immutable buffers) and the transcripts
  must be identical (harness/c10).  The static half below is Tie B: the list of sites that store a
  byte-slice value into a record, field or map **without an evident copy**, regenerated from the Go
  source on every run, must equal the reviewed list.  Removing a CopyMAC/CopyIP/CopyBytes at a
  retention point, or adding a new aliasing store, changes Gen.aliasSites and breaks `aliasSites_tie`.
-/
import PacketVerif.Gen.Facts
namespace PV.Props.C10Tie

/-- reviewed alias sites, with the reason each one is not a retention of the packet buffer.  An entry is
    `function:target=stored expression` (` xN` when the function has N such stores): composite literals of EVERY type are
    walked field by field (no exempt types), a store of a struct value that carries byte slices (`packet.Addr`, …) counts
    like a store of its slices, and the stored expression is part of the key — so `Host{Addr: Addr{MAC: addr.MAC}}` in place
    of `macEntry.MAC`, `lease.Addr = packet.Addr{MAC: mac}` in place of `CopyMAC(mac)`, or a second `opts[k] = clientID` each
    change this list. -/
def reviewed : List String := [
  "arp_spoofer.AnnounceTo:Addr{MAC}=h.session.NICInfo.HostAddr4.MAC",                    -- NIC / OS data, no packet buffer involved
  "arp_spoofer.Probe:Addr{MAC}=h.session.NICInfo.HostAddr4.MAC",                         -- NIC / OS data, no packet buffer involved
  "arp_spoofer.ProcessPacket:Addr{MAC}=arpFrame.SrcMAC() x2",                            -- transient destination address of a frame that is written before the call returns
  "arp_spoofer.ProcessPacket:Addr{MAC}=h.session.NICInfo.HostAddr4.MAC x2",              -- NIC / OS data, no packet buffer involved
  "arp_spoofer.RequestRaw:Addr{MAC}=dst",                                                -- transient destination address of a frame that is written before the call returns
  "arp_spoofer.StartHunt:map[h.huntList]=addr",                                          -- API argument of StartHunt: callers pass Host.Addr, whose MAC is the table copy; never a frame address
  "arp_spoofer.WhoIs:Addr{MAC}=host.MACEntry.MAC",                                       -- the table's private copy of the MAC (transient address of an outgoing frame)
  "arp_spoofer.reply:Addr{MAC}=dst",                                                     -- transient destination address of a frame that is written before the call returns
  "dhcp4_spoofer.CopyOptions:map[opts]=v",                                               -- copies the map, values alias the *source map* built by the server
  "dhcp4_spoofer.ProcessPacket:Addr{MAC}=frame.SrcAddr.MAC",                             -- transient destination address of a frame that is written before the call returns
  "dhcp4_spoofer.ProcessPacket:Addr{MAC}=h.session.NICInfo.HostAddr4.MAC",               -- NIC / OS data, no packet buffer involved
  "dhcp4_spoofer.SendDiscoverPacket:Addr{MAC}=h.session.NICInfo.HostAddr4.MAC",          -- NIC / OS data, no packet buffer involved
  "dhcp4_spoofer.SendDiscoverPacket:Addr{MAC}=h.session.NICInfo.RouterAddr4.MAC",        -- NIC / OS data, no packet buffer involved
  "dhcp4_spoofer.appendRouteOptions:map[h.options]=buf",                                 -- freshly built option bytes of the subnet
  "dhcp4_spoofer.forceDecline:map[opts]=clientID",                                       -- clientID was re-assigned from dupBytes two lines above; transient option map of an outgoing message
  "dhcp4_spoofer.forceRelease:map[opts]=clientID",                                       -- idem
  "dhcp4_spoofer.nakPacket:map[options]=[]byte(serverID)",                               -- transient option map encoded before the handler returns
  "dhcp4_spoofer.nakPacket:map[options]=clientID",                                       -- idem (aliases the request; encoded into the same buffer before return, C03 in-place theorem)
  "dhcp4_spoofer.sendDeclineReleasePacket:Addr{MAC}=h.session.NICInfo.HostAddr4.MAC",    -- NIC / OS data, no packet buffer involved
  "dhcp4_spoofer.sendDeclineReleasePacket:Addr{MAC}=h.session.NICInfo.RouterAddr4.MAC",  -- NIC / OS data, no packet buffer involved
  "icmp_spoofer.PingAll:Addr{MAC}=h.session.NICInfo.HostAddr4.MAC",                      -- NIC / OS data, no packet buffer involved
  "icmp_spoofer.ProcessPacket:Addr{MAC}=h.session.NICInfo.HostAddr4.MAC",                -- NIC / OS data, no packet buffer involved
  "icmp_spoofer.ProcessPacket:Addr{MAC}=pkt.Ether().Dst()",                              -- transient destination address of a frame that is written before the call returns
  "icmp_spoofer.ProcessPacket:Router.Options=options",                                   -- RETENTION of the parse result: every byte slice in NewOptions is copied by the option unmarshal functions (CopyBytes / CopyIP / CopyMAC / fresh Mask), see the unmarshal entries; harness/c10 drives RAs with every option kind
  "icmp_spoofer.spoofLoop:Addr{MAC}=h.session.NICInfo.HostAddr4.MAC x2",                 -- NIC / OS data, no packet buffer involved
  "icmp_spoofer.spoofLoop:Addr{MAC}=hostAddr.MAC",                                       -- the table's private copy of the MAC (transient address of an outgoing frame)
  "packet.Addrs:append(addr)=net.IP(p[:]) x2",                                           -- ICMP4Redirect.Addrs(): a view getter, aliasing by design (C16)
  "packet.DHCPv4Update:Addr{MAC}=mac",                                                   -- lookup key handed to findOrCreateHostWithLock, which copies
  "packet.DecodeQuestion:Question.Name=name",                                            -- returned to the caller, converted with string(...) before being stored
  "packet.FindByMAC:Addr{MAC}=v.MACEntry.MAC",                                           -- the table's private copy of the MAC (transient address of an outgoing frame)
  "packet.GetIP4DefaultGatewayAddr:Addr.MAC=v.MAC",                                      -- NIC / OS data, no packet buffer involved
  "packet.GetNICInfo:Addr{MAC}=defaultGW.MAC",                                           -- NIC / OS data, no packet buffer involved
  "packet.GetNICInfo:Addr{MAC}=info.IFI.HardwareAddr",                                   -- NIC / OS data, no packet buffer involved
  "packet.ICMP6SendRouterAdvertisement:Addr{MAC}=h.NICInfo.HostAddr4.MAC",               -- NIC / OS data, no packet buffer involved
  "packet.ICMP6SendRouterAdvertisement:LinkLayerAddress{MAC}=h.NICInfo.HostAddr4.MAC",   -- NIC / OS data, no packet buffer involved
  "packet.ICMP6SendRouterAdvertisement:PrefixInformation{Prefix}=prefix.Prefix",         -- transient option of an outgoing message (router table value)
  "packet.ICMP6SendRouterAdvertisement:RecursiveDNSServer{Servers}=rdnss.Servers",       -- idem
  "packet.ICMP6SendRouterSolicitation:Addr{MAC}=h.NICInfo.HostAddr4.MAC",                -- NIC / OS data, no packet buffer involved
  "packet.ICMP6SendRouterSolicitation:LinkLayerAddress{MAC}=h.NICInfo.HostAddr4.MAC",    -- NIC / OS data, no packet buffer involved
  "packet.LinuxConfigureInterface:IPNet{Mask}=net.CIDRMask(gw.Bits(),?)",                -- NIC / OS data, no packet buffer involved
  "packet.LinuxConfigureInterface:IPNet{Mask}=net.CIDRMask(hostIP.Bits(),?)",            -- NIC / OS data, no packet buffer involved
  "packet.LinuxConfigureInterface:IPNet{Mask}=net.CIDRMask(newIP.Bits(),?)",             -- NIC / OS data, no packet buffer involved
  "packet.LoadLinuxARPTable:Addr{MAC}=mac",                                              -- NIC / OS data, no packet buffer involved
  "packet.LocalAddr:Addr{MAC}=p.ifi.HardwareAddr",                                       -- NIC / OS data, no packet buffer involved
  "packet.Parse:Addr.MAC=frame.ether.Dst()",                                             -- the returned Frame is a zero-copy view by design (C16)
  "packet.Parse:Addr.MAC=frame.ether.Src()",                                             -- idem
  "packet.Parse:Addr{MAC}=net.HardwareAddr(arp[:])",                                     -- lookup key handed to findOrCreateHostWithLock, which copies (MACTable.findOrCreate: CopyMAC)
  "packet.Parse:Frame.ether=p",                                                          -- zero-copy view by design (C16)
  "packet.ParseOptions:map[options]=opts[:]",                                            -- documented: returned option values alias the packet; consumers copy
  "packet.ReadFrom:Addr{MAC}=mac",                                                       -- NIC / OS data, no packet buffer involved
  "packet.ValidateDefaultRouter:Addr{MAC}=h.NICInfo.HostAddr4.MAC x2",                   -- NIC / OS data, no packet buffer involved
  "packet.arpRequest:Addr{MAC}=dst",                                                     -- transient destination address of a frame that is written before the call returns
  "packet.findOrCreateHostWithLock:Addr{MAC}=macEntry.MAC",                              -- THE main retention of a MAC: the MAC entry's private copy (MACTable.findOrCreate: CopyMAC), not the caller's addr.MAC
  "packet.marshal:RawOption{Value}=lla.MAC",                                             -- outgoing message
  "packet.marshal:RawOption{Value}=value",                                               -- outgoing message
  "packet.newParseOptions:NewOptions.FirstPrefix=options.Prefixes[].Prefix",             -- value already copied by PrefixInformation.unmarshal
  "packet.newParseOptions:NewOptions.RouteInformation=ri",                               -- parsed by RouteInformation.unmarshal, which copies the prefix
  "packet.purge:Addr{MAC}=h.NICInfo.HostAddr4.MAC",                                      -- NIC / OS data, no packet buffer involved
  "packet.toNotification:Notification{Addr}=host.Addr",                                  -- value copy of the table entry; its MAC is the table's private copy
  "packet.unmarshal:PrefixInformation.Prefix=net.IP(addr.AsSlice()).Mask(mask)"]         -- AsSlice and Mask allocate

theorem aliasSites_tie : Gen.aliasSites = reviewed := by decide

/-- the struct-valued arguments of go statements (the byte-slice ones are all evident copies) -/
def reviewedGo : List String := [
  "arp_spoofer.StartHunt:go spoofLoop(addr)",     -- API argument of StartHunt: callers pass Host.Addr (table copy of the MAC), never a frame address
  "icmp_spoofer.StartHunt:go spoofLoop(addr)"]    -- idem

/-- A goroutine started by a handler outlives the handler's return, i.e. the moment the packet loop reuses its
    receive buffer: every byte-slice argument of every `go` statement of the library is an evident copy
    (`dupBytes`, `dupMAC`, `CopyBytes`, …); struct values that carry byte slices are listed and reviewed.  Passing `clientID`, `p.CHAddr()` or `p.XId()` as they are to
    `go h.forceDecline(…)` puts an entry into `Gen.goAliasArgs` and breaks this theorem (the dynamic half —
    harness/c10 runs the secondary modes on one P and awaits the background senders — then shows the garbled
    DECLINE frames). -/
theorem goAliasArgs_tie : Gen.goAliasArgs = reviewedGo := by decide

end PV.Props.C10Tie
