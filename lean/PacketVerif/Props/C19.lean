/-
  C19 — Ping completes exactly on a matching echo reply.
  Property theorems over ALL traces of the ping machine (Model/Ping.lean); the invariants and their
  preservation proofs are in Lemmas/Ping.lean.

  Wall-clock part ("before the timeout"): `time.After` is the nondeterministic `timeout` transition,
  enabled whenever a call waits; the theorems therefore say "before the call unregistered" and the
  harness measures the real latency.
-/
import PacketVerif.Lemmas.Ping
namespace PV.Props.C19
open PV PV.Model.Ping PV.Lemmas.Ping

/-- **Result of a finished call.**  On every trace on which the identifier counter does not wrap,
    a finished call returned `nil` iff its request was sent and an echo reply carrying its own
    identifier was parsed between its registration and its unregistration (`seen`); it returned
    `ErrTimeout` iff the request was sent and no such reply was parsed; it returned the send error
    iff the send failed. -/
theorem ping_nil_iff (id0 : Nat) (tr : List Event) (s : State)
    (hr : run (init id0) tr = some s) (hn : NoWrap (init id0) tr) (p : Nat)
    (hd : (s.th p).pc = .done) :
    ((s.th p).ret = .nil ↔ ((s.th p).sent = true ∧ (s.th p).seen = true)) ∧
    ((s.th p).ret = .timeout ↔ ((s.th p).sent = true ∧ (s.th p).seen = false)) ∧
    ((s.th p).ret = .sendErr ↔ (s.th p).sent = false) :=
  (inv_run (inv_init id0) hn hr).doneRet p hd

/-- the history variable `seen` of a call is set by exactly one kind of step: an echo reply carrying
    that call's identifier, while the call is registered -/
theorem seen_only_by_own_echo (s s' : State) (e : Event) (hs : step s e = some s') (p : Nat)
    (h0 : (s.th p).seen = false) (h1 : (s'.th p).seen = true) :
    e = .echo (s.th p).id ∧ (s.th p).active = true := by
  have upd_seen : ∀ (t : Thread), t.seen = (s.th p).seen → ∀ q, (upd s.th q t p).seen = true →
      q = p → False := by
    intro t ht q hq hqp; subst hqp; simp [ht, h0] at hq
  cases e with
  | other => simp only [step] at hs; cases hs; simp [h0] at h1
  | echo id =>
    have key : (markSeen s.th id p).seen = true → id = (s.th p).id ∧ (s.th p).active = true := by
      unfold markSeen; split
      · rename_i h; intro _; exact ⟨h.2.symm, h.1⟩
      · intro h; simp [h0] at h
    simp only [step] at hs
    split at hs
    · cases hs; obtain ⟨a, b⟩ := key h1; exact ⟨by rw [a], b⟩
    · split at hs
      · cases hs; obtain ⟨a, b⟩ := key h1; exact ⟨by rw [a], b⟩
      · rename_i q _; cases hs
        by_cases hq : p = q
        · subst hq; simp at h1; obtain ⟨a, b⟩ := key h1; exact ⟨by rw [a], b⟩
        · simp only [upd_other _ _ _ _ hq] at h1; obtain ⟨a, b⟩ := key h1; exact ⟨by rw [a], b⟩
  | reg q =>
    simp only [step] at hs; split at hs
    · cases hs; by_cases hq : p = q
      · subst hq; simp [h0] at h1
      · simp [upd_other _ _ _ _ hq, h0] at h1
    · cases hs
  | sendOk q =>
    simp only [step] at hs; split at hs
    · cases hs; by_cases hq : p = q
      · subst hq; simp [h0] at h1
      · simp [upd_other _ _ _ _ hq, h0] at h1
    · cases hs
  | sendErr q =>
    simp only [step] at hs; split at hs
    · cases hs; by_cases hq : p = q
      · subst hq; simp [h0] at h1
      · simp [upd_other _ _ _ _ hq, h0] at h1
    · cases hs
  | cleanup q =>
    simp only [step] at hs; split at hs
    · cases hs; by_cases hq : p = q
      · subst hq; simp [h0] at h1
      · simp [upd_other _ _ _ _ hq, h0] at h1
    · cases hs
  | wake q =>
    simp only [step] at hs; split at hs
    · cases hs; by_cases hq : p = q
      · subst hq; simp [h0] at h1
      · simp [upd_other _ _ _ _ hq, h0] at h1
    · cases hs
  | timeout q =>
    simp only [step] at hs; split at hs
    · cases hs; by_cases hq : p = q
      · subst hq; simp [h0] at h1
      · simp [upd_other _ _ _ _ hq, h0] at h1
    · cases hs
  | unreg q =>
    simp only [step] at hs; split at hs
    · cases hs; by_cases hq : p = q
      · subst hq; simp [h0] at h1
      · simp [upd_other _ _ _ _ hq, h0] at h1
    · cases hs

/-- **Foreign replies never complete a call.**  In every reachable state (no wrap) an echo reply
    whose identifier differs from the identifier of call `p` leaves `p`'s whole record – received
    flag, channel, program counter, result – unchanged. -/
theorem foreign_never_completes (id0 : Nat) (tr : List Event) (s s' : State)
    (hr : run (init id0) tr = some s) (hn : NoWrap (init id0) tr)
    (i p : Nat) (hne : (s.th p).id ≠ i) (hs : step s (.echo i) = some s') :
    s'.th p = s.th p := by
  have hI := inv_run (inv_init id0) hn hr
  have hm : markSeen s.th i p = s.th p := by
    unfold markSeen; split
    · rename_i h; exact absurd h.2 hne
    · rfl
  simp only [step] at hs
  split at hs
  · cases hs; exact hm
  · split at hs
    · cases hs; exact hm
    · rename_i q hg; cases hs
      have hq := hI.w.entry i q (tget_some hg)
      have : p ≠ q := by intro h; subst h; exact hne hq.2.1
      simp only [upd_other _ _ _ _ this]; exact hm

/-- frames that are not valid echo replies do not reach `echoNotify` at all: too short, or any type
    other than echo reply (in particular echo requests, 8 / 128) -/
theorem malformed_not_dispatched (v6 : Bool) (b : Bytes) :
    (b.length < 8 → classify v6 b = none) ∧
    (∀ t rest, b = t :: rest → t ≠ (if v6 then 129 else 0) → classify v6 b = none) := by
  constructor
  · intro h; simp [classify, h]
  · intro t rest hb ht; subst hb
    unfold classify; split
    · rfl
    · split
      · rename_i h; simp at h; obtain ⟨rfl, _⟩ := h; simp [ht]
      · rfl

/-- a parsed frame that is not an echo reply changes nothing -/
theorem other_is_noop (s : State) : step s .other = some s := rfl

/-- a waiting call leaves its `select` through the channel only after the channel was closed -/
theorem wake_needs_close (s s' : State) (p : Nat) (h : step s (.wake p) = some s') :
    0 < (s.th p).closes := by
  simp only [step] at h; split at h
  · rename_i hp; exact hp.2
  · cases h

/-- **Concurrent pings use distinct identifiers** (explicit no-wrap hypothesis: fewer than 65 536
    registrations starting from the initial counter value). -/
theorem ids_distinct (id0 : Nat) (tr : List Event) (s : State)
    (hr : run (init id0) tr = some s) (hn : NoWrap (init id0) tr) (p q : Nat)
    (hp : (s.th p).active = true) (hq : (s.th q).active = true) (hpq : p ≠ q) :
    (s.th p).id ≠ (s.th q).id :=
  fun he => hpq ((inv_run (inv_init id0) hn hr).distinct p q hp hq he)

/-- **A waiter's channel is closed at most once** on every trace, wrap or not (a second `close`
    would be a run-time panic in `echoNotify`). -/
theorem close_once (id0 : Nat) (tr : List Event) (s : State) (hr : run (init id0) tr = some s) (p : Nat) :
    (s.th p).closes ≤ 1 :=
  (invW_run (invW_init id0) hr).closes_le p

/-- **No waiter entry is left behind** on every trace, wrap or not: every table entry belongs to a
    call that is still between its registration and its unregistration; when every call has
    finished (or not started) the table is empty. -/
theorem no_waiter_left (id0 : Nat) (tr : List Event) (s : State) (hr : run (init id0) tr = some s) :
    (∀ i q, (i, q) ∈ s.table → (s.th q).active = true) ∧
    ((∀ p, (s.th p).active = false) → s.table = []) := by
  have hI := invW_run (invW_init id0) hr
  refine ⟨fun i q h => (hI.entry i q h).1, ?_⟩
  intro hall
  cases ht : s.table with
  | nil => rfl
  | cons e es =>
    have := (hI.entry e.1 e.2 (by rw [ht]; simp)).1
    rw [hall e.2] at this; cases this

/-! ### the effective timeout

  `time.After(timeout)` is armed with the clamped value, so a call never times out "at once": the
  effective timeout is positive, at most ten seconds, and the requested one whenever that is in range. -/

theorem effTimeout_pos (t : Int) : 0 < effTimeout t := by
  unfold effTimeout; split <;> omega

theorem effTimeout_le (t : Int) : effTimeout t ≤ 10000000000 := by
  unfold effTimeout; split <;> omega

theorem effTimeout_in_range (t : Int) (h0 : 0 < t) (h1 : t ≤ 10000000000) : effTimeout t = t := by
  unfold effTimeout; split <;> omega

theorem effTimeout_default (t : Int) (h : t ≤ 0 ∨ 10000000000 < t) : effTimeout t = 2000000000 := by
  unfold effTimeout; split <;> omega

/-! ### non-vacuity -/

/-- a ping with id 5 completed by its own reply returns nil and leaves the table empty -/
example : (run (init 5) [.reg 0, .sendOk 0, .echo 5, .wake 0, .unreg 0]).map
    (fun s => ((s.th 0).ret, (s.th 0).seen, s.table)) = some (.nil, true, []) := by decide

/-- a foreign reply (id 6) does not complete it: timeout -/
example : (run (init 5) [.reg 0, .sendOk 0, .echo 6, .timeout 0, .unreg 0]).map
    (fun s => ((s.th 0).ret, (s.th 0).seen, s.table)) = some (.timeout, false, []) := by decide

/-- the send-error path (fixed code) leaves no waiter behind -/
example : (run (init 5) [.reg 0, .sendErr 0, .cleanup 0]).map
    (fun s => ((s.th 0).ret, s.table)) = some (.sendErr, []) := by decide

/-- a duplicate reply closes nothing twice, and `wake` is not enabled before the reply -/
example : (run (init 1) [.reg 0, .sendOk 0, .echo 1, .echo 1, .wake 0, .unreg 0]).map
    (fun s => ((s.th 0).ret, (s.th 0).closes)) = some (.nil, 1) := by decide
example : run (init 1) [.reg 0, .sendOk 0, .wake 0] = none := by decide

/-- the no-wrap hypothesis is necessary: after 65 536 registrations the counter reuses an identifier -/
example : (65535 + 1) % idMod = 0 := by decide

end PV.Props.C19
