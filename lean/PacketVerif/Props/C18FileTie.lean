/-
  F19 — the DHCPv4 lease-file logic and handler construction of handlers/dhcp4_spoofer (`newSubnet`, `configChanged`,
  `loadConfig`, `loadByteArray`, `saveConfig`, `Config.New`), REGENERATED from the Go bodies on every run
  (tools/goextract/dhcpfile.go → Gen/DhcpFileGen.lean, over the vocabulary of Model/DhcpFileGo.lean), are the functions of
  Model/Dhcp4File.lean (and through `Model/Dhcp4Restart` the construction part of Model/Dhcp4Srv) that C18, C11 and C12
  are proved about.  Each `*_tie` is an equation between the regenerated function and the model function for ALL arguments
  (`WFRec`: an IPv4 prefix is a 32-bit address with a length ≤ 32 — what a valid `netip.Prefix` is).
-/
import PacketVerif.Gen.DhcpFileGen
import PacketVerif.Lemmas.DhcpFileTie
namespace PV.Props.C18FileTie
open PV PV.Model.Dhcp4Srv PV.Model.Dhcp4File PV.Model.Dhcp4Restart PV.Model.DhcpFileGo PV.Gen.DhcpFile PV.Lemmas.DhcpFileTie

def reviewedTranslated : List String := [
  "newSubnet",
  "configChanged",
  "Handler.loadByteArray",
  "Handler.loadConfig",
  "Handler.saveConfig",
  "Config.New"
]

/-- the statements the translation drops, as reviewed: log lines and stores to fields that are not represented
    (`ID`: logging only; `session`, `closeChan`: not part of the construction result) -/
def reviewedIgnored : List String := [
  "newSubnet: store to a field that is not represented: subnet.ID = config.ID",
  "configChanged: log: Logger.Msg(\"config parameters changed\").Sprintf(\"new config=%+v\", config).Write()",
  "configChanged: log: Logger.Msg(\"config parameters changed\").Sprintf(\"old config=%+v\", current).Write()",
  "Handler.loadByteArray: log: fmt.Printf(\"dhcp4: load config invalid state %v \\n\", v)",
  "Handler.loadByteArray: log: fmt.Printf(\"dhcp4: load config invalid LAN %v \\n\", v)",
  "Handler.loadByteArray: log: fmt.Printf(\"dhcp4: load config invalid clientID %v \\n\", v)",
  "Handler.saveConfig: log: fmt.Printf(\"error cannot marshall dhcp file: %s error %s\", fname, err)",
  "Handler.saveConfig: log: fmt.Printf(\"error cannot write dhcp file: %s error %s\", fname, err)",
  "Config.New: store to a field that is not represented: h.session = session",
  "Config.New: store to a field that is not represented: h.closeChan = make(chan bool)",
  "Config.New: log-only if: if Logger.IsDebug() { Logger.Msg(\"new dhcp4 handler\").Sprintf(\"config\", config).Write() }",
  "Config.New: log-only if: if err != nil && !os.IsNotExist(err) { Logger.Msg(\"invalid config file. resetting...\").String(\"filename\", h.fi…",
  "Config.New: store to a field that is not represented: h.net1.ID = \"net1\"",
  "Config.New: store to a field that is not represented: h.net2.ID = \"net2\"",
  "Config.New: log-only if: if Logger.IsInfo() { Logger.Msg(\"subnet 1\").Sprintf(\"config\", h.net1).Write() Logger.Msg(\"subnet 2\").Sprintf(\"…"
]

/-- dictionary callees (Model/DhcpFileGo.lean): net/netip and net.CIDRMask (validated against the real library by the
    dhcp.load / dhcp.new correspondence), the YAML codec, sha256 sealing / opening (Model.Dhcp4File.sealFile / openFile),
    the file-system calls (effects), `Session.IsCaptured`, `appendRouteOptions` (hand-written) -/
def reviewedCallees : List String := [
  "Session.IsCaptured",
  "dhcpSubnet.appendRouteOptions",
  "ioutil.ReadFile",
  "ioutil.WriteFile",
  "net.CIDRMask",
  "netip.Addr.As4",
  "netip.Addr.AsSlice",
  "netip.Addr.Is4",
  "netip.Addr.IsUnspecified",
  "netip.Addr.IsValid",
  "netip.Addr.Next",
  "netip.AddrFrom4",
  "netip.Prefix.Addr",
  "netip.Prefix.Bits",
  "netip.Prefix.Contains",
  "netip.Prefix.IsValid",
  "netip.Prefix.Masked",
  "openLeaseFile",
  "os.Remove",
  "os.Rename",
  "sealLeaseFile",
  "yaml.Marshal",
  "yaml.Unmarshal"
]

def reviewedAssumptions : List String := [
  "mapOrder: ranging over the lease map visits the model's table in list order (the saved record is compared up to order by the harness)",
  "nilSliceIsEmpty: a nil []byte / []Lease is the empty one",
  "durationSeconds: time.Duration values are whole seconds",
  "subnetPointer: a *dhcpSubnet stored in a lease is one of the handler's two subnets (SubId)",
  "errorsAnonymous: every non-nil error is the one value `Err.other`"
]

theorem dhcpfile_translated_total : dhcpFileUntranslated = [] := by decide
theorem dhcpfile_translated_reviewed : dhcpFileTranslated = reviewedTranslated := rfl
/-- a log statement or an ignored store added, removed or moved shows up here -/
theorem dhcpfile_ignored_reviewed : dhcpFileIgnored = reviewedIgnored := rfl
theorem dhcpfile_callees_accounted : dhcpFileCallees = reviewedCallees := rfl
theorem dhcpfile_assumptions_accounted : dhcpFileAssumptions = reviewedAssumptions := rfl

/-! ### the ties -/

/-- `newSubnet` = `Model.Dhcp4File.newSubnet`: same error / success, and on success the `dhcpSubnet` is `gsubOf` of the
    model's subnet — masked prefix, gateway, server, DNS, FirstIP default, four-hour default, stage;
    `broadcast` = network address + size − 1 (the byte loop `a4[i] | ^mask[i]`, `Subnet.bcast` of Model/Dhcp4Srv);
    `nextIP` = FirstIP; the reply option map (54 server id, 1 mask, 3 router, 6 DNS). -/
theorem newSubnet_tie (r : SubRec) (hwf : WFRec r) :
    Gen.DhcpFile.newSubnet r = liftSub (Model.Dhcp4File.newSubnet r) :=
  PV.Lemmas.DhcpFileTie.newSubnet_tie r hwf

/-- the broadcast address `newSubnet` stores is the server model's `Subnet.bcast` -/
theorem newSubnet_bcast (r : SubRec) (n : LSub) (h : Model.Dhcp4File.newSubnet r = .ok n) :
    (gsubOf n).broadcast = .v4 (toSubnet n).bcast := by
  have hm := newSubnet_masked r n h
  have hd : n.lan / psize n.bits * psize n.bits = n.lan := Nat.div_mul_cancel (Nat.dvd_of_mod_eq_zero hm)
  simp only [gsubOf, toSubnet, Subnet.bcast, Subnet.size]
  unfold psize at hd ⊢
  rw [hd]

/-- `configChanged` on the expectation `Config.New` builds and a subnet `newSubnet` returned = `Model.configChanged` -/
theorem configChanged_tie (e : Expected) (n : LSub) (hm : n.lan % psize n.bits = 0) :
    Gen.DhcpFile.configChanged (expectedRec e) (subRecOf n) = .ok (Model.Dhcp4File.configChanged e n) :=
  PV.Lemmas.DhcpFileTie.configChanged_tie e n hm

/-- `loadByteArray` = integrity check (`openFile`), `yaml.Unmarshal` (parameter), then `Model.loadRec`: both sections
    required, both through `newSubnet`, and per lease: allocated only, address inside net1, non-empty client id, attached to
    net2 iff the MAC is captured and the address is a host address of net2 (`attachNet2`), else net1; keyed by client id. -/
theorem loadByteArray_tie (env : Env) (source : Bytes) (hwf : ∀ y d, env.dec y = some d → WFFile d) :
    Handler_loadByteArray env source = loadBytesSpec env source :=
  PV.Lemmas.DhcpFileTie.loadByteArray_tie env source hwf

/-- `loadConfig`: no file name → three nils without an error; unreadable file → error; else `loadByteArray` -/
theorem loadConfig_tie (env : Env) (fname : String) (hwf : ∀ y d, env.dec y = some d → WFFile d) :
    Handler_loadConfig env fname = loadConfigSpec env fname :=
  PV.Lemmas.DhcpFileTie.loadConfig_tie env fname hwf

/-- `saveConfig`: nothing without a file name; the record handed to `yaml.Marshal` is `savedRec` (both subnet
    configurations, the ALLOCATED leases in table order); then exactly: WriteFile(fname+".tmp", seal(stream)) [create or
    truncate], Rename(tmp, fname), and Remove(tmp) only when the rename failed; the error is reported. -/
theorem saveConfig_tie (env : Env) (fs : List FsOp) (h : GHandler) (fname : String) (g1 g2 : GSubnet) (t : Table)
    (h1 : h.net1 = some g1) (h2 : h.net2 = some g2) (ht : h.table = some t) :
    Handler_saveConfig env fs h fname = saveSpec env fs g1.cfg g2.cfg t fname :=
  PV.Lemmas.DhcpFileTie.saveConfig_tie env fs h fname g1 g2 t h1 h2 ht

/-- the record `saveConfig` hands to the encoder is `Model.Dhcp4File.save` (a nil slice of leases and an empty one are the
    same YAML) -/
theorem savedRec_save (b : Built) :
    (savedRec (subRecOf b.net1) (subRecOf b.net2) b.table).net1 = (save b).net1 ∧
    (savedRec (subRecOf b.net1) (subRecOf b.net2) b.table).net2 = (save b).net2 ∧
    sliceElems (savedRec (subRecOf b.net1) (subRecOf b.net2) b.table).leases = sliceElems (save b).leases := by
  refine ⟨rfl, rfl, ?_⟩
  show sliceElems (accL none b.table) = _
  rw [accL_elems]
  simp [save, sliceElems]

/-- with a working file system and encoder: the bytes written are `Model.Dhcp4File.sealFile` of the encoded record,
    to the temporary file, which is then renamed over the lease file -/
theorem saveConfig_writes (env : Env) (fs : List FsOp) (n1 n2 : SubRec) (t : Table) (fname : String) (stream : Bytes)
    (hf : fname ≠ "") (he : env.enc (savedRec n1 n2 t) = some stream) (hio : ∀ k, env.ioFails k = false) :
    saveSpec env fs n1 n2 t fname =
      .ok (false, fs ++ [.writeFile (fname ++ ".tmp") (sealFile env.hash stream), .rename (fname ++ ".tmp") fname]) := by
  simp [saveSpec, hf, he, hio]

/-- **`Config.New`** for the configuration `n` (any mode integer, any lease file name, any file system / codec / capture
    predicate): rejected exactly when `NewCfg.accepted` is false (netfilter address outside the home LAN, or a netfilter
    prefix shorter than the home prefix); otherwise the handler is `handlerOf` of what `Model.Dhcp4File.loadFile` builds from
    the lease file under the expectations `homeExp n` / `nfExp n` of `Model/Dhcp4Restart` (missing / unreadable / damaged /
    undecodable file, a missing section, a `newSubnet` error or a changed configuration → reset to the two fresh subnets and
    an empty table; else the loaded subnets and table) — mode defaulted to 3 (nice) unless 1, 2, 3; DNS defaulted to the
    router; route options appended to net2 — and the lease file is written once, at the end (`saveSpec`). -/
theorem New_tie (env : Env) (fs : List FsOp) (n : NewCfg) (modeI : Int) (fname : String) (hn : WFNew n)
    (hwf : ∀ y d, env.dec y = some d → WFFile d) :
    Config_New env fs (cfgOf n modeI fname) (nicOf n) = newSpec env fs n modeI fname :=
  PV.Lemmas.DhcpFileTie.New_tie env fs n modeI fname hn hwf

/-- the validation of the netfilter prefix is C12's `accepted` -/
theorem New_rejects (env : Env) (fs : List FsOp) (n : NewCfg) (modeI : Int) (fname : String) (hn : WFNew n)
    (hwf : ∀ y d, env.dec y = some d → WFFile d) (h : n.accepted = false) :
    Config_New env fs (cfgOf n modeI fname) (nicOf n) = .err .other := by
  rw [New_tie env fs n modeI fname hn hwf]; simp [newSpec, h]

/-- without a lease file name: the two subnets are `newSubnet` of the expectations (the server model's `mkCfg n`, see
    `C18Restart.news_lsubs`), the table is empty, nothing is written -/
theorem New_fresh (env : Env) (fs : List FsOp) (n : NewCfg) (modeI : Int) (hn : WFNew n)
    (hwf : ∀ y d, env.dec y = some d → WFFile d) (h : n.accepted = true) (n1 n2 : LSub)
    (h1 : Model.Dhcp4File.newSubnet (expectedRec (homeExp n)) = .ok n1)
    (h2 : Model.Dhcp4File.newSubnet (expectedRec (nfExp n)) = .ok n2) :
    Config_New env fs (cfgOf n modeI "") (nicOf n) = .ok (handlerOf modeI "" { net1 := n1, net2 := n2, table := [] }, fs) := by
  rw [New_tie env fs n modeI "" hn hwf]
  simp [newSpec, h, loadFile, construct, h1, h2, saveSpec]

/-! ### the regenerated code runs (non-vacuity) -/

def homeEx : SubRec := { lan := .v4 3232235610 24, gw := .v4 3232235521, server := .v4 3232235530, dns := .v4 3232235521, first := .invalid, dur := 0, stage := 1 }
/-- the regenerated `newSubnet` runs: 192.168.0.90/24 → network .0, broadcast .255, first address .1, four hours -/
example : (match Gen.DhcpFile.newSubnet homeEx with
           | .ok g => decide ((g.cfg.lan, g.broadcast, g.nextIP, g.cfg.dur) = (.v4 3232235520 24, .v4 3232235775, .v4 3232235521, 14400))
           | _ => false) = true := by decide
example : Gen.DhcpFile.newSubnet { homeEx with gw := .v4 1 } = .err .other := by decide
example : Gen.DhcpFile.newSubnet { homeEx with lan := .v6 } = .err .other := by decide
def envEx : Env := { captured := fun m => m == [2], dec := fun _ => none, enc := fun _ => some [1], hash := ⟨fun _ => List.replicate 32 0, fun _ => by simp⟩, readFile := fun _ => none, ioFails := fun _ => false }
def nEx : NewCfg := { mode := .nice, host := 3232235530, router := 3232235521, homeLan := 3232235520, homeBits := 24, nfAddr := 3232235649, nfBits := 25, dns := none }
example : (match Config_New envEx [] (cfgOf nEx 0 "f") (nicOf nEx) with
           | .ok (h, fs) => decide (h.mode = 3 ∧ h.table = some [] ∧ fs.length = 2 ∧ (h.net2.map (·.broadcast)) = some (.v4 3232235775))
           | _ => false) = true := by decide
example : Config_New envEx [] (cfgOf { nEx with nfBits := 16 } 0 "f") (nicOf { nEx with nfBits := 16 }) = .err .other := by decide

end PV.Props.C18FileTie
