/-
  DHCPv4 on raw payloads, part 2 (C12 / C11 / C08): the BYTES of the replies and an independent reading of the wire.

  `Spec.Dhcp4Wire` is a reference reading of a DHCPv4 payload written from RFC 2131 / 2132 over absolute offsets (fixed
  header, the option area as a SEQUENCE of (code, value)); it shares no function with the model's `IsValid` /
  `ParseOptions` / `EncodeDHCP4`.  `Model.Dhcp4Frame.replyBytes` is how the handler calls `EncodeDHCP4` in place over
  the request.  Lemmas in `Lemmas/Dhcp4Wire.lean`.

  * `reply_roundtrip`: for EVERY request payload, state and configuration, every reply of `processRaw` is written as
    a packet the reference reads back as: BOOTREPLY, Ethernet, the request's xid (bytes 4..7) and chaddr (bytes
    28..33), cleared secs / flags / siaddr / giaddr / sname / file, the magic cookie, ciaddr and yiaddr of the abstract
    reply, the message type, and option by option the abstract reply's option map — each option once, in the order
    `AppendOptions` emits, in 300 bytes or more inside the request buffer.  `raw_reply_conforms_wire`: C12 (a) about
    those bytes.  `reply_bytes_ignore_spare`, `reply_flags_cleared` (remarks).
  * `served_payload_iff`: a payload is served iff the reference reads a DISCOVER / REQUEST / DECLINE / RELEASE not
    addressed to the client port, and then the handler is given exactly the reference's fields; `strict_served`,
    `malformed_but_served`: the reference is laxer than the RFCs in exactly three points (op code 2, hardware type,
    magic cookie), with witnesses.
  * the remaining C11 / C12 theorems over raw histories: `raw_tracked_full`, `raw_reply_conforms_new`,
    `raw_unhonourable_never_acked`, `raw_other_server_nak_or_silence`, `raw_ack_confirms_observed`.
-/
import PacketVerif.Lemmas.Dhcp4Wire
import PacketVerif.Props.ComposeDhcp
import PacketVerif.Props.C07
namespace PV.Props.ComposeDhcpWire
open PV PV.Model PV.Model.Dhcp4Srv PV.Model.Dhcp4Opt PV.Model.Dhcp4Frame PV.Spec PV.Spec.Ledger PV.Spec.Dhcp4Wire
open PV.Lemmas.Dhcp4Wire PV.Lemmas.ComposeDhcp PV.Props.ComposeDhcp
open PV.Props.C11 (Reach)

/-! ### 1. the bytes of a reply, read by the reference -/

/-- an iteration order of the Go map that the model accepts: no code twice, every option code of the reply in it (for
    instance: the codes of the reply in any order; codes that are not in the map are skipped) -/
def TailOK (r : Reply) (tail : List UInt8) : Prop := tail.Nodup ∧ ∀ e, e ∈ r.opts → UInt8.ofNat e.1 ∈ tail

/-- what the reference must read in the reply to request payload `p` that stands for the abstract reply `r` -/
structure WireConforms (p : Bytes) (r : Reply) (w : Wire) : Prop where
  op : w.fx.op = 2                         -- BOOTREPLY
  htype : w.fx.htype = 1
  hlen : w.fx.hlen = 6
  hops : w.fx.hops = 0
  secs : w.fx.secs = 0
  flags : w.fx.flags = 0                   -- the encoder clears the flags (broadcast bit included)
  siaddr : w.fx.siaddr = 0
  giaddr : w.fx.giaddr = 0
  legacy : w.fx.chpad = zeros 10 ∧ w.fx.sname = zeros 64 ∧ w.fx.file = zeros 128
  cookie : w.fx.cookie = magic
  xid : w.fx.xid = field p 4 4 ∧ w.fx.xid = r.xid           -- the request's transaction id
  chaddr : w.fx.chaddr = field p 28 6 ∧ w.fx.chaddr = r.chaddr  -- the request's hardware address
  ciaddr : w.fx.ciaddr = r.ciaddr
  yiaddr : w.fx.yiaddr = r.yiaddr % 4294967296
  mtype : w.opt 53 = some [mtOf r.typ]
  options : ∀ c : UInt8, w.opt c = optOf r c.toNat          -- option by option: the abstract reply's map
  once : (w.opts.map (·.1)).Nodup ∧ w.opts.Perm (wireOpts r) -- every option exactly once on the wire

theorem tailOK_cover {r : Reply} {tail : List UInt8} (hwf : ReplyWF r) (ht : TailOK r tail) (order : Bytes) :
    ∀ e, e ∈ (orderedPhase (fullOrder order) (optSet (wireOpts r) 53 [mtOf r.typ])).2 → e.1 ∈ tail := by
  intro e he
  have hm := Lemmas.Dhcp4OptPerm.orderedPhase_rest_sub _ _ e he
  have : e ∈ wireOpts r := (optSet53_perm hwf).mem_iff.1 hm
  obtain ⟨x, hx, rfl⟩ := List.mem_map.1 this
  exact ht.2 x hx

/-- **`reply_roundtrip`: encode in place, read with the independent reference.**  For every configuration, server
    state, clock, addressing, request payload `p` (ANY byte string) received in a buffer with `spare` behind it
    (`cap(payload) = len p + len spare`), every reply `r` of `processRaw`, the client's parameter request list as
    parsed (`o`), and every admissible map iteration order: `EncodeDHCP4` returns a packet of at least 300 bytes that
    lies inside the buffer, `Spec.Dhcp4Wire.read` reads it, and what it reads is `WireConforms`: BOOTREPLY / Ethernet
    / hlen 6, the request's xid and chaddr, zero secs, flags, siaddr, giaddr, sname, file, the magic cookie, the abstract
    reply's ciaddr and yiaddr, its message type, and for EVERY option code the abstract reply's value (absent where the
    reply has none), each option once. -/
theorem reply_roundtrip (cfg : Dhcp4Srv.Cfg) (s : State) (now : Nat) (rx : Rx) (p spare : Bytes) (res : Result) (r : Reply)
    (o : Opts) (tail : List UInt8) (hp : processRaw cfg s now rx p = .ok res) (hr : r ∈ res.replies)
    (ho : parseOptions p = .ok o) (hcap : p.length + spare.length = rx.cap) (ht : TailOK r tail) :
    ∃ bytes w, replyBytes p spare (optGet o 55) r tail = .ok bytes ∧ 300 ≤ bytes.length ∧ bytes.length ≤ rx.cap ∧
      Dhcp4Wire.read bytes = some w ∧ WireConforms p r w ∧
      w.opts = emitSeq (optSet (wireOpts r) 53 [mtOf r.typ]) (replyArgs r (optGet o 55)).order tail := by
  obtain ⟨hroom300, hroom⟩ := replies_have_room cfg s now rx p res r hp hr
  obtain ⟨op, m, hd, hm, _, _, _, hr'⟩ := raw_reply_of_step hp hr
  obtain ⟨hlen, o', ho', hm'⟩ := decode_msgRef hd
  rw [ho] at ho'
  cases ho'
  rw [hm] at hm'
  cases hm'
  obtain ⟨hxid, hch, hshape⟩ := handleMsg_reply hm hr'
  have hcl := clientId_msgRef_len rx p o hlen ho
  have hwf : ReplyWF r ∧ optsLen r.opts ≤ 266 := by
    rcases hshape with ⟨hn, _, l, a, e⟩ | ⟨_, _, _, srv, e⟩
    · rw [e]
      have := mkReply_wf cfg (msgRef rx p o) r.typ l a hn
      exact ⟨this.1, by omega⟩
    · rw [e]
      exact nakReply_wf _ srv _ hcl
  have hlb : (p ++ spare).length = rx.cap := by rw [List.length_append]; exact hcap
  obtain ⟨bytes, w, h1, h2, h3, h4, h5, h6, h7, h8⟩ := reply_wire p spare (optGet o 55) r tail hwf.1 hlen (by omega) (by omega)
    (by omega) ht.1 (tailOK_cover hwf.1 ht _)
  refine ⟨bytes, w, h1, h2, by omega, h4, ?_, h6⟩
  have hx4 : (p.take 8).drop 4 = field p 4 4 := by unfold field; rw [List.drop_take]
  have hc6 : (p.take 34).drop 28 = field p 28 6 := by unfold field; rw [List.drop_take]
  have hci : be4of (ciW p r) = r.ciaddr := by
    unfold ciW
    rcases hshape with ⟨hn, e, _⟩ | ⟨hn, e, _⟩
    · rw [if_neg hn, be4of_field, e]; rfl
    · rw [if_pos hn, e]; rfl
  have hnod : (w.opts.map (·.1)).Nodup := (h7.map _).nodup_iff.2 (wireOpts_nodup hwf.1)
  have fx : ∀ {α : Type} (g : Fixed → α), g w.fx = g (replyFixed p r) := fun g => by rw [h5]
  exact
    { op := fx (·.op), htype := fx (·.htype), hlen := fx (·.hlen), hops := fx (·.hops), secs := fx (·.secs),
      flags := fx (·.flags), siaddr := fx (·.siaddr), giaddr := fx (·.giaddr),
      legacy := ⟨fx (·.chpad), fx (·.sname), fx (·.file)⟩, cookie := fx (·.cookie),
      xid := ⟨fx (·.xid), (fx (·.xid)).trans (by rw [hxid]; rfl)⟩,
      chaddr := ⟨fx (·.chaddr), (fx (·.chaddr)).trans (by rw [hch]; rfl)⟩,
      ciaddr := (fx (·.ciaddr)).trans hci, yiaddr := (fx (·.yiaddr)).trans (be4of_ip4Bytes _),
      mtype := by rw [h8]; exact hwf.1.mtype, options := h8, once := ⟨hnod, h7⟩ }

/-- non-vacuity of `TailOK`: the codes of the reply themselves, in the reply's order -/
theorem tailOK_self (r : Reply) (h : ReplyWF r) : TailOK r (r.opts.map (fun e => UInt8.ofNat e.1)) := by
  refine ⟨?_, fun e he => List.mem_map.2 ⟨e, he, rfl⟩⟩
  have := wireOpts_nodup h
  unfold wireOpts at this
  rw [List.map_map] at this
  exact this

/-- **the reply does not depend on what the receive buffer holds behind the request** (nor on the request's option
    area, other than through the parameter request list): two buffers with the same 240-byte request header and the
    same capacity give the same reply bytes -/
theorem reply_bytes_ignore_spare (p q spare spare' : Bytes) (prl : Option Bytes) (r : Reply) (tail : List UInt8)
    (hp : 240 ≤ p.length) (hq : 240 ≤ q.length) (hh : p.take 240 = q.take 240)
    (hl : (p ++ spare).length = (q ++ spare').length) :
    replyBytes p spare prl r tail = replyBytes q spare' prl r tail := by
  have hf : ∀ k n, k + n ≤ 240 → field p k n = field q k n := by
    intro k n hkn
    have e1 : field p k n = field (p.take 240) k n := by
      unfold field
      rw [List.drop_take, List.take_take, Nat.min_eq_left (by omega)]
    have e2 : field q k n = field (q.take 240) k n := by
      unfold field
      rw [List.drop_take, List.take_take, Nat.min_eq_left (by omega)]
    rw [e1, e2, hh]
  unfold replyBytes encodeDHCP4
  rw [hl]
  simp only [Lemmas.Dhcp4Wire.field_append_left p spare 4 4 (by omega), Lemmas.Dhcp4Wire.field_append_left q spare' 4 4 (by omega),
    Lemmas.Dhcp4Wire.field_append_left p spare 12 4 (by omega), Lemmas.Dhcp4Wire.field_append_left q spare' 12 4 (by omega),
    Lemmas.Dhcp4Wire.field_append_left p spare 16 4 (by omega), Lemmas.Dhcp4Wire.field_append_left q spare' 16 4 (by omega),
    Lemmas.Dhcp4Wire.field_append_left p spare 28 6 (by omega), Lemmas.Dhcp4Wire.field_append_left q spare' 28 6 (by omega),
    hf 4 4 (by omega), hf 12 4 (by omega), hf 16 4 (by omega), hf 28 6 (by omega)]

/-- remark: the BOOTREPLY never carries the client's flags — `EncodeDHCP4` clears the flags field, so a request with
    the broadcast bit set is answered with flags = 0 (the broadcast bit of the request plays no role for the
    destination either: `dhcp4.go` reads it after the buffer was rewritten; C12 does not speak about flags) -/
theorem reply_flags_cleared {p : Bytes} {r : Reply} {w : Wire} (h : WireConforms p r w) : w.fx.flags / 32768 = 0 := by
  rw [h.flags]

/-! ### 2. C12 (a) about the bytes on the wire -/

/-- an address inside an IPv4 prefix is an IPv4 address -/
theorem inNet_lt {n : Subnet} {y : Nat} (h : inNet n y) (hl : n.lan < 4294967296) (hb : n.bits ≤ 32) : y < 4294967296 := by
  unfold inNet at h
  have hpos : 0 < 2 ^ (32 - n.bits) := Nat.two_pow_pos _
  have h32 : (4294967296 : Nat) = 2 ^ (32 - n.bits) * 2 ^ n.bits := by
    rw [← Nat.pow_add, show 32 - n.bits + n.bits = 32 by omega]
  have h1 : n.lan / 2 ^ (32 - n.bits) < 2 ^ n.bits := Nat.div_lt_of_lt_mul (by rw [← h32]; exact hl)
  have h2 : y < 2 ^ (32 - n.bits) * (y / 2 ^ (32 - n.bits) + 1) := Nat.lt_mul_div_succ y hpos
  rw [h] at h2
  have h3 : 2 ^ (32 - n.bits) * (n.lan / 2 ^ (32 - n.bits) + 1) ≤ 2 ^ (32 - n.bits) * 2 ^ n.bits :=
    Nat.mul_le_mul_left _ h1
  rw [h32]
  exact Nat.lt_of_lt_of_le h2 h3

/-- **C12 (a) on the wire, over raw histories.**  After ANY sequence of arbitrary byte strings and environment
    operations, whatever byte string `p` comes next: the bytes of every OFFER / ACK written for it, read by the
    independent reference, carry an address of the subnet selected by the capture state of the client whose hardware
    address is bytes 28..33 of `p` (modulo 2^32: `raw_reply_conforms_wire_ip4` removes the modulus for IPv4
    configurations), that subnet's router (option 3), DNS server (6), mask (1), our server identifier (54), the lease
    time (51), the transaction id and hardware address of `p`, op = BOOTREPLY — and the subnet mask is the FIRST option
    on the wire (hence before the router option), for every parameter request list and map iteration order. -/
theorem raw_reply_conforms_wire {cfg : Dhcp4Srv.Cfg} {s : State} {L : Ledger} (h : ReachRaw cfg s L) (now : Nat) (rx : Rx)
    (p spare : Bytes) (res : Result) (r : Reply) (o : Opts) (tail : List UInt8)
    (hp : processRaw cfg s now rx p = .ok res) (hr : r ∈ res.replies) (hn : r.typ ≠ .nak)
    (ho : parseOptions p = .ok o) (hcap : p.length + spare.length = rx.cap) (ht : TailOK r tail) :
    ∃ bytes w, replyBytes p spare (optGet o 55) r tail = .ok bytes ∧ Dhcp4Wire.read bytes = some w ∧ w.fx.op = 2 ∧
      w.fx.xid = field p 4 4 ∧ w.fx.chaddr = field p 28 6 ∧
      (∃ y, inNet (clientNet cfg (isCaptured s (field p 28 6))) y ∧ w.fx.yiaddr = y % 4294967296) ∧
      w.opt 3 = some (be4 (clientNet cfg (isCaptured s (field p 28 6))).gw) ∧
      w.opt 6 = some (be4 (clientNet cfg (isCaptured s (field p 28 6))).dns) ∧
      w.opt 1 = some (be4 (2 ^ 32 - 2 ^ (32 - (clientNet cfg (isCaptured s (field p 28 6))).bits))) ∧
      w.opt 54 = some (be4 (clientNet cfg (isCaptured s (field p 28 6))).server) ∧
      w.opt 51 = some (be4 (clientNet cfg (isCaptured s (field p 28 6))).dur) ∧
      w.opt 53 = some [mtOf r.typ] ∧
      ∃ rest, w.opts = (1, be4 (2 ^ 32 - 2 ^ (32 - (clientNet cfg (isCaptured s (field p 28 6))).bits))) :: rest := by
  obtain ⟨bytes, w, h1, _, _, h4, hw, hseq⟩ := reply_roundtrip cfg s now rx p spare res r o tail hp hr ho hcap ht
  obtain ⟨m, hc, _, _⟩ := raw_reply_conforms h now rx p res r hp hr hn
  have hc6 : (p.take 34).drop 28 = field p 28 6 := by unfold field; rw [List.drop_take]
  rw [hc6] at hc
  have h1m : w.opt 1 = some (be4 (2 ^ 32 - 2 ^ (32 - (clientNet cfg (isCaptured s (field p 28 6))).bits))) := by
    rw [hw.options 1]; exact hc.mask
  refine ⟨bytes, w, h1, h4, hw.op, hw.xid.1, hw.chaddr.1, ⟨r.yiaddr, hc.inSubnet, hw.yiaddr⟩, ?_, ?_, h1m, ?_, ?_, hw.mtype, ?_⟩
  · rw [hw.options 3]; exact hc.router
  · rw [hw.options 6]; exact hc.dns
  · rw [hw.options 54]; exact hc.serverId
  · rw [hw.options 51]; exact hc.leaseTime
  · rw [hseq]
    apply C03Dhcp.mask_before_router
    -- the reply's own map holds option 1
    obtain ⟨op, m', hd, hm', _, _, _, hr'⟩ := raw_reply_of_step hp hr
    obtain ⟨hlen, o', ho', hm''⟩ := decode_msgRef hd
    obtain ⟨_, _, hshape⟩ := handleMsg_reply hm' hr'
    rcases hshape with ⟨_, _, l, a, e⟩ | ⟨hnak, _⟩
    · have hwf := (mkReply_wf cfg m' r.typ l a hn).1
      rw [← e] at hwf
      rw [Lemmas.Dhcp4OptPerm.optGet_optSet, if_neg (by decide), optGet_wireOpts hwf]
      have := hw.options 1
      rw [h1m] at this
      exact this.symm
    · exact absurd hnak hn

/-- the same for IPv4 configurations (prefix address below 2^32, prefix length at most 32): the address on the wire
    itself lies in the client's subnet -/
theorem raw_reply_conforms_wire_ip4 {cfg : Dhcp4Srv.Cfg} {s : State} {L : Ledger} (h : ReachRaw cfg s L) (now : Nat) (rx : Rx)
    (p spare : Bytes) (res : Result) (r : Reply) (o : Opts) (tail : List UInt8)
    (hp : processRaw cfg s now rx p = .ok res) (hr : r ∈ res.replies) (hn : r.typ ≠ .nak)
    (ho : parseOptions p = .ok o) (hcap : p.length + spare.length = rx.cap) (ht : TailOK r tail)
    (h4 : (clientNet cfg (isCaptured s (field p 28 6))).lan < 4294967296 ∧ (clientNet cfg (isCaptured s (field p 28 6))).bits ≤ 32) :
    ∃ bytes w, replyBytes p spare (optGet o 55) r tail = .ok bytes ∧ Dhcp4Wire.read bytes = some w ∧
      inNet (clientNet cfg (isCaptured s (field p 28 6))) w.fx.yiaddr ∧ w.fx.yiaddr = r.yiaddr := by
  obtain ⟨bytes, w, h1, h2, _, _, _, ⟨y, hy, e⟩, _⟩ := raw_reply_conforms_wire h now rx p spare res r o tail hp hr hn ho hcap ht
  obtain ⟨_, _, _, _, _, _, hw, _⟩ := reply_roundtrip cfg s now rx p spare res r o tail hp hr ho hcap ht
  have hlt := inNet_lt hy h4.1 h4.2
  rw [Nat.mod_eq_of_lt hlt] at e
  refine ⟨bytes, w, h1, h2, by rw [e]; exact hy, ?_⟩
  obtain ⟨m, hc, _, _⟩ := raw_reply_conforms h now rx p res r hp hr hn
  have hc6 : (p.take 34).drop 28 = field p 28 6 := by unfold field; rw [List.drop_take]
  rw [hc6] at hc
  have := inNet_lt hc.inSubnet h4.1 h4.2
  obtain ⟨b2, w2, g1, _, _, g4, hw2, _⟩ := reply_roundtrip cfg s now rx p spare res r o tail hp hr ho hcap ht
  rw [h1] at g1
  cases g1
  rw [h2] at g4
  cases g4
  rw [hw2.yiaddr, Nat.mod_eq_of_lt this]

/-! ### 3. which payloads are served: both directions, against the reference reading -/

/-- **`served_payload_iff`.**  A payload reaches a server handler as operation `op` IF AND ONLY IF the datagram is not
    addressed to the client port and the reference reads it as a DISCOVER / REQUEST / DECLINE / RELEASE `cm` — a
    readable message (240 bytes of header, every option inside the payload) with op 1 or 2, hlen 6, and a one-byte
    option 53 (last occurrence) in {1, 3, 4, 7} — and then `op` is exactly the reference's message: type, hardware
    address, transaction id, ciaddr, yiaddr, broadcast bit, client identifier (option 61), requested address (50),
    server identifier (54), with the datagram's IP source. -/
theorem served_payload_iff (now : Nat) (rx : Rx) (p : Bytes) (op : Op) :
    Dhcp4Frame.decode now rx p = .ok (some op) ↔ rx.dstPort ≠ 68 ∧ ∃ cm, readClient p = some cm ∧ op = refOp now rx cm :=
  decode_iff_ref now rx p op

/-- the same about the whole call: a payload the reference reads as a served message runs the handler of that message
    on the reference's fields (and the replies that fit the buffer are written) -/
theorem served_processRaw (cfg : Dhcp4Srv.Cfg) (s : State) (now : Nat) (rx : Rx) (p : Bytes) (cm : ClientMsg)
    (hp : rx.dstPort ≠ 68) (h : readClient p = some cm) :
    processRaw cfg s now rx p = .ok (Result.mk none (handleMsg cfg s (refOp now rx cm)).1
      ((handleMsg cfg s (refOp now rx cm)).2.filter (fits rx.cap)) false) :=
  processRaw_some cfg s ((served_payload_iff now rx p _).2 ⟨hp, cm, h, rfl⟩)

/-- … and every other payload — unreadable, not a client message, another message type, or addressed to the client
    port — leaves the server state alone and is not answered -/
theorem unserved_processRaw (cfg : Dhcp4Srv.Cfg) (s : State) (now : Nat) (rx : Rx) (p : Bytes)
    (h : rx.dstPort = 68 ∨ readClient p = none) :
    ∃ ret forged, processRaw cfg s now rx p = .ok { ret := ret, state := s, replies := [], forged := forged } := by
  obtain ⟨d, hd⟩ := decode_ok now rx p
  cases d with
  | none => exact processRaw_none cfg s hd
  | some op =>
    obtain ⟨hp, cm, hr, _⟩ := (served_payload_iff now rx p op).1 hd
    rcases h with h | h
    · exact absurd h hp
    · rw [h] at hr; cases hr

/-- every message that is well-formed by the RFCs' stricter rules (op = BOOTREQUEST, Ethernet hardware type, the
    magic cookie) and sent to the server is served, as what the reference reads -/
theorem strict_served (now : Nat) (rx : Rx) (p : Bytes) (cm : ClientMsg) (hp : rx.dstPort ≠ 68)
    (h : readClientStrict p = some cm) : Dhcp4Frame.decode now rx p = .ok (some (refOp now rx cm)) := by
  unfold readClientStrict at h
  split at h
  · exact (served_payload_iff now rx p _).2 ⟨hp, cm, h, rfl⟩
  · cases h

/-- **the malformed-but-served payloads, exactly**: a served payload fails the strict reading iff its op code is
    BOOTREPLY, or its hardware type is not Ethernet, or its magic cookie is wrong — the three things the code does
    not check (`op_code_not_checked`); nothing else that is malformed is served -/
theorem malformed_but_served {now : Nat} {rx : Rx} {p : Bytes} {op : Op} (h : Dhcp4Frame.decode now rx p = .ok (some op)) :
    readClientStrict p = none ↔ (at_ p 0 = 2 ∨ at_ p 1 ≠ 1 ∨ field p 236 4 ≠ magic) := by
  obtain ⟨_, cm, hr, _⟩ := (served_payload_iff now rx p op).1 h
  obtain ⟨_, l, t, _, hop, _⟩ := readClient_some hr
  unfold readClientStrict
  constructor
  · intro hn
    apply Classical.byContradiction
    intro hc
    have hs : Strict p := by
      refine ⟨?_, ?_, ?_⟩
      · rcases hop with e | e
        · exact e
        · exact absurd (Or.inl e) hc
      · exact Classical.byContradiction fun e => hc (Or.inr (Or.inl e))
      · exact Classical.byContradiction fun e => hc (Or.inr (Or.inr e))
    rw [if_pos hs, hr] at hn
    cases hn
  · intro hd
    rw [if_neg]
    intro (hst : Strict p)
    obtain ⟨h1, h2, h3⟩ := hst
    rcases hd with e | e | e
    · omega
    · exact e h2
    · exact e h3

/-- witnesses of the three relaxations: the payload of `op_code_not_checked` (op = BOOTREPLY, cookie 01 02 03 04) is
    read by the lax reference as a DISCOVER and refused by the strict one; so is a DISCOVER with hardware type 6 -/
theorem lax_witnesses :
    (readClient replyOpDiscover).map (·.mtype) = some 1 ∧ readClientStrict replyOpDiscover = none
    ∧ (readClient (pDiscover.set 1 6)).map (·.mtype) = some 1 ∧ readClientStrict (pDiscover.set 1 6) = none
    ∧ (readClientStrict pDiscover).map (fun cm => (cm.mtype, cm.chaddr, cm.xid)) = some (1, [0, 2, 3, 4, 5, 1], [0xa0, 0, 0, 1]) := by
  set_option maxRecDepth 20000 in decide

/-! ### 4. the remaining C11 / C12 theorems over raw histories -/

/-- **C11 (d) over raw histories: no OFFER and no ACK written for any byte string carries an address the session
    currently tracks for a MAC other than the one in bytes 28..33** -/
theorem raw_tracked_full {cfg : Dhcp4Srv.Cfg} {s : State} {L : Ledger} (h : ReachRaw cfg s L) (now : Nat) (rx : Rx)
    (p : Bytes) (res : Result) (r : Reply) (hp : processRaw cfg s now rx p = .ok res) (hr : r ∈ res.replies)
    (ht : r.typ ≠ .nak) : ¬ TrackedByOther s.hosts r.yiaddr (field p 28 6) := by
  obtain ⟨L', hR, _⟩ := raw_reach h
  obtain ⟨op, m, _, hm, hc, _, ho, hr'⟩ := raw_reply_of_step hp hr
  have hc6 : (p.take 34).drop 28 = field p 28 6 := by unfold field; rw [List.drop_take]
  rw [← hc6, ← hc]
  exact Props.C11.C11_tracked_full cfg s L' hR op m hm _ ho r hr' ht

/-- **C12 (a) with the concrete values of the statement, over raw histories** (server constructed by `Config.New`) -/
theorem raw_reply_conforms_new (n : NewCfg) {s : State} {L : Ledger} (h : ReachRaw (mkCfg n) s L) (now : Nat) (rx : Rx)
    (p : Bytes) (res : Result) (r : Reply) (hp : processRaw (mkCfg n) s now rx p = .ok res) (hr : r ∈ res.replies)
    (ht : r.typ ≠ .nak) :
    ∃ m, ConformsNew n (isCaptured s (field p 28 6)) m r ∧ m.chaddr = field p 28 6 ∧ m.xid = field p 4 4 := by
  obtain ⟨L', hR, _⟩ := raw_reach h
  obtain ⟨op, m, _, hm, hc, hx, ho, hr'⟩ := raw_reply_of_step hp hr
  have hc6 : (p.take 34).drop 28 = field p 28 6 := by unfold field; rw [List.drop_take]
  have hx4 : (p.take 8).drop 4 = field p 4 4 := by unfold field; rw [List.drop_take]
  refine ⟨m, ?_, hc.trans hc6, hx.trans hx4⟩
  rw [← hc6, ← hc]
  exact Props.C12.reply_conforms_new n hR op m hm _ ho r hr' ht

/-- **C12 (c) over raw histories: bytes that decode to a REQUEST that cannot be honoured are answered with NAK or
    silence, never with ACK** -/
theorem raw_unhonourable_never_acked {cfg : Dhcp4Srv.Cfg} {s : State} {L : Ledger} (h : ReachRaw cfg s L) (now : Nat)
    (rx : Rx) (p : Bytes) (res : Result) (m : Msg) (hp : processRaw cfg s now rx p = .ok res)
    (hd : Dhcp4Frame.decode now rx p = .ok (some (.request now m))) (hu : ¬ Props.C12.Honourable cfg s now m) :
    ∀ r, r ∈ res.replies → r.typ = .nak := by
  obtain ⟨L', hR, _⟩ := raw_reach h
  intro r hr
  rw [processRaw_some cfg s hd] at hp
  cases hp
  exact Props.C12.unhonourable_never_acked hR now m hu r (List.mem_filter.1 hr).1

/-- **another server selected, on the bytes**: a REQUEST (as decoded from the payload) that selects another DHCP server is
    answered with a NAK carrying our server identifier in secondary mode (and in nice mode for a captured client) —
    when the NAK fits the request buffer — and with nothing in primary mode -/
theorem raw_other_server_nak_or_silence (cfg : Dhcp4Srv.Cfg) (s : State) (now : Nat) (rx : Rx) (p : Bytes) (res : Result) (m : Msg)
    (hp : processRaw cfg s now rx p = .ok res) (hd : Dhcp4Frame.decode now rx p = .ok (some (.request now m)))
    (hnz : reqIPOf m ≠ 0) (hk : reqKind m = .selecting) (hs : reqAddr m.srvOpt ≠ (cfg.sub (selSub s m.chaddr)).server) :
    res.replies = (if attacks cfg s m.chaddr then [nakReply m (cfg.sub (selSub s m.chaddr)).server (clientId m)] else []).filter
      (fits rx.cap) := by
  rw [processRaw_some cfg s hd] at hp
  cases hp
  show (request cfg s now m).2.filter (fits rx.cap) = _
  rw [Props.C12.other_server_nak_or_silence cfg s now m hnz hk hs]

/-! ### 5. C12 (b) against the wire, over raw histories -/

/-- every reply of a message handler fits a request buffer of 507 bytes or more (240 of header, at most 266 of
    options — a NAK echoing a 255-byte client identifier —, the end option) -/
theorem replies_fit_roomy {cfg : Dhcp4Srv.Cfg} {s : State} {now : Nat} {rx : Rx} {p : Bytes} {op : Op}
    (hd : Dhcp4Frame.decode now rx p = .ok (some op)) (hcap : 507 ≤ rx.cap) :
    (handleMsg cfg s op).2.filter (fits rx.cap) = (handleMsg cfg s op).2 := by
  apply List.filter_eq_self.2
  intro r hr
  obtain ⟨hlen, o, ho, hm⟩ := decode_msgRef hd
  obtain ⟨_, _, hshape⟩ := handleMsg_reply hm hr
  have hcl := clientId_msgRef_len rx p o hlen ho
  have hb : optsLen r.opts ≤ 266 := by
    rcases hshape with ⟨hn, _, l, a, e⟩ | ⟨_, _, _, srv, e⟩
    · rw [e]
      have := (mkReply_wf cfg (msgRef rx p o) r.typ l a hn).2
      omega
    · rw [e]
      exact (nakReply_wf _ srv _ hcl).2
  simp only [fits, Bool.and_eq_true, decide_eq_true_eq]
  omega

/-- the observer of the WIRE along a raw history: it sees the decoded message and the replies actually written -/
def watchRaw (W : Observed) (e : RawEv) (rs : List Reply) : Observed :=
  match opOf e with
  | some op => watch W op rs
  | none => W

/-- runs over raw events together with what an observer of the wire has seen (`Props.C12.runW` for byte strings) -/
def runRawW (cfg : Dhcp4Srv.Cfg) : State → Observed → List RawEv → List (State × Observed)
  | s, W, [] => [(s, W)]
  | s, W, e :: es => (stepRaw cfg s e).flatMap (fun o => runRawW cfg o.1 (watchRaw W e o.2) es)

/-- every payload of the history was received in a buffer of at least 507 bytes (so that no reply is dropped for
    lack of room: `replies_fit_roomy`; an Ethernet receive buffer has 1472) -/
def Roomy : RawEv → Bool
  | .rx _ rx _ => decide (507 ≤ rx.cap)
  | .env _ => true

theorem watch_nil_none (W : Observed) {op : Op} (h : isMsgOp op = false) : watch W op [] = W := by
  cases op <;> first | rfl | cases h

/-- a roomy raw history IS the abstract history of its decoded operations, observer included -/
theorem runRawW_eq (cfg : Dhcp4Srv.Cfg) : ∀ (evs : List RawEv) (s : State) (W : Observed), (∀ e, e ∈ evs → Roomy e = true) →
    runRawW cfg s W evs = Props.C12.runW cfg s W (opsOf evs)
  | [], s, W, _ => by simp [runRawW, Props.C12.runW, opsOf]
  | e :: es, s, W, hro => by
    have hro' : ∀ x, x ∈ es → Roomy x = true := fun x hx => hro x (List.mem_cons_of_mem _ hx)
    cases e with
    | env op =>
      have hops : opsOf (RawEv.env op :: es) = op :: opsOf es := by simp [opsOf, opOf]
      rw [hops]
      simp only [runRawW, Props.C12.runW, stepRaw, watchRaw, opOf]
      congr 1
      funext o
      exact runRawW_eq cfg es o.1 _ hro'
    | rx now rx p =>
      have hcap : 507 ≤ rx.cap := by
        have := hro _ (List.mem_cons_self ..)
        simpa [Roomy] using this
      obtain ⟨d, hd⟩ := decode_ok now rx p
      cases d with
      | some op =>
        have hops : opsOf (RawEv.rx now rx p :: es) = op :: opsOf es := by simp [opsOf, opOf_rx_some hd]
        rw [hops]
        simp only [runRawW, Props.C12.runW, stepRaw, processRaw_some cfg s hd, step_msg cfg s op (decode_isMsg hd),
          List.flatMap_cons, List.flatMap_nil, List.append_nil, watchRaw, opOf_rx_some hd, replies_fit_roomy hd hcap]
        exact runRawW_eq cfg es _ _ hro'
      | none =>
        obtain ⟨ret, forged, hp⟩ := processRaw_none cfg s hd
        have hops : opsOf (RawEv.rx now rx p :: es) = opsOf es := by simp [opsOf, opOf_rx_none hd]
        rw [hops]
        simp only [runRawW, stepRaw, hp, List.flatMap_cons, List.flatMap_nil, List.append_nil, watchRaw, opOf_rx_none hd]
        exact runRawW_eq cfg es s W hro'

/-- `(s, W)` is reached from the empty server by a roomy raw history; `W` is what an observer of the frames written has
    seen (offers outstanding, addresses last acknowledged) -/
def ReachRawW (cfg : Dhcp4Srv.Cfg) (s : State) (W : Observed) : Prop :=
  ∃ evs, (∀ e, e ∈ evs → Roomy e = true) ∧ (s, W) ∈ runRawW cfg (init cfg) ⟨[], []⟩ evs

theorem raw_reachW {cfg : Dhcp4Srv.Cfg} {s : State} {W : Observed} (h : ReachRawW cfg s W) : Props.C12.ReachW cfg s W := by
  obtain ⟨evs, hro, h⟩ := h
  rw [runRawW_eq cfg evs _ _ hro] at h
  exact ⟨opsOf evs, h⟩

/-- **C12 (b) against the wire, over raw histories.**  After any history of arbitrary byte strings (received in
    buffers of 507 bytes or more) and environment operations, an ACK is written for the next byte string only if these
    bytes decode to a REQUEST and EITHER it is a selecting REQUEST for exactly the address of an OFFER that was really
    written to this client identifier in this transaction (xid), not superseded nor consumed, OR the address is the
    one last acknowledged to this client — "written" / "acknowledged" being what an observer recorded from the frames
    alone -/
theorem raw_ack_confirms_observed {cfg : Dhcp4Srv.Cfg} {s : State} {W : Observed} (h : ReachRawW cfg s W) (now : Nat) (rx : Rx)
    (p : Bytes) (res : Result) (r : Reply) (hp : processRaw cfg s now rx p = .ok res) (hr : r ∈ res.replies)
    (ht : r.typ = .ack) :
    ∃ m, Dhcp4Frame.decode now rx p = .ok (some (.request now m)) ∧
      ((reqKind m = .selecting ∧ (⟨clientId m, m.xid, r.yiaddr⟩ : OfferRec) ∈ W.offers) ∨ (clientId m, r.yiaddr) ∈ W.held) := by
  have hW := raw_reachW h
  obtain ⟨ops, hops⟩ := hW
  obtain ⟨op, m, hd, hm, _, _, _, hr'⟩ := raw_reply_of_step hp hr
  obtain ⟨_, _, _, o, t, m', _, _, hc, _⟩ := served_payload hd
  rcases hc with ⟨_, e⟩ | ⟨_, e⟩ | ⟨_, e⟩ | ⟨_, e⟩
  · subst e
    exfalso
    rcases Lemmas.Dhcp4Srv.discover_outcome cfg s now m' with ⟨cur, e⟩ | ⟨s1, ip, _, _, _, e, _⟩
    · simp only [handleMsg] at hr'; rw [e] at hr'; cases hr'
    · simp only [handleMsg] at hr'; rw [e] at hr'
      simp only [List.mem_singleton] at hr'
      rw [hr'] at ht
      cases ht
  · subst e
    exact ⟨m', hd, Props.C12.ack_confirms_observed ⟨ops, hops⟩ now m' r hr' ht⟩
  · subst e
    exfalso
    rcases Lemmas.Dhcp4Srv.decline_outcome cfg s m' with e | e <;> simp only [handleMsg] at hr' <;> rw [e] at hr' <;> cases hr'
  · subst e
    exfalso
    simp only [handleMsg, release] at hr'
    cases hr'

/-! ### 6. the frame around the reply (C07 for DHCP replies) -/

/-- **C07 for the DHCPv4 replies, on the bytes.**  For every request payload (any bytes) received in a buffer of at
    most 1480 payload bytes (an Ethernet receive buffer of 1522) from Ethernet source `srcMAC`, every reply of
    `processRaw`, every admissible map iteration order and every content `g` of the 1522-byte pool buffer: the handler
    writes a frame (`replyFrame`: `sendDHCP4Packet` with the destination `ProcessPacket` selects) that the independent
    frame reference `Spec.Wire.wfUDP4` accepts — Ethernet source = the HOST NIC MAC, EtherType IPv4, a complete IPv4
    header whose version / IHL / total length are consistent and whose checksum verifies, protocol UDP, source = the
    host's address, UDP 67 → 68 with a consistent length, and the UDP payload is exactly the encoded reply (which the
    DHCP reference reads as `WireConforms`: `reply_roundtrip`).  The destination is the Ethernet / IPv4 broadcast
    when the datagram had no source address, else the sender's MAC and IP source. -/
theorem dhcp_reply_frame_wf (cfg : Dhcp4Srv.Cfg) (s : State) (now : Nat) (rx : Rx) (p spare : Bytes) (res : Result) (r : Reply)
    (o : Opts) (tail : List UInt8) (g : Mem) (hostMAC srcMAC : Bytes)
    (hp : processRaw cfg s now rx p = .ok res) (hr : r ∈ res.replies) (ho : parseOptions p = .ok o)
    (hcap : p.length + spare.length = rx.cap) (ht : TailOK r tail)
    (hbuf : rx.cap ≤ 1480) (hg : g.length = 1522) (hh : hostMAC.length = 6) (hs : srcMAC.length = 6) :
    ∃ msg w f, replyBytes p spare (optGet o 55) r tail = .ok msg ∧ Dhcp4Wire.read msg = some w ∧ WireConforms p r w ∧
      replyFrame g hostMAC cfg.host srcMAC rx r msg = .ok f ∧
      Spec.Wire.wfUDP4 hostMAC (replyDest srcMAC rx r).1 (ip4Bytes cfg.host) (replyDest srcMAC rx r).2 67 68 msg f = none ∧
      r.bcast = (rx.srcIP == 0) ∧
      replyDest srcMAC rx r = (if rx.srcIP = 0 then (ethBroadcast, [255, 255, 255, 255]) else (srcMAC, ip4Bytes rx.srcIP)) := by
  obtain ⟨msg, w, h1, _, h3, h4, h5, _⟩ := reply_roundtrip cfg s now rx p spare res r o tail hp hr ho hcap ht
  have hb : r.bcast = (rx.srcIP == 0) := by
    obtain ⟨op, m, hd, hm, _, _, _, hr'⟩ := raw_reply_of_step hp hr
    obtain ⟨m', hm', _, _, hsrc⟩ := decode_msg hd
    rw [hm] at hm'
    cases hm'
    obtain ⟨_, _, hshape⟩ := handleMsg_reply hm hr'
    rw [← hsrc]
    rcases hshape with ⟨_, _, l, a, e⟩ | ⟨_, _, _, srv, e⟩ <;> rw [e] <;> rfl
  have hd1 : (replyDest srcMAC rx r).1.length = 6 := by
    unfold replyDest; split
    · rfl
    · exact hs
  have hd2 : (replyDest srcMAC rx r).2.length = 4 := by
    unfold replyDest; split <;> rfl
  obtain ⟨f, hf, hwf⟩ := Props.C07.sent_udp4_wf g hostMAC (replyDest srcMAC rx r).1 (ip4Bytes cfg.host) (replyDest srcMAC rx r).2 50 67 68 msg
    hh hd1 rfl hd2 (by omega) (by omega) (by omega) hg
  refine ⟨msg, w, f, h1, h4, h5, hf, hwf, hb, ?_⟩
  unfold replyDest
  rw [hb]
  by_cases h0 : rx.srcIP = 0 <;> simp [h0]

/-! ### non-vacuity -/

instance (r : Reply) (tail : List UInt8) : Decidable (TailOK r tail) := by unfold TailOK; infer_instance

/-- what the reference reads in the bytes of a reply -/
structure Seen where
  len : Nat
  op : Nat
  yiaddr : Nat
  xid : Bytes
  chaddr : Bytes
  codes : List UInt8
  mask : Option Bytes
  router : Option Bytes
  mtype : Option Bytes
  tailOK : Bool
  deriving DecidableEq, Repr

/-- the replies of one call (clock 0) as the reference reads their bytes, for one iteration order -/
def readReplies (cfg : Dhcp4Srv.Cfg) (s : State) (rx : Rx) (p spare : Bytes) (tail : List UInt8) : List (Option Seen) :=
  match processRaw cfg s 0 rx p with
  | .ok res => res.replies.map (fun r =>
      match replyBytes p spare none r tail with
      | .ok b =>
        match Dhcp4Wire.read b with
        | some w => some ⟨b.length, w.fx.op, w.fx.yiaddr, w.fx.xid, w.fx.chaddr, w.opts.map (·.1), w.opt 1, w.opt 3, w.opt 53,
                     decide (TailOK r tail)⟩
        | none => none
      | _ => none)
  | _ => []

set_option maxRecDepth 100000 in
/-- the DISCOVER of `Props.ComposeDhcp.pDiscover` received in a 300-byte buffer by the empty server of `cfgEx`: one
    OFFER; its bytes (map iteration order 51, 53, 54, 6 after the ordered phase; the hypotheses of `reply_roundtrip`
    hold) are 300 bytes that the reference reads as BOOTREPLY, yiaddr 0.0.0.2, the request's xid and chaddr, options
    mask, router, lease time, type OFFER, server id, DNS — mask first -/
example : readReplies Props.C11.cfgEx (init Props.C11.cfgEx) ⟨0, 67, 300⟩ pDiscover (zeros 56) [1, 3, 51, 53, 54, 6]
    = [some ⟨300, 2, 2, [160, 0, 0, 1], [0, 2, 3, 4, 5, 1], [1, 3, 51, 53, 54, 6], some [255, 255, 255, 240], some [0, 0, 0, 1],
        some [2], true⟩] := by
  decide

set_option maxRecDepth 100000 in
/-- the reference refuses what `IsValid` refuses: an option running past the end, a payload of 239 bytes -/
example : Dhcp4Wire.read (pDiscover.take 240 ++ [53, 9, 1, 255]) = none ∧ Dhcp4Wire.read (pDiscover.take 239) = none := by
  decide

set_option maxRecDepth 100000 in
/-- non-vacuity of `ReachRawW` / `raw_ack_confirms_observed`: DISCOVER then the selecting REQUEST, as bytes in 1472-byte
    buffers: after the DISCOVER the observer holds the OFFER of 0.0.0.2 in transaction a0000001, after the REQUEST the
    lease (the offer is consumed) -/
example :
    ((runRawW Props.C11.cfgEx (init Props.C11.cfgEx) ⟨[], []⟩ [.rx 0 rxEx pDiscover]).map (·.2),
     (runRawW Props.C11.cfgEx (init Props.C11.cfgEx) ⟨[], []⟩ [.rx 0 rxEx pDiscover, .rx 0 rxEx pRequest]).map (·.2),
     [RawEv.rx 0 rxEx pDiscover, .rx 0 rxEx pRequest].all Roomy)
    = ([⟨[⟨[0, 2, 3, 4, 5, 1], [0xa0, 0, 0, 1], 2⟩], []⟩], [⟨[], [([0, 2, 3, 4, 5, 1], 2)]⟩], true) := by
  decide

end PV.Props.ComposeDhcpWire
