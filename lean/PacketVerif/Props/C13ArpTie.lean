/-
  F15: the ARP spoofing handler (handlers/arp_spoofer/arp.go, spoof.go) regenerated from the Go bodies
  (tools/goextract/arph.go → Gen/ArpGen.lean, rewritten by every `./check`) and tied by theorem to the models
  the C13 / C08 / C07 theorems are about:

    send helpers  `reply`, `Reply`, `RequestRaw`, `Request`, `RequestTo`, `Probe`, `AnnounceTo`
                  = the frame `Model.sendARP` builds (F7 ties EncodeEther / EncodeARP / SetPayload to the Go
                  bodies; Props/C03, C07 are about `sendARP`), written to `dst` through `session.Conn`;
    `ProcessPacket` projected onto the state of Model/Handlers.lean = `Handlers.arpProcess` (C08 / C13 raw-frame
                  theorems), for every state, frame descriptor and frame bytes;
    `StartHunt`, `StopHunt`, `Close`  = the steps `startHunt`, `stopHunt`, `close` of the hunt machine
                  (Model/ArpHunt.lean, the machine of Props/C13) under the refinement relation `Rel`;
    one pass of `spoofLoop`'s body = `check i ; forge i` | `check i ; restore i` | `check i` of the machine;
    `IsHunting`, `findHuntByIP`, `isClosed` in closed form.

  Locks, logging, pool release, log-only locals are listed by the translator and pinned here
  (`arp_ignored_reviewed`; C09 owns the locks); `go h.spoofLoop(addr)` is the `spawn` effect, the final `select`
  is `LoopCtl.wait` with its channels pinned (`spoofLoop_waits`, `spoofLoop_ticker`).
-/
import PacketVerif.Lemmas.ArpTieR
namespace PV.Props.C13ArpTie
open PV PV.Model PV.Model.ArpGo PV.Gen.Arp PV.Model.ArpHunt PV.Lemmas.ArpTie

/-! ### the reviewed lists -/

def reviewedTranslated : List String := [
  "Handler_reply",
  "Handler_Reply",
  "Handler_RequestRaw",
  "Handler_Request",
  "Handler_RequestTo",
  "Handler_Probe",
  "Handler_AnnounceTo",
  "Handler_Close",
  "Handler_isClosed",
  "Handler_findHuntByIP",
  "Handler_IsHunting",
  "Handler_StartHunt",
  "Handler_StopHunt",
  "Handler_spoofLoop_iter",
  "Handler_ProcessPacket"]

/-- `WhoIs` (a counted retry loop around `session.FindIP` and `Request`) is not translated -/
def reviewedUntranslated : List String := [
  "Handler_WhoIs: for with init/cond/post"]

def reviewedIgnored : List String := [
  "Handler_reply: pool release: defer packet.EtherBufferPool.Put(b)",
  "Handler_Reply: logging: if Logger.IsDebug() { Logger.Msg(\"send reply ip is at\").IP(\"ip\", sender.IP).MAC(\"mac\", sender.MAC).Write() // …",
  "Handler_RequestRaw: pool release: defer packet.EtherBufferPool.Put(b)",
  "Handler_Request: logging: if Logger.IsDebug() { Logger.Msg(\"send request - who is\").IP(\"ip\", targetIP).IP(\"tell\", h.session.NICInfo.Host…",
  "Handler_RequestTo: logging: if Logger.IsDebug() { Logger.Msg(\"send request - who is\").IP(\"ip\", targetIP).IP(\"tell\", h.session.NICInfo.Host…",
  "Handler_AnnounceTo: logging: if Logger.IsDebug() { if bytes.Equal(dst, packet.EthernetBroadcast) { Logger.Msg(\"send announcement broadcast …",
  "Handler_Close: lock: h.arpMutex.Lock()",
  "Handler_Close: lock: defer h.arpMutex.Unlock()",
  "Handler_isClosed: lock: h.arpMutex.RLock()",
  "Handler_isClosed: lock: defer h.arpMutex.RUnlock()",
  "Handler_IsHunting: lock: h.arpMutex.Lock()",
  "Handler_IsHunting: lock: defer h.arpMutex.Unlock()",
  "Handler_StartHunt: lock: h.arpMutex.Lock()",
  "Handler_StartHunt: lock: defer h.arpMutex.Unlock()",
  "Handler_StartHunt: logging: if Logger.IsInfo() { Logger.Msg(\"start hunt\").Struct(addr).Write() }",
  "Handler_StopHunt: lock: h.arpMutex.Lock()",
  "Handler_StopHunt: lock: h.arpMutex.Unlock()",
  "Handler_StopHunt: logging: if !hunting { Logger.Msg(\"error stop hunt failed - not in hunt stage\").Struct(addr).Write() }",
  "Handler_StopHunt: logging: if Logger.IsInfo() { Logger.Msg(\"stop hunt\").Struct(addr).Write() }",
  "Handler_spoofLoop_iter: loop-local without model counterpart: ticker := time.NewTicker(time.Second * 6).C",
  "Handler_spoofLoop_iter: loop-local without model counterpart: startTime := time.Now()",
  "Handler_spoofLoop_iter: loop-local without model counterpart: nTimes := 0",
  "Handler_spoofLoop_iter: lock: h.arpMutex.Lock()",
  "Handler_spoofLoop_iter: logging: if Logger.IsInfo() { Logger.Msg(\"hunt loop stop\").Struct(addr).Int(\"repeat\", nTimes).String(\"duration\", time.S…",
  "Handler_spoofLoop_iter: logging (body of `if err != nil`): { Logger.Msg(\"error send request packet\").Struct(addr).Error(err).Write() }",
  "Handler_spoofLoop_iter: lock: h.arpMutex.Unlock()",
  "Handler_spoofLoop_iter: lock: h.arpMutex.Unlock()",
  "Handler_spoofLoop_iter: logging: Logger.Msg(\"error send announcement packet\").Struct(targetAddr).Error(err).Write()",
  "Handler_spoofLoop_iter: logging: if nTimes%16 == 0 { // minimise logging if Logger.IsInfo() { Logger.Msg(\"hunt loop attack\").Struct(targetAddr)…",
  "Handler_spoofLoop_iter: log-only local: nTimes++",
  "Handler_ProcessPacket: logging: if Logger.IsDebug() { Logger.Msg(\"skipping link local packet\").Struct(arpFrame).Write() }",
  "Handler_ProcessPacket: logging: if Logger.IsDebug() { Logger.Msg(\"request rcvd\").MAC(\"ethSrc\", frame.SrcAddr.MAC).MAC(\"ethDst\", frame.DstAddr.…",
  "Handler_ProcessPacket: lock: h.arpMutex.Lock()",
  "Handler_ProcessPacket: logging: if Logger.IsDebug() { Logger.Msg(\"router spoofing - send reply I am\").IP(\"ip\", arpFrame.DstIP()).MAC(\"dstmac\",…",
  "Handler_ProcessPacket: logging (body of `if err != nil`): { Logger.Msg(\"failed to send spoofing reply\").MAC(\"mac\", arpFrame.SrcMAC()).Error(err).Write() }",
  "Handler_ProcessPacket: lock: h.arpMutex.Unlock()",
  "Handler_ProcessPacket: lock: h.arpMutex.Unlock()",
  "Handler_ProcessPacket: logging: if Logger.IsDebug() { Logger.Msg(\"probe rcvd\").MAC(\"ethSrc\", frame.SrcAddr.MAC).MAC(\"ethDst\", frame.DstAddr.MA…",
  "Handler_ProcessPacket: logging: Logger.Msg(\"probe reject for\").IP(\"ip\", arpFrame.DstIP()).MAC(\"fromMAC\", arpFrame.SrcMAC()).IP(\"offer\", offer)…",
  "Handler_ProcessPacket: logging: if Logger.IsDebug() { Logger.Msg(\"announcement rcvd\").MAC(\"ethSrc\", frame.SrcAddr.MAC).MAC(\"ethDst\", frame.Dst…",
  "Handler_ProcessPacket: logging: if Logger.IsDebug() { Logger.Msg(\"reply rcvd\").MAC(\"ethSrc\", frame.SrcAddr.MAC).MAC(\"ethDst\", frame.DstAddr.MA…",
  "Handler_ProcessPacket: logging: Logger.Msg(\"invalid operation\").Struct(arpFrame).Write()"]

def reviewedCallees : List String := [
  "Session.DHCPv4IPOffer",
  "net.PacketConn.WriteTo",
  "netip.Addr.Is4",
  "netip.Addr.IsLinkLocalUnicast",
  "netip.Prefix.Contains",
  "packet.ARP.DstIP",
  "packet.ARP.IsValid",
  "packet.ARP.Operation",
  "packet.ARP.SrcIP",
  "packet.ARP.SrcMAC",
  "packet.EncodeARP",
  "packet.EncodeEther",
  "packet.Ether.Payload",
  "packet.Ether.SetPayload",
  "packet.EtherBufferPool.Get",
  "packet.EthernetBroadcast",
  "packet.EthernetZero",
  "packet.Frame.Payload",
  "packet.IP4Broadcast",
  "packet.IPv4zero"]

def reviewedAssumptions : List String := [
  "a nil net.HardwareAddr and an empty one are not distinguished (macIsNil)",
  "range h.huntList visits the entries in the order of the association list (only first-match loops are translated)"]

theorem arp_translated_reviewed : arpTranslated = reviewedTranslated := by decide
theorem arp_untranslated_reviewed : arpUntranslated = reviewedUntranslated := by decide
/-- a lock, log, pool or log-only statement added, removed or moved shows up here -/
theorem arp_ignored_reviewed : arpIgnored = reviewedIgnored := rfl
theorem arp_callees_accounted : arpCallees = reviewedCallees := by decide
theorem arp_assumptions_accounted : arpAssumptions = reviewedAssumptions := by decide
/-- the loop blocks between two forged announcements: on `closeChan` and on the 6-second ticker -/
theorem spoofLoop_waits : Handler_spoofLoop_iter_waits = [
  "h.closeChan",
  "ticker"] := by decide
theorem spoofLoop_ticker : Handler_spoofLoop_iter_ticker = "time.NewTicker(time.Second * 6).C" := by decide

/-! ### send helpers (C07: the frames; C13: who they are addressed to) -/

/-- `reply`: Ethernet source = our MAC, destination `dst`, ARP operation 2 with the given sender / target,
    written to `&Addr{MAC: dst}` -/
theorem reply_tie (e : Env) (st : HSt) (dst sm si tm ti : Bytes) :
    Handler_reply e st dst sm si tm ti =
      (sendARP e.pool e.cfg.parse.hostMAC dst 2 sm si tm ti >>= fun f => connWriteTo e st f dst) := reply_eq e st dst sm si tm ti

theorem Reply_tie (e : Env) (st : HSt) (dst sm si tm ti : Bytes) :
    Handler_Reply e st dst sm si tm ti =
      (sendARP e.pool e.cfg.parse.hostMAC dst 2 sm si tm ti >>= fun f => connWriteTo e st f dst) := Reply_eq e st dst sm si tm ti

/-- `RequestRaw`: Ethernet source = our MAC (never the spoofed sender), operation 1 -/
theorem requestRaw_tie (e : Env) (st : HSt) (dst sm si tm ti : Bytes) :
    Handler_RequestRaw e st dst sm si tm ti =
      (sendARP e.pool e.cfg.parse.hostMAC dst 1 sm si tm ti >>= fun f => connWriteTo e st f dst) := requestRaw_eq e st dst sm si tm ti

theorem request_tie (e : Env) (st : HSt) (tip : Bytes) :
    Handler_Request e st tip =
      if ipIs4 tip then sendFrame e st ethernetBroadcast 1 e.cfg.parse.hostMAC e.hostIP ethernetBroadcast tip
      else .ok (st, some .invalidIP) := Request_eq e st tip

theorem requestTo_tie (e : Env) (st : HSt) (dst tip : Bytes) :
    Handler_RequestTo e st dst tip =
      if ipIs4 tip then sendFrame e st dst 1 e.cfg.parse.hostMAC e.hostIP ethernetBroadcast tip
      else .ok (st, some .invalidIP) := RequestTo_eq e st dst tip

/-- `Probe`: sender IP all zero, target MAC all zero (RFC 5227) -/
theorem probe_tie (e : Env) (st : HSt) (ip : Bytes) :
    Handler_Probe e st ip = sendFrame e st ethernetBroadcast 1 e.cfg.parse.hostMAC ipv4zero ethernetZero ip := Probe_eq e st ip

/-- `AnnounceTo`: sender = (our MAC, the announced IP), target IP = the announced IP -/
theorem announceTo_tie (e : Env) (st : HSt) (dst ip : Bytes) :
    Handler_AnnounceTo e st dst ip = sendFrame e st dst 1 e.cfg.parse.hostMAC ip ethernetBroadcast ip := AnnounceTo_eq e st dst ip

/-- the encoders return no Go error: a send fails only through the connection -/
theorem sendARP_no_error (g : Mem) (h d : Bytes) (op : Nat) (a1 a2 a3 a4 : Bytes) (x : Err) :
    sendARP g h d op a1 a2 a3 a4 ≠ .err x := by
  intro hc; have := noErr_sendARP g h d op a1 a2 a3 a4; rw [hc] at this; exact this

/-! ### ProcessPacket -/

/-- the regenerated `ProcessPacket`, with the hunt list reduced to its keys and the written frames to their
    bytes, is `Handlers.arpProcess` (validation, link-local skip, operation switch, hunted-requester reply,
    probe reject, returned error, panics) – for every handler state, frame descriptor and frame.
    `hoff`: `DHCPv4IPOffer` returns an IPv4 address or the zero Addr. -/
theorem processPacket_tie (e : Env) (st : HSt) (fr : Frame) (p : Bytes)
    (hoff : ∀ m o, e.offer m = some o → o.length = 4) :
    (Handler_ProcessPacket e st fr p >>= fun r => .ok (absM false r.1, r.2)) =
      Handlers.arpProcess e.toArpEnv (absM false st) fr p := processPacket_abs e st fr p hoff

/-- every frame `ProcessPacket` writes goes to the ARP sender of the packet it answers: the connection
    address of a `Reply` is its Ethernet destination (see `Reply_tie`), and `ProcessPacket` only sends through `Reply` -/
theorem reply_addressed (e : Env) (st st' : HSt) (dst sm si tm ti : Bytes) (r : Option Err)
    (h : Handler_Reply e st dst sm si tm ti = .ok (st', r)) :
    st' = st ∨ ∃ f, sendARP e.pool e.cfg.parse.hostMAC dst 2 sm si tm ti = .ok f ∧ st' = { st with sent := st.sent ++ [(f, dst)] } := by
  rw [Reply_eq] at h
  obtain ⟨f, hf, hc⟩ := sendFrame_ok h
  rcases hc with ⟨_, h⟩ | ⟨_, h⟩
  · exact .inr ⟨f, hf, h⟩
  · exact .inl h

/-! ### StartHunt / StopHunt / Close / IsHunting -/

theorem startHunt_tie (e : Env) (st : HSt) (mac ip : Bytes) :
    Handler_StartHunt e st mac ip =
      if macIsNil mac || !ipIs4 ip then .ok (st, 0, some .invalidIP)
      else if mac ∈ keys st.hunt then .ok (st, 2, none)
      else .ok (spawn { st with hunt := (mac, (mac, ip)) :: st.hunt } mac ip, 2, none) := StartHunt_eq e st mac ip

/-- `StartHunt` is the machine's `startHunt` step (a new loop thread with this MAC exactly when the MAC was not hunted) -/
theorem startHunt_refines (e : Env) (st : HSt) (s : State) (mac ip : Bytes) (hr : Rel st s) (hf : s.holder = none) :
    ∃ st' stage err s' o, Handler_StartHunt e st mac ip = .ok (st', stage, err) ∧
      step s (.startHunt mac (!(macIsNil mac || !ipIs4 ip))) = some (s', o) ∧ Rel st' s' ∧
      (err = some .invalidIP ∧ o = .startErr ∧ stage = 0 ∨ err = none ∧ o = .startOk ∧ stage = 2) :=
  startHunt_step e st s mac ip hr hf

/-- `StopHunt` deletes the entry keyed by `addr.MAC` (the IP plays no role), returns StageNormal -/
theorem stopHunt_tie (e : Env) (st : HSt) (mac ip : Bytes) :
    Handler_StopHunt e st mac ip = .ok ({ st with hunt := mapDel st.hunt mac }, 1, none) := StopHunt_eq e st mac ip

theorem stopHunt_refines (e : Env) (st : HSt) (s : State) (mac ip : Bytes) (hr : Rel st s) (hf : s.holder = none) :
    ∃ st' s', Handler_StopHunt e st mac ip = .ok (st', 1, none) ∧ step s (.stopHunt mac ip) = some (s', .none) ∧ Rel st' s' :=
  stopHunt_step e st s mac ip hr hf

theorem close_tie (e : Env) (st : HSt) :
    Handler_Close e st =
      if st.closed then .ok (st, none)
      else (chanClose { st with closed := true } >>= fun st' => .ok (st', none)) := Close_eq e st

/-- `Close` is the machine's `close` step; `closeChan` is closed once (no double-close panic) -/
theorem close_refines (e : Env) (st : HSt) (s : State) (hr : Rel st s) (hf : s.holder = none) :
    ∃ st' s', Handler_Close e st = .ok (st', none) ∧ step s .close = some (s', .none) ∧ Rel st' s' ∧ st'.closed = true :=
  close_step e st s hr hf

theorem isHunting_tie (e : Env) (st : HSt) (ip : Bytes) :
    Handler_IsHunting e st ip = .ok (st, (mapVals st.hunt).any (fun v => v.2 == ip)) := IsHunting_eq e st ip

theorem findHuntByIP_tie (e : Env) (st : HSt) (ip : Bytes) :
    Handler_findHuntByIP e st ip =
      match (mapVals st.hunt).find? (fun v => v.2 == ip) with
      | some v => .ok (st, v, true)
      | none => .ok (st, ([], []), false) := findHuntByIP_eq e st ip

theorem isClosed_tie (e : Env) (st : HSt) : Handler_isClosed e st = .ok (st, st.closed) := rfl

/-- the invariant "every entry is stored under the MAC of its value" is kept by the two writers of the list -/
theorem keyed_startHunt (e : Env) (st st' : HSt) (mac ip : Bytes) (r : Nat × Option Err) (hv : KeyedByMAC st)
    (h : Handler_StartHunt e st mac ip = .ok (st', r)) : KeyedByMAC st' := startHunt_keyed e st st' mac ip r hv h
theorem keyed_stopHunt (e : Env) (st st' : HSt) (mac ip : Bytes) (r : Nat × Option Err) (hv : KeyedByMAC st)
    (h : Handler_StopHunt e st mac ip = .ok (st', r)) : KeyedByMAC st' := stopHunt_keyed e st st' mac ip r hv h

/-! ### one pass of spoofLoop -/

theorem spoofLoop_tie (e : Env) (st : HSt) (mac ip : Bytes) :
    Handler_spoofLoop_iter e st mac ip =
      if (mapLookup st.hunt mac).2.2 = true ∧ st.closed = false then
        (sendFrame e st (mapLookup st.hunt mac).1 1 e.cfg.parse.hostMAC e.cfg.routerIP ethernetBroadcast e.cfg.routerIP
          >>= fun r => .ok (r.1, if r.2.isSome then LoopCtl.ret else LoopCtl.wait))
      else if st.closed = false then
        (sendFrame e st mac 1 e.cfg.parse.routerMAC e.cfg.routerIP e.cfg.parse.routerMAC e.cfg.routerIP
          >>= fun r => .ok (r.1, LoopCtl.ret))
      else .ok (st, LoopCtl.ret) := spoofLoop_eq e st mac ip

/-- hunted and open, the write succeeds: `check i ; forge i` – the forged announcement (router IP at our MAC)
    goes to the loop's own MAC and the loop waits in its `select` -/
theorem spoofLoop_refines_forge (e : Env) (st st' : HSt) (s : State) (i : Nat) (mac ip : Bytes)
    (hr : Rel st s) (hf : s.holder = none) (hv : KeyedByMAC st)
    (hmac : (s.loops i).mac = mac) (hpc : (s.loops i).pc = .check)
    (hh : mac ∈ keys st.hunt) (hc : st.closed = false)
    (hs : sendFrame e st mac 1 e.cfg.parse.hostMAC e.cfg.routerIP ethernetBroadcast e.cfg.routerIP = .ok (st', none)) :
    Handler_spoofLoop_iter e st mac ip = .ok (st', .wait) ∧
      ∃ s', run s [.check i, .forge i] = some (s', [.none, .forged mac]) ∧ Rel st' s' ∧ (s'.loops i).pc = .wait ∧ s'.holder = none :=
  spoofLoop_forge e st st' s i mac ip hr hf hv hmac hpc hh hc hs

/-- not hunted any more (StopHunt) and open: `check i ; restore i` – the request carrying the router's real MAC
    and IP goes to the loop's MAC, then the goroutine ends -/
theorem spoofLoop_refines_restore (e : Env) (st st' : HSt) (s : State) (i : Nat) (mac ip : Bytes) (r : Option Err)
    (hr : Rel st s) (hf : s.holder = none)
    (hmac : (s.loops i).mac = mac) (hpc : (s.loops i).pc = .check)
    (hh : mac ∉ keys st.hunt) (hc : st.closed = false)
    (hs : sendFrame e st mac 1 e.cfg.parse.routerMAC e.cfg.routerIP e.cfg.parse.routerMAC e.cfg.routerIP = .ok (st', r)) :
    Handler_spoofLoop_iter e st mac ip = .ok (st', .ret) ∧
      ∃ s', run s [.check i, .restore i] = some (s', [.none, .restoring mac]) ∧ Rel st' s' ∧ (s'.loops i).pc = .done ∧ s'.holder = none :=
  spoofLoop_restore e st st' s i mac ip r hr hf hmac hpc hh hc hs

/-- closed: `check i` – nothing is written, the goroutine ends -/
theorem spoofLoop_refines_closed (e : Env) (st : HSt) (s : State) (i : Nat) (mac ip : Bytes)
    (hr : Rel st s) (hf : s.holder = none) (hpc : (s.loops i).pc = .check) (hc : st.closed = true) :
    Handler_spoofLoop_iter e st mac ip = .ok (st, .ret) ∧
      ∃ s', run s [.check i] = some (s', [.none]) ∧ Rel st s' ∧ (s'.loops i).pc = .done ∧ s'.holder = none :=
  spoofLoop_closed e st s i mac ip hr hf hpc hc

/-! ### non-vacuity: the regenerated code runs -/

def env0 : Env :=
  { cfg := { parse := { hostMAC := [2, 0, 0, 0, 0, 1], routerMAC := [2, 0, 0, 0, 0, 0xfe], lanAddr := [192, 168, 0, 0], lanBits := 24 },
             routerIP := [192, 168, 0, 1] },
    conn := .up, pool := List.replicate 64 0, offer := fun _ => none, hostIP := [192, 168, 0, 2] }

def tgt : Bytes := [2, 0, 0, 0, 0, 7]

/-- StartHunt inserts the target and starts one goroutine; a pass of the loop then writes one 42-byte frame to it and waits -/
example : (Handler_StartHunt env0 {} tgt [192, 168, 0, 7] >>= fun r => Outcome.ok (keys r.1.hunt, r.1.spawned.length, r.2)) =
    Outcome.ok ([tgt], 1, 2, none) := by decide

example : (Handler_StartHunt env0 {} tgt [192, 168, 0, 7] >>= fun r => Handler_spoofLoop_iter env0 r.1 tgt [192, 168, 0, 7] >>=
    fun r => Outcome.ok (r.1.sent.map (fun x => (x.1.length, x.2)), r.2)) = Outcome.ok ([(42, tgt)], LoopCtl.wait) := by decide

end PV.Props.C13ArpTie
