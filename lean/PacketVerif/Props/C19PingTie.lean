/-
  F19 — the ping code of layer_icmp.go, regenerated from the Go bodies (Gen/PingGen.lean, tools/goextract/pingh.go),
  tied to the transition system of Model/Ping.lean (obligation of C19 and C09).

  * `echoNotify_tie`: the regenerated `echoNotify` IS the `echo id` transition (lookup, msgRecv, close(wakeup), delete).
  * `ping_tie` / `Ping6_tie` / `Ping_tie`: the regenerated blocking functions are the reference program `pingProg`
    (lock section by lock section, the transmitting call, the select, the read of msgRecv - in the Go order).
  * `reg_section_tie` … `unreg_section_tie`: every scheduling step of `pingProg` is the corresponding transition of
    `Model.Ping.step` (the model's pc / id / ret / sent bookkeeping is `ctl`).
  * `echo4_tie` / `echo6_tie`: what the two SendEchoRequest functions transmit.
  * the reviewed lists.
-/
import PacketVerif.Gen.PingGen
namespace PV.Props.C19PingTie
open PV PV.Model PV.Model.Ping PV.Model.PingGo PV.Gen.Ping

/-! ### echoNotify -/

/-- `echoNotify(id)` (regenerated) is the `echo id` transition: nothing on an empty table or an unknown identifier;
    otherwise msgRecv := true, ONE close of the waiter's channel, and the entry is deleted.  `markSeen` is the
    history variable of the model (not Go state). -/
theorem echoNotify_tie (s : State) (id : Nat) :
    step s (.echo id) = some (echoNotify { s with th := markSeen s.th id } id) := by
  simp only [step, echoNotify, tlen, setRecv, chanClose]
  cases ht : s.table with
  | nil => simp
  | cons a l =>
    have h1 : ¬ ((↑((a :: l).length) : Int) ≤ 0) := by simp
    simp only [List.isEmpty_cons, Bool.false_eq_true, if_false, h1, decide_false]
    cases hg : tget (a :: l) id with
    | none => simp
    | some q =>
      simp only [Option.some.injEq, State.mk.injEq, true_and]
      funext r; simp only [upd]; split <;> simp_all

/-- on an empty table `echoNotify` changes nothing -/
theorem echoNotify_empty (s : State) (id : Nat) (h : s.table = []) : echoNotify s id = s := by
  simp [echoNotify, tlen, h]

/-- an identifier nobody waits for changes nothing (identifier 0 is an identifier like any other: `echoNotify_hit`) -/
theorem echoNotify_miss (s : State) (id : Nat) (h : tget s.table id = none) : echoNotify s id = s := by
  simp only [echoNotify, h]; split <;> rfl

/-- a waiting identifier - whatever its value - is woken and removed -/
theorem echoNotify_hit (s : State) (id q : Nat) (h : tget s.table id = some q) :
    (echoNotify s id).table = tdel s.table id ∧ ((echoNotify s id).th q).recv = true ∧
    ((echoNotify s id).th q).closes = (s.th q).closes + 1 := by
  have hne : s.table ≠ [] := by intro h0; simp [h0, tget] at h
  simp [echoNotify, tlen, h, hne, setRecv, chanClose, upd]

/-! ### the blocking functions -/

theorem clamp_eq (t : Int) :
    (if (decide (t ≤ 0) || decide (t > 10000000000)) then (2000000000 : Int) else t) = effTimeout t := by
  simp [effTimeout]

/-- `Session.ping` = the reference program for IPv4 -/
theorem ping_tie (p : Nat) (src dst : GAddr) (t : Int) : Session_ping p src dst t = pingProg false p src dst t := by
  simp only [Session_ping, pingProg, clamp_eq, regSection, sendProg, echoCallee, cleanupProg, waitProg, unregProg]
  rfl

/-- `Session.Ping6` = the reference program for IPv6 -/
theorem Ping6_tie (p : Nat) (src dst : GAddr) (t : Int) : Session_Ping6 p src dst t = pingProg true p src dst t := by
  simp only [Session_Ping6, pingProg, clamp_eq, regSection, sendProg, echoCallee, cleanupProg, waitProg, unregProg]
  rfl

/-- `Session.Ping(dst, t)` = `ping(h.NICInfo.HostAddr4, dst, t)` -/
theorem Ping_tie (host : GAddr) (p : Nat) (dst : GAddr) (t : Int) : Session_Ping host p dst t = pingProg false p host dst t := by
  simp only [Session_Ping, ping_tie]

/-! ### every scheduling step of the program is the model's transition -/

/-- first lock section = `reg p`: the identifier is the counter's value, the counter is incremented modulo 2^16,
    the entry is stored under the identifier (overwriting whatever was there), and the call goes on to the send -/
theorem reg_section_tie (v6 : Bool) (s : State) (p : Nat) (src dst : GAddr) (t : Int) (h : (s.th p).pc = .init) :
    (pingProg v6 p src dst t).step s .tau = some ((regSection p s).1, sendProg v6 p src dst (effTimeout t) (regSection p s).2) ∧
    step s (.reg p) = some (ctl (regSection p s).1 p (fun th => { th with pc := .send, id := (regSection p s).2 })) := by
  constructor
  · rfl
  · simp [step, h, ctl, regSection, u16succ, idMod]

/-- the registration happens BEFORE the transmitting call: the program's first node is the lock section, and the
    call node is reached only through it -/
theorem registered_before_send (v6 : Bool) (s : State) (p : Nat) (src dst : GAddr) (t : Int) :
    (pingProg v6 p src dst t).step s (.ret none) = none ∧
    ∃ s' k, (pingProg v6 p src dst t).step s .tau = some (s', .call (echoCallee v6 src dst s.nextId 1) k) ∧
      tget s'.table s.nextId = some p := by
  refine ⟨rfl, _, _, rfl, ?_⟩
  simp [regSection, tget, tset]

/-- the transmitting call: sequence number 1, the identifier just registered; nil → wait, error → cleanup section -/
theorem send_tie (v6 : Bool) (s : State) (p : Nat) (src dst : GAddr) (t : Int) (id : Nat) (err : Option Err) :
    (sendProg v6 p src dst t id).step s (.ret err) =
      some (s, if err.isSome then cleanupProg id err else waitProg p id t) ∧
    (sendProg v6 p src dst t id).step s .tau = none := ⟨rfl, rfl⟩

/-- model side of the send: only bookkeeping changes (`sendOk` / `sendErr` touch no Go state) -/
theorem send_model (s : State) (p : Nat) (h : (s.th p).pc = .send) :
    step s (.sendOk p) = some (ctl s p (fun th => { th with pc := .wait, sent := true })) ∧
    step s (.sendErr p) = some (ctl s p (fun th => { th with pc := .cleanup })) := by
  simp [step, h, ctl]

/-- cleanup section (send failed) = `cleanup p`: the waiter is deleted and the send error returned -/
theorem cleanup_section_tie (s : State) (p : Nat) (e : Err) (h : (s.th p).pc = .cleanup) :
    (cleanupProg (s.th p).id (some e)).step s .tau = some ({ s with table := tdel s.table (s.th p).id }, .done (some e)) ∧
    step s (.cleanup p) = some (ctl { s with table := tdel s.table (s.th p).id } p (fun th => { th with pc := .done, ret := .sendErr })) := by
  constructor
  · rfl
  · simp [step, h, ctl]

/-- the select: exactly the call's own wake-up channel and the timer of the effective timeout -/
theorem wait_tie (s : State) (p id : Nat) (t : Int) (c : Chan) :
    (waitProg p id t).step s (.fire c) = (if c = .wakeup p ∨ c = .after t then some (s, unregProg p id) else none) := by
  simp [waitProg, Prog.step]

theorem wait_model (s : State) (p : Nat) (h : (s.th p).pc = .wait) :
    step s (.timeout p) = some (ctl s p (fun th => { th with pc := .unreg })) ∧
    (0 < (s.th p).closes → step s (.wake p) = some (ctl s p (fun th => { th with pc := .unreg }))) ∧
    ((s.th p).closes = 0 → step s (.wake p) = none) := by
  refine ⟨by simp [step, h, ctl], fun hc => by simp [step, h, hc, ctl], fun hc => by simp [step, h, hc]⟩

/-- last lock section + read of msgRecv = `unreg p`: the entry is deleted on every exit, nil iff msgRecv -/
theorem unreg_section_tie (s : State) (p : Nat) (h : (s.th p).pc = .unreg) :
    Prog.taus 2 (unregProg p (s.th p).id) s =
      ({ s with table := tdel s.table (s.th p).id }, .done (if (s.th p).recv then none else some .timeout)) ∧
    step s (.unreg p) = some (ctl { s with table := tdel s.table (s.th p).id } p
      (fun th => { th with pc := .done, ret := retOf (if (s.th p).recv then none else some .timeout) })) := by
  constructor
  · simp only [Prog.taus, unregProg]
    cases (s.th p).recv <;> rfl
  · simp only [step, h, if_true, ctl]
    cases (s.th p).recv <;> rfl

/-- every path of the program ends with the identifier deleted (send error and normal exit alike) -/
theorem deleted_on_every_exit (s : State) (p id : Nat) (e : Err) :
    tget ((cleanupProg id (some e)).stepD s .tau).1.table id = none ∧
    tget (Prog.taus 2 (unregProg p id) s).1.table id = none := by
  have hd : ∀ l : List (Nat × Nat), tget (tdel l id) id = none := by
    intro l; simp [tget, tdel, List.find?_eq_none]
  exact ⟨hd _, hd _⟩

/-! ### the send functions -/

def hello : Bytes := [72, 69, 76, 76, 79, 45, 78, 69, 84, 70, 73, 76, 84, 69, 82]   -- "HELLO-NETFILTER"

/-- `icmp4SendPacket` (regenerated: pooled buffer, EncodeEther with our MAC as source, EncodeIP4 with TTL 50, the checksum stored
    into the message, AppendPayload with protocol 1, SetPayload, WriteTo; an error of the three last steps is returned at once)
    = `Model.sendICMP4` + the write, for every message of at least the 4 bytes `SetChecksum` indexes -/
theorem icmp4SendPacket_tie (e : SEnv) (sent : List Bytes) (src dst : GAddr) (p : Bytes) (hp : 4 ≤ p.length) :
    errAsValue sent (Session_icmp4SendPacket e sent src dst p) = icmp4SendPacket e sent src dst p := by
  have hlt : ¬ p.length < 4 := by omega
  unfold Session_icmp4SendPacket icmp4SendPacket sendICMP4
  simp only [hlt, if_false, bind, Outcome.bind, pure_ok]
  cases h1 : encodeEther e.pool (whole e.pool) 2048 e.hostMAC dst.mac with
  | err x => rfl
  | panic => rfl
  | hang => rfl
  | ok r1 =>
    obtain ⟨m1, eth⟩ := r1
    simp only [etherPayloadNN, bind, Outcome.bind, pure_ok]
    cases h2 : etherPayloadSl m1 eth with
    | err x => rfl
    | panic => rfl
    | hang => rfl
    | ok o =>
      cases o with
      | none => rfl
      | some pay =>
        simp only
        cases h3 : encodeIP4 m1 pay 50 src.ip dst.ip with
        | err x => rfl
        | panic => rfl
        | hang => rfl
        | ok r3 =>
          obtain ⟨m3, ip⟩ := r3
          simp only [icmpSetChecksum, hlt, if_false, ip4AppendPayloadE]
          cases h4 : ip4AppendPayload m3 ip (putChecksum p 2 (checksum p)) 1 with
          | err x => rfl
          | panic => rfl
          | hang => rfl
          | ok r4 =>
            obtain ⟨m4, ip'⟩ := r4
            simp only [etherSetPayloadE, bind, Outcome.bind, pure_ok, Option.isSome_none, Bool.false_eq_true, if_false]
            cases h5 : etherSetPayload m4 eth ip'.len with
            | err x => rfl
            | panic => rfl
            | hang => rfl
            | ok f =>
              simp only [Option.isSome_none, Bool.false_eq_true, if_false]
              unfold connWrite
              cases e.conn <;> rfl

/-- a short message makes `icmp4SendPacket` panic or fail before anything is written (never a frame) -/
theorem icmp4SendPacket_short (e : SEnv) (sent : List Bytes) (src dst : GAddr) (p : Bytes) (hp : p.length < 4) :
    ∀ r, Session_icmp4SendPacket e sent src dst p = .ok r → False := by
  intro r
  unfold Session_icmp4SendPacket
  simp only [bind, Outcome.bind, icmpSetChecksum, hp, if_true]
  cases encodeEther e.pool (whole e.pool) 2048 e.hostMAC dst.mac with
  | ok r1 =>
    simp only
    cases etherPayloadNN r1.1 r1.2 with
    | ok r2 =>
      simp only
      cases encodeIP4 r1.1 r2 50 src.ip dst.ip <;> simp
    | _ => simp
  | _ => simp

/-- `ICMP4SendEchoRequest`: ErrInvalidIP unless both addresses are IPv4; else the echo request (type 8, code 0, the
    identifier, the sequence number, the 15 data bytes) goes through `icmp4SendPacket` -/
theorem echo4_tie (e : SEnv) (sent : List Bytes) (src dst : GAddr) (id seq : Nat) :
    errAsValue sent (Session_ICMP4SendEchoRequest e sent src dst id seq) =
      if (!(ipIs4 src.ip) || !(ipIs4 dst.ip)) then .ok (sent, some .invalidIP)
      else icmp4SendPacket e sent src dst (encodeICMPEcho 8 0 id seq hello) := by
  unfold Session_ICMP4SendEchoRequest
  split
  · rfl
  · have hl : 4 ≤ (encodeICMPEcho 8 0 id seq hello).length := by simp [encodeICMPEcho]
    rw [← icmp4SendPacket_tie e sent src dst _ hl]
    simp [encodeICMPEchoInto, makeBytes, hello, bind, Outcome.bind, encodeICMPEcho]

/-- `ICMP6SendEchoRequest`: the same with IPv6 addresses, type 128 and `icmp6SendPacket` -/
theorem echo6_tie (e : SEnv) (sent : List Bytes) (src dst : GAddr) (id seq : Nat) :
    Session_ICMP6SendEchoRequest e sent src dst id seq =
      if (!(ipIs6 src.ip) || !(ipIs6 dst.ip)) then .ok (sent, some .invalidIP)
      else icmp6SendPacket e sent src dst (encodeICMPEcho 128 0 id seq hello) := by
  unfold Session_ICMP6SendEchoRequest
  split
  · rfl
  · simp [encodeICMPEchoInto, makeBytes, hello, bind, Outcome.bind, encodeICMPEcho]

/-- a send function writes at most one frame, and none when it reports an error that is not the connection's -/
theorem echo4_invalid_sends_nothing (e : SEnv) (sent : List Bytes) (src dst : GAddr) (id seq : Nat)
    (h : ipIs4 src.ip = false ∨ ipIs4 dst.ip = false) :
    Session_ICMP4SendEchoRequest e sent src dst id seq = .ok (sent, some .invalidIP) := by
  unfold Session_ICMP4SendEchoRequest; rcases h with h | h <;> simp [h]

/-! ### the reviewed lists -/

theorem icmpTable_first_id : icmpTable_id0 = 1 ∧ icmpTable_id0 < idMod := by decide

theorem ping_translated_reviewed : pingTranslated =
    ["echoNotify", "Session_ping", "Session_Ping6", "Session_Ping", "Session_icmp4SendPacket", "Session_ICMP4SendEchoRequest",
     "Session_ICMP6SendEchoRequest"] := by decide

theorem ping_untranslated_reviewed : pingUntranslated = [] := by decide

theorem ping_ignored_reviewed : pingIgnored = [
  "echoNotify: lock: icmpTable.Lock()",
  "echoNotify: lock: icmpTable.Unlock()",
  "echoNotify: lock: icmpTable.Unlock()",
  "echoNotify: lock: icmpTable.Unlock()",
  "Session_ping: the call's own entry (thread record p: msgRecv = false, wakeup open, expire never read): msg := icmpEntry{expire: time.Now().Add(timeout), wakeup: make(chan bool)}",
  "Session_Ping6: the call's own entry (thread record p: msgRecv = false, wakeup open, expire never read): msg := icmpEntry{expire: time.Now().Add(timeout), wakeup: make(chan bool)}",
  "Session_icmp4SendPacket: buffer pool: defer EtherBufferPool.Put(buf)",
  "Session_ICMP4SendEchoRequest: log: if Logger.IsDebug() { Logger.Msg(\"send echo4 request\").IP(\"srcIP\", srcAddr.IP).IP(\"dstIP\",…",
  "Session_ICMP6SendEchoRequest: log: if Logger.IsDebug() { Logger.Msg(\"send echo6 request\").IP(\"srcIP\", srcAddr.IP).IP(\"dstIP\",…"] := rfl

theorem ping_callees_accounted : pingCallees =
    ["Checksum", "Conn.WriteTo", "EncodeEther", "EncodeICMPEcho", "EncodeIP4", "Ether.Payload", "Ether.SetPayload",
     "EtherBufferPool.Get (the pooled array, any contents)", "ICMP.SetChecksum", "IP4.AppendPayload", "Session.icmp6SendPacket",
     "netip.Addr.Is4", "netip.Addr.Is6"] := by decide

theorem ping_assumptions_accounted : pingAssumptions = [
  "a *icmpEntry is the number of the call whose local msg it points to (the only &icmpEntry stored in the table is &msg of the storing call)",
  "an encoder handed a nil slice (Ether.Payload() of a frame shorter than its header) panics: EncodeIP4 writes b[0]",
  "the expire field of icmpEntry is written once and never read",
  "wall-clock time is outside: time.After(d) may fire at any moment (Model.PingMulti adds the deadline)"] := rfl

/-! ### non-vacuity: the regenerated code runs -/

/-- one call on the initial table: registered under identifier 1, counter 2; the reply wakes it; nil is returned -/
theorem regenerated_ping_runs :
    let s0 := Ping.init icmpTable_id0
    let (s1, k1) := (Session_ping 0 {} {} 0).stepD s0 .tau
    let (s2, k2) := k1.stepD s1 (.ret none)
    let s3 := echoNotify s2 1
    let (s4, k4) := k2.stepD s3 (.fire (.wakeup 0))
    let (s5, k5) := Prog.taus 2 k4 s4
    (s1.table, s1.nextId, s3.table, (s3.th 0).recv, (s3.th 0).closes, s5.table, k5.result) =
      ([(1, 0)], 2, [], true, 1, [], some none) := by rfl

/-- identifier 65535 is followed by 0, and the waiter registered under 0 is woken like any other -/
theorem regenerated_ping_wraps :
    let s0 := Ping.init 65535
    let (s1, _) := (Session_ping 7 {} {} 0).stepD s0 .tau
    let (s2, _) := (Session_Ping6 8 {} {} 0).stepD s1 .tau
    let s3 := echoNotify s2 0
    (s2.table, s2.nextId, s3.table, (s3.th 8).recv) = ([(0, 8), (65535, 7)], 1, [(65535, 7)], true) := by rfl

end PV.Props.C19PingTie
