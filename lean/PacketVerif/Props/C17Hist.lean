/-
  C17 over message HISTORIES — the mDNS side of the naming handler with its duplicate-response cache
  (Model/MdnsHist.lean; lemmas in Lemmas/MdnsHist.lean).

  A history is any list of (arrival time, source MAC, payload); no assumption on the times (the wall clock may
  stand still or jump), on the stations or on the payloads.  `resultAt pre m` is what `ProcessMDNS` does with
  message `m` after the messages `pre` have been processed by the same handler; `single m` is the
  single-message function `Model.DnsMsg.processMDNS` — the code on an empty cache, which Props/C17 ties to the
  reference decoder `Spec/DnsWire` (`mdns_eq_spec`, `mdns_pairs_eq_spec`, `mdns_pairs_prefix`, `mdns_names_eq_spec`).

  The theorems: the result for every message of every history IS `single m` — what the reference decoder reads
  from THAT message — unless the message is a RESPONSE that repeats (same source MAC, same transaction id) a
  response which was processed to its end without error less than five minutes before; exactly then it is
  dropped (`nil, nil, nil`).  Queries, unreadable headers and failed responses are never remembered and a query is
  never dropped.
-/
import PacketVerif.Lemmas.MdnsHist
import PacketVerif.Lemmas.MdnsSpec
namespace PV.Props.C17Hist
open PV PV.Model.DnsMsg PV.Model.MdnsHist PV.Lemmas.MdnsHist

/-- the step of `m` after the history `pre` -/
abbrev resultAt (pre : List Msg) (m : Msg) : StepOut := stepOf (run pre).2 m

/-- `resultAt` is the entry of `run`'s result list at that position, and the cache is threaded through -/
theorem run_at (pre : List Msg) (m : Msg) (post : List Msg) :
    (run (pre ++ m :: post)).1[pre.length]? = some (resultAt pre m) ∧
    (run (pre ++ [m])).2 = (resultAt pre m).cache := by
  constructor
  · have hlen : ∀ (h : List Msg) (c : Cache), (runFrom c h).1.length = h.length := by
      intro h; induction h with
      | nil => intro c; rfl
      | cons x xs ih => intro c; simp [runFrom, ih]
    unfold run
    rw [runFrom_append]
    simp only []
    rw [List.getElem?_append_right (by rw [hlen]; exact Nat.le_refl _)]
    simp [hlen, runFrom, resultAt, stepOf, run]
  · unfold run; rw [runFrom_append]; simp [runFrom, resultAt, stepOf, run]

/-- **Every message that is not dropped as a duplicate is decoded as if it were alone**: on every history,
    after any messages from any stations at any times, the result of a message that is not a suppressed
    response is the single-message function of THAT message — to which every theorem of Props/C17 about
    `processMDNS` applies (names and addresses equal the reference decoder's, record by record). -/
theorem not_dup_eq_single (pre : List Msg) (m : Msg) (h : (resultAt pre m).kind ≠ .dup) :
    (resultAt pre m).out = single m := by
  cases hk : keyOf m with
  | none => exact (step_bad _ m hk).2.2
  | some v =>
    obtain ⟨k, r⟩ := v
    cases r with
    | false => exact (step_query _ m k hk).2.2
    | true =>
      cases hf : (cget (run pre).2 k m.now).2 with
      | true => exact absurd (step_resp_found _ m k hk hf).2.1 h
      | false => exact (step_resp_miss _ m k hk hf).1

/-- **A query is never suppressed** — whatever was received before, from whomever, whenever: the names read from
    its question section are those of the single-message function, and the cache is not touched. -/
theorem query_never_suppressed (pre : List Msg) (m : Msg) (k : Bytes) (hq : keyOf m = some (k, false)) :
    (resultAt pre m).kind = .query ∧ (resultAt pre m).out = single m ∧ (resultAt pre m).cache = (run pre).2 := by
  obtain ⟨a, b, c⟩ := step_query (run pre).2 m k hq
  exact ⟨b, c, a⟩

/-- a message whose DNS header does not parse is answered with the parse error and leaves no trace -/
theorem bad_header_no_trace (pre : List Msg) (m : Msg) (hb : keyOf m = none) :
    (resultAt pre m).kind = .bad ∧ (resultAt pre m).out = single m ∧ (resultAt pre m).cache = (run pre).2 := by
  obtain ⟨a, b, c⟩ := step_bad (run pre).2 m hb
  exact ⟨b, c, a⟩

/-- **Only responses that were processed to the end without error are remembered**: every entry of the cache,
    after any history, was put by a response of exactly that key (source MAC, id) which ended at the end of its
    additional section, and expires five minutes after that response's arrival. -/
theorem cache_only_from_cached_responses (h : List Msg) (k : Bytes) (e : Nat) (he : cfind (run h).2 k = some e) :
    ∃ a m b, h = a ++ m :: b ∧ keyOf m = some (k, true) ∧ (resultAt a m).kind = .cached ∧ e = m.now + ttl := by
  rcases cache_sound_from h [] k e he with h0 | h1
  · simp [cfind_nil] at h0
  · exact h1

/-- **Suppression has a cause**: a message is dropped only if it is a response and an earlier response with the
    same source MAC and the same transaction id was processed to its end without error less than five minutes
    (`ttl`) before it. -/
theorem suppressed_only_if (pre : List Msg) (m : Msg) (h : (resultAt pre m).kind = .dup) :
    ∃ k a x b, keyOf m = some (k, true) ∧ pre = a ++ x :: b ∧ keyOf x = some (k, true) ∧
      (resultAt a x).kind = .cached ∧ m.now < x.now + ttl := by
  obtain ⟨k, hk⟩ := step_dup_key _ m h
  obtain ⟨e, he, hlt⟩ := (step_dup_iff _ m k hk).mp h
  obtain ⟨a, x, b, hd, hkx, hc, hE⟩ := cache_only_from_cached_responses pre k e he
  exact ⟨k, a, x, b, hk, hd, hkx, hc, by omega⟩

/-- **The first response of a station under an id is never suppressed**: when no earlier message of the history
    is a response with that key, the response is processed (result = single-message function). -/
theorem first_response_never_suppressed (pre : List Msg) (m : Msg) (k : Bytes) (hk : keyOf m = some (k, true))
    (hfirst : ∀ j ∈ pre, keyOf j ≠ some (k, true)) :
    (resultAt pre m).kind ≠ .dup ∧ (resultAt pre m).out = single m := by
  have hnd : (resultAt pre m).kind ≠ .dup := by
    intro hd
    obtain ⟨k', a, x, b, hk', hpre, hkx, _, _⟩ := suppressed_only_if pre m hd
    rw [hk] at hk'; injection hk' with hk'; injection hk' with hk' _; subst hk'
    exact hfirst x (by rw [hpre]; simp) hkx
  exact ⟨hnd, not_dup_eq_single pre m hnd⟩

/-- **Expiry**: a response is processed again when every earlier response of its key arrived five minutes or more
    before it (queries and other keys in between do not matter). -/
theorem expired_response_not_suppressed (pre : List Msg) (m : Msg) (k : Bytes) (hk : keyOf m = some (k, true))
    (hold : ∀ j ∈ pre, keyOf j = some (k, true) → j.now + ttl ≤ m.now) :
    (resultAt pre m).kind ≠ .dup ∧ (resultAt pre m).out = single m := by
  have hnd : (resultAt pre m).kind ≠ .dup := by
    intro hd
    obtain ⟨k', a, x, b, hk', hpre, hkx, _, hlt⟩ := suppressed_only_if pre m hd
    rw [hk] at hk'; injection hk' with hk'; injection hk' with hk' _; subst hk'
    have := hold x (by rw [hpre]; simp) hkx
    omega
  exact ⟨hnd, not_dup_eq_single pre m hnd⟩

/-- **A duplicate response IS suppressed**: after a response `x` that was processed to its end, a response `m`
    with the same key that arrives less than five minutes after `x` is dropped (`nil, nil, nil`), provided the
    responses of that key in between also arrived within those five minutes (they are then dropped as well; any
    other message — queries, other stations, other ids, at any time — is irrelevant). -/
theorem duplicate_response_suppressed (pre mid : List Msg) (x m : Msg) (k : Bytes)
    (hkx : keyOf x = some (k, true)) (hx : (resultAt pre x).kind = .cached)
    (hkm : keyOf m = some (k, true))
    (hmid : ∀ j ∈ mid, keyOf j = some (k, true) → j.now < x.now + ttl)
    (hm : m.now < x.now + ttl) :
    (resultAt (pre ++ x :: mid) m).kind = .dup ∧ (resultAt (pre ++ x :: mid) m).out = .ok dupOut ∧
    (resultAt (pre ++ x :: mid) m).cache = (run (pre ++ x :: mid)).2 := by
  have hc : (run (pre ++ x :: mid)).2 = (runFrom (resultAt pre x).cache mid).2 := by
    unfold run; rw [runFrom_append]; simp only []; rw [runFrom_cons_cache]; rfl
  have he : cfind (run (pre ++ x :: mid)).2 k = some (x.now + ttl) := by
    rw [hc]
    exact entry_persists mid _ k _ ((step_cfind_same _ x k hkx).2.1 hx) hmid
  have hd := (step_dup_iff (run (pre ++ x :: mid)).2 m k hkm).mpr ⟨_, he, hm⟩
  have hf : (cget (run (pre ++ x :: mid)).2 k m.now).2 = true := (cget_found _ _ _).mpr ⟨_, he, hm⟩
  obtain ⟨a, _, c⟩ := step_resp_found _ m k hkm hf
  exact ⟨hd, c, a⟩

/-- **cache monotonicity**: a step changes the cache only under the key of the message, and only when the
    message is a response; every other entry (key and expiry) is what it was. -/
theorem cache_other_keys_untouched (pre : List Msg) (m : Msg) (k : Bytes) (h : keyOf m ≠ some (k, true)) :
    cfind (resultAt pre m).cache k = cfind (run pre).2 k :=
  step_cfind_other _ m k h

/-- the entry of a response's own key after its step: kept when dropped, `arrival + 5 min` when processed to the
    end, none when processing failed (an expired entry is deleted by the lookup) -/
theorem cache_own_key (pre : List Msg) (m : Msg) (k : Bytes) (h : keyOf m = some (k, true)) :
    ((resultAt pre m).kind = .dup → (resultAt pre m).cache = (run pre).2) ∧
    ((resultAt pre m).kind = .cached → cfind (resultAt pre m).cache k = some (m.now + ttl)) ∧
    ((resultAt pre m).kind = .failed → cfind (resultAt pre m).cache k = none) :=
  step_cfind_same _ m k h

/-- a response is remembered exactly when the single-message function returns without error, and that return is
    the one at the end of the additional section (where the code calls `putMDNSCache`) -/
theorem cached_iff_single_ok (pre : List Msg) (m : Msg) (k : Bytes) (hk : keyOf m = some (k, true))
    (hnd : (resultAt pre m).kind ≠ .dup) :
    (resultAt pre m).kind = .cached ↔ ∃ o, single m = .ok o ∧ o.err = false := by
  cases hf : (cget (run pre).2 k m.now).2 with
  | true => exact absurd (step_resp_found _ m k hk hf).2.1 hnd
  | false =>
    rcases (step_resp_miss _ m k hk hf).2 with ⟨h1, _, h3⟩ | ⟨h1, _, h3⟩
    · exact ⟨fun _ => h3, fun _ => h1⟩
    · constructor
      · intro hc; rw [h1] at hc; cases hc
      · rintro ⟨o, ho, he⟩; have := h3 o ho; rw [he] at this; cases this

/-- **Against the reference decoder, inside any history.**  A response that is not dropped and whose questions
    and records the reference decoder (`Spec.DnsWire`: `questionsAt?`, `rrsAt?`) reads — every record `MRecOK`,
    the hypotheses of `Props.C17.mdns_eq_spec` — yields exactly the reference result `refMdns` of THAT message
    (one entry per A / AAAA record of its three sections, in wire order, each with the owner name and the RDATA of
    its own record), whatever the handler received before. -/
theorem hist_response_eq_reference (pre : List Msg) (m : Msg) (id bits qd an ns ar : Nat)
    (qs : List PV.Spec.Question) (qe : Nat) (rrs : List PV.Spec.RR) (o : Nat)
    (h0 : PV.Spec.u16At m.payload 0 = some id) (h2 : PV.Spec.u16At m.payload 2 = some bits)
    (h4 : PV.Spec.u16At m.payload 4 = some qd) (h6 : PV.Spec.u16At m.payload 6 = some an)
    (h8 : PV.Spec.u16At m.payload 8 = some ns) (h10 : PV.Spec.u16At m.payload 10 = some ar)
    (hresp : bits / 32768 % 2 = 1)
    (hqs : PV.Spec.questionsAt? m.payload qd 12 = some (qs, qe))
    (hrecs : PV.Lemmas.Mdns.RecsOK m.payload (an + ns + ar) qe rrs o)
    (hnd : (resultAt pre m).kind ≠ .dup) :
    (resultAt pre m).out = .ok (PV.Lemmas.Mdns.refMdns m.payload rrs) := by
  rw [not_dup_eq_single pre m hnd]
  have hb : mdnsBound m.payload = qd + an + ns + ar + 5 := by
    unfold mdnsBound; rw [PV.Lemmas.Mdns.start_of_header h0 h2 h4 h6 h8 h10]
  exact PV.Lemmas.Mdns.processMDNS_eq_ref m.payload _ id bits qd an ns ar qs qe rrs o h0 h2 h4 h6 h8 h10 hresp hqs hrecs
    (by rw [hb]; exact Nat.le_refl _)

/-! ### non-vacuity: concrete histories

  (`decide` evaluates the machine on header-only messages; a message with names goes through `unpackName`, which
  the kernel does not unfold — for those the theorems above are instantiated instead) -/

/-- response, id 0, no records -/
def resp0 : Bytes := [0,0,0x84,0, 0,0, 0,0, 0,0, 0,0]
/-- query, id 0, no questions -/
def queryEmpty : Bytes := [0,0,0,0, 0,0, 0,0, 0,0, 0,0]
/-- probe query, id 0: `b.local. ANY` -/
def query0 : Bytes := [0,0,0,0, 0,1, 0,0, 0,0, 0,0,  1,98,5,108,111,99,97,108,0, 0,255, 0,1]
def macA : Bytes := [2,0xaa,0,0,0,1]
def macB : Bytes := [2,0xaa,0,0,0,2]

def kinds (h : List Msg) : List Kind := (run h).1.map (·.kind)

/-- response, then a query of the same station with the same id: the query is processed, not dropped -/
example : kinds [⟨0, macA, resp0⟩, ⟨1000, macA, queryEmpty⟩, ⟨2000, macA, resp0⟩] = [.cached, .query, .dup] := by decide

/-- … and a query that carries a name yields what the single-message function reads from it -/
example : (resultAt [⟨0, macA, resp0⟩] ⟨1000, macA, query0⟩).kind = .query ∧
    (resultAt [⟨0, macA, resp0⟩] ⟨1000, macA, query0⟩).out = single ⟨1000, macA, query0⟩ :=
  let h := query_never_suppressed [⟨0, macA, resp0⟩] ⟨1000, macA, query0⟩ (mkKey macA 0) (by decide)
  ⟨h.1, h.2.1⟩

/-- the same response again: dropped inside the five minutes, processed at exactly five minutes; another station
    or another id (here 256: the other key octet) is not a duplicate -/
example : kinds [⟨0, macA, resp0⟩, ⟨299999, macA, resp0⟩, ⟨300000, macA, resp0⟩, ⟨300001, macB, resp0⟩,
      ⟨300002, macA, [1,0,0x84,0, 0,0, 0,0, 0,0, 0,0]⟩] =
    [.cached, .dup, .cached, .cached, .cached] := by decide

/-- an unreadable header leaves no trace; the key: MAC then the id, big-endian -/
example : kinds [⟨0, macA, resp0.take 11⟩, ⟨1, macA, resp0⟩, ⟨2, macA, resp0⟩] = [.bad, .cached, .dup] := by decide
example : (run [⟨7, macA, [0x12,0x34,0x84,0, 0,0, 0,0, 0,0, 0,0]⟩]).2 = [([2,0xaa,0,0,0,1,0x12,0x34], 300007)] := by decide

end PV.Props.C17Hist
