/-
  C14, DNSSL options outside the cleanly padded region: `Props/C14.dnssl_exact` compares the library's label walk
  with the STRICT reference reading (`Spec.NdpWire.dnsNames`: after the names only zero bytes) and therefore
  carries the hypothesis `padClean`; `dnssl_padding_needed` shows the two differ without it.  RFC 8106 5.2 obliges
  the SENDER to pad with zeros and says nothing about a receiver that finds something else after the empty name
  that ends the list.  This file proves what the library is on ALL DNSSL options (no padding hypothesis): it is
  exactly the receiver that stops at the first empty name (`Spec.DnsslLenient.dnsNamesLenient`), and that receiver
  reads the same names as the strict one whenever the strict one accepts.  Still excluded: names areas carrying the
  Punycode marker `xn--` (those labels go through the third-party `puny.ToUnicode`).
  Proofs in Lemmas/NdpDnsslLenient.lean.
-/
import PacketVerif.Lemmas.NdpDnsslLenient
namespace PV.Props.C14Dnssl
open PV PV.Model.Ndp PV.Spec.NdpWire PV.Spec.DnsslLenient PV.Lemmas.NdpExact PV.Lemmas.NdpDnssl
open PV.Lemmas.NdpDnsslLenient

/-- **The DNSSL option the library records is exactly what the receiver that stops at the first empty name
    reads** — for EVERY framed DNSSL option without a Punycode marker, whatever follows the terminating empty
    name: `dnsslUnmarshal` returns the lifetime and the names of `decodeDnsslLenient`, or fails (the option is
    then ignored by `newParseOptions`) exactly when that reader finds no valid list of at least one name.
    Never a panic, never a hang. -/
theorem dnssl_exact_lenient (o : Tlv) (hw : o.wf) (_ht : o.type = 31) (hp : hasPuny (o.body.drop 6) = false) :
    dnsslUnmarshal o.bytes =
      match decodeDnsslLenient o.body with
      | some (lt, names) => .ok { lifetime := lt, names := names, puny := false }
      | none => .err .other :=
  dnssl_agree_lenient o hw hp

/-- **the lenient receiver extends the strict one**: whenever the strict reference accepts a names area (names
    followed by zero bytes only), the lenient receiver reads the same names -/
theorem lenient_extends_strict : ∀ (f : Nat) (b : Bytes) (ds : List Bytes), b.length < f →
    dnsNames f b = some ds → dnsNamesLenient f b = some ds
  | 0, _, _, h, _ => by omega
  | f + 1, [], ds, _, h => by
    rw [dnsNames_succ] at h
    simp only [List.all_nil, if_true] at h
    rw [lenient_nil]; exact h
  | f + 1, n :: tl, ds, hf, h => by
    rw [dnsNames_succ] at h
    rw [lenient_cons]
    by_cases hall : ((n :: tl).all (· = 0)) = true
    · rw [if_pos hall] at h
      have hn : n = 0 := by simpa using (List.all_eq_true.1 hall) n (List.mem_cons_self ..)
      subst hn
      rw [dnsName_zero]
      exact h
    · rw [if_neg hall] at h
      cases hd : dnsName ((n :: tl).length + 1) (n :: tl) with
      | none => rw [hd] at h; cases h
      | some p =>
        obtain ⟨ls, r⟩ := p
        rw [hd] at h
        have hl := dnsName_len _ _ _ _ hd
        cases ls with
        | nil => cases h
        | cons l ls =>
          simp only [] at h ⊢
          cases hr : dnsNames f r with
          | none => rw [hr] at h; cases h
          | some rs =>
            rw [hr] at h
            rw [lenient_extends_strict f r rs (by simp only [List.length_cons] at hf hl; omega) hr]
            exact h

/-- consequently, on cleanly padded options both references and the library agree (`C14.dnssl_exact`), and outside
    that region the library is the lenient one.  The witness of `C14.dnssl_padding_needed` (name `a`, the empty
    name, then `1 0 0 0`): the strict reference ignores the option, the lenient one and the library read `a`. -/
example : dnsNames 9 [1, 97, 0, 0, 1, 0, 0, 0] = none ∧ dnsNamesLenient 9 [1, 97, 0, 0, 1, 0, 0, 0] = some [[97]] ∧
    dnsslUnmarshal (Tlv.bytes ⟨31, 2, [0, 0, 0, 0, 0, 60, 1, 97, 0, 0, 1, 0, 0, 0]⟩) =
      .ok { lifetime := 60, names := [[97]], puny := false } := by
  refine ⟨by decide, by decide, by decide⟩

/-- non-vacuity of `dnssl_exact_lenient`: the witness satisfies its hypotheses, and a names area that is not a
    list of names (label running past the area) is rejected by both -/
example : (⟨31, 2, [0, 0, 0, 0, 0, 60, 1, 97, 0, 0, 1, 0, 0, 0]⟩ : Tlv).wf ∧
    hasPuny [1, 97, 0, 0, 1, 0, 0, 0] = false ∧
    decodeDnsslLenient [0, 0, 0, 0, 0, 60, 9, 97, 0, 0, 1, 0, 0, 0] = none ∧
    dnsslUnmarshal (Tlv.bytes ⟨31, 2, [0, 0, 0, 0, 0, 60, 9, 97, 0, 0, 1, 0, 0, 0]⟩) = .err .other := by
  refine ⟨⟨by decide, by decide, by decide⟩, by decide, by decide, by decide⟩

end PV.Props.C14Dnssl
