/-
  Tie B for the atomicity half of C09: the critical-section shapes regenerated from the Go source on every run
  (Gen/AtomicFacts.lean, tools/goextract/atomic.go on the walker of lockset.go) satisfy the *single-section* discipline
  of Props/C09Atomic.lean — per entry point and guard, at most one critical section touches the guard's data — except
  for the reviewed multi-section operations listed in `reviewed`, each with the reason it is safe, and the exact shape
  of every function they consist of is pinned (`pinned`): lock class, mode, nesting, loop, the guarded fields read and
  written inside, the effects that leave the module inside, and the order of sections, calls and unlocked effects.

  What breaks it (by design): splitting a critical section (check under RLock, act under Lock), moving an access or a
  connection write from one section to another or out of it, TryLock fallbacks, releasing a caller's lock in a callee,
  adding a second section on a guard to an operation a step machine treats as one step (`modelSteps`).
  What does not: `defer mu.Unlock()` ↔ explicit unlock on every return path, renaming locals, moving code that touches no
  guarded field and makes no external effect.

  The theorems are in Props/C09AtomicTie.lean; this module has the definitions, the reviewed list and the pinned shapes only, so that it
  still builds when a tie theorem fails and `./check` can print what differs (it does this itself, into the replay file):
      echo 'import PacketVerif.Props.C09AtomicReview
            open PV.Props.C09AtomicReview
            #eval unreviewed   -- (entry point, guard, sections) that are multi-section and not reviewed
            #eval stale        -- reviewed entries that are no longer multi-section / changed
            #eval shapeDiff    -- functions whose pinned shape differs: (function, pinned, now)
            #eval badSteps' > /tmp/v.lean && (cd lean && lake env lean /tmp/v.lean)
-/
import PacketVerif.Gen.AtomicFacts
import PacketVerif.Gen.LocksetFacts
import PacketVerif.Props.C09RaceTie
namespace PV.Props.C09AtomicReview
open PV
open PV.Props.C09RaceTie (guardTable G sessionMu rowMu arpMu dhcpMu dnsMu icmp6Mu icmpTableMu)

/-- a section row of Gen.Atomic.funcShapes -/
abbrev SecRow := Nat × Nat × Bool × List (Nat × Bool) × List Nat × List Nat × List Nat × String
abbrev FnRow := Nat × String × List SecRow × List (Nat × Nat)
abbrev EntryRow := Nat × String × Nat × List (Nat × Nat × Nat)

def clsId (c : String) : Nat := Gen.Atomic.classes.idxOf c
def clsName (c : Nat) : String := Gen.Atomic.classes.getD c "?"
def fldName (f : Nat) : String := Gen.Atomic.fields.getD f "?"
def effName (e : Nat) : String := Gen.Atomic.effects.getD e "?"
def fnN (i : Nat) : String := Gen.Atomic.funcs.getD i "?"

/-- the lock classes (ids of Gen.Atomic.classes) that guard a field, computed from C09RaceTie.guardTable by name -/
def guardClsIds : G → List Nat
  | .lock c => [clsId c]
  | .wara cs => cs.map clsId
  | _ => []

/-- the same as a table of numbers, by field id (the kernel evaluates the checks below on numbers; `guardIds_tie` ties the
    table to `guardTable`) -/
def guardIds : List (List Nat) :=
  [[], [0], [0], [], [], [], [1], [], [1], [], [], [], [1], [1], [1], [1], [1], [1], [1], [1], [1], [1], [1], [2], [], [], [2], [], [],
   [3], [3], [3], [3], [3], [], [], [4], [4], [4], [4], [], [4], [4], [4], [4], [4], [4], [5], [5, 4], [4], [5, 4], [4], [4], [4], [4],
   [4], [], [4], [4], [], [4], [4], [4], [4], [4], [5], [], [], [], [], [], [], [], [], [], [], [5], [7], [], [6], [], [6], [6]]

/-- the fields of a sorted list of field ids that are guarded by class `c`: one walk along the guard table -/
def ownAux (c : Nat) : List (List Nat) → Nat → List Nat → List Nat
  | [], _, _ => []
  | g :: gs, i, fs =>
    match fs.dropWhile (· < i) with
    | [] => []
    | f :: rest =>
      if f == i then (if g.contains c then f :: ownAux c gs (i + 1) rest else ownAux c gs (i + 1) rest)
      else ownAux c gs (i + 1) (f :: rest)

def ownIds (c : Nat) (fs : List Nat) : List Nat := ownAux c guardIds 0 fs

def secOf (fn idx : Nat) : Option SecRow := (Gen.Atomic.funcShapes[fn]?).bind fun (r : FnRow) => r.2.2.1[idx]?

/-- the section reads or writes data guarded by its own lock class -/
def touches (s : SecRow) : Bool := !(ownIds s.1 s.2.2.2.2.1).isEmpty || !(ownIds s.1 s.2.2.2.2.2.1).isEmpty

/-- the sections an entry point runs that touch data guarded by their own class: (class, function, index), in order, callees
    expanded -/
def touching (items : List (Nat × Nat × Nat)) : List (Nat × Nat × Nat) :=
  items.filterMap fun it => if it.1 == 0 then
    match secOf it.2.1 it.2.2 with
    | some s => if touches s then some (s.1, it.2.1, it.2.2) else none
    | none => none
  else none

/-- **the single-section discipline**, per entry point and guard: at most one critical section on the guard touches
    the guard's data.  `multi` lists the (entry point, guard) pairs that do NOT satisfy it, with the distinct sections
    (function, index) in order of first occurrence. -/
def addTo : List (List (Nat × Nat)) → Nat → Nat × Nat → List (List (Nat × Nat))
  | [], _, _ => []
  | l :: ls, 0, p => (l ++ [p]) :: ls
  | l :: ls, c + 1, p => l :: addTo ls c p

/-- the touching sections of an entry point grouped by class id -/
def perClass (t : List (Nat × Nat × Nat)) : List (List (Nat × Nat)) :=
  t.foldl (fun acc (x : Nat × Nat × Nat) => addTo acc x.1 x.2) (List.replicate Gen.Atomic.classes.length [])

def multi : List (String × String × List (String × Nat)) :=
  Gen.Atomic.entryShapes.flatMap fun (e : EntryRow) =>
    (perClass (touching e.2.2.2)).zipIdx.filterMap fun (lc : List (Nat × Nat) × Nat) =>
      if lc.1.length ≥ 2 then some (e.2.1, clsName lc.2, (lc.1.eraseDups.map fun (p : Nat × Nat) => (fnN p.1, p.2))) else none

/-- readable shape of one section: (class, mode 0 shared | 1 exclusive | 2 try-shared | 3 try-exclusive, in a loop, classes held
    at the acquisition, fields GUARDED BY THE SECTION'S CLASS read inside, such fields written inside, effects that leave the
    module made inside — directly or through callees) -/
abbrev Shape := String × Nat × Bool × List (String × Bool) × List String × List String × List String

def own (c : Nat) (fs : List Nat) : List String := (ownIds c fs).map fldName

def shapeOfSec (s : SecRow) : Shape :=
  (clsName s.1, s.2.1, s.2.2.1, s.2.2.2.1.map (fun p => (clsName p.1, p.2)), own s.1 s.2.2.2.2.1,
   own s.1 s.2.2.2.2.2.1, s.2.2.2.2.2.2.1.map effName)

def itemName (it : Nat × Nat) : String :=
  if it.1 == 0 then s!"section {it.2}" else if it.1 == 1 then s!"call {fnN it.2}" else s!"effect {effName it.2}"

/-- the shape of a function: its sections and its items in source order -/
def fnShape (name : String) : Option (List Shape × List String) :=
  (Gen.Atomic.funcShapes.find? fun (r : FnRow) => r.2.1 == name).map fun (r : FnRow) =>
    (r.2.2.1.map shapeOfSec, r.2.2.2.map itemName)

/-- **The reviewed multi-section operations**: (entry point, guard, distinct sections on that guard that touch its data, reason). -/
def reviewed : List (String × String × List (String × Nat) × String) := [
  ("dhcp4_spoofer.Handler.ProcessPacket", "dhcp4_spoofer.Handler.Mutex", [("dhcp4_spoofer.Handler.Mode", 0), ("dhcp4_spoofer.Handler.ProcessPacket", 0)],
   "Mode() is read once before the handler lock is taken, only to drop packets in ModeDisabled; every lease decision is made in the one deferred section of ProcessPacket (Model/Dhcp4Srv.step = that section)"),
  ("dhcp4_spoofer.Handler.ProcessPacket", "packet.MACEntry.Row", [("packet.Session.SetDHCPv4IPOffer", 1), ("packet.Session.findOrCreateHostWithLock", 1), ("packet.Session.findOrCreateHostWithLock", 3), ("packet.Session.printHostTable", 0), ("packet.Session.deleteHost", 0), ("packet.Session.findOrCreateHostWithLock", 4), ("packet.Host.UpdateDHCP4Name", 0), ("packet.Session.DHCPv4Update", 0), ("packet.Session.notify", 0), ("packet.Session.makeOffline", 0), ("packet.Session.notify", 1)],
   "session sub-operations called from inside the handler section (SetDHCPv4IPOffer, DHCPv4Update → findOrCreateHost, UpdateDHCP4Name, notify); each is its own step of Model/Tables (setOffer, dhcpUpdate, updateName, notify); rows of different hosts"),
  ("dhcp4_spoofer.Handler.ProcessPacket", "packet.Session.mutex", [("packet.Session.IsCaptured", 0), ("packet.Session.FindIP", 0), ("packet.Session.SetDHCPv4IPOffer", 0), ("packet.Session.findOrCreateHostWithLock", 0), ("packet.Session.findOrCreateHostWithLock", 2), ("packet.Session.sendNotification", 0)],
   "IsCaptured is read twice (handleRequest, findOrCreate): the NAK decisions use the first read, the lease subnet the second; FindIP / SetDHCPv4IPOffer / DHCPv4Update are separate Model/Tables steps, all made under the single handler section which serialises DHCP processing"),
  ("dns_naming.DNSHandler.ProcessMDNS", "dns_naming.DNSHandler.mutex", [("dns_naming.DNSHandler.getMDNSCache", 0), ("dns_naming.DNSHandler.putMDNSCache", 0)],
   "mDNS query cache: get (with expiry delete) and put are independent cache operations on possibly different keys; a lost put only repeats a query"),
  ("icmp_spoofer.Handler6.ProcessPacket", "icmp_spoofer.Handler6.Mutex", [("icmp_spoofer.Handler6.ProcessPacket", 0), ("icmp_spoofer.Handler6.ProcessPacket", 1)],
   "two alternative switch cases (router advertisement / neighbour advertisement), never both for one packet"),
  ("packet.Config.NewSession", "packet.MACEntry.Row", [("packet.Session.findOrCreateHostWithLock", 1), ("packet.Session.findOrCreateHostWithLock", 3), ("packet.Session.printHostTable", 0), ("packet.Session.deleteHost", 0), ("packet.Session.findOrCreateHostWithLock", 4), ("packet.Config.NewSession", 0), ("packet.Config.NewSession", 1)],
   "constructor: host and router entries are created before the session is returned; the minute loop started earlier only purges"),
  ("packet.Config.NewSession", "packet.Session.mutex", [("packet.Session.findOrCreateHostWithLock", 0), ("packet.Session.findOrCreateHostWithLock", 2)],
   "findOrCreateHostWithLock fast path (read) / slow path (write): see Session.Parse"),
  ("packet.NewSession", "packet.MACEntry.Row", [("packet.Session.findOrCreateHostWithLock", 1), ("packet.Session.findOrCreateHostWithLock", 3), ("packet.Session.printHostTable", 0), ("packet.Session.deleteHost", 0), ("packet.Session.findOrCreateHostWithLock", 4), ("packet.Config.NewSession", 0), ("packet.Config.NewSession", 1)],
   "wrapper of Config.NewSession"),
  ("packet.NewSession", "packet.Session.mutex", [("packet.Session.findOrCreateHostWithLock", 0), ("packet.Session.findOrCreateHostWithLock", 2)],
   "wrapper of Config.NewSession"),
  ("packet.Session.DHCPv4Update", "packet.MACEntry.Row", [("packet.Session.findOrCreateHostWithLock", 1), ("packet.Session.findOrCreateHostWithLock", 3), ("packet.Session.printHostTable", 0), ("packet.Session.deleteHost", 0), ("packet.Session.findOrCreateHostWithLock", 4), ("packet.Host.UpdateDHCP4Name", 0), ("packet.Session.DHCPv4Update", 0), ("packet.Session.notify", 0), ("packet.Session.makeOffline", 0), ("packet.Session.notify", 1)],
   "findOrCreateHost, UpdateDHCP4Name, the IP4/online update and notify are separate steps of Model/Tables.dhcpUpdate's refinement proof; called by the DHCP handler on the packet goroutine only"),
  ("packet.Session.DHCPv4Update", "packet.Session.mutex", [("packet.Session.findOrCreateHostWithLock", 0), ("packet.Session.findOrCreateHostWithLock", 2), ("packet.Session.sendNotification", 0)],
   "findOrCreateHostWithLock fast path / slow path (see Session.Parse) and the closed test of sendNotification"),
  ("packet.Session.Notify", "packet.MACEntry.Row", [("packet.Session.DHCPv4IPOffer", 1), ("packet.Session.notify", 0), ("packet.Session.makeOffline", 0), ("packet.Session.notify", 1)],
   "notify's two row sections: the first (shared) decides whether anything is due, the second (exclusive) takes the snapshot AND clears dirty in one section, so a concurrent name update is either in the snapshot or leaves dirty set (Model/Tables.notifyHost is that second section); makeOffline is its own step"),
  ("packet.Session.Notify", "packet.Session.mutex", [("packet.Session.DHCPv4IPOffer", 0), ("packet.Session.FindIP", 0), ("packet.Session.sendNotification", 0)],
   "DHCPv4IPOffer / FindIP lookups for the superseded IPv4 host and the closed test of sendNotification: independent reads"),
  ("packet.Session.Parse", "packet.MACEntry.Row", [("packet.Session.findOrCreateHostWithLock", 1), ("packet.Session.findOrCreateHostWithLock", 3), ("packet.Session.printHostTable", 0), ("packet.Session.deleteHost", 0), ("packet.Session.findOrCreateHostWithLock", 4), ("packet.Session.checkOnlineTransition", 0)],
   "findOrCreateHostWithLock (LastSeen / link) and checkOnlineTransition are separate row sections; Parse runs on the packet goroutine only, the other row writers (Update*Name, Capture, purge) touch other fields or are tolerated by the C04 refinement (Model/Tables.parse steps)"),
  ("packet.Session.Parse", "packet.Session.mutex", [("packet.Session.findOrCreateHostWithLock", 0), ("packet.Session.findOrCreateHostWithLock", 2)],
   "findOrCreateHostWithLock: read-locked fast path, then the write-locked slow path WITHOUT re-lookup — safe only because hosts are created by the packet goroutine alone (Parse, DHCPv4Update via the DHCP handler): between the two sections another thread can only delete (purge), which the slow path tolerates (deleteHost of a missing IP is a no-op)"),
  ("packet.Session.Parse", "packet.icmpTable", [("packet.echoNotify", 0)],
   "echoNotify is called in two alternative switch cases (ICMPv4 / ICMPv6 echo reply)"),
  ("packet.Session.Ping", "packet.icmpTable", [("packet.Session.ping", 0), ("packet.Session.ping", 1), ("packet.Session.ping", 2)],
   "register (id allocation + table insert in ONE section, before the send) / cleanup on send error / unregister after the wait: exactly the steps reg, cleanup, unreg of Model/Ping"),
  ("packet.Session.Ping6", "packet.icmpTable", [("packet.Session.Ping6", 0), ("packet.Session.Ping6", 1), ("packet.Session.Ping6", 2)],
   "as Session.Ping: reg / cleanup / unreg of Model/Ping"),
  ("packet.Session.PrintTable", "packet.MACEntry.Row", [("packet.Session.printMACTable", 0), ("packet.Session.printHostTable", 0)],
   "diagnostic print: one shared row section per table row, inside one shared session section"),
  ("packet.Session.ValidateDefaultRouter", "packet.icmpTable", [("packet.Session.ping", 0), ("packet.Session.ping", 1), ("packet.Session.ping", 2)],
   "calls ping: see Session.Ping"),
  ("packet.Session.purge", "packet.MACEntry.Row", [("packet.Session.purge", 0), ("packet.Session.makeOffline", 0), ("packet.Session.deleteHost", 0)],
   "purge phases: classify under the row lock, makeOffline per host, deleteHost per host — each host decision is re-validated by the phase that acts (Model/Tables.purge; C04 purge rules)"),
  ("packet.Session.purge", "packet.Session.mutex", [("packet.Session.GetHosts", 0), ("packet.Session.sendNotification", 0), ("packet.Session.purge", 1)],
   "GetHosts snapshot (shared), then per expired host a write-locked delete section which re-looks-up the host in deleteHost (validated re-entry), and the closed test of sendNotification")]

/-- the exact shape of every function that occurs in `reviewed` (generated once from the facts, then reviewed) -/
def pinned : List (String × Option (List Shape × List String)) :=
[("dhcp4_spoofer.Handler.Mode",
  some ([("dhcp4_spoofer.Handler.Mutex", 1, false, [], ["dhcp4_spoofer.Handler.mode"], [], [])], ["section 0"])),
 ("dhcp4_spoofer.Handler.ProcessPacket",
  some ([("dhcp4_spoofer.Handler.Mutex",
     1,
     false,
     [],
     ["dhcp4_spoofer.Handler.mode", "dhcp4_spoofer.Handler.table", "dhcp4_spoofer.Lease.Addr",
      "dhcp4_spoofer.Lease.ClientID", "dhcp4_spoofer.Lease.Count", "dhcp4_spoofer.Lease.DHCPExpiry",
      "dhcp4_spoofer.Lease.IPOffer", "dhcp4_spoofer.Lease.Name", "dhcp4_spoofer.Lease.OfferExpiry",
      "dhcp4_spoofer.Lease.State", "dhcp4_spoofer.Lease.XID", "dhcp4_spoofer.Lease.subnet"],
     ["dhcp4_spoofer.Handler.table", "dhcp4_spoofer.Lease.Addr", "dhcp4_spoofer.Lease.Count",
      "dhcp4_spoofer.Lease.DHCPExpiry", "dhcp4_spoofer.Lease.IPOffer", "dhcp4_spoofer.Lease.Name",
      "dhcp4_spoofer.Lease.OfferExpiry", "dhcp4_spoofer.Lease.State", "dhcp4_spoofer.Lease.XID"],
     ["chan send", "io/ioutil.WriteFile", "net.PacketConn.WriteTo", "os.Remove", "os.Rename"])],
   ["call dhcp4_spoofer.Handler.processClientPacket", "section 0", "call dhcp4_spoofer.Handler.handleDiscover",
    "call dhcp4_spoofer.Handler.handleRequest", "call dhcp4_spoofer.Handler.handleDecline",
    "call dhcp4_spoofer.Handler.handleRelease", "effect chan send", "effect net.PacketConn.WriteTo"])),
 ("packet.Session.SetDHCPv4IPOffer",
  some ([("packet.Session.mutex", 1, false, [], ["packet.MACTable.Table"], ["packet.MACTable.Table"], []),
    ("packet.MACEntry.Row",
     1,
     false,
     [("packet.Session.mutex", true)],
     [],
     ["packet.MACEntry.DHCP4Name", "packet.MACEntry.IP4Offer"],
     [])],
   ["section 0", "section 1"])),
 ("packet.Session.findOrCreateHostWithLock",
  some ([("packet.Session.mutex", 0, false, [], ["packet.HostTable.Table"], [], []),
    ("packet.MACEntry.Row",
     1,
     false,
     [("packet.Session.mutex", false)],
     [],
     ["packet.Host.LastSeen", "packet.MACEntry.LastSeen"],
     []),
    ("packet.Session.mutex",
     1,
     false,
     [],
     ["packet.HostTable.Table", "packet.MACEntry.Captured", "packet.MACEntry.HostList", "packet.MACTable.Table"],
     ["packet.HostTable.Table", "packet.MACEntry.HostList", "packet.MACTable.Table"],
     []),
    ("packet.MACEntry.Row",
     0,
     false,
     [("packet.Session.mutex", true)],
     ["packet.Host.DHCP4Name", "packet.Host.HuntStage", "packet.Host.LLMNRName", "packet.Host.LastSeen",
      "packet.Host.MDNSName", "packet.Host.Manufacturer", "packet.Host.NBNSName", "packet.Host.Online",
      "packet.Host.SSDPName", "packet.Host.dirty", "packet.MACEntry.Captured"],
     [],
     []),
    ("packet.MACEntry.Row",
     1,
     false,
     [("packet.Session.mutex", true)],
     ["packet.Host.Manufacturer", "packet.MACEntry.HostList", "packet.MACEntry.Manufacturer"],
     ["packet.MACEntry.HostList", "packet.MACEntry.LastSeen", "packet.MACEntry.Manufacturer"],
     [])],
   ["section 0", "section 1", "section 2", "section 3", "call packet.Session.printHostTable",
    "call packet.Session.deleteHost", "section 4"])),
 ("packet.Session.printHostTable",
  some ([("packet.MACEntry.Row",
     0,
     true,
     [("packet.Session.mutex", false)],
     ["packet.Host.DHCP4Name", "packet.Host.HuntStage", "packet.Host.LLMNRName", "packet.Host.LastSeen",
      "packet.Host.MDNSName", "packet.Host.Manufacturer", "packet.Host.NBNSName", "packet.Host.Online",
      "packet.Host.SSDPName", "packet.Host.dirty", "packet.MACEntry.Captured", "packet.MACEntry.HostList"],
     [],
     [])],
   ["section 0"])),
 ("packet.Session.deleteHost",
  some ([("packet.MACEntry.Row",
     1,
     false,
     [("packet.Session.mutex", true)],
     ["packet.Host.DHCP4Name", "packet.Host.HuntStage", "packet.Host.LLMNRName", "packet.Host.LastSeen",
      "packet.Host.MDNSName", "packet.Host.Manufacturer", "packet.Host.NBNSName", "packet.Host.Online",
      "packet.Host.SSDPName", "packet.Host.dirty", "packet.MACEntry.Captured", "packet.MACEntry.HostList"],
     ["packet.MACEntry.HostList"],
     [])],
   ["section 0"])),
 ("packet.Host.UpdateDHCP4Name",
  some ([("packet.MACEntry.Row",
     1,
     false,
     [],
     ["packet.Host.DHCP4Name", "packet.MACEntry.DHCP4Name"],
     ["packet.Host.DHCP4Name", "packet.Host.dirty", "packet.MACEntry.DHCP4Name"],
     [])],
   ["section 0"])),
 ("packet.Session.DHCPv4Update",
  some ([("packet.MACEntry.Row",
     1,
     false,
     [],
     ["packet.Host.Online", "packet.MACEntry.HostList", "packet.MACEntry.IP4", "packet.MACEntry.IP6GUA",
      "packet.MACEntry.IP6LLA"],
     ["packet.Host.Online", "packet.Host.dirty", "packet.MACEntry.IP4", "packet.MACEntry.IP4Offer",
      "packet.MACEntry.IP6GUA", "packet.MACEntry.IP6LLA", "packet.MACEntry.Online"],
     [])],
   ["call packet.Session.findOrCreateHostWithLock", "call packet.Host.UpdateDHCP4Name", "section 0",
    "call packet.Session.notify"])),
 ("packet.Session.notify",
  some ([("packet.MACEntry.Row",
     0,
     false,
     [],
     ["packet.Host.Online", "packet.Host.dirty", "packet.MACEntry.HostList"],
     [],
     []),
    ("packet.MACEntry.Row",
     1,
     false,
     [],
     ["packet.Host.Online", "packet.MACEntry.DHCP4Name", "packet.MACEntry.LLMNRName", "packet.MACEntry.MDNSName",
      "packet.MACEntry.Manufacturer", "packet.MACEntry.NBNSName", "packet.MACEntry.SSDPName"],
     ["packet.Host.dirty"],
     [])],
   ["section 0", "call packet.Session.makeOffline", "section 1", "call packet.Session.sendNotification"])),
 ("packet.Session.makeOffline",
  some ([("packet.MACEntry.Row",
     1,
     false,
     [],
     ["packet.Host.Online", "packet.MACEntry.DHCP4Name", "packet.MACEntry.HostList", "packet.MACEntry.LLMNRName",
      "packet.MACEntry.MDNSName", "packet.MACEntry.Manufacturer", "packet.MACEntry.NBNSName",
      "packet.MACEntry.SSDPName"],
     ["packet.Host.Online", "packet.Host.dirty", "packet.MACEntry.Online"],
     [])],
   ["section 0", "call packet.Session.sendNotification"])),
 ("packet.Session.IsCaptured",
  some ([("packet.Session.mutex", 0, false, [], ["packet.MACEntry.Captured", "packet.MACTable.Table"], [], [])],
   ["section 0"])),
 ("packet.Session.FindIP",
  some ([("packet.Session.mutex", 0, false, [], ["packet.HostTable.Table"], [], [])], ["section 0"])),
 ("packet.Session.sendNotification",
  some ([("packet.Session.mutex", 0, false, [], ["packet.Session.closed"], [], ["chan send"])], ["section 0"])),
 ("dns_naming.DNSHandler.getMDNSCache",
  some ([("dns_naming.DNSHandler.mutex",
     1,
     false,
     [],
     ["dns_naming.DNSHandler.mdnsCache"],
     ["dns_naming.DNSHandler.mdnsCache"],
     [])],
   ["section 0"])),
 ("dns_naming.DNSHandler.putMDNSCache",
  some ([("dns_naming.DNSHandler.mutex", 1, false, [], [], ["dns_naming.DNSHandler.mdnsCache"], [])], ["section 0"])),
 ("icmp_spoofer.Handler6.ProcessPacket",
  some ([("icmp_spoofer.Handler6.Mutex",
     1,
     false,
     [],
     ["icmp_spoofer.Handler6.closeChan", "icmp_spoofer.Handler6.closed"],
     ["icmp_spoofer.Handler6.closeChan", "icmp_spoofer.Handler6.huntList"],
     ["chan close"]),
    ("icmp_spoofer.Handler6.Mutex",
     1,
     false,
     [],
     ["icmp_spoofer.Handler6.LANRouters"],
     ["icmp_spoofer.Handler6.LANRouters", "icmp_spoofer.Handler6.Router"],
     [])],
   ["effect chan send", "effect net.PacketConn.WriteTo", "section 0", "section 1"])),
 ("packet.Config.NewSession",
  some ([("packet.MACEntry.Row",
     1,
     false,
     [],
     ["packet.Host.LastSeen"],
     ["packet.Host.LastSeen", "packet.Host.Online", "packet.MACEntry.IP4", "packet.MACEntry.IP6LLA",
      "packet.MACEntry.LastSeen", "packet.MACEntry.Online"],
     []),
    ("packet.MACEntry.Row",
     1,
     false,
     [],
     [],
     ["packet.Host.Online", "packet.MACEntry.IP4", "packet.MACEntry.Online"],
     [])],
   ["effect net.Conn.Close", "effect net.Dial", "effect os.File.Close", "effect os.Open", "effect time.Sleep",
    "effect x/net/icmp.ListenPacket", "effect x/net/icmp.PacketConn.Close", "effect x/net/icmp.PacketConn.ReadFrom",
    "effect x/net/icmp.PacketConn.SetDeadline", "effect x/net/icmp.PacketConn.WriteTo", "effect os.NewFile",
    "call packet.Session.findOrCreateHostWithLock", "section 0", "call packet.Session.findOrCreateHostWithLock",
    "section 1"])),
 ("packet.Session.DHCPv4IPOffer",
  some ([("packet.Session.mutex", 0, false, [], ["packet.MACTable.Table"], [], []),
    ("packet.MACEntry.Row", 0, false, [("packet.Session.mutex", false)], ["packet.MACEntry.IP4Offer"], [], [])],
   ["section 0", "section 1"])),
 ("packet.Session.checkOnlineTransition",
  some ([("packet.MACEntry.Row",
     1,
     false,
     [],
     ["packet.Host.Online", "packet.MACEntry.HostList", "packet.MACEntry.IP4", "packet.MACEntry.IP6GUA",
      "packet.MACEntry.IP6LLA"],
     ["packet.Host.Online", "packet.Host.dirty", "packet.MACEntry.IP4", "packet.MACEntry.IP6GUA",
      "packet.MACEntry.IP6LLA", "packet.MACEntry.Online"],
     [])],
   ["section 0"])),
 ("packet.echoNotify",
  some ([("packet.icmpTable",
     1,
     false,
     [],
     ["packet.icmpTable.table"],
     ["packet.icmpEntry.msgRecv", "packet.icmpTable.table"],
     ["chan close"])],
   ["section 0"])),
 ("packet.Session.ping",
  some ([("packet.icmpTable",
     1,
     false,
     [],
     ["packet.icmpTable.id"],
     ["packet.icmpTable.id", "packet.icmpTable.table"],
     []),
    ("packet.icmpTable", 1, false, [], [], ["packet.icmpTable.table"], []),
    ("packet.icmpTable", 1, false, [], [], ["packet.icmpTable.table"], [])],
   ["section 0", "effect chan send", "effect net.PacketConn.WriteTo", "section 1", "effect chan recv", "section 2"])),
 ("packet.Session.Ping6",
  some ([("packet.icmpTable",
     1,
     false,
     [],
     ["packet.icmpTable.id"],
     ["packet.icmpTable.id", "packet.icmpTable.table"],
     []),
    ("packet.icmpTable", 1, false, [], [], ["packet.icmpTable.table"], []),
    ("packet.icmpTable", 1, false, [], [], ["packet.icmpTable.table"], [])],
   ["section 0", "effect chan send", "effect net.PacketConn.WriteTo", "section 1", "effect chan recv", "section 2"])),
 ("packet.Session.printMACTable",
  some ([("packet.MACEntry.Row",
     0,
     true,
     [("packet.Session.mutex", false)],
     ["packet.MACEntry.Captured", "packet.MACEntry.DHCP4Name", "packet.MACEntry.HostList", "packet.MACEntry.IP4",
      "packet.MACEntry.IP4Offer", "packet.MACEntry.IP6GUA", "packet.MACEntry.IP6LLA", "packet.MACEntry.LLMNRName",
      "packet.MACEntry.LastSeen", "packet.MACEntry.MDNSName", "packet.MACEntry.Manufacturer",
      "packet.MACEntry.NBNSName", "packet.MACEntry.Online", "packet.MACEntry.SSDPName"],
     [],
     [])],
   ["section 0"])),
 ("packet.Session.purge",
  some ([("packet.MACEntry.Row", 0, true, [], ["packet.Host.LastSeen", "packet.Host.Online"], [], []),
    ("packet.Session.mutex",
     1,
     false,
     [],
     ["packet.HostTable.Table", "packet.MACEntry.Captured", "packet.MACEntry.HostList", "packet.MACTable.Table"],
     ["packet.HostTable.Table", "packet.MACEntry.HostList", "packet.MACTable.Table"],
     [])],
   ["call packet.Session.GetHosts", "section 0", "call packet.Session.makeOffline", "section 1",
    "call packet.Session.deleteHost"])),
 ("packet.Session.GetHosts",
  some ([("packet.Session.mutex", 0, false, [], ["packet.HostTable.Table"], [], [])], ["section 0"]))]

def unreviewed : List (String × String × List (String × Nat)) :=
  multi.filter fun m => !(reviewed.any fun r => r.1 == m.1 && r.2.1 == m.2.1 && r.2.2.1 == m.2.2)
def stale : List (String × String) :=
  (reviewed.filter fun r => !(multi.any fun m => r.1 == m.1 && r.2.1 == m.2.1 && r.2.2.1 == m.2.2)).map fun r => (r.1, r.2.1)
def shapeDiff : List (String × Option (List Shape × List String) × Option (List Shape × List String)) :=
  (pinned.filter fun p => fnShape p.1 != p.2).map fun p => (p.1, p.2, fnShape p.1)

/-- the functions the reviewed operations consist of -/
def reviewedFns : List String := (reviewed.flatMap fun r => r.2.2.1.map (·.1)).eraseDups

/-! ### Step machines: which code sections are ONE step of which model -/

/-- (model, event, function, guard, number of sections of the function on that guard that touch its data, mode of the first) -/
def modelSteps : List (String × String × String × String × Nat × Nat) := [
  ("Model/ArpHunt", "startHunt", "arp_spoofer.Handler.StartHunt", arpMu, 1, 1),
  ("Model/ArpHunt", "stopHunt", "arp_spoofer.Handler.StopHunt", arpMu, 1, 1),
  ("Model/ArpHunt", "close", "arp_spoofer.Handler.Close", arpMu, 1, 1),
  ("Model/ArpHunt", "check/forge/restore (one loop iteration, the frame is written inside)", "arp_spoofer.Handler.spoofLoop", arpMu, 1, 1),
  ("Model/ArpHunt", "rxRequest/reply/rxProbe", "arp_spoofer.Handler.ProcessPacket", arpMu, 1, 1),
  ("Model/Icmp6Hunt", "startHunt", "icmp_spoofer.Handler6.StartHunt", icmp6Mu, 1, 1),
  ("Model/Icmp6Hunt", "stopHunt", "icmp_spoofer.Handler6.StopHunt", icmp6Mu, 1, 1),
  ("Model/Icmp6Hunt", "close", "icmp_spoofer.Handler6.Close", icmp6Mu, 1, 1),
  ("Model/Icmp6Hunt", "loop iteration", "icmp_spoofer.Handler6.spoofLoop", icmp6Mu, 1, 1),
  ("Model/Ping", "reg / cleanup / unreg", "packet.Session.ping", icmpTableMu, 3, 1),
  ("Model/Ping", "reg / cleanup / unreg", "packet.Session.Ping6", icmpTableMu, 3, 1),
  ("Model/Ping", "echo", "packet.echoNotify", icmpTableMu, 1, 1),
  ("Model/Dhcp4Srv", "discover/request/decline/release", "dhcp4_spoofer.Handler.ProcessPacket", dhcpMu, 1, 1),
  ("Model/Dhcp4Srv", "minuteTick", "dhcp4_spoofer.Handler.MinuteTicker", dhcpMu, 1, 1),
  ("Model/Dhcp4Srv", "capture (StartHunt of the DHCP handler)", "dhcp4_spoofer.Handler.StartHunt", dhcpMu, 1, 1),
  ("Model/Tables", "capture", "packet.Session.Capture", sessionMu, 1, 1),
  ("Model/Tables", "release", "packet.Session.Release", sessionMu, 1, 1),
  ("Model/Tables", "setOffer", "packet.Session.SetDHCPv4IPOffer", sessionMu, 1, 1),
  ("Model/Tables", "updateName", "packet.Host.UpdateDHCP4Name", rowMu, 1, 1),
  ("Model/Tables", "updateName", "packet.Host.UpdateMDNSName", rowMu, 1, 1),
  ("Model/Tables", "updateName", "packet.Host.UpdateLLMNRName", rowMu, 1, 1),
  ("Model/Tables", "updateName", "packet.Host.UpdateNBNSName", rowMu, 1, 1),
  ("Model/Tables", "updateName", "packet.Host.UpdateSSDPName", rowMu, 1, 1),
  ("Model/Tables", "notify (decide, then snapshot + clear dirty)", "packet.Session.notify", rowMu, 2, 0),
  ("Model/Tables", "makeOffline", "packet.Session.makeOffline", rowMu, 1, 1),
  ("Model/Tables", "close", "packet.Session.Close", sessionMu, 1, 1),
  ("Model/Tables", "findOrCreateHost (fast path, slow path)", "packet.Session.findOrCreateHostWithLock", sessionMu, 2, 0),
  ("Model/Naming", "ProcessDNS (lookup + decode + store)", "dns_naming.DNSHandler.ProcessDNS", dnsMu, 1, 1)]

/-- the own sections of a function on a guard that touch the guard's data -/
def ownSecs (fn : String) (c : String) : List SecRow :=
  match Gen.Atomic.funcShapes.find? fun (r : FnRow) => r.2.1 == fn with
  | some r => r.2.2.1.filter fun s => s.1 == clsId c && touches s
  | none => []

def stepOk (r : String × String × String × String × Nat × Nat) : Bool :=
  let l := ownSecs r.2.2.1 r.2.2.2.1
  l.length == r.2.2.2.2.1 && (l.head?.map fun s => s.2.1) == some r.2.2.2.2.2

def badSteps : List (String × String × String) := (modelSteps.filter fun r => !stepOk r).map fun r => (r.1, r.2.1, r.2.2.1)

end PV.Props.C09AtomicReview
