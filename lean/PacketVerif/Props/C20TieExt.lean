/-
  C20 tie (F11), second part — the methods of `fastlog.Line` the extended translator (tools/goextract/loops_ext.go)
  regenerates: `Int`, `Duration`, `Error`, `newModule`, `Module`, `StringArray`, `IPSlice`, `IPArray`, `IP`.  Same statement
  as in Props/C20Tie.lean: for every model line and every argument the regenerated body equals the model function — same
  buffer, same cursor, same panics, never out of fuel.  Standard-library callees (`strconv.AppendInt`, `net.IP.To4`,
  `netip.Addr.AppendTo/IsValid`, `time.Duration.String`, `error.Error`) appear in the regenerated bodies as the model
  functions that mirror them (`Gen.Loops.loopCallees`, pinned by `C20Tie.callees_accounted`).
-/
import PacketVerif.Props.C20Tie
namespace PV.Props.C20TieExt
open PV PV.Model.LoopGo PV.Gen.Loops PV.Model.Fastlog PV.Lemmas.LoopGo PV.Lemmas.FastlogLoops PV.Props.C20Tie

/-- `l.buffer[l.index] = v` (then `l.index++`) written out in a method body, followed by a continuation -/
theorem setI_step (l : Line) (v : UInt8) (K : Bytes → Outcome GLine) (k' : Line → Outcome Line)
    (h : ∀ l' : Line, (l'.idx : Int) = (l.idx : Int) + 1 → K l'.buf.1 = liftG (k' l')) :
    (setI (G l).buf (G l).idx v >>= K) = liftG (appendByte l v >>= k') := by
  unfold appendByte setI
  by_cases hi : l.idx < bufSize
  · have hi' : (0 : Int) ≤ (l.idx : Int) ∧ (l.idx : Int) < ((l.buf.1.length : Nat) : Int) := by
      rw [l.buf.2]; unfold bufSize at *; omega
    simp only [G_buf, G_idx, hi, hi', and_self, if_true, Outcome.bind_ok, Int.toNat_natCast]
    exact h ⟨l.buf.set l.idx v, l.idx + 1⟩ (by simp)
  · have hi' : ¬ ((0 : Int) ≤ (l.idx : Int) ∧ (l.idx : Int) < ((l.buf.1.length : Nat) : Int)) := by
      rw [l.buf.2]; unfold bufSize at *; omega
    simp only [G_buf, G_idx, hi, hi', if_false]; rfl

/-- **Int** (head written with explicit stores, then the text `strconv.AppendInt` produces — `fmtInt64` by the callee map) -/
theorem int_tie (l : Line) (name : Bytes) (v : Int) : genLine_Int (G l) name v = liftG (intF l name v) := by
  unfold genLine_Int intF head
  simp only [PV.Lemmas.FastlogLoops.bind_assoc]
  apply setI_step; intro l1 h1
  simp only [G_idx, ← h1]
  apply copy_step l1; intro l2
  simp only [G_idx_upd']
  apply setI_step l2; intro l3 h3
  rw [← h3]
  have hm : makeBytes (0 : Int) = .ok [] := rfl
  rw [hm]
  simp only [Outcome.bind_ok, List.nil_append]
  exact copy_last l3 _

/-- **Duration** (head, then the text `time.Duration.String` produces — `durationText` by the callee map) -/
theorem duration_tie (l : Line) (name : Bytes) (d : Int) :
    genLine_Duration (G l) name d = liftG (nameText l name (durationText d)) := by
  unfold genLine_Duration nameText
  apply head_step; intro l1
  exact copy_last l1 _

/-- **Error** (`" error=["`, the text of the error, `]`) -/
theorem error_tie (l : Line) (text : Bytes) : genLine_Error (G l) text = liftG (errorF l text) := by
  unfold genLine_Error errorF
  apply copy_step; intro l1
  simp only [G_idx_upd]
  apply copy_step l1; intro l2
  simp only [G_idx_upd', G_mk]
  exact C20Tie.appendByte_tie l2 _
/-- `copy(buffer[lo:hi], s)` with natural bounds: the generated primitive and the model's agree (panic included) -/
theorem copyI_copyTo (b : Buf) (lo hi : Nat) (s : Bytes) :
    copyI b.1 (lo : Int) (hi : Int) s =
      match copyTo b lo hi s with
      | .ok p => .ok (p.1.1, (p.2 : Int))
      | .err e => .err e
      | .panic => .panic
      | .hang => .hang := by
  unfold copyI copyTo
  by_cases h : lo ≤ hi ∧ hi ≤ bufSize
  · have h' : (0 : Int) ≤ (lo : Int) ∧ (lo : Int) ≤ (hi : Int) ∧ (hi : Int) ≤ ((b.1.length : Nat) : Int) := by
      rw [b.2]; omega
    have hn : ((hi : Int) - (lo : Int)).toNat = hi - lo := by omega
    have hfit : lo + min (hi - lo) s.length ≤ b.1.length := by rw [b.2]; omega
    simp [h, h', hn, Buf.splice, splice, hfit, Nat.min_comm]
  · have h' : ¬ ((0 : Int) ≤ (lo : Int) ∧ (lo : Int) ≤ (hi : Int) ∧ (hi : Int) ≤ ((b.1.length : Nat) : Int)) := by
      rw [b.2]; omega
    rw [if_neg h, if_neg h']

/-- the `if msg != "" { … }` tail of `newModule` -/
theorem appendMsg_gen (l : Line) (m : Bytes) :
    (do let l ← (do
            if (m ≠ ([] : Bytes)) then do
              let l ← genLine_appendByte (G l) (32 : UInt8)
              let l ← genLine_appendByte l (34 : UInt8)
              let (t5, t6) ← copyI l.buf l.idx (l.buf.length : Int) m
              let l : GLine := { l with buf := t5 }
              let l : GLine := { l with idx := (l.idx + t6) }
              let l ← genLine_appendByte l (34 : UInt8)
              pure l
            else do
              pure (G l))
        pure l) = liftG (appendMsg l m) := by
  unfold appendMsg
  by_cases hm : m = []
  · simp only [hm, ne_eq, not_true_eq_false, if_false, if_true]; rfl
  · simp only [ne_eq, hm, not_false_eq_true, if_true, if_false]
    rw [C20Tie.appendByte_tie]; apply liftG_bind; intro l1
    rw [C20Tie.appendByte_tie]; apply liftG_bind; intro l2
    apply copy_step; intro l3
    simp only [G_upd]
    rw [C20Tie.appendByte_tie]; rfl

/-- **newModule** (`"      :"` overwritten by at most six bytes of the module name, then the quoted message) -/
theorem newModule_tie (l : Line) (module m : Bytes) :
    genLine_newModule (G l) module m = liftG (newModule l module m) := by
  unfold genLine_newModule newModule
  by_cases hmod : module = []
  · simp only [hmod, ne_eq, not_true_eq_false, if_false, if_true, Outcome.pure_eq, Outcome.bind_ok]
    exact appendMsg_gen l m
  · have hlen : (G l).buf.length = bufSize := l.buf.2
    have h6 : (l.idx : Int) + 6 = ((l.idx + 6 : Nat) : Int) := by omega
    simp only [ne_eq, hmod, not_false_eq_true, if_true, if_false]
    rw [hlen]
    simp only [G_idx, G_buf]
    rw [copyI_copyTo]
    have hs : ([32, 32, 32, 32, 32, 32, 58] : Bytes) = sModule := rfl
    rw [hs]
    cases h1 : copyTo l.buf l.idx bufSize sModule with
    | ok p =>
      obtain ⟨b1, n1⟩ := p
      simp only [Outcome.bind_ok, h6]
      rw [copyI_copyTo]
      cases h2 : copyTo b1 l.idx (l.idx + 6) module with
      | ok q =>
        obtain ⟨b2, n2⟩ := q
        simp only [Outcome.bind_ok, Outcome.pure_eq]
        have hg : ({ buf := b2.1, idx := (l.idx : Int) + 7 } : GLine) = G ⟨b2, l.idx + 7⟩ := by
          simp only [G]; congr 1
        rw [hg]
        exact appendMsg_gen ⟨b2, l.idx + 7⟩ m
      | panic => rfl
      | err e => rfl
      | hang => rfl
    | panic => rfl
    | err e => rfl
    | hang => rfl

/-- **Module** (a line feed, then `newModule`) -/
theorem module_tie (l : Line) (name m : Bytes) : genLine_Module (G l) name m = liftG (moduleF l name m) := by
  unfold genLine_Module moduleF
  rw [C20Tie.appendByte_tie]; apply liftG_bind; intro l1
  rw [newModule_tie]

theorem idxL_append_at {α : Type} (pre rest : List α) (a : α) :
    idxL (pre ++ a :: rest) (pre.length : Int) = .ok a := by
  simp [idxL]

/-- the range loop of `StringArray` (with its `break` when the next element does not fit) from position `pre.length` on -/
theorem stringArray_loop_eq : ∀ (rest pre : List Bytes) (l : Line) (fuel : Nat), rest.length < fuel →
    genLine_StringArray_loop1 (pre ++ rest) fuel (pre.length : Int) (G l) = liftG (stringArrayLoop l rest) := by
  intro rest
  induction rest with
  | nil =>
    intro pre l fuel h
    cases fuel with
    | zero => simp at h
    | succ f => rw [genLine_StringArray_loop1]; simp [stringArrayLoop]
  | cons v rest ih =>
    intro pre l fuel h
    cases fuel with
    | zero => simp at h
    | succ f =>
      rw [genLine_StringArray_loop1, stringArrayLoop]
      have hc : (pre.length : Int) < ((pre ++ v :: rest).length : Int) := by simp; omega
      simp only [hc, if_true, idxL_append_at, Outcome.bind_ok]
      by_cases hfit : l.idx + v.length + 4 > bufSize
      · have hfit' : (G l).idx + (v.length : Int) + 4 > 2048 := by show (l.idx : Int) + _ + 4 > 2048; unfold bufSize at hfit; omega
        rw [if_pos hfit, if_pos hfit']; rfl
      · have hfit' : ¬ ((G l).idx + (v.length : Int) + 4 > 2048) := by show ¬ ((l.idx : Int) + _ + 4 > 2048); unfold bufSize at hfit; omega
        rw [if_neg hfit, if_neg hfit']
        rw [C20Tie.appendByte_tie]; apply liftG_bind; intro l1
        apply copy_step; intro l2
        simp only [G_upd]
        rw [C20Tie.appendByte_tie]; apply liftG_bind; intro l3
        rw [C20Tie.appendByte_tie]; apply liftG_bind; intro l4
        rw [C20Tie.appendByte_tie]; apply liftG_bind; intro l5
        have := ih (pre ++ [v]) l5 f (by simp at h; omega)
        simp only [List.append_assoc, List.singleton_append, List.length_append, List.length_singleton] at this
        rw [← this]; congr 1

/-- **StringArray** (skipped when not even the name fits, `[`, the quoted elements as long as they fit, the trailing
    `", "` turned into `]`) -/
theorem stringArray_tie (l : Line) (name : Bytes) (value : List Bytes) :
    genLine_StringArray (G l) name value = liftG (stringArray l name value) := by
  unfold genLine_StringArray stringArray
  by_cases hfit : l.idx + name.length + 4 > bufSize
  · have hfit' : (G l).idx + (name.length : Int) + 4 > 2048 := by show (l.idx : Int) + _ + 4 > 2048; unfold bufSize at hfit; omega
    rw [if_pos hfit, if_pos hfit']; rfl
  · have hfit' : ¬ ((G l).idx + (name.length : Int) + 4 > 2048) := by show ¬ ((l.idx : Int) + _ + 4 > 2048); unfold bufSize at hfit; omega
    rw [if_neg hfit, if_neg hfit']
    apply head_step; intro l1
    rw [C20Tie.appendByte_tie]; apply liftG_bind; intro l2
    by_cases hv : value.length = 0
    · have hv' : ((value.length : Nat) : Int) ≤ 0 := by omega
      rw [if_pos hv, if_pos hv']
      exact C20Tie.appendByte_tie l2 _
    · have hv' : ¬ ((value.length : Nat) : Int) ≤ 0 := by omega
      rw [if_neg hv, if_neg hv']
      have hl := stringArray_loop_eq value [] l2 (value.length + 1) (by omega)
      simp only [List.nil_append, List.length_nil, Int.natCast_zero] at hl
      dsimp only
      rw [hl]; apply liftG_bind; intro l3
      exact dec_append l3 _

/-- decimal text of a number below 1000 without recursion -/
def dec3 (n : Nat) : Bytes :=
  if n < 10 then [UInt8.ofNat (48 + n)]
  else if n < 100 then [UInt8.ofNat (48 + n / 10), UInt8.ofNat (48 + n % 10)]
  else [UInt8.ofNat (48 + n / 100), UInt8.ofNat (48 + n / 10 % 10), UInt8.ofNat (48 + n % 10)]

theorem peel_dec3 (n : Nat) (h : n < 1000) : peelDigits n [] = dec3 n := by
  unfold dec3
  rw [peelDigits]
  split
  · rfl
  · rw [peelDigits]
    split
    · have : n < 100 := by omega
      simp [this]
    · rw [peelDigits]
      have h1 : n / 10 / 10 < 10 := by omega
      have h2 : ¬ n < 100 := by omega
      have h3 : n / 10 / 10 = n / 100 := by omega
      rw [dif_pos h1, if_neg h2, h3]

/-- `var byteAscii = []string{"0", …, "255"}` holds the decimal text of its index -/
theorem byteAscii_table : genTbl_byteAscii = (List.range 256).map dec3 := by decide +kernel

theorem byteAscii_tie (b : UInt8) : idxL genTbl_byteAscii ((b.toNat : Nat) : Int) = .ok (byteAscii b) := by
  have hb : b.toNat < 256 := b.toNat_lt
  unfold idxL byteAscii
  rw [byteAscii_table, peel_dec3 _ (by omega)]
  simp [hb]

/-- one decimal component: `l.index = l.index + copy(l.buffer[l.index:], byteAscii[ip[i]])` -/
theorem comp_step (l : Line) (ip : Bytes) (i : Nat) (k : Bytes × Int → Outcome GLine) (k' : Line → Outcome Line)
    (h : ∀ l' : Line, k (l'.buf.1, (l'.idx : Int) - (l.idx : Int)) = liftG (k' l')) :
    (do let t3 ← idxI ip ((i : Nat) : Int)
        let t4 ← idxL genTbl_byteAscii (t3.toNat : Int)
        let p ← copyI (G l).buf (G l).idx ((G l).buf.length : Int) t4
        k p) = liftG (do let x ← idx ip i; let l ← copyIn l (byteAscii x); k' l) := by
  rw [idxI_natCast]
  apply val_step; intro x
  rw [byteAscii_tie, Outcome.bind_ok]
  exact copy_step l _ k k' h

/-- the dotted-quad branch shared by `IPSlice` and `IPArray` -/
theorem dotted4_gen (l : Line) (ip : Bytes) :
    (do let t3 ← idxI ip (0 : Int)
        let t4 ← idxL genTbl_byteAscii (t3.toNat : Int)
        let (t5, t6) ← copyI (G l).buf (G l).idx ((G l).buf.length : Int) t4
        let l : GLine := { (G l) with buf := t5 }
        let l : GLine := { l with idx := (l.idx + t6) }
        let l ← genLine_appendByte l (46 : UInt8)
        let t7 ← idxI ip (1 : Int)
        let t8 ← idxL genTbl_byteAscii (t7.toNat : Int)
        let (t9, t10) ← copyI l.buf l.idx (l.buf.length : Int) t8
        let l : GLine := { l with buf := t9 }
        let l : GLine := { l with idx := (l.idx + t10) }
        let l ← genLine_appendByte l (46 : UInt8)
        let t11 ← idxI ip (2 : Int)
        let t12 ← idxL genTbl_byteAscii (t11.toNat : Int)
        let (t13, t14) ← copyI l.buf l.idx (l.buf.length : Int) t12
        let l : GLine := { l with buf := t13 }
        let l : GLine := { l with idx := (l.idx + t14) }
        let l ← genLine_appendByte l (46 : UInt8)
        let t15 ← idxI ip (3 : Int)
        let t16 ← idxL genTbl_byteAscii (t15.toNat : Int)
        let (t17, t18) ← copyI l.buf l.idx (l.buf.length : Int) t16
        let l : GLine := { l with buf := t17 }
        let l : GLine := { l with idx := (l.idx + t18) }
        pure l) = liftG (dotted4 l ip) := by
  unfold dotted4
  have c0 : (0 : Int) = ((0 : Nat) : Int) := rfl
  have c1 : (1 : Int) = ((1 : Nat) : Int) := rfl
  have c2 : (2 : Int) = ((2 : Nat) : Int) := rfl
  have c3 : (3 : Int) = ((3 : Nat) : Int) := rfl
  rw [c0, c1, c2, c3]
  apply comp_step l ip 0; intro l1
  simp only [G_upd]
  rw [C20Tie.appendByte_tie]; apply liftG_bind; intro l2
  apply comp_step l2 ip 1; intro l3
  simp only [G_upd]
  rw [C20Tie.appendByte_tie]; apply liftG_bind; intro l4
  apply comp_step l4 ip 2; intro l5
  simp only [G_upd]
  rw [C20Tie.appendByte_tie]; apply liftG_bind; intro l6
  have := comp_step l6 ip 3 (fun p => pure ({ buf := p.1, idx := (G l6).idx + p.2 } : GLine)) pure
    (fun l' => by simp only [G_upd]; rfl)
  rw [this]; congr 1
  cases idx ip 3 with
  | ok x => simp only [Outcome.bind_ok]; exact PV.Lemmas.FastlogLoops.bind_pure _
  | panic => rfl
  | err e => rfl
  | hang => rfl

/-- **IPSlice** (`nil` → "nil"; an IPv4 or IPv4-mapped address (`net.IP.To4`, `to4` by the callee map) as dotted quad through
    the `byteAscii` table; anything else through `appendIP6`) -/
theorem ipSlice_tie (l : Line) (name : Bytes) (v : Option Bytes) :
    genLine_IPSlice (G l) name v = liftG (ipSlice l name v) := by
  unfold genLine_IPSlice ipSlice
  apply head_step; intro l1
  cases v with
  | none =>
    simp only [ne_eq, not_true_eq_false, if_false]
    exact copy_last l1 sNil
  | some ip =>
    have hne : (some ip : Option Bytes) ≠ none := by simp
    rw [if_pos hne]
    have hnb : nilBytes (some ip) = ip := rfl
    rw [hnb]
    unfold ipAny
    dsimp only
    cases h4 : to4 ip with
    | none =>
      have hn : ¬ ((none : Option Bytes) ≠ none) := by simp
      rw [if_neg hn]
      rw [C20Tie.appendIP6_tie]
    | some ip4 =>
      have hne4 : (some ip4 : Option Bytes) ≠ none := by simp
      rw [if_pos hne4]
      exact dotted4_gen l1 ip4

/-- one element of `IPArray` as generated: nothing for `nil`, dotted quad or `appendIP6` otherwise -/
theorem ipElem_gen (l : Line) (v : Option Bytes) :
    (do
          if (v ≠ none) then do
            let ip : Option Bytes := (PV.Model.Fastlog.to4 (nilBytes v))
            let l ← (do
                if (ip ≠ none) then do
                  let t3 ← idxI (nilBytes ip) (0 : Int)
                  let t4 ← idxL genTbl_byteAscii (t3.toNat : Int)
                  let (t5, t6) ← copyI (G l).buf (G l).idx ((G l).buf.length : Int) t4
                  let l : GLine := { (G l) with buf := t5 }
                  let l : GLine := { l with idx := (l.idx + t6) }
                  let l ← genLine_appendByte l (46 : UInt8)
                  let t7 ← idxI (nilBytes ip) (1 : Int)
                  let t8 ← idxL genTbl_byteAscii (t7.toNat : Int)
                  let (t9, t10) ← copyI l.buf l.idx (l.buf.length : Int) t8
                  let l : GLine := { l with buf := t9 }
                  let l : GLine := { l with idx := (l.idx + t10) }
                  let l ← genLine_appendByte l (46 : UInt8)
                  let t11 ← idxI (nilBytes ip) (2 : Int)
                  let t12 ← idxL genTbl_byteAscii (t11.toNat : Int)
                  let (t13, t14) ← copyI l.buf l.idx (l.buf.length : Int) t12
                  let l : GLine := { l with buf := t13 }
                  let l : GLine := { l with idx := (l.idx + t14) }
                  let l ← genLine_appendByte l (46 : UInt8)
                  let t15 ← idxI (nilBytes ip) (3 : Int)
                  let t16 ← idxL genTbl_byteAscii (t15.toNat : Int)
                  let (t17, t18) ← copyI l.buf l.idx (l.buf.length : Int) t16
                  let l : GLine := { l with buf := t17 }
                  let l : GLine := { l with idx := (l.idx + t18) }
                  pure l
                else do
                  let l ← genLine_appendIP6 (G l) (nilBytes v)
                  pure l)
            pure l
          else do
            pure (G l)) = liftG (ipElem l v) := by
  unfold ipElem
  cases v with
  | none => rfl
  | some ip =>
    have hne : (some ip : Option Bytes) ≠ none := by simp
    rw [if_pos hne]
    have hnb : nilBytes (some ip) = ip := rfl
    rw [hnb]
    unfold ipAny
    dsimp only
    cases h4 : to4 ip with
    | none =>
      have hn : ¬ ((none : Option Bytes) ≠ none) := by simp
      rw [if_neg hn]
      rw [C20Tie.appendIP6_tie]
    | some ip4 =>
      have hne4 : (some ip4 : Option Bytes) ≠ none := by simp
      rw [if_pos hne4]
      have := dotted4_gen l ip4
      simp only [Outcome.pure_eq] at this ⊢
      exact this

/-- the range loop of `IPArray` (with its `break` when a longest address would not fit) from position `pre.length` on -/
theorem ipArray_loop_eq : ∀ (rest pre : List (Option Bytes)) (l : Line) (fuel : Nat), rest.length < fuel →
    genLine_IPArray_loop1 (pre ++ rest) fuel (pre.length : Int) (G l) = liftG (ipArrayLoop l rest) := by
  intro rest
  induction rest with
  | nil =>
    intro pre l fuel h
    cases fuel with
    | zero => simp at h
    | succ f => rw [genLine_IPArray_loop1]; simp [ipArrayLoop]
  | cons v rest ih =>
    intro pre l fuel h
    cases fuel with
    | zero => simp at h
    | succ f =>
      rw [genLine_IPArray_loop1, ipArrayLoop]
      have hc : (pre.length : Int) < ((pre ++ v :: rest).length : Int) := by simp; omega
      rw [if_pos hc, idxL_append_at, Outcome.bind_ok]
      by_cases hfit : l.idx + 39 + 2 > bufSize
      · have hfit' : (G l).idx + 39 + 2 > 2048 := by show (l.idx : Int) + 39 + 2 > 2048; unfold bufSize at hfit; omega
        rw [if_pos hfit, if_pos hfit']; rfl
      · have hfit' : ¬ ((G l).idx + 39 + 2 > 2048) := by show ¬ ((l.idx : Int) + 39 + 2 > 2048); unfold bufSize at hfit; omega
        rw [if_neg hfit, if_neg hfit']
        rw [ipElem_gen]; apply liftG_bind; intro l1
        rw [C20Tie.appendByte_tie]; apply liftG_bind; intro l2
        rw [C20Tie.appendByte_tie]; apply liftG_bind; intro l3
        have := ih (pre ++ [v]) l3 f (by simp at h; omega)
        simp only [List.append_assoc, List.singleton_append, List.length_append, List.length_singleton] at this
        rw [← this]; congr 1

/-- **IPArray** (skipped when not even the name fits, `[`, the elements as long as a longest address fits — `nil` elements
    contribute only their separator —, the trailing `", "` turned into `]`) -/
theorem ipArray_tie (l : Line) (name : Bytes) (value : List (Option Bytes)) :
    genLine_IPArray (G l) name value = liftG (ipArray l name value) := by
  unfold genLine_IPArray ipArray
  by_cases hfit : l.idx + name.length + 4 > bufSize
  · have hfit' : (G l).idx + (name.length : Int) + 4 > 2048 := by show (l.idx : Int) + _ + 4 > 2048; unfold bufSize at hfit; omega
    rw [if_pos hfit, if_pos hfit']; rfl
  · have hfit' : ¬ ((G l).idx + (name.length : Int) + 4 > 2048) := by show ¬ ((l.idx : Int) + _ + 4 > 2048); unfold bufSize at hfit; omega
    rw [if_neg hfit, if_neg hfit']
    apply head_step; intro l1
    rw [C20Tie.appendByte_tie]; apply liftG_bind; intro l2
    by_cases hv : value.length = 0
    · have hv' : ((value.length : Nat) : Int) ≤ 0 := by omega
      rw [if_pos hv, if_pos hv']
      exact C20Tie.appendByte_tie l2 _
    · have hv' : ¬ ((value.length : Nat) : Int) ≤ 0 := by omega
      rw [if_neg hv, if_neg hv']
      have hl := ipArray_loop_eq value [] l2 (value.length + 1) (by omega)
      simp only [List.nil_append, List.length_nil, Int.natCast_zero] at hl
      dsimp only
      rw [hl]; apply liftG_bind; intro l3
      exact dec_append l3 _

/-- `append(l.buffer[l.index:l.index], text...)`: in place when the text fits, otherwise the buffer is untouched -/
theorem appendAtI_G (l : Line) (t : Bytes) :
    appendAtI (G l).buf (G l).idx (G l).idx t =
      if l.idx ≤ bufSize then
        (if l.idx + t.length ≤ bufSize then .ok ((l.buf.splice l.idx t).1, t) else .ok (l.buf.1, t))
      else .panic := by
  unfold appendAtI
  simp only [G_buf, G_idx, buf_length, Int.toNat_natCast]
  by_cases h : l.idx ≤ bufSize
  · have h' : (0 : Int) ≤ (l.idx : Int) ∧ (l.idx : Int) ≤ (l.idx : Int) ∧ (l.idx : Int) ≤ ((2048 : Nat) : Int) := by
      unfold bufSize at h; omega
    rw [if_pos h, if_pos h']
    have hpre : (List.take l.idx l.buf.1).drop l.idx = [] := by simp
    by_cases h2 : l.idx + t.length ≤ bufSize
    · have h2' : l.idx + t.length ≤ 2048 := h2
      simp [h2', hpre, Buf.splice, splice, bufSize]
    · have h2' : ¬ l.idx + t.length ≤ 2048 := h2
      simp [h2, h2', hpre]
  · have h' : ¬ ((0 : Int) ≤ (l.idx : Int) ∧ (l.idx : Int) ≤ (l.idx : Int) ∧ (l.idx : Int) ≤ ((2048 : Nat) : Int)) := by
      unfold bufSize at h; omega
    rw [if_neg h, if_neg h']

/-- **IP** (a valid `netip.Addr` — given by its 4 or 16 bytes — is appended by `AppendTo` on the zero-length slice at the
    cursor: in place when the text (`netipText` by the callee map) fits, otherwise the run time reallocates, the buffer is
    unchanged and the cursor ends beyond the buffer; an invalid address prints "nil") -/
theorem ip_tie (l : Line) (name a : Bytes) : genLine_IP (G l) name a = liftG (ipF l name a) := by
  unfold genLine_IP ipF
  apply head_step; intro l1
  by_cases hv : a.length = 4 ∨ a.length = 16
  · have hv' : ((a.length : Nat) : Int) = 4 ∨ ((a.length : Nat) : Int) = 16 := by omega
    rw [if_pos hv, if_pos hv', appendAtI_G]
    by_cases h : l1.idx ≤ bufSize
    · rw [if_pos h, if_pos h]
      by_cases h2 : l1.idx + (netipText a).length ≤ bufSize
      · rw [if_pos h2]; dsimp only; rw [if_pos h2]; simp [G]
      · rw [if_neg h2]; dsimp only; rw [if_neg h2]; simp [G]
    · rw [if_neg h, if_neg h]; rfl
  · have hv' : ¬ (((a.length : Nat) : Int) = 4 ∨ ((a.length : Nat) : Int) = 16) := by omega
    rw [if_neg hv, if_neg hv']
    exact copy_last l1 sNil

/-- non-vacuity: on an empty line the regenerated `Int("n", -42)` writes ` n=-42` and moves the cursor to 6 -/
example : genLine_Int (G ⟨Buf.fill 0, 0⟩) [0x6e] (-42) = liftG (intF ⟨Buf.fill 0, 0⟩ [0x6e] (-42)) := int_tie _ _ _
/-- non-vacuity: `IPArray` with a nil element and an IPv4 element near the end of the buffer stops early (break) -/
example : genLine_IPArray (G ⟨Buf.fill 0, 2000⟩) [0x61] [none, some [10, 0, 0, 1]] =
    liftG (ipArray ⟨Buf.fill 0, 2000⟩ [0x61] [none, some [10, 0, 0, 1]]) := ipArray_tie _ _ _
/-- non-vacuity: `IP` one byte before the end of the buffer panics in both (the `=` no longer fits) -/
example : genLine_IP (G ⟨Buf.fill 0, 2047⟩) [0x61] [10, 0, 0, 1] = .panic := by rw [ip_tie]; rfl

end PV.Props.C20TieExt
