/-
  C20 tie (F11), second part — the methods of `fastlog.Line` the extended translator (tools/goextract/loops_ext.go)
  regenerates: `Int`, `Duration`, `Error`, `newModule`, `Module`, `StringArray`, `IPSlice`, `IPArray`, `IP`.  Same statement
  as in Props/C20Tie.lean: for every model line and every argument the regenerated body equals the model function — same
  buffer, same cursor, same panics, never out of fuel.  Standard-library callees (`strconv.AppendInt`, `net.IP.To4`,
  `netip.Addr.AppendTo/IsValid`, `time.Duration.String`, `error.Error`) appear in the regenerated bodies as the model
  functions that mirror them (`Gen.Loops.loopCallees`, pinned by `C20Tie.callees_accounted`).
-/
import PacketVerif.Props.C20Tie
namespace PV.Props.C20TieExt
open PV PV.Model.LoopGo PV.Gen.Loops PV.Model.Fastlog PV.Lemmas.LoopGo PV.Lemmas.FastlogLoops PV.Props.C20Tie

/-- `l.buffer[l.index] = v` (then `l.index++`) written out in a method body, followed by a continuation -/
theorem setI_step (l : Line) (v : UInt8) (K : Bytes → Outcome GLine) (k' : Line → Outcome Line)
    (h : ∀ l' : Line, (l'.idx : Int) = (l.idx : Int) + 1 → K l'.buf.1 = liftG (k' l')) :
    (setI (G l).buf (G l).idx v >>= K) = liftG (appendByte l v >>= k') := by
  unfold appendByte setI
  by_cases hi : l.idx < bufSize
  · have hi' : (0 : Int) ≤ (l.idx : Int) ∧ (l.idx : Int) < ((l.buf.1.length : Nat) : Int) := by
      rw [l.buf.2]; unfold bufSize at *; omega
    simp only [G_buf, G_idx, hi, hi', and_self, if_true, Outcome.bind_ok, Int.toNat_natCast]
    exact h ⟨l.buf.set l.idx v, l.idx + 1⟩ (by simp)
  · have hi' : ¬ ((0 : Int) ≤ (l.idx : Int) ∧ (l.idx : Int) < ((l.buf.1.length : Nat) : Int)) := by
      rw [l.buf.2]; unfold bufSize at *; omega
    simp only [G_buf, G_idx, hi, hi', if_false]; rfl

/-- **Int** (head written with explicit stores, then the text `strconv.AppendInt` produces — `fmtInt64` by the callee map) -/
theorem int_tie (l : Line) (name : Bytes) (v : Int) : genLine_Int (G l) name v = liftG (intF l name v) := by
  unfold genLine_Int intF head
  simp only [PV.Lemmas.FastlogLoops.bind_assoc]
  apply setI_step; intro l1 h1
  simp only [G_idx, ← h1]
  apply copy_step l1; intro l2
  simp only [G_idx_upd']
  apply setI_step l2; intro l3 h3
  rw [← h3]
  have hm : makeBytes (0 : Int) = .ok [] := rfl
  rw [hm]
  simp only [Outcome.bind_ok, List.nil_append]
  exact copy_last l3 _

/-- **Duration** (head, then the text `time.Duration.String` produces — `durationText` by the callee map) -/
theorem duration_tie (l : Line) (name : Bytes) (d : Int) :
    genLine_Duration (G l) name d = liftG (nameText l name (durationText d)) := by
  unfold genLine_Duration nameText
  apply head_step; intro l1
  exact copy_last l1 _

/-- **Error** (`" error=["`, the text of the error, `]`) -/
theorem error_tie (l : Line) (text : Bytes) : genLine_Error (G l) text = liftG (errorF l text) := by
  unfold genLine_Error errorF
  apply copy_step; intro l1
  simp only [G_idx_upd]
  apply copy_step l1; intro l2
  simp only [G_idx_upd', G_mk]
  exact C20Tie.appendByte_tie l2 _
/-- `copy(buffer[lo:hi], s)` with natural bounds: the generated primitive and the model's agree (panic included) -/
theorem copyI_copyTo (b : Buf) (lo hi : Nat) (s : Bytes) :
    copyI b.1 (lo : Int) (hi : Int) s =
      match copyTo b lo hi s with
      | .ok p => .ok (p.1.1, (p.2 : Int))
      | .err e => .err e
      | .panic => .panic
      | .hang => .hang := by
  unfold copyI copyTo
  by_cases h : lo ≤ hi ∧ hi ≤ bufSize
  · have h' : (0 : Int) ≤ (lo : Int) ∧ (lo : Int) ≤ (hi : Int) ∧ (hi : Int) ≤ ((b.1.length : Nat) : Int) := by
      rw [b.2]; omega
    have hn : ((hi : Int) - (lo : Int)).toNat = hi - lo := by omega
    have hfit : lo + min (hi - lo) s.length ≤ b.1.length := by rw [b.2]; omega
    simp [h, h', hn, Buf.splice, splice, hfit, Nat.min_comm]
  · have h' : ¬ ((0 : Int) ≤ (lo : Int) ∧ (lo : Int) ≤ (hi : Int) ∧ (hi : Int) ≤ ((b.1.length : Nat) : Int)) := by
      rw [b.2]; omega
    rw [if_neg h, if_neg h']

/-- the `if msg != "" { … }` tail of `newModule` -/
theorem appendMsg_gen (l : Line) (m : Bytes) :
    (do let l ← (do
            if (m ≠ ([] : Bytes)) then do
              let l ← genLine_appendByte (G l) (32 : UInt8)
              let l ← genLine_appendByte l (34 : UInt8)
              let (t5, t6) ← copyI l.buf l.idx (l.buf.length : Int) m
              let l : GLine := { l with buf := t5 }
              let l : GLine := { l with idx := (l.idx + t6) }
              let l ← genLine_appendByte l (34 : UInt8)
              pure l
            else do
              pure (G l))
        pure l) = liftG (appendMsg l m) := by
  unfold appendMsg
  by_cases hm : m = []
  · simp only [hm, ne_eq, not_true_eq_false, if_false, if_true]; rfl
  · simp only [ne_eq, hm, not_false_eq_true, if_true, if_false]
    rw [C20Tie.appendByte_tie]; apply liftG_bind; intro l1
    rw [C20Tie.appendByte_tie]; apply liftG_bind; intro l2
    apply copy_step; intro l3
    simp only [G_upd]
    rw [C20Tie.appendByte_tie]; rfl

/-- **newModule** (`"      :"` overwritten by at most six bytes of the module name, then the quoted message) -/
theorem newModule_tie (l : Line) (module m : Bytes) :
    genLine_newModule (G l) module m = liftG (newModule l module m) := by
  unfold genLine_newModule newModule
  by_cases hmod : module = []
  · simp only [hmod, ne_eq, not_true_eq_false, if_false, if_true, Outcome.pure_eq, Outcome.bind_ok]
    exact appendMsg_gen l m
  · have hlen : (G l).buf.length = bufSize := l.buf.2
    have h6 : (l.idx : Int) + 6 = ((l.idx + 6 : Nat) : Int) := by omega
    simp only [ne_eq, hmod, not_false_eq_true, if_true, if_false]
    rw [hlen]
    simp only [G_idx, G_buf]
    rw [copyI_copyTo]
    have hs : ([32, 32, 32, 32, 32, 32, 58] : Bytes) = sModule := rfl
    rw [hs]
    cases h1 : copyTo l.buf l.idx bufSize sModule with
    | ok p =>
      obtain ⟨b1, n1⟩ := p
      simp only [Outcome.bind_ok, h6]
      rw [copyI_copyTo]
      cases h2 : copyTo b1 l.idx (l.idx + 6) module with
      | ok q =>
        obtain ⟨b2, n2⟩ := q
        simp only [Outcome.bind_ok, Outcome.pure_eq]
        have hg : ({ buf := b2.1, idx := (l.idx : Int) + 7 } : GLine) = G ⟨b2, l.idx + 7⟩ := by
          simp only [G]; congr 1
        rw [hg]
        exact appendMsg_gen ⟨b2, l.idx + 7⟩ m
      | panic => rfl
      | err e => rfl
      | hang => rfl
    | panic => rfl
    | err e => rfl
    | hang => rfl

/-- **Module** (a line feed, then `newModule`) -/
theorem module_tie (l : Line) (name m : Bytes) : genLine_Module (G l) name m = liftG (moduleF l name m) := by
  unfold genLine_Module moduleF
  rw [C20Tie.appendByte_tie]; apply liftG_bind; intro l1
  rw [newModule_tie]

end PV.Props.C20TieExt
