/-
  C10 — retained state never aliases the caller's packet buffer: the theorems about the provenance machine
  (Model/Prov.lean).  They hold for EVERY site table and EVERY history (induction over the operation list); the table of
  the real code is plugged in by Props/C10Tie.lean (`code_retains_no_alias`).
  What these theorems cannot see is named there: whether the table describes the Go heap faithfully (the taint analysis of
  tools/goextract/prov.go, the reviewed transient records and API arguments) is not a Lean fact — that part stays with the
  differential two-buffer-mode run of harness/c10.
-/
import PacketVerif.Lemmas.Prov
namespace PV.Props.C10Prov
open PV.Prov

/-- every source of every site is `heap`, or a read of a retained class (which, inductively, holds heap values only) -/
def HeapOnly (table : List Site) : Prop :=
  ∀ s ∈ table, ∀ x ∈ s.rhs, x = .heap ∨ ∃ c, x = .cls c

/-- the empty set of classes -/
def none : ClassSet := fun _ => false

theorem heapOnly_closed {table : List Site} (h : HeapOnly table) : closedB none table = true := by
  induction table with
  | nil => rfl
  | cons t ts ih =>
    have hts : HeapOnly ts := fun s hs => h s (List.mem_cons_of_mem _ hs)
    have ht : anyTainted none t.rhs = false := by
      have : ∀ l : List Src, (∀ x ∈ l, x = .heap ∨ ∃ c, x = .cls c) → anyTainted none l = false := by
        intro l
        induction l with
        | nil => intro _; rfl
        | cons y ys ihy =>
          intro hl
          have hy := hl y (List.mem_cons_self)
          have hys := ihy (fun x hx => hl x (List.mem_cons_of_mem _ hx))
          cases hy with
          | inl e => simp [anyTainted, e, Src.tainted, hys]
          | inr e => obtain ⟨c, e⟩ := e; simp [anyTainted, e, Src.tainted, none, hys]
      exact this t.rhs (h t (List.mem_cons_self))
    simp [closedB, ht, ih hts]

/-- **no_retained_alias.**  If every retention site of the table stores `heap` or a value derived only from retained
    classes, then after EVERY history — any packets, any number of executions of any sites in any order with any admissible
    choice of stored references, any deletions — no retained pair has origin `buf _`. -/
theorem no_retained_alias (table : List Site) (h : HeapOnly table) (ops : List Op) :
    ∀ p ∈ run table [] ops, p.2.isHeap = true := by
  intro p hp
  exact run_clean (T := none) (heapOnly_closed h) ops [] (clean_nil none) p hp rfl

/-- the general form: T is ANY set of classes closed under the table (a site with a packet-derived, unknown or T-derived
    source stores into T).  Outside T no retained pair ever has origin `buf _`, from every start state that satisfies this. -/
theorem no_retained_alias_outside (table : List Site) (T : ClassSet) (hc : closedB T table = true)
    (s0 : Retained) (h0 : ∀ p ∈ s0, T p.1 = false → p.2.isHeap = true) (ops : List Op) :
    ∀ p ∈ run table s0 ops, T p.1 = false → p.2.isHeap = true :=
  run_clean hc ops s0 h0

/-- **overwrite_invisible.**  Under the same hypothesis, what the retained state of the classes outside T denotes does not
    depend on the contents of ANY of the caller's buffers: σ and σ' are arbitrary stores `buf n ↦ Bytes`, i.e. the caller may
    have overwritten every buffer it ever handed over. -/
theorem overwrite_invisible (table : List Site) (T : ClassSet) (hc : closedB T table = true) (ops : List Op)
    (σ σ' : Store) : observe T σ (run table [] ops) = observe T σ' (run table [] ops) :=
  observe_clean σ σ' _ (run_clean hc ops [] (clean_nil T))

/-- the same with the caller's buffers in the state: a history in which the caller overwrites its buffers between the calls
    and the history without the overwrites (private immutable buffers) end in the same observable retained state — the
    statement the two-buffer-mode run of harness/c10 tests on the real heap. -/
theorem overwrites_unobservable (table : List Site) (T : ClassSet) (hc : closedB T table = true) (ops : List OpS)
    (σ0 : Store) :
    observe T (runS table (σ0, []) ops).1 (runS table (σ0, []) ops).2 =
      observe T (runS table (σ0, []) (noOverwrite ops)).1 (runS table (σ0, []) (noOverwrite ops)).2 := by
  rw [runS_snd, runS_snd, toOps_noOverwrite]
  exact observe_clean _ _ _ (run_clean hc (toOps ops) [] (clean_nil T))

/-- **the contrapositive, for every table**: a single site with a `pkt` source admits a history after which overwriting
    the buffer changes what the retained state denotes. -/
theorem pkt_site_races (table : List Site) (site : Site) (hs : site ∈ table) (hp : Src.pkt ∈ site.rhs) :
    ∃ (ops : List Op) (σ σ' : Store), observe none σ (run table [] ops) ≠ observe none σ' (run table [] ops) := by
  obtain ⟨i, hi⟩ := List.getElem?_of_mem hs
  obtain ⟨j, hj⟩ := List.getElem?_of_mem hp
  refine ⟨[.packet 0 [⟨i, j, 0, .view 0 0 1⟩]], fun _ => [0], fun _ => [1], ?_⟩
  have hrun : run table [] [.packet 0 [⟨i, j, 0, .view 0 0 1⟩]] = [(site.cls, .view 0 0 1)] := by
    simp [run, step, exec, hi, hj, admissible]
  rw [hrun]
  simp [observe, none, Ref.deref]

/-! ### non-vacuity: concrete tables and histories -/

/-- class 0 = "MACEntry.MAC", class 1 = "Host.Addr": the entry keeps a copy, the host record takes the entry's value -/
def goodTable : List Site :=
  [⟨"findOrCreate:MACEntry.MAC=CopyMAC(mac)", 0, [.heap]⟩, ⟨"findOrCreateHost:Host.Addr=macEntry.MAC", 1, [.cls 0]⟩]

/-- the mutated table: the host record takes the MAC of the frame -/
def racyTable : List Site :=
  [⟨"findOrCreate:MACEntry.MAC=CopyMAC(mac)", 0, [.heap]⟩, ⟨"findOrCreateHost:Host.Addr=addr.MAC", 1, [.pkt]⟩]

def history : List Op :=
  [.packet 0 [⟨0, 0, 0, .heap [1, 2, 3, 4, 5, 6]⟩, ⟨1, 0, 0, .heap [1, 2, 3, 4, 5, 6]⟩],
   .packet 1 [⟨1, 0, 0, .view 1 6 6⟩], .forget 5]

/-- packet 1 arrives with source MAC 0a:…:0f at offset 6; later the caller reads the next frame into the same buffer -/
def before : Store := fun _ => [0xff, 0xff, 0xff, 0xff, 0xff, 0xff, 0x0a, 0x0b, 0x0c, 0x0d, 0x0e, 0x0f]
def after : Store := fun _ => [0xff, 0xff, 0xff, 0xff, 0xff, 0xff, 0x66, 0x66, 0x66, 0x66, 0x66, 0x66]

-- the hypothesis of `no_retained_alias` is satisfiable and its conclusion is about a non-empty state
example : HeapOnly goodTable := by
  intro s hs x hx
  simp [goodTable] at hs
  rcases hs with rfl | rfl <;> simp at hx <;> simp [hx]
example : run goodTable [] history = [(1, .heap [1, 2, 3, 4, 5, 6]), (0, .heap [1, 2, 3, 4, 5, 6])] := by decide
-- the good table refuses the aliasing store (the site's source does not admit a view) …
example : observe none before (run goodTable [] history) = observe none after (run goodTable [] history) := by decide
-- … the racy table admits it, and the overwrite is visible: the retained MAC changes from 0a:…:0f to 66:…:66
example : observe none before (run racyTable [] history) = [(1, [0x0a, 0x0b, 0x0c, 0x0d, 0x0e, 0x0f]), (0, [1, 2, 3, 4, 5, 6])] := by decide
example : observe none after (run racyTable [] history) = [(1, [0x66, 0x66, 0x66, 0x66, 0x66, 0x66]), (0, [1, 2, 3, 4, 5, 6])] := by decide
-- the racy table is not closed for the empty taint set; it is closed once class 1 is declared tainted, and then the
-- theorem speaks about class 0 only
example : closedB none racyTable = false := by decide
example : closedB (maskSet (maskOf [1])) racyTable = true := by decide
example : closedB none goodTable = true := by decide

end PV.Props.C10Prov
