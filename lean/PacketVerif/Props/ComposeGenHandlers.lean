/-
  Composition on the REGENERATED side, Parse ∘ handler (C13, C14; C07 / C08 through the same modules):
  the ties of the regenerated ARP and ICMPv6 `ProcessPacket` bodies (builders K and L: `C13ArpTie.processPacket_tie`,
  `C14Icmp6Tie.processPacket_tie`) speak about a frame RECORD `fr` next to the bytes `p`; the ICMPv6 one needs
  the hypothesis `ParseOK fr p` ("what Session.Parse guarantees about the frame record the handler is given").
  Here that hypothesis is DERIVED for the record the regenerated Parse body returns on the raw bytes
  (`parseOK_of_parse`, `parseOK_of_genParse`: from `C01ParseTie.parse_tie`, the decoder specification
  `parse_spec` and the offset invariant `parse_inv`), and the two pipelines

      raw bytes → regenerated Parse body → drop on error / dispatch on PayloadID → regenerated ProcessPacket body

  are proved equal to the models `Handlers.h6Frame` / `Handlers.arpFrame` that the C13 / C14 raw-history
  statements (Props/ComposeIcmp6, Props/ComposeArp, C08Handlers) are about — for every environment, every handler
  state and every byte string, with no hypothesis on the frame left.
-/
import PacketVerif.Props.C01ParseTie
import PacketVerif.Props.C13ArpTie
import PacketVerif.Props.C14Icmp6Tie
import PacketVerif.Props.C08Handlers
namespace PV.Props.ComposeGenHandlers
open PV PV.Model PV.Model.Handlers PV.Lemmas

/-! ### what Parse guarantees about the record it returns -/

/-- the transport layer of the reference decoder leaves the IPv6 header offset and the source address alone -/
theorem transport_keeps (p : Bytes) (d : Spec.Decoded) (proto o : Nat) :
    (Spec.transport p d proto o).ip6 = d.ip6 ∧ (Spec.transport p d proto o).srcIP = d.srcIP := by
  unfold Spec.transport
  simp only []
  repeat' split
  all_goals exact ⟨rfl, rfl⟩

/-- a decoded frame with an IPv6 header carries the 16 bytes at offset 8 of that header as its source -/
def Src6 (p : Bytes) (d : Spec.Decoded) : Prop := d.ip6 ≠ 0 → d.srcIP = Spec.field p (d.ip6 + 8) 16

theorem decode_src6' (c : Spec.SCfg) (p : Bytes) : Src6 p (Spec.decode c p) := by
  unfold Spec.decode
  simp only []
  generalize (if (Spec.u16 p 12 == 0x8100) = true then 18 else if (Spec.u16 p 12 == 0x88a8) = true then 22 else 14) = hdr
  repeat' split
  all_goals unfold Src6
  all_goals try rw [(transport_keeps _ _ _ _).1, (transport_keeps _ _ _ _).2]
  all_goals first
    | (intro h; exact absurd rfl h)
    | (intro _; rfl)

theorem decode_src6 (c : Spec.SCfg) (p : Bytes) (h : (Spec.decode c p).ip6 ≠ 0) :
    (Spec.decode c p).srcIP = Spec.field p ((Spec.decode c p).ip6 + 8) 16 := decode_src6' c p h

/-- `ip6Frame.Src()` on the view `p[offIP6:]` is the 16-byte field the decoder names -/
theorem slice_drop_field (p : Bytes) (o : Nat) (h : o + 40 ≤ p.length) :
    slice (p.drop o) 8 24 = .ok (Spec.field p (o + 8) 16) := by
  unfold slice Spec.field
  rw [if_pos ⟨by omega, by rw [List.length_drop]; omega⟩]
  congr 1
  rw [List.drop_take, List.drop_drop]

/-- **`ParseOK` is a theorem about Parse**: the record `Model.parse` returns with a nil error satisfies
    what the ICMPv6 handler tie assumed of it -/
theorem parseOK_of_parse (cfg : Cfg) (p : Bytes) (f : Frame) (h : parse cfg p = .ok ⟨f, none⟩) :
    C14Icmp6Tie.ParseOK f p := by
  have hi := parse_inv cfg p f h
  simp only [DInv, toDec] at hi
  obtain ⟨-, -, -, -, h14, hle, -, h6, -, -⟩ := hi
  obtain ⟨r, hr, hd⟩ := parse_spec cfg p
  rw [h] at hr; cases hr
  refine ⟨by omega, hle, ?_, ?_, by omega⟩
  · by_cases h0 : f.offIP6 = 0
    · omega
    · have := h6 h0; omega
  · intro h0
    have h6' := h6 h0
    have hs : (Spec.decode (toSC cfg) p).ip6 = f.offIP6 := by rw [← hd]; rfl
    have hsrc : (Spec.decode (toSC cfg) p).srcIP = f.srcIP := by rw [← hd]; rfl
    have := decode_src6 (toSC cfg) p (by rw [hs]; exact h0)
    rw [hs, hsrc] at this
    rw [this]
    exact slice_drop_field p f.offIP6 (by omega)

/-- the same for the REGENERATED Parse body: every raw frame the session hands to a handler (nil error)
    comes with a record satisfying `ParseOK` -/
theorem parseOK_of_genParse (cfg : Cfg) (p : Bytes) (f : Frame) (h : Gen.genParse cfg p = .ok ⟨f, none⟩) :
    C14Icmp6Tie.ParseOK f p := by
  rw [C01ParseTie.parse_tie] at h
  exact parseOK_of_parse cfg p f h

/-! ### the packet loop over regenerated bodies -/

/-- the packet loop + the regenerated ICMPv6 handler on one raw frame: `frame, err := s.Parse(buf)`; an error
    drops the frame; `frame.PayloadID == PayloadICMP6` → `Handler6.ProcessPacket(frame)` -/
def genH6Frame (e : H6Env) (g : Icmp6Go.G6) (p : Bytes) : Outcome (Icmp6Go.G6 × Disp) := do
  let r ← Gen.genParse e.cfg p
  if r.err.isSome then pure (g, .dropped)
  else if r.frame.pid ≠ Pid.icmp6 then pure (g, .notMine)
  else do
    let (g, ret) ← Gen.Icmp6.Handler6_ProcessPacket e g r.frame p
    pure (g, .ret ret)

/-- **raw frame → regenerated Parse → regenerated `Handler6.ProcessPacket` = `Handlers.h6Frame`**, for every
    environment, every handler state (mutex free, router list keyed uniquely — both maintained, see
    `C14Icmp6Tie`) and every byte string.  No hypothesis about the frame record is left. -/
theorem h6Frame_tie (e : H6Env) (g : Icmp6Go.G6) (p : Bytes) (hmu : g.st.mu = false)
    (hnd : (g.routers.map (·.1)).Nodup) :
    Icmp6Go.omap (fun x => (Icmp6Go.abs x.1, x.2)) (genH6Frame e g p) = h6Frame e (Icmp6Go.abs g) p := by
  unfold genH6Frame h6Frame
  rw [C01ParseTie.parse_tie]
  cases hp : parse e.cfg p with
  | err x => rfl
  | panic => rfl
  | hang => rfl
  | ok r =>
    obtain ⟨f, er⟩ := r
    simp only [Outcome.bind_ok]
    cases er with
    | some x => simp [Icmp6Go.omap]
    | none =>
      simp only [Option.isSome_none, Bool.false_eq_true, if_false]
      by_cases hpid : f.pid ≠ Pid.icmp6
      · simp [hpid, Icmp6Go.omap]
      · simp only [hpid, if_false]
        have ht := C14Icmp6Tie.processPacket_tie e g f p hmu hnd (parseOK_of_parse e.cfg p f hp)
        rw [← ht]
        cases Gen.Icmp6.Handler6_ProcessPacket e g f p with
        | ok x => rfl
        | err x => rfl
        | panic => rfl
        | hang => rfl

/-- the packet loop + the regenerated ARP handler on one raw frame -/
def genArpFrame (e : ArpGo.Env) (st : ArpGo.HSt) (p : Bytes) : Outcome (ArpGo.HSt × Disp) := do
  let r ← Gen.genParse e.cfg.parse p
  if r.err.isSome then pure (st, .dropped)
  else if r.frame.pid ≠ Pid.arp then pure (st, .notMine)
  else do
    let (st, ret) ← Gen.Arp.Handler_ProcessPacket e st r.frame p
    pure (st, .ret ret)

/-- **raw frame → regenerated Parse → regenerated ARP `ProcessPacket` = `Handlers.arpFrame`** (the ARP view of
    the payload is read by the regenerated handler itself from the offset the regenerated Parse stored) -/
theorem arpFrame_tie (e : ArpGo.Env) (st : ArpGo.HSt) (p : Bytes)
    (hoff : ∀ m o, e.offer m = some o → o.length = 4) :
    (genArpFrame e st p >>= fun r => .ok (ArpTie.absM false r.1, r.2)) =
      arpFrame e.toArpEnv (ArpTie.absM false st) p := by
  unfold genArpFrame arpFrame
  rw [C01ParseTie.parse_tie]
  cases hp : parse e.cfg.parse p with
  | err x => rfl
  | panic => rfl
  | hang => rfl
  | ok r =>
    obtain ⟨f, er⟩ := r
    simp only [Outcome.bind_ok]
    cases er with
    | some x => simp
    | none =>
      simp only [Option.isSome_none, Bool.false_eq_true, if_false]
      by_cases hpid : f.pid ≠ Pid.arp
      · simp [hpid]
      · simp only [hpid, if_false]
        have ht := C13ArpTie.processPacket_tie e st f p hoff
        rw [← ht]
        cases Gen.Arp.Handler_ProcessPacket e st f p with
        | ok x => rfl
        | err x => rfl
        | panic => rfl
        | hang => rfl

/-! ### C08 on the regenerated bodies: no raw frame makes the pipeline panic or hang -/

/-- **the regenerated Parse + the regenerated `Handler6.ProcessPacket` return on every byte string**, in every
    handler state satisfying the handler invariant (`C08Handlers.icmp6_frame_total` carried over the tie) -/
theorem genH6Frame_total (e : H6Env) (he : Lemmas.Handlers.H6EnvOK e) (g : Icmp6Go.G6) (hmu : g.st.mu = false)
    (hnd : (g.routers.map (·.1)).Nodup) (hinv : Lemmas.Handlers.Inv6 (Icmp6Go.abs g)) (p : Bytes) :
    ∃ g' d, genH6Frame e g p = .ok (g', d) := by
  have hmu' : (Icmp6Go.abs g).mu = false := hmu
  obtain ⟨st', d, hok, -⟩ := C08Handlers.icmp6_frame_total e he (Icmp6Go.abs g) hmu' hinv p
  have ht := h6Frame_tie e g p hmu hnd
  rw [hok] at ht
  cases hg : genH6Frame e g p with
  | ok x => exact ⟨x.1, x.2, rfl⟩
  | err x => rw [hg] at ht; cases ht
  | panic => rw [hg] at ht; cases ht
  | hang => rw [hg] at ht; cases ht

/-- the same for the ARP handler (`C08Handlers.arp_frame_total` carried over the tie) -/
theorem genArpFrame_total (e : ArpGo.Env) (he : Lemmas.Handlers.ArpEnvOK e.toArpEnv) (st : ArpGo.HSt) (p : Bytes)
    (hoff : ∀ m o, e.offer m = some o → o.length = 4) :
    ∃ st' d, genArpFrame e st p = .ok (st', d) := by
  obtain ⟨st', d, hok, -⟩ := C08Handlers.arp_frame_total e.toArpEnv he (ArpTie.absM false st) rfl p
  have ht := arpFrame_tie e st p hoff
  rw [hok] at ht
  cases hg : genArpFrame e st p with
  | ok x => exact ⟨x.1, x.2, rfl⟩
  | err x => rw [hg] at ht; cases ht
  | panic => rw [hg] at ht; cases ht
  | hang => rw [hg] at ht; cases ht

end PV.Props.ComposeGenHandlers
