/-
  Tie B for C07/C01/C02: constants and address literals of package packet, regenerated from the source on
  every run, against the values the models and the reference decoder use.
-/
import PacketVerif.Gen.Facts
import PacketVerif.Model.Parse
import PacketVerif.Spec.Wire
namespace PV.Props.C07Tie
open PV PV.Model

def expectConsts : List (String × Nat) := [
  ("EthMaxSize", 1522), ("EthHeaderLen", 14), ("EthAddrLen", 6), ("ARPLen", 28), ("HeaderLen", 20),
  ("UDPHeaderLen", 8), ("IP6HeaderLen", 40), ("EthType8021AD", 0x88a8),
  ("ICMP4TypeEchoReply", 0), ("ICMP4TypeEchoRequest", 8), ("ICMP6TypeEchoReply", 129), ("ICMP6TypeEchoRequest", 128),
  ("ARPOperationRequest", 1), ("ARPOperationReply", 2), ("DHCP4ClientPort", 68), ("DHCP4ServerPort", 67),
  ("PayloadEther", Pid.ether), ("Payload8023", Pid.p8023), ("PayloadARP", Pid.arp), ("PayloadIP4", Pid.ip4),
  ("PayloadIP6", Pid.ip6), ("PayloadICMP4", Pid.icmp4), ("PayloadICMP6", Pid.icmp6), ("PayloadUDP", Pid.udp),
  ("PayloadTCP", Pid.tcp), ("PayloadDHCP4", Pid.dhcp4), ("PayloadDHCP6", Pid.dhcp6), ("PayloadDNS", Pid.dns),
  ("PayloadMDNS", Pid.mdns), ("PayloadSSL", Pid.ssl), ("PayloadNTP", Pid.ntp), ("PayloadSSDP", Pid.ssdp),
  ("PayloadWSDP", Pid.wsdp), ("PayloadNBNS", Pid.nbns), ("PayloadPlex", Pid.plex), ("PayloadUbiquiti", Pid.ubiquiti),
  ("PayloadLLMNR", Pid.llmnr), ("PayloadIGMP", Pid.igmp), ("PayloadEthernetPause", Pid.pause), ("PayloadRRCP", Pid.rrcp),
  ("PayloadLLDP", Pid.lldp), ("Payload802_11r", Pid.p80211r), ("PayloadIEEE1905", Pid.ieee1905),
  ("PayloadSonos", Pid.sonos), ("Payload880a", Pid.p880a)]

/-- the constants the models rely on have the values the source declares -/
theorem consts_tie : expectConsts.all (fun (n, v) => Gen.consts.lookup n == some v) = true := by decide

def bytesOf (n : String) : Option (List Nat) := Gen.addrVars.lookup n

/-- the IPv6 group addresses the library sends to, and their Ethernet group MACs (33:33 ‖ last four bytes) -/
theorem groups_tie :
    bytesOf "IP6AllNodesMulticast" = some [0xff,2,0,0,0,0,0,0,0,0,0,0,0,0,0,1] ∧
    bytesOf "Eth6AllNodesMulticast" = some [0x33,0x33,0,0,0,1] ∧
    bytesOf "IP6AllRoutersMulticast" = some [0xff,2,0,0,0,0,0,0,0,0,0,0,0,0,0,2] ∧
    bytesOf "Eth6AllRoutersMulticast" = some [0x33,0x33,0,0,0,2] ∧
    bytesOf "EthernetBroadcast" = some [0xff,0xff,0xff,0xff,0xff,0xff] := by decide

/-- … and each MAC is the one the reference decoder demands for its group -/
theorem group_macs_match :
    Spec.Wire.mcastMAC6 [0xff,2,0,0,0,0,0,0,0,0,0,0,0,0,0,1] = [0x33,0x33,0,0,0,1] ∧
    Spec.Wire.mcastMAC6 [0xff,2,0,0,0,0,0,0,0,0,0,0,0,0,0,2] = [0x33,0x33,0,0,0,2] := by decide

end PV.Props.C07Tie
