/-
  C11 — DHCP never leases one address to two clients or hands out a reserved address.

  All statements are about `Model.Dhcp4Srv.step` (the model of the FIXED code, see
  KNOWN_FINDINGS.txt `fixed:` entries) and quantify over every configuration, every state
  reachable by any sequence of operations (`Reach`), every message with arbitrary field values.
  The ledger (`Spec/Ledger.lean`) is computed from the observed replies only.
  The session clause ("never … an address the session currently tracks for a different MAC") is
  `C11_tracked_full`.
-/
import PacketVerif.Lemmas.Dhcp4Reply
namespace PV.Props.C11
open PV PV.Model.Dhcp4Srv PV.Spec.Ledger PV.Lemmas.Dhcp4Srv

/-- the invariant: lease-table invariant `TInv` (allocated leases of different client ids have
    different addresses, every stored address was validated for the lease's subnet, allocated ⇒ has
    an address, discover ⇒ has an offer, keys unique) -/
def Inv (cfg : Cfg) (s : State) : Prop := TInv cfg s.table

/-- simulation between the observer's ledger and the server state: every acknowledgement still in
    force is backed by an allocated lease of that client with that address that expires no earlier -/
def Sim (s : State) (L : Ledger) : Prop :=
  ∀ b, b ∈ L → ∃ l, (b.cid, l) ∈ s.table ∧ l.state = .allocated ∧ l.ip = some b.ip ∧ b.expiry ≤ l.expiry

/-- runs of the machine together with the observer's ledger -/
def runL (cfg : Cfg) : State → Ledger → List Op → List (State × Ledger)
  | s, L, [] => [(s, L)]
  | s, L, op :: ops => (step cfg s op).flatMap (fun o => runL cfg o.1 (observe L op o.2) ops)

/-- (s, L) is reachable from the empty server by some history -/
def Reach (cfg : Cfg) (s : State) (L : Ledger) : Prop := ∃ ops, (s, L) ∈ runL cfg (init cfg) [] ops

theorem inv_init (cfg : Cfg) : Inv cfg (init cfg) := tinv_nil cfg

/-- **the invariant is preserved by every operation and every admissible outcome** -/
theorem inv_step {cfg : Cfg} {s : State} (h : Inv cfg s) (op : Op) (o : State × List Reply)
    (ho : o ∈ step cfg s op) : Inv cfg o.1 := by
  unfold Inv at *
  cases op <;> simp only [step, List.mem_singleton] at ho <;> subst ho
  · exact tinv_discover h _ _
  · exact tinv_request h _ _
  · exact tinv_decline h _
  · exact tinv_release h _
  · exact h
  · exact h
  · exact tinv_free h _
  · exact h
  · exact h

/-- lifted to all op sequences -/
theorem inv_reachable (cfg : Cfg) : ∀ (ops : List Op) (s : State), Inv cfg s → ∀ s', s' ∈ run cfg s ops → Inv cfg s'
  | [], s, h, s', hs => by simp [run] at hs; rw [hs]; exact h
  | op :: ops, s, h, s', hs => by
    simp only [run, List.mem_flatMap] at hs
    obtain ⟨o, ho, hs'⟩ := hs
    exact inv_reachable cfg ops o.1 (inv_step h op o ho) s' hs'

/-! ### the ledger refinement -/

theorem sim_other {s : State} {L : Ledger} (hS : Sim s L) (c : Cid) (t' : Table)
    (ht : ∀ k l, k ≠ c → (k, l) ∈ s.table → (k, l) ∈ t') (s' : State) (hs' : s'.table = t') :
    Sim s' (L.filter (fun b => b.cid != c)) := by
  intro b hb
  simp only [List.mem_filter, bne_iff_ne, ne_eq] at hb
  obtain ⟨l, hm, r⟩ := hS b hb.1
  exact ⟨l, by rw [hs']; exact ht _ _ hb.2 hm, r⟩

theorem sim_set {s : State} {L : Ledger} (hS : Sim s L) (c : Cid) (v : Lease) (s' : State)
    (hs' : s'.table = setLease s.table c v) : Sim s' (L.filter (fun b => b.cid != c)) :=
  sim_other hS c _ (fun _ _ hk hm => mem_setLease.2 (Or.inr ⟨hk, hm⟩)) s' hs'

/-- **ledger refinement step**: the observer's ledger stays backed by the lease table -/
theorem sim_step {cfg : Cfg} {s : State} {L : Ledger} (_hI : Inv cfg s) (hS : Sim s L) (op : Op)
    (o : State × List Reply) (ho : o ∈ step cfg s op) : Sim o.1 (observe L op o.2) := by
  cases op with
  | discover now m =>
    simp only [step, List.mem_singleton] at ho; subst ho
    rcases discover_outcome cfg s now m with ⟨cur, e⟩ | ⟨s1, ip, _, _, _, e, _⟩ <;> rw [e]
    · simp only [observe, subject, List.filter_nil, List.map_nil, List.append_nil]
      exact sim_other hS _ _ (fun _ _ hk hm => mem_delLease.2 ⟨hk, hm⟩) _ rfl
    · have : ([mkReply cfg m RType.offer (offerLease s now m ip) (some ip)].filter (fun r => r.typ == .ack)) = [] := by
        simp [mkReply]
      simp only [observe, subject, this, List.map_nil, List.append_nil]
      exact sim_set hS _ _ _ rfl
  | request now m =>
    simp only [step, List.mem_singleton] at ho; subst ho
    rcases request_outcome cfg s now m with e | ⟨l', rs, _, e, hn⟩ | ⟨hv, e⟩
    · rw [e]
      simp only [observe, subject, List.filter_nil, List.map_nil, List.append_nil]
      intro b hb
      simp only [List.mem_filter] at hb
      exact hS b hb.1
    · rw [e]
      have : rs.filter (fun r => r.typ == .ack) = [] := by
        apply List.filter_eq_nil_iff.2
        intro r hr; rw [hn r hr]; decide
      simp only [observe, subject, this, List.map_nil, List.append_nil]
      exact sim_set hS _ _ _ rfl
    · rw [e, ackLease_eq]
      have ha := verdict_ack hv
      have hf : ([mkReply cfg m RType.ack (ackedLease cfg now (findOrCreate s (clientId m) m.chaddr))
            (ackedLease cfg now (findOrCreate s (clientId m) m.chaddr)).ip].filter (fun r => r.typ == .ack))
          = [mkReply cfg m RType.ack (ackedLease cfg now (findOrCreate s (clientId m) m.chaddr))
            (ackedLease cfg now (findOrCreate s (clientId m) m.chaddr)).ip] := by
        simp [mkReply]
      simp only [observe, subject, hf, List.map_cons, List.map_nil]
      intro b hb
      rcases List.mem_append.1 hb with hb | hb
      · exact sim_set hS _ _ _ rfl b hb
      · simp only [List.mem_singleton] at hb
        subst hb
        refine ⟨ackedLease cfg now (findOrCreate s (clientId m) m.chaddr), mem_setLease.2 (Or.inl ⟨rfl, rfl⟩), rfl, ?_, ?_⟩
        · simp only [mkReply, ackedLease_ip ha, Option.getD_some]
        · simp only [opNow, leaseSecs_mkReply]
          have : (ackedLease cfg now (findOrCreate s (clientId m) m.chaddr)).expiry
              = now + (cfg.sub (findOrCreate s (clientId m) m.chaddr).sub).dur := rfl
          have hsub : (ackedLease cfg now (findOrCreate s (clientId m) m.chaddr)).sub
              = (findOrCreate s (clientId m) m.chaddr).sub := by
            unfold ackedLease; split <;> rfl
          rw [this, hsub]
          have := Nat.mod_le (cfg.sub (findOrCreate s (clientId m) m.chaddr).sub).dur 4294967296
          omega
  | decline m =>
    simp only [step, List.mem_singleton] at ho; subst ho
    rcases decline_outcome cfg s m with e | e <;> rw [e] <;>
      simp only [observe, subject, List.filter_nil, List.map_nil, List.append_nil] <;>
      exact sim_set hS _ _ _ rfl
  | release m =>
    simp only [step, List.mem_singleton] at ho; subst ho
    simp only [release, observe, subject, List.filter_nil, List.map_nil, List.append_nil]
    exact sim_set hS _ _ _ rfl
  | minuteTick now =>
    simp only [step, List.mem_singleton] at ho; subst ho
    simp only [observe]
    intro b hb
    simp only [List.mem_filter, Bool.not_eq_true', decide_eq_false_iff_not] at hb
    obtain ⟨l, hm, ha, hi, he⟩ := hS b hb.1
    refine ⟨l, ?_, ha, hi, he⟩
    show (b.cid, l) ∈ freeLeases s.table now
    unfold freeLeases
    refine List.mem_map.2 ⟨(b.cid, l), hm, ?_⟩
    have : ¬ l.expiry < now := by omega
    simp [this]
  | capture mac => simp only [step, List.mem_singleton] at ho; subst ho; exact hS
  | releaseCapture mac => simp only [step, List.mem_singleton] at ho; subst ho; exact hS
  | hostSeen ip mac => simp only [step, List.mem_singleton] at ho; subst ho; exact hS
  | hostGone ip => simp only [step, List.mem_singleton] at ho; subst ho; exact hS

theorem reach_inv_sim (cfg : Cfg) : ∀ (ops : List Op) (s : State) (L : Ledger), Inv cfg s → Sim s L →
    ∀ sl, sl ∈ runL cfg s L ops → Inv cfg sl.1 ∧ Sim sl.1 sl.2
  | [], s, L, hI, hS, sl, h => by simp [runL] at h; rw [h]; exact ⟨hI, hS⟩
  | op :: ops, s, L, hI, hS, sl, h => by
    simp only [runL, List.mem_flatMap] at h
    obtain ⟨o, ho, h'⟩ := h
    exact reach_inv_sim cfg ops o.1 _ (inv_step hI op o ho) (sim_step hI hS op o ho) sl h'

theorem reach_ok {cfg : Cfg} {s : State} {L : Ledger} (h : Reach cfg s L) : Inv cfg s ∧ Sim s L := by
  obtain ⟨ops, h⟩ := h
  exact reach_inv_sim cfg ops (init cfg) [] (inv_init cfg) (by intro b hb; simp at hb) (s, L) h

/-- **C11 (a): along every history, no address is acknowledged to two different client identifiers
    at the same time** (ledger built from the replies: ACK adds, any later message of the client that
    is not re-acknowledged and lease expiry remove). -/
theorem ack_unique {cfg : Cfg} {s : State} {L : Ledger} (h : Reach cfg s L) : Unique L := by
  obtain ⟨hI, hS⟩ := reach_ok h
  intro b1 b2 h1 h2 e
  obtain ⟨l1, m1, a1, i1, _⟩ := hS b1 h1
  obtain ⟨l2, m2, a2, i2, _⟩ := hS b2 h2
  exact hI.uniq _ _ _ _ m1 m2 a1 a2 (by rw [i1, i2, e])

/-- the message of a message op -/
def msgOf : Op → Option Msg
  | .discover _ m => some m
  | .request _ m => some m
  | .decline m => some m
  | .release m => some m
  | _ => none

/-- every OFFER / ACK comes from a lease stored for the client in the post-state, in the subnet selected
    by the capture state, carrying exactly the replied address -/
theorem reply_lease {cfg : Cfg} {s : State} (op : Op) (m : Msg) (hm : msgOf op = some m)
    (o : State × List Reply) (ho : o ∈ step cfg s op) (r : Reply) (hr : r ∈ o.2) (ht : r.typ ≠ .nak) :
    ∃ l ip, (clientId m, l) ∈ o.1.table ∧ l.sub = selSub s m.chaddr ∧ r.yiaddr = ip ∧
      r = mkReply cfg m r.typ l (some ip) ∧
      ((r.typ = .offer ∧ l.state = .discover ∧ l.offer = some ip ∧ inUse s.table (clientId m) (some ip) = false)
        ∨ (r.typ = .ack ∧ l.state = .allocated ∧ l.ip = some ip)) := by
  cases op with
  | discover now m' =>
    simp only [msgOf, Option.some.injEq] at hm; subst hm
    simp only [step, List.mem_singleton] at ho; subst ho
    rcases discover_outcome cfg s now m' with ⟨cur, e⟩ | ⟨s1, ip, _, _, _, e, hip⟩ <;> rw [e] at hr ⊢
    · simp at hr
    · simp only [List.mem_singleton] at hr
      subst hr
      obtain ⟨_, e2, _, e4⟩ := discLease_props s now m' _ rfl
      refine ⟨offerLease s now m' ip, ip, mem_setLease.2 (Or.inl ⟨rfl, rfl⟩), ?_, rfl, rfl, Or.inl ⟨rfl, rfl, rfl, ?_⟩⟩
      · show (discLease s now m').sub = _
        rw [e2]; exact findOrCreate_sub _ _ _
      · rcases hip with hk | hav
        · exact (e4 _ hk).1.1
        · exact (available_usable hav).2.1
  | request now m' =>
    simp only [msgOf, Option.some.injEq] at hm; subst hm
    simp only [step, List.mem_singleton] at ho; subst ho
    rcases request_outcome cfg s now m' with e | ⟨l', rs, _, e, hn⟩ | ⟨hv, e⟩
    · rw [e] at hr; simp at hr
    · rw [e] at hr; exact absurd (hn r hr) ht
    · rw [e, ackLease_eq] at hr ⊢
      simp only [List.mem_singleton] at hr
      have ha := verdict_ack hv
      have hip := ackedLease_ip ha now
      subst hr
      refine ⟨_, reqIPOf m', mem_setLease.2 (Or.inl ⟨rfl, rfl⟩), ?_, ?_, ?_, Or.inr ⟨rfl, rfl, hip⟩⟩
      · have : (ackedLease cfg now (findOrCreate s (clientId m') m'.chaddr)).sub
            = (findOrCreate s (clientId m') m'.chaddr).sub := by unfold ackedLease; split <;> rfl
        rw [this]; exact findOrCreate_sub _ _ _
      · simp only [mkReply, hip, Option.getD_some]
      · rw [hip]; rfl
  | decline m' =>
    simp only [step, List.mem_singleton] at ho; subst ho
    rcases decline_outcome cfg s m' with e | e <;> rw [e] at hr <;> simp at hr
  | release m' =>
    simp only [step, List.mem_singleton] at ho; subst ho
    simp [release] at hr
  | minuteTick _ => simp [msgOf] at hm
  | capture _ => simp [msgOf] at hm
  | releaseCapture _ => simp [msgOf] at hm
  | hostSeen _ _ => simp [msgOf] at hm
  | hostGone _ => simp [msgOf] at hm

theorem clientNet_eq (cfg : Cfg) (s : State) (mac : MAC) :
    clientNet cfg (isCaptured s mac) = cfg.sub (selSub s mac) := by
  unfold clientNet selSub
  cases isCaptured s mac <;> rfl

/-- the model's `usable` test excludes exactly the statically reserved addresses of the specification -/
theorem usable_not_reserved {cfg : Cfg} {sub : SubId} {ip : IP} (h : usable cfg sub ip = true) :
    ¬ Reserved cfg (cfg.sub sub) ip := by
  unfold usable at h
  simp only [Bool.and_eq_true, bne_iff_ne, ne_eq, Subnet.contains, Subnet.bcast, Subnet.size, beq_iff_eq] at h
  obtain ⟨⟨⟨⟨⟨h1, h2⟩, h3⟩, _⟩, h5⟩, h6⟩ := h
  unfold Reserved inNet
  intro hr
  rcases hr with hr | hr | hr | hr | hr
  · exact h5 hr
  · exact h6 hr
  · exact h2 hr
  · exact h3 hr
  · exact hr h1

/-- **C11 (c): no OFFER and no ACK ever carries the host's address, the router's address, the network
    or broadcast address of the client's subnet, or an address outside the subnet selected by the
    client's capture state at that moment** — for every reachable state, message and outcome. -/
theorem never_reserved {cfg : Cfg} {s : State} {L : Ledger} (h : Reach cfg s L) (op : Op) (m : Msg)
    (hm : msgOf op = some m) (o : State × List Reply) (ho : o ∈ step cfg s op) (r : Reply) (hr : r ∈ o.2)
    (ht : r.typ ≠ .nak) : ¬ Reserved cfg (clientNet cfg (isCaptured s m.chaddr)) r.yiaddr := by
  obtain ⟨l, ip, hmem, hsub, hy, _, hcase⟩ := reply_lease op m hm o ho r hr ht
  have hok := (inv_step (reach_ok h).1 op o ho).ok _ _ hmem
  rw [clientNet_eq, ← hsub, hy]
  apply usable_not_reserved
  rcases hcase with ⟨_, _, hof, _⟩ | ⟨_, _, hip⟩
  · exact hok.offerUsable _ hof
  · exact hok.ipUsable _ hip

/-- **C11 (b): an address is never offered while it is acknowledged to a different client id** -/
theorem offer_not_acked {cfg : Cfg} {s : State} {L : Ledger} (h : Reach cfg s L) (op : Op) (m : Msg)
    (hm : msgOf op = some m) (o : State × List Reply) (ho : o ∈ step cfg s op) (r : Reply) (hr : r ∈ o.2)
    (ht : r.typ = .offer) : FreeFor L (clientId m) r.yiaddr := by
  obtain ⟨l, ip, _, _, hy, _, hcase⟩ := reply_lease op m hm o ho r hr (by rw [ht]; decide)
  obtain ⟨_, hS⟩ := reach_ok h
  intro b hb hbi
  rcases hcase with ⟨_, _, _, hu⟩ | ⟨ha, _⟩
  · obtain ⟨lb, hmb, hab, hib, _⟩ := hS b hb
    apply Classical.byContradiction
    intro hne
    exact inUse_false hu hmb hne (by rw [hab]; simp) (by rw [hib, hbi, hy])
  · rw [ht] at ha; cases ha

/-- **C11 (a'): an ACK is never sent for an address that is acknowledged to a different client id** -/
theorem ack_not_acked_elsewhere {cfg : Cfg} {s : State} {L : Ledger} (h : Reach cfg s L) (op : Op) (m : Msg)
    (hm : msgOf op = some m) (o : State × List Reply) (ho : o ∈ step cfg s op) (r : Reply) (hr : r ∈ o.2)
    (ht : r.typ = .ack) : FreeFor L (clientId m) r.yiaddr := by
  obtain ⟨l, ip, hmem, _, hy, _, hcase⟩ := reply_lease op m hm o ho r hr (by rw [ht]; decide)
  obtain ⟨hI, hS⟩ := reach_ok h
  have hI' := inv_step hI op o ho
  have hS' := sim_step hI hS op o ho
  intro b hb hbi
  apply Classical.byContradiction
  intro hne
  rcases hcase with ⟨ho', _⟩ | ⟨_, hal, hip⟩
  · rw [ht] at ho'; cases ho'
  · -- b survives in the post-ledger because it belongs to another client
    have hb' : b ∈ observe L op o.2 := by
      cases op <;> simp [msgOf] at hm
      all_goals
        subst hm
        simp only [observe, subject]
        exact List.mem_append_left _ (List.mem_filter.2 ⟨hb, by simpa using hne⟩)
    obtain ⟨lb, hmb, hab, hib, _⟩ := hS' b hb'
    exact hne (hI'.uniq _ _ _ _ hmb hmem hab hal (by rw [hib, hip, hbi, hy]))

/-- freshly chosen offers are unknown to the session: an OFFER carries either an address the session does
    not track at all, or one the client already held (previous offer or current address) -/
theorem fresh_offer_untracked {cfg : Cfg} {s : State} (now : Nat) (m : Msg) (r : Reply)
    (hr : r ∈ (discover cfg s now m).2) :
    sessionKnows s r.yiaddr = none
      ∨ ∃ l, (clientId m, l) ∈ s.table ∧ (l.offer = some r.yiaddr ∨ l.ip = some r.yiaddr) := by
  rcases discover_outcome cfg s now m with ⟨cur, e⟩ | ⟨s1, ip, _, _, _, e, hip⟩ <;> rw [e] at hr
  · simp at hr
  · simp only [List.mem_singleton] at hr
    subst hr
    obtain ⟨_, _, _, e4⟩ := discLease_props s now m _ rfl
    rcases hip with hk | hav
    · right
      rcases findOrCreate_cases s (clientId m) m.chaddr with hm0 | hf
      · exact ⟨_, hm0.1, (e4 _ hk).2⟩
      · have := (e4 _ hk).2
        rw [hf] at this
        simp [freshLease] at this
    · left; exact (available_usable hav).2.2

/-- `Session.FindIP` of the model is the association-list lookup the specification speaks about -/
theorem lookup_eq_sessionKnows (s : State) (ip : IP) : s.hosts.lookup ip = sessionKnows s ip := by
  unfold sessionKnows
  induction s.hosts with
  | nil => rfl
  | cons e es ih =>
    cases e with
    | mk k v =>
      by_cases hk : k = ip
      · subst hk; simp [List.lookup, List.find?]
      · have h1 : (ip == k) = false := by simpa using fun h => hk h.symm
        have h2 : (k == ip) = false := by simpa using hk
        simp only [List.lookup, h1, List.find?, h2]
        exact ih

/-- the specification's `TrackedByOther` is what the code's `takenByOther` test decides -/
theorem trackedByOther_iff (s : State) (ip : IP) (mac : MAC) :
    TrackedByOther s.hosts ip mac ↔ takenByOther s mac (some ip) = true := by
  unfold TrackedByOther takenByOther
  rw [lookup_eq_sessionKnows]
  cases hk : sessionKnows s ip with
  | none => simp [hk]
  | some m' => simp [hk]

/-- **C11 (d), full strength: no OFFER and no ACK — fresh allocation, re-offer of a previous offer or of
    the current address, confirmation by a selecting / renewing / rebinding / rebooting REQUEST — ever
    carries an address the session currently tracks for a MAC other than the client's.**
    (`hosts` is the session as the handler finds it when the message arrives; the rebooting branch asks
    it before `DHCPv4Update` records the address for the requester.)  Before the `fix:` commit recorded in
    KNOWN_FINDINGS.txt (confirm-after-session-conflict) only fresh allocations consulted the session and this
    statement was refuted by a re-offer. -/
theorem C11_tracked_full :
  ∀ (cfg : Cfg) (s : State) (L : Ledger), Reach cfg s L → ∀ (op : Op) (m : Msg), msgOf op = some m →
    ∀ o, o ∈ step cfg s op → ∀ r, r ∈ o.2 → r.typ ≠ .nak → ¬ TrackedByOther s.hosts r.yiaddr m.chaddr := by
  intro cfg s L _ op m hm o ho r hr ht
  rw [trackedByOther_iff]
  cases op with
  | discover now m' =>
    simp only [msgOf, Option.some.injEq] at hm; subst hm
    simp only [step, List.mem_singleton] at ho; subst ho
    rcases discover_outcome cfg s now m' with ⟨cur, e⟩ | ⟨s1, ip, _, _, _, e, hip⟩ <;> rw [e] at hr
    · simp at hr
    · simp only [List.mem_singleton] at hr
      subst hr
      obtain ⟨_, _, _, e4⟩ := discLease_props s now m' _ rfl
      have hy : (mkReply cfg m' RType.offer (offerLease s now m' ip) (some ip)).yiaddr = ip := rfl
      rw [hy]
      rcases hip with hk | hav
      · have := (e4 _ hk).1.2
        rw [findOrCreate_mac] at this
        simp [this]
      · have hn := (available_usable hav).2.2
        simp [takenByOther, hn]
  | request now m' =>
    simp only [msgOf, Option.some.injEq] at hm; subst hm
    simp only [step, List.mem_singleton] at ho; subst ho
    rcases request_outcome cfg s now m' with e | ⟨l', rs, _, e, hn⟩ | ⟨hv, e⟩
    · rw [e] at hr; simp at hr
    · rw [e] at hr; exact absurd (hn r hr) ht
    · rw [e, ackLease_eq] at hr
      simp only [List.mem_singleton] at hr
      have ha := verdict_ack hv
      have hip := ackedLease_ip ha now
      subst hr
      have hy : (mkReply cfg m' RType.ack (ackedLease cfg now (findOrCreate s (clientId m') m'.chaddr))
          (ackedLease cfg now (findOrCreate s (clientId m') m'.chaddr)).ip).yiaddr = reqIPOf m' := by
        simp only [mkReply, hip, Option.getD_some]
      rw [hy]
      have := ha.untracked
      rw [findOrCreate_mac] at this
      simp [this]
  | decline m' =>
    simp only [step, List.mem_singleton] at ho; subst ho
    rcases decline_outcome cfg s m' with e | e <;> rw [e] at hr <;> simp at hr
  | release m' =>
    simp only [step, List.mem_singleton] at ho; subst ho
    simp [release] at hr
  | minuteTick _ => simp [msgOf] at hm
  | capture _ => simp [msgOf] at hm
  | releaseCapture _ => simp [msgOf] at hm
  | hostSeen _ _ => simp [msgOf] at hm
  | hostGone _ => simp [msgOf] at hm

/-- fresh allocations are even unknown to the session altogether (see `fresh_offer_untracked`). -/
theorem C11_tracked_partial {cfg : Cfg} {s : State} (now : Nat) (m : Msg) (r : Reply)
    (hr : r ∈ (discover cfg s now m).2)
    (hnew : ∀ l, (clientId m, l) ∈ s.table → l.offer ≠ some r.yiaddr ∧ l.ip ≠ some r.yiaddr) :
    sessionKnows s r.yiaddr = none := by
  rcases fresh_offer_untracked now m r hr with h | ⟨l, hm, hl⟩
  · exact h
  · rcases hl with hl | hl
    · exact absurd hl (hnew l hm).1
    · exact absurd hl (hnew l hm).2

/-- small concrete configuration: home LAN 0/28 (addresses 0..15), router 1, host 9,
    netfilter pool 8/29 (usable 10..14), primary mode -/
def cfgEx : Cfg :=
  { mode := .primary, host := 9, router := 1,
    net1 := { lan := 0, bits := 28, gw := 1, dns := 1, server := 9, first := 1, dur := 14400 },
    net2 := { lan := 8, bits := 29, gw := 9, dns := 77, server := 9, first := 9, dur := 14400 } }

def msgEx (mac : UInt8) (req : Option Bytes) (srv : Option Bytes) : Msg :=
  { chaddr := [0, 2, 3, 4, 5, mac], cidOpt := none, reqOpt := req, srvOpt := srv, xid := [mac, 0, 0, 1],
    ciaddr := 0, yiaddr := 0, srcIP := 0, bflag := false }

def yiaddrs (cfg : Cfg) (s : State) (ops : List Op) : List (List IP) :=
  match ops with
  | [] => []
  | op :: rest =>
    match step cfg s op with
    | o :: _ => o.2.map (·.yiaddr) :: yiaddrs cfg o.1 rest
    | [] => []

/-- non-vacuity: five captured clients exhaust the /29 pool (10..14), client 1 is acknowledged 10, and the
    sixth client is served by the wrap-around scan, which skips the acknowledged 10 -/
example : yiaddrs cfgEx (init cfgEx)
    ([.capture [0,2,3,4,5,1], .capture [0,2,3,4,5,2], .capture [0,2,3,4,5,3], .capture [0,2,3,4,5,4],
      .capture [0,2,3,4,5,5], .capture [0,2,3,4,5,6]] ++
     [.discover 100 (msgEx 1 none none), .discover 100 (msgEx 2 none none), .discover 100 (msgEx 3 none none),
      .discover 100 (msgEx 4 none none), .discover 100 (msgEx 5 none none),
      .request 100 (msgEx 1 (some [0,0,0,10]) (some [0,0,0,9])),
      .discover 100 (msgEx 6 none none)])
    = [[], [], [], [], [], [], [10], [11], [12], [13], [14], [10], [11]] := by decide

def macA : MAC := [0, 2, 3, 4, 5, 1]
def macB : MAC := [0, 2, 3, 4, 5, 2]

/-- state after: capture A; DISCOVER A (offer 10); the session learns 10 for B -/
def sConflict : State :=
  { table := [(macA, { state := .discover, mac := macA, ip := none, offer := some 10, xid := [1, 0, 0, 1], sub := .net2, expiry := 0 })],
    next1 := 1, next2 := 11, hosts := [(10, macB)], captured := [macA] }

/-- `sConflict` is reachable, and it is the witness of the recorded defect confirm-after-session-conflict
    (corpus/C11/known-confirm-after-session-conflict.ops): the session tracks A's pending offer 10 for B -/
theorem sConflict_reach : Reach cfgEx sConflict [] :=
  ⟨[.capture macA, .discover 100 (msgEx 1 none none), .hostSeen 10 macB], by decide⟩

example : TrackedByOther sConflict.hosts 10 macA := ⟨macB, by decide, by decide⟩

/-- regression of the recorded defect: the repeated DISCOVER of A is no longer answered with the tracked
    address 10 (it was, before the fix) but with a fresh one; A's REQUEST for the old offer is refused;
    and once A holds 11 while the session sees 11 on B, renew / reboot / rebind / select are all refused -/
example : (discover cfgEx sConflict 100 (msgEx 1 none none)).2.map (·.yiaddr) = [11] := by decide

example : (request cfgEx sConflict 100 (msgEx 1 (some [0, 0, 0, 10]) (some [0, 0, 0, 9]))).2.map (·.typ) = [.nak] := by
  decide

def sLeased : State :=
  { table := [(macA, { state := .allocated, mac := macA, ip := some 11, offer := none, xid := [1, 0, 0, 1], sub := .net2,
                       expiry := 14500 })],
    next1 := 1, next2 := 12, hosts := [(11, macB)], captured := [macA] }

example : ([{ msgEx 1 none none with ciaddr := 11, srcIP := 11 },                 -- renewing
            { msgEx 1 none none with ciaddr := 11, srcIP := 4294967295 },         -- rebinding
            msgEx 1 (some [0, 0, 0, 11]) none,                                    -- rebooting
            msgEx 1 (some [0, 0, 0, 11]) (some [0, 0, 0, 9])].map                 -- selecting again
          (fun m => (request cfgEx sLeased 100 m).2.map (·.typ))) = [[.nak], [.nak], [.nak], [.nak]] := by decide

/-- … and all four are acknowledged when the session tracks 11 for A itself or not at all (non-vacuity of the
    confirmations `C11_tracked_full` speaks about) -/
example : ([{ msgEx 1 none none with ciaddr := 11, srcIP := 11 },
            { msgEx 1 none none with ciaddr := 11, srcIP := 4294967295 },
            msgEx 1 (some [0, 0, 0, 11]) none,
            msgEx 1 (some [0, 0, 0, 11]) (some [0, 0, 0, 9])].map
          (fun m => ((request cfgEx { sLeased with hosts := [(11, macA)] } 100 m).2.map (·.typ),
                     (request cfgEx { sLeased with hosts := [] } 100 m).2.map (·.typ))))
    = [([.ack], [.ack]), ([.ack], [.ack]), ([.ack], [.ack]), ([.ack], [.ack])] := by decide

/-- non-vacuity of `Reach` / `ack_unique` / `never_reserved`: a reachable state with a non-empty ledger -/
example : Reach cfgEx
    { table := [(macA, { state := .allocated, mac := macA, ip := some 10, offer := none, xid := [1, 0, 0, 1], sub := .net2,
                         expiry := 14500 })],
      next1 := 1, next2 := 11, hosts := [], captured := [macA] }
    [⟨10, macA, 14500⟩] :=
  ⟨[.capture macA, .discover 100 (msgEx 1 none none), .request 100 (msgEx 1 (some [0, 0, 0, 10]) (some [0, 0, 0, 9]))],
   by decide⟩

/-- non-vacuity of `offer_not_acked`: a second client naming the acknowledged address is offered another one -/
example : (discover cfgEx
    { table := [(macA, { state := .allocated, mac := macA, ip := some 10, offer := none, xid := [1, 0, 0, 1], sub := .net2,
                         expiry := 14500 })],
      next1 := 1, next2 := 11, hosts := [], captured := [macA, macB] } 100 (msgEx 2 (some [0, 0, 0, 10]) none)).2.map (·.yiaddr)
    = [11] := by decide

end PV.Props.C11
